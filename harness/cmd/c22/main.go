// Harness for C22: the real cr/state.Committee (+ State + ProposalManager) — rollback = direct build.
//
// Op language (stateful; one chain per `reset`):
//
//	reset <era>              fresh Committee; era 0 = old CR rules, era 1 = ChangeCommitteeNewCRHeight 0,
//	                         era 4 = DPoS 2.0 election rules from height 22 (DutyPeriod 40, CRClaimPeriod 5);
//	                         era 3 = era 0 with CRVotingStartHeight 0 (rb 0 is a real rollback, not a reset);
//	                         era 2 = era 0 with ProposalCRVotingPeriod 11 (proposal windows reach over a committee change)
//	blk <h> <tx> <tx> …      ProcessBlock of a block built from symbolic transactions; a transaction that
//	                         the (real or mirrored) context check rejects against the state before the block
//	                         is dropped, exactly as the node would never have it in a block
//	     tx: regcr:<i> updcr:<i>:<n> unregcr:<i> votecr:<v>:<i>=<a>,<j>=<b>… unvote:<v>
//	         retdep:<i> fund:<e|a>:<amount> dvote:<k>:<crc|prop|imp>:<x>=<a>,…
//	         prop:<id>:<member> review:<id>:<member>:<a|r> rejvote:<v>:<id>:<amount>
//	         track:<id>:<p|r|t|f>:<stage> withdraw:<id> impeach:<v>:<member>:<amount>
//	rb <k>                   Checkpoint.OnRollbackTo(k) (the entry the node uses; = Committee.RollbackTo(k) for k >= CRVotingStartHeight), compared leaf by leaf (KeyFrame, StateKeyFrame,
//	                         ProposalKeyFrame) with a FRESH Committee that processed only blocks <= k
//
// Output: `h=<state.History.Height()> n=<distinct heights stored>`; the verdict same / diff goes to the oracle.
package main

import (
	"bytes"
	"crypto/elliptic"
	"encoding/hex"
	"fmt"
	"math/big"
	"os"
	"runtime/debug"
	"reflect"
	"sort"
	"strconv"
	"strings"
	"time"

	"elaverif/harness/hx"

	"github.com/elastos/Elastos.ELA/blockchain"
	"github.com/elastos/Elastos.ELA/common"
	"github.com/elastos/Elastos.ELA/common/config"
	"github.com/elastos/Elastos.ELA/core/checkpoint"
	"github.com/elastos/Elastos.ELA/core/contract"
	"github.com/elastos/Elastos.ELA/core/contract/program"
	"github.com/elastos/Elastos.ELA/core/transaction"
	"github.com/elastos/Elastos.ELA/core/types"
	ctypes "github.com/elastos/Elastos.ELA/core/types/common"
	"github.com/elastos/Elastos.ELA/core/types/functions"
	"github.com/elastos/Elastos.ELA/core/types/interfaces"
	"github.com/elastos/Elastos.ELA/core/types/outputpayload"
	"github.com/elastos/Elastos.ELA/core/types/payload"
	crstate "github.com/elastos/Elastos.ELA/cr/state"
	"github.com/elastos/Elastos.ELA/crypto"
	"github.com/elastos/Elastos.ELA/dpos/state"
	elaerr "github.com/elastos/Elastos.ELA/errors"
	"github.com/elastos/Elastos.ELA/p2p"
)

func init() {
	functions.GetTransactionByTxType = transaction.GetTransaction
	functions.GetTransactionByBytes = transaction.GetTransactionByBytes
	functions.CreateTransaction = transaction.CreateTransaction
	functions.GetTransactionParameters = transaction.GetTransactionparameters
}

type key struct {
	priv []byte
	pub  *crypto.PublicKey
	pk   []byte
	code []byte
}

func mkKey(tag, i int) *key {
	d := new(big.Int).SetInt64(int64(3000017*tag + 7919*i + 98765))
	x, y := elliptic.P256().ScalarBaseMult(d.Bytes())
	pub := &crypto.PublicKey{X: x, Y: y}
	pk, _ := pub.EncodePoint(true)
	code, _ := contract.CreateStandardRedeemScript(pub)
	priv := make([]byte, 32)
	b := d.Bytes()
	copy(priv[32-len(b):], b)
	return &key{priv: priv, pub: pub, pk: pk, code: code}
}

func (k *key) sign(data []byte) []byte {
	s, err := crypto.Sign(k.priv, data)
	if err != nil {
		panic("harness: sign " + err.Error())
	}
	return s
}
func (k *key) did() common.Uint168 {
	d, _ := crstate.GetDIDByCode(k.code)
	return *d
}
func (k *key) cid() common.Uint168 {
	d, _ := crstate.GetCIDByCode(k.code)
	return *d
}
func (k *key) standardHash() common.Uint168 {
	ct, _ := contract.CreateStandardContract(k.pub)
	return *ct.ToProgramHash()
}

const nCand = 7

var cands []*key
var owner, sg *key

func init() {
	for i := 0; i < nCand; i++ {
		cands = append(cands, mkKey(3, i))
	}
	owner, sg = mkKey(1, 0), mkKey(2, 0)
}

type blockDesc struct {
	height uint32
	txs    []interfaces.Transaction // the accepted transactions, in block order
}

type world struct {
	era     int
	params  *config.Configuration
	cm      *crstate.Committee
	ckp     *crstate.Checkpoint // the node's entry point for rollbacks (core/checkpoint.Manager -> OnRollbackTo)
	chain   *blockchain.BlockChain
	height  uint32
	blocks  []blockDesc
	nonce   uint32
	voteTxs map[int]interfaces.Transaction
	props   map[int]common.Uint256
	blkUsed common.Fixed64
	replaced bool // a rollback has replaced Candidate objects by copies
	regTxs   map[int]interfaces.Transaction // latest RegisterCR transaction per candidate (its output 0 is the deposit)
	spent    map[common.Uint256]bool        // register txs whose deposit output was taken back
	seen     map[*crstate.Candidate]bool
	reUnreg  map[uint32]bool // heights of blocks with UnregisterCR / UpdateCR on a candidate whose CancelHeight != 0 but which is Pending/Active
}

var w *world

func newWorld(era int) *world {
	p := config.GetDefaultParams()
	p.CRConfiguration.CRVotingStartHeight = 1
	p.CRConfiguration.CRCommitteeStartHeight = 12
	p.CRConfiguration.VotingPeriod = 10
	p.CRConfiguration.DutyPeriod = 30
	p.CRConfiguration.MemberCount = 3
	p.DPoSConfiguration.CRCArbiters = p.DPoSConfiguration.CRCArbiters[0:3]
	p.CRConfiguration.CRAgreementCount = 2
	p.CRConfiguration.ProposalCRVotingPeriod = 3
	p.CRConfiguration.ProposalPublicVotingPeriod = 3
	p.CRConfiguration.DepositLockupBlocks = 4
	p.CRConfiguration.CRCProposalWithdrawPayloadV1Height = 0
	p.CRConfiguration.CRCProposalV1Height = 0
	p.CRConfiguration.RealWithdrawSingleFee = 10000
	p.CRConfiguration.CRClaimDPOSNodeStartHeight = 100000000
	p.DPoSV2StartHeight = 100000000
	p.CRConfiguration.ChangeCommitteeNewCRHeight = 100000000
	if era == 1 {
		p.CRConfiguration.ChangeCommitteeNewCRHeight = 0
	}
	if era == 4 {
		// DPoS 2.0 election rules after the first council: voting period [37,47), the block at 47 chooses the
		// next members (processNextMembers), claim period [47,52], committee change at 52
		p.CRConfiguration.DutyPeriod = 40
		p.CRConfiguration.CRClaimPeriod = 5
		p.DPoSV2StartHeight = 22
	}
	if era == 3 {
		// CR voting from the first block: a rollback to height 0 goes through Committee.RollbackTo(0)
		p.CRConfiguration.CRVotingStartHeight = 0
	}
	if era == 2 {
		// a CR-vote window longer than the voting period: a proposal registered on the last allowed
		// height before the voting period (31) expires in the block that changes the committee (42)
		p.CRConfiguration.ProposalCRVotingPeriod = 11
	}
	ww := &world{era: era, params: p, voteTxs: map[int]interfaces.Transaction{}, props: map[int]common.Uint256{},
		regTxs: map[int]interfaces.Transaction{}, spent: map[common.Uint256]bool{}}
	ckp := checkpoint.NewManager(p)
	cm := crstate.NewCommittee(p, ckp)
	cm.RegisterFuncitons(&crstate.CommitteeFuncsConfig{
		GetTxReference: func(tx interfaces.Transaction) (map[*ctypes.Input]ctypes.Output, error) {
			res := map[*ctypes.Input]ctypes.Output{}
			for _, in := range tx.Inputs() {
				for _, vt := range ww.voteTxs {
					if vt.Hash().IsEqual(in.Previous.TxID) && int(in.Previous.Index) < len(vt.Outputs()) {
						res[in] = *vt.Outputs()[in.Previous.Index]
					}
				}
			}
			return res, nil
		},
		GetHeight: func() uint32 { return ww.height },
		CreateCRAppropriationTransaction: func() (interfaces.Transaction, common.Fixed64, error) { return nil, 0, nil },
		CreateCRAssetsRectifyTransaction: func() (interfaces.Transaction, error) { return nil, fmt.Errorf("none") },
		CreateCRRealWithdrawTransaction: func([]common.Uint256, []*ctypes.OutputInfo) (interfaces.Transaction, error) {
			return nil, fmt.Errorf("none")
		},
		IsCurrent:          func() bool { return false },
		Broadcast:          func(p2p.Message) {},
		AppendToTxpool:     func(interfaces.Transaction) elaerr.ELAError { return nil },
		GetUTXO:            func(*common.Uint168) ([]*ctypes.UTXO, error) { return nil, nil },
		GetCurrentArbiters: func() [][]byte { return nil },
	})
	cm.GetProposalManager().InitSecretaryGeneralPublicKey(hex.EncodeToString(sg.pk))
	st := state.NewState(p, nil, nil, nil, func() bool { return cm.IsInElectionPeriod() }, nil, nil, nil, nil, nil, nil, nil)
	chain := &blockchain.BlockChain{}
	chain.SetState(st)
	chain.SetCRCommittee(cm)
	ww.cm, ww.chain = cm, chain
	ww.ckp = crstate.NewCheckpoint(cm)
	return ww
}

func (w *world) attrs() []*ctypes.Attribute {
	w.nonce++
	return []*ctypes.Attribute{{Usage: ctypes.Nonce, Data: []byte(fmt.Sprintf("n%08d", w.nonce))}}
}

func (w *world) mk(tt ctypes.TxType, pv byte, pl interfaces.Payload, outs []*ctypes.Output, progs []*program.Program) interfaces.Transaction {
	tx := functions.CreateTransaction(9, tt, pv, pl, w.attrs(), []*ctypes.Input{}, outs, 0, progs)
	tx.SetParameters(&transaction.TransactionParameters{
		Transaction: tx, BlockHeight: w.height, TimeStamp: w.height * 120, Config: w.params, BlockChain: w.chain,
		ProposalsUsedAmount: w.blkUsed,
	})
	return tx
}

func checked(tx interfaces.Transaction) interfaces.Transaction {
	if err, _ := tx.SpecialContextCheck(); err != nil {
		return nil
	}
	return tx
}

func ci(s string) int {
	v, err := strconv.Atoi(s)
	if err != nil || v < 0 || v >= nCand {
		panic("harness: bad candidate index " + s)
	}
	return v
}

func voteOutput(vt outputpayload.VoteType, value common.Fixed64, cvs []outputpayload.CandidateVotes) *ctypes.Output {
	return &ctypes.Output{Value: value, ProgramHash: common.Uint168{123}, Type: ctypes.OTVote,
		Payload: &outputpayload.VoteOutput{Version: outputpayload.VoteProducerAndCRVersion,
			Contents: []outputpayload.VoteContent{{VoteType: vt, CandidateVotes: cvs}}}}
}

// build returns the transaction for a symbolic description, or nil when it is not valid on the
// state before the block (usedCand: candidates already touched in this block — changes are deferred).
func (w *world) build(d string, used map[string]bool) interfaces.Transaction {
	p := strings.Split(d, ":")
	cm := w.cm
	h := w.height
	mark := func(k string) bool {
		if used[k] {
			return false
		}
		used[k] = true
		return true
	}
	switch p[0] {
	case "regcr":
		i := ci(p[1])
		k := cands[i]
		nick := fmt.Sprintf("C%d", i)
		if cm.ExistCandidateByNickname(nick) {
			nick = fmt.Sprintf("C%d-again%d", i, w.nonce) // a later registration of the same CID
		}
		if !cm.IsInVotingPeriod(h) || cm.GetCandidate(k.cid()) != nil || cm.ExistCandidateByNickname(nick) || !mark("c"+p[1]) {
			return nil
		}
		info := &payload.CRInfo{Code: k.code, CID: k.cid(), DID: k.did(), NickName: nick, Url: "u", Location: 1}
		buf := new(bytes.Buffer)
		info.SerializeUnsigned(buf, payload.CRInfoVersion)
		info.Signature = k.sign(buf.Bytes())
		dep, _ := contract.PublicKeyToDepositProgramHash(k.pk)
		out := &ctypes.Output{Value: 5000 * 100000000, ProgramHash: *dep, Payload: new(outputpayload.DefaultOutput)}
		tx := w.mk(ctypes.RegisterCR, 0, info, []*ctypes.Output{out}, []*program.Program{{Code: k.code}})
		w.regTxs[i] = tx
		return tx
	case "retdep": // retdep:<i>  ReturnCRDepositCoin spending the deposit output of candidate i's last RegisterCR
		i := ci(p[1])
		k := cands[i]
		reg, ok := w.regTxs[i]
		if !ok || w.spent[reg.Hash()] || !mark("c"+p[1]) {
			return nil
		}
		ref := ctypes.NewOutPoint(reg.Hash(), 0)
		val, live := cm.GetState().DepositOutputs[ref.ReferKey()]
		if !live || cm.GetAvailableDepositAmount(k.cid()) < val {
			return nil // the context check only lets the unlocked part of the deposit go
		}
		tx := w.mk(ctypes.ReturnCRDepositCoin, 0, &payload.ReturnDepositCoin{}, nil, []*program.Program{{Code: k.code}})
		tx.SetInputs([]*ctypes.Input{{Previous: *ref}})
		w.spent[reg.Hash()] = true
		return tx
	case "fund": // fund:<e|a>:<amount>  an output to the CR expenses / CR assets address
		amt, _ := strconv.ParseInt(p[2], 10, 64)
		to := *w.params.CRConfiguration.CRExpensesProgramHash
		if p[1] == "a" {
			to = *w.params.CRConfiguration.CRAssetsProgramHash
		}
		out := &ctypes.Output{Value: common.Fixed64(amt), ProgramHash: to, Payload: new(outputpayload.DefaultOutput)}
		return w.mk(ctypes.TransferAsset, 0, &payload.TransferAsset{}, []*ctypes.Output{out}, nil)
	case "updcr":
		i := ci(p[1])
		k := cands[i]
		c := cm.GetCandidate(k.cid())
		nick := fmt.Sprintf("C%d-%s", i, p[2])
		if c == nil || !(c.State == crstate.Pending || c.State == crstate.Active) || cm.ExistCandidateByNickname(nick) ||
			!cm.IsInVotingPeriod(h) || !mark("c"+p[1]) {
			return nil
		}
		if c.CancelHeight != 0 {
			if w.reUnreg == nil {
				w.reUnreg = map[uint32]bool{}
			}
			w.reUnreg[h] = true
		}
		return w.mk(ctypes.UpdateCR, 0, &payload.CRInfo{Code: k.code, CID: k.cid(), DID: k.did(), NickName: nick, Url: "u2", Location: 2}, nil, nil)
	case "unregcr":
		i := ci(p[1])
		k := cands[i]
		c := cm.GetCandidate(k.cid())
		if c == nil || !(c.State == crstate.Pending || c.State == crstate.Active) || !cm.IsInVotingPeriod(h) || !mark("c"+p[1]) {
			return nil
		}
		if c.CancelHeight != 0 {
			if w.reUnreg == nil {
				w.reUnreg = map[uint32]bool{}
			}
			w.reUnreg[h] = true
		}
		return w.mk(ctypes.UnregisterCR, 0, &payload.UnregisterCR{CID: k.cid()}, nil, nil)
	case "votecr":
		v, _ := strconv.Atoi(p[1])
		if !cm.IsInVotingPeriod(h) {
			return nil
		}
		var cvs []outputpayload.CandidateVotes
		total := common.Fixed64(0)
		for _, x := range strings.Split(p[2], ",") {
			kv := strings.Split(x, "=")
			k := cands[ci(kv[0])]
			c := cm.GetCandidate(k.cid())
			if c == nil || c.State != crstate.Active || used["c"+kv[0]] {
				continue
			}
			a, _ := strconv.Atoi(kv[1])
			cvs = append(cvs, outputpayload.CandidateVotes{Candidate: k.cid().Bytes(), Votes: common.Fixed64(a)})
			total += common.Fixed64(a)
		}
		if len(cvs) == 0 {
			return nil
		}
		tx := w.mk(ctypes.TransferAsset, 0, &payload.TransferAsset{}, []*ctypes.Output{voteOutput(outputpayload.CRC, total, cvs)}, nil)
		w.voteTxs[v] = tx
		return tx
	case "impeach":
		v, _ := strconv.Atoi(p[1])
		k := cands[ci(p[2])]
		m := cm.GetMember(k.did())
		if m == nil || !cm.IsInElectionPeriod() || used["m"+p[2]] {
			return nil
		}
		a, _ := strconv.Atoi(p[3])
		cvs := []outputpayload.CandidateVotes{{Candidate: k.cid().Bytes(), Votes: common.Fixed64(a)}}
		tx := w.mk(ctypes.TransferAsset, 0, &payload.TransferAsset{}, []*ctypes.Output{voteOutput(outputpayload.CRCImpeachment, common.Fixed64(a), cvs)}, nil)
		w.voteTxs[v] = tx
		return tx
	case "rejvote":
		v, _ := strconv.Atoi(p[1])
		id, _ := strconv.Atoi(p[2])
		ph, ok := w.props[id]
		if !ok {
			return nil
		}
		ps := cm.GetProposal(ph)
		if ps == nil || ps.Status != crstate.CRAgreed || used["p"+p[2]] {
			return nil
		}
		a, _ := strconv.Atoi(p[3])
		cvs := []outputpayload.CandidateVotes{{Candidate: ph.Bytes(), Votes: common.Fixed64(a)}}
		tx := w.mk(ctypes.TransferAsset, 0, &payload.TransferAsset{}, []*ctypes.Output{voteOutput(outputpayload.CRCProposal, common.Fixed64(a), cvs)}, nil)
		w.voteTxs[v] = tx
		return tx
	case "dvote": // dvote:<k>:<crc|prop|imp>:<x>=<a>,…   Voting tx (payload VoteVersion) from the stake address of key k
		k := cands[ci(p[1])]
		var vt outputpayload.VoteType
		var vi []payload.VotesWithLockTime
		for _, x := range strings.Split(p[3], ",") {
			kv := strings.Split(x, "=")
			a, _ := strconv.Atoi(kv[1])
			var cand []byte
			switch p[2] {
			case "crc":
				vt = outputpayload.CRC
				c := cm.GetCandidate(cands[ci(kv[0])].cid())
				if !cm.IsInVotingPeriod(h) || c == nil || c.State != crstate.Active || used["c"+kv[0]] {
					continue
				}
				cand = cands[ci(kv[0])].cid().Bytes()
			case "prop":
				vt = outputpayload.CRCProposal
				id, _ := strconv.Atoi(kv[0])
				ph, ok := w.props[id]
				if !ok {
					continue
				}
				if ps := cm.GetProposal(ph); ps == nil || ps.Status != crstate.CRAgreed {
					continue
				}
				cand = ph.Bytes()
			case "imp":
				vt = outputpayload.CRCImpeachment
				if cm.GetMember(cands[ci(kv[0])].did()) == nil || !cm.IsInElectionPeriod() {
					continue
				}
				cand = cands[ci(kv[0])].cid().Bytes()
			default:
				panic("harness: unknown vote type " + p[2])
			}
			vi = append(vi, payload.VotesWithLockTime{Candidate: cand, Votes: common.Fixed64(a), LockTime: 1000000})
		}
		if len(vi) == 0 || !mark("s"+p[1]+p[2]) {
			return nil
		}
		// the votes this stake address cast before are cancelled first: they must still refer to live objects
		// (State.processCancelVoteCRC dereferences the candidate without a nil check)
		sct, _ := contract.CreateStakeContractByCode(k.code)
		sa := *sct.ToProgramHash()
		st := cm.GetState()
		for _, v := range st.UsedCRVotes[sa] {
			cid, err := common.Uint168FromBytes(v.Candidate)
			if p[2] == "crc" && (err != nil || cm.GetCandidate(*cid) == nil) {
				return nil
			}
		}
		for _, v := range st.UsedCRImpeachmentVotes[sa] {
			cid, err := common.Uint168FromBytes(v.Candidate)
			if p[2] == "imp" && (err != nil || cm.GetMember(*cid) == nil && memberByCID(cm, *cid) == nil) {
				return nil
			}
		}
		return w.mk(ctypes.Voting, payload.VoteVersion, &payload.Voting{Contents: []payload.VotesContent{{VoteType: vt, VotesInfo: vi}}},
			nil, []*program.Program{{Code: k.code}})
	case "unvote":
		v, _ := strconv.Atoi(p[1])
		prev, ok := w.voteTxs[v]
		if !ok || !mark("v"+p[1]) {
			return nil
		}
		ref := ctypes.NewOutPoint(prev.Hash(), 0)
		if _, live := cm.GetState().Votes[ref.ReferKey()]; !live {
			return nil
		}
		tx := w.mk(ctypes.TransferAsset, 0, &payload.TransferAsset{}, nil, nil)
		tx.SetInputs([]*ctypes.Input{{Previous: *ref}})
		return tx
	case "prop":
		id, _ := strconv.Atoi(p[1])
		if _, dup := w.props[id]; dup {
			return nil
		}
		m := cands[ci(p[2])]
		if cm.GetMember(m.did()) == nil {
			return nil
		}
		draft := []byte(fmt.Sprintf("draft-%d-%d", w.era, id))
		pl := &payload.CRCProposal{
			ProposalType: payload.Normal, CategoryData: "c", OwnerKey: owner.pk, DraftData: draft, DraftHash: common.Hash(draft),
			Budgets: []payload.Budget{{Type: payload.Imprest, Stage: 0, Amount: 100000}, {Type: payload.NormalPayment, Stage: 1, Amount: 200000},
				{Type: payload.FinalPayment, Stage: 2, Amount: 300000}},
			Recipient: owner.standardHash(), CRCouncilMemberDID: m.did(),
		}
		pv := payload.CRCProposalVersion01
		buf := new(bytes.Buffer)
		pl.SerializeUnsigned(buf, pv)
		pl.Signature = owner.sign(buf.Bytes())
		common.WriteVarBytes(buf, pl.Signature)
		pl.CRCouncilMemberDID.Serialize(buf)
		pl.CRCouncilMemberSignature = m.sign(buf.Bytes())
		tx := checked(w.mk(ctypes.CRCProposal, pv, pl, nil, nil))
		if tx != nil {
			blockchain.RecordCRCProposalAmount(&w.blkUsed, tx)
			w.props[id] = pl.Hash(pv)
		}
		return tx
	case "review":
		id, _ := strconv.Atoi(p[1])
		ph, ok := w.props[id]
		m := cands[ci(p[2])]
		if !ok || !mark("r"+p[1]+"-"+p[2]) {
			return nil
		}
		res := payload.Approve
		if p[3] == "r" {
			res = payload.Reject
		}
		op := []byte("opinion")
		pl := &payload.CRCProposalReview{ProposalHash: ph, VoteResult: res, OpinionData: op, OpinionHash: common.Hash(op), DID: m.did()}
		buf := new(bytes.Buffer)
		pl.SerializeUnsigned(buf, payload.CRCProposalReviewVersion01)
		pl.Signature = m.sign(buf.Bytes())
		return checked(w.mk(ctypes.CRCProposalReview, payload.CRCProposalReviewVersion01, pl, nil, []*program.Program{{Code: m.code}}))
	case "track":
		id, _ := strconv.Atoi(p[1])
		ph, ok := w.props[id]
		if !ok || !mark("p"+p[1]) {
			return nil
		}
		tt := map[string]payload.CRCProposalTrackingType{"p": payload.Progress, "t": payload.Terminated, "f": payload.Finalized, "r": payload.Rejected}[p[2]]
		stage, _ := strconv.Atoi(p[3])
		msg := []byte(fmt.Sprintf("msg-%d", w.nonce))
		op := []byte("opinion")
		pl := &payload.CRCProposalTracking{
			ProposalHash: ph, MessageData: msg, MessageHash: common.Hash(msg), Stage: uint8(stage), OwnerKey: owner.pk,
			ProposalTrackingType: tt, SecretaryGeneralOpinionData: op, SecretaryGeneralOpinionHash: common.Hash(op),
		}
		pv := payload.CRCProposalTrackingVersion01
		buf := new(bytes.Buffer)
		pl.SerializeUnsigned(buf, pv)
		pl.OwnerSignature = owner.sign(buf.Bytes())
		common.WriteVarBytes(buf, pl.OwnerSignature)
		common.WriteVarBytes(buf, pl.NewOwnerSignature)
		buf.Write([]byte{byte(tt)})
		pl.SecretaryGeneralOpinionHash.Serialize(buf)
		common.WriteVarBytes(buf, pl.SecretaryGeneralOpinionData)
		pl.SecretaryGeneralSignature = sg.sign(buf.Bytes())
		return checked(w.mk(ctypes.CRCProposalTracking, pv, pl, nil, nil))
	case "withdraw":
		id, _ := strconv.Atoi(p[1])
		ph, ok := w.props[id]
		if !ok || !mark("p"+p[1]) {
			return nil
		}
		amt := cm.AvailableWithdrawalAmount(ph)
		pl := &payload.CRCProposalWithdraw{ProposalHash: ph, OwnerKey: owner.pk, Recipient: owner.standardHash(), Amount: amt}
		pv := payload.CRCProposalWithdrawVersion01
		buf := new(bytes.Buffer)
		pl.SerializeUnsigned(buf, pv)
		pl.Signature = owner.sign(buf.Bytes())
		tx := w.mk(ctypes.CRCProposalWithdraw, pv, pl, nil, []*program.Program{{Code: owner.code, Parameter: []byte{0}}})
		in := &ctypes.Input{Previous: ctypes.OutPoint{TxID: common.Hash([]byte(fmt.Sprintf("fee-%d", w.nonce))), Index: 0}}
		tx.SetInputs([]*ctypes.Input{in})
		tx.SetReferences(map[*ctypes.Input]ctypes.Output{in: {ProgramHash: owner.standardHash(), Value: 1000}})
		return checked(tx)
	}
	panic("harness: unknown tx " + d)
}

// noteCandidates records the identity of every Candidate object in the state and reports whether
// one of them had never been seen before.
func (w *world) noteCandidates() (fresh bool) {
	if w.seen == nil {
		w.seen = map[*crstate.Candidate]bool{}
	}
	for _, v := range w.cm.GetState().Candidates {
		if !w.seen[v] {
			fresh = true
			w.seen[v] = true
		}
	}
	return
}

func memberByCID(cm *crstate.Committee, cid common.Uint168) *crstate.CRMember {
	for _, m := range cm.GetAllMembersCopy() {
		if m.Info.CID.IsEqual(cid) {
			return m
		}
	}
	return nil
}

func (w *world) processBlock(b blockDesc) {
	w.height = b.height
	blk := &types.Block{Header: ctypes.Header{Height: b.height, Timestamp: b.height * 120}, Transactions: b.txs}
	w.cm.ProcessBlock(blk, nil)
}

// ---------------------------------------------------------------- canonical leaves (reflect, maps by key)

func canon(v reflect.Value, depth int) string {
	if depth > 12 {
		return "…"
	}
	switch v.Kind() {
	case reflect.Ptr, reflect.Interface:
		if v.IsNil() {
			return "nil"
		}
		return canon(v.Elem(), depth+1)
	case reflect.Struct:
		var b []string
		for i := 0; i < v.NumField(); i++ {
			b = append(b, v.Type().Field(i).Name+"="+canon(v.Field(i), depth+1))
		}
		return "{" + strings.Join(b, " ") + "}"
	case reflect.Map:
		var ents []string
		it := v.MapRange()
		for it.Next() {
			ents = append(ents, canon(it.Key(), depth+1)+":"+canon(it.Value(), depth+1))
		}
		sort.Strings(ents)
		return "map[" + strings.Join(ents, " ") + "]"
	case reflect.Slice, reflect.Array:
		if v.Type().Elem().Kind() == reflect.Uint8 {
			var sb strings.Builder
			for i := 0; i < v.Len(); i++ {
				fmt.Fprintf(&sb, "%02x", v.Index(i).Uint())
			}
			return "x" + sb.String()
		}
		var b []string
		for i := 0; i < v.Len(); i++ {
			b = append(b, canon(v.Index(i), depth+1))
		}
		return "[" + strings.Join(b, " ") + "]"
	case reflect.String:
		return strconv.Quote(v.String())
	case reflect.Bool:
		return strconv.FormatBool(v.Bool())
	case reflect.Int, reflect.Int8, reflect.Int16, reflect.Int32, reflect.Int64:
		return strconv.FormatInt(v.Int(), 10)
	case reflect.Uint, reflect.Uint8, reflect.Uint16, reflect.Uint32, reflect.Uint64, reflect.Uintptr:
		return strconv.FormatUint(v.Uint(), 10)
	case reflect.Float32, reflect.Float64:
		return strconv.FormatInt(int64(v.Float()*1e8), 10)
	}
	return "-"
}

func flat(v reflect.Value, path string, out map[string]string, depth int) {
	if depth > 14 {
		out[path] = "…"
		return
	}
	switch v.Kind() {
	case reflect.Ptr, reflect.Interface:
		if v.IsNil() {
			out[path] = "nil"
			return
		}
		flat(v.Elem(), path, out, depth+1)
	case reflect.Struct:
		if v.NumField() == 0 {
			out[path] = "{}"
		}
		for i := 0; i < v.NumField(); i++ {
			flat(v.Field(i), path+"."+v.Type().Field(i).Name, out, depth+1)
		}
	case reflect.Map:
		out[path+".len"] = strconv.Itoa(v.Len())
		it := v.MapRange()
		for it.Next() {
			kp := path + "[" + canon(it.Key(), 0) + "]"
			out[kp+"#"] = "present"
			flat(it.Value(), kp, out, depth+1)
		}
	case reflect.Slice, reflect.Array:
		if v.Type().Elem().Kind() == reflect.Uint8 {
			out[path] = canon(v, 0)
			return
		}
		out[path+".len"] = strconv.Itoa(v.Len())
		for i := 0; i < v.Len(); i++ {
			flat(v.Index(i), path+"["+strconv.Itoa(i)+"]", out, depth+1)
		}
	default:
		out[path] = canon(v, 0)
	}
}

func (w *world) leaves() map[string]string {
	res := map[string]string{}
	flat(reflect.ValueOf(&w.cm.KeyFrame).Elem(), "K", res, 0)
	flat(reflect.ValueOf(&w.cm.GetState().StateKeyFrame).Elem(), "S", res, 0)
	flat(reflect.ValueOf(&w.cm.GetProposalManager().ProposalKeyFrame).Elem(), "P", res, 0)
	return res
}

// leafName strips map keys / indices: `S.Candidates[k].Votes` -> `S.Candidates[].Votes`
func leafName(path string) string {
	path = strings.TrimSuffix(path, "#")
	var b strings.Builder
	depth := 0
	for _, c := range path {
		switch {
		case c == '[':
			depth++
			if depth == 1 {
				b.WriteString("[]")
			}
		case c == ']':
			depth--
		case depth == 0:
			b.WriteRune(c)
		}
	}
	n := b.String()
	if strings.HasSuffix(n, ".len") {
		n = n[:len(n)-4] + "[]"
	}
	return n
}

func diffLeaves(a, b map[string]string) (names []string, detail map[string][2]string) {
	detail = map[string][2]string{}
	leafs := map[string]bool{}
	// map entries present on one side only: reported once as `M[+]` (only in the rolled-back state; `M[+0]` when
	// the extra entry is all zero / an empty container) or `M[-]` (missing in it); `.len` leaves are implied
	zeroEntry := func(m map[string]string, prefix string) bool {
		numeric := false
		for pth, v := range m {
			if strings.HasPrefix(pth, prefix) && !strings.HasSuffix(pth, "#") {
				if v == "0" {
					numeric = true
				} else if strings.HasSuffix(pth, ".len") || (v != "{}" && v != "false" && v != "nil") {
					return false
				}
			}
		}
		return numeric
	}
	var missing []string
	noteEntry := func(pth, tag, va, vb string) {
		n := leafName(pth)
		n = n[:len(n)-1] + tag + "]"
		leafs[n] = true
		if _, seen := detail[n]; !seen {
			detail[n] = [2]string{va, vb}
		}
	}
	for pth := range a {
		if strings.HasSuffix(pth, "#") {
			if _, ok := b[pth]; !ok {
				missing = append(missing, pth[:len(pth)-1])
				tag := "+"
				if zeroEntry(a, pth[:len(pth)-1]) {
					tag = "+0"
				}
				noteEntry(pth, tag, pth[:len(pth)-1]+" present", "absent")
			}
		}
	}
	for pth := range b {
		if strings.HasSuffix(pth, "#") {
			if _, ok := a[pth]; !ok {
				missing = append(missing, pth[:len(pth)-1])
				noteEntry(pth, "-", pth[:len(pth)-1]+" absent", "present")
			}
		}
	}
	under := func(pth string) bool {
		if strings.HasSuffix(pth, ".len") || strings.HasSuffix(pth, "#") {
			return true
		}
		for _, m := range missing {
			if strings.HasPrefix(pth, m) {
				return true
			}
		}
		return false
	}
	note := func(pth, va, vb string) {
		n := leafName(pth)
		leafs[n] = true
		if _, seen := detail[n]; !seen {
			detail[n] = [2]string{pth + "=" + va, vb}
		}
	}
	for pth, va := range a {
		if under(pth) {
			continue
		}
		if vb, ok := b[pth]; !ok {
			note(pth, va, "absent")
		} else if vb != va {
			note(pth, va, vb)
		}
	}
	for pth, vb := range b {
		if under(pth) {
			continue
		}
		if _, ok := a[pth]; !ok {
			note(pth, "absent", vb)
		}
	}
	for n := range leafs {
		names = append(names, n)
	}
	sort.Strings(names)
	return
}

func status(w *world) string {
	seen := map[uint32]bool{}
	hv := w.cm.GetState().History.VerifView()
	for _, en := range hv.Entries {
		seen[en[0]] = true
	}
	return fmt.Sprintf("h=%d n=%d", hv.Height, len(seen))
}

var lastVerdict string
var lastDetail map[string][2]string
var lastAccepted, lastOffered int

// Committee.ProcessBlock holds its mutex without defer: a panic inside it would block every later call
func exec(t []string) string {
	done := make(chan string, 1)
	var pan interface{}
	go func() {
		defer func() {
			if r := recover(); r != nil {
				pan = r
				done <- "panic"
			}
		}()
		done <- exec1(t)
	}()
	select {
	case out := <-done:
		if pan != nil {
			panic(pan)
		}
		return out
	case <-time.After(90 * time.Second):
		if t[0] == "rb" {
			// a rollback that does not return (it still holds the committee's lock): an answer of the implementation
			dead = true
			return "hang"
		}
		fmt.Fprintln(os.Stderr, "HARNESS BUG: harness: Committee call blocked on op", strings.Join(t, " "))
		os.Exit(3)
	}
	return ""
}

var dead bool // the committee under test is blocked for ever; every op until the next reset answers "dead"

func exec1(t []string) string {
	if t[0] == "reset" {
		dead = false
	} else if dead {
		return "dead"
	}
	if os.Getenv("HX_STACK") != "" {
		defer func() {
			if r := recover(); r != nil {
				fmt.Fprintln(os.Stderr, "PANIC", r, string(debug.Stack()))
				panic(r)
			}
		}()
	}
	switch t[0] {
	case "reset":
		era := 0
		if len(t) > 1 {
			era, _ = strconv.Atoi(t[1])
		}
		w = newWorld(era)
		return status(w)
	case "blk":
		hh, _ := strconv.Atoi(t[1])
		w.height = uint32(hh)
		w.blkUsed = 0
		used := map[string]bool{}
		b := blockDesc{height: uint32(hh)}
		for _, d := range t[2:] {
			if tx := w.build(d, used); tx != nil {
				b.txs = append(b.txs, tx)
			}
		}
		lastOffered, lastAccepted = len(t)-2, len(b.txs)
		w.processBlock(b)
		w.noteCandidates()
		w.blocks = append(w.blocks, b)
		return status(w)
	case "rb":
		k64, _ := strconv.Atoi(t[1])
		k := uint32(k64)
		// does this rollback replace Candidate objects by copies (undo of the "new voting period /
		// new committee" step restores a copied map)?  Closures recorded at lower heights keep
		// pointing at the old objects.  Sticky until the world is re-synchronised.
		// a rollback across a committee change or a (re)start of a voting period restores COPIES of the
		// candidate objects (committee.go:1749-1776); sticky until the world is re-synchronised
		if w.cm.LastCommitteeHeight > k || w.cm.LastVotingStartHeight > k {
			w.replaced = true
		}
		lastReUnreg = false
		for hh := range w.reUnreg {
			if hh > k {
				lastReUnreg = true
				delete(w.reUnreg, hh)
			}
		}
		err := w.ckp.OnRollbackTo(k) // = Committee.RollbackTo(k) for k >= CRVotingStartHeight, a reset below it
		if w.noteCandidates() {
			w.replaced = true // the rollback created Candidate objects no block ever created
		}
		lastCrossed = w.replaced
		if err != nil {
			return status(w) + " err"
		}
		fresh := newWorld(w.era)
		fresh.voteTxs = w.voteTxs // the chain's previous-output lookup (by tx hash)
		var keep []blockDesc
		for _, b := range w.blocks {
			if b.height <= k {
				fresh.processBlock(b)
				keep = append(keep, b)
			}
		}
		w.blocks = keep
		w.height = k
		names, det := diffLeaves(w.leaves(), fresh.leaves())
		lastDetail = det
		lastVerdict = "same"
		if len(names) > 0 {
			lastVerdict = "diff " + strings.Join(names, ",")
			// continue from the direct build, so that every later comparison is an independent
			// experiment and not the echo of this difference
			fresh.blocks, fresh.props, fresh.nonce = w.blocks, w.props, w.nonce
			fresh.regTxs, fresh.spent, fresh.reUnreg = w.regTxs, w.spent, w.reUnreg
			fresh.noteCandidates()
			w = fresh
		}
		return status(w)
	}
	panic("harness: unknown op " + t[0])
}

// ---------------------------------------------------------------- oracle: the property itself

// leaf names of the differences recorded in known-findings.jsonl (only used to order the report)
var reportedN = map[string]int{}
var lastCrossed, lastReUnreg bool

// UnregisterCR in the block in which the pending candidate is activated leaves it Active with CancelHeight set and
// its nickname released; the rollback of a later UnregisterCR / UpdateCR on it writes constants
var reUnregLeaf = map[string]bool{"S.Candidates[].CancelHeight": true, "S.Candidates[].State": true, "S.Nicknames[+]": true, "S.Nicknames[-]": true}

// fields of the objects (candidates, council members) that the rollback of a committee change /
// voting-period start replaces by copies
func staleLeaf(leaf string) bool {
	return strings.HasPrefix(leaf, "S.Candidates[].") || strings.HasPrefix(leaf, "K.Members[].") ||
		strings.HasPrefix(leaf, "S.HistoryCandidates[][].") ||
		leaf == "S.Nicknames[+]" || leaf == "S.Nicknames[-]" // unregisterCR / updateCandidateInfo add and delete nicknames read from the orphaned objects
}

func recorded(leaf string) bool {
	if leaf == "S.DepositOutputs[+]" || leaf == "S.UsedCRVotes[+0]" || leaf == "S.UsedCRCProposalVotes[+0]" || leaf == "S.UsedCRImpeachmentVotes[+0]" {
		return true
	}
	// undo closures of earlier heights act on Candidate objects that the rollback of a committee
	// change replaced by copies: any candidate field may be left un-restored
	if lastCrossed && staleLeaf(leaf) {
		return true
	}
	if lastReUnreg && reUnregLeaf[leaf] {
		return true
	}
	return false
}

func oracle(t []string, out string) *hx.Violation {
	if t[0] != "rb" {
		return nil
	}
	if out == "panic" {
		return &hx.Violation{Kind: "rollback-panic", Detail: hx.LastPanic()}
	}
	if out == "hang" {
		return &hx.Violation{Kind: "rollback-hangs", Detail: "Checkpoint.OnRollbackTo(" + t[1] + ") did not return within 90 s"}
	}
	if out == "dead" {
		return nil
	}
	f := strings.Fields(lastVerdict)
	if len(f) < 2 || f[0] != "diff" {
		return nil
	}
	fields := strings.Split(f[1], ",")
	first := ""
	for _, n := range fields {
		if !recorded(n) {
			first = n
			break
		}
	}
	if first == "" {
		for _, n := range fields {
			key := n
			if staleLeaf(n) {
				key = "S.Candidates[]"
			}
			if reportedN[key] < 3 {
				first = n
				reportedN[key]++
				break
			}
		}
		if first == "" {
			return nil
		}
	}
	det := ""
	for _, n := range fields {
		d := lastDetail[n]
		det += fmt.Sprintf("%s: rolled-back %s, direct build %s; ", n, d[0], d[1])
	}
	if len(det) > 1500 {
		det = det[:1500] + "…"
	}
	det = fmt.Sprintf("candidate-objects-replaced=%v second-unregister=%v; ", lastCrossed, lastReUnreg) + det
	if lastReUnreg && reUnregLeaf[first] {
		first = "second-unregister"
	} else if lastCrossed && staleLeaf(first) {
		first = "S.Candidates[]:stale-object" // one finding, whatever candidate / member field shows it
	}
	return &hx.Violation{Kind: "rollback-differs:" + first, Detail: "Committee after RollbackTo(" + t[1] + ") differs from a fresh Committee that processed only heights <= " + t[1] + ": " + det}
}

// ---------------------------------------------------------------- generator

func gen(g *hx.Gen) {
	r := g.R
	for it := 0; it < g.N(90, 1500); it++ {
		era := []int{0, 1, 2, 0, 1, 2, 4}[r.Intn(7)]
		g.Emit("reset %d", era)
		h := uint32(0)
		votes, props := 0, 0
		var heights []uint32
		nblk := 20 + r.Intn(70)
		if it%3 != 0 {
			nblk = 5 + r.Intn(14) // short histories: minimal witnesses
		}
		for b := 0; b < nblk; b++ {
			h++
			var txs []string
			ntx := r.Intn(4)
			if h < 6 {
				ntx = 2 + r.Intn(2)
			}
			if h == 1 {
				txs = append(txs, "fund:e:500000000000", "fund:a:5000000000000")
			}
			if r.Chance(6) {
				txs = append(txs, fmt.Sprintf("retdep:%d", r.Intn(nCand)))
			}
			if r.Chance(14) { // Voting transactions from stake addresses (few addresses, so lists get replaced)
				switch r.Intn(3) {
				case 0:
					var cs []string
					for j := 0; j < nCand; j++ {
						if r.Chance(50) {
							cs = append(cs, fmt.Sprintf("%d=%d", j, 1+r.Intn(40)))
						}
					}
					if len(cs) > 0 {
						txs = append(txs, fmt.Sprintf("dvote:%d:crc:%s", r.Intn(2), strings.Join(cs, ",")))
					}
				case 1:
					if props > 0 {
						var cs []string
						for j := max(0, props-4); j < props; j++ {
							if r.Chance(70) {
								cs = append(cs, fmt.Sprintf("%d=%d", j, 1+r.Intn(1000)))
							}
						}
						if len(cs) > 0 {
							txs = append(txs, fmt.Sprintf("dvote:%d:prop:%s", r.Intn(2), strings.Join(cs, ",")))
						}
					}
				default:
					txs = append(txs, fmt.Sprintf("dvote:%d:imp:%d=%d", r.Intn(2), r.Intn(nCand), 1+r.Intn(500)))
				}
			}
			for k := 0; k < ntx; k++ {
				i := r.Intn(nCand)
				switch c := r.Intn(20); {
				case c < 4:
					txs = append(txs, fmt.Sprintf("regcr:%d", i))
				case c < 5:
					txs = append(txs, fmt.Sprintf("updcr:%d:%d", i, r.Intn(50)))
				case c < 6:
					txs = append(txs, fmt.Sprintf("unregcr:%d", i))
				case c < 9:
					var cs []string
					for j := 0; j < nCand; j++ {
						if r.Chance(55) {
							cs = append(cs, fmt.Sprintf("%d=%d", j, 1+r.Intn(40)))
						}
					}
					if len(cs) > 0 {
						txs = append(txs, fmt.Sprintf("votecr:%d:%s", votes, strings.Join(cs, ",")))
						votes++
					}
				case c < 10:
					if votes > 0 {
						txs = append(txs, fmt.Sprintf("unvote:%d", r.Intn(votes)))
					}
				case c < 13:
					txs = append(txs, fmt.Sprintf("prop:%d:%d", props, i))
					props++
				case c < 16:
					if props > 0 {
						id := r.Intn(props)
						if r.Chance(60) {
							id = props - 1 - r.Intn(min(props, 3))
						}
						res := "a"
						if r.Chance(25) {
							res = "r"
						}
						txs = append(txs, fmt.Sprintf("review:%d:%d:%s", id, i, res))
					}
				case c < 17:
					if props > 0 {
						txs = append(txs, fmt.Sprintf("track:%d:%s:%d", r.Intn(props), []string{"p", "p", "r", "f", "t"}[r.Intn(5)], r.Intn(3)))
					}
				case c < 18:
					if props > 0 {
						txs = append(txs, fmt.Sprintf("withdraw:%d", r.Intn(props)))
					}
				case c < 19:
					txs = append(txs, fmt.Sprintf("impeach:%d:%d:%d", votes, i, 1+r.Intn(1000)))
					votes++
				default:
					if props > 0 {
						amt := 1 + r.Intn(100000)
						if r.Chance(50) {
							amt = 400000000000000 // above the public-vote rejection threshold (10 % of the circulation)
						}
						txs = append(txs, fmt.Sprintf("rejvote:%d:%d:%d", votes, r.Intn(props), amt))
						votes++
					}
				}
			}
			g.Emit("blk %d %s", h, strings.Join(txs, " "))
			heights = append(heights, h)
			if r.Chance(10) && len(heights) > 1 {
				d := 1 + r.Intn(3)
				if r.Chance(25) {
					d = 1 + r.Intn(len(heights)-1)
				}
				if d >= len(heights) {
					d = len(heights) - 1
				}
				k := heights[len(heights)-1-d]
				g.Emit("rb %d", k)
				heights = heights[:len(heights)-d]
				h = k
			}
		}
		// final: roll back step by step over the last heights, then deep
		steps := 0
		for i := len(heights) - 2; i >= 0 && steps < 12; i-- {
			g.Emit("rb %d", heights[i])
			steps++
		}
		if r.Chance(40) && len(heights) > 1 {
			g.Emit("rb 1") // exactly CRVotingStartHeight: still a rollback, not a reset
		}
	}
}

func max(a, b int) int {
	if a > b {
		return a
	}
	return b
}

func min(a, b int) int {
	if a < b {
		return a
	}
	return b
}

func nontrivial(t []string, out string) bool { return t[0] == "rb" }

func bucket(t []string, out string) string {
	if t[0] == "rb" {
		return "rb/" + strings.Fields(lastVerdict + " -")[0]
	}
	if t[0] == "blk" {
		return fmt.Sprintf("blk/%dof%d", lastAccepted, lastOffered)
	}
	return t[0]
}

func main() {
	hx.Main(&hx.Prop{Name: "C22", Gen: gen, Exec: exec, Oracle: oracle, Nontrivial: nontrivial, Bucket: bucket, Stateful: true})
}
