// Harness for C25: block confirmation checks (blockchain/confirmvalidator.go)
// against a controlled arbiter set held by a real state.Arbiters, and the
// float64 majority threshold.
package main

import (
	"fmt"
	"strconv"
	"strings"

	"elaverif/harness/hx"

	"github.com/elastos/Elastos.ELA/blockchain"
	"github.com/elastos/Elastos.ELA/common"
	"github.com/elastos/Elastos.ELA/core/types/payload"
	crstate "github.com/elastos/Elastos.ELA/cr/state"
	"github.com/elastos/Elastos.ELA/crypto"
	"github.com/elastos/Elastos.ELA/dpos/state"
)

// ---------------------------------------------------------------- key pool
//
// Op lines name keys by number.  0..poolSize-1 are real key pairs made at start-up
// (crypto/rand: the bytes differ between runs, but neither op lines nor outputs depend
// on them); numbers >= malformedBase are 33-byte strings that are not curve points.

const (
	poolSize      = 96
	malformedBase = 1000
)

type keyPair struct {
	priv []byte
	pub  []byte
}

var pool []keyPair

func initPool() {
	for i := 0; i < poolSize; i++ {
		priv, pub, err := crypto.GenerateKeyPair()
		if err != nil {
			panic("harness: keygen: " + err.Error())
		}
		enc, err := pub.EncodePoint(true)
		if err != nil {
			panic("harness: encode: " + err.Error())
		}
		pool = append(pool, keyPair{priv, enc})
	}
}

func pubOf(id int) []byte {
	if id >= malformedBase {
		b := make([]byte, 33)
		b[0] = 0x05 // neither 0x02 nor 0x03: DecodePoint fails
		b[1], b[2] = byte(id), byte(id>>8)
		return b
	}
	if id < 0 || id >= poolSize {
		panic("harness: key id out of range " + strconv.Itoa(id))
	}
	return pool[id].pub
}

var sigCache = map[string][]byte{}

// signature over data by key id; ok=false gives a signature that must not verify.
// occ numbers repeated votes of one signer: each repetition carries its own (valid, different)
// ECDSA signature, as a real duplicate would.
func sigFor(id int, data []byte, ok bool, variant int, occ int) []byte {
	if id >= malformedBase {
		return make([]byte, 64)
	}
	k := fmt.Sprintf("%d/%x/%d", id, data, occ)
	s, have := sigCache[k]
	if !have {
		var err error
		s, err = crypto.Sign(pool[id].priv, data)
		if err != nil {
			panic("harness: sign: " + err.Error())
		}
		sigCache[k] = s
	}
	if ok {
		return s
	}
	bad := append([]byte{}, s...)
	switch variant % 3 {
	case 0: // flipped bit
		bad[len(bad)/2] ^= 0x40
	case 1: // signature by another key
		o, err := crypto.Sign(pool[(id+1)%poolSize].priv, data)
		if err != nil {
			panic("harness: sign: " + err.Error())
		}
		bad = o
	default: // truncated
		bad = bad[:len(bad)-1]
	}
	return bad
}

// ---------------------------------------------------------------- op parsing

type arb struct {
	key    int
	normal bool
}
type vote struct {
	signer                int
	accept, hashOk, sigOk bool
}

func flag(s string) bool {
	switch s {
	case "1":
		return true
	case "0":
		return false
	}
	panic("harness: bad flag " + s)
}
func atoi(s string) int {
	v, err := strconv.Atoi(s)
	if err != nil {
		panic("harness: bad int " + s)
	}
	return v
}

func parseArbs(s string) []arb {
	if s == "-" {
		return nil
	}
	var res []arb
	for _, x := range strings.Split(s, ",") {
		p := strings.Split(x, ":")
		res = append(res, arb{atoi(p[0]), flag(p[1])})
	}
	return res
}
func parseVotes(s string) []vote {
	if s == "-" {
		return nil
	}
	var res []vote
	for _, x := range strings.Split(s, ",") {
		p := strings.Split(x, ":")
		res = append(res, vote{atoi(p[0]), flag(p[1]), flag(p[2]), flag(p[3])})
	}
	return res
}

// ---------------------------------------------------------------- adapter

func setArbiters(arbs []arb) {
	members := make([]state.ArbiterMember, 0, len(arbs))
	for i, a := range arbs {
		pk := pubOf(a.key)
		var m state.ArbiterMember
		var err error
		if a.normal && i%2 == 0 {
			m, err = state.NewOriginArbiter(pk)
		} else {
			m, err = state.NewCRCArbiter(pk, pk, &crstate.CRMember{}, a.normal)
		}
		if err != nil {
			panic("harness: arbiter: " + err.Error())
		}
		members = append(members, m)
	}
	blockchain.DefaultLedger = &blockchain.Ledger{Arbitrators: &state.Arbiters{CurrentArbitrators: members}}
}

func sanityName(err error) string {
	if err == nil {
		return "ok"
	}
	m := err.Error()
	switch {
	case strings.HasPrefix(m, "[ConfirmSanityCheck] confirm contain invalid proposal"):
		return "bad-proposal"
	case strings.HasPrefix(m, "[ConfirmSanityCheck] confirm contains reject vote"):
		return "reject-vote"
	case strings.HasPrefix(m, "[ConfirmSanityCheck] confirm contains invalid vote"):
		return "wrong-hash"
	case strings.HasPrefix(m, "[ConfirmSanityCheck] confirm contain invalid vote"):
		return "bad-vote"
	}
	return "other:" + m
}

func contextName(err error) string {
	if err == nil {
		return "ok"
	}
	m := err.Error()
	switch {
	case strings.HasPrefix(m, "[ConfirmContextCheck] signers less than majority count"):
		return "no-majority"
	case strings.HasPrefix(m, "[ConfirmContextCheck] confirm contain invalid proposal"):
		return "sponsor-not-arbiter"
	case strings.HasPrefix(m, "[ConfirmContextCheck] confirm contain invalid vote"):
		return "signer-not-arbiter"
	}
	return "other:" + m
}

var bigArbiters = make([]state.ArbiterMember, 1<<21)

func exec(t []string) string {
	switch t[0] {
	case "maj": // maj <n> <k>: GetArbitersMajorityCount with n current arbiters, HasArbitersMajorityCount(k)
		n, k := atoi(t[1]), atoi(t[2])
		if n < 1 || n > len(bigArbiters) {
			panic("harness: n out of range")
		}
		a := &state.Arbiters{CurrentArbitrators: bigArbiters[:n]}
		h := 0
		if a.HasArbitersMajorityCount(k) {
			h = 1
		}
		return fmt.Sprintf("%d %d", a.GetArbitersMajorityCount(), h)
	case "confirm": // confirm <arbiters k:normal,…> <sponsor> <sponsorSigOk> <votes signer:accept:hashOk:sigOk,…>
		arbs, sponsor, ssig, votes := parseArbs(t[1]), atoi(t[2]), flag(t[3]), parseVotes(t[4])
		if len(arbs) == 0 {
			// zero current arbiters makes the real threshold fall back to the chain parameters; not modelled
			panic("harness: empty arbiter set")
		}
		setArbiters(arbs)
		var c payload.Confirm
		c.Proposal = payload.DPOSProposal{Sponsor: pubOf(sponsor), BlockHash: common.Uint256{1, 2, 3, byte(sponsor)}, ViewOffset: uint32(len(votes))}
		if sponsor >= malformedBase && ssig {
			panic("harness: malformed sponsor cannot have a valid signature")
		}
		c.Proposal.Sign = sigFor(sponsor, c.Proposal.Data(), ssig, len(votes), 0)
		ph := c.Proposal.Hash()
		other := ph
		other[0] ^= 0xff
		seen := map[int]int{}
		for i, v := range votes {
			pv := payload.DPOSProposalVote{ProposalHash: ph, Signer: pubOf(v.signer), Accept: v.accept}
			if !v.hashOk {
				pv.ProposalHash = other
			}
			if v.signer >= malformedBase && v.sigOk {
				panic("harness: malformed signer cannot have a valid signature")
			}
			pv.Sign = sigFor(v.signer, pv.Data(), v.sigOk, i, seen[v.signer])
			seen[v.signer]++
			c.Votes = append(c.Votes, pv)
		}
		return sanityName(blockchain.ConfirmSanityCheck(&c)) + " " + contextName(blockchain.ConfirmContextCheck(&c))
	}
	panic("harness: unknown op " + t[0])
}

// ---------------------------------------------------------------- generator

func b2s(b bool) string {
	if b {
		return "1"
	}
	return "0"
}

func genConfirm(g *hx.Gen) {
	r := g.R
	n := 1 + r.Intn(40)
	if r.Chance(30) {
		n = []int{1, 2, 3, 4, 5, 6, 12, 24, 36}[r.Intn(9)]
	}
	// arbiters: distinct keys 0..n-1 shuffled from the pool, a few abnormal, rarely a duplicate key
	perm := make([]int, poolSize-8)
	for i := range perm {
		perm[i] = i
	}
	for i := len(perm) - 1; i > 0; i-- {
		j := r.Intn(i + 1)
		perm[i], perm[j] = perm[j], perm[i]
	}
	arbs := make([]arb, n)
	for i := range arbs {
		arbs[i] = arb{perm[i], !r.Chance(7)}
	}
	if n > 1 && r.Chance(4) {
		arbs[n-1].key = arbs[0].key
	}
	foreign := func() int {
		if r.Chance(25) {
			return malformedBase + r.Intn(5)
		}
		return perm[n+r.Intn(len(perm)-n)]
	}
	maj := 2 * n / 3
	// number of votes around the threshold
	var k int
	switch r.Intn(6) {
	case 0:
		k = maj
	case 1:
		k = maj + 1
	case 2:
		k = n
	case 3:
		k = r.Intn(n + 1)
	default:
		k = maj + 1 + r.Intn(n-maj)
	}
	order := make([]int, n)
	for i := range order {
		order[i] = i
	}
	for i := n - 1; i > 0; i-- {
		j := r.Intn(i + 1)
		order[i], order[j] = order[j], order[i]
	}
	var votes []vote
	for i := 0; i < k && i < n; i++ {
		votes = append(votes, vote{arbs[order[i]].key, true, true, true})
	}
	// perturbations
	for p := r.Intn(4); p > 0 && len(votes) > 0; p-- {
		i := r.Intn(len(votes))
		switch r.Intn(9) {
		case 0: // duplicate vote of the same signer
			votes = append(votes, votes[i])
		case 1: // many duplicates instead of distinct signers
			for d := r.Intn(n); d > 0; d-- {
				votes = append(votes, votes[i])
			}
		case 2:
			votes[i].accept = false
		case 3:
			votes[i].hashOk = false
		case 4:
			votes[i].sigOk = false
		case 5: // foreign signer, validly signed (or malformed key)
			f := foreign()
			votes[i].signer = f
			votes[i].sigOk = f < malformedBase
		case 6: // extra foreign vote
			f := foreign()
			votes = append(votes, vote{f, true, true, f < malformedBase})
		case 7: // extra rejecting vote by an arbiter
			votes = append(votes, vote{arbs[r.Intn(n)].key, false, true, true})
		case 8: // drop one
			votes = append(votes[:i], votes[i+1:]...)
		}
	}
	sponsor := arbs[r.Intn(n)].key
	ssig := true
	switch r.Intn(12) {
	case 0:
		sponsor = foreign()
		ssig = sponsor < malformedBase
	case 1:
		ssig = false
	}
	as := make([]string, n)
	for i, a := range arbs {
		as[i] = fmt.Sprintf("%d:%s", a.key, b2s(a.normal))
	}
	vs := "-"
	if len(votes) > 0 {
		p := make([]string, len(votes))
		for i, v := range votes {
			p[i] = fmt.Sprintf("%d:%s:%s:%s", v.signer, b2s(v.accept), b2s(v.hashOk), b2s(v.sigOk))
		}
		vs = strings.Join(p, ",")
	}
	g.Emit("confirm %s %d %s %s", strings.Join(as, ","), sponsor, b2s(ssig), vs)
}

func gen(g *hx.Gen) {
	r := g.R
	// the float64 threshold against 2n/3: exhaustive prefix, then random up to 2^21
	lim := g.N(1<<13, 1<<20)
	for n := 1; n <= lim; n++ {
		m := 2 * n / 3
		g.Emit("maj %d %d", n, m+r.Intn(3)-1+1)
	}
	for i := 0; i < g.N(5000, 200000); i++ {
		n := 1 + r.Intn(1<<21-1)
		g.Emit("maj %d %d", n, 2*n/3+r.Intn(3))
	}
	for i := 0; i < g.N(2500, 60000); i++ {
		genConfirm(g)
	}
}

// ---------------------------------------------------------------- oracle
//
// Judged on the implementation's verdict and the op line only: a confirmation
// that passes both checks must consist of valid accepting votes for this
// proposal by more than 2n/3 (integer arithmetic) distinct normal arbiters, and
// its sponsor must be a normal arbiter with a valid proposal signature.
func oracle(t []string, out string) *hx.Violation {
	switch t[0] {
	case "maj":
		n := atoi(t[1])
		f := strings.Fields(out)
		if len(f) == 2 && atoi(f[0]) != 2*n/3 {
			return &hx.Violation{Kind: "majority-not-two-thirds", Detail: fmt.Sprintf("GetArbitersMajorityCount=%s for %d arbiters, 2n/3=%d", f[0], n, 2*n/3)}
		}
	case "confirm":
		if out != "ok ok" {
			return nil
		}
		arbs, sponsor, ssig, votes := parseArbs(t[1]), atoi(t[2]), flag(t[3]), parseVotes(t[4])
		normal := map[int]bool{}
		for _, a := range arbs {
			if a.normal {
				normal[a.key] = true
			}
		}
		good := map[int]bool{}
		for _, v := range votes {
			if !(v.accept && v.hashOk && v.sigOk && normal[v.signer]) {
				return &hx.Violation{Kind: "accepted-bad-vote", Detail: fmt.Sprintf("accepted although vote of %d is not a valid accepting vote of a normal arbiter for this proposal", v.signer)}
			}
			good[v.signer] = true
		}
		if 3*len(good) <= 2*len(arbs) {
			return &hx.Violation{Kind: "accepted-without-quorum", Detail: fmt.Sprintf("accepted with %d distinct valid signers of %d arbiters", len(good), len(arbs))}
		}
		if !ssig || !normal[sponsor] {
			return &hx.Violation{Kind: "accepted-bad-sponsor", Detail: "accepted although the sponsor is not a normal arbiter with a valid proposal signature"}
		}
	}
	return nil
}

func nontrivial(t []string, out string) bool {
	if t[0] == "confirm" {
		return t[4] != "-"
	}
	return true
}

func main() {
	initPool()
	hx.Main(&hx.Prop{Name: "C25", Gen: gen, Exec: exec, Oracle: oracle, Nontrivial: nontrivial})
}
