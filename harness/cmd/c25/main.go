// Harness for C25: block confirmation checks (blockchain/confirmvalidator.go)
// against a controlled arbiter set held by a real state.Arbiters, and the
// float64 majority threshold.
package main

import (
	"fmt"
	"os"
	"path/filepath"
	"strconv"
	"strings"

	"elaverif/harness/hx"
	"elaverif/harness/regnet"

	"github.com/elastos/Elastos.ELA/blockchain"
	"github.com/elastos/Elastos.ELA/common"
	"github.com/elastos/Elastos.ELA/common/config"
	"github.com/elastos/Elastos.ELA/core/checkpoint"
	"github.com/elastos/Elastos.ELA/core/types"
	"github.com/elastos/Elastos.ELA/core/types/payload"
	crstate "github.com/elastos/Elastos.ELA/cr/state"
	"github.com/elastos/Elastos.ELA/crypto"
	dlog "github.com/elastos/Elastos.ELA/dpos/log"
	"github.com/elastos/Elastos.ELA/dpos/manager"
	"github.com/elastos/Elastos.ELA/dpos/state"
	"github.com/elastos/Elastos.ELA/mempool"
)

// ---------------------------------------------------------------- key pool
//
// Op lines name keys by number.  0..poolSize-1 are real key pairs made at start-up
// (crypto/rand: the bytes differ between runs, but neither op lines nor outputs depend
// on them); numbers >= malformedBase are 33-byte strings that are not curve points.

const (
	poolSize      = 96
	malformedBase = 1000
)

type keyPair struct {
	priv []byte
	pub  []byte
}

var pool []keyPair

func initPool() {
	for i := 0; i < poolSize; i++ {
		priv, pub, err := crypto.GenerateKeyPair()
		if err != nil {
			panic("harness: keygen: " + err.Error())
		}
		enc, err := pub.EncodePoint(true)
		if err != nil {
			panic("harness: encode: " + err.Error())
		}
		pool = append(pool, keyPair{priv, enc})
	}
}

func pubOf(id int) []byte {
	if id >= malformedBase {
		b := make([]byte, 33)
		b[0] = 0x05 // neither 0x02 nor 0x03: DecodePoint fails
		b[1], b[2] = byte(id), byte(id>>8)
		return b
	}
	if id < 0 || id >= poolSize {
		panic("harness: key id out of range " + strconv.Itoa(id))
	}
	return pool[id].pub
}

var sigCache = map[string][]byte{}

// signature over data by key id; ok=false gives a signature that must not verify.
// occ numbers repeated votes of one signer: each repetition carries its own (valid, different)
// ECDSA signature, as a real duplicate would.
func sigFor(id int, data []byte, ok bool, variant int, occ int) []byte {
	if id >= malformedBase {
		return make([]byte, 64)
	}
	k := fmt.Sprintf("%d/%x/%d", id, data, occ)
	s, have := sigCache[k]
	if !have {
		var err error
		s, err = crypto.Sign(pool[id].priv, data)
		if err != nil {
			panic("harness: sign: " + err.Error())
		}
		sigCache[k] = s
	}
	if ok {
		return s
	}
	bad := append([]byte{}, s...)
	switch variant % 3 {
	case 0: // flipped bit
		bad[len(bad)/2] ^= 0x40
	case 1: // signature by another key
		o, err := crypto.Sign(pool[(id+1)%poolSize].priv, data)
		if err != nil {
			panic("harness: sign: " + err.Error())
		}
		bad = o
	default: // truncated
		bad = bad[:len(bad)-1]
	}
	return bad
}

// ---------------------------------------------------------------- op parsing

// arbiter kinds: o = origin (elected producer), c = CRC arbiter, C = CRC arbiter whose CR member
// claimed its own DPoS node key, d / D = the same two but deposed (isNormal == false).
type arb struct {
	key    int
	kind   byte
	normal bool
}

// a key the node knows without it being a current arbiter: r = registered producer,
// g = CRC arbiter of the chain configuration, u = current CR node key, x = next CR node key
type known struct {
	key   int
	class byte
}
type vote struct {
	signer                int
	accept, hashOk, sigOk bool
}

func flag(s string) bool {
	switch s {
	case "1":
		return true
	case "0":
		return false
	}
	panic("harness: bad flag " + s)
}
func atoi(s string) int {
	v, err := strconv.Atoi(s)
	if err != nil {
		panic("harness: bad int " + s)
	}
	return v
}

func parseArbs(s string) []arb {
	if s == "-" {
		return nil
	}
	var res []arb
	for _, x := range strings.Split(s, ",") {
		p := strings.Split(x, ":")
		if len(p[1]) != 1 || !strings.Contains("opcCdD", p[1]) {
			panic("harness: bad arbiter kind " + p[1])
		}
		k := p[1][0]
		res = append(res, arb{atoi(p[0]), k, k == 'o' || k == 'p' || k == 'c' || k == 'C'})
	}
	return res
}
func parseKnown(s string) []known {
	if s == "-" {
		return nil
	}
	var res []known
	for _, x := range strings.Split(s, ",") {
		p := strings.Split(x, ":")
		if len(p[1]) != 1 || !strings.Contains("rgux", p[1]) {
			panic("harness: bad known class " + p[1])
		}
		res = append(res, known{atoi(p[0]), p[1][0]})
	}
	return res
}
func parseVotes(s string) []vote {
	if s == "-" {
		return nil
	}
	var res []vote
	for _, x := range strings.Split(s, ",") {
		p := strings.Split(x, ":")
		res = append(res, vote{atoi(p[0]), flag(p[1]), flag(p[2]), flag(p[3])})
	}
	return res
}

// ---------------------------------------------------------------- adapter

// one real state.Arbiters (with its State) for the whole run; every op resets the parts the
// confirmation checks read.
var (
	arbParams *config.Configuration
	arbiters  *state.Arbiters
)

func initArbiters() {
	arbParams = config.GetDefaultParams()
	var err error
	arbiters, err = state.NewArbitrators(arbParams, nil, nil, nil, nil, nil, nil, nil, nil, checkpoint.NewManager(arbParams))
	if err != nil {
		panic("harness: NewArbitrators: " + err.Error())
	}
	blockchain.DefaultLedger = &blockchain.Ledger{Arbitrators: arbiters}
}

func setArbiters(arbs []arb, kn []known) {
	members := make([]state.ArbiterMember, 0, len(arbs))
	arbiters.NodeOwnerKeys = map[string]string{}
	arbiters.CurrentCRNodeOwnerKeys = map[string]string{}
	arbiters.NextCRNodeOwnerKeys = map[string]string{}
	arbParams.DPoSConfiguration.CRCArbiters = nil
	for _, a := range arbs {
		pk := pubOf(a.key)
		hexKey := common.BytesToHexString(pk)
		var m state.ArbiterMember
		var err error
		switch a.kind {
		case 'o':
			m, err = state.NewOriginArbiter(pk)
			arbiters.NodeOwnerKeys[hexKey] = hexKey // elected producers are registered producers
		case 'p': // elected producer of the public-DPoS / DPoS-v2 eras
			m, err = state.VerifDPoSArbiter(pk)
			arbiters.NodeOwnerKeys[hexKey] = hexKey
		case 'c', 'd':
			m, err = state.NewCRCArbiter(pk, pk, &crstate.CRMember{}, a.normal)
			arbParams.DPoSConfiguration.CRCArbiters = append(arbParams.DPoSConfiguration.CRCArbiters, hexKey)
		default: // 'C', 'D': claimed DPoS node key
			m, err = state.NewCRCArbiter(pk, pk, &crstate.CRMember{DPOSPublicKey: pk}, a.normal)
			arbiters.CurrentCRNodeOwnerKeys[hexKey] = hexKey
		}
		if err != nil {
			panic("harness: arbiter: " + err.Error())
		}
		members = append(members, m)
	}
	for _, k := range kn {
		hexKey := common.BytesToHexString(pubOf(k.key))
		switch k.class {
		case 'r':
			arbiters.NodeOwnerKeys[hexKey] = hexKey
		case 'g':
			arbParams.DPoSConfiguration.CRCArbiters = append(arbParams.DPoSConfiguration.CRCArbiters, hexKey)
		case 'u':
			arbiters.CurrentCRNodeOwnerKeys[hexKey] = hexKey
		case 'x':
			arbiters.NextCRNodeOwnerKeys[hexKey] = hexKey
		}
	}
	arbiters.CurrentArbitrators = members
}

func sanityName(err error) string {
	if err == nil {
		return "ok"
	}
	m := err.Error()
	switch {
	case strings.HasPrefix(m, "[ConfirmSanityCheck] confirm contain invalid proposal"):
		return "bad-proposal"
	case strings.HasPrefix(m, "[ConfirmSanityCheck] confirm contains reject vote"):
		return "reject-vote"
	case strings.HasPrefix(m, "[ConfirmSanityCheck] confirm contains invalid vote"):
		return "wrong-hash"
	case strings.HasPrefix(m, "[ConfirmSanityCheck] confirm contain invalid vote"):
		return "bad-vote"
	}
	return "other:" + m
}

func contextName(err error) string {
	if err == nil {
		return "ok"
	}
	m := err.Error()
	switch {
	case strings.HasPrefix(m, "[ConfirmContextCheck] signers less than majority count"):
		return "no-majority"
	case strings.HasPrefix(m, "[ConfirmContextCheck] confirm contain invalid proposal"):
		return "sponsor-not-arbiter"
	case strings.HasPrefix(m, "[ConfirmContextCheck] confirm contain invalid vote"):
		return "signer-not-arbiter"
	}
	return "other:" + m
}

var bigArbiters = make([]state.ArbiterMember, 1<<21)

// buildConfirm makes the real payload for block hash `bh` with real signatures as flagged.
func buildConfirm(bh common.Uint256, sponsor int, ssig bool, votes []vote) *payload.Confirm {
	var c payload.Confirm
	c.Proposal = payload.DPOSProposal{Sponsor: pubOf(sponsor), BlockHash: bh, ViewOffset: uint32(len(votes))}
	if sponsor >= malformedBase && ssig {
		panic("harness: malformed sponsor cannot have a valid signature")
	}
	c.Proposal.Sign = sigFor(sponsor, c.Proposal.Data(), ssig, len(votes), 0)
	ph := c.Proposal.Hash()
	other := ph
	other[0] ^= 0xff
	seen := map[int]int{}
	for i, v := range votes {
		pv := payload.DPOSProposalVote{ProposalHash: ph, Signer: pubOf(v.signer), Accept: v.accept}
		if !v.hashOk {
			pv.ProposalHash = other
		}
		if v.signer >= malformedBase && v.sigOk {
			panic("harness: malformed signer cannot have a valid signature")
		}
		pv.Sign = sigFor(v.signer, pv.Data(), v.sigOk, i, seen[v.signer])
		seen[v.signer]++
		c.Votes = append(c.Votes, pv)
	}
	return &c
}

// ---------------------------------------------------------------- pool + chain on a real node
//
// chain <era> <step>…  : a fresh regnet node whose 5 origin arbiters are pool keys 0..4 and whose
// DPoS gate (CRCOnlyDPOSHeight) is at height 3; blocks 1,2 are delivered directly.  The block under
// test B extends the tip: era "d" at height 3 (DPoS era), era "p" on a node delivered only up to
// height 1, so B has height 2 (before the DPoS era).  Steps, through the real BlockPool wired to the
// real BlockChain:   b = AddDposBlock(B without confirmation),  B/<sponsor>/<ssig>/<votes> =
// AddDposBlock(B with that confirmation),  c/<sponsor>/<ssig>/<votes> = AppendConfirm.
// Output per step: <B connected to the main chain 0|1>:<index of the confirmation the pool holds|->.
const chainArbiters = 5

var chainSeq int

type chainStep struct {
	kind    byte
	sponsor int
	ssig    bool
	votes   []vote
}

func parseChainSteps(toks []string) []chainStep {
	var res []chainStep
	for _, x := range toks {
		if x == "b" {
			res = append(res, chainStep{kind: 'b'})
			continue
		}
		p := strings.Split(x, "/")
		if len(p) != 4 || (p[0] != "c" && p[0] != "B") {
			panic("harness: bad chain step " + x)
		}
		res = append(res, chainStep{p[0][0], atoi(p[1]), flag(p[2]), parseVotes(p[3])})
	}
	return res
}

func tmpBase() string {
	if d := os.Getenv("TMPDIR"); d != "" {
		return d
	}
	return "/var/tmp"
}

func execChain(t []string) string {
	era := t[1]
	steps := parseChainSteps(t[2:])
	chainSeq++
	dir := filepath.Join(tmpBase(), fmt.Sprintf("c25-%d-%d", os.Getpid(), chainSeq))
	os.RemoveAll(dir)
	defer os.RemoveAll(dir)
	n, err := regnet.NewNode(dir, regnet.Options{CoinbaseMaturity: 2, NoPoolEvents: true, Tweak: func(p *config.Configuration) {
		p.CRCOnlyDPOSHeight = 3
		p.VoteStartHeight = 1 // the arbiter checkpoint must start before the DPoS era, as on every real network
		p.DPoSConfiguration.OriginArbiters = nil
		for i := 0; i < chainArbiters; i++ {
			p.DPoSConfiguration.OriginArbiters = append(p.DPoSConfiguration.OriginArbiters, common.BytesToHexString(pool[i].pub))
		}
	}})
	if err != nil {
		panic("harness: new node: " + err.Error())
	}
	defer func() {
		n.Close()
		blockchain.DefaultLedger = &blockchain.Ledger{Arbitrators: arbiters}
	}()
	pre := 2
	if era == "p" {
		pre = 1
	} else if era != "d" {
		panic("harness: bad era " + era)
	}
	parent := n.Genesis
	for h := 0; h < pre; h++ {
		b, err := n.Mine(parent, nil)
		if err != nil {
			panic("harness: mine: " + err.Error())
		}
		if in, _, err := n.Deliver(b); err != nil || !in {
			panic(fmt.Sprintf("harness: deliver prefix: %v %v", in, err))
		}
		parent = b
	}
	if got := n.Arbiters.GetArbitersCount(); got != chainArbiters {
		panic(fmt.Sprintf("harness: node has %d arbiters", got))
	}
	B, err := n.Mine(parent, nil)
	if err != nil {
		panic("harness: mine B: " + err.Error())
	}
	bh := B.Hash()
	bp := mempool.NewBlockPool(n.Params)
	bp.Chain = n.Chain
	bp.Store = n.Store
	bp.IsCurrent = func() bool { return true }
	var made []*payload.Confirm
	var parts []string
	for _, st := range steps {
		var c *payload.Confirm
		if st.kind != 'b' {
			c = buildConfirm(bh, st.sponsor, st.ssig, st.votes)
		}
		made = append(made, c)
		switch st.kind {
		case 'b':
			bp.AddDposBlock(&types.DposBlock{Block: B})
		case 'B':
			bp.AddDposBlock(&types.DposBlock{Block: B, HaveConfirm: true, Confirm: c})
		case 'c':
			bp.AppendConfirm(c)
		}
		connected := 0
		if tip, _ := n.Tip(); tip == bh {
			connected = 1
		}
		cached := "-"
		if got, ok := bp.GetConfirm(bh); ok {
			cached = "?"
			for j, m := range made {
				if m != nil && m == got {
					cached = strconv.Itoa(j)
				}
			}
		}
		parts = append(parts, fmt.Sprintf("%d:%s", connected, cached))
	}
	return strings.Join(parts, " ")
}

func exec(t []string) string {
	switch t[0] {
	case "chain":
		return execChain(t)
	case "maj": // maj <n> <k>: GetArbitersMajorityCount with n current arbiters, HasArbitersMajorityCount(k)
		n, k := atoi(t[1]), atoi(t[2])
		if n < 1 || n > len(bigArbiters) {
			panic("harness: n out of range")
		}
		arbiters.CurrentArbitrators = bigArbiters[:n]
		h := 0
		if arbiters.HasArbitersMajorityCount(k) {
			h = 1
		}
		return fmt.Sprintf("%d %d", arbiters.GetArbitersMajorityCount(), h)
	case "confirm": // confirm <arbiters key:kind,…> <known key:class,…> <sponsor> <sponsorSigOk> <votes signer:accept:hashOk:sigOk,…>
		arbs, kn, sponsor, ssig, votes := parseArbs(t[1]), parseKnown(t[2]), atoi(t[3]), flag(t[4]), parseVotes(t[5])
		if len(arbs) == 0 {
			// zero current arbiters makes the real threshold fall back to the chain parameters; not modelled
			panic("harness: empty arbiter set")
		}
		setArbiters(arbs, kn)
		c := buildConfirm(common.Uint256{1, 2, 3, byte(sponsor)}, sponsor, ssig, votes)
		return sanityName(blockchain.ConfirmSanityCheck(c)) + " " + contextName(blockchain.ConfirmContextCheck(c))
	case "disp": // disp <arbiters> <items>: votes s:a:h:g reach ProposalDispatcher.ProcessVote(v, true) in turn;
		// item "v" = the view changes (CleanProposals(true), next view's proposal), "h" = height finished
		arbs := parseArbs(t[1])
		items := strings.Split(t[2], ",")
		if len(arbs) == 0 || len(items) == 0 {
			panic("harness: disp needs arbiters and items")
		}
		setArbiters(arbs, nil)
		blockchain.DefaultLedger = &blockchain.Ledger{Arbitrators: arbiters}
		d := manager.NewVerifDispatcher(arbiters)
		via := "d" // d = ProcessVote directly, n / o = through the normal / on-duty message handler
		if len(t) > 3 {
			via = t[3]
		}
		view := 0
		seen := map[int]int{}
		var parts []string
		curProp := func() *payload.DPOSProposal {
			return &payload.DPOSProposal{Sponsor: pubOf(arbs[0].key), BlockHash: common.Uint256{7, 7, 7}, ViewOffset: uint32(view)}
		}
		if via != "d" {
			d.SetProposal(curProp())
		}
		for i, it := range items {
			if it == "v" || it == "h" {
				if it == "v" {
					d.ChangeView()
				} else {
					d.FinishHeight()
				}
				view++
				if via != "d" {
					d.SetProposal(curProp())
				}
				parts = append(parts, fmt.Sprintf("-:%d", d.AcceptCount()))
				continue
			}
			v := parseVotes(it)[0]
			// the proposal of the current view (one proposal per view; the sponsor does not matter here)
			ph := curProp().Hash()
			if !v.hashOk {
				ph[0] ^= 0xff
			}
			pv := payload.DPOSProposalVote{ProposalHash: ph, Signer: pubOf(v.signer), Accept: v.accept}
			if v.signer >= malformedBase && v.sigOk {
				panic("harness: malformed signer cannot have a valid signature")
			}
			pv.Sign = sigFor(v.signer, pv.Data(), v.sigOk, i, seen[v.signer])
			seen[v.signer]++
			var succeed, maj bool
			switch via {
			case "d":
				succeed, _, maj = d.ProcessVote(&pv, true)
			case "n":
				succeed, _, maj = d.HandleAcceptVote(&pv, false)
			case "o":
				succeed, _, maj = d.HandleAcceptVote(&pv, true)
			default:
				panic("harness: bad via " + via)
			}
			parts = append(parts, fmt.Sprintf("%s%s:%d", b2s(succeed), b2s(maj), d.AcceptCount()))
		}
		return strings.Join(parts, " ")
	case "pool": // pool (<sponsor> <sponsorSigOk> <votes>)+ : BlockPool.AppendConfirm of each, all for one block hash
		if (len(t)-1)%3 != 0 || len(t) < 4 {
			panic("harness: pool op needs triples")
		}
		bp := mempool.NewBlockPool(arbParams)
		bh := common.Uint256{9, 9, 9}
		var made []*payload.Confirm
		var parts []string
		for i := 1; i < len(t); i += 3 {
			c := buildConfirm(bh, atoi(t[i]), flag(t[i+1]), parseVotes(t[i+2]))
			made = append(made, c)
			_, _, err := bp.AppendConfirm(c)
			res := "no-block" // a sane confirmation waits in the pool for its block
			if err == nil {
				res = "other:nil"
			} else if err.Error() != "there is no block in pool when confirming block" {
				res = sanityName(err)
			}
			cached := "-"
			if got, ok := bp.GetConfirm(bh); ok {
				cached = "?"
				for j, m := range made {
					if m == got {
						cached = strconv.Itoa(j)
					}
				}
			}
			parts = append(parts, res+":"+cached)
		}
		return strings.Join(parts, " ")
	}
	panic("harness: unknown op " + t[0])
}

// ---------------------------------------------------------------- generator

func b2s(b bool) string {
	if b {
		return "1"
	}
	return "0"
}

type scenario struct {
	arbs    []arb
	kn      []known
	sponsor int
	ssig    bool
	votes   []vote
}

func fmtVotes(votes []vote) string {
	if len(votes) == 0 {
		return "-"
	}
	p := make([]string, len(votes))
	for i, v := range votes {
		p[i] = fmt.Sprintf("%d:%s:%s:%s", v.signer, b2s(v.accept), b2s(v.hashOk), b2s(v.sigOk))
	}
	return strings.Join(p, ",")
}

func genScenario(r *hx.Rand) scenario {
	n := 1 + r.Intn(40)
	if r.Chance(30) {
		// set sizes of the eras: 5 origin, 12 CRC-only, 36 = 12 CRC + 24 elected, DPoS v2 adds random producers
		n = []int{1, 2, 3, 4, 5, 6, 12, 24, 36, 38, 40}[r.Intn(11)]
	}
	perm := make([]int, poolSize)
	for i := range perm {
		perm[i] = i
	}
	for i := len(perm) - 1; i > 0; i-- {
		j := r.Intn(i + 1)
		perm[i], perm[j] = perm[j], perm[i]
	}
	// current arbiters: elected producers and CRC arbiters (with / without a claimed DPoS node
	// key), some CRC members deposed; rarely a duplicated key
	deposedPct := 7
	if r.Chance(25) {
		deposedPct = 35
	}
	arbs := make([]arb, n)
	for i := range arbs {
		kind := "ooppppcC"[r.Intn(8)]
		if r.Chance(deposedPct) {
			kind = "dD"[r.Intn(2)]
		}
		arbs[i] = arb{perm[i], kind, kind == 'o' || kind == 'p' || kind == 'c' || kind == 'C'}
	}
	if n > 1 && r.Chance(4) {
		arbs[n-1].key = arbs[0].key
	}
	// keys the node knows although they are not current arbiters
	nk := r.Intn(30)
	kn := make([]known, nk)
	for i := range kn {
		kn[i] = known{perm[n+i], "rrgux"[r.Intn(5)]}
	}
	stranger := func() int {
		if r.Chance(25) {
			return malformedBase + r.Intn(5)
		}
		return perm[n+nk+r.Intn(len(perm)-n-nk)]
	}
	foreign := func() int {
		if nk > 0 && r.Chance(70) {
			return kn[r.Intn(nk)].key
		}
		return stranger()
	}
	maj := 2 * n / 3
	var k int
	switch r.Intn(6) {
	case 0:
		k = maj
	case 1:
		k = maj + 1
	case 2:
		k = n
	case 3:
		k = r.Intn(n + 1)
	default:
		k = maj + 1 + r.Intn(n-maj)
	}
	order := make([]int, n)
	for i := range order {
		order[i] = i
	}
	for i := n - 1; i > 0; i-- {
		j := r.Intn(i + 1)
		order[i], order[j] = order[j], order[i]
	}
	if r.Chance(50) { // entitled arbiters first: deposed ones only when needed
		j := 0
		for i := range order {
			if arbs[order[i]].normal {
				order[i], order[j] = order[j], order[i]
				j++
			}
		}
	}
	var votes []vote
	for i := 0; i < k && i < n; i++ {
		votes = append(votes, vote{arbs[order[i]].key, true, true, true})
	}
	if nk > 0 && r.Chance(12) {
		// a few current arbiters topped up over the threshold by known-but-not-current keys
		cur := r.Intn(maj + 1)
		if cur > len(votes) {
			cur = len(votes)
		}
		votes = votes[:cur]
		for i := 0; len(votes) <= maj+r.Intn(2) && i < nk; i++ {
			votes = append(votes, vote{kn[i].key, true, true, true})
		}
	}
	for p := r.Intn(4); p > 0 && len(votes) > 0; p-- {
		i := r.Intn(len(votes))
		switch r.Intn(9) {
		case 0: // duplicate vote of the same signer
			votes = append(votes, votes[i])
		case 1: // many duplicates instead of distinct signers
			for d := r.Intn(n); d > 0; d-- {
				votes = append(votes, votes[i])
			}
		case 2:
			votes[i].accept = false
		case 3:
			votes[i].hashOk = false
		case 4:
			votes[i].sigOk = false
		case 5: // foreign signer, validly signed (or malformed key)
			f := foreign()
			votes[i].signer = f
			votes[i].sigOk = f < malformedBase
		case 6: // extra foreign vote
			f := foreign()
			votes = append(votes, vote{f, true, true, f < malformedBase})
		case 7: // extra rejecting vote by an arbiter
			votes = append(votes, vote{arbs[r.Intn(n)].key, false, true, true})
		case 8: // drop one
			votes = append(votes[:i], votes[i+1:]...)
		}
	}
	sponsor := arbs[r.Intn(n)].key
	ssig := true
	switch r.Intn(12) {
	case 0:
		sponsor = foreign()
		ssig = sponsor < malformedBase
	case 1:
		ssig = false
	}
	return scenario{arbs, kn, sponsor, ssig, votes}
}

func genConfirm(g *hx.Gen) {
	sc := genScenario(g.R)
	as := make([]string, len(sc.arbs))
	for i, a := range sc.arbs {
		as[i] = fmt.Sprintf("%d:%c", a.key, a.kind)
	}
	ks := "-"
	if len(sc.kn) > 0 {
		p := make([]string, len(sc.kn))
		for i, k := range sc.kn {
			p[i] = fmt.Sprintf("%d:%c", k.key, k.class)
		}
		ks = strings.Join(p, ",")
	}
	g.Emit("confirm %s %s %d %s %s", strings.Join(as, ","), ks, sc.sponsor, b2s(sc.ssig), fmtVotes(sc.votes))
}

// block pool: one to three confirmations for the same block hash, sane and forged in any order
func genPool(g *hx.Gen) {
	r := g.R
	var parts []string
	for i, m := 0, 1+r.Intn(3); i < m; i++ {
		sc := genScenario(r)
		if r.Chance(40) { // make it sane: what a valid confirmation looks like
			sc.ssig = sc.sponsor < malformedBase
			for j := range sc.votes {
				if sc.votes[j].signer < malformedBase {
					sc.votes[j].accept, sc.votes[j].hashOk, sc.votes[j].sigOk = true, true, true
				}
			}
		}
		parts = append(parts, fmt.Sprintf("%d %s %s", sc.sponsor, b2s(sc.ssig), fmtVotes(sc.votes)))
	}
	g.Emit("pool %s", strings.Join(parts, " "))
}

// pool + chain: 1-4 steps for one block on a node with arbiters 0..4
func genChain(g *hx.Gen) {
	r := g.R
	era := "d"
	if r.Chance(10) {
		era = "p"
	}
	mkConf := func() string {
		k := []int{0, 1, 2, 3, 4, 4, 4, 5, 5}[r.Intn(9)]
		perm := []int{0, 1, 2, 3, 4}
		for i := 4; i > 0; i-- {
			j := r.Intn(i + 1)
			perm[i], perm[j] = perm[j], perm[i]
		}
		var votes []vote
		for i := 0; i < k; i++ {
			votes = append(votes, vote{perm[i], true, true, true})
		}
		for p := r.Intn(3); p > 0 && len(votes) > 0; p-- {
			i := r.Intn(len(votes))
			switch r.Intn(7) {
			case 0:
				votes = append(votes, votes[i])
			case 1:
				votes[i].accept = false
			case 2:
				votes[i].hashOk = false
			case 3:
				votes[i].sigOk = false
			case 4:
				votes[i].signer = 5 + r.Intn(20)
			case 5:
				votes = append(votes, vote{5 + r.Intn(20), true, true, true})
			case 6: // every signature forged
				for j := range votes {
					votes[j].sigOk = false
				}
			}
		}
		sponsor, ssig := r.Intn(5), true
		switch r.Intn(10) {
		case 0:
			sponsor = 5 + r.Intn(20)
		case 1:
			ssig = false
		}
		return fmt.Sprintf("%d/%s/%s", sponsor, b2s(ssig), fmtVotes(votes))
	}
	var steps []string
	for i, m := 0, 1+r.Intn(4); i < m; i++ {
		switch r.Intn(5) {
		case 0, 1:
			steps = append(steps, "b")
		case 2:
			steps = append(steps, "B/"+mkConf())
		default:
			steps = append(steps, "c/"+mkConf())
		}
	}
	g.Emit("chain %s %s", era, strings.Join(steps, " "))
}

// dispatcher: the votes of a scenario arrive one by one as accept-vote messages
func genDisp(g *hx.Gen) {
	sc := genScenario(g.R)
	if len(sc.votes) == 0 {
		sc.votes = []vote{{sc.arbs[0].key, true, true, true}}
	}
	if g.R.Chance(50) { // only votes naming the processing proposal
		for i := range sc.votes {
			sc.votes[i].hashOk = true
		}
	} else if g.R.Chance(50) { // the same arbiters also vote for another proposal (equivocating sponsor)
		n0 := len(sc.votes)
		for i := 0; i < n0; i++ {
			if g.R.Chance(60) {
				v := sc.votes[i]
				v.hashOk = !v.hashOk
				sc.votes = append(sc.votes, v)
			}
		}
		for i := len(sc.votes) - 1; i > 0; i-- {
			j := g.R.Intn(i + 1)
			sc.votes[i], sc.votes[j] = sc.votes[j], sc.votes[i]
		}
	}
	as := make([]string, len(sc.arbs))
	for i, a := range sc.arbs {
		as[i] = fmt.Sprintf("%d:%c", a.key, a.kind)
	}
	items := strings.Split(fmtVotes(sc.votes), ",")
	if g.R.Chance(45) {
		// the view changes (or the height finishes) part-way: an abandoned proposal's votes, then the
		// next proposal's votes, often by the same signers again
		cut := g.R.Intn(len(items) + 1)
		mark := "v"
		if g.R.Chance(20) {
			mark = "h"
		}
		second := items[cut:]
		if g.R.Chance(50) {
			second = append(append([]string{}, items[:g.R.Intn(cut+1)]...), second...)
		}
		items = append(append(append([]string{}, items[:cut]...), mark), second...)
	}
	switch g.R.Intn(3) {
	case 0:
		g.Emit("disp %s %s", strings.Join(as, ","), strings.Join(items, ","))
	case 1:
		g.Emit("disp %s %s n", strings.Join(as, ","), strings.Join(items, ","))
	default:
		g.Emit("disp %s %s o", strings.Join(as, ","), strings.Join(items, ","))
	}
}

func gen(g *hx.Gen) {
	r := g.R
	// the float64 threshold against 2n/3: exhaustive prefix, then random up to 2^21
	lim := g.N(1<<13, 1<<20)
	for n := 1; n <= lim; n++ {
		m := 2 * n / 3
		g.Emit("maj %d %d", n, m+r.Intn(3))
	}
	for i := 0; i < g.N(5000, 200000); i++ {
		n := 1 + r.Intn(1<<21-1)
		g.Emit("maj %d %d", n, 2*n/3+r.Intn(3))
	}
	for i := 0; i < g.N(3000, 40000); i++ {
		genConfirm(g)
	}
	for i := 0; i < g.N(1500, 20000); i++ {
		genPool(g)
	}
	for i := 0; i < g.N(1500, 20000); i++ {
		genDisp(g)
	}
	for i := 0; i < g.N(24, 400); i++ {
		genChain(g)
	}
}

func saneConf(ssig bool, votes []vote) bool {
	if !ssig {
		return false
	}
	for _, v := range votes {
		if !(v.accept && v.hashOk && v.sigOk) {
			return false
		}
	}
	return true
}

// ---------------------------------------------------------------- oracle
//
// Judged on the implementation's verdict and the op line only: a confirmation
// that passes both checks must consist of valid accepting votes for this
// proposal by more than 2n/3 (integer arithmetic) distinct normal *current*
// arbiters, and its sponsor must be a normal current arbiter with a valid
// proposal signature.  The block pool may keep (and later hand to the chain,
// which only re-checks the context) only confirmations that pass the sanity check.
func oracle(t []string, out string) *hx.Violation {
	switch t[0] {
	case "maj":
		n := atoi(t[1])
		f := strings.Fields(out)
		if len(f) == 2 && atoi(f[0]) != 2*n/3 {
			return &hx.Violation{Kind: "majority-not-two-thirds", Detail: fmt.Sprintf("GetArbitersMajorityCount=%s for %d arbiters, 2n/3=%d", f[0], n, 2*n/3)}
		}
	case "disp":
		// whenever the dispatcher holds a majority of accept votes that all name the processing
		// proposal, they must come from more than 2n/3 distinct normal arbiters with valid signatures
		if out == "panic" {
			return nil
		}
		arbs, items := parseArbs(t[1]), strings.Split(t[2], ",")
		normal := map[int]bool{}
		for _, a := range arbs {
			if a.normal {
				normal[a.key] = true
			}
		}
		good := map[int]bool{} // valid accepting signers of the current view's proposal
		for i, o := range strings.Fields(out) {
			if i >= len(items) {
				break
			}
			if items[i] == "v" || items[i] == "h" {
				good = map[int]bool{}
				if o != "-:0" {
					return &hx.Violation{Kind: "dispatcher-kept-votes-across-views", Detail: fmt.Sprintf("after item %d (%s) the dispatcher still holds %s accept votes of the abandoned proposal", i, items[i], o[strings.Index(o, ":")+1:])}
				}
				continue
			}
			v := parseVotes(items[i])[0]
			if !v.hashOk {
				if len(t) > 3 && t[3] != "d" {
					// through the message handlers a vote for another proposal must never be collected
					if o[0] == '1' {
						return &hx.Violation{Kind: "handler-forwarded-foreign-vote", Detail: fmt.Sprintf("vote %d of signer %d names another proposal but was collected for the processing one", i, v.signer)}
					}
					continue
				}
				return nil // ProcessVote called directly with a vote for another proposal: outside its precondition
			}
			if o[0] == '1' && !(v.accept && v.sigOk && normal[v.signer]) {
				return &hx.Violation{Kind: "dispatcher-counted-bad-vote", Detail: fmt.Sprintf("vote %d of signer %d was collected although it is not a valid accepting vote of a normal arbiter", i, v.signer)}
			}
			if v.accept && v.sigOk && normal[v.signer] {
				good[v.signer] = true
			}
			if o[1] == '1' && 3*len(good) <= 2*len(arbs) {
				return &hx.Violation{Kind: "dispatcher-majority-without-quorum", Detail: fmt.Sprintf("majority reported after vote %d with %d distinct valid signers of the current proposal among %d arbiters", i, len(good), len(arbs))}
			}
		}
	case "chain":
		if out == "panic" || t[1] != "d" {
			return nil
		}
		steps := parseChainSteps(t[2:])
		outs := strings.Fields(out)
		acceptable := false // some confirmation supplied so far is a valid quorum of arbiters 0..4
		for i, st := range steps {
			if st.kind != 'b' && saneConf(st.ssig, st.votes) && st.sponsor < chainArbiters {
				good := map[int]bool{}
				ok := true
				for _, v := range st.votes {
					if v.signer >= chainArbiters {
						ok = false
					}
					good[v.signer] = true
				}
				if ok && 3*len(good) > 2*chainArbiters {
					acceptable = true
				}
			}
			if i >= len(outs) {
				break
			}
			f := strings.Split(outs[i], ":")
			if f[0] == "1" && !acceptable {
				return &hx.Violation{Kind: "chain-connected-without-valid-confirm", Detail: fmt.Sprintf("after step %d the block is in the main chain although no confirmation supplied so far is a validly signed two-thirds quorum of the current arbiters", i)}
			}
			if f[1] != "-" {
				if f[1] == "?" {
					return &hx.Violation{Kind: "pool-cached-unknown-confirm", Detail: "the pool holds a confirmation that was never supplied"}
				}
				j := atoi(f[1])
				if j > i || steps[j].kind == 'b' || !saneConf(steps[j].ssig, steps[j].votes) {
					return &hx.Violation{Kind: "pool-cached-insane-confirm", Detail: fmt.Sprintf("after step %d the block pool holds confirmation %d, which fails the signature/accept/hash checks", i, j)}
				}
			}
		}
	case "pool":
		if out == "panic" {
			return nil
		}
		steps := strings.Fields(out)
		for i, stp := range steps {
			c := stp[strings.LastIndex(stp, ":")+1:]
			if c == "-" {
				continue
			}
			if c == "?" {
				return &hx.Violation{Kind: "pool-cached-unknown-confirm", Detail: "the pool holds a confirmation that was never appended"}
			}
			j := atoi(c)
			if j > i || !saneConf(flag(t[2+3*j]), parseVotes(t[3+3*j])) {
				return &hx.Violation{Kind: "pool-cached-insane-confirm", Detail: fmt.Sprintf("after step %d the block pool holds confirmation %d, which fails the signature/accept/hash checks", i, j)}
			}
		}
	case "confirm":
		if out != "ok ok" {
			return nil
		}
		arbs, sponsor, ssig, votes := parseArbs(t[1]), atoi(t[3]), flag(t[4]), parseVotes(t[5])
		normal := map[int]bool{}
		for _, a := range arbs {
			if a.normal {
				normal[a.key] = true
			}
		}
		good := map[int]bool{}
		for _, v := range votes {
			if !(v.accept && v.hashOk && v.sigOk && normal[v.signer]) {
				return &hx.Violation{Kind: "accepted-bad-vote", Detail: fmt.Sprintf("accepted although vote of %d is not a valid accepting vote of a normal current arbiter for this proposal", v.signer)}
			}
			good[v.signer] = true
		}
		if 3*len(good) <= 2*len(arbs) {
			return &hx.Violation{Kind: "accepted-without-quorum", Detail: fmt.Sprintf("accepted with %d distinct valid signers of %d arbiters", len(good), len(arbs))}
		}
		if !ssig || !normal[sponsor] {
			return &hx.Violation{Kind: "accepted-bad-sponsor", Detail: "accepted although the sponsor is not a normal current arbiter with a valid proposal signature"}
		}
	}
	return nil
}

func nontrivial(t []string, out string) bool {
	if t[0] == "confirm" {
		return t[5] != "-"
	}
	return true
}

func main() {
	initPool()
	initArbiters()
	// dpos/log has its own package-level logger (used by the dispatcher); level 255 = silent
	ldir, err := os.MkdirTemp("", "c25log")
	if err != nil {
		panic(err)
	}
	defer os.RemoveAll(ldir)
	dlog.Init(ldir, 255, 0, 0)
	hx.Main(&hx.Prop{Name: "C25", Gen: gen, Exec: exec, Oracle: oracle, Nontrivial: nontrivial})
}
