// Harness for C15: the four caches in front of persistent data, the real code
// against the Lean cache machines.
//
//   u.*  blockchain.UTXOCache (reference FIFO+map, tx cache) over an in-memory
//        transaction store (IUTXOCacheStore), MaxReferenceSize set per history
//   i.*  indexers.TxCache driven the way UnspentIndex.ConnectBlock /
//        DisconnectBlock / FetchTx drive it (trim, setTxn, deleteTxn, GetTxn)
//   b.*  ChainStoreFFLDB.GetBlock over a real ffldb (blocks stored write-once
//        with StoreBlock, as dbStoreBlock does)
//   s.*  p2p.WriteMessage over net.Pipe with block messages
package main

import (
	"bytes"
	"errors"
	"fmt"
	"io"
	"net"
	"os"
	"runtime/debug"
	"sort"
	"strconv"
	"strings"
	"time"

	"elaverif/harness/hx"

	"github.com/elastos/Elastos.ELA/blockchain"
	"github.com/elastos/Elastos.ELA/blockchain/indexers"
	"github.com/elastos/Elastos.ELA/common"
	"github.com/elastos/Elastos.ELA/common/config"
	"github.com/elastos/Elastos.ELA/core/contract/program"
	transaction2 "github.com/elastos/Elastos.ELA/core/transaction"
	"github.com/elastos/Elastos.ELA/core/types"
	common2 "github.com/elastos/Elastos.ELA/core/types/common"
	"github.com/elastos/Elastos.ELA/core/types/functions"
	"github.com/elastos/Elastos.ELA/core/types/interfaces"
	"github.com/elastos/Elastos.ELA/core/types/outputpayload"
	"github.com/elastos/Elastos.ELA/core/types/payload"
	"github.com/elastos/Elastos.ELA/database"
	_ "github.com/elastos/Elastos.ELA/database/ffldb"
	"github.com/elastos/Elastos.ELA/elanet"
	"github.com/elastos/Elastos.ELA/mempool"
	"github.com/elastos/Elastos.ELA/p2p"

	"github.com/btcsuite/btcd/wire"
)

func atoi(s string) int {
	v, err := strconv.Atoi(s)
	if err != nil {
		panic("harness: bad int " + s)
	}
	return v
}
func csv(s string) []string {
	if s == "-" || s == "" {
		return nil
	}
	return strings.Split(s, ",")
}
func joinC(ss []string) string {
	if len(ss) == 0 {
		return "-"
	}
	return strings.Join(ss, ",")
}

var inited bool

func initOnce() {
	if inited {
		return
	}
	inited = true
	functions.GetTransactionByTxType = transaction2.GetTransaction
	functions.GetTransactionByBytes = transaction2.GetTransactionByBytes
	functions.CreateTransaction = transaction2.CreateTransaction
	functions.GetTransactionParameters = transaction2.GetTransactionparameters
	config.DefaultParams = *config.GetDefaultParams()
}

func mkTx(tag string, id int, outs []int, lock uint32, nin int) interfaces.Transaction {
	var outputs []*common2.Output
	for _, v := range outs {
		outputs = append(outputs, &common2.Output{Value: common.Fixed64(v)})
	}
	var inputs []*common2.Input
	for i := 0; i < nin; i++ {
		inputs = append(inputs, &common2.Input{Previous: common2.OutPoint{Index: uint16(i)}})
	}
	attrs := []*common2.Attribute{{Usage: common2.Nonce, Data: []byte(tag + strconv.Itoa(id))}}
	return functions.CreateTransaction(common2.TxVersion09, common2.TransferAsset, 0, &payload.TransferAsset{}, attrs, inputs, outputs, lock, []*program.Program{})
}

// ---------------------------------------------------------------- A. UTXOCache

type txStore struct{ m map[common.Uint256]interfaces.Transaction }

func (s *txStore) GetTransaction(id common.Uint256) (interfaces.Transaction, uint32, error) {
	if t, ok := s.m[id]; ok {
		return t, 0, nil
	}
	return nil, 0, errors.New("leveldb: not found")
}

type uState struct {
	store   *txStore
	cache   *blockchain.UTXOCache
	max     int
	outs    map[int][]int // the harness's own record of the store (the uncached truth)
	hashOf  map[int]common.Uint256
	idOf    map[common.Uint256]int
	unclean bool // the store lost a tx without the cache being cleaned (ReorganizeChain2 path)
}

var U *uState

func uHash(id int) common.Uint256 {
	if h, ok := U.hashOf[id]; ok {
		return h
	}
	t := mkTx("u", id, nil, 0, 0)
	h := t.Hash()
	U.hashOf[id] = h
	U.idOf[h] = id
	return h
}

func uSnap() string {
	var fifo []string
	for e := U.cache.Inputs.Front(); e != nil; e = e.Next() {
		in := e.Value.(common2.Input)
		id, ok := U.idOf[in.Previous.TxID]
		ids := "?"
		if ok {
			ids = strconv.Itoa(id)
		}
		fifo = append(fifo, fmt.Sprintf("%s:%d:%d", ids, in.Previous.Index, in.Sequence))
	}
	return fmt.Sprintf("fifo=%s nref=%d ntx=%d", joinC(fifo), len(U.cache.Reference), len(U.cache.TxCache))
}

var lastExpect string

// ---------------------------------------------------------------- B. indexed tx cache

type iState struct {
	mf      bool
	cache   *indexers.TxCache
	vol     int
	backing map[int][2]int // id → (height, payload): the index
	tx      map[int]interfaces.Transaction
	trimmed bool
}

var I *iState

func iTx(id, payloadV int, cacheable bool) interfaces.Transaction {
	nin := 0
	if !cacheable {
		nin = indexers.MaxCacheInputsCountPerTransaction + 1
	}
	t := mkTx("i", id, nil, uint32(payloadV), nin)
	I.tx[id] = t
	return t
}

func iHash(id int) common.Uint256 {
	if t, ok := I.tx[id]; ok {
		return t.Hash()
	}
	return mkTx("i-unknown", id, nil, 0, 0).Hash()
}

func iFetch(id int) (string, bool) {
	if info := I.cache.GetTxn(iHash(id)); info != nil { // UnspentIndex.FetchTx: cache first …
		return fmt.Sprintf("ok %d %d", info.BlockHeight, info.Txn.LockTime()), true
	}
	if b, ok := I.backing[id]; ok { // … then the index
		return fmt.Sprintf("ok %d %d", b[0], b[1]), false
	}
	return "err notfound", false
}

func iTruth(id int) string {
	if b, ok := I.backing[id]; ok {
		return fmt.Sprintf("ok %d %d", b[0], b[1])
	}
	return "err notfound"
}

// ---------------------------------------------------------------- B'. the real UnspentIndex over a real ffldb

var hashIdxBucket = []byte("hashidx") // the bucket the chain store maintains (block hash → height)

type xState struct {
	vol      int
	db       database.DB
	txIndex  *indexers.TxIndex
	cached   *indexers.UnspentIndex
	uncached *indexers.UnspentIndex // same database, a cache that is never populated = the uncached lookup
	blocks   map[int]*types.Block
	tx       map[int]interfaces.Transaction
	nonce    uint32
}

var X *xState
var xLastBlockTxs int

func xHash(id int) common.Uint256 {
	if t, ok := X.tx[id]; ok {
		return t.Hash()
	}
	return mkTx("x-unknown", id, nil, 0, 0).Hash()
}

func xReset(vol int, memoryFirst bool) {
	if X != nil && X.db != nil {
		X.db.Close()
	}
	dir, err := os.MkdirTemp("", "c15-index-")
	if err != nil {
		panic("harness: " + err.Error())
	}
	tmpDirs = append(tmpDirs, dir)
	db, err := database.Create("ffldb", dir+"/blocks", wire.MainNet)
	if err != nil {
		panic("harness: create ffldb: " + err.Error())
	}
	p := *config.GetDefaultParams()
	p.TxCacheVolume = uint32(vol)
	p.MemoryFirst = memoryFirst
	X = &xState{vol: vol, db: db, txIndex: indexers.NewTxIndex(db), cached: indexers.NewUnspentIndex(db, &p), uncached: indexers.NewUnspentIndex(db, &p),
		blocks: map[int]*types.Block{}, tx: map[int]interfaces.Transaction{}}
	err = db.Update(func(dbTx database.Tx) error {
		if _, err := dbTx.Metadata().CreateBucket(hashIdxBucket); err != nil {
			return err
		}
		if err := X.txIndex.Create(dbTx); err != nil {
			return err
		}
		return X.cached.Create(dbTx)
	})
	if err != nil {
		panic("harness: create buckets: " + err.Error())
	}
}

// h:nout:cacheable:coinbase:r.i+r.i
func xBuildTx(spec string) interfaces.Transaction {
	p := strings.Split(spec, ":")
	id, nout, cacheable, coinbase := atoi(p[0]), atoi(p[1]), p[2] == "1", p[3] == "1"
	var inputs []*common2.Input
	if p[4] != "-" {
		for _, in := range strings.Split(p[4], "+") {
			q := strings.Split(in, ".")
			inputs = append(inputs, &common2.Input{Previous: common2.OutPoint{TxID: xHash(atoi(q[0])), Index: uint16(atoi(q[1]))}})
		}
	}
	if cacheable != (len(inputs) <= indexers.MaxCacheInputsCountPerTransaction) {
		panic("harness: cacheable flag does not match the input count")
	}
	var outputs []*common2.Output
	for i := 0; i < nout; i++ {
		outputs = append(outputs, &common2.Output{Value: common.Fixed64(i + 1), Type: common2.OTNone, Payload: &outputpayload.DefaultOutput{}})
	}
	attrs := []*common2.Attribute{{Usage: common2.Nonce, Data: []byte("x" + strconv.Itoa(id))}}
	ty := common2.TransferAsset
	var pl interfaces.Payload = &payload.TransferAsset{}
	if coinbase {
		ty, pl = common2.CoinBase, &payload.CoinBase{}
	}
	t := functions.CreateTransaction(common2.TxVersion09, ty, 0, pl, attrs, inputs, outputs, 0, []*program.Program{})
	X.tx[id] = t
	return t
}

func xFetch(idx *indexers.UnspentIndex, id int) string {
	_, height, err := idx.FetchTx(xHash(id))
	if err != nil {
		return "err notfound"
	}
	return fmt.Sprintf("ok %d", height)
}

// ---------------------------------------------------------------- C. decoded block cache

type bState struct {
	dir    string
	store  *blockchain.ChainStoreFFLDB
	stored map[int]int
	hashOf map[int]common.Uint256
	idOf   map[common.Uint256]int
}

var B *bState
var tmpDirs []string

func mkBlock(id int, variant int) *types.DposBlock {
	b := &types.Block{Header: common2.Header{Version: 0, Height: uint32(id), Nonce: uint32(id)}}
	d := &types.DposBlock{Block: b}
	if variant > 0 {
		h := b.Hash()
		d.HaveConfirm = true
		d.Confirm = &payload.Confirm{Proposal: payload.DPOSProposal{Sponsor: []byte{byte(variant), 2, 3}, BlockHash: h, ViewOffset: uint32(variant), Sign: []byte{9}}}
	}
	return d
}

func bReset() {
	if B != nil && B.store != nil {
		B.store.Close()
	}
	dir, err := os.MkdirTemp("", "c15-blocks-")
	if err != nil {
		panic("harness: " + err.Error())
	}
	tmpDirs = append(tmpDirs, dir)
	st, err := blockchain.NewChainStoreFFLDB(dir, &config.DefaultParams)
	if err != nil {
		panic("harness: open ffldb: " + err.Error())
	}
	B = &bState{dir: dir, store: st.(*blockchain.ChainStoreFFLDB), stored: map[int]int{}, hashOf: map[int]common.Uint256{}, idOf: map[common.Uint256]int{}}
}

func bHash(id int) common.Uint256 {
	if h, ok := B.hashOf[id]; ok {
		return h
	}
	h := mkBlock(id, 0).Block.Hash()
	B.hashOf[id] = h
	B.idOf[h] = id
	return h
}

func bSnap() string {
	fifo, keys := B.store.VerifBlockCache()
	name := func(h common.Uint256) string {
		if id, ok := B.idOf[h]; ok {
			return strconv.Itoa(id)
		}
		return "?"
	}
	var f []string
	for _, h := range fifo {
		f = append(f, name(h))
	}
	var ks []int
	for _, h := range keys {
		ks = append(ks, B.idOf[h])
	}
	sort.Ints(ks)
	var k []string
	for _, v := range ks {
		k = append(k, strconv.Itoa(v))
	}
	return fmt.Sprintf("fifo=%s keys=%s", joinC(f), joinC(k))
}

// storeOnly is a chain store that only knows its ffldb part
type storeOnly struct {
	blockchain.IChainStore
	ffl *blockchain.ChainStoreFFLDB
}

func (s *storeOnly) GetFFLDB() blockchain.IFFLDBChainStore { return s.ffl }

// ---------------------------------------------------------------- D. send cache

type blockMsg struct{ b *types.DposBlock }

func (m *blockMsg) CMD() string                   { return p2p.CmdBlock }
func (m *blockMsg) MaxLength() uint32              { return 8 * 1024 * 1024 }
func (m *blockMsg) Serialize(w io.Writer) error    { return m.b.Serialize(w) }
func (m *blockMsg) Deserialize(r io.Reader) error  { return m.b.Deserialize(r) }

func send(m *blockMsg) []byte {
	c1, c2 := net.Pipe()
	done := make(chan []byte)
	go func() {
		var buf bytes.Buffer
		io.Copy(&buf, c2)
		done <- buf.Bytes()
	}()
	err := p2p.WriteMessage(c1, 1, m, 5*time.Second, func(msg p2p.Message) (*types.DposBlock, bool) {
		bm, ok := msg.(*blockMsg)
		if !ok {
			return nil, false
		}
		return bm.b, true
	})
	c1.Close()
	out := <-done
	if err != nil {
		panic("harness: WriteMessage: " + err.Error())
	}
	return out[p2p.HeaderSize:]
}

var sIDOf = map[common.Uint256]int{}

func sSnap() (string, int) {
	hashes, confirms, entries := p2p.VerifSendCache()
	b2s := func(b bool) string {
		if b {
			return "1"
		}
		return "0"
	}
	var fifo []string
	for i, h := range hashes {
		fifo = append(fifo, fmt.Sprintf("%d:%s", sIDOf[h], b2s(confirms[i])))
	}
	type oe struct {
		id int
		s  string
	}
	var outer []oe
	for _, e := range entries {
		var vs []string
		if e.HasUnconfirmed {
			vs = append(vs, "0")
		}
		if e.HasConfirmed {
			vs = append(vs, "1")
		}
		outer = append(outer, oe{sIDOf[e.Hash], fmt.Sprintf("%d:%s", sIDOf[e.Hash], strings.Join(vs, "+"))})
	}
	sort.Slice(outer, func(i, j int) bool { return outer[i].id < outer[j].id })
	var os_ []string
	for _, o := range outer {
		os_ = append(os_, o.s)
	}
	return fmt.Sprintf("fifo=%s outer=%s", joinC(fifo), joinC(os_)), len(entries)
}

// ---------------------------------------------------------------- exec

func exec(t []string) string {
	if os.Getenv("HX_DEBUG") != "" {
		defer func() {
			if e := recover(); e != nil {
				os.Stderr.Write(debug.Stack())
				panic(e)
			}
		}()
	}
	initOnce()
	lastExpect = ""
	switch t[0] {
	case "reset":
		return "ok"
	case "u.reset":
		max := atoi(t[1])
		blockchain.MaxReferenceSize = max
		st := &txStore{m: map[common.Uint256]interfaces.Transaction{}}
		up := *config.GetDefaultParams()
		up.MemoryFirst = len(t) > 2 && t[2] == "1" // the constructor then lowers MaxReferenceSize itself
		cache := blockchain.NewUTXOCache(st, &up)
		max = blockchain.MaxReferenceSize
		defer func() { lastExpect = "" }()
		U = &uState{store: st, cache: cache, max: max, outs: map[int][]int{},
			hashOf: map[int]common.Uint256{}, idOf: map[common.Uint256]int{}}
		return fmt.Sprintf("ok max=%d", max)
	case "u.put":
		id := atoi(t[1])
		var outs []int
		for _, o := range csv(t[2]) {
			outs = append(outs, atoi(o))
		}
		// the stored transaction carries the outputs; its id is the key (hash of the empty-output tx
		// stands for the tx id so that re-putting other outputs models a different tx under one id)
		tx := mkTx("u", id, outs, 0, 0)
		U.store.m[uHash(id)] = tx
		U.outs[id] = outs
		return "ok"
	case "u.del":
		id := atoi(t[1])
		delete(U.store.m, uHash(id))
		delete(U.outs, id)
		if len(U.cache.Reference) > 0 || len(U.cache.TxCache) > 0 {
			U.unclean = true
		}
		return "ok"
	case "u.clean":
		U.cache.CleanCache()
		U.unclean = false
		return "ok " + uSnap()
	case "u.cleantx":
		U.cache.CleanTxCache()
		return "ok " + uSnap()
	case "u.ref":
		var inputs []*common2.Input
		expect := "ok"
		var vals []string
		for _, s := range csv(t[1]) {
			p := strings.Split(s, ":")
			id, idx, seq := atoi(p[0]), atoi(p[1]), atoi(p[2])
			inputs = append(inputs, &common2.Input{Previous: common2.OutPoint{TxID: uHash(id), Index: uint16(idx)}, Sequence: uint32(seq)})
			if expect == "ok" {
				outs, ok := U.outs[id]
				if !ok {
					expect = "err notfound"
				} else if idx >= len(outs) {
					expect = "err range"
				} else {
					vals = append(vals, strconv.Itoa(outs[idx]))
				}
			}
		}
		if expect == "ok" {
			expect = "ok " + joinC(vals)
		}
		lastExpect = expect
		tx := functions.CreateTransaction(common2.TxVersion09, common2.TransferAsset, 0, &payload.TransferAsset{}, nil, inputs, nil, 0, nil)
		refs, err := U.cache.GetTxReference(tx)
		res := ""
		if err != nil {
			switch {
			case strings.Contains(err.Error(), "out of range"):
				res = "err range"
			case strings.Contains(err.Error(), "not found"):
				res = "err notfound"
			default:
				res = "err other"
			}
		} else {
			var vs []string
			for _, in := range inputs {
				vs = append(vs, strconv.Itoa(int(refs[in].Value)))
			}
			res = "ok " + joinC(vs)
		}
		return res + " " + uSnap()
	case "u.tx":
		id := atoi(t[1])
		if outs, ok := U.outs[id]; ok {
			var vs []string
			for _, o := range outs {
				vs = append(vs, strconv.Itoa(o))
			}
			lastExpect = "ok " + joinC(vs)
		} else {
			lastExpect = "err notfound"
		}
		tx, err := U.cache.GetTransaction(uHash(id))
		if err != nil {
			return "err notfound " + uSnap()
		}
		var vs []string
		for _, o := range tx.Outputs() {
			vs = append(vs, strconv.Itoa(int(o.Value)))
		}
		return "ok " + joinC(vs) + " " + uSnap()
	case "i.reset":
		vol := atoi(t[1])
		p := *config.GetDefaultParams()
		p.TxCacheVolume = uint32(vol)
		p.MemoryFirst = t[2] == "1"
		I = &iState{mf: p.MemoryFirst, cache: indexers.NewTxCache(&p), vol: vol, backing: map[int][2]int{}, tx: map[int]interfaces.Transaction{}}
		return "ok"
	case "i.connect": // i.connect <height> <id:payload:cacheable,…> <spent ids>
		h := atoi(t[1])
		I.cache.VerifTrim()
		for _, s := range csv(t[2]) {
			p := strings.Split(s, ":")
			id, pv, c := atoi(p[0]), atoi(p[1]), p[2] == "1"
			I.cache.VerifSetTxn(uint32(h), iTx(id, pv, c))
			I.backing[id] = [2]int{h, pv}
		}
		for _, s := range csv(t[3]) {
			I.cache.VerifDeleteTxn(iHash(atoi(s)))
		}
		return fmt.Sprintf("ok len=%d", I.cache.VerifLen())
	case "i.fill":
		from, count, h := atoi(t[1]), atoi(t[2]), atoi(t[3])
		for k := 0; k < count; k++ {
			I.cache.VerifSetTxn(uint32(h), iTx(from+k, from+k, true))
			I.backing[from+k] = [2]int{h, from + k}
		}
		return fmt.Sprintf("ok len=%d", I.cache.VerifLen())
	case "i.disconnect":
		for _, s := range csv(t[1]) {
			id := atoi(s)
			I.cache.VerifDeleteTxn(iHash(id))
			delete(I.backing, id)
		}
		return fmt.Sprintf("ok len=%d", I.cache.VerifLen())
	case "i.trim":
		before := I.cache.VerifLen()
		I.cache.VerifTrim()
		if I.cache.VerifLen() != before {
			I.trimmed = true
		}
		return fmt.Sprintf("ok len=%d", I.cache.VerifLen())
	case "i.roundtrip": // the cache is written out and read back (TxCache.Serialize / Deserialize, the index checkpoint)
		buf := new(bytes.Buffer)
		if err := I.cache.Serialize(buf); err != nil {
			return "err serialize"
		}
		p := *config.GetDefaultParams()
		p.TxCacheVolume = uint32(I.vol)
		p.MemoryFirst = I.mf
		nc := indexers.NewTxCache(&p)
		if err := nc.Deserialize(buf); err != nil {
			return "err deserialize"
		}
		I.cache = nc
		return fmt.Sprintf("ok len=%d", I.cache.VerifLen())
	case "i.fetch":
		id := atoi(t[1])
		lastExpect = iTruth(id)
		r, hit := iFetch(id)
		if hit {
			return r + " hit"
		}
		return r + " miss"
	case "i.fetchv":
		id := atoi(t[1])
		lastExpect = iTruth(id)
		r, _ := iFetch(id)
		return r
	case "rgflow":
		return execReorg(t[1] == "1")
	case "svflow":
		return execSave(t[1] == "1")
	case "x.reset":
		xReset(atoi(t[1]), t[2] == "1")
		return "ok"
	case "x.fetchv":
		id := atoi(t[1])
		lastExpect = xFetch(X.uncached, id)
		return xFetch(X.cached, id)
	case "x.connect", "x.bulk":
		h := atoi(t[1])
		var txs []interfaces.Transaction
		if t[0] == "x.bulk" {
			from, count := atoi(t[2]), atoi(t[3])
			for k := 0; k < count; k++ {
				txs = append(txs, xBuildTx(fmt.Sprintf("%d:0:1:0:-", from+k)))
			}
		} else {
			for _, spec := range strings.Split(t[2], ";") {
				txs = append(txs, xBuildTx(spec))
			}
		}
		xLastBlockTxs = len(txs)
		X.nonce++
		block := &types.Block{Header: common2.Header{Height: uint32(h), Nonce: X.nonce}, Transactions: txs}
		bh := block.Hash()
		err := X.db.Update(func(dbTx database.Tx) error {
			buf := new(bytes.Buffer)
			if err := (&types.DposBlock{Block: block}).Serialize(buf); err != nil {
				return err
			}
			if err := dbTx.StoreBlock(bh, buf.Bytes()); err != nil {
				return err
			}
			var hb [4]byte
			hb[0], hb[1], hb[2], hb[3] = byte(h), byte(h>>8), byte(h>>16), byte(h>>24)
			if err := dbTx.Metadata().Bucket(hashIdxBucket).Put(bh[:], hb[:]); err != nil {
				return err
			}
			if err := X.txIndex.ConnectBlock(dbTx, block); err != nil {
				return err
			}
			return X.cached.ConnectBlock(dbTx, block)
		})
		if err != nil {
			panic("harness: connect block: " + err.Error())
		}
		X.blocks[h] = block
		return fmt.Sprintf("ok len=%d", X.cached.TxCache.VerifLen())
	case "x.disconnect":
		h := atoi(t[1])
		block, ok := X.blocks[h]
		if !ok {
			panic("harness: no block at height " + t[1])
		}
		bh := block.Hash()
		err := X.db.Update(func(dbTx database.Tx) error {
			if err := dbTx.Metadata().Bucket(hashIdxBucket).Delete(bh[:]); err != nil {
				return err
			}
			if err := X.cached.DisconnectBlock(dbTx, block); err != nil {
				return err
			}
			return X.txIndex.DisconnectBlock(dbTx, block)
		})
		if err != nil {
			panic("harness: disconnect block: " + err.Error())
		}
		delete(X.blocks, h)
		return fmt.Sprintf("ok len=%d", X.cached.TxCache.VerifLen())
	case "x.fetch":
		id := atoi(t[1])
		lastExpect = xFetch(X.uncached, id)
		r := xFetch(X.cached, id)
		if X.cached.TxCache.GetTxn(xHash(id)) != nil {
			return r + " hit"
		}
		return r + " miss"
	case "b.reset":
		bReset()
		return "ok"
	case "b.store":
		id, c := atoi(t[1]), atoi(t[2])
		blk := mkBlock(id, c)
		h := bHash(id)
		err := B.store.Update(func(dbTx database.Tx) error {
			has, err := dbTx.HasBlock(h)
			if err != nil || has {
				return err
			}
			buf := new(bytes.Buffer)
			if err := blk.Serialize(buf); err != nil {
				return err
			}
			return dbTx.StoreBlock(h, buf.Bytes())
		})
		if err != nil {
			panic("harness: store block: " + err.Error())
		}
		if _, ok := B.stored[id]; !ok {
			B.stored[id] = c
		}
		return "ok"
	case "b.get", "b.get2":
		id := atoi(t[1])
		if t[0] == "b.get2" {
			// two concurrent misses for one hash, replayed deterministically: the second lookup runs
			// at the point where the first one has seen the miss and not yet inserted
			nested := false
			blockchain.VerifOnBlockCacheMiss = func(h common.Uint256) {
				if !nested {
					nested = true
					B.store.GetBlock(h)
				}
			}
			defer func() { blockchain.VerifOnBlockCacheMiss = nil }()
		}
		if c, ok := B.stored[id]; ok {
			lastExpect = fmt.Sprintf("ok %d %d", id, c)
		} else {
			lastExpect = "err notfound"
		}
		blk, err := B.store.GetBlock(bHash(id))
		if err != nil {
			return "err notfound " + bSnap()
		}
		c := 0
		if blk.HaveConfirm {
			c = int(blk.Confirm.Proposal.ViewOffset)
		}
		return fmt.Sprintf("ok %d %d %s", blk.Height, c, bSnap())
	case "b.push":
		// NetServer.pushBlockMsg's fetch-and-strip step for an InvTypeBlock request (block pool first, then the chain)
		id := atoi(t[1])
		chain := blockchain.VerifBlockChainOnStore(&storeOnly{ffl: B.store})
		blk := elanet.VerifBlockWithoutConfirm(chain, mempool.NewBlockPool(&config.DefaultParams), bHash(id))
		if blk == nil {
			return "err notfound " + bSnap()
		}
		c := 0
		if blk.HaveConfirm {
			c = int(blk.Confirm.Proposal.ViewOffset)
		}
		return fmt.Sprintf("ok %d %d %s", blk.Height, c, bSnap())
	case "s.reset":
		p2p.VerifResetSendCache()
		return "ok"
	case "s.write":
		id, v := atoi(t[1]), atoi(t[2])
		blk := mkBlock(id, v)
		sIDOf[blk.Block.Hash()] = id
		got := send(&blockMsg{blk})
		sent := -1
		for cand := 0; cand <= 2; cand++ {
			var buf bytes.Buffer
			mkBlock(id, cand).Serialize(&buf)
			if bytes.Equal(buf.Bytes(), got) {
				sent = cand
			}
		}
		snap, _ := sSnap()
		return fmt.Sprintf("sent=%d %s", sent, snap)
	}
	panic("harness: unknown op " + t[0])
}

// ---------------------------------------------------------------- oracle

func field(out, name string) string {
	for _, f := range strings.Fields(out) {
		if strings.HasPrefix(f, name+"=") {
			return f[len(name)+1:]
		}
	}
	return ""
}

func answer(out string) string {
	f := strings.Fields(out)
	var keep []string
	for _, x := range f {
		if strings.Contains(x, "=") || x == "hit" || x == "miss" {
			break
		}
		keep = append(keep, x)
	}
	return strings.Join(keep, " ")
}

func oracle(t []string, out string) *hx.Violation {
	bad := func(kind, detail string) *hx.Violation { return &hx.Violation{Kind: kind, Detail: detail} }
	switch t[0] {
	case "u.ref", "u.tx":
		if !U.unclean && answer(out) != lastExpect {
			return bad("utxo-cache-stale", "cached answer "+answer(out)+" but the store says "+lastExpect)
		}
		n := len(csv(field(out, "fifo")))
		lim := U.max
		if lim < 1 {
			lim = 1
		}
		if n > lim {
			return bad("utxo-fifo-over-limit", fmt.Sprintf("%d references queued, limit %d", n, lim))
		}
		if atoi(field(out, "nref")) > n {
			return bad("utxo-ref-not-queued", "more cached references than queue entries")
		}
		if atoi(field(out, "ntx")) > U.max+1 {
			return bad("utxo-txcache-over-limit", fmt.Sprintf("%s transactions cached, limit %d", field(out, "ntx"), U.max+1))
		}
	case "svflow":
		if field(out, "fetch") != svExpect {
			return bad("txcache-stale", "after SaveBlock answered "+field(out, "saved")+", GetTransaction of a transaction of that block says "+field(out, "fetch")+" but a cache-less index on the same database says "+svExpect)
		}
	case "rgflow":
		if field(out, "after") != rgExpectAfter {
			return bad("utxo-cache-stale", "after the node reorganised, GetTxReference answers "+field(out, "after")+" but the store lookup says "+rgExpectAfter)
		}
	case "x.connect", "x.bulk":
		// ConnectBlock trims before it caches the block's transactions
		if n := atoi(field(out, "len")); n > X.vol+indexers.TrimmingInterval+xLastBlockTxs {
			return bad("txcache-over-limit", fmt.Sprintf("%d transactions cached after connecting a block of %d, volume %d + interval %d", n, xLastBlockTxs, X.vol, indexers.TrimmingInterval))
		}
	case "x.fetch", "x.fetchv":
		if answer(out) != lastExpect {
			return bad("txcache-stale", "UnspentIndex.FetchTx answers "+answer(out)+", a cache-less index on the same database "+lastExpect)
		}
	case "i.fetch", "i.fetchv":
		if answer(out) != lastExpect {
			return bad("txcache-stale", "FetchTx answers "+answer(out)+" but the index says "+lastExpect)
		}
	case "i.trim", "i.connect":
		if t[0] == "i.trim" && atoi(field(out, "len")) > I.vol+indexers.TrimmingInterval {
			return bad("txcache-over-limit", "after trim "+field(out, "len")+" entries")
		}
	case "b.get", "b.get2":
		if answer(out) != lastExpect {
			return bad("blockcache-stale", "GetBlock answers "+answer(out)+" but the store has "+lastExpect)
		}
		if len(csv(field(out, "fifo"))) > 2 || len(csv(field(out, "keys"))) > 2 {
			return bad("blockcache-over-limit", out)
		}
		queued := map[string]bool{}
		for _, x := range csv(field(out, "fifo")) {
			queued[x] = true
		}
		for _, k := range csv(field(out, "keys")) {
			if !queued[k] {
				return bad("blockcache-pinned", "block "+k+" is cached but no longer queued for eviction: "+out)
			}
		}
	case "s.write":
		if field(out, "sent") != t[2] {
			return bad("send-cache-wrong-confirm", fmt.Sprintf("block %s variant %s was sent as variant %s (cached bytes of another confirm)", t[1], t[2], field(out, "sent")))
		}
		if len(csv(field(out, "outer"))) > 2 || len(csv(field(out, "fifo"))) > 2 {
			return bad("send-cache-over-limit", out)
		}
	}
	return nil
}

func nontrivial(t []string, out string) bool {
	return strings.Contains(out, "hit") || (strings.HasPrefix(t[0], "u.") && strings.HasPrefix(out, "ok ")) ||
		strings.HasPrefix(t[0], "b.get") || t[0] == "rgflow" || t[0] == "svflow" || strings.HasPrefix(t[0], "s.write")
}

func bucket(t []string, out string) string {
	f := strings.Fields(out)
	k := t[0]
	if len(f) > 0 && (f[0] == "ok" || f[0] == "err") {
		k += "/" + f[0]
		if f[0] == "err" && len(f) > 1 {
			k += " " + f[1]
		}
	}
	if strings.HasSuffix(out, " hit") {
		k += "+hit"
	}
	return k
}

func main() {
	defer func() {
		if B != nil && B.store != nil {
			B.store.Close()
		}
		if X != nil && X.db != nil {
			X.db.Close()
		}
		for _, d := range tmpDirs {
			os.RemoveAll(d)
		}
	}()
	hx.Main(&hx.Prop{Name: "C15", Gen: gen, Exec: exec, Oracle: oracle, Nontrivial: nontrivial, Bucket: bucket, Stateful: true})
}
