package main

import (
	"bytes"
	"fmt"
	"io"
	"net"
	"time"

	"github.com/elastos/Elastos.ELA/common"
	"github.com/elastos/Elastos.ELA/core/types"
	common2 "github.com/elastos/Elastos.ELA/core/types/common"
	"github.com/elastos/Elastos.ELA/core/types/payload"
	"github.com/elastos/Elastos.ELA/p2p"
)

type blockMsg struct{ b *types.DposBlock }

func (m *blockMsg) CMD() string                  { return p2p.CmdBlock }
func (m *blockMsg) MaxLength() uint32             { return 8 * 1024 * 1024 }
func (m *blockMsg) Serialize(w io.Writer) error   { return m.b.Serialize(w) }
func (m *blockMsg) Deserialize(r io.Reader) error { return m.b.Deserialize(r) }

func mkBlock(n uint32, confirm *payload.Confirm) *types.DposBlock {
	b := &types.Block{Header: common2.Header{Version: 0, Height: n, Nonce: n}}
	return &types.DposBlock{Block: b, HaveConfirm: confirm != nil, Confirm: confirm}
}

func send(m *blockMsg) []byte {
	c1, c2 := net.Pipe()
	done := make(chan []byte)
	go func() {
		var buf bytes.Buffer
		io.Copy(&buf, c2)
		done <- buf.Bytes()
	}()
	err := p2p.WriteMessage(c1, 1, m, time.Second, func(msg p2p.Message) (*types.DposBlock, bool) {
		bm, ok := msg.(*blockMsg)
		if !ok {
			return nil, false
		}
		return bm.b, true
	})
	c1.Close()
	out := <-done
	if err != nil {
		panic(err)
	}
	return out[p2p.HeaderSize:]
}

func main() {
	for i := 0; i < 50; i++ {
		send(&blockMsg{mkBlock(uint32(i), nil)})
	}
	_, _, entries := p2p.VerifSendCache()
	empty := 0
	for _, e := range entries {
		if !e.HasConfirmed && !e.HasUnconfirmed {
			empty++
		}
	}
	fmt.Println("outer entries after 50 distinct blocks:", len(entries), "empty:", empty)
	// two confirms for one block
	h := mkBlock(7, nil).Block.Hash()
	cA := &payload.Confirm{Proposal: payload.DPOSProposal{Sponsor: []byte{1, 2, 3}, BlockHash: h, ViewOffset: 0, Sign: []byte{9}}}
	cB := &payload.Confirm{Proposal: payload.DPOSProposal{Sponsor: []byte{4, 5, 6}, BlockHash: h, ViewOffset: 1, Sign: []byte{8}}}
	p2p.VerifResetSendCache()
	a := send(&blockMsg{mkBlock(7, cA)})
	bb := send(&blockMsg{mkBlock(7, cB)})
	var fresh bytes.Buffer
	mkBlock(7, cB).Serialize(&fresh)
	fmt.Println("second confirm: sent == first's bytes:", bytes.Equal(a, bb), " sent == own serialization:", bytes.Equal(bb, fresh.Bytes()))
	_ = common.Uint256{}
}
