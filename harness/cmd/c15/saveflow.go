package main

// ChainStoreFFLDB.SaveBlock on the fully initialised store of a real regnet node: the block goes in
// through the real SaveBlock (best state, block index, save processors, index manager) with an optional
// failing save processor.  A failing processor rolls the database transaction back; the indexed tx cache
// is not transactional, so nothing of the block may have reached it.

import (
	"errors"
	"os"
	"time"

	"elaverif/harness/regnet"

	"github.com/elastos/Elastos.ELA/blockchain"
	"github.com/elastos/Elastos.ELA/blockchain/indexers"
	ctypes "github.com/elastos/Elastos.ELA/core/types/common"
	"github.com/elastos/Elastos.ELA/core/types/interfaces"
	"github.com/elastos/Elastos.ELA/database"
)

var svExpect string

func execSave(fail bool) string {
	dir, err := os.MkdirTemp("", "c15-regnet-")
	if err != nil {
		panic("harness: " + err.Error())
	}
	defer os.RemoveAll(dir)
	n, err := regnet.NewNode(dir+"/n", regnet.Options{CoinbaseMaturity: 1})
	if err != nil {
		panic("harness: regnet: " + err.Error())
	}
	defer n.Close()
	must := func(err error, what string) {
		if err != nil {
			panic("harness: " + what + ": " + err.Error())
		}
	}
	tip := n.Genesis
	mine := func(txs ...interfaces.Transaction) {
		b, err := n.Mine(tip, txs)
		must(err, "mine")
		_, _, err = n.Deliver(b)
		must(err, "deliver")
		tip = b
	}
	mine()
	mine()
	g := n.Genesis.Transactions[0]
	fund, err := n.Transfer(0, []ctypes.OutPoint{{TxID: g.Hash(), Index: 0}},
		[]regnet.Out{{To: 1, Value: 500000000}, {To: 0, Value: g.Outputs()[0].Value - 500000000 - 10000}}, 1)
	must(err, "fund")
	mine(fund)
	tTx, err := n.Transfer(1, []ctypes.OutPoint{{TxID: fund.Hash(), Index: 0}}, []regnet.Out{{To: 2, Value: 499990000}}, 2)
	must(err, "T")
	blk, err := n.Mine(tip, []interfaces.Transaction{tTx})
	must(err, "mine the block to save")
	ffl := n.Store.GetFFLDB()
	h := blk.Hash()
	node := blockchain.NewBlockNode(&blk.Header, &h)
	var ps []database.TXProcessor
	if fail {
		ps = append(ps, func(dbTx database.Tx) error { return errors.New("save processor failed") })
	}
	saved := "ok"
	if err := ffl.SaveBlock(blk, node, nil, time.Unix(int64(blk.Timestamp), 0), ps); err != nil {
		saved = "err"
	}
	ask := func(f func() error) string {
		if f() != nil {
			return "err"
		}
		return "ok"
	}
	// the cached path (ChainStore.GetTransaction → index manager → UnspentIndex.FetchTx with its TxCache) …
	fetch := ask(func() error { _, _, err := n.Store.GetTransaction(tTx.Hash()); return err })
	// … and a cache-less index on the same database
	svExpect = ask(func() error { _, _, err := indexers.NewUnspentIndex(ffl, n.Params).FetchTx(tTx.Hash()); return err })
	return "saved=" + saved + " fetch=" + fetch
}
