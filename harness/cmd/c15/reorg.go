package main

// Node-level reorganisation (harness/regnet): the UTXO reference cache of a real node is filled through
// GetTxReference, the chain then reorganises through BlockChain.ProcessBlock (reorganizeChain calls
// UTXOCache.CleanCache first), and the same lookup must answer like the uncached store lookup.

import (
	"os"

	"elaverif/harness/regnet"

	"github.com/elastos/Elastos.ELA/blockchain"

	ctypes "github.com/elastos/Elastos.ELA/core/types/common"
	"github.com/elastos/Elastos.ELA/core/types/interfaces"
)

var rgExpectAfter string

func execReorg(keep bool) string {
	blockchain.MaxReferenceSize = 100000 // the u.* stream changes this package variable
	dir, err := os.MkdirTemp("", "c15-regnet-")
	if err != nil {
		panic("harness: " + err.Error())
	}
	defer os.RemoveAll(dir)
	n, err := regnet.NewNode(dir+"/n", regnet.Options{CoinbaseMaturity: 1})
	if err != nil {
		panic("harness: regnet: " + err.Error())
	}
	defer n.Close()
	must := func(err error, what string) {
		if err != nil {
			panic("harness: " + what + ": " + err.Error())
		}
	}
	tip := n.Genesis
	mine := func(txs ...interfaces.Transaction) {
		b, err := n.Mine(tip, txs)
		must(err, "mine")
		_, _, err = n.Deliver(b)
		must(err, "deliver")
		tip = b
	}
	mine()
	mine()
	g := n.Genesis.Transactions[0]
	fund, err := n.Transfer(0, []ctypes.OutPoint{{TxID: g.Hash(), Index: 0}},
		[]regnet.Out{{To: 1, Value: 500000000}, {To: 0, Value: g.Outputs()[0].Value - 500000000 - 10000}}, 1)
	must(err, "fund")
	mine(fund)
	fork := tip // common ancestor
	// branch A: T spends the funding output
	tTx, err := n.Transfer(1, []ctypes.OutPoint{{TxID: fund.Hash(), Index: 0}}, []regnet.Out{{To: 2, Value: 499990000}}, 2)
	must(err, "T")
	mine(tTx)
	// a transaction spending T:0 — only used to ask the reference cache
	spender, err := n.Transfer(2, []ctypes.OutPoint{{TxID: tTx.Hash(), Index: 0}}, []regnet.Out{{To: 3, Value: 499980000}}, 3)
	must(err, "spender")
	ask := func() string {
		if _, err := n.Chain.UTXOCache.GetTxReference(spender); err != nil {
			return "err"
		}
		return "ok"
	}
	before := ask()
	// branch B from the common ancestor, two blocks: the node reorganises
	var first []interfaces.Transaction
	if keep {
		first = append(first, tTx)
	}
	b1, err := n.Mine(fork, first, regnet.MineOpts{Miner: 3})
	must(err, "mine fork 1")
	_, _, err = n.Deliver(b1)
	must(err, "deliver fork 1")
	b2, err := n.Mine(b1, nil, regnet.MineOpts{Miner: 3})
	must(err, "mine fork 2")
	_, _, err = n.Deliver(b2)
	must(err, "deliver fork 2")
	if h, _ := n.Tip(); h != b2.Hash() {
		panic("harness: the node did not reorganise to the longer branch")
	}
	after := ask()
	// the uncached answer: is T known to the store now?
	if _, _, err := n.Store.GetTransaction(tTx.Hash()); err != nil {
		rgExpectAfter = "err"
	} else {
		rgExpectAfter = "ok"
	}
	return "before=" + before + " after=" + after
}
