package main

import (
	"fmt"
	"strings"

	"elaverif/harness/hx"
)

func genUtxo(g *hx.Gen, r *hx.Rand) {
	g.Emit("reset")
	max := r.Pick(0, 1, 2, 3, 3, 5)
	if r.Chance(10) {
		g.Emit("u.reset %d 1", max) // MemoryFirst: NewUTXOCache itself sets the limit
	} else {
		g.Emit("u.reset %d 0", max)
	}
	ntx := 2 + r.Intn(5)
	nouts := map[int]int{}
	for id := 1; id <= ntx; id++ {
		n := 1 + r.Intn(3)
		var outs []string
		for k := 0; k < n; k++ {
			outs = append(outs, fmt.Sprint(id*100+k))
		}
		nouts[id] = n
		g.Emit("u.put %d %s", id, strings.Join(outs, ","))
	}
	next := ntx + 1
	steps := 10 + r.Intn(g.N(25, 60))
	for s := 0; s < steps; s++ {
		switch w := r.Intn(100); {
		case w < 60:
			n := 1 + r.Intn(3)
			var ins []string
			for k := 0; k < n; k++ {
				id := 1 + r.Intn(next) // next = one unknown id
				idx := r.Intn(3)
				if r.Chance(5) {
					idx = 7
				}
				ins = append(ins, fmt.Sprintf("%d:%d:%d", id, idx, r.Pick(0, 0, 0, 1)))
			}
			g.Emit("u.ref %s", strings.Join(ins, ","))
		case w < 75:
			g.Emit("u.tx %d", 1+r.Intn(next))
		case w < 82:
			g.Emit("u.cleantx")
		case w < 88: // a new block brings a new transaction
			g.Emit("u.put %d %d,%d", next, next*100, next*100+1)
			nouts[next] = 2
			next++
		case w < 94: // reorganizeChain: clean, then the store changes arbitrarily
			g.Emit("u.clean")
			if next > 2 {
				g.Emit("u.del %d", 1+r.Intn(next-1))
			}
			g.Emit("u.put %d %d", next, next*100)
			next++
		default:
			g.Emit("u.clean")
		}
	}
}

func genIdx(g *hx.Gen, r *hx.Rand) {
	g.Emit("reset")
	g.Emit("i.reset %d %d", 2+r.Intn(6), r.Pick(0, 0, 0, 1)) // MemoryFirst in a quarter of the histories
	next := 1
	var blocks [][]int
	height := 1
	steps := 8 + r.Intn(g.N(20, 50))
	for s := 0; s < steps; s++ {
		switch w := r.Intn(100); {
		case w < 45:
			n := 1 + r.Intn(4)
			var txs []string
			var ids []int
			for k := 0; k < n; k++ {
				c := 1
				if r.Chance(15) {
					c = 0
				}
				txs = append(txs, fmt.Sprintf("%d:%d:%d", next, 1000+next, c))
				ids = append(ids, next)
				next++
			}
			var spent []string
			if next > 3 && r.Chance(50) {
				spent = append(spent, fmt.Sprint(1+r.Intn(next-1)))
			}
			sp := "-"
			if len(spent) > 0 {
				sp = strings.Join(spent, ",")
			}
			g.Emit("i.connect %d %s %s", height, strings.Join(txs, ","), sp)
			blocks = append(blocks, ids)
			height++
		case w < 55:
			if len(blocks) > 0 {
				last := blocks[len(blocks)-1]
				blocks = blocks[:len(blocks)-1]
				var ss []string
				for _, id := range last {
					ss = append(ss, fmt.Sprint(id))
				}
				g.Emit("i.disconnect %s", strings.Join(ss, ","))
				height--
			}
		case w < 58:
			g.Emit("i.trim")
		case w < 62:
			g.Emit("i.roundtrip")
		default:
			g.Emit("i.fetch %d", 1+r.Intn(next+1))
		}
	}
}

// one history that really trims: more than volume + TrimmingInterval entries
func genIdxTrim(g *hx.Gen, r *hx.Rand) {
	g.Emit("reset")
	vol := 3 + r.Intn(5)
	g.Emit("i.reset %d 0", vol)
	g.Emit("i.fill 1 %d 1", vol+10000)
	g.Emit("i.trim") // exactly at the trigger: nothing happens
	g.Emit("i.fetch %d", 1+r.Intn(vol+10000))
	g.Emit("i.fill %d 2 2", vol+10001)
	g.Emit("i.trim") // over: down to volume-1
	for k := 0; k < 20; k++ {
		g.Emit("i.fetchv %d", 1+r.Intn(vol+10010))
	}
	g.Emit("i.connect 3 %d:7:1,%d:8:1 -", vol+10100, vol+10101)
	g.Emit("i.fetchv %d", vol+10100)
}

// the real UnspentIndex over a real ffldb: blocks with ordinary, output-less (payload-only),
// coinbase and >100-input transactions are connected and disconnected (tip first); after every
// step every transaction of the touched block and a few others are fetched.
func genIndex(g *hx.Gen, r *hx.Rand) {
	g.Emit("reset")
	g.Emit("x.reset %d %d", 2+r.Intn(8), r.Pick(0, 0, 0, 1))
	next := 1
	type out struct{ id, idx int }
	var unspent []out
	type blk struct {
		ids     []int
		created []out
		spent   []out
	}
	var chain []blk
	fetchAll := func(ids []int) {
		for _, id := range ids {
			g.Emit("x.fetch %d", id)
		}
		g.Emit("x.fetch %d", 1+r.Intn(next+1))
	}
	steps := 6 + r.Intn(g.N(14, 40))
	for s := 0; s < steps; s++ {
		if len(chain) > 0 && r.Chance(30) {
			b := chain[len(chain)-1]
			chain = chain[:len(chain)-1]
			g.Emit("x.disconnect %d", len(chain)+1)
			// outputs created by the block disappear, outputs it spent come back
			var keep []out
			for _, o := range unspent {
				gone := false
				for _, c := range b.created {
					if c == o {
						gone = true
					}
				}
				if !gone {
					keep = append(keep, o)
				}
			}
			unspent = append(keep, b.spent...)
			fetchAll(b.ids)
			continue
		}
		var b blk
		var specs []string
		n := 1 + r.Intn(4)
		avail := append([]out(nil), unspent...) // only outputs of earlier blocks are spent
		for k := 0; k < n; k++ {
			id := next
			next++
			nout := r.Pick(0, 0, 1, 2, 3)
			coinbase := k == 0 && r.Chance(60)
			var ins []string
			if !coinbase && len(avail) > 0 && r.Chance(60) {
				m := 1 + r.Intn(2)
				for j := 0; j < m && len(avail) > 0; j++ {
					q := r.Intn(len(avail))
					o := avail[q]
					avail = append(avail[:q], avail[q+1:]...)
					ins = append(ins, fmt.Sprintf("%d.%d", o.id, o.idx))
					b.spent = append(b.spent, o)
				}
			}
			cacheable := 1
			if coinbase && r.Chance(10) {
				nout = 101 // a funder for a transaction with more than 100 inputs
			}
			if !coinbase && r.Chance(15) {
				// spend one whole 101-output funder if there is one
				for _, c := range chain {
					_ = c
				}
				var fid = -1
				cnt := map[int]int{}
				for _, o := range avail {
					cnt[o.id]++
					if cnt[o.id] == 101 {
						fid = o.id
					}
				}
				if fid >= 0 {
					ins = nil
					// give back what this tx had picked
					b.spent = b.spent[:len(b.spent)-len(ins)]
					var rest []out
					for _, o := range avail {
						if o.id == fid {
							ins = append(ins, fmt.Sprintf("%d.%d", o.id, o.idx))
							b.spent = append(b.spent, o)
						} else {
							rest = append(rest, o)
						}
					}
					avail = rest
					cacheable = 0
				}
			}
			insS := "-"
			if len(ins) > 0 {
				insS = strings.Join(ins, "+")
			}
			cb := 0
			if coinbase {
				cb = 1
			}
			specs = append(specs, fmt.Sprintf("%d:%d:%d:%d:%s", id, nout, cacheable, cb, insS))
			b.ids = append(b.ids, id)
			for i := 0; i < nout; i++ {
				b.created = append(b.created, out{id, i})
			}
		}
		g.Emit("x.connect %d %s", len(chain)+1, strings.Join(specs, ";"))
		// bookkeeping
		var keep []out
		for _, o := range unspent {
			used := false
			for _, sp := range b.spent {
				if sp == o {
					used = true
				}
			}
			if !used {
				keep = append(keep, o)
			}
		}
		unspent = append(keep, b.created...)
		chain = append(chain, b)
		fetchAll(b.ids)
		for _, sp := range b.spent {
			g.Emit("x.fetch %d", sp.id)
		}
	}
}

// the real index above its trim trigger: two bulk blocks fill the cache beyond volume + TrimmingInterval
// (at heights that are not multiples of anything special), the next block must trim first.
func genIndexTrim(g *hx.Gen, r *hx.Rand) {
	g.Emit("reset")
	vol := 3 + r.Intn(5)
	g.Emit("x.reset %d 0", vol)
	g.Emit("x.bulk 1 1 6000")
	g.Emit("x.bulk 2 6001 %d", 4003+vol) // now volume + 10003 cached: over the trigger
	g.Emit("x.fetch %d", 1+r.Intn(10000))
	g.Emit("x.connect 3 20001:1:1:1:-;20002:0:1:0:-") // trims to volume-1, then caches its two transactions
	for k := 0; k < 6; k++ {
		g.Emit("x.fetchv %d", 1+r.Intn(10010))
	}
	g.Emit("x.fetchv 20002")
	g.Emit("x.connect 4 20003:0:1:0:-")
}

func genBlock(g *hx.Gen, r *hx.Rand) {
	g.Emit("reset")
	g.Emit("b.reset")
	n := 3 + r.Intn(4)
	for id := 1; id <= n; id++ {
		g.Emit("b.store %d %d", id, r.Pick(0, 1))
	}
	steps := 10 + r.Intn(g.N(20, 40))
	for s := 0; s < steps; s++ {
		switch w := r.Intn(100); {
		case w < 50:
			g.Emit("b.get %d", 1+r.Intn(n+1))
		case w < 60: // a peer asks for the block without its confirm; the next reads must still see the confirm
			id := 1 + r.Intn(n+1)
			g.Emit("b.push %d", id)
			g.Emit("b.get %d", id)
		case w < 75:
			g.Emit("b.get2 %d", 1+r.Intn(n+1))
		case w < 90:
			n++
			g.Emit("b.store %d %d", n, r.Pick(0, 1))
		default: // storing again under the same hash is ignored (write once)
			g.Emit("b.store %d %d", 1+r.Intn(n), r.Pick(0, 1))
		}
	}
}

func genSend(g *hx.Gen, r *hx.Rand, variants bool) {
	g.Emit("reset")
	g.Emit("s.reset")
	conf := map[int]int{}
	steps := 10 + r.Intn(g.N(30, 60))
	for s := 0; s < steps; s++ {
		id := 1 + r.Intn(5)
		v := r.Pick(0, 1)
		if variants {
			// the same block under two different confirms (known finding C15-send-cache-confirm-variant)
			v = r.Pick(0, 1, 2)
		} else if v == 1 {
			// a node holds one confirm per block
			if c, ok := conf[id]; ok {
				v = c
			} else {
				conf[id] = 1
			}
		}
		g.Emit("s.write %d %d", id, v)
	}
}

func genSendMany(g *hx.Gen) {
	g.Emit("reset")
	g.Emit("s.reset")
	for id := 1; id <= 60; id++ {
		g.Emit("s.write %d %d", id, id%2)
	}
	g.Emit("s.write 1 1") // evicted long ago: must be cached again
	g.Emit("s.write 1 1")
}

func gen(g *hx.Gen) {
	for _, fail := range []int{0, 1} { // the real SaveBlock, without / with a failing save processor
		g.Emit("reset")
		g.Emit("svflow %d", fail)
	}
	for _, keep := range []int{0, 1} { // a real node reorganises; the transaction is / is not on the new branch
		g.Emit("reset")
		g.Emit("rgflow %d", keep)
	}
	for i := 0; i < g.N(60, 600); i++ {
		genUtxo(g, g.R.Fork(uint64(i)))
	}
	for i := 0; i < g.N(30, 300); i++ {
		genIdx(g, g.R.Fork(uint64(10000+i)))
	}
	for i := 0; i < g.N(1, 3); i++ {
		genIdxTrim(g, g.R.Fork(uint64(20000+i)))
	}
	for i := 0; i < g.N(25, 200); i++ {
		genIndex(g, g.R.Fork(uint64(25000+i)))
	}
	genIndexTrim(g, g.R.Fork(26000))
	for i := 0; i < g.N(15, 100); i++ {
		genBlock(g, g.R.Fork(uint64(30000+i)))
	}
	for i := 0; i < g.N(30, 300); i++ {
		genSend(g, g.R.Fork(uint64(40000+i)), false)
	}
	genSend(g, g.R.Fork(50000), true)
	genSendMany(g)
}
