package main

import (
	"fmt"
	"strings"

	"elaverif/harness/hx"
)

func genUtxo(g *hx.Gen, r *hx.Rand) {
	g.Emit("reset")
	max := r.Pick(0, 1, 2, 3, 3, 5)
	g.Emit("u.reset %d", max)
	ntx := 2 + r.Intn(5)
	nouts := map[int]int{}
	for id := 1; id <= ntx; id++ {
		n := 1 + r.Intn(3)
		var outs []string
		for k := 0; k < n; k++ {
			outs = append(outs, fmt.Sprint(id*100+k))
		}
		nouts[id] = n
		g.Emit("u.put %d %s", id, strings.Join(outs, ","))
	}
	next := ntx + 1
	steps := 10 + r.Intn(g.N(25, 60))
	for s := 0; s < steps; s++ {
		switch w := r.Intn(100); {
		case w < 60:
			n := 1 + r.Intn(3)
			var ins []string
			for k := 0; k < n; k++ {
				id := 1 + r.Intn(next) // next = one unknown id
				idx := r.Intn(3)
				if r.Chance(5) {
					idx = 7
				}
				ins = append(ins, fmt.Sprintf("%d:%d:%d", id, idx, r.Pick(0, 0, 0, 1)))
			}
			g.Emit("u.ref %s", strings.Join(ins, ","))
		case w < 75:
			g.Emit("u.tx %d", 1+r.Intn(next))
		case w < 82:
			g.Emit("u.cleantx")
		case w < 88: // a new block brings a new transaction
			g.Emit("u.put %d %d,%d", next, next*100, next*100+1)
			nouts[next] = 2
			next++
		case w < 94: // reorganizeChain: clean, then the store changes arbitrarily
			g.Emit("u.clean")
			if next > 2 {
				g.Emit("u.del %d", 1+r.Intn(next-1))
			}
			g.Emit("u.put %d %d", next, next*100)
			next++
		default:
			g.Emit("u.clean")
		}
	}
}

func genIdx(g *hx.Gen, r *hx.Rand) {
	g.Emit("reset")
	g.Emit("i.reset %d", 2+r.Intn(6))
	next := 1
	var blocks [][]int
	height := 1
	steps := 8 + r.Intn(g.N(20, 50))
	for s := 0; s < steps; s++ {
		switch w := r.Intn(100); {
		case w < 45:
			n := 1 + r.Intn(4)
			var txs []string
			var ids []int
			for k := 0; k < n; k++ {
				c := 1
				if r.Chance(15) {
					c = 0
				}
				txs = append(txs, fmt.Sprintf("%d:%d:%d", next, 1000+next, c))
				ids = append(ids, next)
				next++
			}
			var spent []string
			if next > 3 && r.Chance(50) {
				spent = append(spent, fmt.Sprint(1+r.Intn(next-1)))
			}
			sp := "-"
			if len(spent) > 0 {
				sp = strings.Join(spent, ",")
			}
			g.Emit("i.connect %d %s %s", height, strings.Join(txs, ","), sp)
			blocks = append(blocks, ids)
			height++
		case w < 55:
			if len(blocks) > 0 {
				last := blocks[len(blocks)-1]
				blocks = blocks[:len(blocks)-1]
				var ss []string
				for _, id := range last {
					ss = append(ss, fmt.Sprint(id))
				}
				g.Emit("i.disconnect %s", strings.Join(ss, ","))
				height--
			}
		case w < 60:
			g.Emit("i.trim")
		default:
			g.Emit("i.fetch %d", 1+r.Intn(next+1))
		}
	}
}

// one history that really trims: more than volume + TrimmingInterval entries
func genIdxTrim(g *hx.Gen, r *hx.Rand) {
	g.Emit("reset")
	vol := 3 + r.Intn(5)
	g.Emit("i.reset %d", vol)
	g.Emit("i.fill 1 %d 1", vol+10000)
	g.Emit("i.trim") // exactly at the trigger: nothing happens
	g.Emit("i.fetch %d", 1+r.Intn(vol+10000))
	g.Emit("i.fill %d 2 2", vol+10001)
	g.Emit("i.trim") // over: down to volume-1
	for k := 0; k < 20; k++ {
		g.Emit("i.fetchv %d", 1+r.Intn(vol+10010))
	}
	g.Emit("i.connect 3 %d:7:1,%d:8:1 -", vol+10100, vol+10101)
	g.Emit("i.fetchv %d", vol+10100)
}

func genBlock(g *hx.Gen, r *hx.Rand) {
	g.Emit("reset")
	g.Emit("b.reset")
	n := 3 + r.Intn(4)
	for id := 1; id <= n; id++ {
		g.Emit("b.store %d %d", id, r.Pick(0, 1))
	}
	steps := 10 + r.Intn(g.N(20, 40))
	for s := 0; s < steps; s++ {
		switch w := r.Intn(100); {
		case w < 75:
			g.Emit("b.get %d", 1+r.Intn(n+1))
		case w < 90:
			n++
			g.Emit("b.store %d %d", n, r.Pick(0, 1))
		default: // storing again under the same hash is ignored (write once)
			g.Emit("b.store %d %d", 1+r.Intn(n), r.Pick(0, 1))
		}
	}
}

func genSend(g *hx.Gen, r *hx.Rand, variants bool) {
	g.Emit("reset")
	g.Emit("s.reset")
	conf := map[int]int{}
	steps := 10 + r.Intn(g.N(30, 60))
	for s := 0; s < steps; s++ {
		id := 1 + r.Intn(5)
		v := r.Pick(0, 1)
		if variants {
			// the same block under two different confirms (known finding C15-send-cache-confirm-variant)
			v = r.Pick(0, 1, 2)
		} else if v == 1 {
			// a node holds one confirm per block
			if c, ok := conf[id]; ok {
				v = c
			} else {
				conf[id] = 1
			}
		}
		g.Emit("s.write %d %d", id, v)
	}
}

func genSendMany(g *hx.Gen) {
	g.Emit("reset")
	g.Emit("s.reset")
	for id := 1; id <= 60; id++ {
		g.Emit("s.write %d %d", id, id%2)
	}
	g.Emit("s.write 1 1") // evicted long ago: must be cached again
	g.Emit("s.write 1 1")
}

func gen(g *hx.Gen) {
	for i := 0; i < g.N(60, 600); i++ {
		genUtxo(g, g.R.Fork(uint64(i)))
	}
	for i := 0; i < g.N(30, 300); i++ {
		genIdx(g, g.R.Fork(uint64(10000+i)))
	}
	for i := 0; i < g.N(1, 3); i++ {
		genIdxTrim(g, g.R.Fork(uint64(20000+i)))
	}
	for i := 0; i < g.N(15, 100); i++ {
		genBlock(g, g.R.Fork(uint64(30000+i)))
	}
	for i := 0; i < g.N(30, 300); i++ {
		genSend(g, g.R.Fork(uint64(40000+i)), false)
	}
	genSend(g, g.R.Fork(50000), true)
	genSendMany(g)
}
