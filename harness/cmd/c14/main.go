// Harness for C14: the node's UTXO queries (GetUnspent, GetUTXO, GetTransaction) after long
// histories of blocks with transfers among five accounts, including reorganisations, against
// the Lean ledger obtained by replaying the active chain (lean/ElaVerif/Model/Node.lean).
// Line protocol: see harness/regnet/sim.go. Only coinbase and transfer transactions are generated.
package main

import (
	"fmt"
	"sort"
	"strconv"
	"strings"

	"elaverif/harness/hx"
	"elaverif/harness/regnet"

	"github.com/elastos/Elastos.ELA/common"
	"github.com/elastos/Elastos.ELA/core/types"
	ctypes "github.com/elastos/Elastos.ELA/core/types/common"
	"github.com/elastos/Elastos.ELA/core/types/interfaces"
)

var sim = &regnet.Sim{Name: "c14", Maturity: 2}
var pending *hx.Violation

// replayCheck judges the implementation alone: replay the chain the node reports as active
// (harness-side replay of the real blocks) and compare every account's UTXO list, the unspent
// list of every transaction on the chain and the transaction heights with what the node answers.
func replayCheck() *hx.Violation {
	n := sim.N
	ch := n.ActiveChain()
	br := &regnet.Branch{}
	onChain := map[string]uint32{}
	for i, h := range ch {
		b := n.Block(h)
		if b == nil {
			return &hx.Violation{Kind: "unknown-active-block", Detail: h.String()}
		}
		if i > 0 {
			br.Blocks = append(br.Blocks, b)
		}
		for _, tx := range b.Transactions {
			onChain[regnet.ID(tx.Hash())] = b.Height
		}
	}
	coins := sim.Coins(br)
	perAddr := map[int][]string{}
	perTx := map[string][]int{}
	for _, c := range coins {
		perTx[c.ID] = append(perTx[c.ID], c.Idx)
		if c.Value != 0 {
			perAddr[c.Addr] = append(perAddr[c.Addr], fmt.Sprintf("%s:%d:%d", c.ID, c.Idx, c.Value))
		}
	}
	for a := 0; a <= regnet.NumUsers; a++ {
		us, err := n.UTXOs(a)
		if err != nil {
			return &hx.Violation{Kind: "utxo-query-error", Detail: err.Error()}
		}
		var got []string
		for _, u := range us {
			if u.Value == 0 {
				return &hx.Violation{Kind: "zero-value-utxo-listed", Detail: fmt.Sprintf("account %d: %s:%d", a, regnet.ID(u.TxID), u.Index)}
			}
			got = append(got, fmt.Sprintf("%s:%d:%d", regnet.ID(u.TxID), u.Index, int64(u.Value)))
		}
		want := perAddr[a]
		sort.Strings(got)
		sort.Strings(want)
		if strings.Join(got, ",") != strings.Join(want, ",") {
			return &hx.Violation{Kind: "utxo-list-differs-from-replay", Detail: fmt.Sprintf("account %d: node %v, replay of the active chain %v", a, got, want)}
		}
	}
	for _, id := range n.TxIDs() {
		tx := n.TxByID(id)
		l, err := n.Store.GetFFLDB().GetUnspent(tx.Hash())
		if err != nil {
			return &hx.Violation{Kind: "unspent-query-error", Detail: err.Error()}
		}
		got := make([]int, len(l))
		for i, x := range l {
			got[i] = int(x)
		}
		sort.Ints(got)
		want := perTx[id]
		sort.Ints(want)
		if fmt.Sprint(got) != fmt.Sprint(want) {
			return &hx.Violation{Kind: "unspent-differs-from-replay", Detail: fmt.Sprintf("tx %s: node %v, replay %v", id, got, want)}
		}
		_, h, err := n.Store.GetFFLDB().GetTransaction(tx.Hash())
		wh, on := onChain[id]
		if on != (err == nil) || (on && h != wh) {
			return &hx.Violation{Kind: "tx-lookup-differs-from-replay", Detail: fmt.Sprintf("tx %s: on active chain %v (height %d), node found %v (height %d)", id, on, wh, err == nil, h)}
		}
	}
	return nil
}

func exec(t []string) string {
	pending = nil
	out := sim.Exec(t)
	if t[0] == "obs" {
		pending = replayCheck()
	}
	return out
}

func oracle(t []string, out string) *hx.Violation { return pending }

var sawReorg bool

func nontrivial(t []string, out string) bool {
	return t[0] == "deliver" && strings.HasPrefix(out, "main")
}

func gen(g *hx.Gen) {
	nh := g.N(6, 24)
	steps := g.N(60, 250)
	for i := 0; i < nh; i++ {
		history(g, steps)
	}
	sim.Close()
}

func history(g *hx.Gen, steps int) {
	r := g.R
	h := &regnet.HistGen{S: sim, R: r, Emit: g.Emit}
	h.Start()
	active := h.Active
	// the blocks of every branch built, to recognise the active one from the node's reply
	byTip := map[string]*regnet.Branch{}
	tipOf := func(id string) *regnet.Branch {
		if br, ok := byTip[id]; ok {
			return br
		}
		return nil
	}
	hexOf := func(b *types.Block) string {
		v, _ := strconv.ParseUint(regnet.ID(b.Hash()), 16, 64)
		return strconv.FormatUint(v, 16)
	}
	deliver := func(br *regnet.Branch, b *types.Block) *regnet.Branch {
		nb := regnet.Extend(br, b)
		byTip[hexOf(b)] = nb
		_, tip := h.Deliver(b)
		if a := tipOf(tip); a != nil {
			active = a
		}
		return nb
	}
	// a restart right after a reorganisation: the indexes' own counters (TxIndex block ids) are re-derived
	// from what the disconnects left in the database, and the next blocks build on that
	restartNext := false
	for s := 0; s < steps; s++ {
		c := r.Intn(100)
		if (c >= 97 || restartNext) && len(active.Blocks) >= 3 { // node restart: chain.Init + index catch-up from the stored chain
			restartNext = false
			g.Emit("restart")
			h.Observe(false, 40)
			// side branches are memory only: the generator forgets them as the node does
			for k := range byTip {
				delete(byTip, k)
			}
			byTip[hexOf(sim.BranchTip(active))] = active
			continue
		}
		if s == 8 && r.Chance(45) { // a transaction with 300 outputs: output indexes that need both bytes of the stored uint16
			var pick *regnet.Coin
			tip := sim.BranchTip(active)
			for _, co := range sim.Coins(active) {
				if co.Addr >= 1 && co.Addr <= regnet.NumUsers && co.Value > 400000 && (!co.CB || tip.Height-co.Height >= sim.N.Params.PowConfiguration.CoinbaseMaturity) {
					cc := co
					pick = &cc
					break
				}
			}
			if pick != nil {
				owner := 1 + r.Intn(4)
				outs := make([]regnet.Out, 0, 301)
				for i := 0; i < 300; i++ {
					outs = append(outs, regnet.Out{To: owner, Value: 1000})
				}
				outs = append(outs, regnet.Out{To: pick.Addr, Value: common.Fixed64(pick.Value - 300*1000 - 500)})
				big, err := sim.N.Transfer(pick.Addr, []ctypes.OutPoint{{TxID: sim.N.TxByID(pick.ID).Hash(), Index: uint16(pick.Idx)}}, outs, uint64(1<<41)+uint64(r.Intn(1<<30)))
				if err != nil {
					panic("harness: " + err.Error())
				}
				deliver(active, h.Block(active, []interfaces.Transaction{big}))
				h.Watch = append(h.Watch, regnet.ID(big.Hash()))
				h.Observe(false, 8)
				continue
			}
		}
		switch {
		case c < 6 && len(active.Blocks) >= 3: // a non-zero and a zero-value output of one address, spent together
			if pair := h.ZeroValuePair(active); pair != nil {
				br := deliver(active, pair[0])
				h.Observe(false, 8)
				deliver(br, pair[1])
			}
		case c < 78 || len(active.Blocks) < 3:
			deliver(active, h.HonestBlock(active, 3))
		case c < 94: // a longer branch from 1–4 blocks back: reorganisation
			depth := 1 + r.Intn(4)
			if depth > len(active.Blocks) {
				depth = len(active.Blocks)
			}
			br := regnet.Fork(active, len(active.Blocks)-depth)
			var blks []*types.Block
			for k := 0; k <= depth; k++ {
				b := h.HonestBlock(br, 3)
				br = regnet.Extend(br, b)
				blks = append(blks, b)
			}
			order := make([]int, len(blks))
			for i := range order {
				order[i] = i
			}
			if r.Chance(30) { // out of order: orphans first
				for i := len(order) - 1; i > 0; i-- {
					j := r.Intn(i + 1)
					order[i], order[j] = order[j], order[i]
				}
			}
			cur := regnet.Fork(active, len(active.Blocks)-depth)
			pre := map[int]*regnet.Branch{}
			for k, b := range blks {
				pre[k] = cur
				cur = regnet.Extend(cur, b)
			}
			for _, k := range order {
				deliver(pre[k], blks[k])
				if r.Chance(40) {
					h.Observe(false, 12)
				}
			}
			restartNext = r.Chance(30)
		default: // a sibling of the tip: stays a side chain
			br := regnet.Fork(active, len(active.Blocks)-1)
			deliver(br, h.HonestBlock(br, 2))
		}
		h.Observe(false, 16)
	}
}

func main() {
	hx.Main(&hx.Prop{Name: "C14", Gen: gen, Exec: exec, Oracle: oracle, Nontrivial: nontrivial, Stateful: true,
		Bucket: func(t []string, out string) string {
			if t[0] == "obs" {
				return "obs"
			}
			return t[0] + "/" + strings.Fields(out)[0]
		}})
}
