// Harness for C20: utils.History (height-indexed change history).
//
// Op language (stateful; one history per `reset`):
//
//	reset <cap>              new utils.NewHistory(cap), map m[0..3] = 0
//	app <h> seta <k> <v>     Append(h, m[k]=v,  m[k]=old)   old read when appending
//	app <h> sete <k> <v>     Append(h, {c=m[k]; m[k]=v}, m[k]=c)   c read when executing
//	app <h> add  <k> <d>     Append(h, m[k]+=d, m[k]-=d)
//	commit <h> | seek <h> | rbseek <h> | rollback <h>
//
// Output of every op: `<ok|err|panic> m0 m1 m2 m3 | height seekHeight cached temp | h:n h:n …`
package main

import (
	"fmt"
	"strconv"
	"strings"

	"elaverif/harness/hx"

	"github.com/elastos/Elastos.ELA/utils"
)

type env struct {
	m [4]int64
	h *utils.History
}

var e = &env{h: utils.NewHistory(0)}

func atoi(s string) int64 {
	v, err := strconv.ParseInt(s, 10, 64)
	if err != nil {
		panic("harness: bad int " + s)
	}
	return v
}

func dump(res string) string {
	v := e.h.VerifView()
	var b strings.Builder
	fmt.Fprintf(&b, "%s %d %d %d %d | %d %d ", res, e.m[0], e.m[1], e.m[2], e.m[3], v.Height, v.SeekHeight)
	if v.HasCached {
		fmt.Fprintf(&b, "%d:%d", v.CachedH, v.CachedN)
	} else {
		b.WriteString("-")
	}
	fmt.Fprintf(&b, " %d |", v.TempN)
	for _, en := range v.Entries {
		fmt.Fprintf(&b, " %d:%d", en[0], en[1])
	}
	return b.String()
}

// guarded runs f on the real History; a panic of the implementation is an output.
func guarded(f func() string) (res string) {
	defer func() {
		if r := recover(); r != nil {
			if s, ok := r.(string); ok && strings.HasPrefix(s, "harness:") {
				panic(r)
			}
			res = "panic"
		}
	}()
	return f()
}

func exec(t []string) string {
	switch t[0] {
	case "reset":
		c := int64(0)
		if len(t) > 1 {
			c = atoi(t[1])
		}
		e = &env{h: utils.NewHistory(int(c))}
		return dump("ok")
	case "app":
		h, k, v := uint32(atoi(t[1])), int(atoi(t[3])), atoi(t[4])
		if k < 0 || k > 3 {
			panic("harness: key out of range")
		}
		env := e
		var ex, rb func()
		switch t[2] {
		case "seta":
			old := env.m[k]
			ex, rb = func() { env.m[k] = v }, func() { env.m[k] = old }
		case "sete":
			var c int64
			ex, rb = func() { c = env.m[k]; env.m[k] = v }, func() { env.m[k] = c }
		case "add":
			ex, rb = func() { env.m[k] += v }, func() { env.m[k] -= v }
		default:
			panic("harness: unknown change kind " + t[2])
		}
		return dump(guarded(func() string { env.h.Append(h, ex, rb); return "ok" }))
	case "commit":
		return dump(guarded(func() string { e.h.Commit(uint32(atoi(t[1]))); return "ok" }))
	case "seek":
		return dump(guarded(func() string {
			if err := e.h.SeekTo(uint32(atoi(t[1]))); err != nil {
				return "err"
			}
			return "ok"
		}))
	case "rbseek":
		return dump(guarded(func() string { e.h.RollbackSeekTo(uint32(atoi(t[1]))); return "ok" }))
	case "rollback":
		return dump(guarded(func() string {
			if err := e.h.RollbackTo(uint32(atoi(t[1]))); err != nil {
				return "err"
			}
			return "ok"
		}))
	}
	panic("harness: unknown op " + t[0])
}

// ------------------------------------------------------------------ oracle
//
// The oracle is a direct reading of the property statement, independent of the
// Lean model: it keeps the list of committed blocks (as data), and the expected
// map after a rollback / seek to height h is the replay of the blocks with
// height <= h on a zero map.  It only judges histories inside the property's
// domain (strictly increasing non-zero heights, every block appended then
// committed, rollbacks and seeks within the retained capacity); anything else
// switches judging off until the next reset.

type chg struct {
	kind string
	k    int
	v    int64
}
type blk struct {
	h  uint32
	cs []chg
}

type spec struct {
	cap      int
	chain    []blk // committed blocks still on the logical chain
	retained int   // how many of the newest chain blocks the history must still hold
	pend     *blk  // block being appended
	temp     []chg // temporary changes appended
	tempDone bool  // the single Commit that executes them has happened
	view     uint32
	seeked   bool
	off      bool // judging switched off
	// shape flags used to classify a mismatch
	rolledBackSinceCommit bool
}

var sp = &spec{off: true}

func replay(bs []blk, upto uint32, extra []chg) [4]int64 {
	var m [4]int64
	ap := func(c chg) {
		switch c.kind {
		case "seta", "sete":
			m[c.k] = c.v
		case "add":
			m[c.k] += c.v
		}
	}
	for _, b := range bs {
		if b.h <= upto {
			for _, c := range b.cs {
				ap(c)
			}
		}
	}
	for _, c := range extra {
		ap(c)
	}
	return m
}

func parseMap(out string) (res string, m [4]int64, ok bool) {
	f := strings.Fields(out)
	if len(f) < 5 {
		return "", m, false
	}
	for i := 0; i < 4; i++ {
		v, err := strconv.ParseInt(f[1+i], 10, 64)
		if err != nil {
			return "", m, false
		}
		m[i] = v
	}
	return f[0], m, true
}

// forwardOrderShape: some block among bs (height > above) has, on one key, a
// change whose rollback individually inverts its execute at the point where it
// executed, but which the forward-order rollback of the height does not invert:
// an `add` or `sete` after an earlier write, where a later undo clobbers it.
func forwardOrderShape(cs []chg) bool {
	for k := 0; k < 4; k++ {
		touched, setSeen := false, false
		for _, c := range cs {
			if c.k != k {
				continue
			}
			if (c.kind == "sete" && touched) || (c.kind == "add" && setSeen) {
				return true
			}
			touched = true
			if c.kind == "seta" || c.kind == "sete" {
				setSeen = true
			}
		}
	}
	return false
}

// depthAbove counts the distinct heights above h
func depthAbove(bs []blk, h uint32) int {
	seen := map[uint32]bool{}
	for _, b := range bs {
		if b.h > h {
			seen[b.h] = true
		}
	}
	return len(seen)
}

func hasDup(bs []blk) bool {
	for i := 1; i < len(bs); i++ {
		if bs[i].h == bs[i-1].h {
			return true
		}
	}
	return false
}

func consecutive(bs []blk) bool {
	for i := 1; i < len(bs); i++ {
		if bs[i].h != bs[i-1].h+1 {
			return false
		}
	}
	return true
}

func (s *spec) tip() uint32 {
	if len(s.chain) == 0 {
		return 0
	}
	return s.chain[len(s.chain)-1].h
}

func (s *spec) mismatch(kindDefault string, above uint32, detail string) *hx.Violation {
	kind := kindDefault
	for _, b := range s.chain {
		if b.h > above && forwardOrderShape(b.cs) {
			kind = "forward-order-rollback"
		}
	}
	if forwardOrderShape(s.temp) {
		kind = "forward-order-rollback"
	}
	return &hx.Violation{Kind: kind, Detail: detail}
}

func oracle(t []string, out string) *hx.Violation {
	if t[0] == "reset" {
		sp = &spec{}
		if len(t) > 1 {
			sp.cap = int(atoi(t[1]))
		}
		if sp.cap < 1 {
			sp.off = true
		}
		return nil
	}
	if sp.off {
		return nil
	}
	res, m, ok := parseMap(out)
	if !ok {
		sp.off = true
		return nil
	}
	s := sp
	h := uint32(atoi(t[1]))
	switch t[0] {
	case "app":
		c := chg{t[2], int(atoi(t[3])), atoi(t[4])}
		if h == 0 {
			// temporary change: judged at the tip, also while a height is pending (Append(h), Append(0),
			// Commit, Append(h) …: the next Append of the pending height has to undo it)
			if s.seeked || s.tempDone {
				s.off = true
				return nil
			}
			s.temp = append(s.temp, c)
			return nil
		}
		if len(s.temp) > 0 {
			if !s.tempDone {
				s.off = true // undone without having been executed: outside the domain
				return nil
			}
			if c.kind == "seta" {
				// the caller read `old` before calling Append, i.e. while the temporary
				// changes were still applied: not an inverse pair (caller's contract)
				s.off = true
				return nil
			}
			// the temporary changes must be gone now
			exp := replay(s.chain, s.tip(), nil)
			tmp := s.temp
			s.temp, s.tempDone = nil, false
			if m != exp {
				s.off = true
				s.temp = tmp
				v := s.mismatch("temp-not-discarded", s.tip(), fmt.Sprintf("after the next block's first Append the temporary changes must be undone: expected %v got %v", exp, m))
				s.temp = nil
				return v
			}
		}
		if s.seeked && c.kind == "seta" {
			// an append-time capture taken while the state is seeked reads the historical
			// value, not the tip value: the closure pair is not an inverse (caller's contract)
			s.off = true
			return nil
		}
		if s.pend == nil {
			if h < s.tip() || (h == s.tip() && s.rolledBackSinceCommit) {
				s.off = true
				return nil
			}
			s.pend = &blk{h: h} // h == tip: the same height is committed once more (one logical height)
		}
		if h != s.pend.h || res != "ok" {
			s.off = true
			return nil
		}
		s.pend.cs = append(s.pend.cs, c)
		return nil
	case "commit":
		if len(s.temp) > 0 {
			if s.tempDone {
				s.off = true
				return nil
			}
			s.tempDone = true
			exp := replay(s.chain, s.tip(), s.temp)
			if m != exp {
				s.off = true
				return &hx.Violation{Kind: "temp-exec", Detail: fmt.Sprintf("expected %v got %v", exp, m)}
			}
			return nil
		}
		b := s.pend
		if b == nil {
			b = &blk{h: h}
			if h < s.tip() || (h == s.tip() && (s.rolledBackSinceCommit || len(s.chain) == 0)) {
				s.off = true
				return nil
			}
		}
		if b.h != h {
			s.off = true
			return nil
		}
		wasSeeked := s.seeked
		sameH := len(s.chain) > 0 && h == s.tip()
		s.pend = nil
		// capacity counts distinct heights: a full history evicts its oldest height first
		if s.retained >= s.cap {
			if sameH && s.retained == 1 {
				s.off = true // capacity 1 evicts the earlier entry of this very height: outside the domain
				return nil
			}
			s.retained--
		}
		if !sameH {
			s.retained++
		}
		s.chain = append(s.chain, *b)
		s.seeked, s.view = false, h
		s.rolledBackSinceCommit = false
		exp := replay(s.chain, h, nil)
		if m != exp {
			s.off = true
			k := "commit-mismatch"
			if wasSeeked {
				k = "seek-then-commit"
			}
			return s.mismatch(k, 0, fmt.Sprintf("state after Commit(%d) must be the replay of all committed heights: expected %v got %v", h, exp, m))
		}
		return nil
	case "rollback":
		if s.pend != nil || (len(s.temp) > 0 && !s.tempDone) {
			s.off = true
			return nil
		}
		if h >= s.tip() {
			if len(s.temp) > 0 {
				s.off = true
			}
			return nil
		}
		depth := depthAbove(s.chain, h)
		if depth > s.retained {
			s.off = true // beyond capacity: not promised
			return nil
		}
		exp := replay(s.chain, h, nil)
		var v *hx.Violation
		if m != exp {
			k := "rollback-mismatch"
			if s.seeked {
				k = "rollback-while-seeked"
			}
			v = s.mismatch(k, h, fmt.Sprintf("RollbackTo(%d) must give the replay of heights <= %d: expected %v got %v", h, h, exp, m))
			s.off = true
		}
		n := 0
		for _, b := range s.chain {
			if b.h <= h {
				n++
			}
		}
		if s.seeked {
			s.off = true // judged once; what follows a rollback issued while seeked is outside the domain
		}
		s.chain = s.chain[:n]
		s.retained -= depth
		s.temp, s.tempDone = nil, false
		s.seeked, s.view = false, h
		s.rolledBackSinceCommit = true
		return v
	case "seek":
		if s.pend != nil || len(s.temp) > 0 {
			s.off = true
			return nil
		}
		if h > s.tip() {
			s.off = true
			return nil
		}
		if hasDup(s.chain) {
			s.off = true // SeekTo counts entries: a height committed twice is outside its domain
			return nil
		}
		depth := depthAbove(s.chain, h)
		if depth > s.retained {
			return nil // beyond capacity: an error is the right answer, nothing promised
		}
		if res == "err" {
			// within the retained entries an error is only legitimate if the seek
			// height is below height - distinct (gaps make the bound stricter)
			if !consecutive(s.chain) || s.rolledBackSinceCommit || int64(h) < int64(s.tip())-int64(s.retained) {
				return nil // below the first recorded height: the same state, but not addressable
			}
			s.off = true
			return &hx.Violation{Kind: "seek-refused", Detail: "SeekTo within capacity returned an error"}
		}
		exp := replay(s.chain, h, nil)
		var v *hx.Violation
		if m != exp || res != "ok" {
			k := "seek-mismatch"
			switch {
			case s.rolledBackSinceCommit:
				k = "seek-after-rollback"
			case s.seeked && s.view != s.tip() && h != s.tip():
				k = "seek-from-seeked"
			case !consecutive(s.chain):
				k = "seek-gap"
			}
			if k == "seek-mismatch" {
				v = s.mismatch(k, h, "")
			} else {
				v = &hx.Violation{Kind: k}
			}
			v.Detail = fmt.Sprintf("SeekTo(%d) must give the replay of heights <= %d: expected %v got %s %v", h, h, exp, res, m)
			s.off = true
		}
		if s.rolledBackSinceCommit || (s.seeked && h != s.tip()) || !consecutive(s.chain) {
			s.off = true // judged once; outside the proved domain from here on
		}
		s.view = h
		s.seeked = h != s.tip()
		return v
	case "rbseek":
		// only the documented use: drop the heights above the height just seeked to
		if s.pend != nil || len(s.temp) > 0 || !s.seeked || s.view != h {
			if h < s.tip() {
				s.off = true
			}
			return nil
		}
		depth := depthAbove(s.chain, h)
		n := 0
		for _, b := range s.chain {
			if b.h <= h {
				n++
			}
		}
		s.chain = s.chain[:n]
		s.retained -= depth
		s.seeked = false
		exp := replay(s.chain, h, nil)
		if m != exp {
			s.off = true
			return &hx.Violation{Kind: "rbseek-mismatch", Detail: fmt.Sprintf("expected %v got %v", exp, m)}
		}
		return nil
	}
	return nil
}

// ------------------------------------------------------------------ generator

type genState struct {
	g         *hx.Gen
	height    uint32
	multi     bool
	afterTemp bool // the next block's first change must not capture at append time
}

func (gs *genState) change(h uint32, kinds []string) {
	r := gs.g.R
	kind := kinds[r.Intn(len(kinds))]
	k := r.Intn(4)
	if r.Chance(50) {
		k = r.Intn(2) // collisions on few keys
	}
	v := int64(r.Intn(199) - 99)
	gs.g.Emit("app %d %s %d %d", h, kind, k, v)
}

// block appends n changes at the next height and commits. `safe` keeps every
// key either all-`add` or `seta`-last so the forward-order rollback inverts it.
func (gs *genState) block(step uint32, safe bool) { gs.blockK(step, safe, false) }

// addOnly: blocks appended while the state is seeked must not capture at append time.
func (gs *genState) blockK(step uint32, safe bool, addOnly bool) {
	r := gs.g.R
	gs.height += step
	n := r.Intn(5)
	if r.Chance(10) {
		n = 5 + r.Intn(6)
	}
	if n >= 2 {
		gs.multi = true
	}
	if safe {
		// per key decide a class: 0 = adds only, 1 = adds then setas
		var setSeen [4]bool
		var cls [4]int
		for i := range cls {
			cls[i] = r.Intn(2)
		}
		for i := 0; i < n; i++ {
			k := r.Intn(4)
			if r.Chance(50) {
				k = r.Intn(2)
			}
			v := int64(r.Intn(199) - 99)
			kind := "add"
			if !addOnly && !(gs.afterTemp && i == 0) && cls[k] == 1 && (setSeen[k] || r.Chance(50)) {
				kind = "seta"
				setSeen[k] = true
			}
			gs.g.Emit("app %d %s %d %d", gs.height, kind, k, v)
		}
	} else {
		for i := 0; i < n; i++ {
			gs.change(gs.height, []string{"seta", "sete", "add"})
		}
	}
	if n > 0 {
		gs.afterTemp = false
	}
	gs.g.Emit("commit %d", gs.height)
}

func gen(g *hx.Gen) {
	r := g.R
	// 1. node-like disciplined histories (the domain of C20_refines): consecutive
	//    heights, safe blocks, rollbacks within capacity, seek-and-return, temps.
	for it := 0; it < g.N(1500, 60000); it++ {
		capv := 1 + r.Intn(6)
		if r.Chance(10) {
			capv = 8 + r.Intn(20)
		}
		g.Emit("reset %d", capv)
		gs := &genState{g: g, height: uint32(r.Intn(50))}
		step := uint32(1)
		gappy := r.Chance(15) // strictly increasing but not consecutive: rollbacks only
		retained := 0
		dupUsed, seekUsed := false, false
		var heightsOn []uint32
		nops := 4 + r.Intn(30)
		for i := 0; i < nops; i++ {
			switch c := r.Intn(10); {
			case c < 5 || len(heightsOn) == 0:
				if gappy {
					step = uint32(1 + r.Intn(4))
				}
				gs.block(step, true)
				heightsOn = append(heightsOn, gs.height)
				if retained < capv {
					retained++
				}
				if capv >= 2 && !seekUsed && r.Chance(20) {
					// the same height committed once more (Arbiters commits its History twice per block);
					// a full history evicts its oldest height first, like any other Commit
					if retained >= capv {
						retained--
					}
					gs.block(0, true)
					dupUsed = true
				}
				if r.Chance(8) {
					// a temporary change while the next height is already pending
					hh := gs.height + 1
					g.Emit("app %d add %d %d", hh, r.Intn(4), int64(r.Intn(199)-99))
					g.Emit("app 0 add %d %d", r.Intn(4), int64(r.Intn(199)-99))
					g.Emit("commit %d", hh)
					g.Emit("app %d add %d %d", hh, r.Intn(4), int64(r.Intn(199)-99))
					g.Emit("commit %d", hh)
					gs.height = hh
					heightsOn = append(heightsOn, hh)
					if retained < capv {
						retained++
					}
				}
			case c < 7: // rollback within capacity
				d := 1 + r.Intn(retained+1)
				if d > retained {
					d = retained
				}
				if d == 0 {
					continue
				}
				var target uint32
				if d == len(heightsOn) {
					target = heightsOn[0] - 1
					if heightsOn[0] == 0 {
						continue
					}
				} else {
					target = heightsOn[len(heightsOn)-d-1]
					if gappy && r.Chance(50) && heightsOn[len(heightsOn)-d] > target+1 {
						target++ // a height inside a gap
					}
				}
				g.Emit("rollback %d", target)
				heightsOn = heightsOn[:len(heightsOn)-d]
				retained -= d
				gs.height = target
			case c < 9 && !gappy && !dupUsed: // seek back, then return (seek to tip / commit / rbseek)
				if retained == 0 {
					continue
				}
				seekUsed = true
				// a rollback leaves seekHeight stale; the node always commits in between
				gs.block(1, true)
				heightsOn = append(heightsOn, gs.height)
				if retained < capv {
					retained++
				}
				d := 1 + r.Intn(retained)
				if d > len(heightsOn) {
					d = len(heightsOn)
				}
				target := gs.height - uint32(d)
				g.Emit("seek %d", target)
				switch r.Intn(3) {
				case 0:
					g.Emit("seek %d", gs.height)
				case 1:
					// next block redoes the seek first
					gs.blockK(1, true, true)
					heightsOn = append(heightsOn, gs.height)
					if retained < capv {
						retained++
					}
				case 2:
					g.Emit("rbseek %d", target)
					heightsOn = heightsOn[:len(heightsOn)-d]
					retained -= d
					gs.height = target
				}
			default: // temporary changes: appended at height 0, executed by one Commit, undone by the next Append
				nt := 1 + r.Intn(3)
				var used [4]bool
				for j := 0; j < nt; j++ {
					k := r.Intn(4)
					if used[k] {
						continue
					}
					used[k] = true
					kind := "seta"
					if r.Bool() {
						kind = "add"
					}
					g.Emit("app 0 %s %d %d", kind, k, int64(r.Intn(199)-99))
				}
				g.Emit("commit %d", gs.height+1)
				if r.Chance(25) {
					g.Emit("rbseek %d", gs.height) // exactly the best height: a no-op, the temporary changes stay pending
				}
				gs.afterTemp = true
				if r.Chance(30) && retained > 0 {
					gs.afterTemp = false
					g.Emit("rollback %d", gs.height-1)
					if len(heightsOn) > 0 && heightsOn[len(heightsOn)-1] > gs.height-1 {
						heightsOn = heightsOn[:len(heightsOn)-1]
						retained--
					}
					gs.height--
				}
			}
		}
	}
	// 2. the known shapes outside the proved domain (each is a corpus witness too)
	for it := 0; it < g.N(40, 60); it++ {
		capv := 2 + r.Intn(6)
		g.Emit("reset %d", capv)
		gs := &genState{g: g, height: uint32(r.Intn(20))}
		nb := 2 + r.Intn(6)
		for i := 0; i < nb; i++ {
			gs.block(1, r.Chance(60))
		}
		switch r.Intn(5) {
		case 0:
			g.Emit("rollback %d", gs.height-1)
		case 1:
			g.Emit("seek %d", gs.height-2)
			g.Emit("seek %d", gs.height-1)
		case 2:
			g.Emit("rollback %d", gs.height-1)
			g.Emit("seek %d", gs.height-2)
		case 3:
			g.Emit("seek %d", gs.height-1)
			g.Emit("rollback %d", gs.height-2)
		case 4:
			gs.block(2, true)
			g.Emit("seek %d", gs.height-2)
		}
	}
	// 3. wild: arbitrary op sequences (panics, repeated heights, stale seeks, capacity 0)
	for it := 0; it < g.N(1500, 60000); it++ {
		g.Emit("reset %d", r.Intn(5))
		h := uint32(r.Intn(4))
		for i, n := 0, 3+r.Intn(40); i < n; i++ {
			pick := func() uint32 {
				switch r.Intn(6) {
				case 0:
					return 0
				case 1:
					return h + 1
				case 2:
					if h > 0 {
						return h - 1
					}
					return h
				case 3:
					return uint32(r.Intn(int(h) + 4))
				case 4:
					if r.Chance(10) {
						return 4294967295 - uint32(r.Intn(3))
					}
					return h
				}
				return h
			}
			switch c := r.Intn(12); {
			case c < 5:
				hh := pick()
				(&genState{g: g}).change(hh, []string{"seta", "sete", "add"})
			case c < 8:
				hh := pick()
				out := g.Emit("commit %d", hh)
				_ = out
				if hh < 1000 {
					h = hh
				}
			case c < 10:
				g.Emit("seek %d", pick())
			case c < 11:
				hh := pick()
				g.Emit("rollback %d", hh)
			default:
				g.Emit("rbseek %d", pick())
			}
			if h < 1000 && r.Chance(30) {
				h++
			}
		}
	}
}

// evidence: a history counts as non-trivial when a height carried >= 2 changes
// and it contains a seek or a rollback (rule in props/C20.json).
var ntMulti, ntMove bool
var pendCount int

func nontrivial(t []string, out string) bool {
	switch t[0] {
	case "reset":
		ntMulti, ntMove, pendCount = false, false, 0
	case "app":
		pendCount++
		if pendCount >= 2 {
			ntMulti = true
		}
	case "commit":
		pendCount = 0
	case "seek", "rollback", "rbseek":
		ntMove = true
	}
	return ntMulti && ntMove
}

func bucket(t []string, out string) string {
	f := strings.Fields(out)
	res := "?"
	if len(f) > 0 {
		res = f[0]
	}
	k := t[0]
	if t[0] == "app" {
		k = "app-" + t[2]
		if t[1] == "0" {
			k += "-temp"
		}
	}
	return k + "/" + res
}

func main() {
	hx.Main(&hx.Prop{Name: "C20", Gen: gen, Exec: exec, Oracle: oracle, Nontrivial: nontrivial, Bucket: bucket, Stateful: true})
}
