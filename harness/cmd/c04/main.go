// Harness for C04: wire encoding round trips, transaction identity ignores signatures.
//
// Ops (see harness/wire): dec <schema> <pv> <hex>, tx <hex>, block <hex>.
// The generator serializes values built from the repository's own types with the
// real Serialize methods (so the op bytes ARE Go's bytes), then adds malformed
// variants.  The Lean driver decodes the same bytes with the schema model and
// re-encodes; the two answers (consumed length, field summary, re-encoding,
// sha256d of the unsigned bytes) must be equal.
package main

import (
	"bytes"
	"fmt"
	"strings"

	"elaverif/harness/hx"
	"elaverif/harness/wire"

	"github.com/elastos/Elastos.ELA/core/contract/program"
	"github.com/elastos/Elastos.ELA/core/types"
)

// emitOwn emits an op whose bytes are the REAL Serialize output of a generated value.  The marker
// `own` (and, for transactions, the field summary of the value that was serialized) lets the oracle
// demand that the real reader accepts exactly these bytes and gives the value back.
func emitOwn(g *hx.Gen, s wire.Sample) {
	if s.Val != nil {
		// value-level tie: the digest of a field-by-field dump of the VALUE that was serialized
		g.Emit("%s %s own v:%s", s.Op, hx.Hex(s.Bytes), wire.ValueDigest(s.Val))
		return
	}
	if s.Want != "" {
		g.Emit("%s %s own %s", s.Op, hx.Hex(s.Bytes), s.Want)
	} else {
		g.Emit("%s %s own", s.Op, hx.Hex(s.Bytes))
	}
}

func gen(g *hx.Gen) {
	r := g.R
	// the var-int writer/reader and the var-bytes / var-string writers on every boundary value
	for _, v := range wire.VarUintBoundaries {
		g.Emit("varuint %d", v)
	}
	for i := 0; i < g.N(300, 3000); i++ {
		g.Emit("varuint %d", r.U64()>>uint(r.Intn(64)))
	}
	for _, n := range append(append([]int{0, 1, 2}, wire.BoundaryLens...), wire.BigBoundaryLens...) {
		g.Emit("vb %d", n)
		g.Emit("vs %d", n)
	}
	// values whose var-int prefixed fields and element counts sit on the var-int boundaries
	for _, s := range wire.GenBoundary(r.Fork(77), !g.Quick()) {
		emitOwn(g, s)
	}
	n := g.N(2500, 40000)
	for i := 0; i < n; i++ {
		s := wire.GenSample(r.Fork(uint64(i)))
		emitOwn(g, s)
		for k := 0; k < 2; k++ {
			g.Emit("%s %s", s.Op, hx.Hex(wire.Mutate(r, s.Bytes)))
		}
	}
	// transactions outside the well-formedness clause (version 0 with a type byte >= 9 …)
	for i := 0; i < g.N(200, 2000); i++ {
		g.Emit("tx %s", hx.Hex(wire.TxBytes(wire.GenTx(r, false))))
	}
}

// ownIndex returns the position of the `own` marker, -1 if absent.
func ownIndex(t []string) int {
	for i := 1; i < len(t); i++ {
		if t[i] == "own" {
			return i
		}
	}
	return -1
}

// ownOracle: bytes written by the real Serialize from a generated value must be accepted completely
// by the real reader, re-serialize to themselves, and (transactions) carry the fields of the value.
func ownOracle(t []string, out string) *hx.Violation {
	oi := ownIndex(t)
	if oi < 0 || out == "uncovered" {
		return nil
	}
	hexTok := t[oi-1]
	f := strings.Fields(out)
	if len(f) < 2 || f[0] != "ok" {
		return &hx.Violation{Kind: "own-bytes-rejected", Detail: "the reader rejects bytes the writer produced from a well-formed value: " + out}
	}
	if f[1] != fmt.Sprint(len(hx.UnHex(hexTok))) {
		return &hx.Violation{Kind: "own-bytes-not-consumed", Detail: "the reader consumed " + f[1] + " of " + fmt.Sprint(len(hx.UnHex(hexTok))) + " bytes the writer produced"}
	}
	switch t[0] {
	case "dec":
		if f[2] != hexTok {
			return &hx.Violation{Kind: "own-bytes-not-roundtrip", Detail: "Serialize(Deserialize(Serialize(v))) differs from Serialize(v)"}
		}
		if oi+1 < len(t) && strings.HasPrefix(t[oi+1], "v:") {
			pv := byte(0)
			for _, c := range t[2] {
				pv = pv*10 + byte(c-'0')
			}
			got, err := wire.DecodeValue(t[1], pv, hx.UnHex(hexTok))
			if err != nil {
				return &hx.Violation{Kind: "own-bytes-rejected", Detail: err.Error()}
			}
			if d := wire.ValueDigest(got); "v:"+d != t[oi+1] {
				return &hx.Violation{Kind: "own-value-changed", Detail: "Deserialize(Serialize(v)) is a different value than v (field dump digest " + d + " vs " + t[oi+1][2:] + ")"}
			}
		}
	case "tx":
		if f[len(f)-2] != hexTok {
			return &hx.Violation{Kind: "own-bytes-not-roundtrip", Detail: "tx.Serialize(decode(tx.Serialize(v))) differs from tx.Serialize(v)"}
		}
		if want := strings.Join(t[oi+1:], " "); want != "" && strings.Join(f[2:10], " ") != want {
			return &hx.Violation{Kind: "own-value-changed", Detail: "decoded fields " + strings.Join(f[2:10], " ") + " differ from the serialized value's " + want}
		}
	}
	return nil
}

// primOracle judges the varuint / vb / vs ops: write n, read it back, one byte must remain.
func primOracle(t []string, out string) *hx.Violation {
	f := strings.Fields(out)
	switch t[0] {
	case "varuint":
		if len(f) != 4 || f[2] != t[1] || f[3] != "1" {
			return &hx.Violation{Kind: "varuint-roundtrip", Detail: "ReadVarUint(WriteVarUint(" + t[1] + ")) gave: " + out}
		}
	case "vb", "vs":
		if len(f) != 5 || f[3] != t[1] || f[4] != "1" {
			return &hx.Violation{Kind: "varbytes-roundtrip", Detail: "reading back " + t[1] + " written bytes gave: " + out}
		}
	}
	return nil
}

// oracle: the implementation judged against the property statement only.
//
//	(1) re-encoding a decoded value gives bytes that decode (completely) to a value with the
//	    same re-encoding and, for transactions / blocks, the same hash;
//	(2) a transaction's hash does not change when its programs change;
//	(3) the re-encoding of a successfully decoded value is as long as what was consumed whenever
//	    it is a prefix-faithful encoding (the consumed bytes re-decode to the same re-encoding).
func oracle(t []string, out string) *hx.Violation {
	if out == "panic" {
		return &hx.Violation{Kind: "decode-panic", Detail: "decoder panicked: " + hx.LastPanic()}
	}
	if t[0] == "varuint" || t[0] == "vb" || t[0] == "vs" {
		return primOracle(t, out)
	}
	if v := ownOracle(t, out); v != nil {
		return v
	}
	if !strings.HasPrefix(out, "ok ") {
		if out == "panic" {
			return &hx.Violation{Kind: "decode-panic", Detail: "decoder panicked: " + hx.LastPanic()}
		}
		return nil
	}
	f := strings.Fields(out)
	switch t[0] {
	case "dec":
		reenc := hx.UnHex(f[2])
		pv := byte(0)
		for _, c := range t[2] {
			pv = pv*10 + byte(c-'0')
		}
		re2, n2, err := wire.DecodeSchema(t[1], pv, reenc)
		if err != nil {
			return &hx.Violation{Kind: "reencode-not-decodable", Detail: "Serialize(Deserialize(x)) is rejected by Deserialize: " + err.Error()}
		}
		if n2 != len(reenc) || !bytes.Equal(re2, reenc) {
			return &hx.Violation{Kind: "reencode-unstable", Detail: "decoding the re-encoding gives a different value (or leaves bytes over)"}
		}
	case "tx":
		reenc := hx.UnHex(f[len(f)-2])
		r := bytes.NewReader(reenc)
		_ = t
		tx2, _, err := wire.DecodeTx(r)
		if err != nil || tx2 == nil {
			return &hx.Violation{Kind: "reencode-not-decodable", Detail: "tx.Serialize of a decoded tx is rejected by Deserialize"}
		}
		if r.Len() != 0 || !bytes.Equal(wire.TxBytes(tx2), reenc) {
			return &hx.Violation{Kind: "reencode-unstable", Detail: "decoding the re-encoded tx gives a different tx"}
		}
		h2 := tx2.Hash()
		if hx.Hex(h2[:]) != f[len(f)-1] {
			return &hx.Violation{Kind: "hash-unstable", Detail: "hash changes across re-encoding"}
		}
		// (2) fresh object (Hash() caches), other programs
		r3 := bytes.NewReader(reenc)
		tx3, _, _ := wire.DecodeTx(r3)
		tx3.SetPrograms([]*program.Program{{Code: []byte{1, 2, 3}, Parameter: []byte{4, 5}}})
		h3 := tx3.Hash()
		if h3 != h2 {
			return &hx.Violation{Kind: "hash-depends-on-programs", Detail: "Hash() changed after SetPrograms"}
		}
	case "block":
		b := hx.UnHex(t[1])
		blk := new(types.Block)
		if err := blk.Deserialize(bytes.NewReader(b)); err != nil {
			return nil
		}
		reenc := wire.Ser(blk)
		blk2 := new(types.Block)
		if err := blk2.Deserialize(bytes.NewReader(reenc)); err != nil {
			return &hx.Violation{Kind: "reencode-not-decodable", Detail: "Block.Serialize of a decoded block is rejected by Deserialize"}
		}
		if !bytes.Equal(wire.Ser(blk2), reenc) || blk2.Hash() != blk.Hash() {
			return &hx.Violation{Kind: "reencode-unstable", Detail: "decoding the re-encoded block gives a different block"}
		}
	}
	return nil
}

func nontrivial(t []string, out string) bool { return strings.HasPrefix(out, "ok ") }

func bucket(t []string, out string) string {
	k := t[0]
	if t[0] == "dec" {
		k += " " + t[1]
	}
	f := strings.Fields(out)
	if len(f) > 0 {
		k += "/" + f[0]
	}
	return k
}

func main() {
	hx.Main(&hx.Prop{Name: "C04", Gen: gen, Exec: wire.Exec, Oracle: oracle, Nontrivial: nontrivial, Bucket: bucket})
}
