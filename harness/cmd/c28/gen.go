package main

import (
	"fmt"
	"sort"
	"strconv"
	"strings"

	"elaverif/harness/hx"

	"github.com/elastos/Elastos.ELA/common"
	"github.com/elastos/Elastos.ELA/dpos/state"
)

const (
	ela         = int64(100000000)
	minDeposit  = 5000 * ela
	minDeposit2 = 2000 * ela
	illegalPen  = 200 * ela
	lockup      = 3
	minFee      = 100
	retvFee     = 10000
	minLock     = 5
	maxLock     = 1000
	crVoting    = 12 // CR VotingPeriod: the voting period ends (election, candidates' locks released) at height 12, 24, ..
	crMembers   = 2
)

// ---------------------------------------------------------------- oracle
//
// Judges the implementation's answers directly against the property statement,
// from the op lines and the account dumps only (no Lean model involved):
//   * the coins a producer takes out of its deposit address in one block never
//     exceed what was available (total - lock - penalty) for that block;
//   * a stake address never has more DPoS v2 votes in use than vote rights,
//     and neither is negative; totals and locks are never negative.

type oAcct struct{ total, deposit, penalty, st int64 }
type oStake struct{ rights, used, locked int64 }

var (
	oAccts   map[int]oAcct
	oStakes  map[int]oStake
	oRets    map[int]int
	oWd      map[int]int64
	oSpends  map[int]int
	oPenBlk  map[int]int64
	oRecancel map[int]bool
	oCRs     map[int]oAcct
	oCRRets  map[int]int
	oRenewKey map[string]int // accepted renewals per refer key in the open block
	oRenewMax map[int]int    // per stake address: most renewals of one vote in the open block
	oTainted  map[int]bool   // stake addresses on which one vote was renewed twice in one block
)

func oracle(t []string, out string) *hx.Violation {
	switch t[0] {
	case "reset":
		oAccts, oStakes, oRecancel, oCRs = map[int]oAcct{}, map[int]oStake{}, map[int]bool{}, map[int]oAcct{}
		oTainted = map[int]bool{}
		fallthrough
	case "begin":
		oRets, oWd, oSpends, oPenBlk, oCRRets = map[int]int{}, map[int]int64{}, map[int]int{}, map[int]int64{}, map[int]int{}
		oRenewKey, oRenewMax = map[string]int{}, map[int]int{}
	case "ret":
		if out == "accept" {
			o := int(i64(t[1]))
			oRets[o]++
			oWd[o] += i64(t[2]) - i64(t[4])
		}
	case "pool":
		if out != "conflict" {
			return &hx.Violation{Kind: "pool-guard-open", Detail: fmt.Sprintf(
				"pair=%s/%s: the transaction pool accepts two right-consuming transactions of one stake address at the same time (the guard of C28_inv_partial is not enforced for pooled transactions)", t[2], t[3])}
		}
	case "crret":
		if out == "accept" {
			oCRRets[int(i64(t[1]))]++
		}
	case "cancel":
		if out == "accept" {
			o := int(i64(t[1]))
			if oAccts[o].st == 5 {
				oRecancel[o] = true
			}
		}
	case "vote", "retv", "renew":
		if out == "accept" {
			k := int(i64(t[1]))
			oSpends[k]++
			if t[0] == "renew" {
				oRenewKey[t[2]]++
				if oRenewKey[t[2]] > oRenewMax[k] {
					oRenewMax[k] = oRenewKey[t[2]]
				}
				if oRenewKey[t[2]] >= 2 {
					oTainted[k] = true
				}
			}
		}
	case "end":
		f := strings.Fields(out)
		mode := ""
		var viol *hx.Violation
		for _, x := range f {
			if x == "A" || x == "S" || x == "R" {
				mode = x
				continue
			}
			if mode == "" {
				continue
			}
			p := strings.Split(x, ":")
			id, _ := strconv.Atoi(p[0])
			if mode == "A" {
				a := oAcct{i64(p[1]), i64(p[2]), i64(p[3]), i64(p[4])}
				pre, had := oAccts[id]
				oAccts[id] = a
				availPost := a.total - a.deposit - a.penalty
				dpen := int64(0)
				availPre := int64(0)
				if had {
					dpen = a.penalty - pre.penalty
					availPre = pre.total - pre.deposit - pre.penalty
				}
				if viol == nil && oRets[id] >= 1 && availPost+dpen < 0 {
					viol = &hx.Violation{Kind: "deposit-overdraft", Detail: fmt.Sprintf(
						"owner=%d returns_in_block=%d withdrawn=%d available_before=%d available_after=%d: deposit withdrawals of one block exceed the available amount",
						id, oRets[id], oWd[id], availPre, availPost)}
				}
				if viol == nil && a.deposit < 0 && (!had || pre.deposit >= 0) {
					viol = &hx.Violation{Kind: "negative-lock", Detail: fmt.Sprintf(
						"owner=%d lock=%d cancelled_again_after_returned=%v: the deposit lock was released more often than it was taken", id, a.deposit, oRecancel[id])}
				}
				if viol == nil && a.total < 0 {
					viol = &hx.Violation{Kind: "negative-total", Detail: fmt.Sprintf("owner=%d total=%d", id, a.total)}
				}
			} else if mode == "R" {
				a := oAcct{i64(p[1]), i64(p[2]), i64(p[3]), i64(p[4])}
				pre, had := oCRs[id]
				oCRs[id] = a
				availPost := a.total - a.deposit - a.penalty
				dpen, availPre := int64(0), int64(0)
				if had {
					dpen = a.penalty - pre.penalty
					availPre = pre.total - pre.deposit - pre.penalty
				}
				if viol == nil && len(p) > 5 && a.total != i64(p[5]) {
					viol = &hx.Violation{Kind: "cr-ledger-mismatch", Detail: fmt.Sprintf(
						"candidate=%d recorded_total=%d tracked_unspent_deposit_outputs=%d: DepositInfo.TotalAmount differs from the deposit outputs that are still unspent (every spent output must be debited exactly once)",
						id, a.total, i64(p[5]))}
				}
				if viol == nil && oCRRets[id] >= 1 && availPost+dpen < 0 {
					viol = &hx.Violation{Kind: "cr-deposit-overdraft", Detail: fmt.Sprintf(
						"candidate=%d returns_in_block=%d available_before=%d available_after=%d: CR deposit withdrawals of one block exceed the available amount",
						id, oCRRets[id], availPre, availPost)}
				}
				if viol == nil && (a.total < 0 || a.deposit < 0) && (!had || (pre.total >= 0 && pre.deposit >= 0)) {
					viol = &hx.Violation{Kind: "cr-negative-balance", Detail: fmt.Sprintf("candidate=%d total=%d lock=%d", id, a.total, a.deposit)}
				}
			} else {
				s := oStake{i64(p[1]), i64(p[2]), clampI64(p[3])}
				pre := oStakes[id]
				oStakes[id] = s
				bad := s.used > s.rights || s.used < 0 || s.rights < 0
				worse := s.used-s.rights > pre.used-pre.rights || (s.used < 0 && s.used < pre.used) || (s.rights < 0 && s.rights < pre.rights)
				if viol == nil && s.locked > s.used && s.locked-s.used > pre.locked-pre.used {
					viol = &hx.Violation{Kind: "votes-not-accounted", Detail: fmt.Sprintf(
						"stake=%d same_vote_renewals_in_block=%d rights=%d used=%d votes_on_producers=%d: DPoS v2 votes are in use on producers that UsedDposV2Votes does not count (they can be returned while still voting)",
						id, oRenewMax[id], s.rights, s.used, s.locked)}
				}
				if viol == nil && bad && worse {
					viol = &hx.Violation{Kind: "votes-overdraft", Detail: fmt.Sprintf(
						"stake=%d consumers_in_block=%d after_double_renewal=%v rights=%d used=%d (before: rights=%d used=%d): more DPoS v2 votes in use than vote rights",
						id, oSpends[id], oTainted[id], s.rights, s.used, pre.rights, pre.used)}
				}
			}
		}
		return viol
	}
	return nil
}

func clampI64(x string) int64 {
	v, err := strconv.ParseInt(x, 10, 64)
	if err != nil {
		return 1<<63 - 1
	}
	return v
}

func nontrivial(t []string, out string) bool {
	return out == "accept" || (t[0] == "end" && strings.Contains(out, ":"))
}

func bucket(t []string, out string) string {
	f := strings.Fields(out)
	if t[0] == "end" {
		return "end"
	}
	if len(f) == 0 {
		return t[0]
	}
	if f[0] == "reject" && len(f) > 1 {
		return t[0] + "/reject-" + f[1]
	}
	return t[0] + "/" + f[0]
}

// ---------------------------------------------------------------- generator

type genState struct {
	g      *hx.Gen
	r      *hx.Rand
	h      int
	owners []int // registered owner ids
	v2     int
	stakes []int
	nextO  int
	touched map[int]bool // owners with a state-changing tx (cancel / pen) queued in the open block
	crs    []int
	crVoted map[int]bool
	crRegd  map[int]bool
	boundary bool
	stale  []string // renewals of votes that have been renewed already (stale refer keys)
	nextC  int
}

func (s *genState) avail(o int) int64 {
	p := w.st.GetProducer(w.owner(o).pk)
	if p == nil {
		return 0
	}
	return int64(p.AvailableAmount())
}

func (s *genState) freeUtxos(o int) []int {
	var ids []int
	for id, u := range w.utxos {
		if u.owner == o && !u.spent && !w.blockIn[id] && u.born < w.height {
			ids = append(ids, id)
		}
	}
	return ids
}

func amountAround(r *hx.Rand, x int64) int64 {
	switch r.Intn(6) {
	case 0:
		return x
	case 1:
		return x + 1
	case 2:
		if x > 1 {
			return x - 1
		}
		return x
	case 3:
		return x + int64(r.Intn(1000))*ela/10
	default:
		if x <= 1 {
			return 1
		}
		return 1 + int64(r.U64()%uint64(x))
	}
}

// one ReturnDepositCoin for owner o; want = intended net withdrawal
func (s *genState) emitRet(o int, want int64) string {
	ids := s.freeUtxos(o)
	if len(ids) == 0 {
		return ""
	}
	// take utxos until they cover `want` (or a random prefix)
	var chosen []string
	var inp, tinp int64
	for _, id := range ids {
		chosen = append(chosen, strconv.Itoa(id))
		u := w.utxos[id]
		inp += int64(u.value)
		in := commonInputKey(u)
		tinp += int64(w.st.DepositOutputs[in])
		if inp >= want && s.r.Chance(70) {
			break
		}
	}
	if want > inp {
		want = inp
	}
	if want < minFee {
		want = minFee
	}
	if want > inp {
		return ""
	}
	fee := int64(minFee)
	if s.r.Chance(20) {
		fee = 0
	}
	out := want - fee
	change := inp - want
	if len(s.owners) > 1 && s.r.Chance(25) { // part (or all) of the withdrawn amount goes to another producer's deposit address
		o2 := s.owners[s.r.Intn(len(s.owners))]
		if o2 != o && out > 0 {
			other := out
			if s.r.Chance(60) {
				other = 1 + int64(s.r.U64()%uint64(out))
			}
			return s.g.Emit("ret %d %d %d %d %d %s %d %d", o, inp, tinp, change, out-other, strings.Join(chosen, ","), o2, other)
		}
	}
	return s.g.Emit("ret %d %d %d %d %d %s", o, inp, tinp, change, out, strings.Join(chosen, ","))
}

func commonInputKey(u *utxo) string { return u.op.ReferKey() }

func (s *genState) block(body func()) {
	s.h++
	s.g.Emit("begin %d", s.h)
	s.touched = map[int]bool{}
	s.crRegd = map[int]bool{}
	s.renewExpiring()
	s.crSchedule()
	body()
	if s.r.Chance(15) { // the pool side of the guard: pairs of right-consuming txs of one stake address must collide
		kinds := []string{"vote", "stake", "retv0", "retv1"}
		s.g.Emit("pool %d %s %s", s.r.Intn(4), kinds[s.r.Intn(4)], kinds[s.r.Intn(4)])
	}
	if s.r.Chance(12) {
		s.g.Emit("redo")
	}
	s.g.Emit("end")
}

func (s *genState) regOwner(v2 bool) {
	o := s.nextO
	s.nextO++
	lock := minDeposit
	flag := 0
	if v2 {
		lock = minDeposit2
		flag = 1
	}
	amount := lock + int64(s.r.Pick(0, 0, 1, 500, 1000, 3000))*ela
	s.g.Emit("reg %d %d %d %d", o, amount, lock, flag)
	s.owners = append(s.owners, o)
	if v2 {
		s.v2++
	}
}

func (s *genState) crAvail(c int) int64 {
	return int64(w.cm.GetAvailableDepositAmount(crCID(w.cr(c))))
}

func (s *genState) regCR() {
	c := s.nextC
	s.nextC++
	s.g.Emit("crreg %d %d", c, minDeposit+int64(s.r.Pick(0, 0, 1, 500, 2000))*ela)
	s.crRegd[c] = true
	s.crs = append(s.crs, c)
}

// one ReturnCRDepositCoin for candidate c; want = intended net withdrawal
func (s *genState) emitCRRet(c int, want int64) {
	ids := s.freeUtxos(1000 + c)
	if len(ids) == 0 {
		return
	}
	var chosen []string
	var inp, tinp int64
	for _, id := range ids {
		chosen = append(chosen, strconv.Itoa(id))
		u := w.utxos[id]
		inp += int64(u.value)
		tinp += int64(w.cm.GetState().DepositOutputs[u.op.ReferKey()])
		if inp >= want && s.r.Chance(70) {
			break
		}
	}
	if want > inp {
		want = inp
	}
	if want < minFee {
		want = minFee
	}
	if want > inp {
		return
	}
	fee := int64(minFee)
	if s.r.Chance(20) {
		fee = 0
	}
	s.g.Emit("crret %d %d %d %d %d %s", c, inp, tinp, inp-want, want-fee, strings.Join(chosen, ","))
}

// the CR voting period ends at heights that are multiples of crVoting; aim at its boundaries: every candidate
// gets its vote once it is active, and (half of the histories) one candidate unregisters exactly
// DepositLockupBlocks before the end, so that lock release and election meet in one block
func (s *genState) crSchedule() {
	if s.h%crVoting == 7 {
		for _, c := range s.crs {
			if cand := w.cm.GetCandidate(crCID(w.cr(c))); cand != nil && !s.crVoted[c] {
				s.g.Emit("crvote %d %d", c, int64(c+1)*ela)
				s.crVoted[c] = true
			}
		}
	}
	if s.h%crVoting == crVoting-lockup && len(s.crs) > 0 && s.boundary {
		s.g.Emit("crcancel %d", s.crs[s.r.Intn(len(s.crs))])
	}
}

func (s *genState) randomCRTx() {
	r := s.r
	if len(s.crs) == 0 || (len(s.crs) < 4 && r.Chance(10)) {
		s.regCR()
		return
	}
	c := s.crs[r.Intn(len(s.crs))]
	cand := w.cm.GetCandidate(crCID(w.cr(c)))
	if cand == nil && r.Chance(30) && !s.crRegd[c] { // the record left the candidate map at the end of the voting period: register again
		s.g.Emit("crreg %d %d", c, minDeposit+int64(r.Pick(0, 1, 500))*ela)
		s.crRegd[c] = true // CheckDuplicateTx allows one RegisterCR per CID per block
		s.crVoted[c] = false
		return
	}
	if cand != nil && !s.crVoted[c] && r.Chance(60) { // one vote per registration, distinct amounts (no ties in the election)
		s.g.Emit("crvote %d %d", c, int64(c+1)*ela)
		s.crVoted[c] = true
		return
	}
	switch r.Intn(6) {
	case 0:
		s.g.Emit("crdep %d %d", c, int64(r.Pick(1, 10, 100, 1000, 2500))*ela+int64(r.Intn(3)))
	case 1:
		s.g.Emit("crcancel %d", c)
	default:
		av := s.crAvail(c)
		if av <= 0 && r.Chance(70) {
			return
		}
		s.emitCRRet(c, amountAround(r, av))
		if r.Chance(8) { // a second return of the same candidate in the same block
			s.emitCRRet(c, amountAround(r, av))
		}
	}
}

func (s *genState) randomTx() {
	r := s.r
	if r.Chance(25) {
		s.randomCRTx()
		return
	}
	switch r.Intn(14) {
	case 0:
		if len(s.owners) < 7 {
			s.regOwner(r.Chance(20))
		}
	case 1, 2:
		if len(s.owners) > 0 {
			o := s.owners[r.Intn(len(s.owners))]
			s.g.Emit("dep %d %d", o, int64(r.Pick(1, 10, 100, 1000, 2500))*ela+int64(r.Intn(3)))
		}
	case 3:
		if len(s.owners) > 0 {
			o := s.owners[r.Intn(len(s.owners))]
			if s.g.Emit("cancel %d", o) == "accept" {
				s.touched[o] = true
			}
		}
	case 4, 5, 6:
		if len(s.owners) > 0 {
			o := s.owners[r.Intn(len(s.owners))]
			av := s.avail(o)
			if av <= 0 && r.Chance(70) {
				return
			}
			s.emitRet(o, amountAround(r, av))
		}
	case 7:
		if len(s.owners) > 0 && r.Chance(40) {
			o := s.owners[r.Intn(len(s.owners))]
			eff := 0
			if pr := w.st.GetProducer(w.owner(o).pk); pr != nil && pr.State() == state.Active {
				eff = 1
			}
			s.g.Emit("pen %d %d %d", o, eff, illegalPen)
			s.touched[o] = true
		}
	case 8, 9:
		k := r.Intn(4)
		sv := int64(r.Pick(1, 5, 50, 500))*ela + int64(r.Intn(2))
		if r.Chance(6) {
			sv = int64(r.Pick(0, -1, -100000000))
		}
		s.g.Emit("stake %d %d", k, sv)
		seen := false
		for _, x := range s.stakes {
			if x == k {
				seen = true
			}
		}
		if !seen {
			s.stakes = append(s.stakes, k)
		}
	case 10, 11:
		k := r.Intn(5)
		free := s.freeRights(k)
		n := 1 + r.Intn(2)
		if n > len(w.v2s) {
			n = len(w.v2s)
		}
		if n == 0 {
			return
		}
		tot := amountAround(r, free)
		if tot < int64(n) {
			tot = int64(n)
		}
		var vs []string
		rest := tot
		for i := 0; i < n; i++ {
			v := rest
			if i < n-1 {
				v = 1 + int64(r.U64()%uint64(rest-int64(n-1-i)))
			}
			rest -= v
			vs = append(vs, strconv.FormatInt(v, 10))
		}
		if r.Chance(5) {
			vs[0] = "0"
		}
		if r.Chance(4) { // amounts whose Fixed64 sum does not fit (wraps to a small value)
			for i := range vs {
				vs[i] = "4611686018427387904"
			}
			if n == 1 {
				vs[0] = "9223372036854775807"
			}
		}
		lock := s.h + minLock + r.Intn(6)
		if r.Chance(8) {
			lock = s.h + r.Intn(minLock)
		}
		if r.Chance(4) {
			lock = s.h + maxLock + 1
		}
		bad := "n"
		act := map[string]bool{}
		for _, p := range w.st.GetActivityV2Producers() {
			act[string(p.Info().OwnerKey)] = true
		}
		for i := 0; i < n; i++ {
			if !act[string(w.owner(w.v2s[i]).pk)] {
				bad = strconv.Itoa(i)
				break
			}
		}
		if r.Chance(25) { // several contents in one payload: duplicates of the DposV2 type must be refused
			s.g.Emit("vote %d %d %s %s %s", k, lock, strings.Join(vs, ","), bad, []string{"DP", "PD", "DD", "DPD", "PDD", "DPPD"}[r.Intn(6)])
		} else {
			s.g.Emit("vote %d %d %s %s", k, lock, strings.Join(vs, ","), bad)
		}
	case 12:
		k := r.Intn(5)
		if vs := s.liveVotes(k); len(vs) > 0 && r.Chance(70) {
			s.emitRenew(k, vs[r.Intn(len(vs))])
			return
		}
		if len(s.stale) > 0 && r.Chance(20) { // stale key, only if no live vote could be confused with it
			line := s.stale[r.Intn(len(s.stale))]
			f := strings.Fields(line)
			kk, _ := strconv.Atoi(f[1])
			twin := false
			for _, v := range s.liveVotes(kk) {
				if strconv.Itoa(v.lock) == f[3] && strconv.FormatInt(v.amount, 10) == f[4] {
					twin = true
				}
				if v.key == f[2] {
					twin = true
				}
			}
			if !twin {
				s.g.Emit("%s", line)
			}
			return
		}
		fallthrough
	case 13:
		k := r.Intn(5)
		free := s.freeRights(k)
		v := amountAround(r, free)
		if r.Chance(10) {
			v = int64(r.Pick(0, 1, retvFee, retvFee+1))
		}
		switch r.Intn(4) {
		case 0: // payload V0: authorised by k, transaction program (fee payer) of another key
			s.g.Emit("retv %d %d 0 %d", k, v, (k+1+r.Intn(4))%5)
		case 1: // Schnorr version with a foreign payload.Code (ignored by the node)
			s.g.Emit("retv %d %d 1 %d", k, v, (k+1+r.Intn(4))%5)
		default:
			s.g.Emit("retv %d %d", k, v)
		}
	}
}

type liveVote struct {
	key                string
	lock, born         int
	amount             int64
}

func (s *genState) liveVotes(k int) []liveVote {
	var out []liveVote
	sa := stakeAddr(w.stake(k))
	for _, p := range w.st.GetDposV2Producers() {
		for rk, dvi := range p.GetAllDetailedDPoSV2Votes()[sa] {
			out = append(out, liveVote{rk.String(), int(dvi.Info[0].LockTime), int(dvi.BlockHeight), int64(dvi.Info[0].Votes)})
		}
	}
	sort.Slice(out, func(i, j int) bool { return out[i].key < out[j].key })
	return out
}

func (s *genState) emitRenew(k int, v liveVote) {
	newLock := v.lock + 1 + s.r.Intn(8)
	switch s.r.Intn(12) {
	case 0:
		newLock = v.lock
	case 1:
		newLock = v.born + maxLock + 1
	}
	s.g.Emit("renew %d %s %d %d %d %d", k, v.key, v.lock, v.amount, v.born, newLock)
	s.stale = append(s.stale, fmt.Sprintf("renew %d %s %d %d %d %d", k, v.key, v.lock, v.amount, v.born, newLock+3))
}

// renewals placed in the very block in which the old vote expires (height = lock + 1)
func (s *genState) renewExpiring() {
	for k := 0; k < 5; k++ {
		for _, v := range s.liveVotes(k) {
			if v.lock+1 == s.h && s.r.Chance(60) {
				s.emitRenew(k, v)
				if s.r.Chance(6) { // the same vote renewed twice in one block
					s.emitRenew(k, v)
				}
			}
		}
	}
}

func (s *genState) activeV2() int {
	return len(w.st.GetActivityV2Producers())
}

func (s *genState) freeRights(k int) int64 {
	a := stakeAddr(w.stake(k))
	return int64(w.st.DposV2VoteRights[a] - w.st.UsedDposV2Votes[a])
}

var _ = common.Fixed64(0)

func history(g *hx.Gen, r *hx.Rand, blocks int) {
	s := &genState{g: g, r: r, touched: map[int]bool{}, crVoted: map[int]bool{}, crRegd: map[int]bool{}, boundary: r.Chance(50)}
	g.Emit("reset %d %d %d %d %d %d %d %d %d", lockup, minDeposit, minFee, retvFee, minLock, maxLock, illegalPen, crVoting, crMembers)
	s.block(func() {
		s.regOwner(true)
		s.regOwner(true)
		n := 2 + r.Intn(3)
		for i := 0; i < n; i++ {
			s.regOwner(false)
		}
		s.g.Emit("stake 0 %d", 1000*ela)
		s.stakes = append(s.stakes, 0)
		s.regCR()
		s.regCR()
		s.regCR()
	})
	for i := 0; i < 6; i++ {
		s.block(func() {
			if r.Chance(50) {
				s.randomTx()
			}
		})
	}
	for b := 0; b < blocks; b++ {
		s.block(func() {
			n := r.Pick(0, 1, 1, 2, 3, 5)
			for i := 0; i < n; i++ {
				s.randomTx()
			}
		})
	}
}

func gen(g *hx.Gen) {
	n := g.N(60, 600)
	for i := 0; i < n; i++ {
		history(g, g.R.Fork(uint64(i)), 12+g.R.Intn(20))
	}
}
