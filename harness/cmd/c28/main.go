// Harness for C28: deposits and vote rights are never overdrawn.
//
// The REAL dpos/state.State (producer deposit bookkeeping, stake / vote-right
// bookkeeping) and the REAL SpecialContextCheck methods of ReturnDepositCoin,
// CancelProducer, Voting and ReturnVotes are driven block by block the way the
// node does it: every transaction of a block is context-checked against the
// state *before* the block, then State.ProcessBlock applies all of them.
//
// Line protocol (stateful; one history = ops between two `reset` lines):
//
//	reset <lockup> <minDeposit> <minFee> <retVotesFee> <minLock> <maxLock> <illegalPenalty> [<crVotingPeriod> <crMemberCount>]
//	begin <height>
//	reg <o> <amount> <lock> <v2>          environment: RegisterProducer processed (its own check is not run)
//	dep <o> <v>                           environment: TransferAsset paying the deposit address of o
//	cancel <o>                            CancelProducer, real context check
//	ret <o> <inp> <tinp> <change> <out> <utxo,utxo,..> [<o2> <other>]   ReturnDepositCoin, real context check; outputs:
//	                                      change to o's own deposit address, out to an ordinary address, other to producer o2's deposit address
//	pen <o> <eff> <p>                     IllegalProposalEvidence naming o's node key; eff = producer is Active (oracle value), p = configured penalty
//	stake <k> <v>                         ExchangeVotes: real CheckTransactionOutput + SpecialContextCheck, then processed
//	vote <k> <lock> <v,v,..> <bad> [shape] shape = contents of the payload (D DposV2 content, P empty CRCProposal content);
//	                                      the payload's Validate runs first; bad = index of the first candidate that is not an active v2 producer, or n (oracle value);
//	                                      Voting (DPoS v2 content), real context check; candidates = v2 producers 0..n-1
//	retv <k> <v> [<ver> <other>]          ReturnVotes, real context check (V0: authorised by k, program of another key)
//	renew <k> <referKey> <oldLock> <amount> <born> <newLock>   Voting (renewal content) of one detailed vote, real check
//	crreg <c> <amount> / crdep <c> <v>    environment: RegisterCR / payment to the candidate's deposit address
//	crvote <c> <v>                        environment: CRC vote output for candidate c
//	crcancel <c>                          UnregisterCR, real context check
//	crret <c> <inp> <tinp> <change> <out> <utxos>   ReturnCRDepositCoin, real context check
//	pool <k> <a> <b>                      does the pool's conflict manager refuse tx b of stake key k while tx a is pooled (hook)
//	end                                   State.ProcessBlock + Committee.ProcessBlock; prints every account, stake, CR deposit
package main

import (
	"bytes"
	"crypto/elliptic"
	"encoding/hex"
	"fmt"
	"math/big"
	"os"
	"runtime/debug"
	"sort"
	"strconv"
	"strings"

	"elaverif/harness/hx"

	"github.com/elastos/Elastos.ELA/blockchain"
	"github.com/elastos/Elastos.ELA/common"
	"github.com/elastos/Elastos.ELA/common/config"
	"github.com/elastos/Elastos.ELA/core"
	"github.com/elastos/Elastos.ELA/core/checkpoint"
	"github.com/elastos/Elastos.ELA/core/contract"
	"github.com/elastos/Elastos.ELA/core/contract/program"
	"github.com/elastos/Elastos.ELA/core/transaction"
	"github.com/elastos/Elastos.ELA/core/types"
	ctypes "github.com/elastos/Elastos.ELA/core/types/common"
	"github.com/elastos/Elastos.ELA/core/types/functions"
	"github.com/elastos/Elastos.ELA/core/types/interfaces"
	"github.com/elastos/Elastos.ELA/core/types/outputpayload"
	"github.com/elastos/Elastos.ELA/core/types/payload"
	crstate "github.com/elastos/Elastos.ELA/cr/state"
	"github.com/elastos/Elastos.ELA/crypto"
	"github.com/elastos/Elastos.ELA/dpos/state"
	"github.com/elastos/Elastos.ELA/mempool"
)

// ---------------------------------------------------------------- deterministic keys

type key struct {
	priv []byte
	pub  *crypto.PublicKey
	pk   []byte // compressed
	code []byte // standard redeem script
}

func mkKey(tag, i int) *key {
	d := new(big.Int).SetInt64(int64(1000003*tag + 7919*i + 12345))
	x, y := elliptic.P256().ScalarBaseMult(d.Bytes())
	pub := &crypto.PublicKey{X: x, Y: y}
	pk, err := pub.EncodePoint(true)
	if err != nil {
		panic("harness: key " + err.Error())
	}
	code, err := contract.CreateStandardRedeemScript(pub)
	if err != nil {
		panic("harness: code " + err.Error())
	}
	priv := make([]byte, 32)
	b := d.Bytes()
	copy(priv[32-len(b):], b)
	return &key{priv: priv, pub: pub, pk: pk, code: code}
}

// ---------------------------------------------------------------- world

type utxo struct {
	owner int
	value common.Fixed64
	op    *ctypes.OutPoint
	spent bool
	born  uint32
	tracked bool // the node records this output in DepositOutputs (it counts into the owner's total)
}

type world struct {
	params  *config.Configuration
	st      *state.State
	cm      *crstate.Committee
	chain   *blockchain.BlockChain
	height  uint32
	inBlock bool
	pending []interfaces.Transaction
	owners  map[int]*key
	stakes  map[int]*key
	crKeys  map[int]*key
	v2s     []int // v2 producers in registration order (vote candidates)
	utxos   []*utxo
	newUtxo []*utxo // created by txs queued in the current block
	nonce   uint32
	blockIn map[int]bool // utxo ids used as inputs in the current block
	redo    bool         // disconnect the block again (RollbackTo) and connect it a second time
}

var w *world

func i64(s string) int64 {
	v, err := strconv.ParseInt(s, 10, 64)
	if err != nil {
		panic("harness: bad int " + s)
	}
	return v
}

func newWorld(t []string) *world {
	functions.GetTransactionByTxType = transaction.GetTransaction
	functions.GetTransactionByBytes = transaction.GetTransactionByBytes
	functions.CreateTransaction = transaction.CreateTransaction
	functions.GetTransactionParameters = transaction.GetTransactionparameters

	p := config.GetDefaultParams()
	p.CRConfiguration.DepositLockupBlocks = uint32(i64(t[1]))
	// t[2] = MinDepositAmount is a constant of the node (checked below)
	p.MinTransactionFee = common.Fixed64(i64(t[3]))
	p.CRConfiguration.RealWithdrawSingleFee = common.Fixed64(i64(t[4]))
	p.DPoSConfiguration.DPoSV2MinVotesLockTime = uint32(i64(t[5]))
	p.DPoSConfiguration.DPoSV2MaxVotesLockTime = uint32(i64(t[6]))
	p.DPoSConfiguration.IllegalPenalty = common.Fixed64(i64(t[7]))
	p.CRConfiguration.ChangeCommitteeNewCRHeight = 0
	p.CRConfiguration.CRVotingStartHeight = 0
	p.CRConfiguration.CRCommitteeStartHeight = 100000000 // the whole run is the first CR voting period
	if len(t) >= 10 { // end of the CR voting period (tryEndVoting) at LastVotingStartHeight + VotingPeriod, MemberCount seats
		p.CRConfiguration.VotingPeriod = uint32(i64(t[8]))
		p.CRConfiguration.MemberCount = uint32(i64(t[9]))
	} else {
		p.CRConfiguration.VotingPeriod = 100000000
	}
	p.DPoSV2StartHeight = 0
	p.VoteStatisticsHeight = 0
	p.EnableActivateIllegalHeight = 0
	if int64(crstate.MinDepositAmount) != i64(t[2]) {
		panic("harness: MinDepositAmount differs from the op line")
	}
	ckp := checkpoint.NewManager(p)
	cm := crstate.NewCommittee(p, ckp)
	st := state.NewState(p, nil, nil, nil, func() bool { return false }, nil, nil, nil, nil, nil, nil, nil)
	cm.RegisterFuncitons(&crstate.CommitteeFuncsConfig{}) // wires State.getHistoryMember, as the node's start-up does
	chain := &blockchain.BlockChain{}
	chain.SetState(st)
	chain.SetCRCommittee(cm)
	return &world{params: p, st: st, cm: cm, chain: chain, owners: map[int]*key{}, stakes: map[int]*key{}, crKeys: map[int]*key{}, blockIn: map[int]bool{}}
}

func (w *world) owner(o int) *key {
	k, ok := w.owners[o]
	if !ok {
		k = mkKey(1, o)
		w.owners[o] = k
	}
	return k
}
func (w *world) stake(o int) *key {
	k, ok := w.stakes[o]
	if !ok {
		k = mkKey(2, o)
		w.stakes[o] = k
	}
	return k
}
func (w *world) cr(o int) *key {
	k, ok := w.crKeys[o]
	if !ok {
		k = mkKey(4, o)
		w.crKeys[o] = k
	}
	return k
}
func crCID(k *key) common.Uint168 {
	c, err := crstate.GetCIDByCode(k.code)
	if err != nil {
		panic("harness: cid")
	}
	return *c
}
func crDepositHash(k *key) common.Uint168 {
	ct, err := contract.CreateDepositContractByCode(k.code)
	if err != nil {
		panic("harness: cr deposit contract")
	}
	return *ct.ToProgramHash()
}
func depositHash(k *key) common.Uint168 {
	h, err := contract.PublicKeyToDepositProgramHash(k.pk)
	if err != nil {
		panic("harness: deposit hash")
	}
	return *h
}
func stakeAddr(k *key) common.Uint168 {
	ct, _ := contract.CreateStakeContractByCode(k.code)
	return *ct.ToProgramHash()
}
func standardHash(k *key) common.Uint168 {
	ct, _ := contract.CreateStandardContract(k.pub)
	return *ct.ToProgramHash()
}

func (w *world) attrs() []*ctypes.Attribute {
	w.nonce++
	return []*ctypes.Attribute{{Usage: ctypes.Nonce, Data: []byte(fmt.Sprintf("n%08d", w.nonce))}}
}

func (w *world) mk(tt ctypes.TxType, pv byte, pl interfaces.Payload, ins []*ctypes.Input, outs []*ctypes.Output, progs []*program.Program) interfaces.Transaction {
	tx := functions.CreateTransaction(0, tt, pv, pl, w.attrs(), ins, outs, 0, progs)
	tx.SetParameters(&transaction.TransactionParameters{
		Transaction: tx, BlockHeight: w.height, TimeStamp: w.height * 120, Config: w.params, BlockChain: w.chain,
	})
	return tx
}

func errClass(e error) string {
	s := e.Error()
	for _, kv := range [][2]string{
		{"signer must be producer", "noprod"},
		{"overspend deposit", "overspend"},
		{"UTXO should from same deposit address", "mixed"},
		{"has no vote rights", "norights"},
		{"need to be bigger than zero", "zero"},
		{"invalid DPoS 2.0 votes lock time", "lock"},
		{"DPoSV2 votes amount overflow", "overflow"},
		{"DPoSV2 vote rights not enough", "notenough"},
		{"invalid vote output payload", "cand"},
		{"invalid return votes value", "small"},
		{"duplicate vote type", "dup"},
		{"invalid candidate votes", "zero"},
		{"duplicate candidate", "dupcand"},
		{"invalid transaction UTXO output", "value"},
		{"not found in producer", "novote"},
		{"votes not equal", "novote"},
		{"new lock time <= old lock time", "lock"},
		{"new lock time > producer StakeUntil", "lock"},
		{"invalid lock time > DPoSV2MaxVotesLockTime", "lock"},
		{"vote rights not enough", "notenough"},
		{"can not cancel", "state"},
		{"getting unknown producer", "noprod"},
		{"signer must be candidate or member", "nocr"},
		{"candidate overspend deposit", "overspend"},
		{"unregister unknown CR", "nocr"},
		{"unregister canceled or returned CR", "state"},
	} {
		if strings.Contains(s, kv[0]) {
			return kv[1]
		}
	}
	return "other:" + strings.ReplaceAll(s, " ", "_")
}

func verdict(tx interfaces.Transaction) string {
	err, _ := tx.SpecialContextCheck()
	if err != nil {
		return "reject " + errClass(err)
	}
	return "accept"
}

func (w *world) dump() string {
	var b strings.Builder
	fmt.Fprintf(&b, "h=%d A", w.height)
	ids := make([]int, 0, len(w.owners))
	for o := range w.owners {
		ids = append(ids, o)
	}
	sort.Ints(ids)
	for _, o := range ids {
		p := w.st.GetProducer(w.owners[o].pk)
		if p == nil {
			continue
		}
		key := hex.EncodeToString(w.owners[o].pk)
		m := 0
		if _, ok := w.st.PendingProducers[key]; ok {
			m |= 1
		}
		if _, ok := w.st.ActivityProducers[key]; ok {
			m |= 2
		}
		if _, ok := w.st.IllegalProducers[key]; ok {
			m |= 4
		}
		if _, ok := w.st.CanceledProducers[key]; ok {
			m |= 8
		}
		fmt.Fprintf(&b, " %d:%d:%d:%d:%d:%d", o, int64(p.TotalAmount()), int64(p.DepositAmount()), int64(p.Penalty()), int(p.State()), m)
	}
	b.WriteString(" S")
	ids = ids[:0]
	for o := range w.stakes {
		ids = append(ids, o)
	}
	sort.Ints(ids)
	for _, o := range ids {
		a := stakeAddr(w.stakes[o])
		r, ok := w.st.DposV2VoteRights[a]
		u := w.st.UsedDposV2Votes[a]
		if !ok && u == 0 {
			continue
		}
		locked := new(big.Int) // exact: a Fixed64 sum of the stored votes could itself wrap
		for _, p := range w.st.GetDposV2Producers() {
			for _, dvi := range p.GetAllDetailedDPoSV2Votes()[a] {
				for _, i := range dvi.Info {
					locked.Add(locked, big.NewInt(int64(i.Votes)))
				}
			}
		}
		fmt.Fprintf(&b, " %d:%d:%d:%s", o, int64(r), int64(u), locked.String())
	}
	b.WriteString(" R")
	ids = ids[:0]
	for o := range w.crKeys {
		ids = append(ids, o)
	}
	sort.Ints(ids)
	for _, o := range ids {
		cid := crCID(w.crKeys[o])
		if !w.cm.Exist(cid) {
			continue
		}
		st := -1
		if c := w.cm.GetCandidate(cid); c != nil {
			st = int(c.State)
		}
		cs := w.cm.GetState()
		// the harness's own ledger: the candidate's deposit outputs that the node tracks and that are unspent
		var ledger common.Fixed64
		for _, u := range w.utxos {
			if u.owner == 1000+o && u.tracked && !u.spent {
				ledger += u.value
			}
		}
		fmt.Fprintf(&b, " %d:%d:%d:%d:%d:%d", o, int64(cs.GetTotalAmount(cid)), int64(cs.GetDepositAmount(cid)), int64(w.cm.GetPenalty(cid)), st, int64(ledger))
	}
	return b.String()
}

func exec(t []string) string {
	if t[0] == "reset" {
		if len(t) < 8 { // bare reset (the runner inserts one before every corpus file)
			w = nil
			return "ok"
		}
		w = newWorld(t)
		return "ok"
	}
	if w == nil {
		panic("harness: op before reset")
	}
	switch t[0] {
	case "begin":
		if w.inBlock {
			panic("harness: begin inside block")
		}
		w.height = uint32(i64(t[1]))
		w.inBlock = true
		w.pending = nil
		w.newUtxo = nil
		w.blockIn = map[int]bool{}
		return "ok"
	case "end":
		if !w.inBlock {
			panic("harness: end outside block")
		}
		blk := &types.Block{Header: ctypes.Header{Height: w.height, Timestamp: w.height * 120}, Transactions: w.pending}
		process := func() {
		w.st.ProcessBlock(blk, nil, 0)
			func() {
				defer func() {
					if e := recover(); e != nil {
						if os.Getenv("HX_DEBUG") != "" {
							fmt.Fprintln(os.Stderr, string(debug.Stack()))
						}
						panic(e)
					}
				}()
				w.cm.ProcessBlock(blk, nil)
			}()
		}
		process()
		if w.redo && w.height < 2 { // Committee.RollbackTo(0) never terminates (uint32 loop counter); nothing to disconnect to
			w.redo = false
		}
		if w.redo { // a reorganisation that disconnects this block and connects the same block again must change nothing
			w.redo = false
			// only the CR committee is disconnected and re-connected (rollback of dpos/state is C21's subject)
			if err := w.cm.RollbackTo(w.height - 1); err != nil {
				return "rollback-error"
			}
			w.cm.ProcessBlock(blk, nil)
		}
		w.inBlock = false
		for id := range w.blockIn {
			w.utxos[id].spent = true
		}
		return w.dump()
	}
	if !w.inBlock {
		panic("harness: tx outside block")
	}
	switch t[0] {
	case "redo":
		w.redo = true
		return "queued"
	case "pool": // pool <k> <a> <b>: does the transaction pool refuse tx b of stake key k while tx a of the same key is pooled?
		// kinds: vote, stake, retv0 (payload V0 authorised by k, program of another key), retv1 (Schnorr version, program k)
		o := int(i64(t[1]))
		k := w.stake(o)
		other := w.stake(o + 1)
		mkPool := func(kind string) interfaces.Transaction {
			switch kind {
			case "vote":
				pl := &payload.Voting{Contents: []payload.VotesContent{{VoteType: outputpayload.DposV2,
					VotesInfo: []payload.VotesWithLockTime{{Candidate: k.pk, Votes: 1, LockTime: w.height + 10}}}}}
				return w.mk(ctypes.Voting, payload.VoteVersion, pl, nil, nil, []*program.Program{{Code: k.code, Parameter: []byte{0}}})
			case "stake":
				return w.mk(ctypes.ExchangeVotes, 0, &payload.ExchangeVotes{}, nil,
					[]*ctypes.Output{{AssetID: core.ELAAssetID, ProgramHash: *w.params.StakePoolProgramHash, Value: 1, Type: ctypes.OTStake,
						Payload: &outputpayload.ExchangeVotesOutput{StakeAddress: stakeAddr(k)}}},
					[]*program.Program{{Code: k.code, Parameter: []byte{0}}})
			case "retv0":
				pl := &payload.ReturnVotes{ToAddr: standardHash(k), Value: 20000, Code: k.code}
				return w.mk(ctypes.ReturnVotes, payload.ReturnVotesVersionV0, pl, nil, nil, []*program.Program{{Code: other.code, Parameter: []byte{0}}})
			case "retv1":
				pl := &payload.ReturnVotes{ToAddr: standardHash(k), Value: 20000}
				return w.mk(ctypes.ReturnVotes, payload.ReturnVotesSchnorrVersion, pl, nil, nil, []*program.Program{{Code: k.code, Parameter: []byte{0}}})
			}
			panic("harness: unknown pool kind " + kind)
		}
		defer func() {
			if e := recover(); e != nil {
				if os.Getenv("HX_DEBUG") != "" {
					fmt.Fprintln(os.Stderr, string(debug.Stack()))
				}
				panic(e)
			}
		}()
		if mempool.VerifConflict(mkPool(t[2]), mkPool(t[3])) {
			return "conflict"
		}
		return "free"
	case "reg":
		o := int(i64(t[1]))
		k := w.owner(o)
		amount := common.Fixed64(i64(t[2]))
		v2 := t[4] == "1"
		info := &payload.ProducerInfo{OwnerKey: k.pk, NodePublicKey: k.pk, NickName: fmt.Sprintf("nick%d", o), Url: "http://x", Location: 1, NetAddress: "1.1.1.1"}
		pv := payload.ProducerInfoVersion
		if v2 {
			info.StakeUntil = 4000000
			pv = payload.ProducerInfoDposV2Version
		}
		lock := crstate.MinDepositAmount
		if v2 {
			lock = crstate.MinDPoSV2DepositAmount
		}
		if int64(lock) != i64(t[3]) {
			panic("harness: lock amount in op differs from the node's constant")
		}
		dh := depositHash(k)
		tx := w.mk(ctypes.RegisterProducer, pv, info, nil, []*ctypes.Output{{ProgramHash: dh, Value: amount}}, nil)
		w.pending = append(w.pending, tx)
		w.utxos = append(w.utxos, &utxo{owner: o, value: amount, op: ctypes.NewOutPoint(tx.Hash(), 0), born: w.height})
		if v2 {
			w.v2s = append(w.v2s, o)
		}
		return "queued"
	case "dep":
		o := int(i64(t[1]))
		k := w.owner(o)
		v := common.Fixed64(i64(t[2]))
		tx := w.mk(ctypes.TransferAsset, 0, &payload.TransferAsset{}, nil, []*ctypes.Output{{ProgramHash: depositHash(k), Value: v}}, nil)
		w.pending = append(w.pending, tx)
		w.utxos = append(w.utxos, &utxo{owner: o, value: v, op: ctypes.NewOutPoint(tx.Hash(), 0), born: w.height})
		return "queued"
	case "cancel":
		o := int(i64(t[1]))
		k := w.owner(o)
		pl := &payload.ProcessProducer{OwnerKey: k.pk}
		buf := new(bytes.Buffer)
		pl.SerializeUnsigned(buf, payload.ProcessProducerVersion)
		sig, err := crypto.Sign(k.priv, buf.Bytes())
		if err != nil {
			panic("harness: sign " + err.Error())
		}
		pl.Signature = sig
		tx := w.mk(ctypes.CancelProducer, payload.ProcessProducerVersion, pl, nil, nil, []*program.Program{{Code: k.code, Parameter: []byte{0}}})
		v := verdict(tx)
		if v == "accept" {
			w.pending = append(w.pending, tx)
		}
		return v
	case "ret":
		o := int(i64(t[1]))
		k := w.owner(o)
		inp, tinp, change, out := common.Fixed64(i64(t[2])), common.Fixed64(i64(t[3])), common.Fixed64(i64(t[4])), common.Fixed64(i64(t[5]))
		dh := depositHash(k)
		var ins []*ctypes.Input
		refs := map[*ctypes.Input]ctypes.Output{}
		var sum, tsum common.Fixed64
		var ids []int
		if t[6] != "-" {
			for _, s := range strings.Split(t[6], ",") {
				id := int(i64(s))
				if id < 0 || id >= len(w.utxos) || w.utxos[id].spent || w.blockIn[id] || w.utxos[id].owner != o || w.utxos[id].born >= w.height {
					panic("harness: bad utxo id in ret")
				}
				u := w.utxos[id]
				in := &ctypes.Input{Previous: *u.op, Sequence: 0}
				ins = append(ins, in)
				refs[in] = ctypes.Output{ProgramHash: dh, Value: u.value}
				sum += u.value
				tsum += w.st.DepositOutputs[in.ReferKey()]
				ids = append(ids, id)
			}
		}
		if sum != inp {
			panic("harness: inp in op differs from the referenced utxos")
		}
		if tsum != tinp {
			return "tinp-mismatch"
		}
		var outs []*ctypes.Output
		if change != 0 {
			outs = append(outs, &ctypes.Output{ProgramHash: dh, Value: change})
		}
		outs = append(outs, &ctypes.Output{ProgramHash: standardHash(k), Value: out})
		o2, other := -1, common.Fixed64(0)
		if len(t) >= 9 { // a further output to ANOTHER producer's deposit address (not change: it counts as withdrawn)
			o2, other = int(i64(t[7])), common.Fixed64(i64(t[8]))
			if o2 == o {
				panic("harness: the other deposit address must belong to a different producer")
			}
			outs = append(outs, &ctypes.Output{ProgramHash: depositHash(w.owner(o2)), Value: other})
		}
		tx := w.mk(ctypes.ReturnDepositCoin, 0, &payload.ReturnDepositCoin{}, ins, outs, []*program.Program{{Code: k.code, Parameter: []byte{0}}})
		tx.SetReferences(refs)
		v := verdict(tx)
		if v == "accept" {
			w.pending = append(w.pending, tx)
			for _, id := range ids {
				w.blockIn[id] = true
			}
			if change != 0 {
				w.utxos = append(w.utxos, &utxo{owner: o, value: change, op: ctypes.NewOutPoint(tx.Hash(), 0), born: w.height})
			}
			if o2 >= 0 {
				w.utxos = append(w.utxos, &utxo{owner: o2, value: other, op: ctypes.NewOutPoint(tx.Hash(), uint16(len(outs)-1)), born: w.height})
			}
		}
		return v
	case "pen":
		o := int(i64(t[1]))
		k := w.owner(o)
		// informational flag: the producer is Active before the block (the model derives the effect itself)
		eff := "0"
		if pr := w.st.GetProducer(k.pk); pr != nil && pr.State() == state.Active {
			eff = "1"
		}
		if eff != t[2] || common.Fixed64(i64(t[3])) != w.params.DPoSConfiguration.IllegalPenalty {
			return "pen-mismatch"
		}
		pl := &payload.DPOSIllegalProposals{}
		pl.Evidence.Proposal.Sponsor = k.pk
		pl.Evidence.BlockHeight = w.height
		pl.CompareEvidence.Proposal.Sponsor = k.pk
		pl.CompareEvidence.BlockHeight = w.height
		pl.CompareEvidence.Proposal.ViewOffset = w.nonce + 1
		tx := w.mk(ctypes.IllegalProposalEvidence, 0, pl, nil, nil, nil)
		w.pending = append(w.pending, tx)
		return "queued"
	case "crreg":
		o := int(i64(t[1]))
		k := w.cr(o)
		amount := common.Fixed64(i64(t[2]))
		did, _ := crstate.GetDIDByCode(k.code)
		info := &payload.CRInfo{Code: k.code, CID: crCID(k), DID: *did, NickName: fmt.Sprintf("cr%d", o), Url: "http://x", Location: 1}
		tx := w.mk(ctypes.RegisterCR, payload.CRInfoDIDVersion, info, nil, []*ctypes.Output{{ProgramHash: crDepositHash(k), Value: amount}}, nil)
		w.pending = append(w.pending, tx)
		w.utxos = append(w.utxos, &utxo{owner: 1000 + o, value: amount, op: ctypes.NewOutPoint(tx.Hash(), 0), born: w.height, tracked: true})
		return "queued"
	case "crvote": // CRC vote output (old style vote tx); only for candidates present before the block
		o := int(i64(t[1]))
		k := w.cr(o)
		if w.cm.GetCandidate(crCID(k)) == nil {
			panic("harness: crvote for a cid that is not a candidate (the node dereferences nil at commit)")
		}
		cid := crCID(k)
		out := &ctypes.Output{Value: common.Fixed64(i64(t[2])), Type: ctypes.OTVote, ProgramHash: standardHash(k),
			Payload: &outputpayload.VoteOutput{Version: outputpayload.VoteProducerAndCRVersion, Contents: []outputpayload.VoteContent{
				{VoteType: outputpayload.CRC, CandidateVotes: []outputpayload.CandidateVotes{{Candidate: cid.Bytes(), Votes: common.Fixed64(i64(t[2]))}}}}}}
		tx := functions.CreateTransaction(ctypes.TxVersion09, ctypes.TransferAsset, 0, &payload.TransferAsset{}, w.attrs(), nil, []*ctypes.Output{out}, 0, nil)
		w.pending = append(w.pending, tx)
		return "queued"
	case "crdep":
		o := int(i64(t[1]))
		k := w.cr(o)
		v := common.Fixed64(i64(t[2]))
		tx := w.mk(ctypes.TransferAsset, 0, &payload.TransferAsset{}, nil, []*ctypes.Output{{ProgramHash: crDepositHash(k), Value: v}}, nil)
		w.pending = append(w.pending, tx)
		w.utxos = append(w.utxos, &utxo{owner: 1000 + o, value: v, op: ctypes.NewOutPoint(tx.Hash(), 0), born: w.height, tracked: w.cm.Exist(crCID(k))})
		return "queued"
	case "crcancel":
		o := int(i64(t[1]))
		k := w.cr(o)
		pl := &payload.UnregisterCR{CID: crCID(k)}
		buf := new(bytes.Buffer)
		pl.SerializeUnsigned(buf, payload.UnregisterCRVersion)
		sig, err := crypto.Sign(k.priv, buf.Bytes())
		if err != nil {
			panic("harness: sign " + err.Error())
		}
		pl.Signature = sig
		tx := w.mk(ctypes.UnregisterCR, payload.UnregisterCRVersion, pl, nil, nil, []*program.Program{{Code: k.code, Parameter: []byte{0}}})
		v := verdict(tx)
		if v == "accept" {
			w.pending = append(w.pending, tx)
		}
		return v
	case "crret":
		o := int(i64(t[1]))
		k := w.cr(o)
		inp, tinp, change, out := common.Fixed64(i64(t[2])), common.Fixed64(i64(t[3])), common.Fixed64(i64(t[4])), common.Fixed64(i64(t[5]))
		dh := crDepositHash(k)
		var ins []*ctypes.Input
		refs := map[*ctypes.Input]ctypes.Output{}
		var sum, tsum common.Fixed64
		var ids []int
		if t[6] != "-" {
			for _, s := range strings.Split(t[6], ",") {
				id := int(i64(s))
				if id < 0 || id >= len(w.utxos) || w.utxos[id].spent || w.blockIn[id] || w.utxos[id].owner != 1000+o || w.utxos[id].born >= w.height {
					panic("harness: bad utxo id in crret")
				}
				u := w.utxos[id]
				in := &ctypes.Input{Previous: *u.op, Sequence: 0}
				ins = append(ins, in)
				refs[in] = ctypes.Output{ProgramHash: dh, Value: u.value}
				sum += u.value
				tsum += w.cm.GetState().DepositOutputs[in.ReferKey()]
				ids = append(ids, id)
			}
		}
		if sum != inp {
			panic("harness: inp in op differs from the referenced utxos")
		}
		if tsum != tinp {
			return "tinp-mismatch"
		}
		var outs []*ctypes.Output
		if change != 0 {
			outs = append(outs, &ctypes.Output{ProgramHash: dh, Value: change})
		}
		outs = append(outs, &ctypes.Output{ProgramHash: standardHash(k), Value: out})
		tx := w.mk(ctypes.ReturnCRDepositCoin, 0, &payload.ReturnDepositCoin{}, ins, outs, []*program.Program{{Code: k.code, Parameter: []byte{0}}})
		tx.SetReferences(refs)
		v := verdict(tx)
		if v == "accept" {
			w.pending = append(w.pending, tx)
			for _, id := range ids {
				w.blockIn[id] = true
			}
			if change != 0 {
				w.utxos = append(w.utxos, &utxo{owner: 1000 + o, value: change, op: ctypes.NewOutPoint(tx.Hash(), 0), born: w.height, tracked: true})
			}
		}
		return v
	case "stake": // ExchangeVotes: the real output check (CheckTransactionOutput) decides, then it is processed
		o := int(i64(t[1]))
		k := w.stake(o)
		v := common.Fixed64(i64(t[2]))
		tx := w.mk(ctypes.ExchangeVotes, 0, &payload.ExchangeVotes{}, nil,
			[]*ctypes.Output{{AssetID: core.ELAAssetID, ProgramHash: *w.params.StakePoolProgramHash, Value: v, Type: ctypes.OTStake,
				Payload: &outputpayload.ExchangeVotesOutput{StakeAddress: stakeAddr(k)}}},
			[]*program.Program{{Code: k.code, Parameter: []byte{0}}})
		if err := tx.CheckTransactionOutput(); err != nil {
			return "reject " + errClass(err)
		}
		if err, _ := tx.SpecialContextCheck(); err != nil {
			return "reject " + errClass(err)
		}
		w.pending = append(w.pending, tx)
		return "accept"
	case "vote":
		o := int(i64(t[1]))
		k := w.stake(o)
		lock := uint32(i64(t[2]))
		var vi []payload.VotesWithLockTime
		for i, s := range strings.Split(t[3], ",") {
			if i >= len(w.v2s) {
				panic("harness: more votes than v2 producers")
			}
			vi = append(vi, payload.VotesWithLockTime{Candidate: w.owner(w.v2s[i]).pk, Votes: common.Fixed64(i64(s)), LockTime: lock})
		}
		bad := "n"
		act := map[string]bool{}
		for _, p := range w.st.GetActivityV2Producers() {
			act[string(p.Info().OwnerKey)] = true
		}
		for i := range vi {
			if !act[string(vi[i].Candidate)] {
				bad = strconv.Itoa(i)
				break
			}
		}
		if bad != t[4] {
			return "cand-mismatch"
		}
		// shape of the payload: D = a DposV2 content with these votes, P = an (empty) CRCProposal content
		shape := "D"
		if len(t) >= 6 {
			shape = t[5]
		}
		var contents []payload.VotesContent
		for _, c := range shape {
			if c == 'D' {
				contents = append(contents, payload.VotesContent{VoteType: outputpayload.DposV2, VotesInfo: vi})
			} else {
				contents = append(contents, payload.VotesContent{VoteType: outputpayload.CRCProposal})
			}
		}
		pl := &payload.Voting{Contents: contents}
		tx := w.mk(ctypes.Voting, payload.VoteVersion, pl, nil, nil, []*program.Program{{Code: k.code, Parameter: []byte{0}}})
		// the payload's own validation (CheckTransactionPayload -> Voting.Validate) runs before the context check
		v := ""
		if err := tx.CheckTransactionPayload(); err != nil {
			v = "reject " + errClass(err)
		} else {
			v = verdict(tx)
		}
		if v == "accept" {
			w.pending = append(w.pending, tx)
			if os.Getenv("HX_DEBUG") != "" { // refer keys of the detailed votes this tx will create (for writing corpus files)
				for _, x := range vi {
					dvi := payload.DetailedVoteInfo{StakeProgramHash: stakeAddr(k), TransactionHash: tx.Hash(), BlockHeight: w.height,
						PayloadVersion: tx.PayloadVersion(), VoteType: outputpayload.DposV2, Info: []payload.VotesWithLockTime{x}}
					rk := dvi.ReferKey()
					fmt.Fprintln(os.Stderr, "refer key:", rk.String())
				}
			}
		}
		return v
	case "renew": // renew <k> <referKey> <oldLock> <amount> <born> <newLock>
		o := int(i64(t[1]))
		k := w.stake(o)
		rk, err := common.Uint256FromHexString(t[2])
		if err != nil {
			panic("harness: bad refer key")
		}
		cand := []byte(nil)
		sa := stakeAddr(k)
		for _, p := range w.st.GetDposV2Producers() {
			if dvi, ok := p.GetAllDetailedDPoSV2Votes()[sa][*rk]; ok {
				if int64(dvi.Info[0].LockTime) != i64(t[3]) || int64(dvi.Info[0].Votes) != i64(t[4]) || int64(dvi.BlockHeight) != i64(t[5]) {
					return "vote-mismatch"
				}
				cand = p.OwnerPublicKey()
			}
		}
		if cand == nil { // stale key: the real check has to refuse it
			if len(w.v2s) == 0 {
				panic("harness: renew without v2 producer")
			}
			cand = w.owner(w.v2s[0]).pk
		}
		pl := &payload.Voting{RenewalContents: []payload.RenewalVotesContent{{ReferKey: *rk,
			VotesInfo: payload.VotesWithLockTime{Candidate: cand, Votes: common.Fixed64(i64(t[4])), LockTime: uint32(i64(t[6]))}}}}
		tx := w.mk(ctypes.Voting, payload.RenewalVoteVersion, pl, nil, nil, []*program.Program{{Code: k.code, Parameter: []byte{0}}})
		v := verdict(tx)
		if v == "accept" {
			w.pending = append(w.pending, tx)
		}
		return v
	case "retv": // retv <k> <v> [<ver> <other>]: ver 0 = payload V0 (payload.Code = k, signed by k; program = other's key),
		// ver 1 = Schnorr version (program = k; payload.Code = other's key, ignored by the node)
		o := int(i64(t[1]))
		k := w.stake(o)
		pl := &payload.ReturnVotes{ToAddr: standardHash(k), Value: common.Fixed64(i64(t[2]))}
		ver, progKey := payload.ReturnVotesSchnorrVersion, k
		if len(t) >= 5 {
			other := w.stake(int(i64(t[4])))
			if t[3] == "0" {
				ver, progKey = payload.ReturnVotesVersionV0, other
				pl.Code = k.code
				buf := new(bytes.Buffer)
				pl.SerializeUnsigned(buf, payload.ReturnVotesVersionV0)
				sig, err := crypto.Sign(k.priv, buf.Bytes())
				if err != nil {
					panic("harness: sign " + err.Error())
				}
				pl.Signature = sig
			} else {
				pl.Code = other.code
			}
		}
		tx := w.mk(ctypes.ReturnVotes, ver, pl, nil, nil, []*program.Program{{Code: progKey.code, Parameter: []byte{0}}})
		v := verdict(tx)
		if v == "accept" {
			w.pending = append(w.pending, tx)
		}
		return v
	}
	panic("harness: unknown op " + t[0])
}

func main() {
	hx.Main(&hx.Prop{Name: "C28", Gen: gen, Exec: exec, Oracle: oracle, Nontrivial: nontrivial, Bucket: bucket, Stateful: true})
}
