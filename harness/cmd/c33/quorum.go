package main

// Two further pieces of the V0/V1 quorum that the stubbed ledger of `chk` takes as inputs:
//
//   maj <era> <count>   the REAL dpos state: Arbiters.GetCrossChainArbitersCount / …MajorityCount with
//                       <count> origin arbiters (era 0, below CRCOnlyDPOSHeight-1) or CRC arbiters (era 1)
//   sig m= n= keys= sigs=   the REAL blockchain.RunPrograms on a cross-chain multisig program: which sets of
//                       signatures reach the quorum m.  A signature token is <key> (key's signature), <key>t
//                       (its ECDSA twin (r, N-s)), <key>f (a second signature of the same key, fresh nonce)
//                       or x (64 bytes that verify under no key).

import (
	"fmt"
	"math/big"
	"strings"

	"github.com/elastos/Elastos.ELA/blockchain"
	"github.com/elastos/Elastos.ELA/common"
	"github.com/elastos/Elastos.ELA/common/config"
	"github.com/elastos/Elastos.ELA/core/contract"
	"github.com/elastos/Elastos.ELA/core/contract/program"
	"github.com/elastos/Elastos.ELA/crypto"
	"github.com/elastos/Elastos.ELA/dpos/state"
)

func execMaj(era, count int) string {
	p := *config.GetDefaultParams()
	dc := &p.DPoSConfiguration
	keys := make([]string, count)
	for i := range keys {
		keys[i] = common.BytesToHexString(keyBytes(i + 1))
	}
	other := []string{common.BytesToHexString(keyBytes(99))}
	p.CRCOnlyDPOSHeight = 1000
	height := uint32(10)
	if era == 0 {
		dc.OriginArbiters, dc.CRCArbiters = keys, other
	} else {
		dc.OriginArbiters, dc.CRCArbiters = other, keys
		height = 999
	}
	a := &state.Arbiters{State: &state.State{}, ChainParams: &p}
	a.RegisterFunction(func() uint32 { return height }, nil, nil, nil)
	return fmt.Sprintf("count=%d maj=%d", a.GetCrossChainArbitersCount(), a.GetCrossChainArbitersMajorityCount())
}

var sigData = []byte("withdraw transaction data to sign")

func signWith(key int) []byte {
	sg, err := crypto.Sign(big.NewInt(int64(key)).Bytes(), sigData)
	if err != nil {
		panic("harness: sign: " + err.Error())
	}
	return sg
}

func execSig(t []string) string {
	m, n := atoi(field(t, "m")), atoi(field(t, "n"))
	code := prog{kind: "M", m: m, n: n, keys: ints(field(t, "keys")), ok: true}.code()
	first := map[int][]byte{}
	var param []byte
	for _, tok := range split(field(t, "sigs"), ",") {
		var sg []byte
		switch {
		case tok == "x":
			sg = make([]byte, 64)
			sg[31], sg[63] = 1, 1
		default:
			key := atoi(strings.TrimRight(tok, "tf"))
			if first[key] == nil {
				first[key] = signWith(key)
			}
			switch tok[len(tok)-1] {
			case 't':
				sg = append([]byte{}, first[key][:32]...)
				s := new(big.Int).SetBytes(first[key][32:])
				s.Sub(crypto.Curve.Params().N, s)
				sg = append(sg, make([]byte, 32-len(s.Bytes()))...)
				sg = append(sg, s.Bytes()...)
			case 'f':
				sg = signWith(key)
			default:
				sg = first[key]
			}
		}
		param = append(param, 0x40)
		param = append(param, sg...)
	}
	var ph common.Uint168
	ph[0] = byte(contract.PrefixCrossChain)
	if err := blockchain.RunPrograms(sigData, []common.Uint168{ph}, []*program.Program{{Code: code, Parameter: param}}); err != nil {
		return "rej"
	}
	return "ok"
}

func oracleMaj(out string) (string, bool) {
	var c, mj int
	fmt.Sscanf(out, "count=%d maj=%d", &c, &mj)
	// "m > majority" has to mean "more than two thirds of the arbiters": majority is the largest k with 3k <= 2·count
	if 3*mj <= 2*c && 3*(mj+1) > 2*c {
		return "", true
	}
	return fmt.Sprintf("with %d cross-chain arbiters the real majority count is %d: a script asking for %d of %d signatures passes the V0 test m > majority, two thirds are %d/3", c, mj, mj+1, c, 2*c), false
}

func oracleSig(t []string) (string, bool) {
	m := atoi(field(t, "m"))
	in := map[int]bool{}
	for _, k := range ints(field(t, "keys")) {
		in[k] = true
	}
	signers := map[int]bool{}
	for _, tok := range split(field(t, "sigs"), ",") {
		if tok == "x" {
			continue
		}
		if k := atoi(strings.TrimRight(tok, "tf")); in[k] {
			signers[k] = true
		}
	}
	if len(signers) >= m {
		return "", true
	}
	return fmt.Sprintf("RunPrograms accepted a cross-chain multisig witness with signatures of only %d distinct arbiters, the script requires %d", len(signers), m), false
}
