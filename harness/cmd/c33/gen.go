package main

import (
	"fmt"
	"strconv"
	"strings"

	"elaverif/harness/hx"
)

func joinInts(xs []int, sep string) string {
	if len(xs) == 0 {
		return "-"
	}
	ss := make([]string, len(xs))
	for i, x := range xs {
		ss[i] = strconv.Itoa(x)
	}
	return strings.Join(ss, sep)
}

func fmtArbs(l []arb) string {
	if len(l) == 0 {
		return "-"
	}
	var ss []string
	for _, a := range l {
		n := 0
		if a.normal {
			n = 1
		}
		ss = append(ss, fmt.Sprintf("%d:%d", a.key, n))
	}
	return strings.Join(ss, ",")
}

func fmtProgs(ps []prog) string {
	if len(ps) == 0 {
		return "-"
	}
	var ss []string
	for _, p := range ps {
		switch p.kind {
		case "M":
			ok := 0
			if p.ok {
				ok = 1
			}
			ss = append(ss, fmt.Sprintf("M:%d:%d:%d:%s", ok, p.m, p.n, joinInts(p.keys, "+")))
		case "S":
			ss = append(ss, fmt.Sprintf("S:%d", p.sKey))
		default:
			ss = append(ss, "X")
		}
	}
	return strings.Join(ss, ";")
}

func fmtTx(w *wtx) string {
	return fmt.Sprintf("pver=%d ph=%s oh=%s sg=%s refs=%s progs=%s", w.pver, joinInts(w.ph, ","), joinInts(w.oh, ","),
		joinInts(w.sg, ","), joinInts(w.refs, ","), fmtProgs(w.progs))
}

func normals(l []arb) []int {
	var r []int
	for _, a := range l {
		if a.normal {
			r = append(r, a.key)
		}
	}
	return r
}

func shuffle(r *hx.Rand, xs []int) []int {
	ys := append([]int(nil), xs...)
	for i := len(ys) - 1; i > 0; i-- {
		j := r.Intn(i + 1)
		ys[i], ys[j] = ys[j], ys[i]
	}
	return ys
}

func hashes(r *hx.Rand) []int {
	n := 1 + r.Intn(2)
	var hs []int
	for i := 0; i < n; i++ {
		hs = append(hs, 1+r.Intn(6))
	}
	return hs
}

func genChk(g *hx.Gen, r *hx.Rand) {
	crClaim := 5 + r.Intn(16)
	dposCross := crClaim - 3 + r.Intn(18)
	restriction := r.Intn(60)
	schnorr := 10 + r.Intn(70)
	member := 1 + r.Intn(6)
	normalCnt := r.Intn(5)
	agree := 1 + r.Intn(4)
	var h int
	switch r.Intn(6) {
	case 0:
		h = crClaim - 1 + r.Intn(3)
	case 1:
		h = dposCross - 1 + r.Intn(3)
	case 2:
		h = restriction - 1 + r.Intn(3)
	case 3:
		h = schnorr - 1 + r.Intn(3)
	default:
		h = r.Intn(100)
	}
	if h < 0 {
		h = 0
	}
	// arbiters
	n := 2 + r.Intn(4)
	keys := shuffle(r, []int{1, 2, 3, 4, 5, 6, 7, 8, 9})[:n]
	var cross []arb
	for _, k := range keys {
		cross = append(cross, arb{k, !r.Chance(12)})
	}
	if r.Chance(8) {
		cross = append(cross, arb{cross[0].key, true}) // the same node key twice
	}
	vary := func(l []arb) []arb {
		c := append([]arb(nil), l...)
		switch r.Intn(6) {
		case 0:
			if len(c) > 1 {
				c = c[:len(c)-1]
			}
		case 1:
			c = append(c, arb{10 + r.Intn(3), true})
		}
		return c
	}
	arbs, crc := vary(cross), vary(cross)
	cc := len(cross)
	if r.Chance(10) {
		cc += r.Intn(3) - 1
	}
	maj := cc * 2 / 3
	if r.Chance(15) {
		maj = r.Intn(cc + 1)
	}
	var wd []int
	for x := 1; x <= 6; x++ {
		if r.Chance(25) {
			wd = append(wd, x)
		}
	}
	w := &wtx{}
	w.pver = r.Pick(0, 0, 0, 1, 1, 1, 2, 2, 2, 2, 3)
	nrefs := 1 + r.Intn(3)
	for i := 0; i < nrefs; i++ {
		w.refs = append(w.refs, 1)
	}
	if r.Chance(10) {
		w.refs[r.Intn(nrefs)] = 0
	}
	switch w.pver {
	case 0:
		w.ph = hashes(r)
	default:
		w.oh = hashes(r)
		if r.Chance(10) {
			w.ph = hashes(r) // ignored by V1/V2
		}
	}
	if w.pver == 2 || (w.pver == 3 && r.Bool()) {
		need := member*2/3 + 1
		if h > crClaim && h < dposCross {
			need = member * 2 / 3
		}
		idx := shuffle(r, []int{0, 1, 2, 3, 4, 5})
		for _, i := range idx {
			if len(w.sg) < need && i < len(cross) {
				w.sg = append(w.sg, i)
			}
		}
		for len(w.sg) < need { // not enough distinct arbiters: repeat (valid only below the restriction height)
			w.sg = append(w.sg, r.Intn(len(cross)))
		}
		switch r.Intn(10) {
		case 0:
			if len(w.sg) > 0 {
				w.sg = append(w.sg, w.sg[0])
			}
		case 1:
			w.sg = append(w.sg, len(cross)+r.Intn(3))
		case 2:
			w.sg = append(w.sg, 255)
		case 3:
			if len(w.sg) > 0 {
				w.sg = w.sg[:len(w.sg)-1]
			}
		case 4:
			w.sg = nil
		}
		sum := 0
		for _, s := range w.sg {
			if s < len(cross) {
				sum += cross[s].key
			}
		}
		np := 1 + r.Intn(2)
		for i := 0; i < np; i++ {
			w.progs = append(w.progs, prog{kind: "S", sKey: sum})
		}
		switch r.Intn(10) {
		case 0:
			w.progs[0].sKey = sum + 1
		case 1:
			w.progs[np-1] = prog{kind: "X"}
		case 2:
			w.progs[np-1] = prog{kind: "M", ok: true, m: 2, n: 2, keys: normals(cross)}
			if len(w.progs[np-1].keys) < 2 {
				w.progs[np-1] = prog{kind: "X"}
			}
		case 3:
			w.progs = nil
		}
	} else {
		ks := shuffle(r, normals(cross))
		p := prog{kind: "M", ok: true, keys: ks}
		if w.pver == 1 || w.pver == 3 || h >= crClaim {
			src, min := crc, agree
			if h >= dposCross {
				src, min = arbs, normalCnt+1
			}
			p.n = len(normals(src))
			p.m = min + r.Intn(2)
		} else {
			p.n = cc
			p.m = maj + 1 + r.Intn(2)
			if p.m > p.n && r.Chance(70) {
				p.m = p.n
			}
		}
		switch r.Intn(12) {
		case 0:
			if len(p.keys) > 2 {
				p.keys = p.keys[1:]
			}
		case 1:
			p.keys = append(p.keys, 10+r.Intn(3))
		case 2:
			p.m--
		case 3:
			p.n += r.Pick(-1, 1)
		case 4:
			p.ok = false
		case 5:
			p.m = r.Pick(0, -3, 1)
		case 6:
			if len(p.keys) > 0 {
				p.keys = append(p.keys, p.keys[0]) // a key twice in the script
			}
		}
		if len(p.keys) < 2 { // shorter than the minimal multisig code: the parser refuses it
			p.ok = false
		}
		w.progs = []prog{p}
		if r.Chance(10) {
			w.progs = append(w.progs, p)
		}
		if r.Chance(5) {
			w.progs = append(w.progs, prog{kind: []string{"X", "S"}[r.Intn(2)], sKey: 3})
		}
		if r.Chance(4) {
			w.progs = nil
		}
	}
	g.Emit("chk %d cfg=%d,%d,%d,%d,%d,%d,%d arbs=%s crc=%s cross=%s cc=%d maj=%d wd=%s %s", h, schnorr, crClaim, dposCross, restriction,
		member, normalCnt, agree, fmtArbs(arbs), fmtArbs(crc), fmtArbs(cross), cc, maj, joinInts(wd, ","), fmtTx(w))
}

func genSanity(g *hx.Gen, r *hx.Rand) {
	mk := func() *wtx {
		w := &wtx{pver: r.Pick(0, 0, 1, 2), refs: []int{1}}
		hs := hashes(r)
		if r.Chance(30) {
			hs = append(hs, hs[0])
		}
		if w.pver == 0 {
			w.ph = hs
		} else {
			w.oh = hs
		}
		return w
	}
	g.Emit("pay %s", fmtTx(mk()))
	n := 1 + r.Intn(3)
	var parts []string
	for i := 0; i < n; i++ {
		parts = append(parts, fmtTx(mk()))
	}
	g.Emit("blk %s", strings.Join(parts, " | "))
}

// histories through the real save / rollback processors: batched withdrawals (several hashes in one
// transaction, all versions), several blocks, rollbacks of the tip; hashes are not reused across
// blocks (reuse is the known V2 finding and has its own witness).
func genFlow(g *hx.Gen, r *hx.Rand) {
	hs := shuffle(r, []int{1, 2, 3, 4, 5, 6, 7, 8})
	var steps []string
	depth := 0
	nb := 1 + r.Intn(4)
	for b := 0; b < nb && len(hs) > 0; b++ {
		if depth > 0 && r.Chance(25) {
			steps = append(steps, "R")
			depth--
			continue // the rolled back hashes are not used again in this history
		}
		ntx := 1 + r.Intn(2)
		var txs []string
		for k := 0; k < ntx && len(hs) > 0; k++ {
			n := 1 + r.Intn(3)
			if n > len(hs) {
				n = len(hs)
			}
			txs = append(txs, fmt.Sprintf("v%d:%s", r.Pick(0, 1, 1, 2), joinInts(hs[:n], "+")))
			hs = hs[n:]
		}
		steps = append(steps, "S "+strings.Join(txs, " "))
		depth++
	}
	if r.Chance(15) && depth > 0 {
		steps = append(steps, "R")
	}
	g.Emit("wflow %s", strings.Join(steps, " / "))
}

// withdrawals of all payload versions submitted to the mempool's conflict manager, colliding on purpose
func genPool(g *hx.Gen, r *hx.Rand) {
	n := 2 + r.Intn(5)
	var txs []string
	for i := 0; i < n; i++ {
		k := 1 + r.Intn(2)
		var hs []int
		for j := 0; j < k; j++ {
			hs = append(hs, 1+r.Intn(5))
		}
		txs = append(txs, fmt.Sprintf("v%d:%s", r.Pick(0, 1, 1, 2, 2), joinInts(hs, "+")))
	}
	g.Emit("mp %s", strings.Join(txs, " "))
}

// V2: for 3, 5 and 12 arbiters every signer-subset size 0..n, with the program built from the real aggregate
// of exactly that subset, of a subset one arbiter short, and with a threshold just met / just missed.
func genV2Subsets(g *hx.Gen, r *hx.Rand) {
	for _, n := range []int{3, 5, 12} {
		keys := shuffle(r, []int{1, 2, 3, 4, 5, 6, 7, 8, 9, 10, 11, 12, 13, 14, 15})[:n]
		var cross []arb
		for _, k := range keys {
			cross = append(cross, arb{k, true})
		}
		for k := 0; k <= n; k++ {
			idx := shuffle(r, []int{0, 1, 2, 3, 4, 5, 6, 7, 8, 9, 10, 11}[:n])[:k]
			sum := 0
			for _, i := range idx {
				sum += cross[i].key
			}
			for _, variant := range []int{0, 1, 2} {
				member := n
				progKey := sum
				switch variant {
				case 1: // the script of a different subset
					progKey = sum + cross[(k)%n].key
				case 2: // threshold one above the subset size
					member = (k+1)*3/2 + 1
				}
				w := &wtx{pver: 2, oh: []int{1}, sg: idx, refs: []int{1}, progs: []prog{{kind: "S", sKey: progKey}}}
				for _, h := range []int{15, 21, 22, 40} { // the three threshold eras and above the restriction height
					g.Emit("chk %d cfg=100,20,22,35,%d,2,2 arbs=- crc=- cross=%s cc=%d maj=%d wd=- %s", h, member, fmtArbs(cross), n, n*2/3, fmtTx(w))
				}
			}
		}
	}
}

// V0 / V1: every era (below CRClaimDPOSNodeStartHeight, between, from DPOSNodeCrossChainHeight on, above
// SchnorrStartHeight) x m around the required count x n around the arbiter count.
func genEraGrid(g *hx.Gen) {
	cross := []arb{{5, true}, {7, true}, {11, true}, {3, false}}
	arbs := []arb{{5, true}, {7, true}, {11, true}}
	crc := []arb{{5, true}, {7, true}}
	for _, pver := range []int{0, 1} {
		for _, h := range []int{9, 10, 11, 19, 20, 21, 29, 30, 31} { // crClaim 10, dposCross 20, schnorr 30
			for dm := -1; dm <= 1; dm++ {
				for dn := -1; dn <= 1; dn++ {
					var m, n int
					switch {
					case pver == 0 && h < 10:
						n, m = 3+dn, 2+1+dm // n = crossCount, m > majority (2)
					case h >= 20:
						n, m = 3+dn, 2+1+dm // normal arbitrators count 2, +1
					default:
						n, m = 2+dn, 2+dm // CRC arbiters 2, agreement count 2
					}
					w := &wtx{pver: pver, refs: []int{1}, progs: []prog{{kind: "M", ok: true, m: m, n: n, keys: []int{11, 5, 7}}}}
					if pver == 0 {
						w.ph = []int{1}
					} else {
						w.oh = []int{1}
					}
					g.Emit("chk %d cfg=30,10,20,50,3,2,2 arbs=%s crc=%s cross=%s cc=3 maj=2 wd=- %s", h, fmtArbs(arbs), fmtArbs(crc), fmtArbs(cross), fmtTx(w))
				}
			}
		}
	}
}

// genQuorum: the real majority count for every arbiter count up to 36 in both eras, and signature sets for
// the real RunPrograms: honest ones, ones padded with twins / second signatures of the same arbiter, with
// garbage, with signatures of non-members.
func genQuorum(g *hx.Gen, r *hx.Rand) {
	for era := 0; era <= 1; era++ {
		for c := 1; c <= 36; c++ {
			g.Emit("maj %d %d", era, c)
		}
	}
	for i := 0; i < g.N(60, 600); i++ {
		n := 2 + r.Intn(5)
		m := 1 + r.Intn(n)
		keys := shuffle(r, []int{1, 2, 3, 4, 5, 6}[:n])
		var sigs []string
		cnt := m - 1 + r.Intn(3)
		if cnt < 1 {
			cnt = 1
		}
		if cnt > n {
			cnt = n
		}
		distinct := 1 + r.Intn(cnt)
		for j := 0; j < cnt; j++ {
			k := keys[j%distinct]
			switch {
			case j >= distinct && r.Bool():
				sigs = append(sigs, fmt.Sprintf("%dt", k))
			case j >= distinct:
				sigs = append(sigs, fmt.Sprintf("%df", k))
			case r.Chance(8):
				sigs = append(sigs, "x")
			case r.Chance(8):
				sigs = append(sigs, fmt.Sprintf("%d", 7+r.Intn(3)))
			default:
				sigs = append(sigs, fmt.Sprintf("%d", k))
			}
		}
		g.Emit("sig m=%d n=%d keys=%s sigs=%s", m, n, joinInts(keys, ","), strings.Join(sigs, ","))
	}
}

func gen(g *hx.Gen) {
	genQuorum(g, g.R.Fork(5000000))
	genV2Subsets(g, g.R.Fork(4000000))
	genEraGrid(g)
	for i := 0; i < g.N(300, 3000); i++ {
		genPool(g, g.R.Fork(uint64(3000000+i)))
	}
	for i := 0; i < g.N(60, 1500); i++ {
		genFlow(g, g.R.Fork(uint64(2000000+i)))
	}
	for i := 0; i < g.N(6000, 120000); i++ {
		genChk(g, g.R.Fork(uint64(i)))
	}
	for i := 0; i < g.N(300, 5000); i++ {
		genSanity(g, g.R.Fork(uint64(1000000+i)))
	}
}
