// Harness for C33: the real WithdrawFromSideChainTransaction.SpecialContextCheck
// (payload versions 0, 1, 2 and unknown), CheckTransactionPayload and
// blockchain.CheckDuplicateTx against the Lean model.
//
// The ledger is reached through blockchain.DefaultLedger: the harness installs
// an Arbitrators stub (arbitrary arbiter lists with IsNormal flags) and a Store
// stub answering IsSidechainTxHashDuplicate from the op line.  Arbiter key `a`
// is the real P-256 point a·G, so the Schnorr aggregate of a signer list is
// (Σ a)·G and the model's "sum of keys" is the real curve addition.
package main

import (
	"crypto/sha256"
	"fmt"
	"math/big"
	"os"
	"strconv"
	"strings"

	"elaverif/harness/hx"

	"github.com/elastos/Elastos.ELA/blockchain"
	"github.com/elastos/Elastos.ELA/common"
	"github.com/elastos/Elastos.ELA/common/config"
	"github.com/elastos/Elastos.ELA/core"
	"github.com/elastos/Elastos.ELA/core/contract"
	"github.com/elastos/Elastos.ELA/core/contract/program"
	transaction2 "github.com/elastos/Elastos.ELA/core/transaction"
	"github.com/elastos/Elastos.ELA/core/types"
	common2 "github.com/elastos/Elastos.ELA/core/types/common"
	"github.com/elastos/Elastos.ELA/core/types/functions"
	"github.com/elastos/Elastos.ELA/core/types/interfaces"
	"github.com/elastos/Elastos.ELA/core/types/outputpayload"
	"github.com/elastos/Elastos.ELA/core/types/payload"
	"github.com/elastos/Elastos.ELA/crypto"
	"github.com/elastos/Elastos.ELA/core/checkpoint"
	"github.com/elastos/Elastos.ELA/database"
	"github.com/elastos/Elastos.ELA/dpos/state"
	"github.com/elastos/Elastos.ELA/mempool"
)

func atoi(s string) int {
	v, err := strconv.Atoi(s)
	if err != nil {
		panic("harness: bad int " + s)
	}
	return v
}
func split(s, sep string) []string {
	if s == "-" || s == "" {
		return nil
	}
	return strings.Split(s, sep)
}
func field(t []string, name string) string {
	for _, x := range t {
		if strings.HasPrefix(x, name+"=") {
			return x[len(name)+1:]
		}
	}
	panic("harness: missing field " + name)
}
func ints(s string) []int {
	var r []int
	for _, x := range split(s, ",") {
		r = append(r, atoi(x))
	}
	return r
}

// ---------------------------------------------------------------- keys

var pointCache = map[int][]byte{}

func keyBytes(a int) []byte {
	if b, ok := pointCache[a]; ok {
		return b
	}
	x, y := crypto.Curve.ScalarBaseMult(big.NewInt(int64(a)).Bytes())
	pk := &crypto.PublicKey{X: x, Y: y}
	b, err := pk.EncodePoint(true)
	if err != nil {
		panic("harness: encode point: " + err.Error())
	}
	pointCache[a] = b
	return b
}

// hashSalt separates the side-chain hashes of one history op from those of every other op, so that all
// histories can share one chain store and still start from an empty index
var hashSalt string

func hashOf(id int) common.Uint256 {
	return common.Uint256(sha256.Sum256([]byte("sc" + hashSalt + strconv.Itoa(id))))
}

// ---------------------------------------------------------------- ledger stubs

type arb struct {
	key    int
	normal bool
}

type arbStub struct {
	state.Arbitrators
	arbs, crc, cross []arb
	cc, maj          int
}

func infos(l []arb) []*state.ArbiterInfo {
	r := make([]*state.ArbiterInfo, 0, len(l))
	for _, a := range l {
		r = append(r, &state.ArbiterInfo{NodePublicKey: keyBytes(a.key), IsNormal: a.normal})
	}
	return r
}
func (s *arbStub) GetArbitrators() []*state.ArbiterInfo        { return infos(s.arbs) }
func (s *arbStub) GetCRCArbiters() []*state.ArbiterInfo         { return infos(s.crc) }
func (s *arbStub) GetCrossChainArbiters() []*state.ArbiterInfo  { return infos(s.cross) }
func (s *arbStub) GetCrossChainArbitersCount() int              { return s.cc }
func (s *arbStub) GetCrossChainArbitersMajorityCount() int      { return s.maj }

type storeStub struct {
	blockchain.IChainStore
	withdrawn map[common.Uint256]bool
}

func (s *storeStub) IsSidechainTxHashDuplicate(h common.Uint256) bool { return s.withdrawn[h] }

func parseArbs(s string) []arb {
	var r []arb
	for _, x := range split(s, ",") {
		p := strings.Split(x, ":")
		r = append(r, arb{atoi(p[0]), p[1] == "1"})
	}
	return r
}

// ---------------------------------------------------------------- tx description

type prog struct {
	kind    string // M, S, X
	ok      bool
	m, n    int
	keys    []int
	sKey    int
}

type wtx struct {
	nonce  int
	pver   int
	ph, oh []int
	sg     []int
	refs   []int
	progs  []prog
}

func parseProgs(s string) []prog {
	var r []prog
	for _, x := range split(s, ";") {
		p := strings.Split(x, ":")
		switch p[0] {
		case "M":
			var keys []int
			for _, k := range split(p[4], "+") {
				keys = append(keys, atoi(k))
			}
			r = append(r, prog{kind: "M", ok: p[1] == "1", m: atoi(p[2]), n: atoi(p[3]), keys: keys})
		case "S":
			r = append(r, prog{kind: "S", sKey: atoi(p[1])})
		default:
			r = append(r, prog{kind: "X"})
		}
	}
	return r
}

func parseTx(t []string) *wtx {
	return &wtx{pver: atoi(field(t, "pver")), ph: ints(field(t, "ph")), oh: ints(field(t, "oh")), sg: ints(field(t, "sg")),
		refs: ints(field(t, "refs")), progs: parseProgs(field(t, "progs"))}
}

func (p prog) code() []byte {
	switch p.kind {
	case "M":
		c := []byte{byte(0x50 + p.m)}
		for _, k := range p.keys {
			c = append(c, 0x21)
			c = append(c, keyBytes(k)...)
		}
		if !p.ok {
			c = append(c, 0x00) // key area no longer a multiple of the key script length
		}
		c = append(c, byte(0x50+p.n), common.CROSSCHAIN)
		return c
	case "S":
		x, y := new(big.Int), new(big.Int) // key 0 = the empty aggregate, encoded and decoded as the code does
		if p.sKey > 0 {
			x, y = crypto.Curve.ScalarBaseMult(big.NewInt(int64(p.sKey)).Bytes())
		}
		pk, derr := crypto.DecodePoint(crypto.Marshal(crypto.Curve, x, y))
		if derr != nil {
			panic("harness: decode aggregate: " + derr.Error())
		}
		c, err := contract.CreateSchnorrRedeemScript(pk)
		if err != nil {
			panic("harness: schnorr script: " + err.Error())
		}
		return c
	}
	c := append([]byte{0x21}, keyBytes(1)...)
	return append(c, 0xac)
}

func (w *wtx) build() (*transaction2.WithdrawFromSideChainTransaction, map[*common2.Input]common2.Output) {
	pl := &payload.WithdrawFromSideChain{BlockHeight: 1, GenesisBlockAddress: "g"}
	for _, h := range w.ph {
		pl.SideChainTransactionHashes = append(pl.SideChainTransactionHashes, hashOf(h))
	}
	for _, s := range w.sg {
		pl.Signers = append(pl.Signers, uint8(s))
	}
	outputs := []*common2.Output{{AssetID: core.ELAAssetID, Value: 1, Type: common2.OTNone, Payload: &outputpayload.DefaultOutput{}}}
	for _, h := range w.oh {
		outputs = append(outputs, &common2.Output{AssetID: core.ELAAssetID, Value: 1, Type: common2.OTWithdrawFromSideChain,
			Payload: &outputpayload.Withdraw{GenesisBlockAddress: "g", SideChainTransactionHash: hashOf(h), TargetData: []byte{1}}})
	}
	refs := map[*common2.Input]common2.Output{}
	var inputs []*common2.Input
	for i, c := range w.refs {
		in := &common2.Input{Previous: common2.OutPoint{Index: uint16(i)}}
		inputs = append(inputs, in)
		var ph common.Uint168
		ph[0] = byte(contract.PrefixStandard)
		if c == 1 {
			ph[0] = byte(contract.PrefixCrossChain)
		}
		refs[in] = common2.Output{ProgramHash: ph, Value: 10}
	}
	var programs []*program.Program
	for _, p := range w.progs {
		programs = append(programs, &program.Program{Code: p.code(), Parameter: []byte{1}})
	}
	var attrs []*common2.Attribute
	if w.nonce != 0 {
		attrs = []*common2.Attribute{{Usage: common2.Nonce, Data: []byte(strconv.Itoa(w.nonce))}}
	}
	tx := functions.CreateTransaction(common2.TxVersion09, common2.WithdrawFromSideChain, byte(w.pver), pl, attrs, inputs, outputs, 0, programs)
	return tx.(*transaction2.WithdrawFromSideChainTransaction), refs
}

func errName(msg string) string {
	for _, p := range [][2]string{
		{"only support schnorr", "only-schnorr"}, {"Duplicate side chain transaction hash", "dup-hash"},
		{"Invalid transaction inputs address", "inputs"}, {"not a valid cross chain transaction code", "script"},
		{"not a valid transaction code", "script"}, {"invalid arbiters total count in code", "total"},
		{"invalid arbiters sign count in code", "sign"}, {"invalid multi sign script code", "multisig"},
		{"invalid cross chain arbitrators", "arbiters"}, {"invalid arbitrator count", "count"},
		{"Signers number must be bigger", "signers-count"}, {"invalid schnorr withdraw signer index", "signer-index"},
		{"duplicate schnorr withdraw signer index", "dup-signer"}, {"Invalid schnorr public key", "bad-key"},
		{"signers can not match", "mismatch"}, {"Invalid schnorr program code", "not-schnorr"}} {
		if strings.Contains(msg, p[0]) {
			return p[1]
		}
	}
	return "other:" + strings.ReplaceAll(msg, " ", "_")
}

var inited bool

func initOnce() {
	if inited {
		return
	}
	inited = true
	functions.GetTransactionByTxType = transaction2.GetTransaction
	functions.GetTransactionByBytes = transaction2.GetTransactionByBytes
	functions.CreateTransaction = transaction2.CreateTransaction
	functions.GetTransactionParameters = transaction2.GetTransactionparameters
	config.DefaultParams = *config.GetDefaultParams()
}

type ctx struct {
	height int
	cfg    []int
	arbs   *arbStub
	wd     map[int]bool
	tx     *wtx
}

var last *ctx

func exec(t []string) string {
	initOnce()
	last = nil
	switch t[0] {
	case "chk":
		h := atoi(t[1])
		cfgv := ints(field(t, "cfg"))
		w := parseTx(t)
		for _, p := range w.progs { // the parse flag in the op line is an oracle value: re-check it
			if p.kind == "M" {
				_, _, _, err := crypto.ParseCrossChainScriptV1(p.code())
				if (err == nil) != p.ok {
					return "parse-mismatch"
				}
			}
		}
		cfg := *config.GetDefaultParams()
		cfg.SchnorrStartHeight = uint32(cfgv[0])
		cfg.CRConfiguration.CRClaimDPOSNodeStartHeight = uint32(cfgv[1])
		cfg.DPoSConfiguration.DPOSNodeCrossChainHeight = uint32(cfgv[2])
		cfg.CrossChainUTXORestrictionHeight = uint32(cfgv[3])
		cfg.CRConfiguration.MemberCount = uint32(cfgv[4])
		cfg.DPoSConfiguration.NormalArbitratorsCount = cfgv[5]
		cfg.CRConfiguration.CRAgreementCount = uint32(cfgv[6])
		as := &arbStub{arbs: parseArbs(field(t, "arbs")), crc: parseArbs(field(t, "crc")), cross: parseArbs(field(t, "cross")),
			cc: atoi(field(t, "cc")), maj: atoi(field(t, "maj"))}
		st := &storeStub{withdrawn: map[common.Uint256]bool{}}
		wd := map[int]bool{}
		for _, x := range ints(field(t, "wd")) {
			st.withdrawn[hashOf(x)] = true
			wd[x] = true
		}
		blockchain.DefaultLedger = &blockchain.Ledger{Arbitrators: as, Store: st}
		tx, refs := w.build()
		last = &ctx{height: h, cfg: cfgv, arbs: as, wd: wd, tx: w}
		params := &transaction2.TransactionParameters{Transaction: tx, BlockHeight: uint32(h), Config: &cfg}
		err, _ := transaction2.VerifC33SpecialContextCheck(tx, params, refs)
		if err == nil {
			return "ok"
		}
		msg := err.Error()
		if err.InnerError() != nil {
			msg = err.InnerError().Error()
		}
		return "err " + errName(msg)
	case "maj":
		return execMaj(atoi(t[1]), atoi(t[2]))
	case "sig":
		return execSig(t)
	case "wflow":
		return execFlow(t)
	case "mp":
		return execPool(t)
	case "pay":
		w := parseTx(t)
		tx, _ := w.build()
		last = &ctx{tx: w}
		if err := tx.CheckTransactionPayload(); err != nil {
			return "err dup"
		}
		return "ok"
	case "blk":
		groups := strings.Split(strings.Join(t[1:], " "), " | ")
		var txs []interfaces.Transaction
		lastBlk = nil
		for _, g := range groups {
			w := parseTx(strings.Fields(g))
			tx, _ := w.build()
			txs = append(txs, tx)
			lastBlk = append(lastBlk, w)
		}
		if err := blockchain.CheckDuplicateTx(&types.Block{Transactions: txs}); err != nil {
			return "err dup"
		}
		return "ok"
	}
	panic("harness: unknown op " + t[0])
}

var lastBlk []*wtx

// ---------------------------------------------------------------- histories through the real processors

// realStore answers IsSidechainTxHashDuplicate from the real Tx3 index of a real ffldb, exactly as
// ChainStore.IsSidechainTxHashDuplicate does (GetFFLDB().IsTx3Exist).
type realStore struct {
	blockchain.IChainStore
	ffl *blockchain.ChainStoreFFLDB
}

func (s *realStore) IsSidechainTxHashDuplicate(h common.Uint256) bool {
	return s.IChainStore.IsSidechainTxHashDuplicate(h) // the real ChainStore method (→ ffldb IsTx3Exist)
}

var flowOnChain map[int]bool // oracle bookkeeping: hashes recorded by blocks still connected

func flowTx(spec string) *wtx {
	p := strings.Split(spec, ":")
	pver := atoi(p[0][1:])
	var hs []int
	for _, x := range split(p[1], "+") {
		hs = append(hs, atoi(x))
	}
	w := &wtx{pver: pver, refs: []int{1}}
	if pver == 0 {
		w.ph = hs
	} else {
		w.oh = hs
	}
	return w
}

func runProcessors(ffl *blockchain.ChainStoreFFLDB, ps []database.TXProcessor) {
	err := ffl.Update(func(dbTx database.Tx) error { // the loop of ChainStoreFFLDB.SaveBlock / RollbackBlock
		for _, p := range ps {
			if err := p(dbTx); err != nil {
				return err
			}
		}
		return nil
	})
	if err != nil {
		panic("harness: processors: " + err.Error())
	}
}

func probe(st *realStore, pver int, h int) bool {
	cfg := *config.GetDefaultParams()
	cfg.SchnorrStartHeight = 100
	cfg.CRConfiguration.CRClaimDPOSNodeStartHeight = 10
	cfg.DPoSConfiguration.DPOSNodeCrossChainHeight = 20
	cfg.CrossChainUTXORestrictionHeight = 30
	cfg.CRConfiguration.MemberCount = 2
	cfg.DPoSConfiguration.NormalArbitratorsCount = 2
	cfg.CRConfiguration.CRAgreementCount = 2
	two := []arb{{5, true}, {7, true}}
	var w *wtx
	height := 25
	as := &arbStub{arbs: two, cross: two, cc: 2, maj: 1}
	if pver == 1 {
		w = &wtx{pver: 1, oh: []int{h}, refs: []int{1}, progs: []prog{{kind: "M", ok: true, m: 3, n: 2, keys: []int{7, 5}}}}
	} else {
		height = 5
		as = &arbStub{cross: two, cc: 2, maj: 1}
		w = &wtx{pver: 0, ph: []int{h}, refs: []int{1}, progs: []prog{{kind: "M", ok: true, m: 2, n: 2, keys: []int{7, 5}}}}
	}
	blockchain.DefaultLedger = &blockchain.Ledger{Arbitrators: as, Store: st}
	tx, refs := w.build()
	params := &transaction2.TransactionParameters{Transaction: tx, BlockHeight: uint32(height), Config: &cfg}
	err, _ := transaction2.VerifC33SpecialContextCheck(tx, params, refs)
	if err == nil {
		return false
	}
	msg := err.Error()
	if err.InnerError() != nil {
		msg = err.InnerError().Error()
	}
	if errName(msg) != "dup-hash" {
		panic("harness: probe withdrawal refused for another reason: " + msg)
	}
	return true
}

func setStr(f func(int) bool) string {
	var xs []string
	for x := 1; x <= 8; x++ {
		if f(x) {
			xs = append(xs, strconv.Itoa(x))
		}
	}
	if len(xs) == 0 {
		return "-"
	}
	return strings.Join(xs, ",")
}

var (
	flowStore blockchain.IChainStore
	flowDir   string
	flowCount int
)

func closeFlowStore() {
	if flowStore != nil {
		flowStore.Close()
		os.RemoveAll(flowDir)
	}
}

func execFlow(t []string) string {
	if flowStore == nil {
		dir, err := os.MkdirTemp("", "c33-tx3-")
		if err != nil {
			panic("harness: " + err.Error())
		}
		// the real chain store (leveldb + ffldb): IsSidechainTxHashDuplicate below is ChainStore's own
		cs, err := blockchain.NewChainStore(dir, &config.DefaultParams)
		if err != nil {
			panic("harness: open chain store: " + err.Error())
		}
		flowStore, flowDir = cs, dir
	}
	cs := flowStore
	flowCount++
	hashSalt = "flow" + strconv.Itoa(flowCount) + ":"
	defer func() { hashSalt = "" }()
	ffl := cs.GetFFLDB().(*blockchain.ChainStoreFFLDB)
	var stack []*types.Block
	var stackW [][]*wtx
	for _, g := range strings.Split(strings.Join(t[1:], " "), " / ") {
		f := strings.Fields(g)
		switch f[0] {
		case "S":
			var txs []interfaces.Transaction
			var ws []*wtx
			for _, spec := range f[1:] {
				w := flowTx(spec)
				tx, _ := w.build()
				txs = append(txs, tx)
				ws = append(ws, w)
			}
			b := &types.Block{Transactions: txs}
			ps, err := blockchain.GetSaveProcessorsFromBlock(b)
			if err != nil {
				panic("harness: save processors: " + err.Error())
			}
			runProcessors(ffl, ps)
			stack = append(stack, b)
			stackW = append(stackW, ws)
		case "R":
			if len(stack) == 0 {
				continue
			}
			b := stack[len(stack)-1]
			stack, stackW = stack[:len(stack)-1], stackW[:len(stackW)-1]
			ps, err := blockchain.GetRollbackProcessorsFromBlock(b)
			if err != nil {
				panic("harness: rollback processors: " + err.Error())
			}
			runProcessors(ffl, ps)
		default:
			panic("harness: bad flow step " + f[0])
		}
	}
	flowOnChain = map[int]bool{}
	for _, ws := range stackW {
		for _, w := range ws {
			for _, x := range recorded(w) {
				flowOnChain[x] = true
			}
		}
	}
	rs := &realStore{IChainStore: cs, ffl: ffl}
	return fmt.Sprintf("dup=%s v1=%s v0=%s", setStr(func(x int) bool { return cs.IsSidechainTxHashDuplicate(hashOf(x)) }),
		setStr(func(x int) bool { return probe(rs, 1, x) }), setStr(func(x int) bool { return probe(rs, 0, x) }))
}

func ptr(h common.Uint256) *common.Uint256 { return &h }

// ---------------------------------------------------------------- the mempool slot for side-chain hashes

type emptyTxStore struct{}

func (emptyTxStore) GetTransaction(id common.Uint256) (interfaces.Transaction, uint32, error) {
	return nil, 0, fmt.Errorf("not found")
}

var poolHeld []*wtx

// execPool submits the withdrawals one after the other to the conflict manager of a real TxPool
// (VerifyTx, then AppendTx when accepted — what appendToTxPool does after the chain checks) and then asks
// TxPool.IsDuplicateSidechainTx for every hash.
func execPool(t []string) string {
	blockchain.DefaultLedger = &blockchain.Ledger{Blockchain: &blockchain.BlockChain{
		UTXOCache: blockchain.NewUTXOCache(emptyTxStore{}, &config.DefaultParams)}}
	pool := mempool.NewTxPool(&config.DefaultParams, checkpoint.NewManager(&config.DefaultParams))
	poolHeld = nil
	var acc []string
	for i, spec := range t[1:] {
		w := flowTx(spec)
		w.refs = nil // no inputs: the input slot has nothing to say
		w.nonce = i + 1
		tx, _ := w.build()
		if err := pool.VerifyTx(tx); err != nil {
			acc = append(acc, "0")
			continue
		}
		if err := pool.AppendTx(tx); err != nil {
			panic("harness: AppendTx after VerifyTx: " + err.Error())
		}
		acc = append(acc, "1")
		poolHeld = append(poolHeld, w)
	}
	return fmt.Sprintf("acc=%s dup=%s", strings.Join(acc, ","), setStr(func(x int) bool { return pool.IsDuplicateSidechainTx(hashOf(x)) }))
}

// ---------------------------------------------------------------- oracle

func recorded(w *wtx) []int {
	switch w.pver {
	case 0:
		return w.ph
	case 1, 2:
		return w.oh
	}
	return nil
}

func hasDup(xs []int) bool {
	m := map[int]bool{}
	for _, x := range xs {
		if m[x] {
			return true
		}
		m[x] = true
	}
	return false
}

func oracle(t []string, out string) *hx.Violation {
	bad := func(kind, detail string) *hx.Violation { return &hx.Violation{Kind: kind, Detail: detail} }
	if out != "ok" && t[0] != "wflow" && t[0] != "mp" && t[0] != "maj" {
		return nil
	}
	switch t[0] {
	case "maj":
		if d, ok := oracleMaj(out); !ok {
			return bad("withdraw-majority-count", d)
		}
	case "sig":
		if d, ok := oracleSig(t); !ok {
			return bad("withdraw-signers-below-quorum", d)
		}
	case "mp":
		seen := map[int]int{}
		for i, w := range poolHeld {
			for _, x := range recorded(w) {
				if j, ok := seen[x]; ok && j != i {
					return bad("withdraw-pool-reuse", fmt.Sprintf("two withdrawals held by the mempool both record side-chain hash %d", x))
				}
				seen[x] = i
			}
		}
		got := map[string]bool{}
		for _, x := range split(fieldOut(out, "dup"), ",") {
			got[x] = true
		}
		for x := range seen {
			if !got[strconv.Itoa(x)] {
				return bad("withdraw-pool-reuse", fmt.Sprintf("side-chain hash %d of a held withdrawal is not reported by IsDuplicateSidechainTx", x))
			}
		}
	case "wflow":
		for _, name := range []string{"dup", "v1", "v0"} {
			got := map[string]bool{}
			for _, x := range split(fieldOut(out, name), ",") {
				got[x] = true
			}
			for x := range flowOnChain {
				if !got[strconv.Itoa(x)] {
					what := "is not recorded in the Tx3 index"
					if name != "dup" {
						what = "is not refused in a new " + strings.ToUpper(name) + " withdrawal"
					}
					return bad("withdraw-reuse", fmt.Sprintf("side-chain hash %d of a connected withdrawal %s", x, what))
				}
			}
		}
	case "pay":
		if last.tx.pver == 0 && hasDup(last.tx.ph) {
			return bad("withdraw-duplicate-hash", "a V0 withdrawal naming a side-chain hash twice passes CheckTransactionPayload")
		}
		if hasDup(recorded(last.tx)) {
			return bad("withdraw-output-hash-duplicates", fmt.Sprintf("payload version %d withdrawal recording a side-chain hash twice passes CheckTransactionPayload", last.tx.pver))
		}
	case "blk":
		var all, payloadOnly []int
		for _, w := range lastBlk {
			all = append(all, recorded(w)...)
			if w.pver == 0 {
				payloadOnly = append(payloadOnly, w.ph...)
			}
		}
		if hasDup(payloadOnly) { // hashes kept in payloads ARE what CheckDuplicateTx looks at
			return bad("withdraw-duplicate-hash", "a block whose V0 withdrawals name one side-chain hash twice passes CheckDuplicateTx")
		}
		if hasDup(all) {
			return bad("withdraw-output-hash-duplicates", "a block whose withdrawals record one side-chain hash twice passes CheckDuplicateTx")
		}
	case "chk":
		c := last
		w := c.tx
		if w.pver > 2 {
			return bad("withdraw-unknown-version", fmt.Sprintf("payload version %d accepted without any check at height %d", w.pver, c.height))
		}
		for _, r := range w.refs {
			if r != 1 {
				return bad("withdraw-noncross-inputs", "accepted although an input is not a cross-chain UTXO")
			}
		}
		for _, x := range recorded(w) {
			if c.wd[x] {
				if w.pver == 2 {
					return bad("withdraw-reuse-v2", fmt.Sprintf("schnorr withdrawal of side-chain hash %d accepted although it is already withdrawn on the chain", x))
				}
				return bad("withdraw-reuse", fmt.Sprintf("withdrawal (payload version %d) of already withdrawn side-chain hash %d accepted", w.pver, x))
			}
		}
		if w.pver == 2 {
			mc := c.cfg[4]
			need := mc*2/3 + 1
			if c.height > c.cfg[1] && c.height < c.cfg[2] {
				need = mc * 2 / 3
			}
			sum := 0
			for _, s := range w.sg {
				if s >= len(c.arbs.cross) {
					return bad("withdraw-v2-quorum", "signer index names no arbiter")
				}
				sum += c.arbs.cross[s].key
			}
			if len(w.sg) < need {
				return bad("withdraw-v2-quorum", fmt.Sprintf("%d signers, %d required", len(w.sg), need))
			}
			if c.height >= c.cfg[3] && hasDup(w.sg) {
				return bad("withdraw-v2-quorum", "a signer index occurs twice at or above the restriction height")
			}
			for _, p := range w.progs {
				if p.kind != "S" || p.sKey != sum {
					return bad("withdraw-v2-quorum", "program is not the schnorr script of the signers' aggregate key")
				}
			}
		} else {
			for _, p := range w.progs {
				if p.kind != "M" {
					return bad("withdraw-v01-quorum", "program is not a cross-chain multisig script")
				}
				have := map[int]bool{}
				for _, k := range p.keys {
					have[k] = true
				}
				n := 0
				for _, a := range c.arbs.cross {
					if a.normal {
						n++
						if !have[a.key] {
							return bad("withdraw-v01-quorum", "a current cross-chain arbiter is missing from the script")
						}
					}
				}
				if n != len(p.keys) {
					return bad("withdraw-v01-quorum", "script key count differs from the arbiter count")
				}
				// the required number of signatures for the height
				if w.pver == 1 || c.height >= c.cfg[1] {
					src, min := c.arbs.crc, c.cfg[6]
					if c.height >= c.cfg[2] {
						src, min = c.arbs.arbs, c.cfg[5]+1
					}
					cnt := 0
					for _, a := range src {
						if a.normal {
							cnt++
						}
					}
					if p.n != cnt || p.m < min {
						return bad("withdraw-v01-quorum", fmt.Sprintf("script asks for %d of %d signatures, the height requires at least %d of %d", p.m, p.n, min, cnt))
					}
				} else if p.m < 1 || p.m > p.n || p.n != c.arbs.cc || p.m <= c.arbs.maj {
					return bad("withdraw-v01-quorum", fmt.Sprintf("script asks for %d of %d signatures, majority is %d of %d", p.m, p.n, c.arbs.maj, c.arbs.cc))
				}
			}
		}
	}
	return nil
}

func fieldOut(out, name string) string {
	for _, f := range strings.Fields(out) {
		if strings.HasPrefix(f, name+"=") {
			return f[len(name)+1:]
		}
	}
	return ""
}

func nontrivial(t []string, out string) bool { return true }

func bucket(t []string, out string) string {
	k := t[0]
	if t[0] == "wflow" || t[0] == "mp" || t[0] == "maj" {
		return k
	}
	if t[0] == "chk" {
		k += "/v" + field(t, "pver")
	}
	return k + "/" + out
}

func main() {
	defer closeFlowStore()
	hx.Main(&hx.Prop{Name: "C33", Gen: gen, Exec: exec, Oracle: oracle, Nontrivial: nontrivial, Bucket: bucket, Stateful: false})
}
