// C31 — cross-chain UTXO emergency policy.
//
// Streams
//
//	pol <ty> <ver> <h> <f> <r> <prefixes-hex>   real checkTransactionCrossChainUTXO on a transaction of that
//	                                            type / payload version whose referenced outputs carry the
//	                                            given program-hash prefixes (one byte each)
//	net <runes> <f> <r>                         real enforceCrossChainUTXORestrictionHeights on a configuration
//	                                            with ActiveNet = runes and the two heights preset to f, r
//	cfg <runes> <f|-> <r|->                     real Settings.SetupConfig on a config file carrying ActiveNet and
//	                                            (optionally) the two heights
//
// The `pol` stream is exhaustive over the finite abstraction (every buildable
// tx type x payload versions x prefix multisets of size <= 3 x heights around
// both thresholds x threshold configurations), not sampled.
package main

import (
	"encoding/json"
	"fmt"
	"math"
	"os"
	"path/filepath"
	"strconv"
	"strings"

	"elaverif/harness/hx"
	"elaverif/harness/pctx"

	"github.com/elastos/Elastos.ELA/common"
	"github.com/elastos/Elastos.ELA/common/config"
	"github.com/elastos/Elastos.ELA/common/config/settings"
	"github.com/elastos/Elastos.ELA/core/contract"
	"github.com/elastos/Elastos.ELA/core/transaction"
	common2 "github.com/elastos/Elastos.ELA/core/types/common"
)

// the coordinated constants as the property names them (deliberately NOT read
// from the config package: the oracle must notice if those change)
const (
	coordFreeze   = 2256110
	coordRestrict = 2256724
)

func u32(s string) uint32 {
	v, err := strconv.ParseUint(s, 10, 32)
	if err != nil {
		panic("harness: bad uint32 " + s)
	}
	return uint32(v)
}

func runes(s string) string {
	if s == "-" {
		return ""
	}
	var b strings.Builder
	for _, t := range strings.Split(s, ",") {
		v, err := strconv.ParseUint(t, 10, 32)
		if err != nil {
			panic("harness: bad rune " + t)
		}
		b.WriteRune(rune(v))
	}
	return b.String()
}

func fmtRunes(s string) string {
	if s == "" {
		return "-"
	}
	var parts []string
	for _, r := range s {
		parts = append(parts, strconv.Itoa(int(r)))
	}
	return strings.Join(parts, ",")
}

func classify(err error) string {
	if err == nil {
		return "ok"
	}
	m := err.Error()
	switch {
	case strings.Contains(m, "temporarily frozen"):
		return "err frozen"
	case strings.Contains(m, "unsupported WithdrawFromSideChain payload version"):
		return "err wver"
	case strings.Contains(m, "only WithdrawFromSideChain and ReturnSideChainDepositCoin"):
		return "err nottype"
	case strings.Contains(m, "only legacy ReturnSideChainDepositCoin"):
		return "err notlegacy"
	case strings.Contains(m, "ReturnSideChainDepositCoin can only spend"):
		return "err mixed"
	}
	return "err other:" + strings.ReplaceAll(m, " ", "_")
}

func refs(prefixes []byte) map[*common2.Input]common2.Output {
	m := map[*common2.Input]common2.Output{}
	for i, p := range prefixes {
		var ph common.Uint168
		ph[0] = p
		ph[1] = byte(i + 1)
		ph[20] = byte(0xA0 + i)
		in := &common2.Input{Previous: common2.OutPoint{Index: uint16(i)}}
		in.Previous.TxID[0] = byte(i + 1)
		m[in] = common2.Output{Value: common.Fixed64(1 + i), ProgramHash: ph}
	}
	return m
}

var cfgDir string
var cfgSeq int

func exec(t []string) string {
	switch t[0] {
	case "ctx", "ctxpow":
		return pctx.Exec(t)
	case "e2e":
		return pctx.E2E(t)
	case "pol":
		ty, ver := u32(t[1]), u32(t[2])
		txn, err := transaction.GetTransaction(common2.TxType(ty))
		if err != nil {
			return "err nobuild"
		}
		txn.SetTxType(common2.TxType(ty))
		txn.SetPayloadVersion(byte(ver))
		r := refs(hx.UnHex(t[6]))
		return classify(transaction.VerifCheckTransactionCrossChainUTXO(txn, r, u32(t[3]), u32(t[4]), u32(t[5])))
	case "net":
		c := config.GetDefaultParams()
		c.ActiveNet = runes(t[1])
		c.CrossChainUTXOFreezeHeight = u32(t[2])
		c.CrossChainUTXORestrictionHeight = u32(t[3])
		settings.VerifEnforceCrossChainUTXORestrictionHeights(c)
		return fmt.Sprintf("%d %d", c.CrossChainUTXOFreezeHeight, c.CrossChainUTXORestrictionHeight)
	case "cfg":
		if cfgDir == "" {
			d, err := os.MkdirTemp("", "c31cfg")
			if err != nil {
				panic("harness: " + err.Error())
			}
			cfgDir = d
		}
		inner := map[string]interface{}{"ActiveNet": runes(t[1])}
		if t[2] != "-" {
			inner["CrossChainUTXOFreezeHeight"] = u32(t[2])
		}
		if t[3] != "-" {
			inner["CrossChainUTXORestrictionHeight"] = u32(t[3])
		}
		b, _ := json.Marshal(map[string]interface{}{"Configuration": inner})
		cfgSeq++
		p := filepath.Join(cfgDir, fmt.Sprintf("config%d.json", cfgSeq%4))
		if err := os.WriteFile(p, b, 0o600); err != nil {
			panic("harness: " + err.Error())
		}
		config.DefaultParams = *config.GetDefaultParams()
		config.DefaultParams.Conf = p
		c := settings.NewSettings().SetupConfig(false, "", "")
		return fmt.Sprintf("%d %d", c.CrossChainUTXOFreezeHeight, c.CrossChainUTXORestrictionHeight)
	}
	panic("harness: unknown op " + t[0])
}

// ---------------------------------------------------------------- oracle (from the property text only)

func oracle(t []string, out string) *hx.Violation {
	switch t[0] {
	case "ctx", "ctxpow":
		return pctx.Oracle(t, out)
	case "e2e":
		return pctx.E2EOracle(t, out)
	case "pol":
		ty, ver, h, f, r := u32(t[1]), u32(t[2]), u32(t[3]), u32(t[4]), u32(t[5])
		ps := hx.UnHex(t[6])
		hasCC, allCC := false, true
		for _, p := range ps {
			if contract.PrefixType(p) == contract.PrefixCrossChain {
				hasCC = true
			} else {
				allCC = false
			}
		}
		if !hasCC || out != "ok" || f > r {
			return nil
		}
		if f <= h && h < r {
			return &hx.Violation{Kind: "cc-spend-accepted-in-freeze-window",
				Detail: fmt.Sprintf("tx type %#x version %d spending a CrossChain UTXO accepted at height %d in [%d,%d)", ty, ver, h, f, r)}
		}
		if h >= r {
			allowed := (common2.TxType(ty) == common2.WithdrawFromSideChain && ver <= 2) ||
				(common2.TxType(ty) == common2.ReturnSideChainDepositCoin && ver == 0 && allCC)
			if !allowed {
				return &hx.Violation{Kind: "cc-spend-accepted-after-restriction",
					Detail: fmt.Sprintf("tx type %#x version %d (all inputs cross-chain: %v) accepted at height %d >= restriction height %d", ty, ver, allCC, h, r)}
			}
		}
	case "net", "cfg":
		name := strings.ToLower(runes(t[1]))
		main := name == "" || name == "mainnet" || name == "main"
		if main && out != fmt.Sprintf("%d %d", coordFreeze, coordRestrict) {
			return &hx.Violation{Kind: "mainnet-heights-not-coordinated",
				Detail: "ActiveNet " + strconv.Quote(runes(t[1])) + " configured with heights " + out}
		}
		if !main && out != fmt.Sprintf("%d %d", uint32(math.MaxUint32), uint32(math.MaxUint32)) {
			return &hx.Violation{Kind: "other-net-policy-enabled",
				Detail: "ActiveNet " + strconv.Quote(runes(t[1])) + " configured with heights " + out}
		}
	}
	return nil
}

// ---------------------------------------------------------------- generator

func buildable() []int {
	var res []int
	for i := 0; i < 256; i++ {
		if txn, err := transaction.GetTransaction(common2.TxType(i)); err == nil && txn != nil {
			res = append(res, i)
		}
	}
	return res
}

// multisets of size <= 3 over {cross-chain, standard, multisig}, plus a few others
func prefixMixes() []string {
	syms := []byte{byte(contract.PrefixCrossChain), byte(contract.PrefixStandard), byte(contract.PrefixMultiSig)}
	res := []string{"-"}
	for a := 0; a < 3; a++ {
		res = append(res, hx.Hex([]byte{syms[a]}))
		for b := a; b < 3; b++ {
			res = append(res, hx.Hex([]byte{syms[a], syms[b]}))
			for c := b; c < 3; c++ {
				res = append(res, hx.Hex([]byte{syms[a], syms[b], syms[c]}))
			}
		}
	}
	// order variants and other prefixes next to a cross-chain one
	res = append(res, "214b", "124b21", "1f4b", "4b3f", "4b67", "4a", "4c4b", "004b", "ff")
	return res
}

func gen(g *hx.Gen) {
	pctx.Gen(g) // the real ContextCheck on an in-process node
	pctx.Close()
	pctx.E2EGen(g, false) // mempool admission, block validation and the RPC path on fresh nodes
	types := buildable()
	mixes := prefixMixes()
	vers := []int{0, 1, 2, 3, 4, 255}
	type fr struct{ f, r uint32 }
	frs := []fr{{100, 200}, {coordFreeze, coordRestrict}}
	if !g.Quick() {
		frs = append(frs, fr{100, 100}, fr{200, 100}, fr{0, 0}, fr{0, 1}, fr{math.MaxUint32, math.MaxUint32}, fr{math.MaxUint32 - 1, math.MaxUint32})
	}
	around := func(x fr) []uint32 {
		hs := map[uint32]bool{}
		for _, b := range []uint32{x.f, x.r} {
			for _, d := range []int64{-1, 0, 1} {
				v := int64(b) + d
				if v >= 0 && v <= math.MaxUint32 {
					hs[uint32(v)] = true
				}
			}
		}
		var res []uint32
		for _, b := range []uint32{x.f - 1, x.f, x.f + 1, x.r - 1, x.r, x.r + 1} {
			if hs[b] {
				res = append(res, b)
				delete(hs, b)
			}
		}
		return res
	}
	for _, x := range frs {
		hs := around(x)
		for _, ty := range types {
			for _, ver := range vers {
				for _, m := range mixes {
					for _, h := range hs {
						g.Emit("pol %d %d %d %d %d %s", ty, ver, h, x.f, x.r, m)
					}
				}
			}
		}
	}
	// remaining threshold configurations on the two bridge types + two ordinary ones (quick tier)
	if g.Quick() {
		for _, x := range []fr{{100, 100}, {200, 100}, {0, 0}, {0, 1}, {math.MaxUint32, math.MaxUint32}, {math.MaxUint32 - 1, math.MaxUint32}} {
			for _, ty := range []int{int(common2.WithdrawFromSideChain), int(common2.ReturnSideChainDepositCoin), int(common2.TransferAsset), int(common2.TransferCrossChainAsset)} {
				for _, ver := range vers {
					for _, m := range mixes {
						for _, h := range around(x) {
							g.Emit("pol %d %d %d %d %d %s", ty, ver, h, x.f, x.r, m)
						}
					}
				}
			}
		}
	}
	// random: any buildable type, any version byte, random prefix strings, random heights
	n := g.N(20000, 400000)
	for i := 0; i < n; i++ {
		ty := types[g.R.Intn(len(types))]
		if g.R.Chance(50) {
			ty = g.R.Pick(int(common2.WithdrawFromSideChain), int(common2.ReturnSideChainDepositCoin))
		}
		ver := g.R.Intn(256)
		if g.R.Chance(70) {
			ver = g.R.Intn(4)
		}
		k := g.R.Intn(6)
		ps := make([]byte, k)
		for j := range ps {
			switch g.R.Intn(4) {
			case 0, 1:
				ps[j] = byte(contract.PrefixCrossChain)
			case 2:
				ps[j] = byte(contract.PrefixStandard)
			default:
				ps[j] = g.R.Byte()
			}
		}
		f, r := uint32(g.R.Intn(1000)), uint32(g.R.Intn(1000))
		h := uint32(g.R.Intn(1000))
		if g.R.Chance(30) {
			h = []uint32{f, r, f - 1, r - 1, f + 1, r + 1}[g.R.Intn(6)]
		}
		g.Emit("pol %d %d %d %d %d %s", ty, ver, h, f, r, hx.Hex(ps))
	}

	// ---- configuration
	names := []string{"", "mainnet", "MainNet", "MAINNET", "main", "Main", "MAIN", "mAiN", "testnet", "test", "TestNet", "TEST",
		"regnet", "regtest", "reg", "RegNet", "private-net", "mainnet ", " main", "mainnet2", "mainn", "mai", "m", "net",
		"maİn", "maİnnet", "MAİNNET", "maın", "Kain", "mäin", "main\u0000", "ｍａｉｎ", "testnetİ"}
	hv := []string{"-", "0", "5", strconv.Itoa(coordFreeze), strconv.Itoa(coordRestrict), "4294967295"}
	for _, nm := range names {
		for _, f := range hv {
			for _, r := range hv {
				if g.Quick() && (f != "-" && r != "-" && f != "0" && r != "5" && f != r) {
					continue
				}
				g.Emit("cfg %s %s %s", fmtRunes(nm), f, r)
			}
		}
		for _, f := range []string{"0", "7", "4294967295"} {
			g.Emit("net %s %s %s", fmtRunes(nm), f, "9")
		}
	}
	// every rune in place of the 'i' / as a suffix: does any other rune lower-case into a mainnet name?
	limit := 0x3000
	if !g.Quick() {
		limit = 0x110000
	}
	for r := 0; r < limit; r++ {
		if r >= 0xD800 && r < 0xE000 {
			continue
		}
		g.Emit("net %s 0 0", fmtRunes("ma"+string(rune(r))+"n"))
		if r < 0x250 || !g.Quick() {
			g.Emit("net %s 1 2", fmtRunes(string(rune(r))+"ainnet"))
			g.Emit("net %s 1 2", fmtRunes("main"+string(rune(r))))
		}
	}
	for i := 0; i < g.N(3000, 30000); i++ {
		base := []rune(names[g.R.Intn(8)])
		for j := range base {
			if g.R.Chance(40) && base[j] >= 'a' && base[j] <= 'z' {
				base[j] -= 32
			}
		}
		if g.R.Chance(20) && len(base) > 0 {
			base[g.R.Intn(len(base))] = rune(g.R.Intn(0x250))
		}
		g.Emit("net %s %d %d", fmtRunes(string(base)), g.R.Intn(5), g.R.Intn(5))
	}
	if cfgDir != "" {
		os.RemoveAll(cfgDir)
	}
}

func nontrivial(t []string, out string) bool {
	switch t[0] {
	case "pol":
		// the policy actually had to decide something: a cross-chain input at or after the freeze height
		return strings.Contains(t[6], "4b") && u32(t[3]) >= u32(t[4])
	}
	return true
}

func bucket(t []string, out string) string {
	if t[0] == "ctx" || t[0] == "ctxpow" || t[0] == "e2e" {
		f := strings.Fields(out)
		if len(f) >= 2 {
			return t[0] + "/" + f[0] + " " + f[1]
		}
		return t[0] + "/" + out
	}
	if t[0] == "pol" {
		return "pol/" + out
	}
	if strings.HasPrefix(out, strconv.Itoa(coordFreeze)) {
		return t[0] + "/mainnet-constants"
	}
	return t[0] + "/disabled"
}

func main() {
	hx.Main(&hx.Prop{Name: "C31", Gen: gen, Exec: exec, Oracle: oracle, Nontrivial: nontrivial, Bucket: bucket})
}
