// Harness for C08: partial merkle trees of elanet/bloom.
//
// ops
//
//	build <txids> <matchbits>                     MBlock.TraverseAndBuild + the packing loop of NewMerkleBlock
//	roundtrip <txids> <matchbits>                 build, then the real CheckMerkleBlock against the true root
//	branchrt <txids> <matchbits> <i>              build, then the real GetTxMerkleBranch for transaction i
//	check <n> <root> <flags> <hashes> [<txids>]   real CheckMerkleBlock on an arbitrary message
//	spec  <n> <root> <flags> <hashes> [<txids>]   same real call; the driver answers with the recursive specification
//	branch <n> <root> <flags> <hashes> <txid>     real GetTxMerkleBranch on an arbitrary message
package main

import (
	"bytes"
	"crypto/sha256"
	"encoding/hex"
	"fmt"
	"strconv"
	"strings"
	"sync"

	"elaverif/harness/hx"

	"github.com/elastos/Elastos.ELA/auxpow"
	"github.com/elastos/Elastos.ELA/common"
	"github.com/elastos/Elastos.ELA/common/config"
	transaction2 "github.com/elastos/Elastos.ELA/core/transaction"
	"github.com/elastos/Elastos.ELA/core/types"
	common2 "github.com/elastos/Elastos.ELA/core/types/common"
	"github.com/elastos/Elastos.ELA/core/types/functions"
	"github.com/elastos/Elastos.ELA/core/types/interfaces"
	"github.com/elastos/Elastos.ELA/crypto"
	"github.com/elastos/Elastos.ELA/elanet/bloom"
	"github.com/elastos/Elastos.ELA/elanet/filter"
	"github.com/elastos/Elastos.ELA/p2p/msg"
)

// the two-transaction block of test/unit/blockvalidator_test.go: source of real transactions
const fixtureBlockHex = "000000007b3a8b2032301d0f9fafadee3bddba8d798a3ce1ed1574063ae3bb55628cec763a45dffe0f38d9efb5" +
	"0a41dbe6b7f4186ba9b4861ad624fdde6e1e775a81b0d3687f4c5add01561d000000001027000001000000010000000000000" +
	"000000000000000000000000000000000000000000000000000000000002cfabe6d6d6d126217acca4ed3b3aa40de6d1dad67" +
	"61a7bba4ebdb67c88714455cea580084010000000000000000000000000000000000000000000000000000000000000000000" +
	"0000000000000000000000000000000000000000000000000ffffff7f00000000000000000000000000000000000000000000" +
	"000000000000000000009fba1be4874f22da581831eb1a5243e53b51e57f3021222943a6a2919d19c19d687f4c5a000000001" +
	"28c95000102000000000403454c4101000847cfc35085f3aec001000000000000000000000000000000000000000000000000" +
	"0000000000000000ffffffffffff02b037db964a231458d2d6ffd5ea18944c4f90e63d547c5d3b9874df66a4ead0a3b54afb0" +
	"80000000000000000129e9cf1c5f336fcf3a6c954444ed482c5d916e506b037db964a231458d2d6ffd5ea18944c4f90e63d54" +
	"7c5d3b9874df66a4ead0a3a803f5140000000000000000129e9cf1c5f336fcf3a6c954444ed482c5d916e5061027000000020" +
	"000016c3a8d6db4d3b4ccad1712a29c5e90e2e7bc26c603995fc18a37c85a5420ad445600ffffffff02b037db964a231458d2" +
	"d6ffd5ea18944c4f90e63d547c5d3b9874df66a4ead0a3047823a7170100000000000021190ff3b12919c17f232db55431832" +
	"2a6b43ba372b037db964a231458d2d6ffd5ea18944c4f90e63d547c5d3b9874df66a4ead0a300b864d9450000000000000021" +
	"fa402bfaecabefacb6379c08edb5224fd95e25f700000000014140c72db63b7fdf90b8bf34e91f0a6394e25d1340f178a1776" +
	"bdc344fecf8ced8e4db627fb9ffa7068c51d3d15b92a749ffa407e2593833ec836d4cdaae1062abe52321035e1529938d1a36" +
	"bef97806557bdb4faec8c83a8fc557c1afb287b07bd923c589ac"


var (
	txOnce sync.Once
	trTmpl interfaces.Transaction
	fixHdr common2.Header
)

func initTx() {
	txOnce.Do(func() {
		functions.GetTransactionByTxType = transaction2.GetTransaction
		functions.GetTransactionByBytes = transaction2.GetTransactionByBytes
		functions.CreateTransaction = transaction2.CreateTransaction
		functions.GetTransactionParameters = transaction2.GetTransactionparameters
		config.DefaultParams = *config.GetDefaultParams()
		var b types.Block
		if err := b.Deserialize(bytes.NewReader(hx.UnHex(fixtureBlockHex))); err != nil {
			panic("harness: fixture block: " + err.Error())
		}
		trTmpl = b.Transactions[1]
		fixHdr = b.Header
	})
}

func decodeTx(raw []byte) interfaces.Transaction {
	r := bytes.NewReader(raw)
	n, err := functions.GetTransactionByBytes(r)
	if err != nil {
		panic("harness: " + err.Error())
	}
	if err := n.Deserialize(r); err != nil {
		panic("harness: " + err.Error())
	}
	return n
}

func encodeTx(tx interfaces.Transaction) []byte {
	buf := new(bytes.Buffer)
	if err := tx.Serialize(buf); err != nil {
		panic("harness: " + err.Error())
	}
	return buf.Bytes()
}

func freshTx(r *hx.Rand) []byte {
	initTx()
	tx := decodeTx(encodeTx(trTmpl))
	var id common.Uint256
	copy(id[:], r.Bytes(32))
	tx.SetInputs([]*common2.Input{{Previous: common2.OutPoint{TxID: id, Index: uint16(r.Intn(4))}}})
	tx.SetLockTime(uint32(r.Intn(100000)))
	return encodeTx(tx)
}

// real bloom.NewMerkleBlock over real transactions and a real bloom filter
func doNMB(t []string) string {
	initTx()
	var txs []interfaces.Transaction
	for _, h := range strings.Split(t[1], ",") {
		txs = append(txs, decodeTx(hx.UnHex(h)))
	}
	elements, _ := strconv.ParseUint(t[2], 10, 32)
	tweak, _ := strconv.ParseUint(t[3], 10, 32)
	ppm, _ := strconv.ParseUint(t[4], 10, 32)
	f := bloom.NewFilter(uint32(elements), uint32(tweak), float64(ppm)/1e6)
	if len(t[5]) != len(txs) {
		panic("harness: bad nmb op")
	}
	ids := make([]*common.Uint256, len(txs))
	for i, tx := range txs {
		h := tx.Hash()
		ids[i] = &h
		if t[5][i] == '1' {
			f.AddHash(&h)
		}
	}
	blk := &types.Block{Header: fixHdr, Transactions: txs}
	m, matched := bloom.NewMerkleBlock(blk, f)
	served := ""
	// the path the server takes (elanet/server.go): filter.Filter of type FTBloom loaded from the wire form of
	// the same bloom filter, filter.NewMerkleBlock over the block's transactions
	{
		f0 := bloom.NewFilter(uint32(elements), uint32(tweak), float64(ppm)/1e6)
		lb := new(bytes.Buffer)
		if err := f0.GetFilterLoadMsg().Serialize(lb); err != nil {
			panic("harness: filterload: " + err.Error())
		}
		sf := filter.New(func(typ uint8) filter.TxFilter {
			if typ == filter.FTBloom {
				return bloom.NewTxFilter()
			}
			return nil
		})
		if err := sf.Load(&msg.TxFilterLoad{Type: filter.FTBloom, Data: lb.Bytes()}); err != nil {
			return "server-path: " + err.Error()
		}
		for i := range txs {
			if t[5][i] == '1' {
				if err := sf.Add(ids[i][:]); err != nil {
					return "server-path: " + err.Error()
				}
			}
		}
		m2, matched2 := filter.NewMerkleBlock(txs, sf)
		// what the light client recovers from the SERVED block: through the wire, against the block's root
		root, _ := crypto.ComputeRoot(derefs(ids))
		m2.Header = &common2.Header{MerkleRoot: root}
		got, werr := wireTrip(*m2)
		rec := werr
		if werr == "" {
			rec = strings.ReplaceAll(doCheck(got), " ", ":")
		}
		want := []*common.Uint256{}
		for _, k := range matched {
			want = append(want, ids[k])
		}
		served = fmt.Sprintf("%d %s %s", m2.Transactions, hx.Hex(m2.Flags), catHex(m2.Hashes))
		if rec == strings.ReplaceAll("ok "+catHex(want), " ", ":") && fmt.Sprint(matched2) == fmt.Sprint(matched) {
			served += " rec=ok"
		} else {
			served += " rec=" + rec
		}
	}
	bits := make([]byte, len(txs))
	for i := range bits {
		bits[i] = '0'
	}
	for _, i := range matched {
		bits[i] = '1'
	}
	if catHex(ids) != t[6] || string(bits) != t[7] {
		return "oracle-mismatch " + catHex(ids) + " " + string(bits)
	}
	if own := fmt.Sprintf("%d %s %s", m.Transactions, hx.Hex(m.Flags), catHex(m.Hashes)); !strings.HasPrefix(served, own+" ") {
		served += " bloom-copy:" + strings.ReplaceAll(own, " ", ":")
	}
	return served
}

func hashes(s string) []*common.Uint256 {
	b := hx.UnHex(s)
	if len(b)%32 != 0 {
		panic("harness: hash list not a multiple of 32 bytes")
	}
	out := make([]*common.Uint256, len(b)/32)
	for i := range out {
		var h common.Uint256
		copy(h[:], b[32*i:])
		out[i] = &h
	}
	return out
}
func hash1(s string) common.Uint256 {
	h := hashes(s)
	if len(h) != 1 {
		panic("harness: expected one hash")
	}
	return *h[0]
}
func catHex(hs []*common.Uint256) string {
	b := make([]byte, 0, 32*len(hs))
	for _, h := range hs {
		b = append(b, h[:]...)
	}
	return hx.Hex(b)
}
func catHexV(hs []common.Uint256) string {
	b := make([]byte, 0, 32*len(hs))
	for _, h := range hs {
		b = append(b, h[:]...)
	}
	return hx.Hex(b)
}

// buildBlock runs the real MBlock code the way NewMerkleBlock does.
func buildBlock(txs []*common.Uint256, bits string) (msg.MerkleBlock, common.Uint256) {
	if len(txs) != len(bits) || len(txs) == 0 {
		panic("harness: bad build op")
	}
	n := uint32(len(txs))
	mb := bloom.MBlock{NumTx: n, AllHashes: txs, MatchedBits: make([]byte, 0, n)}
	for _, c := range bits {
		if c == '1' {
			mb.MatchedBits = append(mb.MatchedBits, 1)
		} else {
			mb.MatchedBits = append(mb.MatchedBits, 0)
		}
	}
	height := uint32(0)
	for mb.CalcTreeWidth(height) > 1 {
		height++
	}
	mb.TraverseAndBuild(height, 0)
	root := *mb.CalcHash(height, 0)
	m := msg.MerkleBlock{
		Header:       &common2.Header{MerkleRoot: root},
		Transactions: n,
		Hashes:       make([]*common.Uint256, 0, len(mb.FinalHashes)),
		Flags:        make([]byte, (len(mb.Bits)+7)/8),
	}
	for _, h := range mb.FinalHashes {
		m.Hashes = append(m.Hashes, h)
	}
	for i := uint32(0); i < uint32(len(mb.Bits)); i++ {
		m.Flags[i/8] |= mb.Bits[i] << (i % 8)
	}
	return m, root
}

// wireTrip sends the merkle block through msg.MerkleBlock.Serialize / Deserialize, the way the node
// serves it and the light client receives it.
func wireTrip(m msg.MerkleBlock) (msg.MerkleBlock, string) {
	buf := new(bytes.Buffer)
	if err := m.Serialize(buf); err != nil {
		return m, "unserializable"
	}
	dec := msg.NewMerkleBlock(&common2.Header{})
	if err := dec.Deserialize(bytes.NewReader(buf.Bytes())); err != nil {
		return m, "undecodable"
	}
	return *dec, ""
}

func derefs(hs []*common.Uint256) []common.Uint256 {
	out := make([]common.Uint256, len(hs))
	for i, h := range hs {
		out[i] = *h
	}
	return out
}

func classify(err error) string {
	m := err.Error()
	switch {
	case strings.HasPrefix(m, "No transactions"):
		return "err no-tx"
	case strings.HasPrefix(m, "No flag bits"):
		return "err no-flags"
	case strings.HasPrefix(m, "Too many transactions"):
		return "err too-many"
	case strings.HasPrefix(m, "computed root"):
		return "err root-mismatch"
	case strings.HasPrefix(m, "DUP HASH"):
		return "err dup"
	case strings.HasPrefix(m, "Left child is nil"):
		return "err left-nil"
	case strings.HasPrefix(m, "Ran out of hashes"):
		return "err no-hashes"
	case strings.HasPrefix(m, "Ran out of flag bits"), strings.HasPrefix(m, "Ran out of bits"):
		return "err no-bits"
	case strings.HasPrefix(m, "got into an invalid txid node"):
		return "err invalid-leaf"
	case strings.HasPrefix(m, "tx index not found"):
		return "err tx-not-found"
	case strings.HasPrefix(m, "merkle node "):
		return "err node-missing"
	}
	return "err other:" + m
}

func message(t []string) msg.MerkleBlock {
	n, err := strconv.ParseUint(t[1], 10, 32)
	if err != nil {
		panic("harness: bad count")
	}
	return msg.MerkleBlock{
		Header:       &common2.Header{MerkleRoot: hash1(t[2])},
		Transactions: uint32(n),
		Hashes:       hashes(t[4]),
		Flags:        hx.UnHex(t[3]),
	}
}

// doCheck runs elanet/bloom.CheckMerkleBlock and its copy elanet/filter.CheckMerkleBlock (the package the
// server builds merkle blocks with); both must give the same answer.
func doCheck(m msg.MerkleBlock) string {
	one := func(f func(msg.MerkleBlock) ([]*common.Uint256, error), m msg.MerkleBlock) (out string) {
		defer func() {
			if e := recover(); e != nil {
				out = "panic"
			}
		}()
		m.Hashes = append([]*common.Uint256{}, m.Hashes...)
		m.Flags = append([]byte{}, m.Flags...)
		ids, err := f(m)
		if err != nil {
			return classify(err)
		}
		return "ok " + catHex(ids)
	}
	a, b := one(bloom.CheckMerkleBlock, m), one(filter.CheckMerkleBlock, m)
	if a != b {
		return "copies-differ bloom=" + strings.ReplaceAll(a, " ", ":") + " filter=" + strings.ReplaceAll(b, " ", ":")
	}
	return a
}

func doBranch(m msg.MerkleBlock, txid common.Uint256) string {
	mb, err := bloom.GetTxMerkleBranch(m, &txid)
	if err != nil {
		return classify(err)
	}
	// the branch is evaluated by the real auxpow.GetMerkleRoot (anchor "branch evaluation")
	ev := auxpow.GetMerkleRoot(txid, mb.Branches, mb.Index)
	return fmt.Sprintf("ok %d %s eval=%s", mb.Index, catHexV(mb.Branches), hex.EncodeToString(ev[:]))
}

func exec(t []string) string {
	switch t[0] {
	case "build":
		m, root := buildBlock(hashes(t[1]), t[2])
		return fmt.Sprintf("%d %s %s %s", m.Transactions, hex.EncodeToString(root[:]), hx.Hex(m.Flags), catHex(m.Hashes))
	case "roundtrip":
		m, _ := buildBlock(hashes(t[1]), t[2])
		m, werr := wireTrip(m)
		if werr != "" {
			return werr
		}
		return doCheck(m)
	case "branchrt":
		txs := hashes(t[1])
		m, _ := buildBlock(txs, t[2])
		m, werr := wireTrip(m)
		if werr != "" {
			return werr
		}
		i, err := strconv.Atoi(t[3])
		if err != nil || i < 0 || i >= len(txs) {
			panic("harness: bad index")
		}
		return doBranch(m, *txs[i])
	case "check", "spec", "padded":
		return doCheck(message(t))
	case "branch":
		return doBranch(message(t), hash1(t[5]))
	case "nmb":
		return doNMB(t)
	}
	panic("harness: unknown op " + t[0])
}

// ---------------------------------------------------------------- reference definitions (oracle)

func sha256d(b []byte) []byte {
	a := sha256.Sum256(b)
	c := sha256.Sum256(a[:])
	return c[:]
}

func refRoot(hs []*common.Uint256) []byte {
	level := make([][]byte, len(hs))
	for i := range hs {
		level[i] = append([]byte{}, hs[i][:]...)
	}
	for len(level) > 1 {
		var next [][]byte
		for i := 0; i < len(level); i += 2 {
			l, r := level[i], level[i]
			if i+1 < len(level) {
				r = level[i+1]
			}
			next = append(next, sha256d(append(append([]byte{}, l...), r...)))
		}
		level = next
	}
	return level[0]
}

func refFold(leaf []byte, branch []*common.Uint256, idx int) []byte {
	h := append([]byte{}, leaf...)
	for _, s := range branch {
		if idx%2 == 1 {
			h = sha256d(append(append([]byte{}, s[:]...), h...))
		} else {
			h = sha256d(append(append([]byte{}, h...), s[:]...))
		}
		idx /= 2
	}
	return h
}

func matchedIDs(txs []*common.Uint256, bits string) string {
	var out []*common.Uint256
	for i, c := range bits {
		if c == '1' {
			out = append(out, txs[i])
		}
	}
	return catHex(out)
}

// The oracle judges the implementation against the property statement:
//   roundtrip: the light client recovers exactly the matched transactions, in order;
//   build:     the root served is the block's merkle root (reference definition);
//   branchrt:  for a matched transaction the branch recomputes the block's merkle root;
//   check:     an accepted message (against the true root, honest count) yields only ids of the block.
func oracle(t []string, out string) *hx.Violation {
	if strings.HasPrefix(out, "copies-differ ") {
		// elanet/bloom and elanet/filter answer differently: judge each answer on its own
		for _, part := range strings.Fields(out)[1:] {
			if k := strings.Index(part, "="); k > 0 {
				if v := oracle(t, strings.ReplaceAll(part[k+1:], ":", " ")); v != nil {
					v.Detail = part[:k] + ": " + v.Detail
					return v
				}
			}
		}
		return nil
	}
	switch t[0] {
	case "build":
		txs := hashes(t[1])
		f := strings.Fields(out)
		if len(f) < 2 || f[1] != hex.EncodeToString(refRoot(txs)) {
			return &hx.Violation{Kind: "build-root", Detail: "CalcHash(height,0) is not the merkle root of the transaction ids"}
		}
	case "roundtrip":
		txs := hashes(t[1])
		want := "ok " + matchedIDs(txs, t[2])
		if out != want {
			return &hx.Violation{Kind: "roundtrip", Detail: "CheckMerkleBlock(NewMerkleBlock(…)) does not return exactly the matched transactions"}
		}
	case "branchrt":
		txs := hashes(t[1])
		i, _ := strconv.Atoi(t[3])
		if t[2][i] != '1' {
			return nil // the property speaks about matched transactions
		}
		f := strings.Fields(out)
		if len(f) != 4 || f[0] != "ok" {
			return &hx.Violation{Kind: "branch-missing", Detail: "no branch for a matched transaction"}
		}
		idx, _ := strconv.Atoi(f[1])
		if hex.EncodeToString(refFold(txs[i][:], hashes(f[2]), idx)) != hex.EncodeToString(refRoot(txs)) {
			return &hx.Violation{Kind: "branch-root", Detail: "branch of a matched transaction does not recompute the merkle root"}
		}
		if f[3] != "eval="+hex.EncodeToString(refRoot(txs)) {
			return &hx.Violation{Kind: "branch-eval", Detail: "auxpow.GetMerkleRoot does not evaluate the branch of a matched transaction to the block's merkle root"}
		}
	case "nmb":
		if !strings.HasSuffix(out, " rec=ok") && !strings.HasPrefix(out, "oracle-mismatch") {
			return &hx.Violation{Kind: "served-block-not-recoverable", Detail: "from the merkle block the server path (elanet/filter.NewMerkleBlock, through the wire) builds, the light client does not recover exactly the matched transactions: " + out[strings.LastIndex(out, " ")+1:]}
		}
		// no false negatives of the filter step (what was added is matched)
		for i := range t[5] {
			if t[5][i] == '1' && t[7][i] != '1' {
				return &hx.Violation{Kind: "nmb-false-negative", Detail: "a transaction whose id was added to the filter is not matched"}
			}
		}
	case "padded":
		// CVE-2012-2459 shape: the message is built over the block's list padded with a copy of its
		// tail (same merkle root); the last token is the TRUE list. Whatever is accepted against the
		// true root must be a duplicate-free, in-order selection of the block's transactions.
		if !strings.HasPrefix(out, "ok") {
			return nil
		}
		txs := hashes(t[5])
		f := strings.Fields(out)
		k := 0
		if len(f) > 1 {
			for _, id := range hashes(f[1]) {
				for k < len(txs) && *txs[k] != *id {
					k++
				}
				if k == len(txs) {
					return &hx.Violation{Kind: "padded-forgery", Detail: "a merkle block over the tail-padded transaction list verified against the block's root and returned a transaction twice / out of the block"}
				}
				k++
			}
		}
	case "check", "spec":
		if len(t) < 6 || t[5] == "-" || !strings.HasPrefix(out, "ok") {
			return nil
		}
		txs := hashes(t[5])
		if strconv.Itoa(len(txs)) != t[1] || hex.EncodeToString(refRoot(txs)) != t[2] {
			return nil // dishonest count or foreign root: outside the soundness statement
		}
		in := map[common.Uint256]bool{}
		for _, x := range txs {
			in[*x] = true
		}
		f := strings.Fields(out)
		if len(f) > 1 {
			for _, id := range hashes(f[1]) {
				if !in[*id] {
					return &hx.Violation{Kind: "unsound-id", Detail: "verification succeeded against the block's root but returned an id that is not in the block"}
				}
			}
		}
	}
	return nil
}

// ---------------------------------------------------------------- generation

func randTxs(r *hx.Rand, n int) string { return hx.Hex(r.Bytes(32 * n)) }

func bitsOf(v uint64, n int) string {
	b := make([]byte, n)
	for i := range b {
		b[i] = '0' + byte(v>>uint(i)&1)
	}
	return string(b)
}

func randBits(r *hx.Rand, n int) string {
	b := make([]byte, n)
	mode := r.Intn(6)
	for i := range b {
		var one bool
		switch mode {
		case 0:
			one = false
		case 1:
			one = true
		case 2:
			one = r.Chance(5)
		case 3:
			one = r.Chance(90)
		default:
			one = r.Bool()
		}
		if one {
			b[i] = '1'
		} else {
			b[i] = '0'
		}
	}
	if mode == 2 && n > 0 {
		b[r.Intn(n)] = '1'
		if r.Bool() {
			b[n-1] = '1' // the last transaction: dead-zone path
		}
	}
	return string(b)
}

func emitAll(g *hx.Gen, txs, bits string) {
	r := g.R
	n := len(bits)
	g.Emit("build %s %s", txs, bits)
	g.Emit("roundtrip %s %s", txs, bits)
	// branches: all matched (bounded), some unmatched
	cnt := 0
	for i := 0; i < n; i++ {
		if bits[i] == '1' && (n <= 16 || cnt < 3 || (!g.Quick() && r.Chance(5))) {
			g.Emit("branchrt %s %s %d", txs, bits, i)
			cnt++
		}
	}
	if n <= 8 || r.Chance(20) {
		g.Emit("branchrt %s %s %d", txs, bits, r.Intn(n))
	}
}

func corruptions(g *hx.Gen, txs, bits string, all bool) {
	r := g.R
	m, root := buildBlock(hashes(txs), bits)
	n := len(bits)
	rootHex := hex.EncodeToString(root[:])
	flags := append([]byte{}, m.Flags...)
	hs := []byte{}
	for _, h := range m.Hashes {
		hs = append(hs, h[:]...)
	}
	txsTok := txs
	if n > 64 {
		txsTok = "-" // keep the op lines small; the soundness oracle then skips these
	}
	emit := func(op string, n int, root string, fl, hh []byte) {
		g.Emit("%s %d %s %s %s %s", op, n, root, hx.Hex(fl), hx.Hex(hh), txsTok)
	}
	// for big trees only a bounded sample of the single-bit corruptions
	pFlag, pHash := 30, 30
	if !all {
		if k := 8 * len(m.Flags); k > 40 {
			pFlag = 4000 / k
		}
		if k := len(m.Hashes); k > 40 {
			pHash = 4000 / k
		}
	}
	emit("check", n, rootHex, flags, hs)
	emit("spec", n, rootHex, flags, hs)
	// every single-bit corruption of the flags
	for i := 0; i < 8*len(flags); i++ {
		if !all && r.Intn(100) >= pFlag {
			continue
		}
		f := append([]byte{}, flags...)
		f[i/8] ^= 1 << uint(i%8)
		op := "check"
		if r.Chance(30) {
			op = "spec"
		}
		emit(op, n, rootHex, f, hs)
	}
	// single-bit corruptions of the hashes (every hash once, every bit position over time)
	for i := 0; i < len(hs)/32; i++ {
		if !all && r.Intn(100) >= pHash {
			continue
		}
		h := append([]byte{}, hs...)
		h[32*i+r.Intn(32)] ^= 1 << uint(r.Intn(8))
		emit("check", n, rootHex, h2f(flags), h)
	}
	// structural damage: drop / duplicate / append a hash, drop / add flag bytes, wrong count, wrong root
	if len(hs) >= 32 {
		k := r.Intn(len(hs) / 32)
		emit("check", n, rootHex, flags, append(append([]byte{}, hs[:32*k]...), hs[32*k+32:]...))
		emit("spec", n, rootHex, flags, append(append([]byte{}, hs[:32*k]...), hs[32*k+32:]...))
		emit("check", n, rootHex, flags, append(append([]byte{}, hs[:32*k+32]...), hs[32*k:]...)) // duplicate: DUP HASH
		emit("spec", n, rootHex, flags, append(append([]byte{}, hs[:32*k+32]...), hs[32*k:]...))
		emit("check", n, rootHex, flags, append(append([]byte{}, hs...), r.Bytes(32)...)) // trailing hash is ignored
		emit("check", n, rootHex, flags, hs[:len(hs)-32])
	}
	emit("check", n, rootHex, flags[:len(flags)-1], hs)
	emit("spec", n, rootHex, flags[:len(flags)-1], hs)
	emit("check", n, rootHex, append(append([]byte{}, flags...), byte(r.U64())), hs)
	emit("check", n, rootHex, nil, hs)
	emit("check", n, rootHex, flags, nil)
	for _, d := range []int{-1, 1, n, 3 * n} {
		if n+d >= 0 {
			emit("check", n+d, rootHex, flags, hs)
			emit("spec", n+d, rootHex, flags, hs)
		}
	}
	emit("check", 0, rootHex, flags, hs)
	if all || r.Chance(10) { // counts around pact.MaxTxPerBlock and where uint32 arithmetic would wrap or never end
		for _, c := range []int{10000, 10001, 1 << 30, 1<<30 + 1, 1 << 31, 1<<31 + 1, 1<<32 - 1} {
			emit("check", c, rootHex, flags, hs)
		}
		g.Emit("branch %d %s %s %s %s", 1<<31+1, rootHex, hx.Hex(flags), hx.Hex(hs), hex.EncodeToString(hashes(txs)[0][:]))
	}
	bad := append([]byte{}, root[:]...)
	bad[r.Intn(32)] ^= 1
	emit("check", n, hex.EncodeToString(bad), flags, hs)
	// random flags over the true hashes
	for k := 0; k < 3; k++ {
		emit("check", n, rootHex, r.Bytes(len(flags)), hs)
		emit("spec", n, rootHex, r.Bytes(len(flags)), hs)
	}
	// branch extraction on damaged messages (distinct hashes only: map iteration order must not matter)
	if len(hs) >= 32 {
		txid := hashes(txs)[r.Intn(n)]
		f := append([]byte{}, flags...)
		f[r.Intn(len(f))] ^= 1 << uint(r.Intn(8))
		g.Emit("branch %d %s %s %s %s", n, rootHex, hx.Hex(f), hx.Hex(hs), hex.EncodeToString(txid[:]))
		g.Emit("branch %d %s %s %s %s", n, rootHex, hx.Hex(flags), hx.Hex(hs), hx.Hex(r.Bytes(32))) // unknown txid
	}
}

func h2f(b []byte) []byte { return b }

func genNMB(g *hx.Gen) {
	r := g.R
	for k := 0; k < g.N(60, 600); k++ {
		n := 1 + r.Intn(20)
		if r.Chance(15) {
			n = 1 + r.Intn(70)
		}
		raws := make([]string, n)
		for i := range raws {
			raws[i] = hex.EncodeToString(freshTx(r))
		}
		added := randBits(r, n)
		elements := 1 + r.Intn(50)
		tweak := uint32(r.U64())
		if r.Chance(10) {
			tweak = 0
		}
		ppm := r.Pick(1, 100, 10000, 200000)
		op := fmt.Sprintf("nmb %s %d %d %d %s", strings.Join(raws, ","), elements, tweak, ppm, added)
		// first run tells the ids and what the filter matched; they travel in the op line and are re-checked
		out := exec(append(strings.Fields(op), "-", "-"))
		f := strings.Fields(out)
		if len(f) != 3 || f[0] != "oracle-mismatch" {
			g.Emit("%s - -", op) // the implementation already fails in the probe; let the stream show it
			continue
		}
		g.Emit("%s %s %s", op, f[1], f[2])
	}
}

// merkle blocks over a tail-padded list: equal sibling hashes must be refused by VALUE
func genPadded(g *hx.Gen) {
	r := g.R
	for k := 0; k < g.N(60, 600); k++ {
		var n, dup int
		switch r.Intn(3) {
		case 0: // odd count: repeat the last transaction
			n, dup = 3+2*r.Intn(20), 1
		case 1: // 2 mod 4: repeat the last pair
			n, dup = 6+4*r.Intn(10), 2
		default: // 4 mod 8: repeat the last four
			n, dup = 12+8*r.Intn(5), 4
		}
		txs := r.Bytes(32 * n)
		padded := append(append([]byte{}, txs...), txs[32*(n-dup):]...)
		bits := []byte(randBits(r, n+dup))
		if r.Chance(70) { // the interesting case: both copies are (or sit under) matched nodes
			bits[n-1], bits[n+dup-1] = '1', '1'
		}
		m, root := buildBlock(hashes(hx.Hex(padded)), string(bits))
		hs := []byte{}
		for _, h := range m.Hashes {
			hs = append(hs, h[:]...)
		}
		g.Emit("padded %d %s %s %s %s", n+dup, hex.EncodeToString(root[:]), hx.Hex(m.Flags), hx.Hex(hs), hx.Hex(txs))
	}
}

func gen(g *hx.Gen) {
	r := g.R
	genNMB(g)
	genPadded(g)
	// exhaustive match patterns for small n
	maxEx := g.N(6, 10)
	for n := 1; n <= maxEx; n++ {
		txs := randTxs(r, n)
		for v := uint64(0); v < 1<<uint(n); v++ {
			bits := bitsOf(v, n)
			g.Emit("roundtrip %s %s", txs, bits)
			if n <= 5 || v%7 == 0 {
				g.Emit("build %s %s", txs, bits)
			}
			for i := 0; i < n; i++ {
				if bits[i] == '1' && (n <= 5 || r.Chance(10)) {
					g.Emit("branchrt %s %s %d", txs, bits, i)
				}
			}
			if n <= 4 {
				corruptions(g, txs, bits, true)
			}
		}
	}
	// all tx counts 1..33 (and beyond) with random patterns
	for n := 1; n <= g.N(40, 100); n++ {
		txs := randTxs(r, n)
		for k := 0; k < g.N(3, 8); k++ {
			bits := randBits(r, n)
			emitAll(g, txs, bits)
			if k == 0 {
				corruptions(g, txs, bits, n <= 12)
			}
		}
	}
	for k := 0; k < g.N(8, 60); k++ {
		n := 1 + r.Intn(g.N(300, 2000))
		if r.Chance(30) {
			n = r.Pick(255, 256, 257, 511, 512, 513, 1023, 1024, 1025)
		}
		txs := randTxs(r, n)
		bits := randBits(r, n)
		emitAll(g, txs, bits)
		if r.Chance(30) {
			corruptions(g, txs, bits, false)
		}
	}
}

func nontrivial(t []string, out string) bool { return true }

func bucket(t []string, out string) string {
	f := strings.Fields(out)
	cls := "value"
	if len(f) > 0 && (f[0] == "ok" || f[0] == "panic") {
		cls = f[0]
	} else if len(f) > 1 && f[0] == "err" {
		cls = "err " + f[1]
	}
	return t[0] + "/" + cls
}

func main() {
	hx.Main(&hx.Prop{Name: "C08", Gen: gen, Exec: exec, Oracle: oracle, Nontrivial: nontrivial, Bucket: bucket})
}
