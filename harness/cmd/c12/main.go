// Harness for C12: the node follows the most-work valid chain — random block trees delivered in
// any order to the real BlockChain.ProcessBlock (regnet: equal work per block, so most work =
// highest), with invalid blocks injected into heavier branches, against the Lean chain-selection
// model (lean/ElaVerif/Model/Node.lean). Line protocol: harness/regnet/sim.go.
package main

import (
	"fmt"
	"math/big"
	"strconv"
	"strings"

	"elaverif/harness/hx"
	"elaverif/harness/regnet"

	"github.com/elastos/Elastos.ELA/blockchain"
	"github.com/elastos/Elastos.ELA/common"
	"github.com/elastos/Elastos.ELA/core/types"
)

var sim = &regnet.Sim{Name: "c12", Maturity: 2}
var pending *hx.Violation

// harness-side knowledge of the delivered tree, for the oracle only
var delivered map[common.Uint256]*types.Block
var failedSwitch bool

var everActive = map[common.Uint256]bool{}

func coinbaseOK(b *types.Block) bool { return !sim.IsBad(b) }

// validWork: cumulative work (Σ CalcWork(bits), genesis excluded) of the chain ending in b if b and all
// its ancestors were delivered and are not bad blocks (regnet.Sim.IsBad: the only way the generator
// makes a block invalid), else nil.
func validWork(b *types.Block) *big.Int {
	sum := new(big.Int)
	for cur := b; ; {
		if cur.Hash() == sim.N.Genesis.Hash() {
			return sum
		}
		if !coinbaseOK(cur) {
			return nil
		}
		sum.Add(sum, blockchain.CalcWork(cur.Bits))
		if cur.Header.Previous == sim.N.Genesis.Hash() {
			return sum
		}
		p, ok := delivered[cur.Header.Previous]
		if !ok {
			return nil
		}
		cur = p
	}
}

func exec(t []string) string {
	pending = nil
	switch t[0] {
	case "reset":
		delivered = map[common.Uint256]*types.Block{}
		everActive = map[common.Uint256]bool{}
		failedSwitch = false
		return sim.Exec(t)
	case "deliver", "deliverw":
		before, _ := sim.N.Tip()
		out := sim.Exec(t)
		spec := t[1:]
		if t[0] == "deliverw" {
			spec = t[3:]
		}
		bs, _ := regnet.ParseBlock(spec)
		blk := sim.N.ByID(bs.ID)
		_, seenBefore := delivered[blk.Hash()]
		delivered[blk.Hash()] = blk
		after, ah := sim.N.Tip()
		for _, h := range sim.N.ActiveChain() {
			everActive[h] = true
		}
		// (1) the active chain is valid
		for _, h := range sim.N.ActiveChain()[1:] {
			if b := sim.N.Block(h); b != nil && !coinbaseOK(b) {
				pending = &hx.Violation{Kind: "invalid-block-on-active-chain", Detail: regnet.ID(h)}
				return out
			}
		}
		// (2) a failed switch leaves the node on its previous chain
		if strings.HasPrefix(out, "err") && after != before {
			failedSwitch = true
			pending = &hx.Violation{Kind: "failed-switch-left-partial-chain",
				Detail: fmt.Sprintf("ProcessBlock returned an error (%s) but the tip moved from %s to %s (height %d)", sim.LastErr, regnet.ID(before), regnet.ID(after), ah)}
			return out
		}
		// (4) a new block that makes a fully valid chain the unique heaviest one is adopted — also after a failed
		// switch (this is how the node gets off the stump the known finding leaves it on)
		if !seenBefore && !strings.HasPrefix(out, "orphan") {
			if w := validWork(blk); w != nil {
				unique := true
				for _, b := range delivered {
					if b.Hash() == blk.Hash() {
						continue
					}
					if w2 := validWork(b); w2 != nil && w2.Cmp(w) >= 0 {
						unique = false
						break
					}
				}
				if unique {
					if after != blk.Hash() {
						pending = &hx.Violation{Kind: "heaviest-valid-block-not-adopted",
							Detail: fmt.Sprintf("block %s (height %d, work %v) makes its valid chain the heaviest known, reply %q, tip %s at height %d", regnet.ID(blk.Hash()), blk.Height, w, out, regnet.ID(after), ah)}
						return out
					}
					failedSwitch = false
				}
			}
		}
		// (3) no known valid chain carries more work (not judged after a failed switch: consequence of (2))
		if !failedSwitch {
			tipWork := new(big.Int)
			if tb := sim.N.Block(after); tb != nil && after != sim.N.Genesis.Hash() {
				if w := validWork(tb); w != nil {
					tipWork = w
				}
			}
			for _, b := range delivered {
				if w := validWork(b); w != nil && w.Cmp(tipWork) > 0 {
					pending = &hx.Violation{Kind: "higher-work-valid-chain-known",
						Detail: fmt.Sprintf("valid block %s at height %d with cumulative work %v, tip height %d with work %v", regnet.ID(b.Hash()), b.Height, w, ah, tipWork)}
					return out
				}
			}
		}
		return out
	}
	if t[0] == "restart" {
		out := sim.Exec(t)
		// the side-chain block cache is memory only: after a restart the node knows the blocks that were
		// connected at some time (their rows stay in the store when they are disconnected)
		for h := range delivered {
			if !everActive[h] {
				delete(delivered, h)
			}
		}
		return out
	}
	return sim.Exec(t)
}

func oracle(t []string, out string) *hx.Violation { return pending }

func nontrivial(t []string, out string) bool {
	return strings.HasPrefix(t[0], "deliver") && (strings.HasPrefix(out, "side") || strings.HasPrefix(out, "orphan") || strings.HasPrefix(out, "err"))
}

func gen(g *hx.Gen) {
	witness(g)
	witnessWork(g)
	nh := g.N(40, 300)
	for i := 0; i < nh; i++ {
		tree(g, i)
	}
	sim.Close()
}

// witness is the shape of `C12_failed_switch_false`: main chain a1 a2; branch b1 (valid), b2 (fails
// its context check), b3 — delivering b3 starts the switch, which stops after b1.
func witness(g *hx.Gen) {
	h := &regnet.HistGen{S: sim, R: g.R, Emit: g.Emit}
	h.Start()
	trunk := &regnet.Branch{}
	for i := 0; i < 2; i++ {
		b := h.Block(trunk, nil, regnet.MineOpts{Miner: 1})
		trunk = regnet.Extend(trunk, b)
		h.Deliver(b)
	}
	br := &regnet.Branch{}
	b1 := h.Block(br, nil, regnet.MineOpts{Miner: 2})
	br = regnet.Extend(br, b1)
	b2 := h.BadBlock(br)
	br = regnet.Extend(br, b2)
	b3 := h.Block(br, nil, regnet.MineOpts{Miner: 2})
	for _, b := range []*types.Block{b1, b2, b3} {
		h.Deliver(b)
	}
	h.Emit("obs c h")
}

// witnessWork is the "most work, not longest" scenario (retargeting regnet: a difficulty retarget every
// 10 blocks): trunk t1..t7, branch X = 3 quick blocks (x10 is harder), branch Y = a long pause and then
// 6 blocks (y10.. are four times easier). Y is longer but lighter: the node must stay on X until
// y14 makes Y heavier.
func witnessWork(g *hx.Gen) {
	sim.Retarget = true
	defer func() { sim.Retarget = false }()
	h := &regnet.HistGen{S: sim, R: g.R, Emit: g.Emit}
	h.Start()
	trunk := &regnet.Branch{}
	for i := 0; i < 7; i++ {
		b := h.Block(trunk, nil, regnet.MineOpts{Miner: 1})
		trunk = regnet.Extend(trunk, b)
		h.Deliver(b)
	}
	x := trunk
	for i := 0; i < 3; i++ {
		b := h.Block(x, nil, regnet.MineOpts{Miner: 2})
		x = regnet.Extend(x, b)
		h.Deliver(b)
	}
	y := trunk
	for i := 0; i < 7; i++ {
		if i == 0 {
			h.Pause = 1000
		}
		b := h.Block(y, nil, regnet.MineOpts{Miner: 3})
		y = regnet.Extend(y, b)
		h.Deliver(b)
	}
	h.Emit("obs c h")
}

// tree builds a random block tree (≤ 30 blocks, forks ≤ 6 deep), optionally with one invalid block in
// the branch that ends up heaviest, and delivers it in a random order.
func tree(g *hx.Gen, idx int) {
	r := g.R
	sim.Retarget = r.Chance(35)
	defer func() { sim.Retarget = false }()
	h := &regnet.HistGen{S: sim, R: r, Emit: g.Emit}
	h.Start()
	type node struct {
		br  *regnet.Branch
		blk *types.Block
	}
	// main trunk first, delivered in order, so that later branches compete with a real chain
	trunk := &regnet.Branch{}
	var order []*types.Block
	tl := 2 + r.Intn(6)
	if sim.Retarget {
		tl = 5 + r.Intn(12) // long enough to cross a retarget boundary
	}
	for i := 0; i < tl; i++ {
		b := h.HonestBlock(trunk, 2)
		trunk = regnet.Extend(trunk, b)
		order = append(order, b)
	}
	for _, b := range order {
		h.Deliver(b)
	}
	h.Observe(false, 6)
	branches := 1 + r.Intn(3)
	for k := 0; k < branches; k++ {
		// a node restart rebuilds the block index from the stored chain (initChainState / LoadBlockNode): the
		// cumulative work of the reloaded nodes decides the next comparisons. Sometimes a stale, lighter fork
		// off an old ancestor follows at once: the node has to stay where it is.
		if !sim.Retarget && len(trunk.Blocks) >= 3 && r.Chance(22) {
			if th, _ := sim.N.Tip(); th == sim.BranchTip(trunk).Hash() {
				g.Emit("restart")
				if r.Chance(60) {
					back := 2 + r.Intn(len(trunk.Blocks)-2)
					sbr := regnet.Fork(trunk, len(trunk.Blocks)-back)
					for i := 0; i < 1+r.Intn(back-1); i++ {
						b := h.HonestBlock(sbr, 1)
						sbr = regnet.Extend(sbr, b)
						h.Deliver(b)
					}
					h.Observe(false, 4)
				}
			}
		}
		depth := 1 + r.Intn(6)
		if depth > len(trunk.Blocks) {
			depth = len(trunk.Blocks)
		}
		br := regnet.Fork(trunk, len(trunk.Blocks)-depth)
		if sim.Retarget && r.Chance(60) {
			h.Pause = uint32(r.Pick(5, 30, 200, 1000)) // the branch starts after a pause: its retarget differs
		}
		extra := r.Intn(3) // 0: equal work, >0: heavier
		if sim.Retarget {
			extra = r.Intn(6)
		}
		length := depth + extra
		bad := -1
		if extra > 0 && r.Chance(55) {
			bad = r.Intn(length)
		}
		var blks []*types.Block
		for i := 0; i < length; i++ {
			var b *types.Block
			if i == bad {
				b = h.BadBlock(br)
			} else {
				b = h.HonestBlock(br, 2)
			}
			br = regnet.Extend(br, b)
			blks = append(blks, b)
		}
		idxs := make([]int, len(blks))
		for i := range idxs {
			idxs[i] = i
		}
		if r.Chance(40) {
			for i := len(idxs) - 1; i > 0; i-- {
				j := r.Intn(i + 1)
				idxs[i], idxs[j] = idxs[j], idxs[i]
			}
		}
		for _, i := range idxs {
			rep, _ := h.Deliver(blks[i])
			h.Observe(false, 4)
			_ = rep
		}
		if r.Chance(20) { // the same block again
			h.Deliver(blks[r.Intn(len(blks))])
		}
		// after a failed switch (the node is neither on the trunk nor on the branch) the old chain grows by a
		// block: the node has to come back to it
		if th, _ := sim.N.Tip(); th != sim.BranchTip(trunk).Hash() && th != sim.BranchTip(br).Hash() && r.Chance(75) {
			b := h.HonestBlock(trunk, 1)
			trunk = regnet.Extend(trunk, b)
			h.Deliver(b)
			h.Observe(false, 4)
		}
		// grow the trunk a little between branches when the node is still on it
		tipHash, _ := sim.N.Tip()
		if tipHash == sim.BranchTip(trunk).Hash() && r.Chance(60) {
			b := h.HonestBlock(trunk, 2)
			trunk = regnet.Extend(trunk, b)
			h.Deliver(b)
		} else if tipHash == sim.BranchTip(br).Hash() {
			stale := trunk
			trunk = br
			// the node has switched: the old chain is now a detached branch. Sometimes the node restarts here (the
			// block index is rebuilt from the store) and the stale branch then grows past the active chain.
			if !sim.Retarget && len(stale.Blocks) >= 2 && r.Chance(45) {
				g.Emit("restart")
				need := len(trunk.Blocks) - len(stale.Blocks) + 1 + r.Intn(2)
				if need < 1 {
					need = 1
				}
				for i := 0; i < need; i++ {
					b := h.HonestBlock(stale, 1)
					stale = regnet.Extend(stale, b)
					h.Deliver(b)
					h.Observe(false, 4)
				}
				if th, _ := sim.N.Tip(); th == sim.BranchTip(stale).Hash() {
					trunk = stale
				}
			}
		}
	}
	// orphan siblings: a withheld parent with 2–3 children (each with a tail) delivered first; the
	// longest tail must become the tip once the parent arrives
	if r.Chance(60) {
		tipHash, _ := sim.N.Tip()
		base := trunk
		if tipHash != sim.BranchTip(trunk).Hash() {
			base = nil // the node is not on the chain the generator tracks (failed switch): skip
		}
		if base != nil {
			parent := h.HonestBlock(base, 1)
			pbr := regnet.Extend(base, parent)
			kids := 2 + r.Intn(2)
			var waiting []*types.Block
			for k := 0; k < kids; k++ {
				cbr := pbr
				for t := 0; t <= k+r.Intn(2); t++ {
					b := h.HonestBlock(cbr, 1)
					cbr = regnet.Extend(cbr, b)
					waiting = append(waiting, b)
				}
			}
			// children first, in a random order; then the parent
			for i := len(waiting) - 1; i > 0; i-- {
				j := r.Intn(i + 1)
				waiting[i], waiting[j] = waiting[j], waiting[i]
			}
			for _, b := range waiting {
				h.Deliver(b)
			}
			h.Deliver(parent)
			h.Observe(false, 4)
		}
	}
	h.Emit("obs c h")
	_ = strconv.Itoa
}

func main() {
	hx.Main(&hx.Prop{Name: "C12", Gen: gen, Exec: exec, Oracle: oracle, Nontrivial: nontrivial, Stateful: true,
		Bucket: func(t []string, out string) string {
			if t[0] == "obs" {
				return "obs"
			}
			return t[0] + "/" + strings.Fields(out)[0]
		}})
}
