// Harness for C07: merkle root computation and the transaction part of CheckBlockSanity.
//
// ops
//
//	root <hex of n*32 bytes | ->                       real crypto.ComputeRoot
//	sanity <blockhex> <pre> <size> <special> <hdrRoot> <tx>...   real BlockChain.CheckBlockSanity
//	mine <k>
//	    a regnet node with k (0/1) transfers in its transaction pool assembles its own block with the real
//	    pow.Service.GenerateBlock; the block object and its wire copy are judged by CheckBlockSanity.
//	pool <goodBlockHex> <mutation> <pre> <size> <special> <hdrRoot> <tx>...
//	    a real mempool.BlockPool on the fixture chain: the accepted block is pooled without confirm
//	    (AppendDposBlock), then the same header with a mutated transaction list arrives together with
//	    a signed confirm; the tokens after <mutation> describe the second block as in `sanity`.
//	orphan <depth> <k> <mutation> <pre> <size> <special> <hdrRoot> <tx>...
//	    a regnet node (harness/regnet) mines genesis → b1 … b<depth>; the LAST block, with its
//	    transaction list mutated under the unchanged header, is delivered FIRST through the real
//	    BlockChain.ProcessBlock (its parent is unknown), then b1 … b<depth-1>. The tokens after
//	    <mutation> describe the delivered block as in `sanity`.
//	    <tx> = id,cb,sane,in1;in2;…   (oracle values recomputed and re-checked by Exec)
package main

import (
	"bytes"
	"crypto/sha256"
	"encoding/binary"
	"encoding/hex"
	"fmt"
	"math/big"
	"os"
	"strings"
	"sync"
	"time"

	"elaverif/harness/hx"
	"elaverif/harness/regnet"

	"github.com/elastos/Elastos.ELA/auxpow"
	"github.com/elastos/Elastos.ELA/blockchain"
	"github.com/elastos/Elastos.ELA/common"
	"github.com/elastos/Elastos.ELA/common/config"
	"github.com/elastos/Elastos.ELA/core"
	"github.com/elastos/Elastos.ELA/core/checkpoint"
	transaction2 "github.com/elastos/Elastos.ELA/core/transaction"
	"github.com/elastos/Elastos.ELA/core/types"
	common2 "github.com/elastos/Elastos.ELA/core/types/common"
	"github.com/elastos/Elastos.ELA/core/types/functions"
	"github.com/elastos/Elastos.ELA/core/types/interfaces"
	"github.com/elastos/Elastos.ELA/core/types/outputpayload"
	"github.com/elastos/Elastos.ELA/core/types/payload"
	"github.com/elastos/Elastos.ELA/crypto"
	"github.com/elastos/Elastos.ELA/dpos/state"
	"github.com/elastos/Elastos.ELA/elanet/pact"
	"github.com/elastos/Elastos.ELA/mempool"
)

// the accepted two-transaction block used by test/unit/blockvalidator_test.go
const fixtureBlockHex = "000000007b3a8b2032301d0f9fafadee3bddba8d798a3ce1ed1574063ae3bb55628cec763a45dffe0f38d9efb5" +
	"0a41dbe6b7f4186ba9b4861ad624fdde6e1e775a81b0d3687f4c5add01561d000000001027000001000000010000000000000" +
	"000000000000000000000000000000000000000000000000000000000002cfabe6d6d6d126217acca4ed3b3aa40de6d1dad67" +
	"61a7bba4ebdb67c88714455cea580084010000000000000000000000000000000000000000000000000000000000000000000" +
	"0000000000000000000000000000000000000000000000000ffffff7f00000000000000000000000000000000000000000000" +
	"000000000000000000009fba1be4874f22da581831eb1a5243e53b51e57f3021222943a6a2919d19c19d687f4c5a000000001" +
	"28c95000102000000000403454c4101000847cfc35085f3aec001000000000000000000000000000000000000000000000000" +
	"0000000000000000ffffffffffff02b037db964a231458d2d6ffd5ea18944c4f90e63d547c5d3b9874df66a4ead0a3b54afb0" +
	"80000000000000000129e9cf1c5f336fcf3a6c954444ed482c5d916e506b037db964a231458d2d6ffd5ea18944c4f90e63d54" +
	"7c5d3b9874df66a4ead0a3a803f5140000000000000000129e9cf1c5f336fcf3a6c954444ed482c5d916e5061027000000020" +
	"000016c3a8d6db4d3b4ccad1712a29c5e90e2e7bc26c603995fc18a37c85a5420ad445600ffffffff02b037db964a231458d2" +
	"d6ffd5ea18944c4f90e63d547c5d3b9874df66a4ead0a3047823a7170100000000000021190ff3b12919c17f232db55431832" +
	"2a6b43ba372b037db964a231458d2d6ffd5ea18944c4f90e63d547c5d3b9874df66a4ead0a300b864d9450000000000000021" +
	"fa402bfaecabefacb6379c08edb5224fd95e25f700000000014140c72db63b7fdf90b8bf34e91f0a6394e25d1340f178a1776" +
	"bdc344fecf8ced8e4db627fb9ffa7068c51d3d15b92a749ffa407e2593833ec836d4cdaae1062abe52321035e1529938d1a36" +
	"bef97806557bdb4faec8c83a8fc557c1afb287b07bd923c589ac"

// parameters used by describe(): the fixture chain's, or the regnet node's inside an orphan op
var descParams *config.Configuration

var chainStore blockchain.IChainStore

var (
	chainOnce sync.Once
	chain     *blockchain.BlockChain
	params    *config.Configuration
	tmpDir    string
)

func getChain() *blockchain.BlockChain {
	chainOnce.Do(func() {
		functions.GetTransactionByTxType = transaction2.GetTransaction
		functions.GetTransactionByBytes = transaction2.GetTransactionByBytes
		functions.CreateTransaction = transaction2.CreateTransaction
		functions.GetTransactionParameters = transaction2.GetTransactionparameters
		config.DefaultParams = *config.GetDefaultParams()
		p := *config.GetDefaultParams()
		p.GenesisBlock = core.GenesisBlock(*p.FoundationProgramHash)
		// every block of the harness carries the easiest target
		p.PowConfiguration.PowLimit = new(big.Int).Sub(new(big.Int).Lsh(big.NewInt(1), 255), big.NewInt(1))
		// allow the input-less RevertToPOW transaction type at the fixture's height: a transaction
		// without inputs is only protected by the duplicate-txid check (the duplicate-UTXO check
		// never sees it)
		p.DPoSConfiguration.RevertToPOWStartHeight = 0
		blockchain.FoundationAddress = *p.FoundationProgramHash
		params = &p
		descParams = &p
		var err error
		tmpDir, err = os.MkdirTemp("", "elaverif-c07-")
		if err != nil {
			panic("harness: " + err.Error())
		}
		ckp := checkpoint.NewManager(config.GetDefaultParams())
		store, err := blockchain.NewChainStore(tmpDir, &p)
		if err != nil {
			panic("harness: chain store: " + err.Error())
		}
		chainStore = store
		c, err := blockchain.New(store, &p, state.NewState(&p, nil, nil, nil, nil, nil, nil, nil, nil, nil, nil, nil), nil, ckp)
		if err != nil {
			panic("harness: chain: " + err.Error())
		}
		if blockchain.DefaultLedger == nil {
			blockchain.DefaultLedger = &blockchain.Ledger{Blockchain: c, Store: store}
		}
		chain = c
	})
	return chain
}

func parseHashes(s string) []common.Uint256 {
	b := hx.UnHex(s)
	if len(b)%32 != 0 {
		panic("harness: hash list not a multiple of 32 bytes")
	}
	out := make([]common.Uint256, len(b)/32)
	for i := range out {
		copy(out[i][:], b[32*i:32*i+32])
	}
	return out
}

func inputKey(in *common2.Input) string {
	h := sha256.Sum256([]byte(in.ReferKey()))
	return hex.EncodeToString(h[:6])
}

func txDesc(c *blockchain.BlockChain, height uint32, tx interfaces.Transaction) string {
	id := tx.Hash()
	cb, sane := 0, 0
	if tx.IsCoinBaseTx() {
		cb = 1
	}
	if safeSanity(c, height, tx) {
		sane = 1
	}
	ins := make([]string, 0)
	for _, in := range tx.Inputs() {
		ins = append(ins, inputKey(in))
	}
	is := "-"
	if len(ins) > 0 {
		is = strings.Join(ins, ";")
	}
	return fmt.Sprintf("%s,%d,%d,%s", hex.EncodeToString(id[:]), cb, sane, is)
}

func safeSanity(c *blockchain.BlockChain, height uint32, tx interfaces.Transaction) (ok bool) {
	defer func() {
		if e := recover(); e != nil {
			ok = false
		}
	}()
	return c.CheckTransactionSanity(height, tx) == nil
}

// preClass recomputes the header checks that come before the transaction part and names the first
// one that fails: auxpow, pow, time, or ok.
func preClass(c *blockchain.BlockChain, b *types.Block) string {
	h := b.Header
	hash := h.Hash()
	if !h.AuxPow.Check(&hash, auxpow.AuxPowChainID) {
		return "auxpow"
	}
	if blockchain.CheckProofOfWork(&h, descParams.PowConfiguration.PowLimit) != nil {
		return "pow"
	}
	t := time.Unix(int64(h.Timestamp), 0)
	if t.After(c.TimeSource.AdjustedTime().Add(time.Second * blockchain.MaxTimeOffsetSeconds)) {
		return "time"
	}
	return "ok"
}

// sizes of the header and of the block as the node measures them (the limits are in the model)
func sizes(b *types.Block) string {
	_ = pact.MaxTxPerBlock
	return fmt.Sprintf("%d:%d", b.Header.GetSize(), b.GetSize())
}

func b01(b bool) string {
	if b {
		return "1"
	}
	return "0"
}

func describe(c *blockchain.BlockChain, b *types.Block) string {
	parts := []string{preClass(c, b), sizes(b), b01(blockchain.CheckDuplicateTx(b) == nil),
		hex.EncodeToString(b.Header.MerkleRoot[:])}
	for _, tx := range b.Transactions {
		parts = append(parts, txDesc(c, b.Height, tx))
	}
	return strings.Join(parts, " ")
}

func classify(err error) string {
	if err == nil {
		return "ok"
	}
	m := err.Error()
	switch {
	case strings.Contains(m, "block check aux pow failed"):
		return "err auxpow"
	case strings.Contains(m, "block check proof of work failed"):
		return "err pow"
	case strings.Contains(m, "higher precision than one second"), strings.Contains(m, "too far in the future"):
		return "err time"
	case strings.Contains(m, "does not contain any transactions"):
		return "err no-tx"
	case strings.Contains(m, "block contains too many"):
		return "err too-many"
	case strings.Contains(m, "block header is too big"):
		return "err hdr-big"
	case strings.Contains(m, "serialized block is too big"):
		return "err blk-big"
	case strings.Contains(m, "first transaction in block is not a coinbase"):
		return "err first-not-coinbase"
	case strings.Contains(m, "block contains second coinbase"):
		return "err second-coinbase"
	case strings.Contains(m, "block contains duplicate transaction"):
		return "err dup-tx"
	case strings.Contains(m, "CheckTransactionSanity failed"):
		return "err tx-sanity"
	case strings.Contains(m, "block contains duplicate UTXO"):
		return "err dup-input"
	case strings.Contains(m, "merkleTree compute failed"):
		return "err root-fail"
	case strings.Contains(m, "block merkle root is invalid"):
		return "err bad-root"
	case strings.Contains(m, "[PowCheckBlockSanity] block contains duplicate"), strings.Contains(m, "invalid register producer payload"),
		strings.Contains(m, "[PowCheckBlockSanity]"):
		return "err dup-special"
	}
	return "err other:" + m
}

// ---------------------------------------------------------------- orphan delivery on a regnet node

func revertTx(w uint32) interfaces.Transaction {
	return cloneTx(functions.CreateTransaction(common2.TxVersion09, common2.RevertToPOW, 0,
		&payload.RevertToPOW{Type: payload.NoBlock, WorkingHeight: w}, nil, nil, nil, 0, nil))
}

// forgedList applies the mutation to the transaction list of the last block
func forgedList(mut string, last, other *types.Block) []interfaces.Transaction {
	txs := append([]interfaces.Transaction{}, last.Transactions...)
	n := len(txs)
	switch mut {
	case "none":
	case "duptail":
		txs = append(txs, txs[n-1])
	case "duppair":
		if n >= 2 {
			txs = append(txs, txs[n-2], txs[n-1])
		}
	case "dupmid":
		if n >= 2 {
			txs = append(txs[:2], txs[1:]...)
		}
	case "coinbase": // the coinbase of another block
		txs[0] = other.Transactions[0]
	case "remove":
		if n >= 2 {
			txs = txs[:n-1]
		}
	case "swap":
		if n >= 3 {
			txs[n-1], txs[n-2] = txs[n-2], txs[n-1]
		}
	case "cb2":
		txs = append(txs, other.Transactions[0])
	case "insert":
		txs = append(txs, revertTx(0xfffffff0))
	case "empty":
		txs = nil
	default:
		panic("harness: unknown mutation " + mut)
	}
	return txs
}

// bound reports whether the block's transaction list belongs to its header (property statement,
// reference definitions only)
func bound(b *types.Block) bool {
	if len(b.Transactions) == 0 {
		return false
	}
	seen := map[common.Uint256]bool{}
	ids := make([]common.Uint256, 0, len(b.Transactions))
	for i, tx := range b.Transactions {
		if (i == 0) != tx.IsCoinBaseTx() {
			return false
		}
		id := tx.Hash()
		if seen[id] {
			return false
		}
		seen[id] = true
		ids = append(ids, id)
	}
	return bytes.Equal(refRoot(ids), b.Header.MerkleRoot[:])
}

// poolMutate applies the mutation to the accepted block, under the unchanged header, and returns the
// block as the wire decoder yields it
func poolMutate(mut string, good *types.Block) *types.Block {
	txs := append([]interfaces.Transaction{}, good.Transactions...)
	n := len(txs)
	bump := func(tx interfaces.Transaction) interfaces.Transaction {
		t2 := cloneTx(tx)
		t2.SetLockTime(t2.LockTime() + 7)
		return cloneTx(t2)
	}
	switch mut {
	case "none":
	case "duptail":
		txs = append(txs, txs[n-1])
	case "duppair":
		if n >= 2 {
			txs = append(txs, txs[n-2], txs[n-1])
		}
	case "remove":
		if n >= 2 {
			txs = txs[:n-1]
		}
	case "swap":
		if n >= 3 {
			txs[n-1], txs[n-2] = txs[n-2], txs[n-1]
		}
	case "change":
		txs[n-1] = bump(txs[n-1])
	case "coinbase":
		txs[0] = bump(txs[0])
	case "cb2":
		txs = append(txs, bump(txs[0]))
	case "empty":
		txs = nil
	default:
		panic("harness: unknown mutation " + mut)
	}
	return decodeBlock(blockHex(&types.Block{Header: good.Header, Transactions: txs}))
}

func runPool(goodHex, mut string) orphanRun {
	c := getChain()
	good := decodeBlock(goodHex)
	second := poolMutate(mut, decodeBlock(goodHex))
	desc := describe(c, second)
	pool := mempool.NewBlockPool(params)
	pool.Chain = c
	pool.Store = chainStore
	hash := good.Hash()
	cls := func(err error) string {
		if err == nil {
			return "ok"
		}
		if strings.Contains(err.Error(), "duplicate block in pool") {
			return "err:duplicate-in-pool"
		}
		return strings.ReplaceAll(classify(err), " ", ":")
	}
	deliver := func(d *types.DposBlock) (res string) {
		defer func() {
			if e := recover(); e != nil {
				res = "panic"
			}
		}()
		_, _, err := pool.AppendDposBlock(d)
		return cls(err)
	}
	out := "s1=" + deliver(&types.DposBlock{Block: good})
	priv, pub, err := crypto.GenerateKeyPair()
	if err != nil {
		panic("harness: " + err.Error())
	}
	sponsor, _ := pub.EncodePoint(true)
	confirm := &payload.Confirm{Proposal: payload.DPOSProposal{Sponsor: sponsor, BlockHash: hash}}
	confirm.Proposal.Sign, _ = crypto.Sign(priv, confirm.Proposal.Data())
	out += " s2=" + deliver(&types.DposBlock{Block: second, HaveConfirm: true, Confirm: confirm})
	ok := 1
	if b, found := pool.GetBlock(hash); !found || !bound(b) {
		ok = 0
	}
	if d, err := pool.GetDposBlockByHash(hash); err != nil || !bound(d.Block) {
		ok = 0
	}
	return orphanRun{desc, fmt.Sprintf("%s bound=%d", out, ok)}
}

// runMine: the node's own block assembly (pow.Service.GenerateBlock) with k transactions in the pool
func runMine(k int) string {
	getChain()
	savedFA, savedLedger, savedDP, savedDesc := blockchain.FoundationAddress, blockchain.DefaultLedger, config.DefaultParams, descParams
	defer func() {
		blockchain.FoundationAddress, blockchain.DefaultLedger, config.DefaultParams, descParams = savedFA, savedLedger, savedDP, savedDesc
	}()
	dir, err := os.MkdirTemp("", "elaverif-c07-mine-")
	if err != nil {
		panic("harness: " + err.Error())
	}
	defer os.RemoveAll(dir)
	n, err := regnet.NewNode(dir, regnet.Options{CoinbaseMaturity: 1})
	if err != nil {
		panic("harness: regnet: " + err.Error())
	}
	defer n.Close()
	parent := n.Genesis
	for i := 0; i < 2; i++ {
		b, err := n.Mine(parent, nil)
		if err != nil {
			panic("harness: mine: " + err.Error())
		}
		if _, _, err := n.Deliver(b); err != nil {
			panic("harness: deliver: " + err.Error())
		}
		parent = b
	}
	if k > 0 {
		gid := n.Genesis.Transactions[0].Hash()
		us, err := n.UTXOs(0)
		if err != nil {
			panic("harness: utxos: " + err.Error())
		}
		done := 0
		for _, u := range us {
			if u.TxID != gid || done >= k || u.Value < 1000000 {
				continue
			}
			tx, err := n.Transfer(0, []common2.OutPoint{{TxID: u.TxID, Index: uint16(u.Index)}},
				[]regnet.Out{{To: 1, Value: u.Value - 100000}}, uint64(done+1))
			if err != nil {
				panic("harness: transfer: " + err.Error())
			}
			if err := n.Submit(tx); err != nil {
				return "submit-failed"
			}
			done++
		}
		if done != k {
			return "no-coins"
		}
	}
	addr, err := n.Addr(1).ToAddress()
	if err != nil {
		panic("harness: " + err.Error())
	}
	blk, err := n.Pow.GenerateBlock(addr, 100)
	if err != nil {
		return "generate-failed"
	}
	// solve it the way SolveBlock does, WITHOUT touching the header's merkle root
	ap := auxpow.GenerateAuxPow(blk.Header.Hash())
	blk.Header.AuxPow = *ap
	for nonce := uint32(0); ; nonce++ {
		blk.Header.AuxPow.ParBlockHeader.Nonce = nonce
		if blockchain.CheckProofOfWork(&blk.Header, n.Params.PowConfiguration.PowLimit) == nil {
			break
		}
	}
	cls := func(b *types.Block) (res string) {
		defer func() {
			if e := recover(); e != nil {
				res = "panic"
			}
		}()
		return strings.ReplaceAll(classify(n.Chain.CheckBlockSanity(b)), " ", ":")
	}
	obj := cls(blk)
	wire := decodeBlock(blockHex(blk))
	bnd := 0
	if bound(wire) {
		bnd = 1
	}
	return fmt.Sprintf("obj=%s wire=%s bound=%d ntx=%d", obj, cls(wire), bnd, len(blk.Transactions))
}

type orphanRun struct {
	desc string // description of the delivered (possibly forged) block
	out  string
}

func runOrphan(depth, k int, mut string) orphanRun {
	getChain() // make sure the fixture chain's globals exist before they are saved
	savedFA, savedLedger, savedDP, savedDesc := blockchain.FoundationAddress, blockchain.DefaultLedger, config.DefaultParams, descParams
	defer func() {
		blockchain.FoundationAddress, blockchain.DefaultLedger, config.DefaultParams, descParams = savedFA, savedLedger, savedDP, savedDesc
	}()
	dir, err := os.MkdirTemp("", "elaverif-c07-orphan-")
	if err != nil {
		panic("harness: " + err.Error())
	}
	defer os.RemoveAll(dir)
	n, err := regnet.NewNode(dir, regnet.Options{NoPoolEvents: true, Tweak: func(p *config.Configuration) {
		p.DPoSConfiguration.RevertToPOWStartHeight = 0
	}})
	if err != nil {
		panic("harness: regnet: " + err.Error())
	}
	defer n.Close()
	descParams = n.Params
	blocks := []*types.Block{}
	parent := n.Genesis
	for i := 1; i <= depth; i++ {
		var txs []interfaces.Transaction
		if i == depth {
			for j := 0; j < k; j++ {
				txs = append(txs, revertTx(uint32(1000+j)))
			}
		}
		b, err := n.Mine(parent, txs)
		if err != nil {
			panic("harness: mine: " + err.Error())
		}
		blocks = append(blocks, b)
		parent = b
	}
	last := blocks[depth-1]
	forged := &types.Block{Header: last.Header, Transactions: forgedList(mut, last, blocks[0])}
	// as a peer sends it
	forged = decodeBlock(blockHex(forged))
	desc := describe(n.Chain, forged)
	cls := func(main, orphan bool, err error) string {
		switch {
		case err != nil:
			return classify(err)
		case orphan:
			return "orphan"
		case main:
			return "main"
		}
		return "side"
	}
	deliver := func(b *types.Block) (res string) {
		defer func() {
			if e := recover(); e != nil {
				res = "panic"
			}
		}()
		return strings.ReplaceAll(cls(n.Chain.ProcessBlock(b, nil)), " ", ":")
	}
	out := "first=" + deliver(forged)
	for _, b := range blocks[:depth-1] {
		if c := deliver(decodeBlock(blockHex(b))); c != "main" {
			out += " parent=" + c
		}
	}
	_, h := n.Tip()
	ok := 1
	for i := uint32(1); i <= h; i++ {
		b, err := n.Chain.GetBlockByHeight(i)
		if err != nil || !bound(b) {
			ok = 0
		}
	}
	return orphanRun{desc, fmt.Sprintf("%s tip=%d bound=%d", out, h, ok)}
}

// specialTx builds a transaction of the announced type with the announced payload keys
// (rs | ot | ws:ok:h1;h2 | rp:ok:owner:node | up:ok:owner:node | cp:ok:owner | rc:ok:cid | uc:ok:cid | xc:ok:cid);
// ok=0 gives the transaction a payload of another Go type.
func specialTx(d string) interfaces.Transaction {
	f := strings.Split(d, ":")
	mk := func(tt common2.TxType, p interfaces.Payload) interfaces.Transaction {
		return functions.CreateTransaction(common2.TxVersion09, tt, 0, p, nil, nil, nil, 0, nil)
	}
	cid := func(s string) (u common.Uint168) { copy(u[:], hx.UnHex(s)); return }
	wrong := &payload.RecordSponsor{}
	switch f[0] {
	case "rs":
		return mk(common2.RecordSponsor, &payload.RecordSponsor{Sponsor: []byte{1}})
	case "ot":
		return mk(common2.TransferAsset, &payload.TransferAsset{})
	case "ws":
		if f[1] != "1" {
			return mk(common2.WithdrawFromSideChain, wrong)
		}
		p := &payload.WithdrawFromSideChain{}
		if f[2] != "-" {
			for _, h := range strings.Split(f[2], ";") {
				var u common.Uint256
				copy(u[:], hx.UnHex(h))
				p.SideChainTransactionHashes = append(p.SideChainTransactionHashes, u)
			}
		}
		return mk(common2.WithdrawFromSideChain, p)
	case "rp", "up":
		tt := common2.RegisterProducer
		if f[0] == "up" {
			tt = common2.UpdateProducer
		}
		if f[1] != "1" {
			return mk(tt, wrong)
		}
		return mk(tt, &payload.ProducerInfo{OwnerKey: hx.UnHex(f[2]), NodePublicKey: hx.UnHex(f[3])})
	case "cp":
		if f[1] != "1" {
			return mk(common2.CancelProducer, wrong)
		}
		return mk(common2.CancelProducer, &payload.ProcessProducer{OwnerKey: hx.UnHex(f[2])})
	case "rc", "uc":
		tt := common2.RegisterCR
		if f[0] == "uc" {
			tt = common2.UpdateCR
		}
		if f[1] != "1" {
			return mk(tt, wrong)
		}
		return mk(tt, &payload.CRInfo{CID: cid(f[2])})
	case "xc":
		if f[1] != "1" {
			return mk(common2.UnregisterCR, wrong)
		}
		return mk(common2.UnregisterCR, &payload.UnregisterCR{CID: cid(f[2])})
	}
	panic("harness: bad special tx " + d)
}

func classifyDup(err error) string {
	if err == nil {
		return "ok"
	}
	m := err.Error()
	for _, c := range [][2]string{
		{"duplicate record sponsor", "dup-sponsor"}, {"duplicate sidechain Tx", "dup-side"},
		{"invalid register producer payload", "bad-reg-producer"}, {"invalid update producer payload", "bad-upd-producer"},
		{"invalid cancel producer payload", "bad-cancel-producer"}, {"duplicate producer node", "dup-node"},
		{"duplicate producer", "dup-producer"}, {"invalid register CR payload", "bad-reg-cr"},
		{"invalid update CR payload", "bad-upd-cr"}, {"invalid unregister CR payload", "bad-unreg-cr"},
		{"duplicate CR", "dup-cr"}} {
		if strings.Contains(m, c[0]) {
			return "err " + c[1]
		}
	}
	return "err other:" + m
}

func atoi(s string) int {
	v := 0
	for _, c := range s {
		if c < '0' || c > '9' {
			panic("harness: bad number " + s)
		}
		v = v*10 + int(c-'0')
	}
	return v
}

func decodeBlock(s string) *types.Block {
	var b types.Block
	if err := b.Deserialize(bytes.NewReader(hx.UnHex(s))); err != nil {
		panic("harness: block does not decode: " + err.Error())
	}
	return &b
}

func exec(t []string) string {
	switch t[0] {
	case "root":
		r, err := crypto.ComputeRoot(parseHashes(t[1]))
		if err != nil {
			return "err"
		}
		return "ok " + hex.EncodeToString(r[:])
	case "sanity":
		c := getChain()
		b := decodeBlock(t[1])
		if describe(c, b) != strings.Join(t[2:], " ") {
			return "oracle-mismatch"
		}
		return classify(c.CheckBlockSanity(b))
	case "mine":
		return runMine(atoi(t[1]))
	case "pool":
		run := runPool(t[1], t[2])
		if run.desc != strings.Join(t[3:], " ") {
			return "oracle-mismatch"
		}
		return run.out
	case "duptx":
		blk := &types.Block{}
		for _, d := range t[1:] {
			blk.Transactions = append(blk.Transactions, specialTx(d))
		}
		return classifyDup(blockchain.CheckDuplicateTx(blk))
	case "orphan":
		depth, k := atoi(t[1]), atoi(t[2])
		run := runOrphan(depth, k, t[3])
		if run.desc != strings.Join(t[4:], " ") {
			return "oracle-mismatch"
		}
		return run.out
	}
	panic("harness: unknown op " + t[0])
}

// ---------------------------------------------------------------- generation

func cloneTx(tx interfaces.Transaction) interfaces.Transaction {
	buf := new(bytes.Buffer)
	if err := tx.Serialize(buf); err != nil {
		panic("harness: " + err.Error())
	}
	r := bytes.NewReader(buf.Bytes())
	n, err := functions.GetTransactionByBytes(r)
	if err != nil {
		panic("harness: " + err.Error())
	}
	if err := n.Deserialize(r); err != nil {
		panic("harness: " + err.Error())
	}
	return n
}

// reencode serialises the modified transaction and decodes it again, as a peer would receive it;
// a transaction the decoder refuses is returned as it is
func reencode(tx interfaces.Transaction) (out interfaces.Transaction) {
	defer func() {
		if e := recover(); e != nil {
			out = tx
		}
	}()
	return cloneTx(tx)
}

// a fresh transfer: the fixture's transfer with `k` inputs spending random outpoints
func freshTransfer(r *hx.Rand, tmpl interfaces.Transaction, k int) interfaces.Transaction {
	tx := cloneTx(tmpl)
	ins := make([]*common2.Input, 0, k)
	for i := 0; i < k; i++ {
		var id common.Uint256
		copy(id[:], r.Bytes(32))
		ins = append(ins, &common2.Input{Previous: common2.OutPoint{TxID: id, Index: uint16(r.Intn(4))}, Sequence: 0})
	}
	tx.SetInputs(ins)
	tx.SetLockTime(uint32(r.Intn(1000)))
	if r.Bool() { // the new wire layout (leading version byte; outputs carry a typed payload)
		outs := []*common2.Output{}
		for _, o := range tx.Outputs() {
			c := *o
			c.Type = common2.OTNone
			c.Payload = &outputpayload.DefaultOutput{}
			outs = append(outs, &c)
		}
		tx.SetOutputs(outs)
		tx.SetVersion(common2.TxVersion09)
	}
	return cloneTx(tx)
}

// an input-less, output-less transaction (RevertToPOW); distinct working heights give distinct ids
func freshInputless(r *hx.Rand) interfaces.Transaction {
	tx := functions.CreateTransaction(common2.TxVersion09, common2.RevertToPOW, 0,
		&payload.RevertToPOW{Type: payload.NoBlock, WorkingHeight: uint32(r.U64())}, nil, nil, nil, 0, nil)
	return cloneTx(tx)
}

// seal computes the merkle root, attaches a fresh aux pow and solves it.
func seal(b *types.Block) { sealWith(b, true, nil) }

// sealWith: solved = false leaves a parent nonce that misses the target (aux pow valid, proof of work not);
// parBranch puts the parent coinbase under a (long) parent merkle branch, which makes the header big.
func sealWith(b *types.Block, solved bool, parBranch []common.Uint256) {
	ids := make([]common.Uint256, 0, len(b.Transactions))
	for _, tx := range b.Transactions {
		ids = append(ids, tx.Hash())
	}
	if len(ids) > 0 {
		root, _ := crypto.ComputeRoot(ids)
		b.Header.MerkleRoot = root
	}
	b.Header.Bits = 0x207fffff
	ap := auxpow.GenerateAuxPow(b.Header.Hash())
	ap.ParBlockHeader.Timestamp = b.Header.Timestamp
	if parBranch != nil {
		ap.ParCoinBaseMerkle = parBranch
		ap.ParBlockHeader.MerkleRoot = auxpow.GetMerkleRoot(ap.ParCoinbaseTx.Hash(), parBranch, 0)
	}
	b.Header.AuxPow = *ap
	for n := uint32(0); ; n++ {
		b.Header.AuxPow.ParBlockHeader.Nonce = n
		if (blockchain.CheckProofOfWork(&b.Header, params.PowConfiguration.PowLimit) == nil) == solved {
			return
		}
	}
}

func blockHex(b *types.Block) string {
	buf := new(bytes.Buffer)
	if err := b.Serialize(buf); err != nil {
		panic("harness: " + err.Error())
	}
	return hex.EncodeToString(buf.Bytes())
}

// emitSanityRaw delivers block BYTES (possibly changed on the wire)
func emitSanityRaw(g *hx.Gen, raw []byte) (out string) {
	defer func() {
		if e := recover(); e != nil {
			out = "undecodable" // the decoder refuses the changed bytes: nothing to deliver
		}
	}()
	hexs := hex.EncodeToString(raw)
	bb := decodeBlock(hexs)
	return g.Emit("sanity %s %s", hexs, describe(getChain(), bb))
}

func encodeTxBytes(tx interfaces.Transaction) []byte {
	b := new(bytes.Buffer)
	if err := tx.Serialize(b); err != nil {
		panic("harness: " + err.Error())
	}
	return b.Bytes()
}

// txOffsets returns the offset of every transaction inside the serialised block
func txOffsets(b *types.Block) ([]byte, []int) {
	buf := new(bytes.Buffer)
	if err := b.Serialize(buf); err != nil {
		panic("harness: " + err.Error())
	}
	hb := new(bytes.Buffer)
	b.Header.Serialize(hb)
	off := hb.Len() + 4
	offs := []int{}
	for _, tx := range b.Transactions {
		offs = append(offs, off)
		tb := new(bytes.Buffer)
		tx.Serialize(tb)
		off += tb.Len()
	}
	if off != buf.Len() {
		panic("harness: block layout")
	}
	return buf.Bytes(), offs
}

func emitSanity(g *hx.Gen, b *types.Block) string {
	// through the wire form, as the node receives it
	hexs := blockHex(b)
	bb := decodeBlock(hexs)
	return g.Emit("sanity %s %s", hexs, describe(getChain(), bb))
}

func withTxs(b *types.Block, txs []interfaces.Transaction) *types.Block {
	nb := *b
	nb.Transactions = txs
	return &nb
}

func gen(g *hx.Gen) {
	r := g.R
	// ---- ComputeRoot: n = 0..40, then random sizes, duplicated tails, repeated leaves
	for n := 0; n <= 40; n++ {
		g.Emit("root %s", hx.Hex(r.Bytes(32*n)))
	}
	nroot := g.N(60, 600)
	for i := 0; i < nroot; i++ {
		n := 1 + r.Intn(g.N(300, 2000))
		if r.Chance(30) {
			n = r.Pick(2, 3, 4, 5, 7, 8, 9, 15, 16, 17, 31, 32, 33, 63, 64, 65, 127, 128, 129, 255, 256, 257)
		}
		leaves := r.Bytes(32 * n)
		g.Emit("root %s", hx.Hex(leaves))
		if r.Chance(40) { // duplicated tail: same root iff n odd and n >= 3
			dup := append(append([]byte{}, leaves...), leaves[32*(n-1):]...)
			g.Emit("root %s", hx.Hex(dup))
		}
		if r.Chance(15) && n >= 2 { // duplicated 2-block
			dup := append(append([]byte{}, leaves...), leaves[32*(n-2):]...)
			g.Emit("root %s", hx.Hex(dup))
		}
		if r.Chance(15) { // one bit flipped
			m := append([]byte{}, leaves...)
			m[r.Intn(len(m))] ^= 1 << uint(r.Intn(8))
			g.Emit("root %s", hx.Hex(m))
		}
	}

	// leaf counts up to pact.MaxTxPerBlock (10000): 14 levels are not enough above 8192 leaves
	big := []int{8193 + r.Intn(1807)}
	if !g.Quick() {
		big = []int{8192, 8193, 9999, 10000, 8193 + r.Intn(1807)}
	}
	for _, n := range big {
		leaves := r.Bytes(32 * n)
		g.Emit("root %s", hx.Hex(leaves))
	}

	// ---- a forged block delivered before its parent (real ProcessBlock on a regnet node)
	muts := []string{"none", "duptail", "duppair", "dupmid", "coinbase", "remove", "swap", "cb2", "insert", "empty"}
	for i := 0; i < g.N(14, 120); i++ {
		depth := 2 + r.Intn(2)
		k := r.Intn(6)
		mut := muts[i%len(muts)]
		if (mut == "duptail" || mut == "duppair") && i%20 < 10 {
			// make the duplication root preserving: odd count for the tail, 2 mod 4 for the pair
			if mut == "duptail" {
				k = 2 * (1 + r.Intn(3)) // 1 coinbase + k = odd
			} else {
				k = 1 + 4*r.Intn(2) // 2 or 6 transactions
			}
		}
		switch mut {
		case "none": // RevertToPOW passes the sanity check but not the context check at connect time:
			k = 0 // honest out-of-order blocks are coinbase only, so that they do get connected
		case "swap":
			k = 2 + r.Intn(4)
		case "coinbase", "cb2":
			if i%20 < 10 {
				k = 0 // context-valid forgeries: only the sanity check stands between them and the chain
			}
		}
		run := runOrphan(depth, k, mut)
		g.Emit("orphan %d %d %s %s", depth, k, mut, run.desc)
	}

	// ---- the node's own blocks (pow.Service.GenerateBlock), empty and non-empty pool
	for _, k := range []int{0, 1} {
		g.Emit("mine %d", k)
	}

	// ---- CheckDuplicateTx on its own: every transaction type with a per-block unique payload key
	keyPool := []string{"02aa", "02bb", "03cc", "02dd", "03ee"}
	cidPool := []string{"67" + strings.Repeat("11", 20), "67" + strings.Repeat("22", 20), "67" + strings.Repeat("33", 20)}
	sidePool := []string{strings.Repeat("a1", 32), strings.Repeat("b2", 32), strings.Repeat("c3", 32), strings.Repeat("d4", 32)}
	for i := 0; i < g.N(400, 6000); i++ {
		n := 1 + r.Intn(7)
		ds := make([]string, n)
		for j := range ds {
			ok := "1"
			if r.Chance(4) {
				ok = "0"
			}
			k1, k2 := keyPool[r.Intn(len(keyPool))], keyPool[r.Intn(len(keyPool))]
			switch r.Intn(10) {
			case 0:
				ds[j] = "rs"
			case 1:
				ds[j] = "ot"
			case 2:
				hs := []string{}
				for q := r.Intn(4); q > 0; q-- {
					hs = append(hs, sidePool[r.Intn(len(sidePool))])
				}
				h := "-"
				if len(hs) > 0 {
					h = strings.Join(hs, ";")
				}
				ds[j] = "ws:" + ok + ":" + h
			case 3, 4:
				ds[j] = "rp:" + ok + ":" + k1 + ":" + k2
			case 5:
				ds[j] = "up:" + ok + ":" + k1 + ":" + k2
			case 6:
				ds[j] = "cp:" + ok + ":" + k1
			case 7:
				ds[j] = "rc:" + ok + ":" + cidPool[r.Intn(len(cidPool))]
			case 8:
				ds[j] = "uc:" + ok + ":" + cidPool[r.Intn(len(cidPool))]
			default:
				ds[j] = "xc:" + ok + ":" + cidPool[r.Intn(len(cidPool))]
			}
		}
		g.Emit("duptx %s", strings.Join(ds, " "))
	}

	// ---- CheckBlockSanity
	c := getChain()
	_ = c
	fixture := decodeBlock(fixtureBlockHex)
	emitSanity(g, fixture)
	cbT, trT := fixture.Transactions[0], fixture.Transactions[1]
	{
		// header clauses: unsolved proof of work, timestamp far in the future, and the size clauses:
		// MaxTxPerBlock and MaxTxPerBlock+1 transactions, a header above MaxBlockHeaderSize
		base := []interfaces.Transaction{cloneTx(cbT), freshInputless(r), freshTransfer(r, trT, 1)}
		nb := withTxs(fixture, base)
		sealWith(nb, false, nil)
		emitSanity(g, nb)
		nb = withTxs(fixture, base)
		nb.Header.Timestamp = 4102444800 // 2100-01-01
		seal(nb)
		emitSanity(g, nb)
		nb = withTxs(fixture, base)
		sealWith(nb, true, make([]common.Uint256, 31300)) // 31300*32 bytes of parent branch > 1 000 000
		emitSanity(g, nb)
		nb = withTxs(fixture, base)
		sealWith(nb, true, make([]common.Uint256, 31000))
		emitSanity(g, nb)
		for _, cnt := range []int{10000, 10001} {
			txs := []interfaces.Transaction{cloneTx(cbT)}
			for len(txs) < cnt {
				txs = append(txs, freshInputless(r))
			}
			nb = withTxs(fixture, txs)
			seal(nb)
			emitSanity(g, nb)
			if cnt == 10000 {
				// the full block changed ON THE WIRE: count field raised, the last transaction sent twice /
				// a further transaction appended (the header, and so the merkle root, stay)
				raw, offs := txOffsets(nb)
				hb := new(bytes.Buffer)
				nb.Header.Serialize(hb)
				for _, extra := range [][]byte{raw[offs[cnt-1]:], encodeTxBytes(freshInputless(r))} {
					w := append(append([]byte{}, raw...), extra...)
					binary.LittleEndian.PutUint32(w[hb.Len():], uint32(cnt+1))
					emitSanityRaw(g, w)
				}
			}
		}
		if !g.Quick() { // a block above MaxBlockContextSize+MaxBlockHeaderSize
			txs := []interfaces.Transaction{cloneTx(cbT)}
			big := freshTransfer(r, trT, 1)
			outs := big.Outputs()
			for len(outs) < 40 {
				outs = append(outs, outs[0])
			}
			for len(txs) < 3200 {
				t2 := freshTransfer(r, trT, 1)
				t2.SetOutputs(outs)
				txs = append(txs, cloneTx(t2))
			}
			nb = withTxs(fixture, txs)
			seal(nb)
			emitSanity(g, nb)
		}
	}
	nblocks := g.N(25, 250)
	for i := 0; i < nblocks; i++ {
		n := 1 + r.Intn(9)
		if r.Chance(20) {
			n = 1 + r.Intn(40)
		}
		txs := []interfaces.Transaction{cloneTx(cbT)}
		// composition: transfers only / mixed / input-less only; in two thirds of the blocks the last
		// two transactions are input-less, so that the root-preserving duplications (last transaction
		// of an odd block, last pair of a block with 2 mod 4 transactions) hit them
		comp := r.Intn(3)
		for j := 1; j < n; j++ {
			inputless := comp == 2 || (comp == 1 && r.Bool()) || (i%3 != 0 && j >= n-2)
			if inputless {
				txs = append(txs, freshInputless(r))
			} else {
				txs = append(txs, freshTransfer(r, trT, 1+r.Intn(3)))
			}
		}
		blk := withTxs(fixture, txs)
		seal(blk)
		if out := emitSanity(g, blk); out != "ok" {
			// not a harness error: the correspondence and the oracle judge it
			_ = out
		}
		if i%3 == 0 { // the block pool: pooled without confirm, then the same header with another list + confirm
			gh := blockHex(blk)
			for _, pm := range []string{"none", "duptail", "duppair", "remove", "swap", "change", "coinbase", "cb2", "empty"} {
				if !g.Quick() || r.Chance(50) {
					run := runPool(gh, pm)
					g.Emit("pool %s %s %s", gh, pm, run.desc)
				}
			}
		}
		hdr := blk.Header
		mut := func(txs []interfaces.Transaction) {
			nb := &types.Block{Header: hdr, Transactions: txs}
			emitSanity(g, nb)
		}
		cp := func() []interfaces.Transaction { return append([]interfaces.Transaction{}, txs...) }
		// one field of one transaction changed, everything else (also the signatures) kept: version byte of
		// the new-layout transactions, payload version, lock time
		for j := 0; j < n; j++ {
			if n > 12 && !r.Chance(25) {
				continue
			}
			if txs[j].Version() >= common2.TxVersion09 {
				// on the wire: exactly the leading version byte of this transaction
				raw, offs := txOffsets(&types.Block{Header: hdr, Transactions: txs})
				if raw[offs[j]] == byte(common2.TxVersion09) {
					raw[offs[j]] = byte(0x0a + r.Intn(3))
					emitSanityRaw(g, raw)
				}
			}
			m := cp()
			t2 := cloneTx(txs[j])
			t2.SetLockTime(t2.LockTime() + 1)
			m[j] = reencode(t2)
			mut(m)
		}
		// every single removal
		for j := 0; j < n; j++ {
			m := cp()
			mut(append(m[:j], m[j+1:]...))
		}
		// swaps (adjacent and random)
		for j := 0; j+1 < n; j++ {
			if n > 12 && !r.Chance(25) {
				continue
			}
			m := cp()
			m[j], m[j+1] = m[j+1], m[j]
			mut(m)
		}
		if n >= 3 {
			m := cp()
			a, b := 1+r.Intn(n-1), 1+r.Intn(n-1)
			m[a], m[b] = m[b], m[a]
			mut(m)
		}
		// duplicate a transaction: in place, at the end (the duplicated-tail shape when n is odd), 2-block
		for j := 0; j < n; j++ {
			if n > 12 && !r.Chance(25) {
				continue
			}
			m := cp()
			m = append(m[:j+1], append([]interfaces.Transaction{txs[j]}, m[j+1:]...)...)
			mut(m)
		}
		mut(append(cp(), txs[n-1]))
		if n >= 2 {
			mut(append(cp(), txs[n-2], txs[n-1]))
		}
		if n >= 4 {
			mut(append(cp(), txs[n-4:]...))
		}
		// change one transaction (fresh transfer / lock time) , insert one, second coinbase
		for j := 1; j < n; j++ {
			if n > 12 && !r.Chance(25) {
				continue
			}
			m := cp()
			m[j] = freshTransfer(r, trT, 1)
			mut(m)
		}
		{
			m := cp()
			k := r.Intn(n + 1)
			m = append(m[:k], append([]interfaces.Transaction{freshTransfer(r, trT, 1)}, m[k:]...)...)
			mut(m)
		}
		{
			m := cp()
			cb2 := cloneTx(cbT)
			cb2.SetLockTime(uint32(1 + r.Intn(100000)))
			cb2 = cloneTx(cb2)
			m[0] = cb2 // changed coinbase
			mut(m)
			m2 := append(cp(), cb2) // second coinbase
			mut(m2)
		}
		mut(nil)
		// header-side: wrong root / mutated root bit (aux pow then fails first)
		{
			nb := &types.Block{Header: hdr, Transactions: txs}
			nb.Header.MerkleRoot[r.Intn(32)] ^= 1 << uint(r.Intn(8))
			emitSanity(g, nb)
		}
		// blocks that are sealed over a bad transaction list: the header is valid, the list is not
		switch r.Intn(7) {
		case 6: // duplicated input-less transaction under a root that commits to it
			il := freshInputless(r)
			m := append(cp(), il, il)
			nb := withTxs(fixture, m)
			seal(nb)
			emitSanity(g, nb)
		case 0: // duplicated transaction under a root that commits to it
			if n >= 2 {
				m := append(cp(), txs[n-1])
				nb := withTxs(fixture, m)
				seal(nb)
				emitSanity(g, nb)
			}
		case 1: // same outpoint spent by two transactions
			var spent *common2.Input
			for _, tx := range txs[1:] {
				if len(tx.Inputs()) > 0 {
					spent = tx.Inputs()[0]
				}
			}
			if spent != nil {
				m := cp()
				t2 := freshTransfer(r, trT, 2)
				ins := t2.Inputs()
				ins[r.Intn(2)] = spent
				t2.SetInputs(ins)
				m = append(m, cloneTx(t2))
				nb := withTxs(fixture, m)
				seal(nb)
				emitSanity(g, nb)
			}
		case 2: // same outpoint twice inside one transaction
			m := cp()
			t2 := freshTransfer(r, trT, 2)
			ins := t2.Inputs()
			ins[1] = ins[0]
			t2.SetInputs(ins)
			m = append(m, cloneTx(t2))
			nb := withTxs(fixture, m)
			seal(nb)
			emitSanity(g, nb)
		case 3: // a transaction failing its own sanity check (no outputs)
			m := cp()
			t2 := freshTransfer(r, trT, 1)
			t2.SetOutputs(nil)
			m = append(m, cloneTx(t2))
			nb := withTxs(fixture, m)
			seal(nb)
			emitSanity(g, nb)
		case 4: // no coinbase at the front
			if n >= 2 {
				m := cp()
				m[0], m[1] = m[1], m[0]
				nb := withTxs(fixture, m)
				seal(nb)
				emitSanity(g, nb)
			}
		case 5: // two coinbases
			cb2 := cloneTx(cbT)
			cb2.SetLockTime(uint32(1 + r.Intn(100000)))
			m := append(cp(), cloneTx(cb2))
			nb := withTxs(fixture, m)
			seal(nb)
			emitSanity(g, nb)
		}
	}
}

// ---------------------------------------------------------------- oracle

type accepted struct {
	ids     string
	content string
}

// contentKey describes every transaction of the block field by field, through the accessors and the
// per-field encoders only (NOT through Serialize / SerializeUnsigned / Hash): what "the same
// transaction" means independently of how the id is computed. Signatures (programs) are left out:
// the id does not cover them by design.
func contentKey(b *types.Block) string {
	var sb strings.Builder
	for _, tx := range b.Transactions {
		fmt.Fprintf(&sb, "[v%d t%d pv%d lt%d p", tx.Version(), tx.TxType(), tx.PayloadVersion(), tx.LockTime())
		if tx.Payload() != nil {
			sb.WriteString(hex.EncodeToString(tx.Payload().Data(tx.PayloadVersion())))
		}
		for _, a := range tx.Attributes() {
			fmt.Fprintf(&sb, " a%d:%x", a.Usage, a.Data)
		}
		for _, in := range tx.Inputs() {
			fmt.Fprintf(&sb, " i%x:%d:%d", in.Previous.TxID[:], in.Previous.Index, in.Sequence)
		}
		for _, o := range tx.Outputs() {
			buf := new(bytes.Buffer)
			o.Serialize(buf, tx.Version())
			fmt.Fprintf(&sb, " o%x", buf.Bytes())
		}
		sb.WriteString("]")
	}
	return sb.String()
}

var acceptedByHeader = map[string]accepted{}

func idsOf(t []string) []string {
	ids := make([]string, 0)
	for _, d := range t[6:] {
		ids = append(ids, strings.SplitN(d, ",", 2)[0])
	}
	return ids
}

// The oracle judges the implementation's verdict against the property statement itself:
// an accepted block has its first transaction as only coinbase, no repeated id, and its
// header root equals an independently computed merkle root (textbook pairwise definition,
// written here without reference to crypto/merkletree.go); and no two different id lists
// are accepted under the same header.
func oracle(t []string, out string) *hx.Violation {
	switch t[0] {
	case "root":
		hs := parseHashes(t[1])
		if len(hs) == 0 {
			if out != "err" {
				return &hx.Violation{Kind: "root-empty", Detail: "empty list must be an error"}
			}
			return nil
		}
		want := "ok " + hex.EncodeToString(refRoot(hs))
		if out != want {
			return &hx.Violation{Kind: "root-differs", Detail: "ComputeRoot differs from the reference definition " + want}
		}
	case "mine":
		if strings.HasPrefix(out, "obj=ok") && !(strings.Contains(out, "wire=ok") && strings.Contains(out, "bound=1")) {
			return &hx.Violation{Kind: "mined-block-unbound", Detail: "the node accepts its own block object although the block, as encoded and hashed afresh, is not bound to its header: " + out}
		}
	case "pool":
		if strings.Contains(out, "panic") {
			return &hx.Violation{Kind: "block-pool-panic", Detail: "BlockPool.AppendDposBlock panicked"}
		}
		if strings.Contains(out, "bound=0") {
			return &hx.Violation{Kind: "pool-holds-unbound-block", Detail: "after the two-step delivery the block pool holds / serves under the block hash a transaction list that the header does not commit to"}
		}
	case "duptx":
		// accepted ⇒ no key of any class occurs twice, at most one record-sponsor tx, every payload well typed
		if out != "ok" {
			return nil
		}
		seen := map[string]bool{}
		sponsors := 0
		for _, d := range t[1:] {
			f := strings.Split(d, ":")
			var keys []string
			switch f[0] {
			case "rs":
				sponsors++
			case "ws":
				if f[2] != "-" {
					for _, h := range strings.Split(f[2], ";") {
						keys = append(keys, "side/"+h)
					}
				}
			case "rp", "up":
				keys = []string{"owner/" + f[2], "node/" + f[3]}
			case "cp":
				keys = []string{"owner/" + f[2]}
			case "rc", "uc", "xc":
				keys = []string{"cr/" + f[2]}
			}
			if len(f) > 1 && f[1] != "1" {
				return &hx.Violation{Kind: "duptx-bad-payload-accepted", Detail: "a transaction whose payload has the wrong type passed CheckDuplicateTx"}
			}
			for _, k := range keys {
				if seen[k] {
					return &hx.Violation{Kind: "duptx-duplicate-accepted", Detail: "CheckDuplicateTx accepted a block in which " + k + " occurs twice"}
				}
				seen[k] = true
			}
		}
		if sponsors > 1 {
			return &hx.Violation{Kind: "duptx-duplicate-accepted", Detail: "two record-sponsor transactions accepted"}
		}
	case "orphan":
		if strings.Contains(out, "panic") {
			return &hx.Violation{Kind: "node-panic-on-out-of-order-block", Detail: "ProcessBlock panicked while connecting a block that was pooled as an orphan"}
		}
		if strings.Contains(out, "bound=0") {
			return &hx.Violation{Kind: "chain-holds-unbound-block", Detail: "after out-of-order delivery the active chain contains a block whose transaction list does not belong to its header (root / coinbase position / duplicate id)"}
		}
	case "sanity":
		if out != "ok" {
			return nil
		}
		descs := t[6:]
		if len(descs) == 0 {
			return &hx.Violation{Kind: "accept-empty", Detail: "accepted a block without transactions"}
		}
		seen := map[string]bool{}
		hs := make([]common.Uint256, 0)
		for i, d := range descs {
			f := strings.Split(d, ",")
			if (i == 0) != (f[1] == "1") {
				return &hx.Violation{Kind: "accept-coinbase", Detail: "accepted although the first transaction is not the only coinbase"}
			}
			if seen[f[0]] {
				return &hx.Violation{Kind: "accept-duplicate", Detail: "accepted a block with a repeated transaction id " + f[0]}
			}
			seen[f[0]] = true
			var h common.Uint256
			copy(h[:], hx.UnHex(f[0]))
			hs = append(hs, h)
		}
		if hex.EncodeToString(refRoot(hs)) != t[5] {
			return &hx.Violation{Kind: "accept-root", Detail: "accepted although header root differs from the merkle root of the transaction ids"}
		}
		// header binding: the header bytes are the prefix of the block up to the tx count; use hdrRoot+aux as key
		b := decodeBlock(t[1])
		// what was delivered is what was judged: the transaction count on the wire is the number of
		// transactions looked at, and no byte of the message was left unread
		{
			hb := new(bytes.Buffer)
			b.Header.Serialize(hb)
			raw := hx.UnHex(t[1])
			if wc := binary.LittleEndian.Uint32(raw[hb.Len():]); int(wc) != len(descs) {
				return &hx.Violation{Kind: "accept-count-mismatch", Detail: fmt.Sprintf("accepted a block message announcing %d transactions after looking at %d", wc, len(descs))}
			}
			if blockHex(b) != t[1] {
				return &hx.Violation{Kind: "accept-unread-bytes", Detail: "accepted a block message whose bytes are not the encoding of the block that was checked"}
			}
		}
		hh := b.Header.Hash()
		key := hex.EncodeToString(hh[:])
		ids := strings.Join(idsOf(t), " ")
		content := contentKey(b)
		if prev, ok := acceptedByHeader[key]; ok && prev.ids != ids {
			return &hx.Violation{Kind: "accept-two-lists", Detail: "two different transaction lists accepted under header " + key}
		} else if ok && prev.content != content {
			return &hx.Violation{Kind: "accept-two-contents", Detail: "two blocks whose transactions differ in a field (version / type / payload / attributes / inputs / outputs / lock time) accepted under header " + key + ": the ids do not cover that field"}
		}
		acceptedByHeader[key] = accepted{ids, content}
	}
	return nil
}

func refRoot(hs []common.Uint256) []byte {
	level := make([][]byte, len(hs))
	for i := range hs {
		level[i] = append([]byte{}, hs[i][:]...)
	}
	for len(level) > 1 {
		var next [][]byte
		for i := 0; i < len(level); i += 2 {
			l, r := level[i], level[i]
			if i+1 < len(level) {
				r = level[i+1]
			}
			a := sha256.Sum256(append(append([]byte{}, l...), r...))
			bb := sha256.Sum256(a[:])
			next = append(next, bb[:])
		}
		level = next
	}
	return level[0]
}

func nontrivial(t []string, out string) bool {
	if t[0] == "orphan" || t[0] == "duptx" || t[0] == "pool" || t[0] == "mine" {
		return true
	}
	if t[0] == "root" {
		return len(t[1]) >= 128
	}
	return len(t) > 6
}

func bucket(t []string, out string) string {
	if t[0] == "root" {
		n := len(t[1]) / 64
		switch {
		case t[1] == "-":
			return "root/n=0"
		case n == 1:
			return "root/n=1"
		case n%2 == 1:
			return "root/odd"
		}
		return "root/even"
	}
	if t[0] == "orphan" {
		return "orphan/" + t[3] + "/" + strings.Fields(out)[0]
	}
	if t[0] == "duptx" {
		return "duptx/" + out
	}
	if t[0] == "mine" {
		return "mine/" + strings.Fields(out)[0]
	}
	if t[0] == "pool" {
		return "pool/" + t[2] + "/" + strings.Fields(out)[1]
	}
	return "sanity/" + out
}

func main() {
	defer func() {
		if tmpDir != "" {
			os.RemoveAll(tmpDir)
		}
	}()
	hx.Main(&hx.Prop{Name: "C07", Gen: gen, Exec: exec, Oracle: oracle, Nontrivial: nontrivial, Bucket: bucket})
}
