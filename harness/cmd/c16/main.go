// Harness for C16: ffldb behaves like an ordered, transactional key/value store.
//
// Real code under test: database/ffldb metadata side through the public
// database API (Create/Open/Close, Begin/Commit/Rollback, Update/View with
// failing closures, Bucket Put/Get/Delete/CreateBucket(IfNotExists)/DeleteBucket/
// Bucket/ForEach/ForEachBucket/Cursor First/Last/Next/Prev/Seek/Key/Value/Delete),
// with the write-back cache size / flush interval set through the verif hook.
//
// Stateful stream:
//
//	open maxSize never|always writeRow | begin rw|ro|rwm|rom | commit tx | rollback tx | fail tx |
//	put tx path k v | del tx path k | get tx path k | mkb tx path name | mkbi tx path name | rmb tx path name |
//	hasb tx path name | each tx path | eachb tx path | cur new tx path | cur id first|last|next|prev|seek k|key|value|delete |
//	flush | stats | reopen
//
// path = "." (metadata root) or hex names joined by "/".
package main

import (
	"encoding/binary"
	"errors"
	"fmt"
	"hash/crc32"
	"os"
	"path/filepath"
	"sort"
	"strconv"
	"strings"
	"time"

	"elaverif/harness/hx"

	"github.com/btcsuite/btcd/wire"
	"github.com/elastos/Elastos.ELA/database"
	"github.com/elastos/Elastos.ELA/database/ffldb"
)

type txRec struct {
	tx      database.Tx
	managed bool
	done    chan error // managed: tells the closure what to return
	result  chan error // managed: what Update/View returned
}

type curRec struct {
	tx int
	c  database.Cursor
}

type state struct {
	dir     string
	db      database.DB
	maxSize uint64
	always  bool
	txs     []*txRec
	curs    []curRec
}

var (
	st      *state
	dirSeq  int
	baseDir string
)

func base() string {
	if baseDir == "" {
		d, err := os.MkdirTemp("", "c16-")
		if err != nil {
			panic("harness: " + err.Error())
		}
		baseDir = d
	}
	return baseDir
}

func closeTxs() {
	for _, t := range st.txs {
		if t.tx == nil {
			continue
		}
		if t.managed {
			t.done <- errors.New("abandon")
			<-t.result
		} else {
			_ = t.tx.Rollback()
		}
		t.tx = nil
	}
	st.txs, st.curs = nil, nil
}

func closeAll() {
	if st == nil {
		return
	}
	closeTxs()
	if st.db != nil {
		_ = st.db.Close()
	}
	if st.dir != "" {
		_ = os.RemoveAll(st.dir)
	}
	st = nil
}

func applyKnobs() {
	iv := 1000 * time.Hour
	if st.always {
		iv = 0
	}
	ffldb.VerifSetCache(st.db, st.maxSize, iv)
}

func atoi(s string) int {
	v, err := strconv.Atoi(s)
	if err != nil {
		panic("harness: bad int " + s)
	}
	return v
}

func bytesOf(s string) []byte {
	if s == "-" {
		return []byte{}
	}
	return hx.UnHex(s)
}

func optHex(b []byte) string {
	if b == nil {
		return "nil"
	}
	return hx.Hex(b)
}

func errCode(err error) string {
	if err == nil {
		return "ok"
	}
	if de, ok := err.(database.Error); ok {
		switch de.ErrorCode {
		case database.ErrBucketNotFound:
			return "err bucketnotfound"
		case database.ErrBucketExists:
			return "err bucketexists"
		case database.ErrBucketNameRequired:
			return "err namerequired"
		case database.ErrKeyRequired:
			return "err keyrequired"
		case database.ErrTxNotWritable:
			return "err notwritable"
		case database.ErrTxClosed:
			return "err txclosed"
		case database.ErrIncompatibleValue:
			return "err incompatible"
		}
		return "err other-" + de.ErrorCode.String()
	}
	return "err " + err.Error()
}

func getTx(s string) *txRec {
	i := atoi(s)
	if i < 0 || i >= len(st.txs) {
		panic("harness: bad tx " + s)
	}
	return st.txs[i]
}

func resolve(tx database.Tx, path string) database.Bucket {
	b := tx.Metadata()
	if path == "." {
		return b
	}
	for _, n := range strings.Split(path, "/") {
		b = b.Bucket(bytesOf(n))
		if b == nil {
			return nil
		}
	}
	return b
}

func withBucket(t []string, fn func(tx database.Tx, b database.Bucket) string) string {
	r := getTx(t[1])
	if r.tx == nil {
		return "err txclosed"
	}
	b := resolve(r.tx, t[2])
	if b == nil {
		return "nobucket"
	}
	return fn(r.tx, b)
}

func fmtMove(c database.Cursor, ok bool) string {
	return fmt.Sprintf("%v %s %s", ok, optHex(c.Key()), optHex(c.Value()))
}

func writeRowOf(db database.DB) string {
	var row []byte
	_ = db.View(func(tx database.Tx) error {
		row = tx.Metadata().Get([]byte("ffldb-writeloc"))
		return nil
	})
	return hx.Hex(row)
}

func exec(t []string) string {
	switch t[0] {
	case "reset":
		closeAll()
		return "ok"
	case "open":
		closeAll()
		dirSeq++
		st = &state{dir: filepath.Join(base(), fmt.Sprintf("db%d", dirSeq)), maxSize: uint64(atoi(t[1])), always: t[2] == "always"}
		db, err := database.Create("ffldb", st.dir, wire.MainNet)
		if err != nil {
			panic("harness: create: " + err.Error())
		}
		st.db = db
		applyKnobs()
		if writeRowOf(db) != t[3] {
			return "writerow-mismatch"
		}
		return "ok"
	}
	if st == nil {
		return "no-db"
	}
	switch t[0] {
	case "begin":
		switch t[1] {
		case "rw", "ro":
			tx, err := st.db.Begin(t[1] == "rw")
			if err != nil {
				return errCode(err)
			}
			st.txs = append(st.txs, &txRec{tx: tx})
		case "rwm", "rom":
			r := &txRec{managed: true, done: make(chan error), result: make(chan error, 1)}
			ready := make(chan database.Tx)
			fn := func(tx database.Tx) error {
				ready <- tx
				return <-r.done
			}
			go func() {
				if t[1] == "rwm" {
					r.result <- st.db.Update(fn)
				} else {
					r.result <- st.db.View(fn)
				}
			}()
			r.tx = <-ready
			st.txs = append(st.txs, r)
		default:
			panic("harness: bad begin mode")
		}
		return strconv.Itoa(len(st.txs) - 1)
	case "commit", "rollback", "fail":
		r := getTx(t[1])
		if r.tx == nil {
			return "err txclosed"
		}
		var err error
		if r.managed {
			switch t[0] {
			case "commit", "rollback": // the closure returns nil: Update commits, View rolls back
				r.done <- nil
			default:
				r.done <- errors.New("closure failed")
			}
			err = <-r.result
			if t[0] == "fail" && err != nil && err.Error() == "closure failed" {
				err = nil
			}
		} else if t[0] == "commit" {
			err = r.tx.Commit()
		} else {
			err = r.tx.Rollback()
		}
		r.tx = nil
		return errCode(err)
	case "put":
		return withBucket(t, func(tx database.Tx, b database.Bucket) string {
			return errCode(b.Put(bytesOf(t[3]), bytesOf(t[4])))
		})
	case "del":
		return withBucket(t, func(tx database.Tx, b database.Bucket) string {
			return errCode(b.Delete(bytesOf(t[3])))
		})
	case "get":
		return withBucket(t, func(tx database.Tx, b database.Bucket) string {
			return optHex(b.Get(bytesOf(t[3])))
		})
	case "mkb":
		return withBucket(t, func(tx database.Tx, b database.Bucket) string {
			_, err := b.CreateBucket(bytesOf(t[3]))
			return errCode(err)
		})
	case "mkbi":
		return withBucket(t, func(tx database.Tx, b database.Bucket) string {
			_, err := b.CreateBucketIfNotExists(bytesOf(t[3]))
			return errCode(err)
		})
	case "rmb":
		return withBucket(t, func(tx database.Tx, b database.Bucket) string {
			return errCode(b.DeleteBucket(bytesOf(t[3])))
		})
	case "hasb":
		return withBucket(t, func(tx database.Tx, b database.Bucket) string {
			return fmt.Sprint(b.Bucket(bytesOf(t[3])) != nil)
		})
	case "each":
		return withBucket(t, func(tx database.Tx, b database.Bucket) string {
			var parts []string
			err := b.ForEach(func(k, v []byte) error {
				parts = append(parts, optHex(k)+"="+optHex(v))
				return nil
			})
			if err != nil {
				return errCode(err)
			}
			if len(parts) == 0 {
				return "empty"
			}
			return strings.Join(parts, ",")
		})
	case "eachb":
		return withBucket(t, func(tx database.Tx, b database.Bucket) string {
			var parts []string
			err := b.ForEachBucket(func(k []byte) error {
				parts = append(parts, optHex(k))
				return nil
			})
			if err != nil {
				return errCode(err)
			}
			if len(parts) == 0 {
				return "empty"
			}
			return strings.Join(parts, ",")
		})
	case "cur":
		if t[1] == "new" {
			return withBucket(t[1:], func(tx database.Tx, b database.Bucket) string {
				st.curs = append(st.curs, curRec{atoi(t[2]), b.Cursor()})
				return strconv.Itoa(len(st.curs) - 1)
			})
		}
		id := atoi(t[1])
		if id < 0 || id >= len(st.curs) {
			panic("harness: bad cursor " + t[1])
		}
		cr := st.curs[id]
		if st.txs[cr.tx].tx == nil {
			return "err txclosed"
		}
		c := cr.c
		switch t[2] {
		case "first":
			return fmtMove(c, c.First())
		case "last":
			return fmtMove(c, c.Last())
		case "next":
			return fmtMove(c, c.Next())
		case "prev":
			return fmtMove(c, c.Prev())
		case "seek":
			return fmtMove(c, c.Seek(bytesOf(t[3])))
		case "key":
			return optHex(c.Key())
		case "value":
			return optHex(c.Value())
		case "delete":
			return errCode(c.Delete())
		}
	case "flush":
		if err := ffldb.VerifFlush(st.db); err != nil {
			return errCode(err)
		}
		return "ok"
	case "stats":
		k, r, s := ffldb.VerifCacheStats(st.db)
		return fmt.Sprintf("%d %d %d", k, r, s)
	case "reopen":
		closeTxs()
		if err := st.db.Close(); err != nil {
			panic("harness: close: " + err.Error())
		}
		db, err := database.Open("ffldb", st.dir, wire.MainNet)
		if err != nil {
			return errCode(err)
		}
		st.db = db
		applyKnobs()
		return "ok"
	}
	panic("harness: unknown op " + strings.Join(t, " "))
}

// ---------------------------------------------------------------- oracle: a tree of ordered maps

type node struct {
	keys map[string]string
	kids map[string]*node
}

func newNode() *node { return &node{keys: map[string]string{}, kids: map[string]*node{}} }

func (n *node) clone() *node {
	c := newNode()
	for k, v := range n.keys {
		c.keys[k] = v
	}
	for k, v := range n.kids {
		c.kids[k] = v.clone()
	}
	return c
}

func (n *node) walk(path string) *node {
	if path == "." {
		return n
	}
	for _, p := range strings.Split(path, "/") {
		n = n.kids[string(bytesOf(p))]
		if n == nil {
			return nil
		}
	}
	return n
}

type entry struct {
	bucket bool
	name   string
}

func less(a, b entry) bool {
	if a.bucket != b.bucket {
		return !a.bucket // keys sort before nested buckets
	}
	return a.name < b.name
}

func (n *node) entries() []entry {
	var es []entry
	for k := range n.keys {
		es = append(es, entry{false, k})
	}
	for k := range n.kids {
		es = append(es, entry{true, k})
	}
	sort.Slice(es, func(i, j int) bool { return less(es[i], es[j]) })
	return es
}

type otx struct {
	root     *node
	writable bool
	open     bool
}

type ocur struct {
	tx   int
	path string
	cur  *entry
}

type ostate struct {
	committed *node
	txs       []*otx
	curs      []*ocur
	row       string
}

var os_ *ostate

func viol(kind, detail string) *hx.Violation { return &hx.Violation{Kind: kind, Detail: detail} }

func (o *ostate) fmtEntry(n *node, e *entry) string {
	if e == nil {
		return "false nil nil"
	}
	if e.bucket {
		return "true " + hx.Hex([]byte(e.name)) + " nil"
	}
	return "true " + hx.Hex([]byte(e.name)) + " " + hx.Hex([]byte(n.keys[e.name]))
}

func oracle(t []string, out string) *hx.Violation {
	if t[0] == "reset" {
		os_ = nil
		return nil
	}
	if t[0] == "open" {
		os_ = &ostate{committed: newNode(), row: string(bytesOf(t[3]))}
		os_.committed.keys["ffldb-writeloc"] = os_.row
		os_.committed.kids["ffldb-blockidx"] = newNode()
		return nil
	}
	o := os_
	if o == nil {
		return nil
	}
	if out == "panic" {
		return viol("ffldb-panic", "database operation panicked: "+hx.LastPanic())
	}
	expect := func(kind, want string) *hx.Violation {
		if out != want {
			return viol(kind, "got "+clip(out)+", ordered-map model gives "+clip(want))
		}
		return nil
	}
	switch t[0] {
	case "begin":
		o.txs = append(o.txs, &otx{root: o.committed.clone(), writable: strings.HasPrefix(t[1], "rw"), open: true})
		return nil
	case "commit", "rollback", "fail":
		x := o.txs[atoi(t[1])]
		if !x.open {
			return expect("closed-tx", "err txclosed")
		}
		x.open = false
		if t[0] == "commit" {
			if !x.writable {
				return expect("commit-readonly", "err notwritable")
			}
			if out == "ok" {
				o.committed = x.root
				// every commit rewrites the internal write-cursor row
				o.committed.keys["ffldb-writeloc"] = o.row
			}
		}
		return expect("tx-end", "ok")
	case "flush", "stats":
		return nil
	case "reopen":
		for _, x := range o.txs {
			x.open = false
		}
		o.txs, o.curs = nil, nil
		return expect("reopen", "ok")
	}
	if t[0] == "cur" && t[1] != "new" {
		if atoi(t[1]) >= len(o.curs) {
			return nil
		}
		c := o.curs[atoi(t[1])]
		x := o.txs[c.tx]
		if !x.open {
			return nil
		}
		n := x.root.walk(c.path)
		if n == nil {
			return nil // the bucket was deleted under the cursor: unspecified
		}
		es := n.entries()
		find := func(from entry, strict, forward bool) *entry {
			if forward {
				for i := range es {
					if less(from, es[i]) || (!strict && es[i] == from) {
						return &es[i]
					}
				}
				return nil
			}
			for i := len(es) - 1; i >= 0; i-- {
				if less(es[i], from) || (!strict && es[i] == from) {
					return &es[i]
				}
			}
			return nil
		}
		switch t[2] {
		case "first":
			if len(es) > 0 {
				c.cur = &es[0]
			} else {
				c.cur = nil
			}
		case "last":
			if len(es) > 0 {
				c.cur = &es[len(es)-1]
			} else {
				c.cur = nil
			}
		case "seek":
			c.cur = find(entry{false, string(bytesOf(t[3]))}, false, true)
		case "next":
			if c.cur != nil {
				c.cur = find(*c.cur, true, true)
			}
		case "prev":
			if c.cur != nil {
				c.cur = find(*c.cur, true, false)
			}
		case "key":
			want := "nil"
			if c.cur != nil {
				want = hx.Hex([]byte(c.cur.name))
			}
			return expect("cursor-key", want)
		case "value":
			return nil
		case "delete":
			if c.cur == nil || c.cur.bucket {
				return expect("cursor-delete", "err incompatible")
			}
			if !x.writable {
				return expect("cursor-delete-readonly", "err notwritable")
			}
			delete(n.keys, c.cur.name)
			return expect("cursor-delete", "ok")
		}
		if c.cur != nil {
			cp := *c.cur
			c.cur = &cp
		}
		return expect("cursor-"+t[2], o.fmtEntry(n, c.cur))
	}
	// bucket-level ops
	var x *otx
	var path string
	if t[0] == "cur" { // cur new tx path
		x, path = o.txs[atoi(t[2])], t[3]
	} else {
		x, path = o.txs[atoi(t[1])], t[2]
	}
	if !x.open {
		return expect("closed-tx", "err txclosed")
	}
	n := x.root.walk(path)
	if t[0] == "cur" {
		// the cursor numbering follows the implementation, whatever the oracle thinks of the path
		if _, err := strconv.Atoi(out); err == nil {
			o.curs = append(o.curs, &ocur{tx: atoi(t[2]), path: path})
			if n == nil {
				return viol("bucket-path", "a cursor was opened on a bucket that the ordered-map model does not have: "+path)
			}
			return nil
		}
	}
	if n == nil {
		return expect("bucket-path", "nobucket")
	}
	arg := func(i int) string { return string(bytesOf(t[i])) }
	switch t[0] {
	case "cur":
		return expect("bucket-path", "a cursor id")
	case "put":
		if !x.writable {
			return expect("put", "err notwritable")
		}
		if arg(3) == "" {
			return expect("put", "err keyrequired")
		}
		n.keys[arg(3)] = arg(4)
		return expect("put", "ok")
	case "del":
		if !x.writable {
			return expect("del", "err notwritable")
		}
		delete(n.keys, arg(3))
		return expect("del", "ok")
	case "get":
		want := "nil"
		if v, ok := n.keys[arg(3)]; ok && arg(3) != "" {
			want = hx.Hex([]byte(v))
		}
		return expect("get-differs", want)
	case "mkb", "mkbi":
		if !x.writable {
			return expect("mkb", "err notwritable")
		}
		if _, ok := n.kids[arg(3)]; ok && t[0] == "mkbi" {
			return expect("mkb", "ok")
		}
		if arg(3) == "" {
			return expect("mkb", "err namerequired")
		}
		if _, ok := n.kids[arg(3)]; ok {
			return expect("mkb", "err bucketexists")
		}
		n.kids[arg(3)] = newNode()
		return expect("mkb", "ok")
	case "rmb":
		if !x.writable {
			return expect("rmb", "err notwritable")
		}
		if _, ok := n.kids[arg(3)]; !ok {
			return expect("rmb", "err bucketnotfound")
		}
		delete(n.kids, arg(3))
		return expect("rmb", "ok")
	case "hasb":
		_, ok := n.kids[arg(3)]
		return expect("hasb", fmt.Sprint(ok))
	case "each":
		var parts []string
		for _, e := range n.entries() {
			if !e.bucket {
				parts = append(parts, hx.Hex([]byte(e.name))+"="+hx.Hex([]byte(n.keys[e.name])))
			}
		}
		want := "empty"
		if len(parts) > 0 {
			want = strings.Join(parts, ",")
		}
		return expect("foreach-differs", want)
	case "eachb":
		var parts []string
		for _, e := range n.entries() {
			if e.bucket {
				parts = append(parts, hx.Hex([]byte(e.name)))
			}
		}
		want := "empty"
		if len(parts) > 0 {
			want = strings.Join(parts, ",")
		}
		return expect("foreachbucket-differs", want)
	}
	return nil
}

func clip(s string) string {
	if len(s) > 160 {
		return s[:160] + "…"
	}
	return s
}

// ---------------------------------------------------------------- generator

var keyPool = []string{"01", "0100", "0101", "02", "7f", "80", "ff", "ff00", "ffff", "6269", "62696478", "00"}
var namePool = []string{"61", "6162", "62", "ff"}

type gtx struct {
	id       int
	writable bool
	managed  bool
}

type genCtx struct {
	g      *hx.Gen
	r      *hx.Rand
	nTx    int
	nCur   int
	curs   []int    // cursors of the open rw tx
	paths  []string // bucket paths believed to exist (committed or created in the open tx)
	noMixD bool     // generate only direction-consistent cursor walks
	// cursors invalidated by a bucket modification other than Cursor.Delete
	// (database.Cursor contract): they must be repositioned before Next/Prev
	dirty map[int]bool
}

func (c *genCtx) key() string  { return keyPool[c.r.Intn(len(keyPool))] }
func (c *genCtx) name() string { return namePool[c.r.Intn(len(namePool))] }
func (c *genCtx) val() string {
	if c.r.Chance(15) {
		return "-"
	}
	return hx.Hex(c.r.Bytes(1 + c.r.Intn(5)))
}
func (c *genCtx) path() string {
	if len(c.paths) == 0 || c.r.Chance(35) {
		return "."
	}
	return c.paths[c.r.Intn(len(c.paths))]
}

func (c *genCtx) begin(mode string) gtx {
	c.g.Emit("begin %s", mode)
	c.nTx++
	return gtx{id: c.nTx - 1, writable: strings.HasPrefix(mode, "rw"), managed: strings.HasSuffix(mode, "m")}
}

func (c *genCtx) reads(t gtx) {
	r := c.r
	p := c.path()
	switch r.Intn(6) {
	case 0:
		c.g.Emit("each %d %s", t.id, p)
	case 1:
		c.g.Emit("eachb %d %s", t.id, p)
	case 2:
		c.g.Emit("hasb %d %s %s", t.id, p, c.name())
	default:
		c.g.Emit("get %d %s %s", t.id, p, c.key())
	}
}

func (c *genCtx) markDirty() {
	if c.dirty == nil {
		c.dirty = map[int]bool{}
	}
	for _, id := range c.curs {
		c.dirty[id] = true
	}
}

func (c *genCtx) cursorWalk(t gtx, cid int, steps int) {
	r := c.r
	dir := r.Bool()
	for i := 0; i < steps; i++ {
		x := r.Intn(12)
		if c.dirty[cid] && x > 2 {
			x = r.Intn(3)
		}
		if x <= 2 {
			delete(c.dirty, cid)
		}
		if c.noMixD && (x == 4 || x == 5) {
			if dir {
				x = 6
			} else {
				x = 4
			}
		}
		switch {
		case x == 0:
			c.g.Emit("cur %d first", cid)
			dir = true
		case x == 1:
			c.g.Emit("cur %d last", cid)
			dir = false
		case x == 2:
			c.g.Emit("cur %d seek %s", cid, c.key())
			dir = true
		case x == 3:
			c.g.Emit("cur %d key", cid)
		case x == 4 || x == 5:
			c.g.Emit("cur %d prev", cid)
		case x == 10 && t.writable:
			c.g.Emit("cur %d delete", cid)
		case x == 11 && t.writable:
			c.g.Emit("put %d %s %s %s", t.id, c.path(), c.key(), c.val())
			c.markDirty()
			c.dirty[cid] = true
		default:
			c.g.Emit("cur %d next", cid)
		}
	}
}

func (c *genCtx) writes(t gtx, n int) {
	r := c.r
	for i := 0; i < n; i++ {
		p := c.path()
		x := r.Intn(100)
		if x < 76 {
			c.markDirty()
		}
		switch {
		case x < 40:
			k := c.key()
			if r.Chance(4) {
				k = "-"
			}
			c.g.Emit("put %d %s %s %s", t.id, p, k, c.val())
		case x < 55:
			c.g.Emit("del %d %s %s", t.id, p, c.key())
		case x < 68:
			nm := c.name()
			if r.Chance(5) {
				nm = "-"
			}
			op := "mkb"
			if r.Bool() {
				op = "mkbi"
			}
			if strings.Count(p, "/") >= 2 {
				break
			}
			if out := c.g.Emit("%s %d %s %s", op, t.id, p, nm); out == "ok" {
				np := nm
				if p != "." {
					np = p + "/" + nm
				}
				c.paths = append(c.paths, np)
			}
		case x < 76:
			c.g.Emit("rmb %d %s %s", t.id, p, c.name())
		case x < 86:
			if c.nCur < 200 {
				out := c.g.Emit("cur new %d %s", t.id, p)
				if out != "nobucket" && !strings.HasPrefix(out, "err") {
					c.nCur++
					c.curs = append(c.curs, c.nCur-1)
					c.cursorWalk(t, c.nCur-1, 3+r.Intn(8))
				}
			}
		case x < 92 && len(c.curs) > 0:
			c.cursorWalk(t, c.curs[r.Intn(len(c.curs))], 2+r.Intn(6))
		default:
			c.reads(t)
		}
	}
}

// serializeWriteRow(0, 0): file 0, offset 0, CRC-32C of those 8 bytes (little endian)
func initialWriteRow() string {
	row := make([]byte, 12)
	binary.LittleEndian.PutUint32(row[8:], crc32.Checksum(row[:8], crc32.MakeTable(crc32.Castagnoli)))
	return hx.Hex(row)
}

func genHistory(g *hx.Gen, noMix bool) {
	r := g.R
	c := &genCtx{g: g, r: r, noMixD: noMix}
	g.Emit("reset")
	maxSize := r.Pick(0, 300, 1500, 20971520)
	mode := "never"
	if r.Chance(25) {
		mode = "always"
	}
	// the initial write-cursor row: file 0, offset 0 + its CRC-32C
	g.Emit("open %d %s %s", maxSize, mode, initialWriteRow())
	var ros []gtx
	for i := 0; i < 6+r.Intn(10); i++ {
		x := r.Intn(100)
		switch {
		case x < 60:
			m := "rw"
			if r.Chance(30) {
				m = "rwm"
			}
			t := c.begin(m)
			c.curs = nil
			c.writes(t, 3+r.Intn(12))
			for _, ro := range ros { // older read-only snapshots stay isolated
				c.reads(ro)
			}
			switch {
			case r.Chance(20):
				if t.managed {
					g.Emit("fail %d", t.id)
				} else {
					g.Emit("rollback %d", t.id)
				}
			default:
				g.Emit("commit %d", t.id)
			}
			g.Emit("stats")
			c.curs = nil
		case x < 72 && len(ros) < 3:
			m := "ro"
			if r.Chance(30) {
				m = "rom"
			}
			t := c.begin(m)
			ros = append(ros, t)
			c.reads(t)
			if r.Chance(30) {
				g.Emit("put %d . %s %s", t.id, c.key(), c.val())
				g.Emit("mkb %d . %s", t.id, c.name())
			}
			if r.Chance(50) {
				out := g.Emit("cur new %d %s", t.id, c.path())
				if out != "nobucket" && !strings.HasPrefix(out, "err") {
					c.nCur++
					c.cursorWalk(t, c.nCur-1, 4+r.Intn(8))
				}
			}
		case x < 80 && len(ros) > 0:
			k := r.Intn(len(ros))
			g.Emit("rollback %d", ros[k].id)
			ros = append(ros[:k], ros[k+1:]...)
		case x < 88:
			if len(ros) == 0 {
				g.Emit("flush")
				g.Emit("stats")
			}
		default:
			for _, ro := range ros {
				g.Emit("rollback %d", ro.id)
			}
			ros = nil
			g.Emit("reopen")
			c.nTx, c.nCur = 0, 0
			g.Emit("stats")
		}
		// a fresh read-only look at everything
		if r.Chance(50) {
			t := c.begin("ro")
			g.Emit("each %d .", t.id)
			g.Emit("eachb %d .", t.id)
			for _, p := range c.paths {
				if r.Chance(40) {
					g.Emit("each %d %s", t.id, p)
					g.Emit("eachb %d %s", t.id, p)
				}
			}
			out := g.Emit("cur new %d %s", t.id, c.path())
			if out != "nobucket" && !strings.HasPrefix(out, "err") {
				c.nCur++
				c.cursorWalk(t, c.nCur-1, 4+r.Intn(10))
			}
			g.Emit("rollback %d", t.id)
		}
	}
	for _, ro := range ros {
		g.Emit("rollback %d", ro.id)
	}
}

// a few keys rewritten / deleted / re-put by consecutive commits with a cache that holds at most
// one commit: every other commit takes the flush + write-through path while the keys it touches
// are still dirty in the cache (stale cached puts / removes must never win over newer data)
func genHotHistory(g *hx.Gen) {
	r := g.R
	c := &genCtx{g: g, r: r}
	g.Emit("reset")
	mode := "never"
	if r.Chance(15) {
		mode = "always"
	}
	g.Emit("open %d %s %s", r.Pick(0, 0, 1, 200), mode, initialWriteRow())
	keys := []string{"01", "02", "ff"}
	hasB := false
	for i := 0; i < 8+r.Intn(10); i++ {
		t := c.begin("rw")
		for k := 0; k < 1+r.Intn(3); k++ {
			p := "."
			if hasB && r.Chance(35) {
				p = "61"
			}
			key := keys[r.Intn(len(keys))]
			switch x := r.Intn(10); {
			case x < 5:
				g.Emit("put %d %s %s %s", t.id, p, key, c.val())
			case x < 8:
				g.Emit("del %d %s %s", t.id, p, key)
			case x == 8 && !hasB:
				if g.Emit("mkb %d . 61", t.id) == "ok" {
					hasB = true
				}
			case x == 9 && hasB:
				if g.Emit("rmb %d . 61", t.id) == "ok" {
					hasB = false
				}
			}
		}
		if r.Chance(12) {
			g.Emit("rollback %d", t.id)
			hasB = false
			// the bucket may or may not exist now; find out
			q := c.begin("ro")
			if g.Emit("hasb %d . 61", q.id) == "true" {
				hasB = true
			}
			g.Emit("rollback %d", q.id)
		} else {
			g.Emit("commit %d", t.id)
		}
		g.Emit("stats")
		if r.Chance(15) {
			g.Emit("flush")
		}
		if r.Chance(10) {
			g.Emit("reopen")
			c.nTx, c.nCur = 0, 0
		}
		q := c.begin("ro")
		for _, key := range keys {
			g.Emit("get %d . %s", q.id, key)
		}
		g.Emit("each %d .", q.id)
		g.Emit("eachb %d .", q.id)
		if hasB {
			g.Emit("each %d 61", q.id)
		}
		g.Emit("rollback %d", q.id)
	}
	g.Emit("reopen")
	c.nTx, c.nCur = 0, 0
	q := c.begin("ro")
	g.Emit("each %d .", q.id)
	g.Emit("rollback %d", q.id)
}

func gen(g *hx.Gen) {
	for h := 0; h < g.N(60, 400); h++ {
		genHotHistory(g)
	}
	for h := 0; h < g.N(200, 1400); h++ {
		genHistory(g, h%3 == 0)
	}
	g.Emit("reset")
	closeAll()
	if baseDir != "" {
		os.RemoveAll(baseDir)
	}
}

func nontrivial(t []string, out string) bool { return t[0] == "commit" && out == "ok" }

func bucket(t []string, out string) string {
	k := t[0]
	if t[0] == "cur" {
		if t[1] == "new" {
			return "cur/new"
		}
		k = "cur/" + t[2]
		f := strings.Fields(out)
		if len(f) == 3 {
			k += "/" + f[0]
		}
		return k
	}
	if strings.HasPrefix(out, "err") {
		return k + "/" + out
	}
	return k
}

func main() {
	hx.Main(&hx.Prop{Name: "C16", Gen: gen, Exec: exec, Oracle: oracle, Nontrivial: nontrivial, Bucket: bucket, Stateful: true})
}
