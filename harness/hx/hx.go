// Package hx is the shared runtime of the correspondence harnesses.
//
// A property harness supplies
//   - Gen:    a generator emitting op lines (all randomness from the seeded PRNG),
//   - Exec:   the adapter that runs the REAL implementation on one op line and
//             returns one canonical output line (a Go panic becomes "panic"),
//   - Oracle: optional direct judgement of the implementation's answer against
//             the property statement (used as the failing-input search),
//   - Nontrivial: the non-triviality rule for evidence counting.
//
// hx.Main writes ops.txt, impl.out, viol.jsonl and stats.json into -out.
package hx

import (
	"bufio"
	"crypto/sha256"
	"encoding/hex"
	"encoding/json"
	"flag"
	"fmt"
	"os"
	"path/filepath"
	"sort"
	"strings"

	elalog "github.com/elastos/Elastos.ELA/common/log"
)

// ---------------------------------------------------------------- PRNG

type Rand struct{ s uint64 }

func NewRand(seed uint64) *Rand { return &Rand{s: seed*0x9E3779B97F4A7C15 + 0x1234567} }

func (r *Rand) U64() uint64 {
	r.s += 0x9E3779B97F4A7C15
	z := r.s
	z = (z ^ (z >> 30)) * 0xBF58476D1CE4E5B9
	z = (z ^ (z >> 27)) * 0x94D049BB133111EB
	return z ^ (z >> 31)
}
func (r *Rand) Intn(n int) int {
	if n <= 0 {
		return 0
	}
	return int(r.U64() % uint64(n))
}
func (r *Rand) Bool() bool   { return r.U64()&1 == 1 }
func (r *Rand) Byte() byte   { return byte(r.U64()) }
func (r *Rand) Chance(p int) bool { return r.Intn(100) < p } // p percent
func (r *Rand) Bytes(n int) []byte {
	b := make([]byte, n)
	for i := range b {
		b[i] = r.Byte()
	}
	return b
}
func (r *Rand) Pick(xs ...int) int { return xs[r.Intn(len(xs))] }

// Fork derives an independent stream (so that adding draws in one place does
// not shift every later case).
func (r *Rand) Fork(tag uint64) *Rand { return NewRand(r.U64() ^ tag*0xD1342543DE82EF95) }

// ---------------------------------------------------------------- protocol helpers

func Hex(b []byte) string {
	if len(b) == 0 {
		return "-"
	}
	return hex.EncodeToString(b)
}
func UnHex(s string) []byte {
	if s == "-" {
		return nil
	}
	b, err := hex.DecodeString(s)
	if err != nil {
		panic("harness: bad hex in op: " + s)
	}
	return b
}

// ---------------------------------------------------------------- run

type Violation struct {
	Kind   string `json:"kind"`   // stable key matched against known-findings.jsonl
	Op     string `json:"op"`     // the op line (or history id) on which the implementation fails
	Out    string `json:"out"`    // what the implementation answered
	Detail string `json:"detail"` // human readable
	History []string `json:"history,omitempty"`
}

type Prop struct {
	Name       string
	Gen        func(g *Gen)
	Exec       func(toks []string) string
	Oracle     func(toks []string, out string) *Violation
	Nontrivial func(toks []string, out string) bool
	// Bucket returns a histogram key for the op/out pair (optional).
	Bucket func(toks []string, out string) string
	// Stateful: ops between two "reset" lines form one history; distinctness
	// is then counted per history, and a violation records the history so far.
	Stateful bool
}

type Gen struct {
	R     *Rand
	Tier  string
	Seed  uint64
	run   *runner
}

// Quick reports whether this is the quick tier.
func (g *Gen) Quick() bool { return g.Tier != "thorough" }

// N picks the case count for the tier.
func (g *Gen) N(quick, thorough int) int {
	if g.Quick() {
		return quick
	}
	return thorough
}

// Emit executes one op line on the implementation and records everything.
// It returns the implementation's output (generators of stateful streams may
// look at it).
func (g *Gen) Emit(format string, a ...interface{}) string {
	return g.run.do(fmt.Sprintf(format, a...))
}

type runner struct {
	p        *Prop
	ops      *bufio.Writer
	impl     *bufio.Writer
	viol     *bufio.Writer
	nviol    int
	evals    int
	distinct map[[16]byte]struct{}
	hist     map[string]int
	samples  []string
	history  []string
	histNT   bool
	panics   int
	perKind  map[string]int
}

func safeExec(p *Prop, toks []string) (out string) {
	defer func() {
		if e := recover(); e != nil {
			msg := fmt.Sprint(e)
			if strings.HasPrefix(msg, "harness:") {
				fmt.Fprintln(os.Stderr, "HARNESS BUG:", msg)
				os.Exit(3)
			}
			out = "panic"
			lastPanic = msg
			if os.Getenv("HX_DEBUG") != "" {
				fmt.Fprintln(os.Stderr, "recovered panic:", msg, "op:", strings.Join(toks, " "))
			}
		}
	}()
	return p.Exec(toks)
}

var lastPanic string

// LastPanic returns the message of the most recent recovered panic.
func LastPanic() string { return lastPanic }

func (r *runner) flushHistory() {
	if r.p.Stateful && len(r.history) > 0 {
		if r.histNT {
			h := sha256.Sum256([]byte(strings.Join(r.history, "\n")))
			var k [16]byte
			copy(k[:], h[:16])
			r.distinct[k] = struct{}{}
		}
	}
	r.history = r.history[:0]
	r.histNT = false
}

func (r *runner) do(op string) string {
	op = strings.TrimSpace(op)
	toks := strings.Fields(op)
	if len(toks) == 0 {
		return ""
	}
	if r.p.Stateful && toks[0] == "reset" {
		r.flushHistory()
	}
	// the op is on disk before the implementation runs: if the process dies
	// (fatal runtime error, OOM, timeout) the last line of ops.txt is the culprit
	r.ops.WriteString(op)
	r.ops.WriteByte('\n')
	r.ops.Flush()
	out := safeExec(r.p, toks)
	if strings.ContainsAny(out, "\n\r") {
		out = strings.ReplaceAll(strings.ReplaceAll(out, "\n", "\\n"), "\r", "")
	}
	r.impl.WriteString(out)
	r.impl.WriteByte('\n')
	r.evals++
	if out == "panic" {
		r.panics++
	}
	if r.p.Stateful {
		r.history = append(r.history, op)
	}
	nt := true
	if r.p.Nontrivial != nil {
		nt = r.p.Nontrivial(toks, out)
	}
	if nt {
		if r.p.Stateful {
			r.histNT = true
		} else {
			h := sha256.Sum256([]byte(op))
			var k [16]byte
			copy(k[:], h[:16])
			r.distinct[k] = struct{}{}
		}
	}
	if r.p.Bucket != nil {
		r.hist[r.p.Bucket(toks, out)]++
	} else {
		f := strings.Fields(out)
		cls := "value"
		if len(f) > 0 && (f[0] == "ok" || f[0] == "err" || f[0] == "panic" || f[0] == "true" || f[0] == "false" || f[0] == "accept" || f[0] == "reject") {
			cls = f[0]
			if f[0] == "err" && len(f) > 1 {
				cls += " " + f[1]
			}
		}
		k := toks[0] + "/" + cls
		if len(k) > 48 {
			k = k[:48]
		}
		r.hist[k]++
	}
	if len(r.samples) < 12 && (r.evals < 4 || r.evals%997 == 0) {
		s := op + " => " + out
		if len(s) > 300 {
			s = s[:300] + "…"
		}
		r.samples = append(r.samples, s)
	}
	if r.p.Oracle != nil {
		if v := r.p.Oracle(toks, out); v != nil {
			if v.Op == "" {
				v.Op = op
			}
			if v.Out == "" {
				v.Out = out
			}
			if r.p.Stateful {
				v.History = append([]string(nil), r.history...)
			}
			// per-kind cap so that a frequent (e.g. known) kind cannot crowd out a fresh one
			if r.perKind == nil {
				r.perKind = map[string]int{}
			}
			r.perKind[v.Kind]++
			if r.perKind[v.Kind] <= 25 {
				b, _ := json.Marshal(v)
				r.viol.Write(b)
				r.viol.WriteByte('\n')
			}
			r.nviol++
		}
	}
	return out
}

// Main is the entry point of every property harness binary.
func Main(p *Prop) {
	seed := flag.Uint64("seed", 1, "VERIF_SEED")
	tier := flag.String("tier", "quick", "quick|thorough")
	outDir := flag.String("out", ".", "output directory")
	opsFiles := flag.String("ops", "", "comma separated op files to execute instead of generating (corpus / replay)")
	nogen := flag.Bool("nogen", false, "only run -ops files")
	flag.Parse()
	os.MkdirAll(*outDir, 0o755)
	// the node's package-level logger must exist (nil otherwise); level 255 = silent
	elalog.NewDefault(filepath.Join(*outDir, "nodelogs"), 255, 0, 0)
	mk := func(name string) (*os.File, *bufio.Writer) {
		f, err := os.Create(filepath.Join(*outDir, name))
		if err != nil {
			fmt.Fprintln(os.Stderr, err)
			os.Exit(3)
		}
		return f, bufio.NewWriterSize(f, 1<<20)
	}
	fo, wo := mk("ops.txt")
	fi, wi := mk("impl.out")
	fv, wv := mk("viol.jsonl")
	r := &runner{p: p, ops: wo, impl: wi, viol: wv, distinct: map[[16]byte]struct{}{}, hist: map[string]int{}}
	corpusOps := 0
	if *opsFiles != "" {
		for _, f := range strings.Split(*opsFiles, ",") {
			if f == "" {
				continue
			}
			fh, err := os.Open(f)
			if err != nil {
				fmt.Fprintln(os.Stderr, err)
				os.Exit(3)
			}
			sc := bufio.NewScanner(fh)
			sc.Buffer(make([]byte, 1<<20), 1<<28)
			if p.Stateful {
				r.do("reset")
			}
			for sc.Scan() {
				line := strings.TrimSpace(sc.Text())
				if line == "" || strings.HasPrefix(line, "#") {
					continue
				}
				r.do(line)
				corpusOps++
			}
			fh.Close()
		}
	}
	if !*nogen && p.Gen != nil {
		g := &Gen{R: NewRand(*seed), Tier: *tier, Seed: *seed, run: r}
		p.Gen(g)
	}
	r.flushHistory()
	wo.Flush()
	wi.Flush()
	wv.Flush()
	fo.Close()
	fi.Close()
	fv.Close()
	keys := make([]string, 0, len(r.hist))
	for k := range r.hist {
		keys = append(keys, k)
	}
	sort.Strings(keys)
	hist := map[string]int{}
	for _, k := range keys {
		hist[k] = r.hist[k]
	}
	st := map[string]interface{}{
		"property":            p.Name,
		"seed":                *seed,
		"tier":                *tier,
		"evaluations":         r.evals,
		"corpus_ops":          corpusOps,
		"distinct_nontrivial": len(r.distinct),
		"histogram":           hist,
		"samples":             r.samples,
		"violations":          r.nviol,
		"impl_panics":         r.panics,
		"stateful":            p.Stateful,
	}
	b, _ := json.MarshalIndent(st, "", " ")
	os.WriteFile(filepath.Join(*outDir, "stats.json"), b, 0o644)
}
