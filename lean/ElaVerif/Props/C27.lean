import ElaVerif.Model.Distribute
import ElaVerif.Lemmas.Distribute
import ElaVerif.Lemmas.DistributeFloat
import ElaVerif.Gen.C27
/-!
# C27 — DPoS reward distribution never pays out more than the pool

Model: `ElaVerif/Model/Distribute.lean` (`distribute ibc share inp`, the four eras V0..V3 of
`distributeWithNormalArbitrators*` and the `change < 0` guard of `distributeDPOSReward`).  The two
float quantities of the Go code are parameters (`ibc`, `share`): every theorem holds for whatever
numbers the float arithmetic produces, including NaN → −2^63.

Full-strength statement (kept visible):

    FullStatement := ∀ ibc share inp m change, 0 ≤ reward →
        distribute ibc share inp = some (m, change) →
        0 ≤ change ∧ (∀ e ∈ m, 0 ≤ e.2) ∧ Σℤ m + change ≤ reward

* `C27_change_nonneg`, `C27_attributed_le_reward_partial`, `C27_real_is_sum`,
  `C27_payments_nonneg_partial` — what holds: the remainder is never negative, the amount attributed
  as paid (`realDPOSReward`) is at most the reward, it is the 64-bit sum of all individual
  payments, and each payment is non-negative when `ibc` and `share` are.
* `C27_zero_votes_false` — negation of "no payout is negative": with zero total votes the float
  share is NaN, converted to −2^63 (replayed on the real code, known finding).
* `C27_conservation_false` — negation of "payouts plus remainder stay within the reward": with
  fewer on-duty arbiters than configured seats (eras V2/V3) the block-confirm parts of the empty
  seats are both paid to the destroy address and left in the remainder (replayed, known finding).
-/
namespace ElaVerif.C27
open ElaVerif.Fixed64 ElaVerif.Distribute

/-- the remainder carried forward by a successful distribution is never negative -/
theorem C27_change_nonneg (ibc : Fixed64) (share : Fixed64 → Fixed64) (inp : Input) (m : RMap) (change : Fixed64)
    (h : distribute ibc share inp = some (m, change)) : 0 ≤ toInt change := by
  unfold distribute at h
  split at h
  · cases h
  · simp only [] at h
    split at h
    · cases h
    · rename_i hlt
      simp only [Option.some.injEq, Prod.mk.injEq] at h
      rw [← h.2]
      exact (lt_zero_false _).mp (by simpa using hlt)

/-- the amount attributed as paid (`realDPOSReward`) is at most the reward, and the remainder is
    exactly the difference — provided the 64-bit accumulator did not wrap (`0 ≤ real`; with
    non-negative payments that is `Σ payments < 2^63`).  `_partial`: the accumulator bound is a
    hypothesis, not derived from the float arithmetic.
    Domain note: this statement is about `realDPOSReward` and needs no bound on the reward.  The
    stronger reading "the sum of the result map is at most the reward" additionally depends on the
    float quantities (`N·ibc ≤ reward/4`, `Σ share ≤ 3·reward/4`); that is oracle-checked only, and
    only for `reward < 2^53` sela, where `float64(reward)` is exact — above that the shares can
    exceed the reward by rounding (seen from 10^16 sela on; more than the total supply). -/
theorem C27_attributed_le_reward_partial (ibc : Fixed64) (share : Fixed64 → Fixed64) (inp : Input)
    (m : RMap) (change : Fixed64) (h : distribute ibc share inp = some (m, change)) :
    ∃ real, distributeEra ibc share inp = some (m, real) ∧ change = inp.reward - real ∧
      (0 ≤ toInt inp.reward → 0 ≤ toInt real →
        toInt real ≤ toInt inp.reward ∧ toInt change = toInt inp.reward - toInt real) := by
  have hc := C27_change_nonneg ibc share inp m change h
  unfold distribute at h
  split at h
  · cases h
  · rename_i m' real heq
    simp only [] at h
    split at h
    · cases h
    · simp only [Option.some.injEq, Prod.mk.injEq] at h
      obtain ⟨hm, hch⟩ := h
      subst hm
      refine ⟨real, heq, hch.symm, ?_⟩
      intro hr hreal
      have hx : toInt (inp.reward - real) = toInt inp.reward - toInt real := by
        have e : inp.reward - real = ofInt (toInt inp.reward - toInt real) := by
          unfold ofInt toInt
          rw [BitVec.sub_eq_iff_eq_add, ← BitVec.ofInt_toInt (x := real), ← BitVec.ofInt_add, BitVec.ofInt_toInt]
          have : inp.reward.toInt - real.toInt + real.toInt = inp.reward.toInt := by omega
          rw [this, BitVec.ofInt_toInt]
        rw [e, Fixed64.toInt_ofInt]
        have := toInt_hi inp.reward
        have := toInt_hi real
        apply bmod_exact <;> omega
      rw [← hch] at hc
      rw [← hch]
      omega

/-- outside the early exits `realDPOSReward` is the 64-bit running sum of every individual payment
    (each on-duty arbiter, then each candidate) -/
theorem C27_real_is_sum (ibc : Fixed64) (share : Fixed64 → Fixed64) (inp : Input) (m : RMap) (real : Fixed64)
    (hne : earlyExit inp = false) (h : distributeEra ibc share inp = some (m, real)) :
    real = sumW (payments inp.era ibc share inp) :=
  real_is_sum ibc share inp m real hne h

/-- every individual payment is non-negative when the two float quantities are (and their sum
    fits).  `_partial`: non-negativity of `ibc`/`share` is a hypothesis — it fails for zero total votes. -/
theorem C27_payments_nonneg_partial (era : Nat) (ibc : Fixed64) (share : Fixed64 → Fixed64) (inp : Input)
    (hi : 0 ≤ toInt ibc) (hs : ∀ v, 0 ≤ toInt (share v))
    (hfit : ∀ v, toInt ibc + toInt (share v) < 9223372036854775808) :
    ∀ p ∈ payments era ibc share inp, 0 ≤ toInt p := by
  intro p hp
  unfold payments at hp
  rw [List.mem_append] at hp
  rcases hp with hp | hp
  · rw [List.mem_map] at hp
    obtain ⟨a, _, rfl⟩ := hp
    have hadd : 0 ≤ toInt (ibc + share a.votes) := by
      have h1 := hs a.votes
      have h2 := hfit a.votes
      have hlo := toInt_lo (ibc + share a.votes)
      have hhi := toInt_hi (ibc + share a.votes)
      rcases add_toInt_cases ibc (share a.votes) with e | e | e <;> omega
    unfold amount payArb
    cases a.kind <;> simp only [] <;> (repeat' split) <;> first | exact hi | exact hadd
  · rw [List.mem_map] at hp
    obtain ⟨v, _, rfl⟩ := hp
    exact hs v

/-! ### with the float quantities of the standard model (no longer parametric) -/

/-- a consistent distribution input: reward below 2^51 sela (22.5 million ELA — the exact domain:
    the roundings inflate the payments by at most `reward·2.5·2⁻⁵³`, which stays below one sela up to
    ≈ 2^51.7; from ≈ 3.6·10^15 sela on the floors can add up to more than the reward), at least one
    seat, a positive vote total that covers every vote count a payment is computed from, no more
    on-duty arbiters than seats -/
structure WFDist (inp : Input) (total : Fixed64) : Prop where
  reward_nonneg : 0 ≤ toInt inp.reward
  reward_small : toInt inp.reward < 2 ^ 51
  seats : 0 < arbitersCount inp
  total_pos : 0 < toInt total
  votes_nonneg : ∀ v ∈ countedVotes inp, 0 ≤ v
  votes_le_total : (countedVotes inp).sum ≤ toInt total
  on_duty_le_seats : inp.arbs.length ≤ arbitersCount inp

/-- **Every payment is non-negative and all payments together are at most the reward**, for
    every rounding operator satisfying the standard model of binary64 arithmetic
    (`ibcF`, `shareF` = the Go float expressions over that operator). -/
theorem C27_payments_bounded_std (fl : ℚ → ℚ) (h : FloatModel.StdModel fl) (inp : Input) (total : Fixed64)
    (wf : WFDist inp total) :
    (∀ p ∈ payments inp.era (ibcF fl inp.reward (arbitersCount inp)) (shareF fl inp.reward total) inp, 0 ≤ toInt p) ∧
    sumZ (payments inp.era (ibcF fl inp.reward (arbitersCount inp)) (shareF fl inp.reward total) inp)
      ≤ toInt inp.reward :=
  payments_bounded h inp total wf.reward_nonneg wf.reward_small wf.seats wf.total_pos wf.votes_nonneg
    wf.votes_le_total wf.on_duty_le_seats

/-- **… so the distribution succeeds, attributes at most the reward, and carries forward exactly the
    non-negative difference**: on a consistent input the `change < 0` error cannot occur and the
    64-bit accumulator does not wrap. -/
theorem C27_no_overpay_std (fl : ℚ → ℚ) (h : FloatModel.StdModel fl) (inp : Input) (total : Fixed64)
    (wf : WFDist inp total) (hne : earlyExit inp = false)
    (m : RMap) (real : Fixed64)
    (he : distributeEra (ibcF fl inp.reward (arbitersCount inp)) (shareF fl inp.reward total) inp = some (m, real)) :
    toInt real ≤ toInt inp.reward ∧ 0 ≤ toInt real ∧
    distribute (ibcF fl inp.reward (arbitersCount inp)) (shareF fl inp.reward total) inp
      = some (m, inp.reward - real) ∧
    toInt (inp.reward - real) = toInt inp.reward - toInt real := by
  obtain ⟨hnn, hle⟩ := C27_payments_bounded_std fl h inp total wf
  have hreal := C27_real_is_sum _ _ inp m real hne he
  have hs0 := sumZ_nonneg _ hnn
  have hex : toInt real = sumZ (payments inp.era (ibcF fl inp.reward (arbitersCount inp)) (shareF fl inp.reward total) inp) := by
    rw [hreal, sumW_eq, Fixed64.toInt_ofInt]
    have := wf.reward_small
    exact bmod_exact _ (by omega) (by omega)
  have hdiff : toInt (inp.reward - real) = toInt inp.reward - toInt real := by
    have e : inp.reward - real = ofInt (toInt inp.reward - toInt real) := by
      unfold ofInt toInt
      rw [BitVec.sub_eq_iff_eq_add, ← BitVec.ofInt_toInt (x := real), ← BitVec.ofInt_add, BitVec.ofInt_toInt]
      have : inp.reward.toInt - real.toInt + real.toInt = inp.reward.toInt := by omega
      rw [this, BitVec.ofInt_toInt]
    rw [e, Fixed64.toInt_ofInt]
    have := wf.reward_small
    have := wf.reward_nonneg
    apply bmod_exact <;> omega
  refine ⟨by omega, by omega, ?_, hdiff⟩
  unfold distribute
  rw [he]
  simp only []
  have hlt : lt (inp.reward - real) 0 = false := (lt_zero_false _).mpr (by omega)
  split
  · rename_i hc
    rw [hlt] at hc
    cases hc
  · rfl

/-- non-vacuity: 3 on-duty arbiters of 36 seats, votes 500/700 of 1200 (numbers of the replay) -/
def demo : Input := ⟨3, false, 12, 24, 191780820000, [⟨.crcOwner, 0⟩, ⟨.normal, 500⟩, ⟨.normal, 700⟩], []⟩
def demoShare : Fixed64 → Fixed64 := fun v => if v = 500 then 59931506250 else if v = 700 then 83904108750 else 0

example : distribute 1331811250 demoShare demo =
    some ([(.arb 0, 1331811250), (.arb 1, 61263317500), (.arb 2, 85235920000), (.destroy, 43949771250)], 43949771250) := by
  decide

/-- exact total of a result map -/
def mapTotal (m : RMap) : Int := sumZ (m.map (·.2))

/-- **"No individual payout is negative" is false**: with zero total votes the share of every
    producer is `Fixed64(floor(v * (x/0)))` = −2^63 on amd64, two of them wrap the accumulator
    back, the guard passes, and the result map carries the negative entries. -/
theorem C27_zero_votes_false :
    ¬ (∀ (ibc : Fixed64) (share : Fixed64 → Fixed64) (inp : Input) (m : RMap) (change : Fixed64),
        0 ≤ toInt inp.reward → distribute ibc share inp = some (m, change) → ∀ e ∈ m, 0 ≤ toInt e.2) := by
  intro h
  have := h 1331811250 (fun _ => ofInt (-9223372036854775808))
    ⟨3, false, 12, 24, 191780820000, [⟨.crcOwner, 0⟩, ⟨.normal, 0⟩, ⟨.normal, 0⟩], []⟩
    [(.arb 0, 1331811250), (.arb 1, ofInt (-9223372035522964558)), (.arb 2, ofInt (-9223372035522964558)),
     (.destroy, 43949771250)] 187785386250 (by decide) (by decide)
    (.arb 1, ofInt (-9223372035522964558)) (by simp)
  exact absurd this (by decide)

/-- **"Payouts plus the remainder stay within the reward" is false** in eras V2/V3 when fewer
    arbiters are on duty than there are configured seats. -/
theorem C27_conservation_false :
    ¬ (∀ (ibc : Fixed64) (share : Fixed64 → Fixed64) (inp : Input) (m : RMap) (change : Fixed64),
        0 ≤ toInt inp.reward → distribute ibc share inp = some (m, change) →
        mapTotal m + toInt change ≤ toInt inp.reward) := by
  intro h
  have := h 1331811250 demoShare demo
    [(.arb 0, 1331811250), (.arb 1, 61263317500), (.arb 2, 85235920000), (.destroy, 43949771250)] 43949771250
    (by decide) (by decide)
  exact absurd this (by decide)

/-! ### the bookkeeping around the distribution (accumulateReward / clearingDPOSReward / forceChange)
    and the coinbase validator (compared with the real functions by the `book` stream) -/

/-- **A clearing hands out exactly what it takes in**: the pool it distributes plus what it carries
    forward is the accumulated reward plus the clearing block's own reward — for the regular round
    change (pool = accumulated + block, nothing carried) and for the forced change (pool =
    accumulated, the block's reward carried) alike; the round reward and change it records are
    those of `distributeDPOSReward` on that pool. -/
theorem C27_clearing_conserves (dist : Fixed64 → Option (RMap × Fixed64)) (smooth : Bool) (b : Fixed64)
    (s s' : Book) (h : clearing dist smooth b s = some s') :
    (clearingPool smooth b s).1 + s'.acc = s.acc + b ∧
    dist (clearingPool smooth b s).1 = some (s'.rr, s'.change) := by
  unfold clearing at h
  cases smooth <;> simp only [clearingPool, Bool.false_eq_true, if_false, if_true] at h ⊢
  · split at h
    · cases h
    · rename_i m change heq
      cases h
      exact ⟨rfl, heq⟩
  · split at h
    · cases h
    · rename_i m change heq
      cases h
      refine ⟨?_, heq⟩
      simp

/-- an ordinary block adds its own reward to the pool, or nothing (right after a forced change
    once CR voting has started) — never more -/
theorem C27_accumulate (voting : Bool) (b : Fixed64) (s : Book) :
    ((accumulate voting b s).acc = s.acc + b ∨ (accumulate voting b s).acc = s.acc) ∧
    (accumulate voting b s).rr = [] ∧ (accumulate voting b s).change = 0 := by
  unfold accumulate
  simp only []
  split <;> simp

/-- the coinbase validator accepts exactly the reward outputs that are as many as the entries of
    the round reward and each pay a known recipient its recorded amount -/
theorem C27_coinbase_round_check (rr : RMap) (outs : List (Key × Fixed64)) :
    coinbaseRoundCheck rr outs = true ↔
      rr.length = outs.length ∧ ∀ o ∈ outs, rr.get o.1 = some o.2 := by
  unfold coinbaseRoundCheck
  simp [List.all_eq_true]

/-- **… which is not "every recipient exactly once"**: a coinbase that pays the first recipient
    twice and drops the last one passes, so the reward outputs can add up to more than the round
    reward (replayed on the real CheckCoinbaseArbitratorsReward; known finding
    C27-coinbase-duplicate-recipient). -/
theorem C27_coinbase_round_check_overpay_false :
    ¬ (∀ (rr : RMap) (outs : List (Key × Fixed64)), coinbaseRoundCheck rr outs = true →
        sumZ (outs.map (·.2)) ≤ sumZ (rr.map (·.2))) := by
  intro h
  have := h [(.arb 0, 10), (.arb 1, 1)] [(.arb 0, 10), (.arb 0, 10)] (by decide)
  exact absurd this (by decide)

/-! ### the DPoS 2.0 per-block split (getDPoSV2RewardsV2; compared with the real function by the
    `v2split` stream) -/

/-- **The split hands out exactly the block's reward** (64-bit total), whoever the sponsor is — a
    current CRC arbiter (paid everything) or a registered producer (voters' shares, the rest to the
    producer's owner) — and nothing when the sponsor is unknown. -/
theorem C27_v2split_conserves (reward : Fixed64) (crcMatch : Option Nat) (producerKnown : Bool)
    (shares : List (Nat × Fixed64)) :
    sumW ((v2Split reward crcMatch producerKnown shares).map (·.2)) =
      if crcMatch.isSome || producerKnown then reward else 0 := by
  unfold v2Split
  cases crcMatch with
  | some i => simp [sumW, sumFrom]
  | none =>
    cases producerKnown with
    | false => simp [sumW, sumFrom]
    | true =>
      simp only [Bool.not_true, Bool.false_eq_true, if_false, Option.isSome_none, Bool.false_or, if_true,
        List.map_append, List.map_map, List.map_cons, List.map_nil]
      have hm : (List.map ((fun x => x.2) ∘ fun s => (V2Key.voter s.1, s.2)) shares) = shares.map (·.2) := by
        apply List.map_congr_left; intro a _; rfl
      rw [hm]
      unfold sumW
      rw [sumFrom_append]
      simp only [sumFrom]
      rw [BitVec.add_comm, BitVec.sub_add_cancel]

/-- every credited amount is non-negative and the exact total is the reward, provided the voters'
    shares are non-negative and together at most the reward.  `_partial`: that bound on the float
    shares (they are parts of three quarters of the reward) is a hypothesis here. -/
theorem C27_v2split_bounds_partial (reward : Fixed64) (crcMatch : Option Nat) (producerKnown : Bool)
    (shares : List (Nat × Fixed64)) (hR : 0 ≤ toInt reward)
    (hs : ∀ s ∈ shares, 0 ≤ toInt s.2) (hsum : sumZ (shares.map (·.2)) ≤ toInt reward) :
    ∀ e ∈ v2Split reward crcMatch producerKnown shares, 0 ≤ toInt e.2 := by
  intro e he
  unfold v2Split at he
  cases crcMatch with
  | some i =>
    simp only [List.mem_singleton] at he
    subst he; exact hR
  | none =>
    cases producerKnown with
    | false => simp at he
    | true =>
      simp only [Bool.not_true, Bool.false_eq_true, if_false, List.mem_append, List.mem_map, List.mem_singleton] at he
      rcases he with ⟨s, hsm, rfl⟩ | rfl
      · exact hs s hsm
      · have hnn : ∀ x ∈ shares.map (·.2), 0 ≤ toInt x := by
          intro x hx
          obtain ⟨s, hsm, rfl⟩ := List.mem_map.mp hx
          exact hs s hsm
        have h0 := sumZ_nonneg _ hnn
        have hRhi := toInt_hi reward
        have hex : toInt (sumW (shares.map (·.2))) = sumZ (shares.map (·.2)) := by
          rw [sumW_eq, Fixed64.toInt_ofInt]; exact bmod_exact _ (by omega) (by omega)
        have e : reward - sumW (shares.map (·.2)) = ofInt (toInt reward - toInt (sumW (shares.map (·.2)))) := by
          unfold ofInt toInt
          rw [BitVec.sub_eq_iff_eq_add, ← BitVec.ofInt_toInt (x := sumW (shares.map (·.2))), ← BitVec.ofInt_add, BitVec.ofInt_toInt]
          have : reward.toInt - (sumW (shares.map (·.2))).toInt + (sumW (shares.map (·.2))).toInt = reward.toInt := by omega
          rw [this, BitVec.ofInt_toInt]
        show 0 ≤ toInt (reward - sumW (shares.map (·.2)))
        rw [e, Fixed64.toInt_ofInt, bmod_exact _ (by omega) (by omega)]
        omega

/-- **With float shares of the standard model the hypothesis of the previous theorem holds**: for
    every rounding operator, every block reward `R ≥ 0` and all vote weights `N_v ≥ 0` (not all zero),
    each voter's share `⌊fl(fl(N_v/ΣN)·⌊3R/4⌋)⌋` is non-negative and all shares together are at most
    `R` — so the producer owner's remainder `R − Σ shares` is never negative. (No bound on `R` is
    needed: two roundings cannot lift three quarters above the whole.) -/
theorem C27_v2_shares_std (fl : ℚ → ℚ) (h : FloatModel.StdModel fl) (R : ℤ) (hR : 0 ≤ R)
    (Ns : List ℤ) (hN : ∀ n ∈ Ns, 0 ≤ n) (hpos : 0 < Ns.sum) :
    (∀ n ∈ Ns, 0 ≤ FloatModel.v2ShareQ fl n Ns.sum (R * 3 / 4)) ∧
    (Ns.map (fun n => FloatModel.v2ShareQ fl n Ns.sum (R * 3 / 4))).sum ≤ R :=
  ⟨fun n hn => FloatModel.v2Share_nonneg h (hN n hn) hpos (Int.ediv_nonneg (by omega) (by omega)),
   FloatModel.v2_shares_le_reward h R hR Ns hN hpos⟩

example : v2Split 53272451 none true [(0, 15981735), (1, 23972602)] =
    [(.voter 0, 15981735), (.voter 1, 23972602), (.owner, 13318114)] := by decide

/-! ### T-gen -/

/-- the callers: forceChange clears with `smoothClearing = false` (what the hook re-enacts) whenever
    the chain is not yet in the DPoS-v2 era — unconditionally otherwise, also when nothing is
    accumulated, so that the round reward of the previous clearing is replaced —, the
    regular round change with `true`, ordinary blocks accumulate; clearingDPOSReward distributes the
    accumulated reward (plus the block's only when smooth) and carries the block's otherwise; the
    coinbase validator compares every output from index 2 on -/
theorem C27_gen_callers :
    Gen.C27.rewardCalls =
      ["forceChange: a.clearingDPOSReward(block, block.Height, false)",
       "IncreaseChainHeight: a.clearingDPOSReward(block, block.Height, true)",
       "IncreaseChainHeight: a.accumulateReward(block, confirm)",
       "IncreaseChainHeight: a.clearingDPOSReward(block, block.Height, true)",
       "IncreaseChainHeight: a.accumulateReward(block, confirm)",
       "AccumulateReward: a.accumulateReward(block, confirm)",
       "clearingDPOSReward: a.distributeDPOSReward(block.Height, accumulativeReward)"] ∧
    Gen.C27.clearingGuards = ["forceChange: !a.isDPoSV2Run(block.Height)"] ∧
    Gen.C27.clearingStatements.take 3 =
      ["dposReward := a.getBlockDPOSReward(block)", "accumulativeReward := a.accumulativeReward",
       "if smoothClearing { accumulativeReward += dposReward dposReward = 0 }"] ∧
    Gen.C27.coinbaseRoundCheck =
      ["if len(rewards) != len(coinbase.Outputs())-2", "for i := 2; i < len(coinbase.Outputs()); i++",
       "if !ok", "if amount != coinbase.Outputs()[i].Value"] := by
  decide +kernel

end ElaVerif.C27
