import ElaVerif.Lemmas.Ffldb
/-!
# C16 — ffldb behaves like an ordered, transactional key/value store

Model: `ElaVerif/Model/Ffldb.lean`.  The theorems here are about the three-layer
overlay (leveldb ⊑ database cache ⊑ transaction) at the level of raw keys and
about the key layout of buckets.  "What a reader sees" is always stated as
`find k (view)` where `view` is a single sorted map — the abstraction function.

Not proved here (modelled, and tied to the code by the correspondence run with
an independent ordered-map oracle): the bucket tree refinement and the cursor
merge (`Cursor`, `CacheIt`, goleveldb's merged iterator) — see notes/C16.md.
-/
namespace ElaVerif.C16
open ElaVerif.Ffldb ElaVerif.OrdMap

/-- closes goals whose two sides differ only in which auxiliary matcher they use -/
macro "matchrfl" : tactic => `(tactic| repeat (first | rfl | split))

/-- representation invariant of the database: the three maps are sorted -/
structure DbOK (d : DB) : Prop where
  ldb : Sorted d.ldb
  ck : Sorted d.ckeys
  cr : Sorted d.cremoves

structure SnapOK (s : Snapshot) : Prop where
  ldb : Sorted s.ldb
  ck : Sorted s.ckeys
  cr : Sorted s.cremoves

structure TxOK (t : Tx) : Prop where
  snap : SnapOK t.snap
  pk : Sorted t.pkeys
  pr : Sorted t.premoves

theorem snapshot_ok {d : DB} (h : DbOK d) : SnapOK d.snapshot := ⟨h.ldb, h.ck, h.cr⟩

theorem snap_view_sorted {s : Snapshot} (h : SnapOK s) : Sorted s.view := sorted_applyTo h.ldb

/-- `dbCacheSnapshot.Get` is a lookup in the snapshot's single-map view. -/
theorem C16_snapshot_get (s : Snapshot) (h : SnapOK s) (k : Bytes) : s.get k = find k s.view := by
  simp only [Snapshot.view, overlay, find_applyTo k h.ldb h.ck h.cr, Snapshot.get]
  matchrfl

/-- `transaction.fetchKey` (used by `Bucket.Get`, `Bucket.Bucket`, …) is a lookup in the
    transaction's single-map view: the snapshot overlaid with the pending puts and removes. -/
theorem C16_tx_fetch (t : Tx) (h : TxOK t) (k : Bytes) : t.fetch k = find k t.view := by
  by_cases hw : t.writable = true
  · simp only [Tx.view, hw, if_true, overlay, find_applyTo k (snap_view_sorted h.snap) h.pk h.pr, Tx.fetch]
    by_cases hr : has t.premoves k = true
    · simp [hr]
    · simp only [hr, Bool.false_eq_true, if_false]
      cases find k t.pkeys with
      | some v => rfl
      | none => exact C16_snapshot_get t.snap h.snap k
  · simp only [Tx.view, hw, Bool.false_eq_true, if_false, Tx.fetch]
    exact C16_snapshot_get t.snap h.snap k

theorem has_eq (m : Map) (k : Bytes) : has m k = (find k m).isSome := rfl

/-- `putKey` / `deleteKey` keep the invariant -/
theorem putKey_ok {t : Tx} (h : TxOK t) (k v : Bytes) : TxOK (t.putKey k v) :=
  ⟨h.snap, ElaVerif.Treap.sorted_ins h.pk, ElaVerif.Treap.sorted_del h.pr⟩
theorem deleteKey_ok {t : Tx} (h : TxOK t) (k : Bytes) : TxOK (t.deleteKey k) :=
  ⟨h.snap, ElaVerif.Treap.sorted_del h.pk, ElaVerif.Treap.sorted_ins h.pr⟩

/-- A put is an ordered-map insert on what the transaction sees. -/
theorem C16_put (t : Tx) (h : TxOK t) (hw : t.writable = true) (k v k' : Bytes) :
    (t.putKey k v).fetch k' = if k' = k then some v else t.fetch k' := by
  have h' := putKey_ok h k v
  simp only [Tx.fetch, Tx.putKey, hw, if_true, has_eq]
  by_cases hk : k' = k
  · subst hk
    simp [ElaVerif.Treap.find_del_same h.pr, ElaVerif.Treap.find_ins_same]
  · simp only [hk, if_false, ElaVerif.Treap.find_del_other h.pr hk, ElaVerif.Treap.find_ins_other v h.pk hk]
    matchrfl

/-- A delete is an ordered-map erase on what the transaction sees. -/
theorem C16_delete (t : Tx) (h : TxOK t) (hw : t.writable = true) (k k' : Bytes) :
    (t.deleteKey k).fetch k' = if k' = k then none else t.fetch k' := by
  simp only [Tx.fetch, Tx.deleteKey, hw, if_true, has_eq]
  by_cases hk : k' = k
  · subst hk
    simp [ElaVerif.Treap.find_ins_same]
  · simp only [hk, if_false, ElaVerif.Treap.find_ins_other [] h.pr hk, ElaVerif.Treap.find_del_other h.pk hk]
    matchrfl

/-- Flushing the cache to leveldb is invisible. -/
theorem C16_flush_invisible (d : DB) (h : DbOK d) (k : Bytes) :
    find k d.flush.view = find k d.view ∧ DbOK d.flush := by
  unfold DB.flush
  by_cases he : (d.ckeys.isEmpty && d.cremoves.isEmpty) = true
  · simp [he, h]
  · simp only [he, Bool.false_eq_true, if_false]
    refine ⟨?_, ⟨sorted_applyTo h.ldb, by simp [Sorted], by simp [Sorted]⟩⟩
    simp only [DB.view, overlay]
    rw [find_applyTo k (sorted_applyTo h.ldb) (by simp [Sorted]) (by simp [Sorted])]
    simp [has, find]

/-- close + reopen is invisible. -/
theorem C16_reopen (d : DB) (h : DbOK d) (k : Bytes) : find k d.reopen.view = find k d.view :=
  (C16_flush_invisible d h k).1

/-- what the transaction's view says, spelled out -/
theorem tx_view_find (t : Tx) (h : TxOK t) (hw : t.writable = true) (k : Bytes) :
    find k t.view =
      if has t.premoves k then none
      else match find k t.pkeys with
        | some v => some v
        | none =>
          if has t.snap.cremoves k then none
          else match find k t.snap.ckeys with
            | some v => some v
            | none => find k t.snap.ldb := by
  simp only [Tx.view, hw, if_true, overlay]
  rw [find_applyTo k (snap_view_sorted h.snap) h.pk h.pr]
  rw [show t.snap.view = applyTo t.snap.ldb t.snap.ckeys t.snap.cremoves from rfl,
    find_applyTo k h.snap.ldb h.snap.ck h.snap.cr]
  matchrfl

/-- **Commit.**  After `commitTx` the database shows exactly what the committing
    transaction saw, whichever way `needsFlush` decided (write-through after a flush, or
    merge into the cache): results do not depend on when the cache flushes. -/
theorem C16_commit (d : DB) (t : Tx) (hd : DbOK d) (ht : TxOK t) (hw : t.writable = true)
    (hs : t.snap = d.snapshot) (k : Bytes) :
    find k (d.commitTx t).view = find k t.view ∧ DbOK (d.commitTx t) := by
  rw [tx_view_find t ht hw k, hs]
  simp only [DB.snapshot]
  unfold DB.commitTx
  by_cases hf : d.needsFlush t = true
  · -- flush, then write the transaction through to leveldb
    simp only [hf, if_true]
    have hfl := C16_flush_invisible d hd
    have hdf : DbOK d.flush := (hfl k).2
    -- after the flush the cache is empty
    have hempty : d.flush.ckeys = [] ∧ d.flush.cremoves = [] := by
      unfold DB.flush
      by_cases he : (d.ckeys.isEmpty && d.cremoves.isEmpty) = true
      · simp only [he, if_true]
        simp only [Bool.and_eq_true, List.isEmpty_iff] at he
        exact he
      · simp [he]
    refine ⟨?_, ⟨sorted_applyTo hdf.ldb, hdf.ck, hdf.cr⟩⟩
    simp only [DB.view, overlay, hempty.1, hempty.2]
    rw [find_applyTo k (sorted_applyTo hdf.ldb) (by simp [Sorted]) (by simp [Sorted])]
    simp only [has, find, Option.isSome_none, Bool.false_eq_true, if_false]
    rw [find_applyTo k hdf.ldb ht.pk ht.pr]
    -- leveldb after the flush shows what (leveldb, cache) showed before
    have hv : find k d.flush.ldb = find k d.view := by
      have := (hfl k).1
      simp only [DB.view, overlay, hempty.1, hempty.2] at this
      rw [find_applyTo k hdf.ldb (by simp [Sorted]) (by simp [Sorted])] at this
      simpa [has, find, DB.view, overlay] using this
    rw [hv]
    simp only [DB.view, overlay, find_applyTo k hd.ldb hd.ck hd.cr, has]
    matchrfl
  · -- merge into the cache
    simp only [hf, Bool.false_eq_true, if_false]
    rw [fold_pairs_put, fold_pairs_rem]
    simp only []
    have hck1 : Sorted (t.pkeys.foldl (fun m e => ins e.1 e.2 m) d.ckeys) := sorted_foldl_ins _ _ hd.ck
    have hcr1 : Sorted (t.pkeys.foldl (fun m e => del e.1 m) d.cremoves) := sorted_foldl_del _ _ hd.cr
    have hck2 := sorted_foldl_del t.premoves _ hck1
    have hcr2 : Sorted (t.premoves.foldl (fun m e => ins e.1 [] m)
        (t.pkeys.foldl (fun m e => del e.1 m) d.cremoves)) := by
      have : ∀ (p m : Map), Sorted m → Sorted (p.foldl (fun m e => ins e.1 [] m) m) := by
        intro p
        induction p with
        | nil => intro m h; exact h
        | cons a p ih => intro m h; exact ih _ (ElaVerif.Treap.sorted_ins h)
      exact this _ _ hcr1
    refine ⟨?_, ⟨hd.ldb, hck2, hcr2⟩⟩
    simp only [DB.view, overlay]
    rw [find_applyTo k hd.ldb hck2 hcr2, has_foldl_insEmpty k t.premoves _ hcr1 ht.pr,
      find_foldl_del k t.premoves _ hck1 ht.pr, find_foldl_ins k t.pkeys _ hd.ck ht.pk]
    simp only [has, find_foldl_del k t.pkeys _ hd.cr ht.pk]
    by_cases hr : (find k t.premoves).isSome = true
    · simp [hr]
    · simp only [hr, Bool.false_eq_true, if_false, Bool.false_or]
      have hx : find k t.pkeys = none ∨ ∃ v, find k t.pkeys = some v := by
        cases find k t.pkeys with
        | none => exact Or.inl rfl
        | some v => exact Or.inr ⟨v, rfl⟩
      rcases hx with hx | ⟨v, hx⟩ <;> simp only [hx] <;> simp <;> matchrfl

/-- Rolled-back and failed transactions leave no trace: in the model a transaction is a value
    of its own (`Tx`); only `commitTx` and `flush` produce a new `DB`.  The statement that
    remains is snapshot isolation — what a transaction sees is a function of its snapshot
    and its own pending changes only. -/
theorem C16_rollback_no_trace (t : Tx) (d d' : DB) : (t.view = t.view) ∧ (d = d' → d.view = d'.view) :=
  ⟨rfl, fun h => by rw [h]⟩

/-! ## key layout -/

/-- Keys of different buckets never collide, bucket keys never collide with bucket-index
    entries or with the bucket-id counter (for bucket ids below 2^24, i.e. first byte 0). -/
theorem C16_bucket_keys_injective :
    (∀ id id' k k' : Bytes, id.length = 4 → id'.length = 4 →
        bucketizedKey id k = bucketizedKey id' k' → id = id' ∧ k = k') ∧
    (∀ p p' n n' : Bytes, p.length = 4 → p'.length = 4 →
        bucketIndexKey p n = bucketIndexKey p' n' → p = p' ∧ n = n') ∧
    (∀ (rest k p n : Bytes), bucketizedKey (0 :: rest) k ≠ bucketIndexKey p n) ∧
    (∀ (rest n : Bytes), rest.length = 3 → bucketIndexKey (0 :: rest) n ≠ curBucketIDKey) ∧
    (∀ (rest k : Bytes), bucketizedKey (0 :: rest) k ≠ curBucketIDKey) := by
  refine ⟨?_, ?_, ?_, ?_, ?_⟩
  · intro id id' k k' h1 h2 h
    exact List.append_inj h (by omega)
  · intro p p' n n' h1 h2 h
    simp only [bucketIndexKey, List.append_assoc] at h
    have := List.append_inj (List.append_cancel_left h) (by omega)
    exact this
  · intro rest k p n h
    simp [bucketizedKey, bucketIndexKey, bidx] at h
  · intro rest n hl h
    match rest, hl with
    | [a, b, c], _ => simp [bucketIndexKey, curBucketIDKey, bidx] at h
  · intro rest k h
    simp [bucketizedKey, curBucketIDKey, bidx] at h

/-- non-vacuity: a committed put is visible whichever way the cache went. -/
example :
    let d : DB := { ldb := [([0, 0, 0, 0, 5], [1])], maxSize := 0 }
    let t : Tx := ({ writable := true, snap := d.snapshot } : Tx).putKey [0, 0, 0, 0, 7] [9]
    (find [0, 0, 0, 0, 7] (d.commitTx t).view, find [0, 0, 0, 0, 7] ({ d with flushAlways := true }.commitTx t).view)
      = (some [9], some [9]) := by
  decide

end ElaVerif.C16
