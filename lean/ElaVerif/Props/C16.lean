import ElaVerif.Lemmas.Ffldb
import ElaVerif.Lemmas.Cursor
/-!
# C16 — ffldb behaves like an ordered, transactional key/value store

Model: `ElaVerif/Model/Ffldb.lean`.  The theorems here are about the three-layer
overlay (leveldb ⊑ database cache ⊑ transaction) at the level of raw keys and
about the key layout of buckets.  "What a reader sees" is always stated as
`find k (view)` where `view` is a single sorted map — the abstraction function.

Not proved here (modelled, and tied to the code by the correspondence run with
an independent ordered-map oracle): the bucket tree refinement and the cursor
merge (`Cursor`, `CacheIt`, goleveldb's merged iterator) — see notes/C16.md.
-/
namespace ElaVerif.C16
open ElaVerif.Ffldb ElaVerif.OrdMap

/-- closes goals whose two sides differ only in which auxiliary matcher they use -/
macro "matchrfl" : tactic => `(tactic| repeat (first | rfl | split))

/-- representation invariant of the database: the three maps are sorted -/
structure DbOK (d : DB) : Prop where
  ldb : Sorted d.ldb
  ck : Sorted d.ckeys
  cr : Sorted d.cremoves

structure SnapOK (s : Snapshot) : Prop where
  ldb : Sorted s.ldb
  ck : Sorted s.ckeys
  cr : Sorted s.cremoves

structure TxOK (t : Tx) : Prop where
  snap : SnapOK t.snap
  pk : Sorted t.pkeys
  pr : Sorted t.premoves

theorem snapshot_ok {d : DB} (h : DbOK d) : SnapOK d.snapshot := ⟨h.ldb, h.ck, h.cr⟩

theorem snap_view_sorted {s : Snapshot} (h : SnapOK s) : Sorted s.view := sorted_applyTo h.ldb

/-- `dbCacheSnapshot.Get` is a lookup in the snapshot's single-map view. -/
theorem C16_snapshot_get (s : Snapshot) (h : SnapOK s) (k : Bytes) : s.get k = find k s.view := by
  simp only [Snapshot.view, overlay, find_applyTo k h.ldb h.ck h.cr, Snapshot.get]
  matchrfl

/-- `transaction.fetchKey` (used by `Bucket.Get`, `Bucket.Bucket`, …) is a lookup in the
    transaction's single-map view: the snapshot overlaid with the pending puts and removes. -/
theorem C16_tx_fetch (t : Tx) (h : TxOK t) (k : Bytes) : t.fetch k = find k t.view := by
  by_cases hw : t.writable = true
  · simp only [Tx.view, hw, if_true, overlay, find_applyTo k (snap_view_sorted h.snap) h.pk h.pr, Tx.fetch]
    by_cases hr : has t.premoves k = true
    · simp [hr]
    · simp only [hr, Bool.false_eq_true, if_false]
      cases find k t.pkeys with
      | some v => rfl
      | none => exact C16_snapshot_get t.snap h.snap k
  · simp only [Tx.view, hw, Bool.false_eq_true, if_false, Tx.fetch]
    exact C16_snapshot_get t.snap h.snap k

theorem has_eq (m : Map) (k : Bytes) : has m k = (find k m).isSome := rfl

/-- `putKey` / `deleteKey` keep the invariant -/
theorem putKey_ok {t : Tx} (h : TxOK t) (k v : Bytes) : TxOK (t.putKey k v) :=
  ⟨h.snap, ElaVerif.Treap.sorted_ins h.pk, ElaVerif.Treap.sorted_del h.pr⟩
theorem deleteKey_ok {t : Tx} (h : TxOK t) (k : Bytes) : TxOK (t.deleteKey k) :=
  ⟨h.snap, ElaVerif.Treap.sorted_del h.pk, ElaVerif.Treap.sorted_ins h.pr⟩

/-- A put is an ordered-map insert on what the transaction sees. -/
theorem C16_put (t : Tx) (h : TxOK t) (hw : t.writable = true) (k v k' : Bytes) :
    (t.putKey k v).fetch k' = if k' = k then some v else t.fetch k' := by
  have h' := putKey_ok h k v
  simp only [Tx.fetch, Tx.putKey, hw, if_true, has_eq]
  by_cases hk : k' = k
  · subst hk
    simp [ElaVerif.Treap.find_del_same h.pr, ElaVerif.Treap.find_ins_same]
  · simp only [hk, if_false, ElaVerif.Treap.find_del_other h.pr hk, ElaVerif.Treap.find_ins_other v h.pk hk]
    matchrfl

/-- A delete is an ordered-map erase on what the transaction sees. -/
theorem C16_delete (t : Tx) (h : TxOK t) (hw : t.writable = true) (k k' : Bytes) :
    (t.deleteKey k).fetch k' = if k' = k then none else t.fetch k' := by
  simp only [Tx.fetch, Tx.deleteKey, hw, if_true, has_eq]
  by_cases hk : k' = k
  · subst hk
    simp [ElaVerif.Treap.find_ins_same]
  · simp only [hk, if_false, ElaVerif.Treap.find_ins_other [] h.pr hk, ElaVerif.Treap.find_del_other h.pk hk]
    matchrfl

/-- Flushing the cache to leveldb is invisible. -/
theorem C16_flush_invisible (d : DB) (h : DbOK d) (k : Bytes) :
    find k d.flush.view = find k d.view ∧ DbOK d.flush := by
  unfold DB.flush
  by_cases he : (d.ckeys.isEmpty && d.cremoves.isEmpty) = true
  · simp [he, h]
  · simp only [he, Bool.false_eq_true, if_false]
    refine ⟨?_, ⟨sorted_applyTo h.ldb, by simp [Sorted], by simp [Sorted]⟩⟩
    simp only [DB.view, overlay]
    rw [find_applyTo k (sorted_applyTo h.ldb) (by simp [Sorted]) (by simp [Sorted])]
    simp [has, find]

/-- close + reopen is invisible. -/
theorem C16_reopen (d : DB) (h : DbOK d) (k : Bytes) : find k d.reopen.view = find k d.view :=
  (C16_flush_invisible d h k).1

/-- what the transaction's view says, spelled out -/
theorem tx_view_find (t : Tx) (h : TxOK t) (hw : t.writable = true) (k : Bytes) :
    find k t.view =
      if has t.premoves k then none
      else match find k t.pkeys with
        | some v => some v
        | none =>
          if has t.snap.cremoves k then none
          else match find k t.snap.ckeys with
            | some v => some v
            | none => find k t.snap.ldb := by
  simp only [Tx.view, hw, if_true, overlay]
  rw [find_applyTo k (snap_view_sorted h.snap) h.pk h.pr]
  rw [show t.snap.view = applyTo t.snap.ldb t.snap.ckeys t.snap.cremoves from rfl,
    find_applyTo k h.snap.ldb h.snap.ck h.snap.cr]
  matchrfl

/-- **Commit.**  After `commitTx` the database shows exactly what the committing
    transaction saw, whichever way `needsFlush` decided (write-through after a flush, or
    merge into the cache): results do not depend on when the cache flushes. -/
theorem C16_commit (d : DB) (t : Tx) (hd : DbOK d) (ht : TxOK t) (hw : t.writable = true)
    (hs : t.snap = d.snapshot) (k : Bytes) :
    find k (d.commitTx t).view = find k t.view ∧ DbOK (d.commitTx t) := by
  rw [tx_view_find t ht hw k, hs]
  simp only [DB.snapshot]
  unfold DB.commitTx
  by_cases hf : d.needsFlush t = true
  · -- flush, then write the transaction through to leveldb
    simp only [hf, if_true]
    have hfl := C16_flush_invisible d hd
    have hdf : DbOK d.flush := (hfl k).2
    -- after the flush the cache is empty
    have hempty : d.flush.ckeys = [] ∧ d.flush.cremoves = [] := by
      unfold DB.flush
      by_cases he : (d.ckeys.isEmpty && d.cremoves.isEmpty) = true
      · simp only [he, if_true]
        simp only [Bool.and_eq_true, List.isEmpty_iff] at he
        exact he
      · simp [he]
    refine ⟨?_, ⟨sorted_applyTo hdf.ldb, hdf.ck, hdf.cr⟩⟩
    simp only [DB.view, overlay, hempty.1, hempty.2]
    rw [find_applyTo k (sorted_applyTo hdf.ldb) (by simp [Sorted]) (by simp [Sorted])]
    simp only [has, find, Option.isSome_none, Bool.false_eq_true, if_false]
    rw [find_applyTo k hdf.ldb ht.pk ht.pr]
    -- leveldb after the flush shows what (leveldb, cache) showed before
    have hv : find k d.flush.ldb = find k d.view := by
      have := (hfl k).1
      simp only [DB.view, overlay, hempty.1, hempty.2] at this
      rw [find_applyTo k hdf.ldb (by simp [Sorted]) (by simp [Sorted])] at this
      simpa [has, find, DB.view, overlay] using this
    rw [hv]
    simp only [DB.view, overlay, find_applyTo k hd.ldb hd.ck hd.cr, has]
    matchrfl
  · -- merge into the cache
    simp only [hf, Bool.false_eq_true, if_false]
    rw [fold_pairs_put, fold_pairs_rem]
    simp only []
    have hck1 : Sorted (t.pkeys.foldl (fun m e => ins e.1 e.2 m) d.ckeys) := sorted_foldl_ins _ _ hd.ck
    have hcr1 : Sorted (t.pkeys.foldl (fun m e => del e.1 m) d.cremoves) := sorted_foldl_del _ _ hd.cr
    have hck2 := sorted_foldl_del t.premoves _ hck1
    have hcr2 : Sorted (t.premoves.foldl (fun m e => ins e.1 [] m)
        (t.pkeys.foldl (fun m e => del e.1 m) d.cremoves)) := by
      have : ∀ (p m : Map), Sorted m → Sorted (p.foldl (fun m e => ins e.1 [] m) m) := by
        intro p
        induction p with
        | nil => intro m h; exact h
        | cons a p ih => intro m h; exact ih _ (ElaVerif.Treap.sorted_ins h)
      exact this _ _ hcr1
    refine ⟨?_, ⟨hd.ldb, hck2, hcr2⟩⟩
    simp only [DB.view, overlay]
    rw [find_applyTo k hd.ldb hck2 hcr2, has_foldl_insEmpty k t.premoves _ hcr1 ht.pr,
      find_foldl_del k t.premoves _ hck1 ht.pr, find_foldl_ins k t.pkeys _ hd.ck ht.pk]
    simp only [has, find_foldl_del k t.pkeys _ hd.cr ht.pk]
    by_cases hr : (find k t.premoves).isSome = true
    · simp [hr]
    · simp only [hr, Bool.false_eq_true, if_false, Bool.false_or]
      have hx : find k t.pkeys = none ∨ ∃ v, find k t.pkeys = some v := by
        cases find k t.pkeys with
        | none => exact Or.inl rfl
        | some v => exact Or.inr ⟨v, rfl⟩
      rcases hx with hx | ⟨v, hx⟩ <;> simp only [hx] <;> simp <;> matchrfl

/-- Rolled-back and failed transactions leave no trace: in the model a transaction is a value
    of its own (`Tx`); only `commitTx` and `flush` produce a new `DB`.  The statement that
    remains is snapshot isolation — what a transaction sees is a function of its snapshot
    and its own pending changes only. -/
theorem C16_rollback_no_trace (t : Tx) (d d' : DB) : (t.view = t.view) ∧ (d = d' → d.view = d'.view) :=
  ⟨rfl, fun h => by rw [h]⟩

/-! ## key layout -/

/-- Keys of different buckets never collide, bucket keys never collide with bucket-index
    entries or with the bucket-id counter (for bucket ids below 2^24, i.e. first byte 0). -/
theorem C16_bucket_keys_injective :
    (∀ id id' k k' : Bytes, id.length = 4 → id'.length = 4 →
        bucketizedKey id k = bucketizedKey id' k' → id = id' ∧ k = k') ∧
    (∀ p p' n n' : Bytes, p.length = 4 → p'.length = 4 →
        bucketIndexKey p n = bucketIndexKey p' n' → p = p' ∧ n = n') ∧
    (∀ (rest k p n : Bytes), bucketizedKey (0 :: rest) k ≠ bucketIndexKey p n) ∧
    (∀ (rest n : Bytes), rest.length = 3 → bucketIndexKey (0 :: rest) n ≠ curBucketIDKey) ∧
    (∀ (rest k : Bytes), bucketizedKey (0 :: rest) k ≠ curBucketIDKey) := by
  refine ⟨?_, ?_, ?_, ?_, ?_⟩
  · intro id id' k k' h1 h2 h
    exact List.append_inj h (by omega)
  · intro p p' n n' h1 h2 h
    simp only [bucketIndexKey, List.append_assoc] at h
    have := List.append_inj (List.append_cancel_left h) (by omega)
    exact this
  · intro rest k p n h
    simp [bucketizedKey, bucketIndexKey, bidx] at h
  · intro rest n hl h
    match rest, hl with
    | [a, b, c], _ => simp [bucketIndexKey, curBucketIDKey, bidx] at h
  · intro rest k h
    simp [bucketizedKey, curBucketIDKey, bidx] at h

/-! ## bucket operations commute with the abstraction (raw-key level) -/

/-- deleting a list of keys: exactly those keys disappear from what the transaction reads -/
theorem fetch_foldl_delete (l : Map) : ∀ (t : Tx), TxOK t → t.writable = true → ∀ k,
    (l.foldl (fun t e => t.deleteKey e.1) t).fetch k =
      (if l.any (fun e => e.1 == k) then none else t.fetch k) ∧
    TxOK (l.foldl (fun t e => t.deleteKey e.1) t) ∧
    (l.foldl (fun t e => t.deleteKey e.1) t).writable = true := by
  induction l with
  | nil => intro t h hw k; exact ⟨by simp, h, hw⟩
  | cons a l ih =>
    intro t h hw k
    have h1 := deleteKey_ok h a.1
    have hw1 : (t.deleteKey a.1).writable = true := hw
    obtain ⟨i1, i2, i3⟩ := ih (t.deleteKey a.1) h1 hw1 k
    refine ⟨?_, i2, i3⟩
    simp only [List.foldl_cons, i1, List.any_cons]
    rw [C16_delete t h hw a.1 k]
    by_cases hk : k = a.1
    · subst hk; simp
    · have : (a.1 == k) = false := by
        simp only [beq_eq_false_iff_ne, ne_eq]; exact fun e => hk e.symm
      simp only [hk, if_false, this, Bool.false_or]

/-- **CreateBucket.**  When it succeeds the new bucket is reachable under its name with the next
    id of the counter, the counter is advanced, and no other raw key changes — so every other
    bucket and every key of every bucket reads as before. -/
theorem C16_create_bucket (t : Tx) (h : TxOK t) (id name : Bytes) (cid : Bytes)
    (hne : ¬ (id == metaID && name == blockIdxName) = true)
    (hr : (createBucket t id name).2 = .ok cid) :
    let t' := (createBucket t id name).1
    t.writable = true ∧ name ≠ [] ∧ t.hasKey (bucketIndexKey id name) = false ∧
    cid = be32 ((rdBe32 ((t.fetch curBucketIDKey).getD []) + 1) % 4294967296) ∧
    (bucketIndexKey id name ≠ curBucketIDKey → t'.fetch (bucketIndexKey id name) = some cid) ∧
    t'.fetch curBucketIDKey = some cid ∧
    (∀ k, k ≠ bucketIndexKey id name → k ≠ curBucketIDKey → t'.fetch k = t.fetch k) ∧ TxOK t' := by
  unfold createBucket at hr ⊢
  by_cases hw : t.writable = true
  · simp only [hw, Bool.not_true, Bool.false_eq_true, if_false] at hr ⊢
    by_cases hn : name.isEmpty = true
    · simp [hn] at hr
    · simp only [hn, Bool.false_eq_true, if_false] at hr ⊢
      by_cases hx : t.hasKey (bucketIndexKey id name) = true
      · simp [hx] at hr
      · simp only [hx, Bool.false_eq_true, if_false, hne] at hr ⊢
        simp only [nextBucketID] at hr ⊢
        have hcid : be32 ((rdBe32 ((t.fetch curBucketIDKey).getD []) + 1) % 4294967296) = cid := by
          simpa using hr
        have h1 := putKey_ok h curBucketIDKey cid
        have hw1 : (t.putKey curBucketIDKey cid).writable = true := hw
        refine ⟨trivial, ?_, by simpa using hx, hcid.symm, ?_, ?_, ?_, ?_⟩
        · intro e; apply hn; simp [e]
        · intro hd
          rw [hcid, C16_put _ h1 hw1]; simp
        · rw [hcid, C16_put _ h1 hw1, C16_put _ h hw]
          by_cases he : curBucketIDKey = bucketIndexKey id name <;> simp [he]
        · intro k hk1 hk2
          rw [hcid, C16_put _ h1 hw1, C16_put _ h hw]
          simp [hk1, hk2]
        · rw [hcid]; exact putKey_ok h1 _ _
  · simp [hw] at hr

/-- **DeleteBucket.**  When it succeeds the bucket's index entry is gone, every raw key that was
    visible under the id of the bucket or of a bucket nested in it (keys and index entries) is
    gone, and every other raw key reads as before. -/
theorem C16_delete_bucket (t : Tx) (h : TxOK t) (id name : Bytes)
    (hr : (deleteBucket t id name).2 = .ok ()) :
    ∃ cid, childBucket t id name = some cid ∧
    let view := t.view
    let ids := subtreeIds view (view.length + 1) [cid] []
    let doomed := view.filter fun e => ids.any fun c => hasPrefix c e.1 || hasPrefix (bidx ++ c) e.1
    let t' := (deleteBucket t id name).1
    t'.fetch (bucketIndexKey id name) = none ∧
    (∀ e ∈ doomed, t'.fetch e.1 = none) ∧
    (∀ k, k ≠ bucketIndexKey id name → doomed.any (fun e => e.1 == k) = false → t'.fetch k = t.fetch k) := by
  unfold deleteBucket at hr ⊢
  by_cases hw : t.writable = true
  · simp only [hw, Bool.not_true, Bool.false_eq_true, if_false] at hr ⊢
    cases hc : childBucket t id name with
    | none => simp [hc] at hr
    | some cid =>
      refine ⟨cid, rfl, ?_⟩
      simp only []
      generalize hd : (t.view.filter fun e =>
        (subtreeIds t.view (t.view.length + 1) [cid] []).any fun c => hasPrefix c e.1 || hasPrefix (bidx ++ c) e.1) = doomed
      have hf := fetch_foldl_delete doomed t h hw
      have h2 := (hf []).2.1
      have hw2 := (hf []).2.2
      refine ⟨?_, ?_, ?_⟩
      · rw [C16_delete _ h2 hw2]; simp
      · intro e he
        rw [C16_delete _ h2 hw2]
        by_cases hk : e.1 = bucketIndexKey id name
        · simp [hk]
        · simp only [hk, if_false]
          rw [(hf e.1).1]
          have : doomed.any (fun x => x.1 == e.1) = true := by
            simp only [List.any_eq_true]; exact ⟨e, he, by simp⟩
          simp [this]
      · intro k hk hnot
        rw [C16_delete _ h2 hw2]
        simp only [hk, if_false]
        rw [(hf k).1, hnot]; simp
  · simp [hw] at hr

/-! ## cursors: a forward walk is the ordered merge of the three layers -/

theorem ldb_first_items (d : LdbIt) : (LdbIt.first d).1.items = d.items := by
  unfold LdbIt.first; split <;> rfl

theorem takeWhile_length_le {α : Type} (p : α → Bool) (l : List α) : (l.takeWhile p).length ≤ l.length := by
  induction l with
  | nil => simp
  | cons a l ih => simp only [List.takeWhile_cons]; split <;> simp <;> omega

theorem rangeList_length_le (s : Bytes) (lim : Option Bytes) (m : Map) : (rangeList s lim m).length ≤ m.length := by
  unfold rangeList
  exact Nat.le_trans (takeWhile_length_le _ _) (dropWhile_length_le _ _)

/-- **Forward walk of a key cursor** (`newCursor(…, ctKeys / ctBuckets)`: what `ForEach`,
    `ForEachBucket` and `DeleteBucket` iterate with; the user-facing `Cursor()` runs two of these
    pairs through goleveldb's merged iterator over two disjoint key ranges).  With the transaction
    unchanged during the walk, `First` followed by `Next`… visits exactly

      `mergeF (pending shadows) (mergeF (cache shadows) LD LC) LP`

    where `LD`, `LC`, `LP` are the leveldb snapshot, the cached puts and the transaction's pending
    puts restricted to the bucket's key range: the ordered merge of the three layers in which an
    entry of a lower layer is dropped when a higher layer removes or overrides its key — the
    same overlay `C16_tx_fetch` describes point-wise. -/
theorem C16_cursor_forward (t : Tx) (id pfx : Bytes) (fuel : Nat)
    (hck : Sorted t.snap.ckeys) (hpk : Sorted t.pkeys)
    (hfuel : t.snap.ldb.length + t.snap.ckeys.length < fuel) :
    let lim := prefixLimit pfx
    let LD := t.snap.ldb.filter fun e => inRange (some pfx) lim e.1
    let LC := rangeList pfx lim t.snap.ckeys
    let LP := rangeList pfx lim t.pkeys
    CStream t fuel ((newKeyCursor t id pfx).first t fuel).1
      (mergeF (shadow t) (mergeF (fun k => has t.snap.cremoves k || has t.snap.ckeys k) LD LC) LP) := by
  simp only []
  -- the snapshot side: dbCacheIterator.First
  let it0 : CacheIt := mkCacheIt t.snap pfx
  let it1 : CacheIt := { it0 with db := it0.db.first.1, ci := it0.ci.first.1, fwd := true }
  have hdb : Stream it1.db (t.snap.ldb.filter fun e => inRange (some pfx) (prefixLimit pfx) e.1) := by
    exact ldbit_first_stream it0.db
  have hci : Stream it1.ci (rangeList pfx (prefixLimit pfx) t.snap.ckeys) := by
    exact treapit_first_stream it0.ci pfx rfl hck
  have hlen : (t.snap.ldb.filter fun e => inRange (some pfx) (prefixLimit pfx) e.1).length ≤ it1.db.items.length := by
    simp [it1, it0, mkCacheIt, LdbIt.mk', ldb_first_items]
  have hcache := cacheit_choose_stream _ _ _ it1 (Nat.le_refl _) hlen rfl hdb hci
  have hsh : shadowC it1 = fun k => has t.snap.cremoves k || has t.snap.ckeys k := by
    funext k; simp [shadowC, it1, it0, mkCacheIt]
  rw [hsh] at hcache
  -- the pending side: the treap iterator over the transaction's pending keys
  have hpend : Stream (ItOps.first (mkPendIt t pfx)).1 (rangeList pfx (prefixLimit pfx) t.pkeys) := by
    exact treapit_first_stream (mkPendIt t pfx) pfx rfl hpk
  -- the cursor: chooseIterator after positioning both
  have hl1 : (t.snap.ldb.filter fun e => inRange (some pfx) (prefixLimit pfx) e.1).length ≤ t.snap.ldb.length :=
    List.length_filter_le _ _
  have hl2 := rangeList_length_le pfx (prefixLimit pfx) t.snap.ckeys
  have hl3 := mergeF_length_le (fun k => has t.snap.cremoves k || has t.snap.ckeys k) _
    (t.snap.ldb.filter fun e => inRange (some pfx) (prefixLimit pfx) e.1) (rangeList pfx (prefixLimit pfx) t.snap.ckeys)
    (Nat.le_refl _)
  unfold Cursor.first
  exact choose_stream t fuel _
    (mergeF (fun k => has t.snap.cremoves k || has t.snap.ckeys k)
      (t.snap.ldb.filter fun e => inRange (some pfx) (prefixLimit pfx) e.1) (rangeList pfx (prefixLimit pfx) t.snap.ckeys))
    (rangeList pfx (prefixLimit pfx) t.pkeys) _ (Nat.le_refl _)
    (Nat.lt_of_le_of_lt (Nat.le_trans hl3 (Nat.add_le_add hl1 hl2)) hfuel) rfl hcache hpend

/-- `putKey` / `deleteKey` never leave a key both pending and pending-removed -/
theorem disjoint_putKey (t : Tx) (h : TxOK t) (k v : Bytes)
    (hd : ∀ k', has t.premoves k' = true → find k' t.pkeys = none) :
    ∀ k', has (t.putKey k v).premoves k' = true → find k' (t.putKey k v).pkeys = none := by
  intro k' hk'
  simp only [Tx.putKey, has] at hk' ⊢
  by_cases he : k' = k
  · subst he; rw [ElaVerif.Treap.find_del_same h.pr] at hk'; simp at hk'
  · rw [ElaVerif.Treap.find_del_other h.pr he] at hk'
    rw [ElaVerif.Treap.find_ins_other v h.pk he]
    exact hd k' hk'

theorem disjoint_deleteKey (t : Tx) (h : TxOK t) (k : Bytes)
    (hd : ∀ k', has t.premoves k' = true → find k' t.pkeys = none) :
    ∀ k', has (t.deleteKey k).premoves k' = true → find k' (t.deleteKey k).pkeys = none := by
  intro k' hk'
  simp only [Tx.deleteKey, has] at hk' ⊢
  by_cases he : k' = k
  · subst he; exact ElaVerif.Treap.find_del_same h.pk
  · rw [ElaVerif.Treap.find_ins_other [] h.pr he] at hk'
    rw [ElaVerif.Treap.find_del_other h.pk he]
    exact hd k' hk'

/-- **… and that merge is the transaction's view of the bucket's key range**: the list the
    forward walk visits is strictly sorted, and looking a key up in it gives exactly what
    `fetchKey` (hence `Bucket.Get`) gives for a key inside the range and nothing outside — i.e. the
    walk enumerates, in key order, exactly the entries of the ordered map `t.view` (see
    `C16_tx_fetch`) that lie in the range.  `hdisP`/`hdisC`: no key is both put and removed in one
    layer (kept by `putKey`/`deleteKey`, see `disjoint_putKey`/`disjoint_deleteKey`, and by the
    merge in `commitTx`). -/
theorem C16_cursor_forward_view (t : Tx) (h : TxOK t) (hw : t.writable = true) (pfx : Bytes)
    (hdisP : ∀ k, has t.premoves k = true → find k t.pkeys = none)
    (hdisC : ∀ k, has t.snap.cremoves k = true → find k t.snap.ckeys = none) :
    let lim := prefixLimit pfx
    let LD := t.snap.ldb.filter fun e => inRange (some pfx) lim e.1
    let LC := rangeList pfx lim t.snap.ckeys
    let LP := rangeList pfx lim t.pkeys
    let L := mergeF (shadow t) (mergeF (fun k => has t.snap.cremoves k || has t.snap.ckeys k) LD LC) LP
    Sorted L ∧ ∀ k, find k L = if inRange (some pfx) lim k then t.fetch k else none := by
  simp only []
  have hLD : Sorted (t.snap.ldb.filter fun e => inRange (some pfx) (prefixLimit pfx) e.1) :=
    sorted_sublist List.filter_sublist h.snap.ldb
  have hLC := sorted_rangeList pfx (prefixLimit pfx) h.snap.ck
  have hLP := sorted_rangeList pfx (prefixLimit pfx) h.pk
  have hshC : ∀ e ∈ rangeList pfx (prefixLimit pfx) t.snap.ckeys,
      (has t.snap.cremoves e.1 || has t.snap.ckeys e.1) = true := by
    intro e he
    have := ((mem_rangeList pfx _ _ h.snap.ck e).mp he).1
    simp [has, find_of_mem h.snap.ck this]
  have hshP : ∀ e ∈ rangeList pfx (prefixLimit pfx) t.pkeys, shadow t e.1 = true := by
    intro e he
    have := ((mem_rangeList pfx _ _ h.pk e).mp he).1
    simp [shadow, has, find_of_mem h.pk this]
  obtain ⟨s1, f1⟩ := mergeF_spec (fun k => has t.snap.cremoves k || has t.snap.ckeys k) _ _ _ (Nat.le_refl _) hLD hLC hshC
  obtain ⟨s2, f2⟩ := mergeF_spec (shadow t) _ _ _ (Nat.le_refl _) s1 hLP hshP
  refine ⟨s2, fun k => ?_⟩
  rw [f2 k, f1 k, find_rangeList pfx _ _ h.pk, find_rangeList pfx _ _ h.snap.ck, find_filterRange pfx _ _ h.snap.ldb]
  by_cases hr : inRange (some pfx) (prefixLimit pfx) k = true
  · simp only [hr, if_true, Tx.fetch, hw, Snapshot.get, shadow]
    by_cases hpr : has t.premoves k = true
    · simp [hpr, hdisP k hpr]
    · have hpr' : has t.premoves k = false := by simpa using hpr
      simp only [hpr', Bool.false_or, Bool.false_eq_true, if_false]
      cases hpk : find k t.pkeys with
      | some v => rfl
      | none =>
        simp only [has, hpk, Option.isSome_none, Bool.false_eq_true, if_false]
        by_cases hcr : has t.snap.cremoves k = true
        · have hcr2 : (find k t.snap.cremoves).isSome = true := hcr
          simp [hcr2, hdisC k hcr]
        · have hcr' : (find k t.snap.cremoves).isSome = false := by simpa [has] using hcr
          simp only [hcr', Bool.false_or, Bool.false_eq_true, if_false]
          cases hck : find k t.snap.ckeys with
          | some v => rfl
          | none => simp
  · simp [hr]

/-! ## cursors: backward walks, Seek, direction changes, Cursor.Delete

All four are statements about the merging logic of `cursor` (`skipPendingUpdates`,
`chooseIterator`, `Next`/`Prev` with the direction flag and `syncMergedIter`) for ANY two source
iterators: whenever the two sources are positioned so that they walk `ld` / `lp` (`Stream` for
forward, `BStream` for backward — both sides of the merge of the fixed code), the cursor walks the
ordered merge in which the transaction's pending puts and removes shadow the snapshot side. -/

/-- `Last` then `Prev`…: the ordered merge, descending. -/
theorem C16_cursor_backward {δ π : Type} [ItOps δ] [ItOps π] (t : Tx) (fuel : Nat) (c : Cursor δ π)
    (ld lp : List E) (hf : ld.length < fuel)
    (hd : BStream (ItOps.last c.db).1 ld) (hp : BStream (ItOps.last c.pend).1 lp) :
    CBStream t fuel (c.last t fuel).1 (mergeB (shadow t) ld lp) := by
  unfold Cursor.last
  exact choose_stream_back t fuel _ ld lp _ (Nat.le_refl _) hf rfl hd hp

/-- `Seek(k)` then `Next`…: both sources are seeked to `<bucket id><k>`, then merged forwards. -/
theorem C16_cursor_seek {δ π : Type} [ItOps δ] [ItOps π] (t : Tx) (fuel : Nat) (c : Cursor δ π) (k : Bytes)
    (ld lp : List E) (hf : ld.length < fuel)
    (hd : Stream (ItOps.seek c.db (bucketizedKey c.bucket k)).1 ld)
    (hp : Stream (ItOps.seek c.pend (bucketizedKey c.bucket k)).1 lp) :
    CStream t fuel (c.seek t fuel k).1 (mergeF (shadow t) ld lp) := by
  unfold Cursor.seek
  exact choose_stream t fuel _ ld lp _ (Nat.le_refl _) hf rfl hd hp

/-- **Direction change, backward → forward** (`Next` after `Last`/`Prev`): both sources are
    repositioned just after the current key (`syncMergedIter`), whichever of them the cursor was
    standing on, and merged forwards — the other source no longer "sits on the far side". -/
theorem C16_cursor_turn {δ π : Type} [ItOps δ] [ItOps π] (t : Tx) (fuel : Nat) (c : Cursor δ π)
    (isDb : Bool) (k : Bytes) (ld lp : List E) (hf : ld.length < fuel)
    (hcur : c.cur = some isDb) (hback : c.fwd = false) (hk : c.rawKey = some k)
    (hd : Stream (syncOther c.db k true) ld) (hp : Stream (syncOther c.pend k true) lp) :
    CStream t fuel (c.next t fuel).1 (mergeF (shadow t) ld lp) := by
  unfold Cursor.next
  simp only [hcur, hback, Bool.not_false, if_true, hk, Option.getD_some]
  exact choose_stream t fuel _ ld lp _ (Nat.le_refl _) hf rfl hd hp

/-- … and forward → backward (`Prev` after `First`/`Next`/`Seek`). -/
theorem C16_cursor_turn_back {δ π : Type} [ItOps δ] [ItOps π] (t : Tx) (fuel : Nat) (c : Cursor δ π)
    (isDb : Bool) (k : Bytes) (ld lp : List E) (hf : ld.length < fuel)
    (hcur : c.cur = some isDb) (hfwd : c.fwd = true) (hk : c.rawKey = some k)
    (hd : BStream (syncOther c.db k false) ld) (hp : BStream (syncOther c.pend k false) lp) :
    CBStream t fuel (c.prev t fuel).1 (mergeB (shadow t) ld lp) := by
  unfold Cursor.prev
  simp only [hcur, hfwd, if_true, hk, Option.getD_some]
  exact choose_stream_back t fuel _ ld lp _ (Nat.le_refl _) hf rfl hd hp

/-- **Cursor.Delete during a forward walk.**  The delete changes the transaction (`t'`: the key is
    pending-removed, the pending iterators are refreshed).  The walk continues correctly from
    there: `Next` steps the source the cursor stands on and merges with the NEW shadowing, so the
    deleted entry — and any snapshot entry it shadowed — cannot reappear. -/
theorem C16_cursor_delete_next {δ π : Type} [ItOps δ] [ItOps π] (t' : Tx) (fuel : Nat) (c : Cursor δ π)
    (isDb : Bool) (ld lp : List E) (hf : ld.length < fuel)
    (hcur : c.cur = some isDb) (hfwd : c.fwd = true)
    (hd : Stream (if isDb then (ItOps.next c.db).1 else c.db) ld)
    (hp : Stream (if isDb then c.pend else (ItOps.next c.pend).1) lp) :
    CStream t' fuel (c.next t' fuel).1 (mergeF (shadow t') ld lp) := by
  unfold Cursor.next
  simp only [hcur, hfwd, Bool.not_true, Bool.false_eq_true, if_false]
  cases isDb with
  | true =>
    simp only [if_true] at hd hp ⊢
    exact choose_stream t' fuel _ ld lp _ (Nat.le_refl _) hf rfl hd hp
  | false =>
    simp only [Bool.false_eq_true, if_false] at hd hp ⊢
    exact choose_stream t' fuel _ ld lp _ (Nat.le_refl _) hf rfl hd hp

theorem ldb_seek_items (d : LdbIt) (k : Bytes) : (LdbIt.seek d k).1.items = d.items := by
  unfold LdbIt.seek; split <;> rfl

/-- `Seek` end to end for the key cursor (`newCursor(…, ctKeys/ctBuckets)`): after `Seek(k)` the
    forward walk visits the ordered merge of the three layers from `<bucket id><k>` on (each treap
    layer clamped to the start of the range, as the fixed `ldbTreapIter`/`ldbCacheIter` do). -/
theorem C16_cursor_seek_key (t : Tx) (id pfx k : Bytes) (fuel : Nat)
    (hck : Sorted t.snap.ckeys) (hpk : Sorted t.pkeys)
    (hfuel : t.snap.ldb.length + t.snap.ckeys.length < fuel) :
    let lim := prefixLimit pfx
    let sk := bucketizedKey id k
    let sk' := if compare sk pfx == Ordering.lt then pfx else sk
    let LD := (t.snap.ldb.filter fun e => inRange (some pfx) lim e.1).dropWhile fun e => compare e.1 sk == Ordering.lt
    let LC := rangeListFrom sk' pfx lim t.snap.ckeys
    let LP := rangeListFrom sk' pfx lim t.pkeys
    CStream t fuel ((newKeyCursor t id pfx).seek t fuel k).1
      (mergeF (shadow t) (mergeF (fun k => has t.snap.cremoves k || has t.snap.ckeys k) LD LC) LP) := by
  simp only []
  let sk := bucketizedKey id k
  let it0 : CacheIt := mkCacheIt t.snap pfx
  let it1 : CacheIt := { it0 with db := (it0.db.seek sk).1, ci := (it0.ci.seek sk).1, fwd := true }
  have hdb : Stream it1.db ((t.snap.ldb.filter fun e => inRange (some pfx) (prefixLimit pfx) e.1).dropWhile
      fun e => compare e.1 sk == Ordering.lt) := ldbit_seek_stream it0.db sk
  have hci := treapit_seek_stream it0.ci pfx sk rfl hck
  have hlen : ((t.snap.ldb.filter fun e => inRange (some pfx) (prefixLimit pfx) e.1).dropWhile
      fun e => compare e.1 sk == Ordering.lt).length ≤ it1.db.items.length := by
    show _ ≤ (LdbIt.seek it0.db sk).1.items.length
    rw [ldb_seek_items]
    exact dropWhile_length_le _ _
  have hcache := cacheit_choose_stream _ _ _ it1 (Nat.le_refl _) hlen rfl hdb hci
  have hsh : shadowC it1 = fun k => has t.snap.cremoves k || has t.snap.ckeys k := by
    funext k; simp [shadowC, it1, it0, mkCacheIt]
  rw [hsh] at hcache
  have hpend := treapit_seek_stream (mkPendIt t pfx) pfx sk rfl hpk
  have hl1 : ((t.snap.ldb.filter fun e => inRange (some pfx) (prefixLimit pfx) e.1).dropWhile
      fun e => compare e.1 sk == Ordering.lt).length ≤ t.snap.ldb.length :=
    Nat.le_trans (dropWhile_length_le _ _) (List.length_filter_le _ _)
  have hl2 : (rangeListFrom (if compare sk pfx == Ordering.lt then pfx else sk) pfx (prefixLimit pfx) t.snap.ckeys).length
      ≤ t.snap.ckeys.length := by
    unfold rangeListFrom
    exact Nat.le_trans (takeWhile_length_le _ _) (dropWhile_length_le _ _)
  have hl3 := mergeF_length_le (fun k => has t.snap.cremoves k || has t.snap.ckeys k) _
    ((t.snap.ldb.filter fun e => inRange (some pfx) (prefixLimit pfx) e.1).dropWhile fun e => compare e.1 sk == Ordering.lt)
    (rangeListFrom (if compare sk pfx == Ordering.lt then pfx else sk) pfx (prefixLimit pfx) t.snap.ckeys)
    (Nat.le_refl _)
  exact C16_cursor_seek t fuel (newKeyCursor t id pfx) k _ _
    (Nat.lt_of_le_of_lt (Nat.le_trans hl3 (Nat.add_le_add hl1 hl2)) hfuel) hcache hpend

theorem dropKey_length_le (k : Bytes) (l : List E) : (dropKey k l).length ≤ l.length := by
  cases l with
  | nil => simp [dropKey]
  | cons e l => simp only [dropKey]; split <;> simp

/-- **Direction change with the repositioning discharged**: for any two sources whose `Seek(k)`
    walks `ld` / `lp` (and answers `true` exactly when it stands on a key — `ldbit_seek_ok`,
    `treapit_seek_ok`, `cacheit_seek_ok`), `Next` after a backward move walks the ordered merge of
    `ld` and `lp` without the current key `k`. -/
theorem C16_cursor_turn_seek {δ π : Type} [ItOps δ] [ItOps π] (t : Tx) (fuel : Nat) (c : Cursor δ π)
    (isDb : Bool) (k : Bytes) (ld lp : List E) (hf : ld.length < fuel)
    (hcur : c.cur = some isDb) (hback : c.fwd = false) (hk : c.rawKey = some k)
    (hd : Stream (ItOps.seek c.db k).1 ld) (hdo : (ItOps.seek c.db k).2 = (ItOps.key (ItOps.seek c.db k).1).isSome)
    (hp : Stream (ItOps.seek c.pend k).1 lp) (hpo : (ItOps.seek c.pend k).2 = (ItOps.key (ItOps.seek c.pend k).1).isSome) :
    CStream t fuel (c.next t fuel).1 (mergeF (shadow t) (dropKey k ld) (dropKey k lp)) :=
  C16_cursor_turn t fuel c isDb k _ _ (Nat.lt_of_le_of_lt (dropKey_length_le k ld) hf) hcur hback hk
    (syncOther_fwd c.db k ld hd hdo) (syncOther_fwd c.pend k lp hp hpo)

/-- … end to end for the key cursor in ANY state reached by a backward move (only the immutable
    parts of its three leaf iterators matter, `syncMergedIter` re-seeks them): `Next` walks the
    ordered merge of the three layers from the current raw key `k` on, `k` itself excluded. -/
theorem C16_cursor_turn_key (t : Tx) (fuel : Nat) (c : KeyCursor) (isDb : Bool) (k s sp : Bytes)
    (hcur : c.cur = some isDb) (hback : c.fwd = false) (hk : c.rawKey = some k)
    (hcs : c.db.ci.start = some s) (hci : Sorted c.db.ci.items)
    (hps : c.pend.start = some sp) (hpi : Sorted c.pend.items)
    (hfuel : c.db.db.items.length + c.db.ci.items.length < fuel) :
    let LD := c.db.db.items.dropWhile fun e => compare e.1 k == Ordering.lt
    let LC := rangeListFrom (if compare k s == Ordering.lt then s else k) s c.db.ci.limit c.db.ci.items
    let LP := rangeListFrom (if compare k sp == Ordering.lt then sp else k) sp c.pend.limit c.pend.items
    CStream t fuel (c.next t fuel).1
      (mergeF (shadow t) (dropKey k (mergeF (shadowC c.db) LD LC)) (dropKey k LP)) := by
  simp only []
  let it1 : CacheIt := { c.db with db := (c.db.db.seek k).1, ci := (c.db.ci.seek k).1, fwd := true }
  have hdb : Stream it1.db (c.db.db.items.dropWhile fun e => compare e.1 k == Ordering.lt) :=
    ldbit_seek_stream c.db.db k
  have hcis := treapit_seek_stream c.db.ci s k hcs hci
  have hlen : (c.db.db.items.dropWhile fun e => compare e.1 k == Ordering.lt).length ≤ it1.db.items.length := by
    show _ ≤ (LdbIt.seek c.db.db k).1.items.length
    rw [ldb_seek_items]
    exact dropWhile_length_le _ _
  have hcache := cacheit_choose_stream _ _ _ it1 (Nat.le_refl _) hlen rfl hdb hcis
  have hsh : shadowC it1 = shadowC c.db := rfl
  rw [hsh] at hcache
  have hpend := treapit_seek_stream c.pend sp k hps hpi
  have hl1 := dropWhile_length_le (fun e : E => compare e.1 k == Ordering.lt) c.db.db.items
  have hl2 : (rangeListFrom (if compare k s == Ordering.lt then s else k) s c.db.ci.limit c.db.ci.items).length
      ≤ c.db.ci.items.length := by
    unfold rangeListFrom
    exact Nat.le_trans (takeWhile_length_le _ _) (dropWhile_length_le _ _)
  have hl3 := mergeF_length_le (shadowC c.db) _
    (c.db.db.items.dropWhile fun e => compare e.1 k == Ordering.lt)
    (rangeListFrom (if compare k s == Ordering.lt then s else k) s c.db.ci.limit c.db.ci.items)
    (Nat.le_refl _)
  exact C16_cursor_turn_seek t fuel c isDb k _ _
    (Nat.lt_of_le_of_lt (Nat.le_trans hl3 (Nat.add_le_add hl1 hl2)) hfuel) hcur hback hk
    hcache (cacheit_seek_ok c.db k) hpend (treapit_seek_ok c.pend k)

theorem ldb_last_items (d : LdbIt) : (LdbIt.last d).1.items = d.items := by
  unfold LdbIt.last; split <;> rfl

/-- Backward walk end to end for the key cursor: `Last` followed by `Prev`… visits the ordered
    merge of the three layers restricted to the bucket's range, in descending key order. -/
theorem C16_cursor_backward_key (t : Tx) (id pfx l : Bytes) (fuel : Nat) (hlim : prefixLimit pfx = some l)
    (hck : Sorted t.snap.ckeys) (hpk : Sorted t.pkeys)
    (hfuel : t.snap.ldb.length + t.snap.ckeys.length < fuel) :
    let LD := (t.snap.ldb.filter fun e => inRange (some pfx) (some l) e.1).reverse
    let LC := rangeListRev (some pfx) l t.snap.ckeys
    let LP := rangeListRev (some pfx) l t.pkeys
    CBStream t fuel ((newKeyCursor t id pfx).last t fuel).1
      (mergeB (shadow t) (mergeB (fun k => has t.snap.cremoves k || has t.snap.ckeys k) LD LC) LP) := by
  simp only []
  let it0 : CacheIt := mkCacheIt t.snap pfx
  let it1 : CacheIt := { it0 with db := it0.db.last.1, ci := it0.ci.last.1, fwd := false }
  have hitems0 : it0.db.items = t.snap.ldb.filter fun e => inRange (some pfx) (some l) e.1 := by
    simp [it0, mkCacheIt, LdbIt.mk', hlim]
  have hdb : BStream it1.db (t.snap.ldb.filter fun e => inRange (some pfx) (some l) e.1).reverse := by
    have := ldbit_last_bstream it0.db
    rw [hitems0] at this; exact this
  have hci : BStream it1.ci (rangeListRev (some pfx) l t.snap.ckeys) :=
    treapit_last_bstream it0.ci l (by simp [it0, mkCacheIt, hlim]) hck
  have hlen : (t.snap.ldb.filter fun e => inRange (some pfx) (some l) e.1).reverse.length ≤ it1.db.items.length := by
    show _ ≤ (LdbIt.last it0.db).1.items.length
    rw [ldb_last_items, hitems0]; simp
  have hcache := cacheit_choose_stream_b _ _ _ it1 (Nat.le_refl _) hlen rfl hdb hci
  have hsh : shadowC it1 = fun k => has t.snap.cremoves k || has t.snap.ckeys k := by
    funext k; simp [shadowC, it1, it0, mkCacheIt]
  rw [hsh] at hcache
  have hpend : BStream (ItOps.last (mkPendIt t pfx)).1 (rangeListRev (some pfx) l t.pkeys) :=
    treapit_last_bstream (mkPendIt t pfx) l (by simp [mkPendIt, hlim]) hpk
  have hl1 : (t.snap.ldb.filter fun e => inRange (some pfx) (some l) e.1).reverse.length ≤ t.snap.ldb.length := by
    simp only [List.length_reverse]; exact List.length_filter_le _ _
  have hl2 : (rangeListRev (some pfx) l t.snap.ckeys).length ≤ t.snap.ckeys.length := by
    unfold rangeListRev
    refine Nat.le_trans (takeWhile_length_le _ _) ?_
    simp only [List.length_reverse]; exact takeWhile_length_le _ _
  have hl3 := mergeB_length_le (fun k => has t.snap.cremoves k || has t.snap.ckeys k) _
    (t.snap.ldb.filter fun e => inRange (some pfx) (some l) e.1).reverse (rangeListRev (some pfx) l t.snap.ckeys)
    (Nat.le_refl _)
  exact C16_cursor_backward t fuel (newKeyCursor t id pfx) _ _
    (Nat.lt_of_le_of_lt (Nat.le_trans hl3 (Nat.add_le_add hl1 hl2)) hfuel) hcache hpend

/-! ## the refinement statement -/

/-- raw-key operations of a transaction -/
inductive KOp where
  | put (k v : Bytes)
  | del (k : Bytes)
  | get (k : Bytes)

/-- the implementation: `putKey` / `deleteKey` / `fetchKey` -/
def kstep (t : Tx) : KOp → Tx × Option (Option Bytes)
  | .put k v => (t.putKey k v, none)
  | .del k => (t.deleteKey k, none)
  | .get k => (t, some (t.fetch k))

/-- the specification: a finite map as a function -/
def kspec (m : Bytes → Option Bytes) : KOp → (Bytes → Option Bytes) × Option (Option Bytes)
  | .put k v => (fun k' => if k' = k then some v else m k', none)
  | .del k => (fun k' => if k' = k then none else m k', none)
  | .get k => (m, some (m k))

/-- **Refinement (`C16_refines`).**  Abstraction: a transaction is the map `k ↦ t.fetch k`
    (= `find k t.view`, `C16_tx_fetch`); a database is `k ↦ find k d.view`.
    * every raw-key operation of a writable transaction returns what the map returns and commutes
      with the abstraction, and keeps the representation invariant;
    * `Commit` makes the database's map equal the transaction's map (for either flush decision),
      `flush` and `reopen` leave the database's map alone.
    Bucket operations sit on top of these raw-key operations: `C16_create_bucket`,
    `C16_delete_bucket`, `C16_bucket_keys_injective`; cursors: `C16_cursor_forward(_view)`,
    `C16_cursor_backward`, `C16_cursor_seek`, `C16_cursor_turn(_back)`, `C16_cursor_delete_next`.
    Not covered by a theorem (`_partial` in that sense): `resolve` of bucket paths, freshness of
    new bucket ids, and the positioning lemmas of the leaf iterators for backward / seek / turn
    (the forward ones are proved: `ldbit_first_stream`, `treapit_first_stream`,
    `cacheit_choose_stream`). -/
theorem C16_refines (t : Tx) (h : TxOK t) (hw : t.writable = true) (op : KOp) :
    (kstep t op).2 = (kspec t.fetch op).2 ∧
    (∀ k, (kstep t op).1.fetch k = (kspec t.fetch op).1 k) ∧
    TxOK (kstep t op).1 ∧ (kstep t op).1.writable = true ∧
    (∀ (d : DB), DbOK d → t.snap = d.snapshot →
        (∀ k, find k (d.commitTx t).view = t.fetch k) ∧
        (∀ k, find k d.flush.view = find k d.view) ∧ (∀ k, find k d.reopen.view = find k d.view)) := by
  refine ⟨?_, ?_, ?_, ?_, ?_⟩
  · cases op <;> rfl
  · intro k
    cases op with
    | put k0 v => exact C16_put t h hw k0 v k
    | del k0 => exact C16_delete t h hw k0 k
    | get k0 => rfl
  · cases op with
    | put k0 v => exact putKey_ok h k0 v
    | del k0 => exact deleteKey_ok h k0
    | get k0 => exact h
  · cases op <;> exact hw
  · intro d hd hs
    refine ⟨fun k => ?_, fun k => (C16_flush_invisible d hd k).1, fun k => C16_reopen d hd k⟩
    rw [(C16_commit d t hd h hw hs k).1, C16_tx_fetch t h k]

/-- non-vacuity: a committed put is visible whichever way the cache went. -/
example :
    let d : DB := { ldb := [([0, 0, 0, 0, 5], [1])], maxSize := 0 }
    let t : Tx := ({ writable := true, snap := d.snapshot } : Tx).putKey [0, 0, 0, 0, 7] [9]
    (find [0, 0, 0, 0, 7] (d.commitTx t).view, find [0, 0, 0, 0, 7] ({ d with flushAlways := true }.commitTx t).view)
      = (some [9], some [9]) := by
  decide

end ElaVerif.C16
