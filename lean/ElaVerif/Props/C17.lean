import ElaVerif.Lemmas.Crash
import ElaVerif.Lemmas.Treap
/-!
# C17 — ffldb survives a crash at any point

Model: `ElaVerif/Model/Crash.lean` — the commit path as micro steps with the
crash points that are compiled into the code (build tag `verif`): per block an
optional rollover and four flat-file writes, each of which can be torn; then
the write-cursor row; then `commitTx` (merge into the volatile cache, or flush
+ write-through, each leveldb batch one atomic step).  Durable state = block
files + leveldb; a crash loses the cache, the in-memory cursor and the pending
transaction; `reopen` = `openDB` + `reconcileDB`.

How the theorems combine.  What a reopened database shows is a function of
(i) leveldb and (ii) the bytes of the block files at the locations stored in
leveldb.  (i) moves only by whole batches (`C17_atomic`): after a crash at any
point leveldb is what it was before the commit, or that plus the previously
committed cache contents, or that plus the whole interrupted transaction —
never part of a transaction.  (ii) every non-empty location below the cursor
is unchanged by any write at or after the cursor, complete or torn
(`C17_torn_write_keeps_records`), and by the reconcile truncation
(`C17_reconcile_keeps_records`); the block phase cannot touch leveldb at all
(it has type `FS → FS`).  The index row of a block and the write-cursor row
travel in the same batch, after the block's bytes are in the file, so a
location stored in leveldb is always below leveldb's write cursor
(`C17_no_partial_block` is that statement for the transaction handed to the
cache).  With the write-back cache "last completed commit" means "last commit
that reached leveldb"; with a zero flush interval every completed commit does
(`C17_atomic`, second part).
-/
namespace ElaVerif.C17
open ElaVerif.Crash
open ElaVerif.BlockStore (Files Loc writeFile truncateTo fileAt)
open ElaVerif.Ffldb (applyTo Tx)

/-- A write at the cursor — complete or cut short anywhere — changes no non-empty
    byte range that lies below the cursor (records written earlier, committed or not). -/
theorem C17_torn_write_keeps_records (fs : Files) (cf co : Nat) (data : List UInt8) (torn : Nat) (loc : Loc)
    (hcur : CurOK fs cf co) (hb : Below cf co loc) (hlen : 0 < loc.len) :
    regionOf (writeFile fs cf co (data.take torn)) loc = regionOf fs loc :=
  region_writeFile fs cf co _ loc hcur hb hlen

/-- The truncation `reconcileDB` performs after an unclean shutdown (delete newer files,
    cut the file of the persisted cursor back to it) changes no byte range below that cursor. -/
theorem C17_reconcile_keeps_records (fs : Files) (wf wo hi : Nat) (loc : Loc) (f : List UInt8)
    (hf : fileAt fs wf = some f) (hwo : wo ≤ f.length) (hb : Below wf wo loc) :
    regionOf (truncateTo fs wf wo hi) loc = regionOf fs loc :=
  region_truncate fs wf wo hi loc f hf hwo hb

example : regionOf (truncateTo [some [1, 2, 3, 4, 5, 6], some [9, 9]] 0 4 1) ⟨0, 1, 3⟩ = some [2, 3, 4] := by decide

/-- **A crash inside the reconciliation itself** (`handleRollback` run by `reconcileDB`: crash points
    after each file deletion, before and after the truncation): at every point where it can die,
    and when it completes, every byte range below the persisted cursor is untouched — so the next
    reopen finds the same durable blocks and simply reconciles again. -/
theorem C17_rollback_keeps_records (fs : FS) (wf wo sf : Nat) (loc : Loc) (f : List UInt8)
    (hf : fileAt fs.files wf = some f) (hwo : wo ≤ f.length) (hb : Below wf wo loc) :
    regionOf (rollback fs wf wo sf).1.files loc = regionOf fs.files loc :=
  rollback_keeps_records fs wf wo sf loc f hf hwo hb

/-- `commitTx` under a crash at any of its points: leveldb ends up in one of three states —
    untouched (`L0`), `L0` plus the cache of earlier commits (`L1`), or `L1` plus the whole
    transaction (`L2`).  When it runs to completion on the flush path (always the case with a
    zero flush interval) leveldb is `L2` and the cache is empty: the commit is durable. -/
theorem C17_atomic (s : St) (t : Tx) :
    let L0 := s.db.ldb
    let L1 := applyTo L0 s.db.ckeys s.db.cremoves
    let L2 := applyTo L1 t.pkeys t.premoves
    let r := commitTx s t
    (r.1.db.ldb = L0 ∨ r.1.db.ldb = L1 ∨ r.1.db.ldb = L2) ∧
    (s.db.needsFlush t = true → r.2 = false → r.1.db.ldb = L2 ∧ r.1.db.ckeys = [] ∧ r.1.db.cremoves = []) ∧
    (s.db.needsFlush t = false → r.2 = false ∧ r.1.db.ldb = L0) := by
  simp only []
  unfold commitTx
  by_cases hf : s.db.needsFlush t = true
  · simp only [hf, if_true]
    have hfl := flush_spec s
    simp only [] at hfl
    rcases hfs : flush s with ⟨s1, dead1⟩
    rw [hfs] at hfl
    cases dead1 with
    | true =>
      simp only [if_true]
      have := hfl.1 rfl
      refine ⟨?_, by simp, by simp [hf]⟩
      rcases this with h | h
      · left; show s1.db.ldb = _; rw [show s1.db = s.db from h]
      · right; left; show s1.db.ldb = _; rw [show s1.db = _ from h]
    | false =>
      simp only [Bool.false_eq_true, if_false]
      have hdb1 : s1.db = { s.db with ldb := applyTo s.db.ldb s.db.ckeys s.db.cremoves, ckeys := [], cremoves := [] } := by
        simpa using hfl.2 rfl
      rcases hit s1.fs "commitTx.afterFlush" with ⟨fs2, dead2⟩
      cases dead2 with
      | true => simp [hdb1, hf]
      | false =>
        simp only [Bool.false_eq_true, if_false]
        have hb := ldbBatch_spec { s1 with fs := fs2 } t.pkeys t.premoves
        rcases hlb : ldbBatch { s1 with fs := fs2 } t.pkeys t.premoves with ⟨s3, dead3⟩
        rw [hlb] at hb
        cases dead3 with
        | true =>
          have h3 : s3.db = s1.db := by simpa using hb.1 rfl
          simp [h3, hdb1, hf]
        | false =>
          have h3 : s3.db = { s1.db with ldb := applyTo s1.db.ldb t.pkeys t.premoves } := by simpa using hb.2 rfl
          rcases hit s3.fs "commitTx.afterWrite" with ⟨fs4, dead4⟩
          simp [h3, hdb1, hf]
  · have hf' : s.db.needsFlush t = false := by simpa using hf
    simp only [hf', Bool.false_eq_true, if_false]
    refine ⟨Or.inl ?_, by simp, fun _ => ⟨trivial, ?_⟩⟩ <;>
    · unfold ElaVerif.Ffldb.DB.commitTx
      simp [hf']

/-- The same for a whole commit (blocks, metadata, `Commit`): if the process dies anywhere on
    the way leveldb is `L0`, `L1` or `L2`, where the transaction of `L2` is exactly the one
    `writePendingAndCommit` assembled (`finalTx`: the user's metadata puts and deletes, one index row per
    block, and the write-cursor row). -/
theorem C17_atomic_commit (crc : List UInt8 → Nat) (s : St) (blocks : List (List UInt8 × List UInt8))
    (kvs : List (List UInt8 × Option (List UInt8))) :
    let t0 : Tx := applyKvs { writable := true, snap := s.db.snapshot } kvs
    let wb := writeBlocks crc s.fs t0 blocks
    let T := finalTx crc wb.2.1 (hit wb.1 "commit.afterBlocks").1
    let L0 := s.db.ldb
    let L1 := applyTo L0 s.db.ckeys s.db.cremoves
    let L2 := applyTo L1 T.pkeys T.premoves
    let r := commit crc s blocks kvs
    r.1.db.ldb = L0 ∨ r.1.db.ldb = L1 ∨ r.1.db.ldb = L2 := by
  simp only []
  unfold commit
  simp only []
  rcases hwb : writeBlocks crc s.fs _ blocks with ⟨fs1, t1, dead1⟩
  cases dead1 with
  | true => simp
  | false =>
    simp only [Bool.false_eq_true, if_false]
    rcases hh : hit fs1 "commit.afterBlocks" with ⟨fs2, dead2⟩
    cases dead2 with
    | true => simp
    | false =>
      simp only [Bool.false_eq_true, if_false]
      rcases hit fs2 "commit.beforeCache" with ⟨fs3, dead3⟩
      cases dead3 with
      | true => simp
      | false =>
        simp only [Bool.false_eq_true, if_false]
        have := (C17_atomic { s with fs := fs3 } (finalTx crc t1 fs2)).1
        simpa using this

/-- No block is readable unless it was fully written: in the transaction handed to the cache
    the write-cursor row points at the in-memory cursor *after* all the block writes of this
    commit, so every index row of the batch describes bytes that are already in the files,
    below the cursor that becomes durable together with it. -/
theorem C17_no_partial_block (crc : List UInt8 → Nat) (t : Tx) (fs : FS) :
    ElaVerif.OrdMap.find (ElaVerif.Ffldb.bucketizedKey ElaVerif.Ffldb.metaID ElaVerif.Ffldb.writeLocKey)
        (finalTx crc t fs).pkeys = some (writeRow crc fs.curFile fs.curOff) := by
  unfold finalTx ElaVerif.Ffldb.Tx.putKey
  exact ElaVerif.Treap.find_ins_same _ _ _

/-- a state that `reopen` leaves alone: nothing armed, nothing cached, the directory scan and the
    in-memory cursor both equal to the persisted write cursor -/
theorem reopen_fixed (s : St) (harm : s.fs.arm = none) (hfl : s.db.flush = s.db)
    (hscan : ElaVerif.BlockStore.scan s.fs.files 0 (0, 0) =
      (let row := (ElaVerif.OrdMap.find (ElaVerif.Ffldb.bucketizedKey ElaVerif.Ffldb.metaID ElaVerif.Ffldb.writeLocKey) s.db.ldb).getD []
       (ElaVerif.BlockStore.rdLe32 row, ElaVerif.BlockStore.rdLe32 (row.drop 4))))
    (hcur : (s.fs.curFile, s.fs.curOff) = ElaVerif.BlockStore.scan s.fs.files 0 (0, 0)) :
    reopen s = some s := by
  obtain ⟨fs, db⟩ := s
  obtain ⟨net, max, files, cf, co, arm⟩ := fs
  simp only at harm hfl hscan hcur
  subst harm
  unfold reopen reopenArmed
  simp only [hfl, hscan]
  rw [hscan] at hcur
  simp only [Prod.mk.injEq] at hcur
  rw [if_neg (by omega), if_neg (by omega)]
  simp only [Option.map_some, ← hcur.1, ← hcur.2]

/-- **Reopen after reopen = reopen.**  Whatever `reconcileDB` did on the first open (nothing, or a
    complete `handleRollback`: delete the newer files, truncate the cursor file), a second open
    finds the directory scan equal to the persisted cursor and changes nothing — files, leveldb
    and the in-memory cursor are a fixed point. -/
theorem C17_reconcile_idempotent (s s' : St) (h : reopen s = some s') : reopen s' = some s' := by
  unfold reopen reopenArmed at h
  simp only [] at h
  generalize hrow : (ElaVerif.OrdMap.find (ElaVerif.Ffldb.bucketizedKey ElaVerif.Ffldb.metaID ElaVerif.Ffldb.writeLocKey) s.db.flush.ldb).getD [] = row at h
  have hwo := rdLe32_lt (row.drop 4)
  split at h
  · rename_i hc
    rw [rollback_none _ _ _ _ rfl] at h
    simp only [Option.map_some, Option.some.injEq] at h
    subst h
    have hsc := scan_rolled s.fs.files _ _ hwo hc
    exact reopen_fixed _ rfl (DB_flush_flush _) (by simp only [hrow]; exact hsc) (by simp only []; exact hsc.symm)
  · split at h
    · simp at h
    · simp only [Option.map_some, Option.some.injEq] at h
      subst h
      rename_i h1 h2
      refine reopen_fixed _ rfl (DB_flush_flush _) ?_ rfl
      simp only [hrow]
      apply Prod.ext <;> simp only [] <;> omega

/-- non-vacuity: files ahead of an (empty) persisted cursor are rolled back by the first open,
    and the second open returns the same state -/
example :
    let s : St := { fs := { files := [some [1, 2, 3, 4, 5], some [1, 2], some [9]], arm := some ⟨"x", 0, 0⟩ } }
    (reopen s).map (·.fs.files) = some [some [], none, none] ∧ ((reopen s).bind reopen).map (·.fs.files) = some [some [], none, none] := by
  decide

/-- non-vacuity: a crash between the cache flush and the write-through leaves exactly the
    earlier commits in leveldb (`L1`), not the interrupted one. -/
example :
    let s : St := { fs := { arm := some ⟨"commitTx.afterFlush", 0, 0⟩ },
                    db := { ldb := [([1], [1])], ckeys := [([2], [2])], flushAlways := true } }
    let t : Tx := ({ writable := true, snap := s.db.snapshot } : Tx).putKey [3] [3]
    ((commitTx s t).2, (commitTx s t).1.db.ldb) = (true, [([1], [1]), ([2], [2])]) := by
  decide

end ElaVerif.C17
