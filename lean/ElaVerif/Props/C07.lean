import ElaVerif.Model.Merkle
import ElaVerif.Lemmas.Merkle
/-!
# C07 — block contents are bound to the header

Model: `ElaVerif.Merkle.computeRoot` (= `crypto.ComputeRoot`: a single hash is its own
root, otherwise `levelUp` rounds in which an odd last node is paired **with itself**)
and `blockSanityTx` (= the transaction part of `BlockChain.CheckBlockSanity`).

The node hash `H` is a parameter.  Collision freedom appears only as the explicit
hypothesis `MerkleIdeal H L` (`H` injective in both arguments; no value satisfying the
leaf predicate `L` is a node hash).  `FreeTree` below instantiates it.
-/
namespace ElaVerif.C07
open ElaVerif.Merkle

variable {α : Type}

/-! ## non-vacuity instance: the free binary-tree algebra -/

inductive FreeTree where
  | leaf (n : Nat)
  | node (l r : FreeTree)
  deriving DecidableEq, Repr

def FreeTree.isLeaf : FreeTree → Prop
  | .leaf _ => True
  | .node _ _ => False

theorem freeTree_ideal : MerkleIdeal FreeTree.node FreeTree.isLeaf where
  inj := by intro a b c d h; cases h; exact ⟨rfl, rfl⟩
  sep := by intro l hl a b h; subst h; exact hl

/-! ## the root computation is total -/

/-- `ComputeRoot` never indexes an empty slice; it fails exactly on the empty list. -/
theorem C07_root_total (H : α → α → α) (xs : List α) :
    computeRoot H xs ≠ .panic ∧ (computeRoot H xs = .err ↔ xs = []) := by
  by_cases h : xs = []
  · subst h; exact ⟨by simp [computeRoot_nil], by simp [computeRoot_nil]⟩
  · obtain ⟨d, r, e, _⟩ := computeRoot_spec H xs h
    rw [e]; exact ⟨by simp, by simp [h]⟩

/-! ## root injectivity -/

/-- Under the ideal-hash hypothesis two duplicate-free leaf lists with the same
    merkle root are equal (in particular they have the same length and order). -/
theorem C07_root_injective {H : α → α → α} {L : α → Prop} (hI : MerkleIdeal H L)
    (xs ys : List α) (hxL : ∀ x ∈ xs, L x) (hyL : ∀ y ∈ ys, L y)
    (hx : xs.Nodup) (hy : ys.Nodup) (r : α)
    (ex : computeRoot H xs = .ok r) (ey : computeRoot H ys = .ok r) : xs = ys :=
  computeRoot_inj hI xs ys hxL hyL hx hy r ex ey

/-- non-vacuity: hypotheses hold for three distinct leaves of the free algebra, and the
    root is the expected tree (last node paired with itself). -/
example : computeRoot FreeTree.node [.leaf 1, .leaf 2, .leaf 3] =
    .ok (.node (.node (.leaf 1) (.leaf 2)) (.node (.leaf 3) (.leaf 3))) := by decide
example : ([FreeTree.leaf 1, .leaf 2, .leaf 3]).Nodup ∧ ∀ x ∈ [FreeTree.leaf 1, .leaf 2, .leaf 3], x.isLeaf := by
  refine ⟨by decide, ?_⟩
  intro x hx; simp at hx; rcases hx with h | h | h <;> subst h <;> trivial

/-- The duplicated-tail collision (CVE-2012-2459 shape): for **every** hash function,
    appending a copy of the last leaf of an odd-length list (length ≥ 3) keeps the root.
    This is why `CheckBlockSanity` must reject duplicate transaction ids, and why
    `Nodup` cannot be dropped from `C07_root_injective`. -/
theorem C07_dup_tail (H : α → α → α) (x : α) (xs : List α) (hne : xs ≠ []) (hev : xs.length % 2 = 0) :
    computeRoot H (xs ++ [x]) = computeRoot H (xs ++ [x, x]) :=
  computeRoot_dup_tail H x xs hne hev

/-- Full-strength injectivity without `Nodup` is **false**, even for the free algebra. -/
theorem C07_root_injective_without_nodup_false :
    ¬ (∀ xs ys : List FreeTree, (∀ x ∈ xs, x.isLeaf) → (∀ y ∈ ys, y.isLeaf) → ∀ r,
        computeRoot FreeTree.node xs = .ok r → computeRoot FreeTree.node ys = .ok r → xs = ys) := by
  intro h
  have := h [.leaf 1, .leaf 2, .leaf 3] [.leaf 1, .leaf 2, .leaf 3, .leaf 3]
    (by intro x hx; simp only [List.mem_cons, List.not_mem_nil, or_false] at hx
        rcases hx with e | e | e <;> rw [e] <;> trivial)
    (by intro x hx; simp only [List.mem_cons, List.not_mem_nil, or_false] at hx
        rcases hx with e | e | e | e <;> rw [e] <;> trivial)
    (.node (.node (.leaf 1) (.leaf 2)) (.node (.leaf 3) (.leaf 3))) (by decide) (by decide)
  exact absurd this (by decide)

/-- The singleton rule makes the shortest case different: `[x]` and `[x,x]` do **not** collide. -/
example : computeRoot FreeTree.node [.leaf 7] ≠ computeRoot FreeTree.node [.leaf 7, .leaf 7] := by decide

/-! ## block sanity -/

section sanity
variable {κ : Type} [DecidableEq α] [DecidableEq κ]

/-- "A block is accepted only if": what acceptance by the transaction part of
    `CheckBlockSanity` implies. -/
theorem C07_accept_only_if (H : α → α → α) (root : α) (txs : List (Tx α κ)) (sp : Bool)
    (h : blockSanityTx H root txs sp = none) :
    ∃ cb rest, txs = cb :: rest ∧ cb.coinbase = true ∧ (∀ t ∈ rest, t.coinbase = false) ∧
      (txs.map (·.id)).Nodup ∧ (∀ t ∈ txs, t.sane = true) ∧ (txs.flatMap (·.inputs)).Nodup ∧
      sp = true ∧ computeRoot H (txs.map (·.id)) = .ok root := by
  unfold blockSanityTx at h
  match txs, h with
  | first :: others, h =>
    simp only [] at h
    by_cases h1 : first.coinbase = true
    · simp only [h1, Bool.not_true, Bool.false_eq_true, if_false] at h
      by_cases h2 : others.any (·.coinbase) = true
      · simp [h2] at h
      · simp only [h2] at h
        cases h3 : txLoop (first :: others) [] [] with
        | error e => simp [h3] at h
        | ok ids =>
          simp only [h3] at h
          obtain ⟨e, nd, sane, ndin⟩ := txLoop_spec _ _ _ _ h3
          simp only [List.reverse_nil, List.nil_append] at e
          by_cases h4 : sp = true
          · simp only [h4, Bool.not_true, Bool.false_eq_true, if_false] at h
            refine ⟨first, others, rfl, h1, ?_, ?_, sane, ?_, h4, ?_⟩
            · intro t ht
              cases hc : t.coinbase with
              | false => rfl
              | true => exact absurd (List.any_eq_true.mpr ⟨t, ht, hc⟩) h2
            · rw [← e]; exact nd (by simp)
            · have := ndin (by simp)
              simp only [List.append_nil] at this
              have := nodup_reverse' _ this
              simpa using this
            · rw [← e]
              cases h5 : computeRoot H ids with
              | ok r =>
                simp only [h5] at h
                by_cases h6 : r = root
                · rw [h6]
                · simp [h6] at h
              | err => simp [h5] at h
              | panic => simp [h5] at h
          · simp [h4] at h
    · simp [h1] at h

/-- The header root binds the transaction list: two lists accepted under the same header
    root have the same transaction ids in the same order. -/
theorem C07_header_binds_txs {H : α → α → α} {L : α → Prop} (hI : MerkleIdeal H L)
    (root : α) (txs txs' : List (Tx α κ)) (sp sp' : Bool)
    (hL : ∀ t ∈ txs, L t.id) (hL' : ∀ t ∈ txs', L t.id)
    (h : blockSanityTx H root txs sp = none) (h' : blockSanityTx H root txs' sp' = none) :
    txs.map (·.id) = txs'.map (·.id) := by
  obtain ⟨_, _, _, _, _, nd, _, _, _, r⟩ := C07_accept_only_if H root txs sp h
  obtain ⟨_, _, _, _, _, nd', _, _, _, r'⟩ := C07_accept_only_if H root txs' sp' h'
  refine C07_root_injective hI _ _ ?_ ?_ nd nd' root r r'
  · intro x hx; obtain ⟨t, ht, e⟩ := List.mem_map.mp hx; exact e ▸ hL t ht
  · intro x hx; obtain ⟨t, ht, e⟩ := List.mem_map.mp hx; exact e ▸ hL' t ht

/-- Any mutation of an accepted block's transaction list that changes the list of ids
    (change, removal, reordering, insertion) is rejected under the same header. -/
theorem C07_mutation_rejected {H : α → α → α} {L : α → Prop} (hI : MerkleIdeal H L)
    (root : α) (txs txs' : List (Tx α κ)) (sp sp' : Bool)
    (hL : ∀ t ∈ txs, L t.id) (hL' : ∀ t ∈ txs', L t.id)
    (h : blockSanityTx H root txs sp = none) (hne : txs'.map (·.id) ≠ txs.map (·.id)) :
    blockSanityTx H root txs' sp' ≠ none := by
  intro h'
  exact hne (C07_header_binds_txs hI root txs txs' sp sp' hL hL' h h').symm

/-- Removing any transaction of an accepted block makes it rejected. -/
theorem C07_remove_rejected {H : α → α → α} {L : α → Prop} (hI : MerkleIdeal H L)
    (root : α) (txs : List (Tx α κ)) (sp sp' : Bool) (i : Nat) (hi : i < txs.length)
    (hL : ∀ t ∈ txs, L t.id) (h : blockSanityTx H root txs sp = none) :
    blockSanityTx H root (txs.eraseIdx i) sp' ≠ none := by
  refine C07_mutation_rejected hI root txs _ sp sp' hL ?_ h ?_
  · intro t ht; exact hL t (List.mem_of_mem_eraseIdx ht)
  · intro e
    have := congrArg List.length e
    simp only [List.length_map, List.length_eraseIdx, hi, if_true] at this
    omega

/-- Replacing the transaction at position `i` by one with a different id makes the block rejected. -/
theorem C07_change_rejected {H : α → α → α} {L : α → Prop} (hI : MerkleIdeal H L)
    (root : α) (txs : List (Tx α κ)) (sp sp' : Bool) (i : Nat) (hi : i < txs.length) (t' : Tx α κ)
    (hL : ∀ t ∈ txs, L t.id) (hL' : L t'.id) (hid : t'.id ≠ (txs[i]).id)
    (h : blockSanityTx H root txs sp = none) :
    blockSanityTx H root (txs.set i t') sp' ≠ none := by
  refine C07_mutation_rejected hI root txs _ sp sp' hL ?_ h ?_
  · intro t ht
    rcases List.mem_or_eq_of_mem_set ht with h1 | h1
    · exact hL t h1
    · rw [h1]; exact hL'
  · intro e
    have h1 : ((txs.set i t').map (·.id))[i]? = (txs.map (·.id))[i]? := by rw [e]
    simp only [List.getElem?_map, List.getElem?_set, hi, if_true] at h1
    rw [List.getElem?_eq_getElem hi] at h1
    simp only [Option.map_some, Option.some.injEq] at h1
    exact hid h1

/-- Reordering: swapping the transactions at two different positions of an accepted block makes it
    rejected (their ids differ because an accepted block has no repeated id). -/
theorem C07_swap_rejected {H : α → α → α} {L : α → Prop} (hI : MerkleIdeal H L)
    (root : α) (txs : List (Tx α κ)) (sp sp' : Bool) (i j : Nat) (hi : i < txs.length) (hj : j < txs.length)
    (hij : i ≠ j) (hL : ∀ t ∈ txs, L t.id) (h : blockSanityTx H root txs sp = none) :
    blockSanityTx H root ((txs.set i txs[j]).set j txs[i]) sp' ≠ none := by
  obtain ⟨_, _, _, _, _, nd, _⟩ := C07_accept_only_if H root txs sp h
  refine C07_mutation_rejected hI root txs _ sp sp' hL ?_ h ?_
  · intro t ht
    rcases List.mem_or_eq_of_mem_set ht with h1 | h1
    · rcases List.mem_or_eq_of_mem_set h1 with h2 | h2
      · exact hL t h2
      · rw [h2]; exact hL _ (List.getElem_mem hj)
    · rw [h1]; exact hL _ (List.getElem_mem hi)
  · intro e
    have h1 : (((txs.set i txs[j]).set j txs[i]).map (·.id))[j]? = (txs.map (·.id))[j]? := by rw [e]
    have hj' : j < (txs.set i txs[j]).length := by simpa using hj
    simp only [List.getElem?_map, List.getElem?_set, hj', if_true] at h1
    rw [List.getElem?_eq_getElem hj] at h1
    simp only [Option.map_some, Option.some.injEq] at h1
    -- ids at positions i and j coincide: contradiction with Nodup
    have hi' : i < (txs.map (·.id)).length := by simpa using hi
    have e2 : (txs.map (·.id))[i]? = (txs.map (·.id))[j]? := by
      simp only [List.getElem?_map, List.getElem?_eq_getElem hi, List.getElem?_eq_getElem hj,
        Option.map_some, h1]
    exact hij ((List.getElem?_inj hi' nd).mp e2)

/-- A transaction list with a repeated id is rejected whatever the hash function is
    (so the duplicated-tail collision of `C07_dup_tail` cannot be used). -/
theorem C07_duplicate_rejected (H : α → α → α) (root : α) (txs : List (Tx α κ)) (sp : Bool)
    (hd : ¬ (txs.map (·.id)).Nodup) : blockSanityTx H root txs sp ≠ none := by
  intro h
  obtain ⟨_, _, _, _, _, nd, _⟩ := C07_accept_only_if H root txs sp h
  exact hd nd

/-- A list whose first transaction is not a coinbase, or with a later coinbase, is rejected. -/
theorem C07_coinbase_position (H : α → α → α) (root : α) (txs : List (Tx α κ)) (sp : Bool)
    (h : blockSanityTx H root txs sp = none) :
    (txs.head?.map (·.coinbase)) = some true ∧ ∀ t ∈ txs.tail, t.coinbase = false := by
  obtain ⟨cb, rest, e, hc, hr, _⟩ := C07_accept_only_if H root txs sp h
  subst e
  exact ⟨by simp [hc], hr⟩

end sanity

/-! ## the remaining header-bound clauses -/

/-- The size clauses accept exactly: at least one and at most `MaxTxPerBlock` transactions, a header of at most
    `MaxBlockHeaderSize` bytes and a block of at most `MaxBlockContextSize + MaxBlockHeaderSize` bytes. -/
theorem C07_size_limits (L : Limits) (numTx hdr blk : Nat) :
    sizeChecks L numTx hdr blk = none ↔
      0 < numTx ∧ numTx ≤ L.maxTx ∧ hdr ≤ L.maxHdr ∧ blk ≤ L.maxCtx + L.maxHdr := by
  unfold sizeChecks
  constructor
  · intro h
    split at h
    · cases h
    · split at h
      · cases h
      · split at h
        · cases h
        · split at h
          · cases h
          · omega
  · intro ⟨h1, h2, h3, h4⟩
    have a : ¬ numTx = 0 := by omega
    have b : ¬ numTx > L.maxTx := by omega
    have c : ¬ hdr > L.maxHdr := by omega
    have d : ¬ blk > L.maxCtx + L.maxHdr := by omega
    simp [a, b, c, d]

example : sizeChecks ⟨10000, 1000000, 8000000⟩ 10000 1000000 9000000 = none ∧
    sizeChecks ⟨10000, 1000000, 8000000⟩ 10001 10 10 = some .tooMany ∧
    sizeChecks ⟨10000, 1000000, 8000000⟩ 5 1000001 10 = some .hdrBig := by decide

/-- `CheckDuplicateTx`: an accepted block has at most one record-sponsor transaction, no side-chain
    transaction hash withdrawn twice, no producer owner key, producer node key or CR CID used by two
    register / update / cancel / unregister transactions, and every such payload is of the announced type. -/
theorem C07_special_unique (txs : List SpTx) (h : checkDuplicateTx txs {} = none) :
    (∀ t ∈ txs, t.wellTyped = true) ∧ sponsorCount txs ≤ 1 ∧ (sidesOf txs).Nodup ∧ (ownersOf txs).Nodup ∧
    (nodesOf txs).Nodup ∧ (cidsOf txs).Nodup := by
  obtain ⟨a, b, c, d, e, f⟩ := checkDuplicateTx_spec txs {} h
  have rv : ∀ l : List String, (l.reverse ++ []).Nodup → l.Nodup := by
    intro l hl
    rw [List.append_nil] at hl
    simpa using nodup_reverse' _ hl
  refine ⟨a, ?_, rv _ (c (by simp)), rv _ (d (by simp)), rv _ (e (by simp)), rv _ (f (by simp))⟩
  have := b (by simp)
  simpa using this

/-- non-vacuity: a block registering two producers and a CR passes; reusing the node key does not. -/
example : checkDuplicateTx [.regProducer true "a" "n1", .updProducer true "b" "n2", .regCR true "c", .sponsor,
    .withdraw true ["h1", "h2"]] {} = none := by decide
example : checkDuplicateTx [.regProducer true "a" "n1", .updProducer true "b" "n1"] {} = some .dupNode := by decide

/-- non-vacuity of the acceptance hypotheses: a three-transaction block over the free algebra
    is accepted, and the duplicated-tail variant under the same header is rejected. -/
example : blockSanityTx (κ := Nat) FreeTree.node
    (.node (.node (.leaf 1) (.leaf 2)) (.node (.leaf 3) (.leaf 3)))
    [⟨.leaf 1, true, true, []⟩, ⟨.leaf 2, false, true, [10]⟩, ⟨.leaf 3, false, true, [11, 12]⟩] true = none := by
  decide
example : blockSanityTx (κ := Nat) FreeTree.node
    (.node (.node (.leaf 1) (.leaf 2)) (.node (.leaf 3) (.leaf 3)))
    [⟨.leaf 1, true, true, []⟩, ⟨.leaf 2, false, true, [10]⟩, ⟨.leaf 3, false, true, [11, 12]⟩,
     ⟨.leaf 3, false, true, [13]⟩] true = some .dupTx := by
  decide

end ElaVerif.C07
