import ElaVerif.Model.RpcAccess
import ElaVerif.Gen.C36
/-!
# C36 — RPC access control and service levels

Theorems about the model of `clientAllowed`, `checkAuth`, the order of the checks in `Handle` /
`ServeHTTP`, and `checkRPCServiceLevel`, for all addresses, white lists, credentials and headers;
and, over the regenerated registration table (`Gen.C36.rpcTable`), that every privileged method is
gated at its required level as its very first statement.
-/
namespace ElaVerif.C36
open ElaVerif.RpcAccess

/-! ## IP filter -/

/-- A client passes the filter exactly if its address parses and is loopback, or the white list
    contains the wildcard `0.0.0.0` or the canonical text of the address. -/
theorem C36_ip (p : Option ParsedIP) (wl : List Bytes) :
    clientAllowed p wl = true ↔
      ∃ ip, p = some ip ∧ (ip.loopback = true ∨ wildcard ∈ wl ∨ ip.canon ∈ wl) := by
  cases p with
  | none => simp [clientAllowed]
  | some ip =>
    simp only [clientAllowed, Option.some.injEq, exists_eq_left']
    by_cases hl : ip.loopback = true
    · simp [hl]
    · simp only [hl, Bool.false_eq_true, ↓reduceIte, List.any_eq_true, Bool.or_eq_true, beq_iff_eq,
        false_or]
      constructor
      · rintro ⟨c, hc, h | h⟩
        · left; rw [← h]; exact hc
        · right; rw [← h]; exact hc
      · rintro (h | h)
        · exact ⟨_, h, Or.inl rfl⟩
        · exact ⟨_, h, Or.inr rfl⟩

example : clientAllowed (some ⟨false, ascii "10.0.0.7"⟩) [ascii "10.0.0.8"] = false := by decide
example : clientAllowed (some ⟨false, ascii "10.0.0.7"⟩) [ascii "10.0.0.8", ascii "10.0.0.7"] = true := by decide
example : clientAllowed none [wildcard] = false := by decide

/-! ## basic auth -/

/-- With an injective digest, authentication succeeds exactly if no credentials are configured
    (user and password both empty) or the first `Authorization` header is byte for byte
    `"Basic " ++ base64 (user ++ ":" ++ pass)`. -/
theorem C36_auth_exact {α : Type} [DecidableEq α] (H : Bytes → α) (hinj : ∀ a b, H a = H b → a = b)
    (user pass : Bytes) (hs : List Bytes) :
    checkAuth H user pass hs = true ↔
      (user = [] ∧ pass = []) ∨ ∃ h rest, hs = h :: rest ∧ h = expectedAuth user pass := by
  unfold checkAuth
  by_cases h0 : (user == pass && user.length == 0) = true
  · simp only [h0, ↓reduceIte, true_iff]
    left
    simp only [Bool.and_eq_true, beq_iff_eq, List.length_eq_zero_iff] at h0
    exact ⟨h0.2, by rw [← h0.1]; exact h0.2⟩
  · simp only [h0, Bool.false_eq_true, ↓reduceIte]
    have hne : ¬ (user = [] ∧ pass = []) := by
      rintro ⟨h1, h2⟩; apply h0; subst h1; subst h2; rfl
    cases hs with
    | nil => simp [hne]
    | cons h rest =>
      simp only [decide_eq_true_eq]
      constructor
      · intro hh; right; exact ⟨h, rest, rfl, hinj _ _ hh⟩
      · rintro (hh | ⟨h', rest', heq, hh⟩)
        · exact absurd hh hne
        · have : h = h' := (List.cons.inj heq).1
          rw [this, hh]

example : checkAuth id (ascii "u") (ascii "p") [ascii "Basic dTpw"] = true := by decide
example : checkAuth id (ascii "u") (ascii "p") [ascii "Basic dTpw "] = false := by decide
example : checkAuth id (ascii "u") (ascii "p") [] = false := by decide
example : checkAuth id [] [] [] = true := by decide

/-! ## order of the checks -/

/-- A request reaches the dispatcher only if the client passed the IP filter **and** the
    authentication (and is a POST with an accepted content type). -/
theorem C36_served_only_if {α : Type} [DecidableEq α] (H : Bytes → α) (wl : List Bytes) (user pass : Bytes)
    (r : Request) (h : handle H wl user pass r = .served) :
    clientAllowed r.ip wl = true ∧ checkAuth H user pass r.auth = true ∧ r.isPost = true := by
  unfold handle at h
  by_cases h1 : clientAllowed r.ip wl = true
  · by_cases h2 : r.isPost = true
    · by_cases h3 : mediaOk r.mediaType = true
      · by_cases h4 : checkAuth H user pass r.auth = true
        · exact ⟨h1, h4, h2⟩
        · simp [h1, h2, h3, h4] at h
      · simp [h1, h2, h3] at h
    · simp [h1, h2] at h
  · simp [h1] at h

/-- … spelled out with `C36_ip` and `C36_auth_exact`. -/
theorem C36_served_characterised {α : Type} [DecidableEq α] (H : Bytes → α) (hinj : ∀ a b, H a = H b → a = b)
    (wl : List Bytes) (user pass : Bytes) (r : Request) (h : handle H wl user pass r = .served) :
    (∃ ip, r.ip = some ip ∧ (ip.loopback = true ∨ wildcard ∈ wl ∨ ip.canon ∈ wl)) ∧
    ((user = [] ∧ pass = []) ∨ ∃ hd rest, r.auth = hd :: rest ∧ hd = expectedAuth user pass) := by
  have := C36_served_only_if H wl user pass r h
  exact ⟨(C36_ip _ _).1 this.1, (C36_auth_exact H hinj _ _ _).1 this.2.1⟩

example : handle id [ascii "1.2.3.4"] (ascii "u") (ascii "p")
    ⟨some ⟨false, ascii "1.2.3.4"⟩, true, ascii "application/json", [ascii "Basic dTpw"]⟩ = .served := by decide

/-! ## service level -/

/-- The gate lets a method of required level `l` run exactly if the configured level is at most `l`. -/
theorem C36_gate (required : Nat) (configured : String) :
    gatePasses required configured = true ↔ levelFromString configured ≤ required := by
  simp [gatePasses]

/-- A gated handler refuses exactly when the configured level is above its level. -/
theorem C36_gate_refuses (l : Nat) (configured : String) :
    handlerRuns (some l) configured = false ↔ l < levelFromString configured := by
  simp [handlerRuns, gatePasses]

example : handlerRuns (some 1) "QueryOnly" = false := by decide
example : handlerRuns (some 3) "TransactionPermitted" = true := by decide
example : handlerRuns (some 0) "MiningPermitted" = false := by decide

/-! ## the registration table -/

/-- **Reviewed classification** of effect sinks: functions whose call *is* the privileged effect,
    with the level a caller needs. -/
def sinkTable : List (String × Nat) :=
  [("common/log.SetPrintLevel", 0), ("(*pow.Service).Start", 0), ("(*pow.Service).Halt", 0),
   ("(*pow.Service).CreateAuxBlock", 1), ("(*pow.Service).SubmitAuxBlock", 1), ("(*pow.Service).DiscreteMining", 1),
   ("(*mempool.TxPool).AppendToTxPool", 2), ("servers.VerifyAndSendTx", 2), ("(elanet.Server).RelayInventory", 2),
   ("(*dpos.Arbitrator).OnSidechainIllegalEvidenceReceived", 2),
   ("(*blockchain.UTXOCache).GetTxReference", 3), ("(*mempool.TxPool).GetUsedUTXOs", 3),
   ("(core/types/interfaces.Transaction).SetPrograms", 3)]

/-- tables keyed by encoded name (`RpcAccess.enc`), as the generated table has them -/
def encTable (t : List (String × Nat)) : List (Nat × Nat) := t.map (fun p => (enc p.1, p.2))

def lookup (t : List (Nat × Nat)) (k : Nat) : Option Nat :=
  match t with
  | [] => none
  | (k', v) :: rest => if Nat.beq k' k then some v else lookup rest k

/-- required level of a method (by encoded name) -/
def requiredLevel (m : Nat) : Option Nat := lookup (encTable requiredTable) m
/-- level of an effect sink (by encoded name) -/
def sinkLevel (c : Nat) : Option Nat := lookup (encTable sinkTable) c

def gatedAtFirst (r : Gen.C36.Row) (p : Nat → Bool) : Bool :=
  match r.gate with
  | some l => p l && Nat.beq r.gateAt 0
  | none => false

/-- row check for "every privileged method is gated at exactly its level, first thing" -/
def rowPrivilegedOk (req : List (Nat × Nat)) (r : Gen.C36.Row) : Bool :=
  match lookup req r.method with
  | none => true
  | some L => gatedAtFirst r (fun l => Nat.beq l L)

/-- row check for "a handler that calls a sink is gated at least as strictly, first thing" -/
def rowSinksOk (sinks : List (Nat × Nat)) (r : Gen.C36.Row) : Bool :=
  r.calls.all (fun c => match lookup sinks c with
    | none => true
    | some Ls => gatedAtFirst r (fun l => Nat.ble l Ls))

/-- every privileged method is registered (so the next lemma is not vacuous), every handler is a
    function of package `servers` (name starts with "servers.") -/
theorem C36_privileged_registered :
    (encTable requiredTable).all (fun p => Gen.C36.rpcTable.any (fun r => Nat.beq r.method p.1)) = true ∧
    Gen.C36.rpcTable.all (fun r => Nat.beq (r.handler / 256 ^ (Nat.log2 r.handler / 8 + 1 - 8)) (enc "servers.")) = true ∧
    Gen.C36.rpcTable.length ≥ 50 := by decide +kernel

/-- certificate for the next theorem -/
theorem C36_cert_privileged : Gen.C36.rpcTable.all (rowPrivilegedOk (encTable requiredTable)) = true := by
  decide +kernel

/-- certificate for `C36_sinks_gated` -/
theorem C36_cert_sinks : Gen.C36.rpcTable.all (rowSinksOk (encTable sinkTable)) = true := by
  decide +kernel

/-- **every privileged method is gated**: its handler's first statement is the refusal
    `if rtn := checkRPCServiceLevel(L); rtn != nil { return rtn }` with `L` the required level. -/
theorem C36_all_privileged_gated :
    ∀ r ∈ Gen.C36.rpcTable, ∀ L, requiredLevel r.method = some L → r.gate = some L ∧ r.gateAt = 0 := by
  intro r hr L hL
  have h := List.all_eq_true.1 C36_cert_privileged r hr
  unfold rowPrivilegedOk at h
  unfold requiredLevel at hL
  rw [hL] at h
  unfold gatedAtFirst at h
  cases hg : r.gate with
  | none => simp [hg] at h
  | some l =>
    simp only [hg, Bool.and_eq_true] at h
    exact ⟨by rw [Nat.eq_of_beq_eq_true h.1], Nat.eq_of_beq_eq_true h.2⟩

/-- **privilege by effect**: every registered handler that (through helpers of package `servers`)
    calls an effect sink is gated, as its first statement, at a level at least as strict as the
    sink's — whatever the method is called. -/
theorem C36_sinks_gated :
    ∀ r ∈ Gen.C36.rpcTable, ∀ c ∈ r.calls, ∀ Ls, sinkLevel c = some Ls →
      ∃ Lg, r.gate = some Lg ∧ Lg ≤ Ls ∧ r.gateAt = 0 := by
  intro r hr c hc Ls hLs
  have h := List.all_eq_true.1 (List.all_eq_true.1 C36_cert_sinks r hr) c hc
  unfold sinkLevel at hLs
  simp only [hLs] at h
  unfold gatedAtFirst at h
  cases hg : r.gate with
  | none => simp [hg] at h
  | some l =>
    simp only [hg, Bool.and_eq_true, Nat.ble_eq] at h
    exact ⟨l, rfl, h.1, Nat.eq_of_beq_eq_true h.2⟩

/-- every sink (except the relay/used-utxo/set-programs helpers, reached together with others) is
    actually called by some registered handler: the sink names are current -/
theorem C36_sinks_present :
    (encTable sinkTable).all (fun s => Gen.C36.rpcTable.any (fun r => r.calls.any (fun c => Nat.beq c s.1))) = true := by
  decide +kernel

/-! ### the other front ends (REST routes, websocket actions) and peer management -/

/-- the privileged handlers by function name (the same classification as `requiredTable`, keyed by
    the handler the JSON-RPC table registers for the method) -/
def handlerTable : List (String × Nat) :=
  [("servers.SetLogLevel", 0), ("servers.ToggleMining", 0),
   ("servers.CreateAuxBlock", 1), ("servers.SubmitAuxBlock", 1), ("servers.DiscreteMining", 1),
   ("servers.SendRawTransaction", 2), ("servers.SubmitSidechainIllegalData", 2), ("servers.EstimateSmartFee", 2),
   ("servers.GetAmountByInputs", 3), ("servers.GetUTXOsByAmount", 3), ("servers.ListUnspent", 3),
   ("servers.CreateRawTransaction", 3), ("servers.DecodeRawTransaction", 3), ("servers.SignRawTransactionWithKey", 3)]

/-- row check keyed by handler -/
def rowHandlerOk (req : List (Nat × Nat)) (r : Gen.C36.Row) : Bool :=
  match lookup req r.handler with
  | none => true
  | some L => gatedAtFirst r (fun l => Nat.beq l L)

/-- the handler classification agrees with the method classification on the JSON-RPC table -/
theorem C36_handler_table_consistent :
    Gen.C36.rpcTable.all (fun r => lookup (encTable requiredTable) r.method == lookup (encTable handlerTable) r.handler) = true := by
  decide +kernel

/-- **REST and websocket front ends**: every route / action whose handler is a privileged one is
    gated at its level as its first statement (the gate lives inside the handler, so it does not
    matter through which front end the handler is reached), and every route / action that reaches
    an effect sink is gated at least as strictly. -/
theorem C36_front_ends_gated :
    (Gen.C36.restTable ++ Gen.C36.wsTable).all (rowHandlerOk (encTable handlerTable)) = true ∧
    (Gen.C36.restTable ++ Gen.C36.wsTable).all (rowSinksOk (encTable sinkTable)) = true := by
  decide +kernel

/-- not vacuous: both front ends do expose a privileged action (`sendrawtransaction`) -/
theorem C36_front_ends_expose_privileged :
    Gen.C36.restTable.any (fun r => Nat.beq r.handler (enc "servers.SendRawTransaction")) = true ∧
    Gen.C36.wsTable.any (fun r => Nat.beq r.handler (enc "servers.SendRawTransaction")) = true ∧
    Gen.C36.restTable.length ≥ 10 ∧ Gen.C36.wsTable.length ≥ 5 := by
  decide +kernel

/-- **Reviewed list**: the methods of the p2p server interfaces (`p2p/server.IServer`,
    `elanet.Server`) that only read.  Every other method of the two interfaces (Connect,
    DisconnectBy…, RemoveBy…, Stop, Start, ScheduleShutdown, BroadcastMessage, NewPeer, DonePeer)
    manages peers or the server's life cycle; `RelayInventory` is a transaction sink (level 2). -/
def p2pReadOnly : List String :=
  ["(p2p/server.IServer).ConnectedCount", "(p2p/server.IServer).ConnectedPeers",
   "(p2p/server.IServer).PersistentPeers", "(elanet.Server).Services", "(elanet.Server).IsCurrent"]

/-- **No peer management over RPC**: whatever method of the p2p server interfaces a registered
    JSON-RPC method, REST route or websocket action reaches (through helpers of package
    `servers`) is a read-only one or the gated `RelayInventory` — no front end can connect,
    disconnect or remove peers or stop the p2p server.  (The interface method sets are regenerated,
    so a new peer-management method is covered without naming it.) -/
theorem C36_no_peer_management :
    (Gen.C36.rpcTable ++ Gen.C36.restTable ++ Gen.C36.wsTable).all
      (fun r => r.calls.all (fun c => !Gen.C36.p2pServerMethods.any (Nat.beq c) ||
        ((p2pReadOnly ++ ["(elanet.Server).RelayInventory"]).map enc).any (Nat.beq c))) = true ∧
    (p2pReadOnly.map enc).all (fun n => Gen.C36.p2pServerMethods.any (Nat.beq n)) = true ∧
    Gen.C36.p2pServerMethods.length ≥ 15 := by
  decide +kernel

/-- Consequence: when the configured service level forbids it, a privileged method does not run —
    for every registered privileged method and every configuration string. -/
theorem C36_privileged_refused (r : Gen.C36.Row) (hr : r ∈ Gen.C36.rpcTable) (L : Nat)
    (hL : requiredLevel r.method = some L) (configured : String) (hc : L < levelFromString configured) :
    handlerRuns r.gate configured = false := by
  have := (C36_all_privileged_gated r hr L hL).1
  rw [this]
  exact (C36_gate_refuses L configured).2 hc

/-! ## ties to the regenerated facts -/

/-- the level names and values of the model are those of `common/config` -/
theorem C36_gen_levels :
    Gen.C36.levelValues = [0, 1, 2, 3, 4] ∧
    Gen.C36.levelFromString.all (fun p => levelFromString p.1 == p.2) = true := by decide +kernel

/-- the first `a` comes before the first `b` (on encoded names) -/
def firstBeforeN (a b : String) (l : List Nat) : Bool :=
  ((l.takeWhile (fun x => !Nat.beq x (enc b))).any (fun x => Nat.beq x (enc a))) && l.any (fun x => Nat.beq x (enc b))

/-- both request handlers check the client address first, then the credentials, and only then read
    the body and dispatch -/
theorem C36_gen_check_order :
    firstBeforeN "servers/httpjsonrpc.clientAllowed" "servers/httpjsonrpc.checkAuth" Gen.C36.handleCalls = true ∧
    firstBeforeN "servers/httpjsonrpc.checkAuth" "io/ioutil.ReadAll" Gen.C36.handleCalls = true ∧
    firstBeforeN "io/ioutil.ReadAll" "servers/httpjsonrpc.getResponse" Gen.C36.handleCalls = true ∧
    firstBeforeN "(*utils/http/jsonrpc.Server).clientAllowed" "(*utils/http/jsonrpc.Server).checkAuth" Gen.C36.serveHTTPCalls = true ∧
    firstBeforeN "(*utils/http/jsonrpc.Server).checkAuth" "io/ioutil.ReadAll" Gen.C36.serveHTTPCalls = true ∧
    firstBeforeN "io/ioutil.ReadAll" "(*utils/http/jsonrpc.Server).getResponse" Gen.C36.serveHTTPCalls = true := by
  decide +kernel

end ElaVerif.C36
