import ElaVerif.Model.SharedRng
import ElaVerif.Lemmas.SharedRng
import ElaVerif.Model.Reach
import ElaVerif.Gen.C24
/-!
# C24 — consensus decisions do not depend on scheduling or process-local randomness

1. Interleaving model (`SharedRng`): the selection thread `[seed; draw]` next to an arbitrary
   schedule of other users of the process-global generator.  With a generator private to the call
   (the current code) the result does not depend on the schedule; with the process-global one (the
   code before the `fix:` commit) it does — witness.
2. The order of the voted producers is a function of the *set* of producers (total tie-break).
3. Reach certificate over the regenerated reference graph: from the consensus packages no
   function that works on the process-global generator is reachable (storage, network and mining
   packages are the environment: leaves of the graph).
-/
namespace ElaVerif.C24
open ElaVerif.SharedRng ElaVerif.Reach

/-! ## 1. interleavings -/

/-- **Determinism of the current code**: with a private generator the chosen index is the same for
    every schedule of the environment and every state of the shared generator. -/
theorem C24_local_det {σ : Type} (G : Gen σ) (s : Int) (n : Nat) (sched sched' : List EnvOp) (g0 g0' : σ) :
    (select G .local s n sched g0).1 = (select G .local s n sched' g0').1 := rfl

/-- … it is the value a fresh generator seeded with the chain-derived seed draws first. -/
theorem C24_local_value {σ : Type} (G : Gen σ) (s : Int) (n : Nat) (sched : List EnvOp) (g0 : σ) :
    (select G .local s n sched g0).1 = (G.intn (G.seed s) n).1 := rfl

/-- … and the selection leaves the shared generator exactly as the environment left it. -/
theorem C24_local_no_side_effect {σ : Type} (G : Gen σ) (s : Int) (n : Nat) (sched : List EnvOp) (g0 : σ) :
    (select G .local s n sched g0).2 = runEnv G sched g0 := rfl

/-- Without interleaving the two variants agree (the `fix:` is value preserving). -/
theorem C24_fix_value_preserving {σ : Type} (G : Gen σ) (s : Int) (n : Nat) (g0 : σ) :
    (select G .global s n [] g0).1 = (select G .local s n [] g0).1 := rfl

/-- the whole function: same answer (index or error) for every schedule -/
theorem C24_candidate_index_det {σ : Type} (G : Gen σ) (seed? : Option Int) (voted unclaimed normal candidates : Int)
    (sched sched' : List EnvOp) (g0 g0' : σ) :
    candidateIndex G .local seed? voted unclaimed normal candidates sched g0 =
    candidateIndex G .local seed? voted unclaimed normal candidates sched' g0' := by
  unfold candidateIndex
  cases seed? with
  | none => rfl
  | some s => cases candidatesCount voted unclaimed normal candidates <;> rfl

/-- **Witness for the old code**: with the process-global generator, whenever one draw of the
    environment changes what the next draw returns (true of any generator worth the name), there is
    a schedule under which the selection differs from the uninterrupted one. -/
theorem C24_global_witness {σ : Type} (G : Gen σ) (s : Int) (n k : Nat) (g0 : σ)
    (hdiff : (G.intn (G.intn (G.seed s) k).2 n).1 ≠ (G.intn (G.seed s) n).1) :
    ∃ sched, (select G .global s n sched g0).1 ≠ (select G .global s n [] g0).1 :=
  ⟨[.draw k], hdiff⟩

/-- a concrete generator (a 16-bit LCG) satisfying the hypothesis -/
def lcg : Gen Nat :=
  { seed := fun s => s.toNat % 65536,
    intn := fun g n => let g' := (g * 25173 + 13849) % 65536; (g' % (n + 1), g') }

example : (lcg.intn (lcg.intn (lcg.seed 42) 7).2 5).1 ≠ (lcg.intn (lcg.seed 42) 5).1 := by decide
example : (select lcg .global 42 5 [.draw 7] 0).1 ≠ (select lcg .global 42 5 [] 0).1 := by decide
example : (select lcg .local 42 5 [.draw 7, .reseed 3] 0).1 = (select lcg .local 42 5 [] 99).1 := by decide

/-- the old code also overwrote the shared generator: after the selection its state is a function
    of the seed and the schedule only, whatever it was before (every other user is re-seeded) -/
theorem C24_global_clobbers {σ : Type} (G : Gen σ) (s : Int) (n : Nat) (sched : List EnvOp) (g0 g0' : σ) :
    (select G .global s n sched g0).2 = (select G .global s n sched g0').2 := rfl

/-- the index is within the candidate window -/
theorem C24_index_in_range {σ : Type} (G : Gen σ) (hG : ∀ g n, 0 < n → (G.intn g n).1 < n)
    (kind : Kind) (seed? : Option Int) (voted unclaimed normal candidates : Int) (sched : List EnvOp) (g0 : σ) (i : Nat)
    (hc : 0 ≤ candidates)
    (h : candidateIndex G kind seed? voted unclaimed normal candidates sched g0 = .ok i) :
    (i : Int) < voted - unclaimed - (normal - 1) ∧ (i : Int) ≤ candidates := by
  unfold candidateIndex at h
  cases seed? with
  | none => simp at h
  | some s =>
    simp only at h
    unfold candidatesCount at h
    by_cases hcnt : voted - unclaimed - (normal - 1) < 1
    · simp [hcnt] at h
    · simp only [hcnt, ↓reduceIte] at h
      have hpos : 0 < (min (voted - unclaimed - (normal - 1)) (candidates + 1)).toNat := by omega
      have hi : i < (min (voted - unclaimed - (normal - 1)) (candidates + 1)).toNat := by
        cases kind with
        | global =>
          have := hG (runEnv G sched (G.seed s)) _ hpos
          simp only [select] at h
          injection h with h; omega
        | «local» =>
          have := hG (G.seed s) _ hpos
          simp only [select] at h
          injection h with h; omega
      omega

/-- **`getSortedProducersWithRandom`** (private generator): the producer order with the random
    candidate on the last normal seat, and the bookkeeping of the last draw, are the same for every
    schedule of the environment and every state of the shared generator — a function of the sorted
    producers, the previous bookkeeping and the chain-derived seed only. -/
theorem C24_with_random_det {σ : Type} (G : Gen σ) (seed? : Option Int) (owners : List (List Nat))
    (unclaimed normal cands : Int) (period height : Nat) (last : LastRandom)
    (sched sched' : List EnvOp) (g0 g0' : σ) :
    withRandom G .local seed? owners unclaimed normal cands period height last sched g0 =
    withRandom G .local seed? owners unclaimed normal cands period height last sched' g0' := by
  unfold withRandom
  rw [C24_candidate_index_det G seed? owners.length unclaimed normal cands sched sched' g0 g0']

/-- moving a producer to the seat neither loses nor duplicates anybody -/
theorem C24_moveTo_length {α : Type} (l : List α) (pos i : Nat) (h : pos ≤ i) :
    (moveTo l pos i).length = l.length := by
  unfold moveTo
  cases hi : l[i]? with
  | none => rfl
  | some x =>
    have hlt : i < l.length := by
      rcases Nat.lt_or_ge i l.length with h1 | h1
      · exact h1
      · rw [List.getElem?_eq_none h1] at hi; cases hi
    simp only [List.length_append, List.length_take, List.length_drop, List.length_cons, List.length_nil]
    omega

example : moveTo [10, 11, 12, 13, 14] 1 3 = [10, 13, 11, 12, 14] := by decide

/-- **The DPoS v2 selection** (`getRandomDposV2Producers`, private generator): the selected order
    is the same for every schedule of the environment and every state of the shared generator. -/
theorem C24_v2_local_det {σ α : Type} (G : Gen σ) (s : Int) (keys : List α) (count : Nat)
    (sched sched' : List EnvOp) (g0 g0' : σ) :
    randomV2 G .local s keys count sched g0 = randomV2 G .local s keys count sched' g0' := rfl

/-- with the process-global generator the same selection depends on the schedule (witness: the LCG,
    five keys, two seats, one environment draw) -/
theorem C24_v2_global_witness :
    ∃ sched, randomV2 lcg .global 42 [1, 2, 3, 4, 5] 2 sched 0 ≠ randomV2 lcg .global 42 [1, 2, 3, 4, 5] 2 [] 0 :=
  ⟨[.draw 7], by decide⟩

/-- when there are no more candidates than seats nothing is drawn and the order is the sorted one -/
theorem C24_v2_no_draw {σ α : Type} (G : Gen σ) (kind : Kind) (s : Int) (keys : List α) (count : Nat)
    (sched : List EnvOp) (g0 : σ) (h : keys.length ≤ count) :
    randomV2 G kind s keys count sched g0 = keys := by
  unfold randomV2
  have : ¬ keys.length > count := by omega
  simp [this]

/-! ## 2. producer order -/

/-- The sorted order is unique: two lists with the same producers (any input order — the producers
    come out of a Go map — and any sorting algorithm), both sorted by `before`, are equal, provided
    `before` can only tie on equal producers (node public keys are unique). -/
theorem C24_sorted_order_det (l₁ l₂ : List Producer)
    (hanti : ∀ a b, a ∈ l₁ → b ∈ l₂ → ¬ before b a = true → ¬ before a b = true → a = b)
    (h₁ : l₁.Pairwise (fun a b => ¬ before b a = true)) (h₂ : l₂.Pairwise (fun a b => ¬ before b a = true))
    (hp : l₁.Perm l₂) : l₁ = l₂ :=
  List.Perm.eq_of_pairwise (le := fun a b => ¬ before b a = true)
    (fun a b ha hb hab hba => hanti a b ha hb hab hba) h₁ h₂ hp

/-- `before` ties only on producers with equal votes and equal keys -/
theorem keyLt_total : ∀ (a b : List Nat), keyLt a b = false → keyLt b a = false → a = b
  | [], [], _, _ => rfl
  | [], _ :: _, h, _ => by simp [keyLt] at h
  | _ :: _, [], _, h => by simp [keyLt] at h
  | x :: xs, y :: ys, h1, h2 => by
    unfold keyLt at h1 h2
    by_cases hxy : x < y
    · simp [hxy] at h1
    · by_cases hyx : y < x
      · simp [hyx] at h2
      · have : x = y := by omega
        subst this
        simp only [Nat.lt_irrefl, ↓reduceIte] at h1 h2
        rw [keyLt_total xs ys h1 h2]

theorem C24_before_total (p q : Producer) (h1 : ¬ before q p = true) (h2 : ¬ before p q = true) : p = q := by
  unfold before at h1 h2
  by_cases hv : p.votes = q.votes
  · have hv' : (q.votes == p.votes) = true := by simp [hv]
    have hv'' : (p.votes == q.votes) = true := by simp [hv]
    simp only [hv', ↓reduceIte, Bool.not_eq_true] at h1
    simp only [hv'', ↓reduceIte, Bool.not_eq_true] at h2
    have := keyLt_total _ _ h2 h1
    cases p; cases q; simp_all
  · have hv' : (q.votes == p.votes) = false := by simp; omega
    have hv'' : (p.votes == q.votes) = false := by simp [hv]
    simp only [hv', Bool.false_eq_true, ↓reduceIte, decide_eq_true_eq] at h1
    simp only [hv'', Bool.false_eq_true, ↓reduceIte, decide_eq_true_eq] at h2
    omega

/-- hence: the sorted producer list is a function of the set of producers -/
theorem C24_sorted_unique (l₁ l₂ : List Producer)
    (h₁ : l₁.Pairwise (fun a b => ¬ before b a = true)) (h₂ : l₂.Pairwise (fun a b => ¬ before b a = true))
    (hp : l₁.Perm l₂) : l₁ = l₂ :=
  C24_sorted_order_det l₁ l₂ (fun a b _ _ hab hba => C24_before_total a b hab hba) h₁ h₂ hp

example : [Producer.mk 9 [1], ⟨5, [2]⟩, ⟨5, [3]⟩].Pairwise (fun a b => ¬ before b a = true) := by decide

/-- **Checkpoint notification order**: the order in which the manager lets the CR state, the DPoS
    state, the tx pool … process a block is the same for every order in which the registered set
    comes out of the Go map — provided the priorities are pairwise distinct; when two tie the model
    answers `none` (the real order then follows map iteration). -/
theorem C24_checkpoint_order_det (l₁ l₂ : List (String × Nat)) (hp : l₁.Perm l₂) :
    checkpointOrder l₁ = checkpointOrder l₂ := by
  unfold checkpointOrder
  have hn : (l₁.map (·.2)).Nodup ↔ (l₂.map (·.2)).Nodup := (hp.map _).nodup_iff
  by_cases h1 : (l₁.map (·.2)).Nodup
  · have h2 := hn.1 h1
    simp only [h1, h2, ↓reduceIte]
    congr 2
    apply List.Perm.eq_of_pairwise (le := fun a b => a.2 < b.2)
    · intro a b _ _ hab hba; omega
    · exact sort_sorted l₁ h1
    · exact sort_sorted l₂ h2
    · exact (sort_perm l₁).trans (hp.trans (sort_perm l₂).symm)
  · have h2 : ¬ (l₂.map (·.2)).Nodup := fun h => h1 (hn.2 h)
    simp [h1, h2]

/-- the priorities of all checkpoint implementations of the module are pairwise distinct
    (regenerated from the `Priority()` methods) -/
theorem C24_gen_checkpoint_priorities :
    (Gen.C24.checkpointPriorities.map (·.2)).Nodup ∧ Gen.C24.checkpointPriorities.length ≥ 5 ∧
    (checkpointOrder Gen.C24.checkpointPriorities).isSome = true := by decide

/-- **Committee change, then claim** (chain order, which synchronous delivery of the committee-change
    event guarantees): the node key a council member claims in the block after the change resolves
    to that member — for every state of the two key maps. -/
theorem C24_claim_survives_sync (s : NodeKeys) (node owner : Nat) :
    ownerOf (syncRun s node owner) node = some owner := by
  simp [ownerOf, syncRun, onClaim]

/-- **Witness for asynchronous delivery**: if the handler of the committee change runs after the
    claim of the next block, the claim is overwritten (the node key resolves to nobody unless the
    next-term map happened to contain it) — the inactivity accounting of that member, hence the
    `isNormal` flag of its CRC arbiter in the next arbiter set, then depends on goroutine timing. -/
theorem C24_claim_lost_when_late (s : NodeKeys) (node owner : Nat) (h : ∀ p ∈ s.next, p.1 ≠ node) :
    ownerOf (lateRun s node owner) node = none := by
  simp only [ownerOf, lateRun, onCommitteeChange, onClaim, Option.map_eq_none_iff, List.find?_eq_none,
    beq_iff_eq]
  intro p hp; exact h p hp

example : ownerOf (syncRun ⟨[], [(0xa1, 0x11)]⟩ 0xb2 0x11) 0xb2 = some 0x11 := by decide
example : ownerOf (lateRun ⟨[], [(0xa1, 0x11)]⟩ 0xb2 0x11) 0xb2 = none := by decide

/-! ## 3. reach certificate -/

def randPkg (p : String) : Bool :=
  p == "math/rand" || p == "math/rand/v2" || p == "golang.org/x/exp/rand"

def consensusPkg (p : String) : Bool :=
  p == "dpos/state" || p == "dpos/manager" || p == "cr/state"

def randPkgMask : Nat := maskOf randPkg Gen.C24.pkgs 0
def consensusPkgMask : Nat := maskOf consensusPkg Gen.C24.pkgs 0
def pkgOf (i : Nat) : Nat := tblGet Gen.C24.nodePkgTbl i
def isRandNode (i : Nat) : Bool := mem randPkgMask (pkgOf i)
def isConsensusNode (i : Nat) : Bool := mem consensusPkgMask (pkgOf i)

def enc (s : String) : Nat := s.toList.foldl (fun a c => a * 256 + c.toNat) 0

/-- number of bytes of an encoded name -/
def encLen (x : Nat) : Nat := if x = 0 then 0 else Nat.log2 x / 8 + 1

/-- the encoded name starts with the given prefix -/
def hasPrefix (x : Nat) (pre : String) : Bool :=
  let k := pre.length
  Nat.ble k (encLen x) && Nat.beq (x / 256 ^ (encLen x - k)) (enc pre)

/-- **Reviewed classification**: objects of math/rand that work on a generator *private to the
    caller*: the constructors, the types, and every method of `*rand.Rand`.  Everything else in
    the package (`rand.Seed`, `rand.Intn`, `rand.Int`, `rand.Read`, …) works on the process-global
    generator. -/
def isLocalOnly (name : Nat) : Bool :=
  hasPrefix name "(*math/rand.Rand)." ||
  [enc "math/rand.New", enc "math/rand.NewSource", enc "math/rand.Rand", enc "math/rand.Source",
   enc "math/rand.Source64"].any (Nat.beq name)

/-- the listed rand nodes with a local-only name -/
def localIds : List Nat := (Gen.C24.randNodes.filter (fun p => isLocalOnly p.2)).map (·.1)

def edges : List Edge := edgesOf Gen.C24.fuel Gen.C24.adjChunks

/-- one pass over all nodes: consensus nodes are inside the candidate set; a rand node inside the
    candidate set is one of the local-only ones -/
def nodeCheck (i : Nat) : Bool :=
  (!isConsensusNode i || mem Gen.C24.reach i) &&
  (!(isRandNode i && mem Gen.C24.reach i) || localIds.any (Nat.beq i))

theorem C24_cert_closed : closedChunks Gen.C24.reach Gen.C24.fuel Gen.C24.adjChunks = true := by
  decide +kernel

theorem C24_cert_nodes : allBelow nodeCheck Gen.C24.nodeCount = true := by
  decide +kernel

/-- tables complete and not vacuous: edge count as counted by the extractor, the three consensus
    packages present with many nodes, process-global rand functions do occur in the graph (they are
    used by the environment), the classification splits the listed rand nodes both ways -/
theorem C24_gen_nonvacuous :
    countChunks Gen.C24.fuel Gen.C24.adjChunks = Gen.C24.edgeCount ∧
    countBelow (mem consensusPkgMask) Gen.C24.pkgs.length = 3 ∧
    countBelow isConsensusNode Gen.C24.nodeCount ≥ 500 ∧
    countBelow isRandNode Gen.C24.nodeCount = Gen.C24.randNodes.length ∧
    Gen.C24.randNodes.all (fun p => isRandNode p.1) = true ∧
    localIds.length ≥ 3 ∧ localIds.length + 5 ≤ Gen.C24.randNodes.length ∧
    isLocalOnly (enc "math/rand.Intn") = false ∧ isLocalOnly (enc "math/rand.Seed") = false ∧
    isLocalOnly (enc "(*math/rand.Rand).Intn") = true := by
  decide +kernel

/-- **No global randomness in consensus code**: whatever object of a seedable-generator package is
    reachable from a node of the consensus packages is one of the local-only objects — never a
    function working on the process-global generator. -/
theorem C24_no_global_rand (s b : Nat) (hs : s < Gen.C24.nodeCount) (hb : b < Gen.C24.nodeCount)
    (hsc : isConsensusNode s = true) (hbr : isRandNode b = true) (hr : Reachable edges s b) :
    b ∈ localIds := by
  have h1 := allBelow_spec C24_cert_nodes s hs
  have h2 := allBelow_spec C24_cert_nodes b hb
  simp only [nodeCheck, hsc, Bool.not_true, Bool.false_or, Bool.and_eq_true] at h1
  have hbR : mem Gen.C24.reach b = true :=
    closed_sound (closedChunks_sound _ C24_cert_closed) h1.1 hr
  simp only [nodeCheck, hbr, hbR, Bool.and_self, Bool.not_true, Bool.false_or, Bool.and_eq_true,
    List.any_eq_true] at h2
  obtain ⟨x, hx, hxb⟩ := h2.2
  rw [Nat.eq_of_beq_eq_true hxb]
  exact hx

/-- how the two selection sites obtain their generator: only `rand.New(rand.NewSource(seed))` and a
    method of the resulting private generator; neither mentions package `time` (no clock seed) -/
theorem C24_gen_sites :
    Gen.C24.randSites =
      [("dpos/state.Arbiters.getCandidateIndexAtRandom",
          ["math/rand.New", "math/rand.NewSource", "(*math/rand.Rand).Intn"], false),
       ("dpos/state.Arbiters.getRandomDposV2Producers",
          ["math/rand.New", "math/rand.NewSource", "(*math/rand.Rand).Intn"], false)] := by
  decide

/-- the comparators of the two producer sorts are the ones `SharedRng.before` models: equal
    votes (vote rights) ⇒ byte order of the node public key, else more votes first -/
theorem C24_gen_less :
    Gen.C24.getSortedProducersLess =
      ["func(i, j int) bool { if votedProducers[i].votes == votedProducers[j].votes { return bytes.Compare(votedProducers[i].info.NodePublicKey, votedProducers[j].NodePublicKey()) < 0 } return votedProducers[i].Votes() > votedProducers[j].Votes() }"] ∧
    Gen.C24.getSortedProducersDposV2Less =
      ["func(i, j int) bool { if votedProducers[i].GetTotalDPoSV2VoteRights() == votedProducers[j].GetTotalDPoSV2VoteRights() { return bytes.Compare(votedProducers[i].info.NodePublicKey, votedProducers[j].NodePublicKey()) < 0 } return votedProducers[i].GetTotalDPoSV2VoteRights() > votedProducers[j].GetTotalDPoSV2VoteRights() }"] := by
  decide +kernel

/-- **Explicit boundary facts** (regenerated): *every* function of the module that mentions a
    seedable-generator package is either in an environment package (storage — the treap draws its
    node priorities, `database/internal/treap`; network — `p2p/server`, `p2p/addrmgr`, `p2p/peer`,
    `dpos/p2p`; mining — `pow`; command line tools, benchmarks) or is one of the two selection
    sites of `dpos/state`, which use a private generator seeded from chain data
    (`C24_gen_sites`).  Together with `C24_no_global_rand` (nothing of the environment's generator
    use is reachable from the consensus packages) this is the sense in which none of the anchored
    `math/rand` users feeds consensus state: the consensus packages never read the generator those
    functions draw from, and never call them. -/
theorem C24_gen_all_rand_sites :
    Gen.C24.allRandSites.all (fun s => s.2.2.1 ||
      (s.1 == "dpos/state" && (s.2.1 == "Arbiters.getCandidateIndexAtRandom" || s.2.1 == "Arbiters.getRandomDposV2Producers"))) = true ∧
    (Gen.C24.allRandSites.map (·.1)).contains "database/internal/treap" = true ∧
    (Gen.C24.allRandSites.map (·.1)).contains "p2p/server" = true ∧
    (Gen.C24.allRandSites.map (·.1)).contains "p2p/addrmgr" = true := by
  decide +kernel

/-- **Events that change consensus state are delivered synchronously** (regenerated): the only
    `events.Notify` calls of the consensus-relevant packages that are started with `go` concern
    the network and the transaction pool (peers changed, transactions to append / relay); block
    connected / disconnected / accepted / processed and the **CR committee change** — whose DPoS
    handler switches the CR node-key maps used for arbiter accounting — are plain calls, so their
    handlers have run when the emitting function returns. -/
theorem C24_gen_sync_events :
    Gen.C24.notifySites.all (fun s => !s.2.2 ||
      ["events.ETDirectPeersChanged", "events.ETAppendTxToTxPool", "events.ETAppendTxToTxPoolWithoutRelay",
       "events.ETTransactionAccepted", "events.ETSmallCrossChainNeedRelay", "events.ETOutdatedTxRelay"].contains s.2.1) = true ∧
    Gen.C24.notifySites.contains ("cr/state.Committee.ProcessBlock", "events.ETCRCChangeCommittee", false) = true ∧
    Gen.C24.notifySites.contains ("blockchain.BlockChain.connectBlock", "events.ETBlockConnected", false) = true := by
  decide +kernel

/-- the council member order is the `Uint168.Compare` order of the DIDs: a strict total order, so
    the sorted member list is a function of the member set (same argument as for producers) -/
theorem C24_did_order_total : ∀ (a b : List Nat), a.length = b.length → didLt a b = false → didLt b a = false → a = b := by
  intro a b hl h1 h2
  have := keyLt_total a.reverse b.reverse h1 h2
  have h3 := congrArg List.reverse this
  simpa using h3

/-- the environment boundary is the reviewed one -/
theorem C24_gen_boundary :
    Gen.C24.boundaryPackages =
      ["database", "p2p", "dpos/p2p", "elanet", "pow", "servers", "cmd", "utils/http", "utils/signal",
       "benchmark", "test"] := by decide

end ElaVerif.C24
