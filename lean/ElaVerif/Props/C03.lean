import ElaVerif.Lemmas.Script
import ElaVerif.Lemmas.AuxPowTotal
import ElaVerif.Lemmas.RunPrograms
import ElaVerif.Lemmas.CoinbaseTotal
import ElaVerif.Gen.C03
import ElaVerif.Lemmas.C03Expected
/-!
# C03 — validating a decoded block or transaction never panics

Every Go index, slice and division of the modelled functions is an explicit
partial operation of the model (`R.panic`).  The `_total` theorems say that the
functions **as they are in the tree now** (after the `fix:` commits: all guards
on) never reach `R.panic`, for every input.  The `_panics` theorems are the
machine-checked negations for the functions as they were before the fixes
(guards off), each with the concrete witness that is also replayed on the real
code from `corpus/C03/witnesses.ops`.  `_conservative` theorems say a guard does
not change any answer the unguarded function gave without panicking.

Helper lemmas live in `ElaVerif/Lemmas/*.lean`.
-/
namespace ElaVerif.C03
open ElaVerif.Script

/-! ## script classification (core/contract/common.go) -/

/-- `IsStandard` never panics. -/
theorem C03_isStandard_total (code : Bytes) : isStandard code ≠ .panic := isStandard_total code
example : isStandard (33 :: List.replicate 33 7 ++ [0xAC]) = .val true := by decide

/-- `IsSchnorr` never panics. -/
theorem C03_isSchnorr_total (code : Bytes) : isSchnorr code ≠ .panic := isSchnorr_total code
example : isSchnorr (0x51 :: 33 :: List.replicate 33 7) = .val true := by decide

/-- `IsMultiSig` (with the two length guards of the fix) never panics — and its key
    loop never exhausts the iteration bound the model gives it. -/
theorem C03_isMultiSig_total (code : Bytes) : isMultiSig true code ≠ .panic := isMultiSig_total code

def key34 : Bytes := 33 :: List.replicate 33 2
/-- a valid 2-of-2 script -/
def ms22 : Bytes := [0x52] ++ key34 ++ key34 ++ [0x52, 0xAE]
example : isMultiSig true ms22 = .val true := by decide

/-- the 70-byte witnesses: `PUSH2 ‖ key ‖ key ‖ PUSH2` and `… ‖ 0x01` -/
def witness70a : Bytes := [0x52] ++ key34 ++ key34 ++ [0x52]
def witness70b : Bytes := [0x52] ++ key34 ++ key34 ++ [0x01]

/-- NEGATION (pre-fix code): the unguarded `IsMultiSig` panics on a 70-byte script. -/
theorem C03_isMultiSig_unguarded_panics :
    isMultiSig false witness70a = .panic ∧ isMultiSig false witness70b = .panic := by decide

/-- the repaired function answers `false` on both witnesses -/
example : isMultiSig true witness70a = .val false ∧ isMultiSig true witness70b = .val false := by decide

/-- the guards change nothing where the old code answered. -/
theorem C03_isMultiSig_guard_conservative (code : Bytes) (b : Bool)
    (h : isMultiSig false code = .val b) : isMultiSig true code = .val b := isMultiSig_cons code b h

/-- `GetCodeType` never panics. -/
theorem C03_getCodeType_total (code : Bytes) : getCodeType true code ≠ .panic := by
  unfold getCodeType
  obtain ⟨a, ha⟩ := ElaVerif.RunPrograms.R_cases _ (isStandard_total code)
  obtain ⟨b, hb⟩ := ElaVerif.RunPrograms.R_cases _ (isMultiSig_total code)
  obtain ⟨c, hc⟩ := ElaVerif.RunPrograms.R_cases _ (isSchnorr_total code)
  rw [ha]; simp only [R.bind_val]
  cases a
  · simp only [Bool.false_eq_true, if_false]
    rw [hb]; simp only [R.bind_val]
    cases b
    · simp only [Bool.false_eq_true, if_false]
      rw [hc]; simp only [R.bind_val]
      cases c <;> exact val_np _
    · exact val_np _
  · exact val_np _

/-! ## merged-mining proof (auxpow/auxpow.go) -/
open ElaVerif.AuxPowTotal in
/-- `GetExpectedIndex` (with the height guard) never divides by zero. -/
theorem C03_getExpectedIndex_total (nonce : Nat) (chainID h : Int) :
    getExpectedIndex true nonce chainID h ≠ .panic := getExpectedIndex_total nonce chainID h
example : ElaVerif.AuxPowTotal.getExpectedIndex true 7 1224 3 = .val 5 := by decide

open ElaVerif.AuxPowTotal in
/-- NEGATION (pre-fix code): a merkle height of 32 makes `1 << uint32(h)` zero in uint32. -/
theorem C03_getExpectedIndex_unguarded_panics : getExpectedIndex false 1 1224 32 = .panic := by decide

open ElaVerif.AuxPowTotal in
/-- `AuxPow.Check` (all three guards) never panics: for every parent coinbase
    script, every number of parent coinbase inputs, every merkle height. -/
theorem C03_auxpowCheck_total (inp : Input) : check Fix.all inp ≠ .panic := check_total inp

/-- marker ‖ 32-byte root ‖ size=1 ‖ nonce -/
def apScript (tail : Bytes) : Bytes := [0xfa, 0xbe, 0x6d, 0x6d] ++ List.replicate 32 9 ++ tail
example : ElaVerif.AuxPowTotal.check .all
    ⟨true, 1, apScript [1,0,0,0, 0,0,0,0], List.replicate 32 9, 0, 0, 1224⟩ = .val true := by decide

open ElaVerif.AuxPowTotal in
/-- NEGATION (pre-fix code), three witnesses: no parent coinbase input; only 4 bytes after
    the root (the nonce read runs off the script); 32 branch entries with size 0. -/
theorem C03_auxpowCheck_unguarded_panics :
    check Fix.none ⟨true, 0, [], List.replicate 32 9, 0, 0, 1224⟩ = .panic ∧
    check Fix.none ⟨true, 1, apScript [1,0,0,0], List.replicate 32 9, 0, 0, 1224⟩ = .panic ∧
    check Fix.none ⟨true, 1, apScript [0,0,0,0, 0,0,0,0], List.replicate 32 9, 32, 0, 1224⟩ = .panic := by
  decide

/-! ## program verification (blockchain/validation.go, crypto/) -/
open ElaVerif.RunPrograms in
/-- `RunPrograms` never panics, whatever the signature oracles answer:
    for all data, program hashes, program codes and parameters. -/
theorem C03_runPrograms_total {D : Type} (O : Oracles D) (d : D) (hs : List PH) (ps : List Program) :
    runPrograms Fix.all O d hs ps ≠ .panic := runPrograms_total O d hs ps

/-- an oracle that rejects everything -/
def O0 : ElaVerif.RunPrograms.Oracles Unit := ⟨fun _ => false, fun _ _ _ => false, fun _ _ _ => false, fun _ => []⟩
def schnorrCode : Bytes := 0x51 :: 33 :: List.replicate 33 7

example : ElaVerif.RunPrograms.runPrograms .all O0 () [⟨0x4B, []⟩] [⟨schnorrCode, []⟩]
    = ElaVerif.RunPrograms.fail .schnorr := by decide

open ElaVerif.RunPrograms in
/-- NEGATION (pre-fix code): a Schnorr program with a 10-byte parameter, a cross-chain
    program with empty code, a multisig-prefixed program with one byte of code. -/
theorem C03_runPrograms_unguarded_panics :
    runPrograms Fix.none O0 () [⟨0x4B, []⟩] [⟨schnorrCode, List.replicate 10 0⟩] = .panic ∧
    runPrograms Fix.none O0 () [⟨0x4B, []⟩] [⟨[], []⟩] = .panic ∧
    runPrograms Fix.none O0 () [⟨0x12, []⟩] [⟨[7], []⟩] = .panic := by decide

/-! ## coinbase reward check (blockchain/blockvalidator.go) -/
open ElaVerif.CoinbaseTotal in
/-- FULL statement, on what block validation executes: the coinbase sanity check
    (output count ≥ 2) followed by `checkCoinbaseTransactionContext` never panics,
    for every output list, regime and reward table. -/
theorem C03_coinbase_sanityThenCtx_total (e : Env) (outs : List Out) :
    sanityThenCtx e outs ≠ .panic := sanityThenCtx_total e outs

open ElaVerif.CoinbaseTotal in
/-- the context check alone is total only under the guard the sanity check provides … -/
theorem C03_coinbaseCtx_total_partial (e : Env) (outs : List Out) (h : 2 ≤ outs.length) :
    checkCtx e outs ≠ .panic := checkCtx_total e outs h

def env0 : ElaVerif.CoinbaseTotal.Env := ⟨.v2, false, 0, 35, 100, 0, 30, 35, []⟩
example : ElaVerif.CoinbaseTotal.checkCtx env0 [⟨30, 1⟩, ⟨35, 7⟩, ⟨35, 2⟩] = .val none := by decide

open ElaVerif.CoinbaseTotal in
/-- … NEGATION of the unguarded statement: with no output `Outputs()[0]` panics, and with
    one output of the right value `Outputs()[1]` does. -/
theorem C03_coinbaseCtx_unguarded_false :
    checkCtx env0 [] = .panic ∧ checkCtx env0 [⟨30, 1⟩] = .panic := by decide

/-! ## Schnorr withdraw signer lookup (core/transaction/withdrawfromsidechaintransaction.go) -/
open ElaVerif.CoinbaseTotal in
/-- with the unconditional bound test the signer loop never indexes outside the arbiter list. -/
theorem C03_signerLoop_total (validate : Bool) (nArb : Nat) (signers : List Nat) :
    signerLoop true validate nArb signers [] ≠ .panic := signerLoop_total validate nArb signers []
example : ElaVerif.CoinbaseTotal.signerLoop true true 3 [0, 2] [] = .val none := by decide

open ElaVerif.CoinbaseTotal in
/-- NEGATION (pre-fix code): below the restriction height (validation off) signer index 5 of 3 arbiters panics. -/
theorem C03_signerLoop_unguarded_panics : signerLoop false false 3 [5] [] = .panic := by decide

/-! ## block sanity head and ReturnDepositCoin signer loop (round 3) -/
open ElaVerif.CoinbaseTotal in
/-- `CheckBlockSanity` up to the coinbase-position tests never panics: the empty transaction list is
    rejected before `transactions[0]` is read — for every block, in particular every decodable one
    (a block with zero transactions decodes). -/
theorem C03_blockSanityHead_total (b : BlockIn) : blockSanityHead false b ≠ .panic := blockSanityHead_total b
example : ElaVerif.CoinbaseTotal.blockSanityHead false ⟨true, true, true, 10000, true, true, [true, false]⟩ = .val none := by decide

open ElaVerif.CoinbaseTotal in
/-- NEGATION for the order "coinbase tests first": an empty block panics. -/
theorem C03_blockSanityHead_indexFirst_panics :
    blockSanityHead true ⟨true, true, true, 10000, true, true, []⟩ = .panic := by decide

open ElaVerif.CoinbaseTotal in
/-- the signer loop of `ReturnDepositCoinTransaction.SpecialContextCheck` never panics when every program
    code has at least 2 bytes (the transaction's own sanity check demands ≥ 23): an unregistered signer —
    multi-sig or not — is an error, never a nil producer. -/
theorem C03_returnDeposit_total (addrCount : Nat) (progs : List (Bytes × Bool)) (ov : Bool)
    (h : ∀ x ∈ progs, 2 ≤ x.1.length) : returnDepositCheck false addrCount progs ov ≠ .panic :=
  returnDepositCheck_total addrCount progs ov h
example : ElaVerif.CoinbaseTotal.returnDepositCheck false 1 [(ms22, true)] true = .val (some .overspend) := by decide

open ElaVerif.CoinbaseTotal in
/-- NEGATION for the variant that tests `p == nil` only for non-multi-sig codes: an unregistered 2-of-2 script panics. -/
theorem C03_returnDeposit_nilcheck_panics : returnDepositCheck true 1 [(ms22, false)] true = .panic := by decide

open ElaVerif.CoinbaseTotal in
/-- the public-key extraction of `RegisterCRTransaction.SpecialContextCheck` (after the fix) never panics, for every `CRInfo.Code`. -/
theorem C03_registerCRKey_total (code : Bytes) : registerCRKey true code ≠ .panic := registerCRKey_total code
example : ElaVerif.CoinbaseTotal.registerCRKey true (33 :: List.replicate 33 7 ++ [0xAC]) = .val none := by decide

open ElaVerif.CoinbaseTotal in
/-- NEGATION (pre-fix code): the one-byte code `AC` makes `code[1:len(code)-1]` = `code[1:0]` panic. -/
theorem C03_registerCRKey_unguarded_panics : registerCRKey false [0xAC] = .panic := by decide

open ElaVerif.CoinbaseTotal in
/-- `checkCRCArbitratorsSignatures` (both copies, after the fix) never panics on the m/n read. -/
theorem C03_crcArbitersMN_total (code : Bytes) : crcArbitersMN true code ≠ .panic := crcArbitersMN_total code

open ElaVerif.CoinbaseTotal in
/-- NEGATION (pre-fix code): empty and one-byte program codes. -/
theorem C03_crcArbitersMN_unguarded_panics : crcArbitersMN false [] = .panic ∧ crcArbitersMN false [0x52] = .panic := by decide

/-! ## round 5: cross-chain output index, RevertToDPOS programs -/
open ElaVerif.CoinbaseTotal in
/-- the TransferCrossChainAsset (payload version 0) index test, after the fix (compared as uint64), protects both
    later reads `Outputs()[OutputIndexes[i]]`, for every uint64 index and output count. -/
theorem C03_crossChainIndex_total (nOut idx : Nat) : crossChainIndex true nOut idx ≠ .panic := crossChainIndex_total nOut idx
example : ElaVerif.CoinbaseTotal.crossChainIndex true 2 1 = .val false ∧ ElaVerif.CoinbaseTotal.crossChainIndex true 2 (2 ^ 63) = .val true := by decide

open ElaVerif.CoinbaseTotal in
/-- NEGATION (pre-fix code): `int(outputIndex)` of 2^63 is negative, passes `>= len(outputs)`, and the read panics. -/
theorem C03_crossChainIndex_unfixed_panics : crossChainIndex false 1 (2 ^ 63) = .panic ∧ crossChainIndex false 3 (2 ^ 64 - 1) = .panic := by decide

open ElaVerif.CoinbaseTotal in
/-- `blockchain.CheckRevertToDPOSTransaction` (called by the DPoS network handler before any sanity check) never
    panics after the fix: no programs and short codes are errors. -/
theorem C03_revertToDPOSCheck_total (nPrograms : Nat) (code : Bytes) : revertToDPOSCheck true nPrograms code ≠ .panic :=
  revertToDPOSCheck_total nPrograms code

open ElaVerif.CoinbaseTotal in
/-- NEGATION (pre-fix code): no program at all; one program with an empty code. -/
theorem C03_revertToDPOSCheck_unguarded_panics :
    revertToDPOSCheck false 0 [] = .panic ∧ revertToDPOSCheck false 1 [] = .panic := by decide

/-! ## round 7: NextTurnDPOSInfo comparison helpers -/
open ElaVerif.CoinbaseTotal in
/-- `isNextArbitratorsSame` (after the fix) never indexes past either key list, for every payload and every next-arbiter list. -/
theorem C03_nextSame_total (cr dpos : List Nat) (next : List NextArb) : nextSame true cr dpos next ≠ .panic :=
  nextSame_total cr dpos next
example : ElaVerif.CoinbaseTotal.nextSame true [1] [2] [⟨1, true, false⟩, ⟨2, false, false⟩] = .val true := by decide

open ElaVerif.CoinbaseTotal in
/-- `isNextArbitratorsSameV1` (after the fix) likewise. -/
theorem C03_nextSameV1_total (cr dpos : List Nat) (next nextCRC : List (Nat × Bool)) :
    nextSameV1 true cr dpos next nextCRC ≠ .panic := nextSameV1_total cr dpos next nextCRC

open ElaVerif.CoinbaseTotal in
/-- NEGATION (pre-fix code): all keys declared as DPoS keys while one next arbiter is a CRC arbiter (the sum of the
    lengths is right); V1 with fewer CR keys than next CRC arbiters. -/
theorem C03_nextSame_unguarded_panics :
    nextSame false [] [1, 2] [⟨1, true, false⟩, ⟨2, false, false⟩] = .panic ∧
    nextSameV1 false [] [1] [(1, true)] [(20, true)] = .panic := by decide

/-! ## T-gen: the accesses and guards of the real functions are the ones the models were written against -/

/-- opcode / prefix / size constants used by the models are the repository's. -/
theorem C03_gen_constants :
    Gen.C03.PUSH1 = PUSH1 ∧ Gen.C03.PUSH16 = PUSH16 ∧ Gen.C03.CHECKSIG = CHECKSIG ∧
    Gen.C03.CHECKMULTISIG = CHECKMULTISIG ∧ (Gen.C03.cryptoPUSH1 : Int) = ElaVerif.RunPrograms.PUSH1i ∧
    Gen.C03.STANDARD = ElaVerif.RunPrograms.STANDARD ∧ Gen.C03.MULTISIG = ElaVerif.RunPrograms.MULTISIG ∧
    Gen.C03.CROSSCHAIN = ElaVerif.RunPrograms.CROSSCHAIN ∧
    Gen.C03.PrefixStandard = ElaVerif.RunPrograms.PrefixStandard ∧ Gen.C03.PrefixMultiSig = ElaVerif.RunPrograms.PrefixMultiSig ∧
    Gen.C03.PrefixCrossChain = ElaVerif.RunPrograms.PrefixCrossChain ∧ Gen.C03.PrefixDeposit = ElaVerif.RunPrograms.PrefixDeposit ∧
    Gen.C03.SignatureScriptLength = 65 ∧ Gen.C03.PublicKeyScriptLength = 35 ∧ Gen.C03.MinMultiSignCodeLength = 71 ∧
    2 ≤ Gen.C03.MinProgramCodeSize := by decide

/-- every index / slice / division / single-value type assertion and every length or nil guard of the
    modelled functions, in source order, is what the models mirror. -/
theorem C03_gen_accesses :
    Gen.C03.isStandard = C03Expected.isStandard ∧
    Gen.C03.isSchnorr = C03Expected.isSchnorr ∧
    Gen.C03.isMultiSig = C03Expected.isMultiSig ∧
    Gen.C03.runPrograms = C03Expected.runPrograms ∧
    Gen.C03.checkStandardSignature = C03Expected.checkStandardSignature ∧
    Gen.C03.checkSchnorrSignatures = C03Expected.checkSchnorrSignatures ∧
    Gen.C03.checkCrossChainSignatures = C03Expected.checkCrossChainSignatures ∧
    Gen.C03.checkMultiSigSignatures = C03Expected.checkMultiSigSignatures ∧
    Gen.C03.verifyMultisigSignatures = C03Expected.verifyMultisigSignatures ∧
    Gen.C03.parseMultisigScript = C03Expected.parseMultisigScript ∧
    Gen.C03.parseCrossChainScript = C03Expected.parseCrossChainScript ∧
    Gen.C03.parsePublicKeys = C03Expected.parsePublicKeys ∧
    Gen.C03.auxPowCheck = C03Expected.auxPowCheck ∧
    Gen.C03.getExpectedIndex = C03Expected.getExpectedIndex ∧
    Gen.C03.getMerkleRoot = C03Expected.getMerkleRoot ∧
    Gen.C03.checkCoinbaseTransactionContext = C03Expected.checkCoinbaseTransactionContext ∧
    Gen.C03.checkCoinbaseArbitratorsReward = C03Expected.checkCoinbaseArbitratorsReward ∧
    Gen.C03.coinbaseCheckTransactionOutput = C03Expected.coinbaseCheckTransactionOutput ∧
    Gen.C03.checkSchnorrWithdrawFromSidechain = C03Expected.checkSchnorrWithdrawFromSidechain ∧
    Gen.C03.checkBlockSanity = C03Expected.checkBlockSanity ∧
    Gen.C03.isNextArbitratorsSame = C03Expected.isNextArbitratorsSame ∧
    Gen.C03.isNextArbitratorsSameV1 = C03Expected.isNextArbitratorsSameV1 ∧
    Gen.C03.maybeAcceptBlock = C03Expected.maybeAcceptBlock ∧
    Gen.C03.connectBestChain = C03Expected.connectBestChain ∧
    Gen.C03.registerCRSpecialContextCheck = C03Expected.registerCRSpecialContextCheck ∧
    Gen.C03.checkCRCArbitratorsSignaturesTx = C03Expected.checkCRCArbitratorsSignaturesTx ∧
    Gen.C03.checkCRCArbitratorsSignaturesBc = C03Expected.checkCRCArbitratorsSignaturesBc ∧
    Gen.C03.returnDepositSpecialContextCheck = C03Expected.returnDepositSpecialContextCheck := by
  refine ⟨rfl, rfl, rfl, rfl, rfl, rfl, rfl, rfl, rfl, rfl, rfl, rfl, rfl, rfl, rfl, rfl, rfl, rfl, rfl, rfl, rfl, rfl, rfl, rfl, rfl, rfl, rfl, rfl⟩

/-- **Systematic table.** For every per-type checker method of core/transaction (SanityCheck, ContextCheck,
    HeightVersionCheck, CheckTransactionSize/Input/Output/Fee, CheckAttributeProgram, CheckTransactionPayload,
    SpecialContextCheck — the methods among them that contain such a site) and every function of blockchain/blockvalidator.go, confirmvalidator.go and
    txvalidator.go that indexes, slices, divides or asserts (59 functions), the list of those sites with their
    length / nil guards, in source order, is the reviewed snapshot.  A new unguarded access makes this lemma stale. -/
theorem C03_gen_checker_tables :
    Gen.C03.txCheckers = C03Expected.txCheckers ∧ Gen.C03.chainCheckers = C03Expected.chainCheckers := ⟨rfl, rfl⟩

end ElaVerif.C03
