import ElaVerif.Model.Node
import ElaVerif.Lemmas.Node
/-!
  C06 — no output is ever spent twice.

  Model: `Model/Node.lean` (ledger = replay of the active chain; block sanity / context checks for
  coinbase + transfer transactions; pool with the netsync maintenance; chain selection).
  Claimed **partial** for the full node: only transfer-type transactions are modelled and generated.
-/
namespace ElaVerif.C06
open ElaVerif.Index ElaVerif.Node

def outpoint (e : UEntry) : Nat × Nat := (e.txid, e.idx)

/-- every outpoint spent by a transaction of the chain, in chain order -/
def spentList (c : List Block) : List (Nat × Nat) := c.flatMap blockIns

/-- a chain each block of which passed the node's checks (`CheckBlockSanity`, `CheckBlockContext`)
    against the replay of the blocks before it. Transaction ids are hashes: the ids of a new block
    do not occur earlier on the chain (the validator checks this for every transaction but the
    coinbase, whose hash contains the height). -/
inductive ValidChain (P : Params) : List Block → Prop
  | genesis (g : Block) (h : blockIns g = []) : ValidChain P [g]
  | snoc (c : List Block) (b : Block) : ValidChain P c → blockSane b = true →
      blockValid P (replay c) b = true →
      (∀ tx ∈ b.txs, tx.id ∉ (replay c).txs.map (·.1)) → ValidChain P (c ++ [b])

theorem find_some {L : Ledger} {o : Nat × Nat} {e : UEntry} (h : L.find o = some e) :
    e ∈ L.utxos ∧ outpoint e = o := by
  unfold Ledger.find at h
  refine ⟨List.mem_of_find?_eq_some h, ?_⟩
  have := List.find?_some h
  simp only [Bool.and_eq_true, beq_iff_eq] at this
  exact Prod.ext this.1 this.2

theorem replay_snoc (c : List Block) (b : Block) : replay (c ++ [b]) = applyBlock (replay c) b := by
  simp [replay, List.foldl_append]

/-- inputs of the non-coinbase transactions of a sane, valid block are unspent before the block -/
theorem ins_found (P : Params) (L : Ledger) (b : Block) (hs : blockSane b = true) (hv : blockValid P L b = true) :
    ∀ o ∈ blockIns b, ∃ e, L.find o = some e := by
  unfold blockSane at hs
  unfold blockValid at hv
  cases hb : b.txs with
  | nil => simp [hb] at hs
  | cons cb rest =>
    simp only [hb, Bool.and_eq_true] at hs hv
    obtain ⟨⟨⟨⟨hcb, hrest⟩, _⟩, _⟩, _⟩ := hs
    intro o ho
    unfold blockIns at ho
    rw [hb, List.flatMap_cons] at ho
    have hcb' : txIns cb = [] := by
      have : cb.kind = .coinbase := by simpa using hcb
      simp [txIns, this]
    rw [hcb', List.nil_append] at ho
    obtain ⟨tx, htx, hotx⟩ := List.mem_flatMap.mp ho
    have hk : tx.kind ≠ .coinbase := by
      have := (List.all_eq_true.mp hrest) tx htx
      simpa using this
    have hins : txIns tx = tx.ins := by simp [txIns, hk]
    rw [hins] at hotx
    have hval := (List.all_eq_true.mp hv.1) tx htx
    unfold txValid at hval
    simp only [Bool.and_eq_true] at hval
    have := (List.all_eq_true.mp hval.1.2) o hotx
    cases hf : L.find o with
    | none => simp [hf] at this
    | some e => exact ⟨e, rfl⟩

structure Inv (c : List Block) : Prop where
  nodup : (spentList c).Nodup
  gone : ∀ o ∈ spentList c, ∀ e ∈ (replay c).utxos, outpoint e ≠ o
  owned : ∀ e ∈ (replay c).utxos, e.txid ∈ (replay c).txs.map (·.1)
  spentOwned : ∀ o ∈ spentList c, o.1 ∈ (replay c).txs.map (·.1)

theorem mem_newEntries {b : Block} {e : UEntry} (h : e ∈ newEntries b) : ∃ tx ∈ b.txs, e.txid = tx.id := by
  unfold newEntries at h
  obtain ⟨tx, htx, he⟩ := List.mem_flatMap.mp h
  obtain ⟨p, _, rfl⟩ := List.mem_map.mp he
  exact ⟨tx, htx, rfl⟩

theorem inv_of_valid (P : Params) (c : List Block) (h : ValidChain P c) : Inv c := by
  induction h with
  | genesis g hg =>
    have hs : spentList [g] = [] := by simp [spentList, hg]
    refine ⟨by rw [hs]; simp, by rw [hs]; simp, ?_, by rw [hs]; simp⟩
    intro e he
    have hr : replay [g] = applyBlock {} g := rfl
    rw [hr] at he ⊢
    simp only [applyBlock, List.filter_nil, List.nil_append] at he ⊢
    obtain ⟨tx, htx, hid⟩ := mem_newEntries he
    exact List.mem_map.mpr ⟨(tx.id, g.height), List.mem_map.mpr ⟨tx, htx, rfl⟩, hid.symm⟩
  | snoc c b _ hs hv hfresh ih =>
    have hfound := ins_found P (replay c) b hs hv
    have hsl : spentList (c ++ [b]) = spentList c ++ blockIns b := by simp [spentList]
    have hnd : (blockIns b).Nodup := by
      unfold blockSane at hs
      cases hb : b.txs with
      | nil => simp [hb] at hs
      | cons cb rest =>
        simp only [hb, Bool.and_eq_true] at hs
        exact nodupB_nodup _ hs.2
    have hown : ∀ o ∈ blockIns b, o.1 ∈ (replay c).txs.map (·.1) := by
      intro o ho
      obtain ⟨e, he⟩ := hfound o ho
      obtain ⟨hmem, hop⟩ := find_some he
      have := ih.owned e hmem
      rw [← hop]; exact this
    refine ⟨?_, ?_, ?_, ?_⟩
    · rw [hsl]
      refine List.nodup_append.mpr ⟨ih.nodup, hnd, ?_⟩
      intro a ha b' hb' e
      subst e
      obtain ⟨e, he⟩ := hfound a hb'
      obtain ⟨hmem, hop⟩ := find_some he
      exact ih.gone a ha e hmem hop
    · intro o ho e he
      rw [hsl] at ho
      rw [replay_snoc] at he
      simp only [applyBlock, List.mem_append, List.mem_filter] at he
      rcases he with ⟨hmem, hnot⟩ | hnew
      · rcases List.mem_append.mp ho with h1 | h1
        · exact ih.gone o h1 e hmem
        · intro heq
          have h2 : (e.txid, e.idx) = o := heq
          rw [h2] at hnot
          simp [h1] at hnot
      · obtain ⟨tx, htx, hid⟩ := mem_newEntries hnew
        intro heq
        have ho1 : o.1 ∈ (replay c).txs.map (·.1) := by
          rcases List.mem_append.mp ho with h1 | h1
          · exact ih.spentOwned o h1
          · exact hown o h1
        have : e.txid = o.1 := by rw [← heq]; rfl
        exact hfresh tx htx (by rw [← hid, this]; exact ho1)
    · intro e he
      rw [replay_snoc] at he ⊢
      simp only [applyBlock, List.mem_append, List.mem_filter, List.map_append] at he ⊢
      rcases he with ⟨hmem, _⟩ | hnew
      · exact Or.inl (ih.owned e hmem)
      · obtain ⟨tx, htx, hid⟩ := mem_newEntries hnew
        exact Or.inr (List.mem_map.mpr ⟨(tx.id, b.height), List.mem_map.mpr ⟨tx, htx, rfl⟩, hid.symm⟩)
    · intro o ho
      rw [hsl] at ho
      rw [replay_snoc]
      simp only [applyBlock, List.map_append, List.mem_append]
      rcases List.mem_append.mp ho with h1 | h1
      · exact Or.inl (ih.spentOwned o h1)
      · exact Or.inl (hown o h1)

/-- **C06 (chain).** On a chain every block of which the node accepted, no outpoint is spent by two
    transactions (nor twice by one): the list of all inputs of the chain has no repetition. -/
theorem C06_chain (P : Params) (c : List Block) (h : ValidChain P c) : (spentList c).Nodup :=
  (inv_of_valid P c h).nodup

/-- … and an outpoint once spent is not unspent again later on that chain. -/
theorem C06_spent_stays_spent (P : Params) (c : List Block) (h : ValidChain P c) :
    ∀ o ∈ spentList c, (replay c).find o = none := by
  intro o ho
  cases hf : (replay c).find o with
  | none => rfl
  | some e =>
    obtain ⟨hmem, hop⟩ := find_some hf
    exact absurd hop ((inv_of_valid P c h).gone o ho e hmem)

/-- **C06 (block, duplicate).** A block that spends an outpoint twice fails `CheckBlockSanity`,
    so `ProcessBlock` answers `err` and changes nothing. -/
theorem C06_block_reject_dup (s : NState) (b : Block) (hd : ¬ (blockIns b).Nodup)
    (hk : s.isKnown b.id = false) (ho : s.orphans.any (·.id == b.id) = false) :
    processBlock s b = (s, .err) := by
  have hs : blockSane b = false := by
    cases h : blockSane b with
    | false => rfl
    | true =>
      exfalso; apply hd
      unfold blockSane at h
      cases hb : b.txs with
      | nil => simp [hb] at h
      | cons cb rest =>
        simp only [hb, Bool.and_eq_true] at h
        exact nodupB_nodup _ h.2
  unfold processBlock
  simp [hk, ho, hs]

/-- **C06 (block, spent or never created).** A block one of whose inputs is not unspent on the
    chain it extends fails the context check: it is not connected. -/
theorem C06_block_reject_missing (s : NState) (b : Block) (o : Nat × Nat) (ho : o ∈ blockIns b)
    (hs : blockSane b = true) (hm : s.ledger.find o = none) : connectTip s b = none := by
  unfold connectTip
  cases hv : blockValid s.P s.ledger b with
  | false => simp
  | true =>
    obtain ⟨e, he⟩ := ins_found s.P s.ledger b hs hv o ho
    rw [hm] at he; cases he

/-- **C06 (pool).** Starting from the initial state, after any sequence of block deliveries and
    transaction submissions the pool holds no two transactions with a common input. -/
theorem C06_pool (P : Params) (g : Block) (ops : List Op) :
    (poolIns (run (initState P g) ops).pool).Nodup :=
  (good_run _ ops (good_init P g)).pool

/-! non-vacuity -/

def exG : Block :=
  { id := 1, prev := 0, height := 0,
    txs := [{ id := 10, kind := .coinbase, pver := 0, ins := [], outs := [{ addr := 0, value := 1000 }] }] }
def exB1 : Block :=
  { id := 2, prev := 1, height := 1,
    txs := [{ id := 20, kind := .coinbase, pver := 0, ins := [], outs := [{ addr := 1, value := 150 }] },
            { id := 21, kind := .other, pver := 0, ins := [(10, 0)], outs := [{ addr := 2, value := 900 }] }] }
def exP : Params := { reward := 50, maturity := 0, minFee := 100 }
/-- the same coin again, on top of `exB1` -/
def exB2 : Block :=
  { id := 3, prev := 2, height := 2,
    txs := [{ id := 30, kind := .coinbase, pver := 0, ins := [], outs := [{ addr := 1, value := 150 }] },
            { id := 31, kind := .other, pver := 0, ins := [(10, 0)], outs := [{ addr := 3, value := 900 }] }] }

example : ValidChain exP ([exG] ++ [exB1]) :=
  .snoc [exG] exB1 (.genesis exG (by decide)) (by decide) (by decide) (by decide)
example : blockValid exP (replay [exG, exB1]) exB2 = false := by decide
example : (processBlock (processBlock (initState exP exG) exB1).1 exB2).2 = .err := by decide

/-- **C06 for the signature-less spender.** A CRCAppropriation that the context check accepts spends only
    outpoints that are unspent on the ledger (and all of them belong to the CR assets address): the ledger's
    double-spend test runs before the special check that ends the context check for this type. -/
theorem C06_approp_spends_unspent (L : Ledger) (assets : Nat) (appr : Option Int) (tx : Tx)
    (h : ctxApprop L assets appr tx = 0) :
    ∀ p ∈ tx.ins, ∃ e, L.find p = some e ∧ e.addr = assets := by
  unfold ctxApprop at h
  by_cases h1 : (L.txs.any fun t => t.1 == tx.id) = true
  · simp [h1] at h
  · simp only [h1, Bool.false_eq_true, if_false] at h
    by_cases h2 : (!(tx.ins.all fun p => L.txs.any fun t => t.1 == p.1)) = true
    · simp [h2] at h
    · simp only [h2, Bool.false_eq_true, if_false] at h
      by_cases h3 : (!(tx.ins.all fun p => (L.find p).isSome)) = true
      · simp [h3] at h
      · simp only [h3, Bool.false_eq_true, if_false] at h
        cases appr with
        | none => simp at h
        | some amt =>
          simp only at h
          by_cases h4 : fromAssets L assets tx = true
          · intro p hp
            have := List.all_eq_true.mp h4 p hp
            cases hf : L.find p with
            | none => simp [hf] at this
            | some e => exact ⟨e, rfl, by simpa [hf] using this⟩
          · simp [h4] at h

/-- a RegisterAsset transaction passes no sanity check (the unspent index skips the type; fix bcb6426e) -/
theorem C06_registerAsset_refused (tx : Tx) (h : tx.kind = .registerAsset) : txSane tx = false := by
  simp [txSane, h]

/-- a transaction with more than 65535 outputs passes no sanity check: the unspent index stores output
    indexes as uint16, so output 65536 would be listed as a second index 0 -/
theorem C06_wide_refused (tx : Tx) (h : 65535 < tx.outs.length) : txSane tx = false := by
  have : ¬ tx.outs.length ≤ 65535 := by omega
  simp [txSane, this]

end ElaVerif.C06
