import ElaVerif.Model.Pool
import ElaVerif.Lemmas.Pool
import ElaVerif.Gen.C34
/-!
# C34 — the mempool stays consistent and conflict-free

Property theorems only (the invariant `Inv`, its parts `FeeInv`, `SlotW`, `Missing`, `Base` and
the preservation lemmas are in `ElaVerif/Lemmas/Pool.lean`; the machine is `ElaVerif/Model/Pool.lean`).

The theorems are about the pool machine for an arbitrary fee-rate comparison `lt` that is
irreflexive and transitive (`RateOrder`) — true of `<` on `float64`, NaN included — and for the
conflict-slot table and key functions of the model, which `C34_gen_slot_table` ties to the source.
The chain's verdicts (sanity / context check at submission, context check at the post-block
re-check) are inputs, universally quantified.
-/
namespace ElaVerif.C34
open ElaVerif.Pool

/-! ## Regenerated facts -/

/-- T-gen: the conflict-slot table read from `conflictmanager.go` (slot order, slot names, key
    type, tx type ↦ key function) is the table of the model. -/
theorem C34_gen_slot_table : ElaVerif.Gen.C34.slotTable = tableRendered := by decide

/-- the slots the pool code addresses by name are where the model expects them -/
theorem C34_gen_named_slots :
    (ElaVerif.Gen.C34.slotTable[slotOwner]?.map (·.1)) = some "DPoSOwnerPublicKey" ∧
    (ElaVerif.Gen.C34.slotTable[slotNode]?.map (·.1)) = some "DPoSNodePublicKey" ∧
    (ElaVerif.Gen.C34.slotTable[slotCRDID]?.map (·.1)) = some "CrDID" ∧
    (ElaVerif.Gen.C34.slotTable[slotInputs]?.map (·.1)) = some "TxInputsReferKeys" := by decide

/-- T-gen: tx-type and proposal-type constants the model branches on -/
theorem C34_gen_constants :
    ElaVerif.Gen.C34.txTypes = [tyCoinBase, tyTransferAsset, tySideChainPow, tyCancelProducer, tyUpdateProducer,
      tyUpdateVersion, tyNextTurnDPOSInfo, tyUnregisterCR, tyUpdateCR, tyCRCProposal, tyCRCAppropriation,
      tyCRAssetsRectify, tyRecordSponsor] ∧
    ElaVerif.Gen.C34.proposalTypes = [ptSecretaryGeneral, ptChangeProposalOwner, ptCloseProposal,
      ptRegisterSideChain, ptReserveCustomID, ptReceiveCustomID, ptChangeCustomIDFee] ∧
    ElaVerif.Gen.C34.maxTxPoolSize < 2 ^ 63 := by decide

/-- T-gen: the order of the pool-relevant steps in the functions the model mirrors -/
theorem C34_gen_steps :
    ElaVerif.Gen.C34.appendSteps = ["tx.IsRecordSponorTx", "tx.IsCRCAppropriationTx",
      "mp.removeCRAppropriationConflictTransactions", "tx.IsCoinBaseTx", "chain.CheckTransactionSanity",
      "chain.CheckTransactionContext", "mp.verifyTransactionWithTxnPool", "mp.txFees.OverSize", "mp.AppendTx",
      "mp.doAddTransaction", "mp.removeTx"] ∧
    ElaVerif.Gen.C34.doRemoveSteps = ["delete", "tx.IsCRCProposalTx", "mp.dealDelProposalTx", "delete", "delete",
      "mp.txFees.RemoveTx", "mp.removeTx"] ∧
    ElaVerif.Gen.C34.doAddSteps = ["mp.txFees.AddTx", "tx.IsCRCProposalTx", "mp.dealAddProposalTx"] ∧
    ElaVerif.Gen.C34.cleanSubmittedSteps = ["mp.cleanTransactions", "mp.cleanSideChainPowTx",
      "mp.cleanCanceledProducerAndCR"] ∧
    ElaVerif.Gen.C34.checkAndCleanSteps = ["chain.CheckTransactionContext", "mp.doRemoveTransaction",
      "tx.IsCRCProposalTx"] := by decide

section
variable (lt : Rate → Rate → Bool)

/-! ## What the invariant says -/

/-- **Conflict-free**: two held transactions never claim the same key of the same slot
    (the slot `TxInputsReferKeys` makes this "never spend the same outpoint"). -/
theorem C34_conflict_free {p : Pool} (h : Inv lt p) {t1 t2 : Tx} (h1 : t1 ∈ p.txs) (h2 : t2 ∈ p.txs)
    {k : SKey} (k1 : k ∈ keysOf t1) (k2 : k ∈ keysOf t2) : t1 = t2 := by
  have hin : k ∈ p.slots.map (·.1) := Classical.byContradiction (fun hn => h.2 t1 h1 k k1 hn)
  obtain ⟨id, hid⟩ := mem_keys.1 hin
  have e1 := h.1.slotw.uniq t1 h1 k k1 id hid
  have e2 := h.1.slotw.uniq t2 h2 k k2 id hid
  exact eq_of_id_eq h.1.ids h1 h2 (by rw [← e1, e2])

/-- **The per-resource index is exact**: an entry `(slot, key) ↦ owner` is present iff the
    owner is held and claims that key; and the index is a map. -/
theorem C34_index_exact {p : Pool} (h : Inv lt p) :
    (p.slots.map (·.1)).Nodup ∧
    ∀ k id, (k, id) ∈ p.slots ↔ ∃ t ∈ p.txs, t.id = id ∧ k ∈ keysOf t := by
  refine ⟨h.1.slotw.nodup, ?_⟩
  intro k id
  constructor
  · intro hm
    obtain ⟨t, ht, h1, h2⟩ := h.1.slotw.owned (k, id) hm
    exact ⟨t, ht, h1, h2⟩
  · rintro ⟨t, ht, rfl, hk⟩
    have hin : k ∈ p.slots.map (·.1) := Classical.byContradiction (fun hn => h.2 t ht k hk hn)
    obtain ⟨id, hid⟩ := mem_keys.1 hin
    have := h.1.slotw.uniq t ht k hk id hid
    subst this; exact hid

/-- **Fee ordering and size accounting are exact and bounded**: the fee list is ordered by
    non-increasing rate, lists every held transaction exactly once with its own rate and size,
    `totalSize` is the sum of the held transactions' sizes, and it is within the limit. -/
theorem C34_fee_list_exact {p : Pool} (h : Inv lt p) :
    Sorted lt p.fl.list ∧
    (p.fl.list.map (·.id)).Nodup ∧
    (∀ id, id ∈ p.fl.list.map (·.id) ↔ id ∈ p.txs.map (·.id)) ∧
    (∀ it ∈ p.fl.list, ∃ t ∈ p.txs, t.id = it.id ∧ it.rate = t.rate ∧ it.size = t.size) ∧
    p.fl.total = (p.txs.map (·.size)).sum ∧
    p.fl.total ≤ p.fl.max := by
  have hf := h.1.fee
  refine ⟨hf.sorted, hf.nodup, ?_, hf.item, ?_, hf.bound⟩
  · intro id
    constructor
    · intro hm
      obtain ⟨it, hit, rfl⟩ := List.mem_map.1 hm
      obtain ⟨t, ht, h1, _⟩ := hf.item it hit
      exact List.mem_map.2 ⟨t, ht, h1⟩
    · intro hm
      obtain ⟨t, ht, rfl⟩ := List.mem_map.1 hm
      exact hf.mem t ht
  · -- the (id, size) pairs of both lists are duplicate-free and equal as sets, hence permutations
    rw [hf.total]
    have n1 : (p.fl.list.map (fun it => (it.id, it.size))).Nodup := by
      have := hf.nodup
      rw [List.Nodup, List.pairwise_map] at this ⊢
      exact this.imp (fun hne heq => hne (by simpa using congrArg Prod.fst heq))
    have n2 : (p.txs.map (fun t => (t.id, t.size))).Nodup := by
      have := h.1.ids
      rw [List.Nodup, List.pairwise_map] at this ⊢
      exact this.imp (fun hne heq => hne (by simpa using congrArg Prod.fst heq))
    have hperm := (List.perm_ext_iff_of_nodup n1 n2).2 (by
      intro a
      constructor
      · intro ha
        obtain ⟨it, hit, rfl⟩ := List.mem_map.1 ha
        obtain ⟨t, ht, h1, _, h3⟩ := hf.item it hit
        exact List.mem_map.2 ⟨t, ht, by rw [h1, h3]⟩
      · intro ha
        obtain ⟨t, ht, rfl⟩ := List.mem_map.1 ha
        obtain ⟨it, hit, hid⟩ := List.mem_map.1 (hf.mem t ht)
        obtain ⟨t', ht', h1, _, h3⟩ := hf.item it hit
        have : t' = t := eq_of_id_eq h.1.ids ht' ht (by rw [h1, hid])
        subst this
        exact List.mem_map.2 ⟨it, hit, by rw [hid, h3]⟩)
    have := (hperm.map Prod.snd).sum_nat
    simpa [List.map_map, Function.comp_def] using this

/-- **The pending proposal budget total is exact.** -/
theorem C34_budget_exact {p : Pool} (h : Inv lt p) : p.used = (p.txs.map Tx.budget).sum := h.1.used

/-! ## The invariant holds initially and is preserved by every operation -/

theorem C34_empty_inv (max : Nat) (hmax : max < 2 ^ 63) : Inv lt (Pool.empty max) := by
  refine ⟨⟨List.nodup_nil, ⟨List.nodup_nil, ?_, ?_, List.Pairwise.nil, rfl, Nat.zero_le _, hmax⟩,
    ⟨List.nodup_nil, ?_, ?_⟩, rfl, ?_⟩, ?_⟩ <;> intro _ h <;> cases h

/-- **Submission** (`appendToTxPool`), whatever the chain's verdicts and whichever branch is
    taken (CR-appropriation sweep, duplicate, coinbase, rejected, side-chain-pow replacement,
    slot conflict, over capacity, accepted). -/
theorem C34_append_preserves (ho : RateOrder lt) (p : Pool) (t : Tx) (sanityOK ctxOK : Bool)
    (hsize : t.size < 2 ^ 63) (h : Inv lt p) : Inv lt (append lt p t sanityOK ctxOK).2.1 :=
  append_inv lt ho p t sanityOK ctxOK hsize h

/-- the context check is handed exactly the pending budget total of the held proposals -/
theorem C34_append_passes_budget (p : Pool) (t : Tx) (sanityOK ctxOK : Bool) (h : Inv lt p) (u : Int)
    (hu : (append lt p t sanityOK ctxOK).2.2 = some u) :
    ∃ q : Pool, Inv lt q ∧ (∀ x ∈ q.txs, x ∈ p.txs) ∧ u = (q.txs.map Tx.budget).sum := by
  unfold append at hu
  split at hu
  · cases hu
  · have hq : ∀ q, q = (if t.ty = tyCRCAppropriation then removeCRAppropriationConflicts lt p else p) →
        Inv lt q ∧ ∀ x ∈ q.txs, x ∈ p.txs := by
      intro q hq; subst hq
      split
      · unfold removeCRAppropriationConflicts; exact pre_inv lt h _
      · exact ⟨h, fun _ hx => hx⟩
    generalize hqe : (if t.ty = tyCRCAppropriation then removeCRAppropriationConflicts lt p else p) = q at hu
    obtain ⟨hqi, hqs⟩ := hq q hqe.symm
    simp only [] at hu
    split at hu
    · cases hu
    · split at hu
      · cases hu
      · split at hu
        · cases hu
        · split at hu
          · simp only [Option.some.injEq] at hu
            exact ⟨q, hqi, hqs, by rw [← hu, hqi.1.used]⟩
          · simp only [Option.some.injEq] at hu
            exact ⟨q, hqi, hqs, by rw [← hu, hqi.1.used]⟩

/-- **Removal** (`RemoveTransaction`: drop the held spenders of a transaction's outputs). -/
theorem C34_remove_preserves (p : Pool) (t : Tx) (h : Inv lt p) : Inv lt (removeSpenders lt p t) :=
  removeSpenders_inv lt h t

/-- **Post-block cleanup** (`CleanSubmittedTransactions` then `CheckAndCleanAllTransactions`) keeps the
    invariant, whatever the chain's re-check rejects (`rej` arbitrary) — no assumption on the chain's
    verdicts is needed since the `fix:` bf24ffb2 (only the index entries held by a block transaction itself
    are cleared).  `IdsAgree`: a held transaction with the hash of a block transaction is that transaction. -/
theorem C34_post_block_preserves (p : Pool) (block : List Tx) (rej : List Nat) (h : Inv lt p)
    (hids : IdsAgree p block) : Inv lt (postBlock lt p block rej) :=
  postBlock_inv lt h block rej hids

/-- already `CleanSubmittedTransactions` alone keeps the whole invariant -/
theorem C34_after_clean_submitted (p : Pool) (block : List Tx) (h : Inv lt p) (hids : IdsAgree p block) :
    Inv lt (cleanSubmitted lt p block) :=
  (Good.cleanSubmitted lt h block hids).inv

/-! ## All histories -/

/-- operations over a universe `U` of transactions (`U i` is the transaction with hash `i`) -/
inductive Op
  | append (i : Nat) (sanityOK ctxOK : Bool)
  | block (ids : List Nat) (rej : List Nat)
  | remove (i : Nat)

def stepOp (U : Nat → Tx) (p : Pool) : Op → Pool
  | .append i sa cx => (append lt p (U i) sa cx).2.1
  | .block ids rej => postBlock lt p (ids.map U) rej
  | .remove i => removeSpenders lt p (U i)

/-- **After any sequence of submissions, removals and block connections (each followed by the
    post-block cleanup), starting from the empty pool, the invariant holds** — for every
    universe of transactions identified by their hash and all verdict sequences of the chain. -/
theorem C34_history (ho : RateOrder lt) (U : Nat → Tx) (hU : ∀ i, (U i).id = i)
    (hsize : ∀ i, (U i).size < 2 ^ 63) (max : Nat) (hmax : max < 2 ^ 63) (ops : List Op) :
    Inv lt (ops.foldl (stepOp lt U) (Pool.empty max)) := by
  have key : ∀ (ops : List Op) (p : Pool), Inv lt p → (∀ t ∈ p.txs, t = U t.id) →
      Inv lt (ops.foldl (stepOp lt U) p) := by
    intro ops
    induction ops with
    | nil => intro p h _; exact h
    | cons op ops ih =>
      intro p h hu
      simp only [List.foldl_cons]
      have hagree : ∀ ids : List Nat, IdsAgree p (ids.map U) := by
        intro ids b hb t ht hid
        obtain ⟨i, _, rfl⟩ := List.mem_map.1 hb
        rw [hu t ht, hid]
        rw [hU i]
      apply ih
      · cases op with
        | append i sa cx => exact C34_append_preserves lt ho p (U i) sa cx (hsize i) h
        | block ids rej => exact C34_post_block_preserves lt p _ rej h (hagree ids)
        | remove i => exact C34_remove_preserves lt p (U i) h
      · cases op with
        | append i sa cx =>
          intro t ht
          rcases append_sub lt p (U i) sa cx t ht with h1 | h1
          · exact hu t h1
          · rw [h1, hU i]
        | block ids rej =>
          intro t ht
          exact hu t (postBlock_sub lt p _ rej h (hagree ids) t ht)
        | remove i =>
          intro t ht
          exact hu t (removeSpenders_sub lt p (U i) t ht)
  exact key ops _ (C34_empty_inv lt max hmax) (by intro t ht; cases ht)

end

/-! ## Non-vacuity -/

/-- a comparison satisfying `RateOrder` (compare the fees) for the examples below -/
def ltFee (a b : Rate) : Bool := decide (a.1 < b.1)

theorem ltFee_order : RateOrder ltFee :=
  ⟨fun a => by simp [ltFee], fun a b c h1 h2 => by simp [ltFee] at *; omega⟩

def exUpd (id : Nat) (inp : String) : Tx :=
  ⟨id, tyUpdateProducer, 0, 204, 1000, 1, [], [("own", ["k1"]), ("node", ["k2"]), ("nick", ["n1"]), ("in", [inp])]⟩

def exU (i : Nat) : Tx := exUpd i (if i = 1 then "t9:0" else if i = 2 then "t9:1" else "t8:0")

/-- one accepted UpdateProducer transaction -/
def exPool1 : Pool := (append ltFee (Pool.empty 20000000) (exU 1) true true).2.1

/-- non-vacuity of `C34_append_preserves` / `C34_conflict_free`: the pool holds a transaction, the
    second UpdateProducer for the same owner is refused with a conflict on the owner-key slot. -/
example : exPool1.txs.map (·.id) = [1] ∧ (append ltFee exPool1 (exU 2) true true).1 = .conflict (.dup slotOwner) := by
  decide

/-- The scenario replayed on a real regnet node before the `fix:` (finding C34-block-erases-held-keys):
    an UpdateProducer for owner `k1` is held, a block connects *another* UpdateProducer for `k1` (other
    inputs), the re-check keeps the held one (it is still valid).  Now its index entries stay, and a third
    UpdateProducer for `k1` is refused with a conflict on the owner-key slot. -/
theorem C34_block_sharing_key_keeps_index :
    let p := postBlock ltFee exPool1 [exU 2] []
    p.txs.map (·.id) = [1] ∧ (slotOwner, "k1") ∈ p.slots.map (·.1) ∧
    (append ltFee p (exU 3) true true).1 = .conflict (.dup slotOwner) := by
  decide

example : Inv ltFee (postBlock ltFee exPool1 [exU 2] []) :=
  C34_post_block_preserves ltFee exPool1 [exU 2] []
    (C34_append_preserves ltFee ltFee_order _ _ true true (by decide) (C34_empty_inv ltFee _ (by decide)))
    (by
      intro b hb t ht hid
      simp only [List.mem_singleton] at hb
      subst hb
      have : exPool1.txs = [exU 1] := by decide
      rw [this] at ht
      simp only [List.mem_singleton] at ht
      subst ht
      revert hid; decide)

/-- the fee list alone (AddTx with eviction, the branch `appendToTxPool`'s capacity pre-check
    makes unreachable): evicting keeps order and accounting — a concrete run: capacity 10, three
    items of size 4; adding the third evicts the cheapest. -/
example : (feeAdd ltFee ⟨[⟨1, (5, 4), 4⟩, ⟨2, (3, 4), 4⟩], 8, 10⟩ 3 (9, 4) 4).2.1.list.map (·.id) = [3, 1] ∧
    (feeAdd ltFee ⟨[⟨1, (5, 4), 4⟩, ⟨2, (3, 4), 4⟩], 8, 10⟩ 3 (9, 4) 4).2.2 = [2] := by decide

end ElaVerif.C34
