import ElaVerif.Lemmas.Treap
/-!
# C19 — treaps behave as ordered maps; immutable treaps are persistent

Model: `ElaVerif/Model/Treap.lean` (functional rendering of
database/internal/treap: `Put`, `Delete`, `Get`, `Len`, `Size`, `Iterator`).
Specification: `ElaVerif/Model/OrdMap.lean` (sorted association lists with
`ins`/`del`/`find`/`ceil`/`floor`).

All theorems quantify over every tree, key, value and *every priority*, so they
hold for whatever `rand.Int()` returns.  The binary-search-tree order is the
only invariant the ordered-map behaviour needs; the heap order on priorities
only matters for balance; `C19_put_heap` / `C19_delete_heap` show both updates
maintain it (Delete only since the fix recorded at `C19_delete_heap`).
-/
namespace ElaVerif.C19
open ElaVerif.Treap Tree
open ElaVerif.OrdMap hiding Bytes

/-- in-order keys strictly increasing -/
abbrev BST (t : Tree) : Prop := Sorted (toList t)

/-! ## Put / Delete / Get against the ordered map -/

/-- `Put` is ordered-map insertion, for every priority, and keeps the search-tree order. -/
theorem C19_put (t : Tree) (k v : Bytes) (p : Int) (h : BST t) :
    toList (put t k v p) = ins k v (toList t) ∧ BST (put t k v p) := by
  have e := toList_putAux t k v p h
  refine ⟨e, ?_⟩
  show Sorted (toList (putAux t k v p).1)
  rw [e]; exact sorted_ins h

/-- `Delete` is ordered-map erasure and keeps the search-tree order. -/
theorem C19_delete (t : Tree) (k : Bytes) (h : BST t) :
    toList (delete t k) = del k (toList t) ∧ BST (delete t k) := by
  have e := toList_delete t k h
  exact ⟨e, by show Sorted _; rw [e]; exact sorted_del h⟩

/-- `Get`/`Has` are ordered-map lookup. -/
theorem C19_get (t : Tree) (k : Bytes) (h : BST t) : get t k = find k (toList t) :=
  get_eq_find t k h

/-- The specification really is a finite map: lookups after insert / erase. -/
theorem C19_map_laws (m : Map) (hs : Sorted m) (k k' v : Bytes) :
    find k (ins k v m) = some v ∧ find k (del k m) = none ∧
    (k' ≠ k → find k' (ins k v m) = find k' m ∧ find k' (del k m) = find k' m) :=
  ⟨find_ins_same k v m, find_del_same hs, fun hne => ⟨find_ins_other v hs hne, find_del_other hs hne⟩⟩

example : BST (put (put (put nil [2] [9] 5) [1] [8] 3) [3] [7] 4) ∧
    toList (put (put (put nil [2] [9] 5) [1] [8] 3) [3] [7] 4) = [([1], [8]), ([2], [9]), ([3], [7])] := by
  decide

/-! ## whole histories, with `Len` and `Size` -/

inductive Op where
  | put (k v : Bytes) (p : Int)
  | del (k : Bytes)

def applyT (t : Treap) : Op → Treap
  | .put k v p => t.put k v p
  | .del k => t.delete k

def applyM (m : Map) : Op → Map
  | .put k v _ => ins k v m
  | .del k => del k m

/-- representation invariant of `Mutable` / `Immutable` -/
def Inv (t : Treap) : Prop :=
  BST t.root ∧ t.count = (toList t.root).length ∧ t.total = sumSize (toList t.root)

theorem inv_step (t : Treap) (op : Op) (h : Inv t) :
    Inv (applyT t op) ∧ toList (applyT t op).root = applyM (toList t.root) op := by
  obtain ⟨hb, hc, hz⟩ := h
  cases op with
  | put k v p =>
    simp only [applyT, applyM, ElaVerif.Treap.Treap.put]
    have hp := C19_put t.root k v p hb
    have hg := C19_get t.root k hb
    cases hroot : t.root with
    | nil =>
      simp only []
      refine ⟨⟨?_, ?_, ?_⟩, ?_⟩ <;> simp [BST, Sorted, toList, ins, sumSize]
    | node l k' v' p' r =>
      simp only []
      rw [← hroot]
      cases hf : get t.root k with
      | some old =>
        simp only []
        refine ⟨⟨hp.2, ?_, ?_⟩, hp.1⟩
        · rw [hp.1, length_ins, ← hg, hf]; exact hc
        · rw [hp.1, sumSize_ins, ← hg, hf, hz]
      | none =>
        simp only []
        refine ⟨⟨hp.2, ?_, ?_⟩, hp.1⟩
        · rw [hp.1, length_ins, ← hg, hf, hc]
        · rw [hp.1, sumSize_ins, ← hg, hf, hz]
  | del k =>
    simp only [applyT, applyM, ElaVerif.Treap.Treap.delete]
    have hd := C19_delete t.root k hb
    have hg := C19_get t.root k hb
    rw [getKey_eq]
    cases hf : get t.root k with
    | none =>
      simp only [Option.map_none]
      refine ⟨⟨hb, hc, hz⟩, ?_⟩
      rw [hf] at hg
      -- erasing an absent key changes nothing
      have : del k (toList t.root) = toList t.root := by
        have h1 := length_del k (toList t.root)
        rw [← hg] at h1
        have hb' : Sorted (toList t.root) := hb
        clear hd hc hz hf hb
        generalize toList t.root = m at hb' hg h1 ⊢
        induction m with
        | nil => rfl
        | cons a m ih =>
          obtain ⟨ak, av⟩ := a
          unfold Sorted at hb'
          rw [List.pairwise_cons] at hb'
          rcases cmp_cases k ak with hc | hc | hc <;> simp only [find, hc] at hg <;> simp only [del, hc]
          · cases hg
          · have h2 := length_del k m
            rw [← hg] at h2
            rw [ih hb'.2 hg h2]
      exact this.symm
    | some old =>
      simp only [Option.map_some]
      cases hroot : t.root with
      | nil => rw [hroot] at hf; simp [ElaVerif.Treap.get] at hf
      | node l k' v' p' r =>
        have hgen : Inv { root := ElaVerif.Treap.delete t.root k, count := t.count - 1,
                          total := t.total - nodeSize k old } ∧
            toList (ElaVerif.Treap.delete t.root k) = del k (toList t.root) := by
          refine ⟨⟨hd.2, ?_, ?_⟩, hd.1⟩
          · show t.count - 1 = _
            rw [hd.1, length_del, ← hg, hf, hc]
          · show t.total - nodeSize k old = _
            rw [hd.1, sumSize_del, ← hg, hf, hz]
        cases l with
        | node a b c d e => simp only []; rw [← hroot]; exact hgen
        | nil =>
          cases r with
          | node a b c d e => simp only []; rw [← hroot]; exact hgen
          | nil =>
            -- the only node is the root and it is the one being deleted
            simp only []
            rw [hroot] at hf hd
            simp only [ElaVerif.Treap.get] at hf
            rcases cmp_cases k k' with hc' | hc' | hc' <;> simp only [hc', ElaVerif.Treap.get] at hf
            · cases hf
            · refine ⟨⟨by simp [BST, Sorted, toList], by simp [toList], by simp [toList, sumSize]⟩, ?_⟩
              simp [toList, del, hc']
            · cases hf

/-- After any sequence of puts and deletes (any priorities) the treap holds
    exactly what the ordered map holds, `Len` is its cardinality and `Size` the
    sum of the node sizes. -/
theorem C19_history (ops : List Op) :
    let t := ops.foldl applyT {}
    toList t.root = ops.foldl applyM [] ∧ BST t.root ∧
      t.count = (ops.foldl applyM []).length ∧ t.total = sumSize (ops.foldl applyM []) := by
  have gen : ∀ (ops : List Op) (t : Treap), Inv t →
      Inv (ops.foldl applyT t) ∧ toList (ops.foldl applyT t).root = ops.foldl applyM (toList t.root) := by
    intro ops
    induction ops with
    | nil => intro t h; exact ⟨h, rfl⟩
    | cons op ops ih =>
      intro t h
      have s := inv_step t op h
      have := ih _ s.1
      simp only [List.foldl_cons]
      rw [← s.2]; exact this
  have h0 : Inv ({} : Treap) := by simp [Inv, BST, Sorted, toList, sumSize]
  have := gen ops {} h0
  simp only [toList] at this
  obtain ⟨⟨hb, hc, hz⟩, he⟩ := this
  exact ⟨he, hb, by rw [hc, he], by rw [hz, he]⟩

example : (([Op.put [1] [5] 7, .put [2] [] 3, .del [1], .put [2] [6, 6] 9]).foldl applyT {}).total = 75 := by
  decide

/-! ## persistence -/

/-- Producing a new version of an immutable treap (by `Put` or `Delete` on any
    retained version, with any priority) leaves every retained version as it
    was.  In the model this is definitional — versions are values — which is
    why the correspondence run re-queries every retained version of the real,
    path-copying implementation after every later update. -/
theorem C19_persistent (vers : Array Treap) (i j : Nat) (hj : j < vers.size) (op : Op) :
    (vers.push (applyT (vers[i]?.getD {}) op))[j]? = vers[j]? := by
  simp [Array.getElem?_push, Nat.ne_of_lt hj]

/-! ## heap order -/

/-- `Put` keeps the min-heap order on priorities. -/
theorem C19_put_heap (t : Tree) (k v : Bytes) (p : Int) (h : Heap t) : Heap (put t k v p) :=
  (putAux_heap t k v p h).1

/-- `Delete` keeps the min-heap order on priorities (since /repo commit "fix: treap Delete rotates
    the child with the lower priority up"; before it the rotate-down loop lifted the child with the
    LARGER priority and this statement was false — witness: root priority 0 with children of
    priority 5 and 3, `corpus/C19/delete_breaks_heap.ops`).  Together with `C19_put_heap`: every
    treap reachable from the empty one by puts and deletes is a heap on the drawn priorities, which
    is what the expected logarithmic depth of a treap rests on. -/
theorem C19_delete_heap (t : Tree) (k : Bytes) (h : Heap t) : Heap (delete t k) :=
  heap_delete t k h

example : Heap (delete (node (node nil [1] [] 5 nil) [2] [] 0 (node nil [3] [] 3 nil)) [2]) := by
  simp [delete, merge, Heap, AllGe]

/-! ## iterators: navigation = list navigation -/

/-- the iterator stands on entry `e`, with `before`/`after` the rest of the in-order list -/
def At (it : Iter) (before : Map) (e : Bytes × Bytes) (after : Map) : Prop :=
  ∃ n, it.node = some n ∧ n.isNil = false ∧ PathOK it.root n it.parents ∧ n.ent = [e] ∧
    posBefore n it.parents = before ∧ posAfter n it.parents = after

theorem At_toList {it : Iter} {b a : Map} {e : Bytes × Bytes} (h : At it b e a) :
    toList it.root = b ++ e :: a ∧ it.key = some e.1 ∧ it.value = some e.2 := by
  obtain ⟨n, h1, h2, h3, h4, h5, h6⟩ := h
  refine ⟨by rw [pos_toList h3, h4, h5, h6]; simp, ?_, ?_⟩ <;>
  · cases n with
    | nil => simp [Tree.isNil] at h2
    | node l k v p r => simp [Tree.ent] at h4; simp [Iter.key, Iter.value, h1, Tree.entry?, ← h4]

/-- result of positioning: exhausted, or standing on `e` -/
def Lands (r : Iter × Bool) (target : Option (Bytes × Bytes)) (start limit : Option Bytes) : Prop :=
  match target with
  | some e =>
    if inRange start limit e.1 then r.2 = true ∧ ∃ b a, At r.1 b e a
    else r.2 = false ∧ r.1.node = none
  | none => r.2 = false ∧ r.1.node = none

theorem lands_of_pos {it : Iter} {pos : Option (Tree × List Frame)} (hp : PosOK it.root pos) :
    Lands (limitIterator (setPos it pos)) (entOf pos) it.start it.limit := by
  cases pos with
  | none => simp [Lands, entOf, setPos, limitIterator]
  | some x =>
    obtain ⟨n, path⟩ := x
    obtain ⟨h1, h2⟩ := hp n path rfl
    cases n with
    | nil => simp [Tree.isNil] at h2
    | node l k v p r =>
      simp only [Lands, entOf, Option.bind_some, Tree.entry?, setPos, limitIterator]
      by_cases hr : inRange it.start it.limit k = true
      · simp only [hr, if_true]
        exact ⟨trivial, _, _, node l k v p r, rfl, rfl, h1, rfl, rfl, rfl⟩
      · simp [hr]

/-- `seek(key, exact, greater=true)` (used by `Seek`, `First` with a start key,
    and `Next` after `ForceReseek`) lands on the first entry with key ≥ `key`
    (> `key` when not exact) if that is inside the iterator's range. -/
theorem C19_iter_seek_ge (it : Iter) (key : Bytes) (exact : Bool) (hs : BST it.root) :
    Lands (it.seek key exact true) (ceil key (!exact) (toList it.root)) it.start it.limit := by
  have h := seekGo_ge (root := it.root) key exact it.root [] none hs rfl (by intro n p h; cases h)
  have := lands_of_pos (it := it) h.1
  rw [h.2] at this
  have e : ∀ x : Option (Bytes × Bytes), orElse' x (entOf none) = x := by intro x; cases x <;> rfl
  rw [e] at this
  simpa [Iter.seek] using this

/-- `seek(key, exact, greater=false)` (used by `Last` with a limit key and `Prev`
    after `ForceReseek`) lands on the last entry with key ≤ `key` (< when not exact). -/
theorem C19_iter_seek_le (it : Iter) (key : Bytes) (exact : Bool) (hs : BST it.root) :
    Lands (it.seek key exact false) (floor key (!exact) (toList it.root)) it.start it.limit := by
  have h := seekGo_le (root := it.root) key exact it.root [] none hs rfl (by intro n p h; cases h)
  have := lands_of_pos (it := it) h.1
  rw [h.2] at this
  have e : ∀ x : Option (Bytes × Bytes), orElse' x (entOf none) = x := by intro x; cases x <;> rfl
  rw [e] at this
  simpa [Iter.seek] using this

/-- `First`: the first entry ≥ start (or the first entry), range-checked. -/
theorem C19_iter_first (it : Iter) (hs : BST it.root) :
    Lands it.first
      (match it.start with
        | some s => ceil s false (toList it.root)
        | none => (toList it.root).head?) it.start it.limit := by
  unfold Iter.first
  cases hst : it.start with
  | some s =>
    simp only []
    have := C19_iter_seek_ge { it with isNew := false, seekKey := none } s true hs
    simpa [hst] using this
  | none =>
    simp only []
    have hpos : PosOK it.root (leftmost it.root []) ∧ entOf (leftmost it.root []) = (toList it.root).head? := by
      cases hr : it.root with
      | nil => simp [leftmost, PosOK, entOf, toList]
      | node l k v p r =>
        obtain ⟨m, path', e1, e2, e3, e4, e5, e6⟩ :=
          leftmost_spec (root := node l k v p r) (node l k v p r) [] rfl rfl
        rw [e1]
        refine ⟨by intro n q h; cases h; exact ⟨e2, e3⟩, ?_⟩
        simp only [above, List.append_nil] at e6
        rw [← e6]
        cases m with
        | nil => simp [Tree.isNil] at e3
        | node a b c d e => simp [entOf, Tree.entry?, Tree.ent]
    have := lands_of_pos (it := { it with isNew := false, seekKey := none }) hpos.1
    rw [hpos.2] at this
    simpa [hst] using this

/-- `Last`: the last entry < limit (or the last entry), range-checked. -/
theorem C19_iter_last (it : Iter) (hs : BST it.root) :
    Lands it.last
      (match it.limit with
        | some l => floor l true (toList it.root)
        | none => (toList it.root).getLast?) it.start it.limit := by
  unfold Iter.last
  cases hst : it.limit with
  | some s =>
    simp only []
    have := C19_iter_seek_le { it with isNew := false, seekKey := none } s false hs
    simpa [hst] using this
  | none =>
    simp only []
    have hpos : PosOK it.root (rightmost it.root []) ∧ entOf (rightmost it.root []) = (toList it.root).getLast? := by
      cases hr : it.root with
      | nil => simp [rightmost, PosOK, entOf, toList]
      | node l k v p r =>
        obtain ⟨m, path', e1, e2, e3, e4, e5, e6⟩ :=
          rightmost_spec (root := node l k v p r) (node l k v p r) [] rfl rfl
        rw [e1]
        refine ⟨by intro n q h; cases h; exact ⟨e2, e3⟩, ?_⟩
        simp only [above, List.nil_append] at e6
        rw [← e6]
        cases m with
        | nil => simp [Tree.isNil] at e3
        | node a b c d e => simp [entOf, Tree.entry?, Tree.ent]
    have := lands_of_pos (it := { it with isNew := false, seekKey := none }) hpos.1
    rw [hpos.2] at this
    simpa [hst] using this

/-- `Next` on a positioned iterator (no pending reseek) moves to the next entry
    of the in-order list, range-checked; at the end it reports exhaustion. -/
theorem C19_iter_next (it : Iter) (b a : Map) (e : Bytes × Bytes) (h : At it b e a)
    (hnew : it.isNew = false) (hsk : it.seekKey = none) :
    match a with
    | [] => it.next.2 = false ∧ it.next.1.node = none
    | e' :: a' =>
      if inRange it.start it.limit e'.1 then it.next.2 = true ∧ At it.next.1 (b ++ [e]) e' a'
      else it.next.2 = false ∧ it.next.1.node = none := by
  obtain ⟨n, h1, h2, h3, h4, h5, h6⟩ := h
  have hstep := stepNext_spec h2 h3
  have hnext : it.next = limitIterator (setPos it (stepNext n it.parents)) := by
    simp only [Iter.next, hnew, h1, hsk, stepNext]
    rcases Bool.eq_false_or_eq_true n.right.isNil with hc | hc <;> simp [hc]
  rw [hnext]
  cases hs : stepNext n it.parents with
  | none =>
    rw [hs] at hstep
    rw [h6] at hstep
    subst hstep
    simp [setPos, limitIterator]
  | some x =>
    obtain ⟨n', path'⟩ := x
    rw [hs] at hstep
    obtain ⟨i1, i2, i3, i4⟩ := hstep
    cases n' with
    | nil => simp [Tree.isNil] at i2
    | node l k v p r =>
      rw [h6] at i4
      simp only [Tree.ent, List.singleton_append] at i4
      subst i4
      simp only [setPos, limitIterator]
      by_cases hr : inRange it.start it.limit k = true
      · simp only [hr, if_true]
        refine ⟨trivial, node l k v p r, rfl, rfl, i1, rfl, ?_, rfl⟩
        rw [i3, h5, h4]
      · simp [hr]

/-- `Prev`, symmetrically. -/
theorem C19_iter_prev (it : Iter) (b a : Map) (e : Bytes × Bytes) (h : At it b e a)
    (hnew : it.isNew = false) (hsk : it.seekKey = none) :
    match b.getLast? with
    | none => it.prev.2 = false ∧ it.prev.1.node = none
    | some e' =>
      if inRange it.start it.limit e'.1 then it.prev.2 = true ∧ At it.prev.1 b.dropLast e' (e :: a)
      else it.prev.2 = false ∧ it.prev.1.node = none := by
  obtain ⟨n, h1, h2, h3, h4, h5, h6⟩ := h
  have hstep := stepPrev_spec h2 h3
  have hprev : it.prev = limitIterator (setPos it (stepPrev n it.parents)) := by
    simp only [Iter.prev, hnew, h1, hsk, stepPrev]
    rcases Bool.eq_false_or_eq_true n.left.isNil with hc | hc <;> simp [hc]
  rw [hprev]
  cases hs : stepPrev n it.parents with
  | none =>
    rw [hs] at hstep
    rw [h5] at hstep
    subst hstep
    simp [setPos, limitIterator]
  | some x =>
    obtain ⟨n', path'⟩ := x
    rw [hs] at hstep
    obtain ⟨i1, i2, i3, i4⟩ := hstep
    cases n' with
    | nil => simp [Tree.isNil] at i2
    | node l k v p r =>
      rw [h5] at i4
      simp only [Tree.ent] at i4
      subst i4
      simp only [List.getLast?_append, List.getLast?_singleton, Option.some_or, setPos, limitIterator]
      by_cases hr : inRange it.start it.limit k = true
      · simp only [hr, if_true]
        refine ⟨trivial, node l k v p r, rfl, rfl, i1, rfl, ?_, ?_⟩
        · simp
        · rw [i3, h6, h4]; rfl
      · simp [hr]

/-- non-vacuity: a three-entry treap, `Seek` then `Next`. -/
example :
    let t := put (put (put nil [2] [9] 5) [1] [8] 3) [3] [7] 4
    let it : Iter := { root := t }
    ((it.seekGE [2]).1.key, ((it.seekGE [2]).1.next).1.key, ((it.seekGE [2]).1.next).1.next.2) =
      (some [2], some [3], false) := by
  decide

end ElaVerif.C19
