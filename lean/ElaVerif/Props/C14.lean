import ElaVerif.Model.Node
import ElaVerif.Lemmas.Node
import ElaVerif.Props.C13
import ElaVerif.Props.C06
import ElaVerif.Lemmas.IndexCongr
import ElaVerif.Lemmas.IndexLedger
/-!
  C14 — the queryable UTXO views agree with the ledger obtained by replaying the active chain.

  The answers of the model (`unspentOf`, `utxoOf`, `txHeight` on `NState.ledger`) are what the real
  node's `GetUnspent` / `GetUTXO` / `GetTransaction` are compared with on every run. The theorems
  below say that, after **any** history of deliveries (extensions, side chains, orphans,
  reorganisations, failed blocks) and submissions, that ledger *is* the replay of the active chain,
  and that zero-value outputs are never listed. How the persistent indexes reach the same answers
  is C13 (`C13_inverse`, connect/disconnect on the index model) plus the differential run.
  Claimed **partial**: transfer-type transactions only; the refinement "index model = ledger" is
  established per block by C13 and by execution, not yet as one theorem over histories.
-/
namespace ElaVerif.C14
open ElaVerif.Index ElaVerif.Node ElaVerif.C06

/-- **C14 (replay).** After any history the ledger the queries are answered from is the replay of
    the active chain, genesis first. -/
theorem C14_ledger_is_replay (P : Params) (g : Block) (ops : List Op) :
    (run (initState P g) ops).ledger = replay (chainOf (run (initState P g) ops)) := by
  have hgood := good_run _ ops (good_init P g)
  have hg : ∀ (s : NState) (ops : List Op), s.gledger = applyBlock {} s.genesis →
      (run s ops).gledger = applyBlock {} (run s ops).genesis := by
    intro s ops
    induction ops generalizing s with
    | nil => intro h; exact h
    | cons op r ih =>
      intro h
      cases op with
      | deliver b => exact ih _ (by rw [gledger_processBlock, genesis_processBlock]; exact h)
      | submit tx => exact ih _ (by rw [gledger_submit, genesis_submit]; exact h)
  rw [ledger_eq_below]
  exact ledgerBelow_eq_replay _ _ (hg _ ops rfl) _ hgood.stack

/-- **C14 (no zero).** A per-address answer lists only outputs of that address with a non-zero value. -/
theorem C14_no_zero (L : Ledger) (a : Nat) : ∀ e ∈ utxoOf L a, e.addr = a ∧ e.value ≠ 0 := by
  intro e he
  unfold utxoOf at he
  have := (List.mem_filter.mp he).2
  simp only [Bool.and_eq_true, beq_iff_eq, bne_iff_ne] at this
  exact this

/-- every unspent output of the replayed chain with a non-zero value is listed under its address -/
theorem C14_complete (L : Ledger) (e : UEntry) (he : e ∈ L.utxos) (hv : e.value ≠ 0) : e ∈ utxoOf L e.addr := by
  unfold utxoOf
  exact List.mem_filter.mpr ⟨he, by simp [hv]⟩

/-- the per-transaction answer is exactly the unspent outputs of that transaction -/
theorem C14_unspent_iff (L : Ledger) (t i : Nat) :
    i ∈ unspentOf L t ↔ ∃ e ∈ L.utxos, e.txid = t ∧ e.idx = i := by
  unfold unspentOf
  constructor
  · intro h
    obtain ⟨e, he, rfl⟩ := List.mem_map.mp h
    exact ⟨e, (List.mem_filter.mp he).1, by simpa using (List.mem_filter.mp he).2, rfl⟩
  · rintro ⟨e, he, rfl, rfl⟩
    exact List.mem_map.mpr ⟨e, List.mem_filter.mpr ⟨he, by simp⟩, rfl⟩

/-- the persistent-index side (proved in C13): connect followed by disconnect restores every
    index observation, so a reorganisation leaves the indexes as a direct build would -/
theorem C14_index_step (s : State) (b : Block) (hv : C13.ValidOn s b) :
    ∃ s1 s2, connect s b = .ok s1 ∧ disconnect s1 b = .ok s2 ∧ C13.Equiv s2 s :=
  C13.C13_inverse s b hv

/-- **C14 (whole histories, persistent indexes).** Whatever sequence of block connections (each block valid
    on the state it meets) and disconnections of the tip block the index model has gone through, every
    observation — unspent lists and per-address lists up to order, tx index, side-chain hashes, deposit
    returns, drafts, tip and height — is the one of the state built by connecting the blocks of the current
    stack directly, in order. In particular a reorganisation leaves the indexes as a direct build of the new
    chain would. -/
theorem C14_history_is_direct_build {s0 s : State} {st : List Block} (h : Reach s0 s st) :
    ∃ d, Direct s0 st d ∧ C13.Equiv s d :=
  reach_equiv_direct h

/-- on such a state the disconnect of the tip block always succeeds -/
theorem C14_disconnect_never_fails {s0 s : State} {st : List Block} {b : Block} (h : Reach s0 s (b :: st)) :
    ∃ s', disconnect s b = .ok s' :=
  reach_disconnect_ok h

/-- **C14 (whole histories, `GetUnspent` and `GetTransaction` against the replayed ledger).** Let the persistent
    indexes start in a state that answers both queries like a ledger `L0` (e.g. the genesis state). After ANY
    history of connects (blocks valid on the state they meet, RegisterAsset transactions without outputs) and
    disconnects of the tip block, `GetUnspent t` is — up to order — the list of unspent output indexes of `t` in
    the ledger obtained by replaying the blocks of the current chain on `L0`, and `GetTransaction t` reports the
    height the replay gives. (The per-address view is compared by execution only.) -/
theorem C14_history_refines_ledger {s0 s : State} {L0 : Ledger} {st : List Block} (h : Reach s0 s st)
    (hu : AbsU s0 L0) (ht : AbsT s0 L0)
    (hreg0 : ∀ b ∈ st, ∀ tx ∈ b.txs, tx.kind = .registerAsset → tx.outs = []) :
    (∀ t, (getUnspent s t).Perm (unspentOf (st.reverse.foldl applyBlock L0) t)) ∧
    (∀ t, (s.txs.get t).map (·.1) = txHeight (st.reverse.foldl applyBlock L0) t) := by
  obtain ⟨d, hd, he⟩ := reach_equiv_direct h
  have h1 := direct_absU hd hu hreg0
  have h2 := direct_absT hd ht
  exact ⟨fun t => (he.unspent t).trans (h1.unspent t), fun t => by rw [he.txs t]; exact h2 t⟩

/-- the empty index state and the empty ledger agree, so the theorem applies from the very beginning -/
example : AbsU { tip := 0, height := 0 } {} ∧ AbsT { tip := 0, height := 0 } {} :=
  ⟨⟨fun _ => List.Perm.refl _, fun _ => List.nodup_nil⟩, fun _ => rfl⟩

/-- non-vacuity: connect, disconnect, connect again on the C13 example is a history -/
example : ∃ s1 s2 s3, Reach C13.exState s3 [C13.exBlock] ∧ connect C13.exState C13.exBlock = .ok s1 ∧
    disconnect s1 C13.exBlock = .ok s2 ∧ connect s2 C13.exBlock = .ok s3 := by
  obtain ⟨s1, s2, hc, hd, he⟩ := C13.C13_inverse _ _ C13.C13_validOn_example
  have hv2 : C13.ValidOn s2 C13.exBlock := validOn_of_equiv C13.C13_validOn_example he
  obtain ⟨s3, _, hc3, _, _⟩ := C13.C13_inverse _ _ hv2
  exact ⟨s1, s2, s3, .conn (.disc (.conn .base C13.C13_validOn_example hc) hd) hv2 hc3, hc, hd, hc3⟩

example : utxoOf (replay [exG, exB1]) 2 = [{ txid := 21, idx := 0, addr := 2, value := 900, height := 1, cb := false }] := by
  decide
example : unspentOf (replay [exG, exB1]) 10 = [] := by decide
example : txHeight (replay [exG, exB1]) 21 = some 1 := by decide

end ElaVerif.C14
