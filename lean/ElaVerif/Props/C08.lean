import ElaVerif.Model.PartialMerkle
import ElaVerif.Lemmas.PartialMerkle
import ElaVerif.Lemmas.PartialMerkleEnc
/-!
# C08 — SPV merkle proofs are sound and complete

Model (`ElaVerif.PMT`): `build` = `MBlock.TraverseAndBuild`, `extract`/`extractTop` = the recursive
specification parser, `machine` = the stack machine of `CheckMerkleBlock` / `getNodes` (generic in the
position representation: `goOps` = Go's `uint32` position arithmetic, `treeOps` = (height, index)
pairs), `branchOf` = `GetTxMerkleBranch`.  The node hash `H` is a parameter; collision freedom is the
explicit hypothesis `Injective2 H`.

Proved for all inputs: completeness and soundness of the recursive pair; that the stack machine of
`CheckMerkleBlock` computes the recursive parser — first on (height, index) positions by a forward
simulation (`sim`), then for Go's bit-twiddled position numbers (`pos|1`, `pos>>1|msb`,
`(pos^msb)<<1`, `inDeadZone`) by showing that they are the image of tree positions under
`enc (h, i) = 2^(D+1) − 2^(D+1−h) + i` (`EncLaws`, `encLaws`).  Position arithmetic is on `Nat`;
Go's `uint32` agrees for transaction counts up to 2^30; since the `fix:` commit 4d1f67bc the code
rejects counts above `pact.MaxTxPerBlock` (`maxTx`, 10000 by default) first, and so does the model.
`GetTxMerkleBranch` is covered too (`C08_branch_real`): the node table of `getNodes` equals the
recursive parser's table under the position encoding, holds the full-tree hashes, contains the leaf of
every matched transaction and its route nodes, `calcTxIndex` finds the leaf, and the collection loop
returns the ideal branch.
-/
namespace ElaVerif.C08
open ElaVerif.Merkle ElaVerif.PMT

variable {α : Type} [DecidableEq α]

omit [DecidableEq α] in
theorem build_bits_ne_nil (H : α → α → α) (txs : List α) (matched : List Bool) (h pos : Nat) :
    (build H txs matched h pos).1 ≠ [] := by
  cases h with
  | zero => simp [build]
  | succ h =>
    simp only [build]
    split
    · simp
    · split <;> simp

/-- **Completeness** (recursive pair).  For a duplicate-free transaction list and any match pattern,
    parsing the partial tree that `TraverseAndBuild` emits — with any flag padding `pad` after it —
    against the block's merkle root succeeds and returns exactly the matched transactions, in block
    order. -/
theorem C08_complete {H : α → α → α} (hinj : Injective2 H) (maxTx : Nat) (txs : List α) (matched : List Bool)
    (hnd : txs.Nodup) (hne : txs ≠ []) (hmax : txs.length ≤ maxTx) (pad : List Bool) :
    ∃ root hs, calcHash H txs (treeHeight txs.length) 0 = some root ∧
      (build H txs matched (treeHeight txs.length) 0).2 = hs.map some ∧
      (extractTop H maxTx txs.length root ((build H txs matched (treeHeight txs.length) 0).1 ++ pad) hs).ids =
        .ok (matchedList txs matched) := by
  have hn : 0 < txs.length := List.length_pos_iff.mpr hne
  obtain ⟨x, hs, hc, hb, he⟩ := extract_build hinj txs matched hnd (treeHeight txs.length) 0
    (root_alive _ _ hn)
  refine ⟨x, hs, hc, hb, ?_⟩
  obtain ⟨s, hes, h1, h2, _, _⟩ := he pad []
  rw [List.append_nil] at hes
  unfold extractTop
  have hn' : ¬ txs.length = 0 := by omega
  have hm' : ¬ txs.length > maxTx := by omega
  have hbits : ((build H txs matched (treeHeight txs.length) 0).1 ++ pad).isEmpty = false := by
    have := build_bits_ne_nil H txs matched (treeHeight txs.length) 0
    cases hb' : (build H txs matched (treeHeight txs.length) 0).1 with
    | nil => exact absurd hb' this
    | cons _ _ => simp
  simp only [hn', if_false, hm', hbits, hes, h1, if_true, PRes.ids, h2, matchedIds_top]
  simp

/-- **Soundness** (recursive parser, honest transaction count).  If parsing an *arbitrary* message
    succeeds against the merkle root of `txs`, every returned id is a transaction of the block and
    they come in block order (`Sublist`). -/
theorem C08_sound {H : α → α → α} (hinj : Injective2 H) (maxTx : Nat) (txs : List α) (root : α)
    (hroot : calcHash H txs (treeHeight txs.length) 0 = some root)
    (bits : List Bool) (hashes ids : List α)
    (hok : (extractTop H maxTx txs.length root bits hashes).ids = .ok ids) : ids.Sublist txs := by
  unfold extractTop at hok
  by_cases hn : txs.length = 0
  · simp [hn, PRes.ids] at hok
  · by_cases hm : txs.length > maxTx
    · simp [hn, hm, PRes.ids] at hok
    · by_cases hb : bits.isEmpty = true
      · simp [hn, hm, hb, PRes.ids] at hok
      · simp only [hn, if_false, hm, hb, Bool.false_eq_true] at hok
        cases he : extract H txs.length (treeHeight txs.length) 0 bits hashes with
        | error e => simp [he, PRes.ids] at hok
        | ok s =>
          simp only [he] at hok
          by_cases hr : s.hash = root
          · simp only [hr, if_true, PRes.ids, PRes.ok.injEq] at hok
            subst hok
            have := extract_sound hinj txs _ 0 bits hashes s root he hroot hr
            refine this.trans ?_
            unfold seg
            simp only [Nat.zero_mul, List.drop_zero]
            exact List.take_sublist _ _
          · simp [hr, PRes.ids] at hok

/-- **The loop computes the specification.**  The stack machine of `CheckMerkleBlock` with Go's
    position arithmetic returns exactly what the recursive parser returns, for every message
    (valid or not) and every fuel above some bound. -/
theorem C08_loop_refines (H : α → α → α) (maxTx n : Nat) (root : α) (bits : List Bool) (hashes : List α) :
    ∃ k, ∀ f, (machine (goOps n) H maxTx n root bits hashes (k + f)).ids =
      (extractTop H maxTx n root bits hashes).ids :=
  go_machine_refines H maxTx n root bits hashes

/-- the same on (height, index) positions (the control-structure half of the proof) -/
theorem C08_loop_refines_tree (H : α → α → α) (maxTx n : Nat) (root : α) (bits : List Bool) (hashes : List α) :
    ∃ k, ∀ f, (machine (treeOps n) H maxTx n root bits hashes (k + f)).ids =
      (extractTop H maxTx n root bits hashes).ids :=
  machine_refines H maxTx n root bits hashes

/-- **Round trip through the real loop.**  What the node builds, `CheckMerkleBlock`'s loop turns back
    into exactly the matched transactions, in block order. -/
theorem C08_roundtrip {H : α → α → α} (hinj : Injective2 H) (maxTx : Nat) (txs : List α) (matched : List Bool)
    (hnd : txs.Nodup) (hne : txs ≠ []) (hmax : txs.length ≤ maxTx) (pad : List Bool) :
    ∃ root hs k, calcHash H txs (treeHeight txs.length) 0 = some root ∧
      (build H txs matched (treeHeight txs.length) 0).2 = hs.map some ∧
      ∀ f, (machine (goOps txs.length) H maxTx txs.length root
              ((build H txs matched (treeHeight txs.length) 0).1 ++ pad) hs (k + f)).ids =
            .ok (matchedList txs matched) := by
  obtain ⟨root, hs, h1, h2, h3⟩ := C08_complete hinj maxTx txs matched hnd hne hmax pad
  obtain ⟨k, hk⟩ := go_machine_refines H maxTx txs.length root
    ((build H txs matched (treeHeight txs.length) 0).1 ++ pad) hs
  exact ⟨root, hs, k, h1, h2, fun f => (hk f).trans h3⟩

/-- **Round trip on the wire form**: the flag *bytes* `NewMerkleBlock` packs (LSB first, zero padded),
    unpacked bit by bit as the loop reads them, with the hashes `TraverseAndBuild` emitted, make
    `CheckMerkleBlock`'s loop return exactly the matched transactions. -/
theorem C08_roundtrip_bytes {H : α → α → α} (hinj : Injective2 H) (maxTx : Nat) (txs : List α)
    (matched : List Bool) (hnd : txs.Nodup) (hne : txs ≠ []) (hmax : txs.length ≤ maxTx) :
    ∃ root hs k, calcHash H txs (treeHeight txs.length) 0 = some root ∧
      (build H txs matched (treeHeight txs.length) 0).2 = hs.map some ∧
      ∀ f, (machine (goOps txs.length) H maxTx txs.length root
              (unpackFlags (packFlags ((build H txs matched (treeHeight txs.length) 0).1.length + 1)
                (build H txs matched (treeHeight txs.length) 0).1)) hs (k + f)).ids =
            .ok (matchedList txs matched) := by
  obtain ⟨pad, hp⟩ := unpack_pack ((build H txs matched (treeHeight txs.length) 0).1.length + 1)
    (build H txs matched (treeHeight txs.length) 0).1 (by omega)
  rw [hp]
  exact C08_roundtrip hinj maxTx txs matched hnd hne hmax pad

/-- **Soundness of the real loop**: whatever message makes `CheckMerkleBlock`'s loop succeed against
    the block's merkle root (honest count) yields only transactions of the block, in block order. -/
theorem C08_loop_sound {H : α → α → α} (hinj : Injective2 H) (maxTx : Nat) (txs : List α) (root : α)
    (hroot : calcHash H txs (treeHeight txs.length) 0 = some root)
    (bits : List Bool) (hashes ids : List α) :
    ∃ k, ∀ f, (machine (goOps txs.length) H maxTx txs.length root bits hashes (k + f)).ids = .ok ids →
      ids.Sublist txs := by
  obtain ⟨k, hk⟩ := go_machine_refines H maxTx txs.length root bits hashes
  exact ⟨k, fun f hok => C08_sound hinj maxTx txs root hroot bits hashes ids ((hk f).symm.trans hok)⟩

/-! ## non-vacuity and the role of the hypotheses -/

inductive FT where
  | leaf (n : Nat)
  | node (l r : FT)
  deriving DecidableEq, Repr

theorem ft_injective : Injective2 FT.node := by
  intro a b c d h; cases h; exact ⟨rfl, rfl⟩

/-- five transactions, the 2nd and 5th matched: the partial tree, and its parse by the recursive
    parser, by the machine on tree positions and by the machine on Go position numbers. -/
def exTxs : List FT := [.leaf 1, .leaf 2, .leaf 3, .leaf 4, .leaf 5]
def exMatched : List Bool := [false, true, false, false, true]

example : treeHeight 5 = 3 ∧ treeDepth 5 = 3 := by decide
example : (build FT.node exTxs exMatched 3 0).1 =
    [true, true, true, false, true, false, true, true, true] := by decide
def exRoot : FT :=
  .node (.node (.node (.leaf 1) (.leaf 2)) (.node (.leaf 3) (.leaf 4)))
        (.node (.node (.leaf 5) (.leaf 5)) (.node (.leaf 5) (.leaf 5)))
def exHs : List FT := [.leaf 1, .leaf 2, .node (.leaf 3) (.leaf 4), .leaf 5]

example : calcHash FT.node exTxs 3 0 = some exRoot := by decide
example : (build FT.node exTxs exMatched 3 0).2 = exHs.map some := by decide
example : (extractTop FT.node 10000 5 exRoot (build FT.node exTxs exMatched 3 0).1 exHs).ids =
    .ok [.leaf 2, .leaf 5] := by decide
example : (machine (treeOps 5) FT.node 10000 5 exRoot (build FT.node exTxs exMatched 3 0).1 exHs 100).ids =
    .ok [.leaf 2, .leaf 5] := by decide
example : (machine (goOps 5) FT.node 10000 5 exRoot (build FT.node exTxs exMatched 3 0).1 exHs 100).ids =
    .ok [.leaf 2, .leaf 5] := by decide

/-- `Nodup` is needed for completeness: with a repeated transaction id the sibling check
    ("DUP HASH CRASH") rejects the honest proof. -/
example : calcHash FT.node [.leaf 1, .leaf 1] 1 0 = some (.node (.leaf 1) (.leaf 1)) ∧
    (build FT.node [.leaf 1, .leaf 1] [true, false] 1 0).2 = [some (.leaf 1), some (.leaf 1)] ∧
    (extractTop FT.node 10000 2 (.node (.leaf 1) (.leaf 1)) (build FT.node [.leaf 1, .leaf 1] [true, false] 1 0).1
      [.leaf 1, .leaf 1]).ids = .err .dup := by
  refine ⟨by decide, by decide, by decide⟩

/-- **Merkle branch.**  For every transaction `i` of the block, the branch that `calcBranchRoute`
    prescribes — at each level the sibling of the ancestor, or the ancestor itself in the dead zone,
    with the `Index` bit set when the route node's number is even — evaluated by
    `auxpow.GetMerkleRoot` recomputes the block's merkle root.  (Hashes are those of the full tree;
    that `getNodes`' table returns exactly these for a matched transaction is tied by the
    `branchrt` correspondence stream, not by a theorem.) -/
theorem C08_branch (H : α → α → α) (zero : α) (txs : List α) (i : Nat) (hi : i < txs.length) :
    ∃ sibs root, idealSibs H txs (treeDepth txs.length) 0 i = sibs.map some ∧
      calcHash H txs (treeDepth txs.length) 0 = some root ∧
      branchRoot H zero txs[i] sibs (idealIndex txs.length (treeDepth txs.length) 0 i) = root := by
  have hx : calcHash H txs 0 i = some txs[i] := by simp [calcHash, List.getElem?_eq_getElem hi]
  obtain ⟨sibs, y, h1, h2, h3⟩ := branch_fold_ideal H txs (treeDepth txs.length) 0 i txs[i]
    (by rw [width_zero]; exact hi) hx
  have hn2 : txs.length ≤ 2 ^ treeDepth txs.length := by
    rw [← treeHeight_eq_depth]; exact treeHeight_spec _
  have h0 : i / 2 ^ treeDepth txs.length = 0 := Nat.div_eq_of_lt (by omega)
  rw [Nat.zero_add, h0] at h2
  refine ⟨sibs, y, h1, h2, ?_⟩
  unfold branchRoot
  have : ¬ ((idealIndex txs.length (treeDepth txs.length) 0 i : Nat) : Int) = -1 := by omega
  rw [if_neg this]
  exact h3

omit [DecidableEq α] in
theorem map_some_inj : ∀ (a b : List α), a.map some = b.map some → a = b
  | [], [], _ => rfl
  | [], _ :: _, h => by simp at h
  | _ :: _, [], h => by simp at h
  | x :: a, y :: b, h => by
      simp only [List.map_cons, List.cons.injEq, Option.some.injEq] at h
      rw [h.1, map_some_inj a b h.2]

/-- **The real `GetTxMerkleBranch`.**  For a block with duplicate-free transactions, an injective node
    hash under which no transaction id is a node hash, and a *matched* transaction `i`: run on the merkle
    block the node built (any flag padding), `GetTxMerkleBranch` — stack machine with Go positions, the
    `getNodes` table, `calcTxIndex`, `calcBranchRoute`/`calcNodeIndex`, the collection loop — returns a branch
    and index that `auxpow.GetMerkleRoot` evaluates to the block's merkle root. -/
theorem C08_branch_real {H : α → α → α} (hinj : Injective2 H) (zero : α) (maxTx : Nat) (txs : List α)
    (matched : List Bool) (hnd : txs.Nodup) (hne : txs ≠ []) (hmax : txs.length ≤ maxTx)
    (hsep : ∀ a b, H a b ∉ txs) (i : Nat) (hi : i < txs.length) (hm : matched[i]?.getD false = true)
    (pad : List Bool) :
    ∃ root hs sibs idx k, calcHash H txs (treeDepth txs.length) 0 = some root ∧
      (build H txs matched (treeHeight txs.length) 0).2 = hs.map some ∧
      (∀ f, branchOf H maxTx txs.length root ((build H txs matched (treeHeight txs.length) 0).1 ++ pad) hs
              txs[i] (k + f) = .ok (sibs, idx)) ∧
      branchRoot H zero txs[i] sibs idx = root := by
  obtain ⟨root, hs, sibs, k, h1, h2, h3, h4⟩ :=
    branchOf_build hinj maxTx txs matched hnd hne hmax hsep i hi hm pad
  obtain ⟨sibs', root', g1, g2, g3⟩ := C08_branch H zero txs i hi
  have e1 : sibs' = sibs := by
    have := g1.symm.trans h3
    exact map_some_inj _ _ this
  have e2 : root' = root := Option.some.inj (g2.symm.trans h1)
  subst e1 e2
  exact ⟨root', hs, sibs', _, k, h1, h2, h4, g3⟩

/-- `calcNodeIndex` is the position encoding and `calcBranchRoute` lists the encoded ideal route. -/
theorem C08_route_encodes (n ti : Nat) :
    route n ti (treeDepth n) 0 =
      (List.range (treeDepth n)).map (fun t => encD (treeDepth n) (t, routeIdx n t (ti >>> t))) := by
  rw [route_eq]
  apply List.map_congr_left
  intro t ht
  simp only [Nat.zero_add]
  exact nodeIndex_eq_enc n t _ (by have := List.mem_range.mp ht; omega)

/-- non-vacuity: branch of transaction 5 of 5 (dead zone on two levels) in the free algebra. -/
example : idealSibs FT.node exTxs 3 0 4 =
    [some (.leaf 5), some (.node (.leaf 5) (.leaf 5)),
     some (.node (.node (.leaf 1) (.leaf 2)) (.node (.leaf 3) (.leaf 4)))] ∧
    idealIndex 5 3 0 4 = 7 ∧
    branchRoot FT.node (.leaf 0) (.leaf 5)
      [.leaf 5, .node (.leaf 5) (.leaf 5), .node (.node (.leaf 1) (.leaf 2)) (.node (.leaf 3) (.leaf 4))] 7 = exRoot := by
  refine ⟨by decide, by decide, by decide⟩

/-- Soundness needs the *honest* transaction count: a peer that claims 2 transactions for a block of 4
    gets the two inner nodes accepted as "transaction ids" against the true root.  (Protocol limit
    shared with Bitcoin's merkleblock; the client must match ids against real transactions.) -/
theorem C08_sound_claimed_count_false :
    ¬ (∀ (txs : List FT) (claimed : Nat) (root : FT) (bits : List Bool) (hashes ids : List FT),
        calcHash FT.node txs (treeHeight txs.length) 0 = some root →
        (extractTop FT.node 10000 claimed root bits hashes).ids = .ok ids → ∀ id ∈ ids, id ∈ txs) := by
  intro h
  have := h [.leaf 1, .leaf 2, .leaf 3, .leaf 4] 2
    (.node (.node (.leaf 1) (.leaf 2)) (.node (.leaf 3) (.leaf 4)))
    [true, true, true] [.node (.leaf 1) (.leaf 2), .node (.leaf 3) (.leaf 4)]
    [.node (.leaf 1) (.leaf 2), .node (.leaf 3) (.leaf 4)] (by decide) (by decide)
    (.node (.leaf 1) (.leaf 2)) (by simp)
  exact absurd this (by decide)

end ElaVerif.C08
