import ElaVerif.Lemmas.DepositInv
import ElaVerif.Model.CRDeposit
import ElaVerif.Gen.C28
/-!
# C28 — deposits and vote rights are never overdrawn  (claimed **partial**)

Theorems about the abstract account machine of `Model/Deposit.lean`, which mirrors the
checks (`SpecialContextCheck` of ReturnDepositCoin / CancelProducer / Voting / ReturnVotes,
evaluated on the pre-block state) and the bookkeeping of `dpos/state/state.go`
(two-phase: decisions on the pre-block state, queued updates in order).
The tie to the Go code is the correspondence run of `harness/cmd/c28` (real `State`,
real context checks) against `Driver/C28.lean`.

Full-strength statement (every block the node accepts preserves the invariant):
`FullStrength`.  It is FALSE of the model and of the real code — two returns of one
producer (or two vote-right consuming transactions of one stake address) inside one block
are each validated against the same pre-block state: `C28_two_returns_false`,
`C28_two_votes_false` (witnesses replayed on the real code from `corpus/C28/`).
What is proved for all histories is `C28_inv_partial` / `C28_reachable_partial`, under the
hypothesis the proof forces: `Guarded` = at most one available-lowering transaction per
producer and at most one right-consuming transaction per stake address in a block
(the mempool's conflict slots enforce exactly this for pool-built blocks; block
validation does not).
-/
namespace ElaVerif.C28
open ElaVerif.Deposit

/-- the invariant: for every producer account the penalty is non-negative, the lock is
    covered (`deposit ≤ total`, i.e. withdrawals never touch the lock: `withdrawn ≤
    deposited − lock`, `total = cin − cout`); for every stake address
    `0 ≤ used ≤ rights`, `used` is the sum of the live votes and every live vote is positive. -/
def Inv (s : State) : Prop :=
  (∀ o a, get o s.accts = some a → AcctOK a) ∧ (∀ k t, get k s.stakes = some t → StakeOK t)

/-- at most one available-lowering tx (return / evidence) per producer and at most one
    right-consuming tx (vote / return-votes) per stake address in the block. -/
def Guarded (txs : List Tx) : Prop :=
  (∀ o, (txs.filter (isDebit o)).length ≤ 1) ∧ (∀ k, (txs.filter (isConsumer k)).length ≤ 1)

def ParamsOK (P : Params) : Prop := 0 ≤ P.minDeposit ∧ 0 ≤ P.retvFee

/-- The property at full strength: every accepted block preserves the invariant. -/
def FullStrength : Prop :=
  ∀ (P : Params) (h : Nat) (s : State) (txs : List Tx) (s' : State),
    ParamsOK P → Inv s → (∀ tx ∈ txs, envOK tx) → applyBlock P h s txs = some s' → Inv s'

theorem chkA_of_check (P : Params) (h : Nat) (s : State) (o : Nat) (tx : Tx)
    (hc : check P h s tx = none) : chkA o (get o s.accts) tx := by
  cases tx with
  | ret o' inp tinp change out =>
    intro ho; subst ho
    simp only [check] at hc
    cases hg : get o' s.accts with
    | none => simp [hg] at hc
    | some a =>
      simp only [hg] at hc
      split at hc
      · cases hc
      · rename_i hn
        exact ⟨a, rfl, by omega, by omega⟩
  | _ => trivial

theorem chkS_of_check (P : Params) (hfee : 0 ≤ P.retvFee) (h : Nat) (s : State) (k : Nat) (tx : Tx)
    (hc : check P h s tx = none) : chkS P.retvFee k (get k s.stakes) tx := by
  cases tx with
  | vote k' lock vs bad =>
    intro hk; subst hk
    simp only [check] at hc
    split at hc
    · cases hc
    · rename_i hany
      cases hg : get k' s.stakes with
      | none => simp [hg] at hc
      | some t =>
        simp only [hg] at hc
        split at hc
        · cases hc
        · split at hc
          · cases hc
          · rename_i hsum
            refine ⟨t, rfl, ?_, by omega⟩
            intro v hv
            have : ¬ (v ≤ 0) := by
              intro hle
              apply hany
              exact List.any_eq_true.mpr ⟨v, hv, by simpa using hle⟩
            omega
  | renew k' ol am nl bo =>
    intro hk; subst hk
    simp only [check] at hc
    cases hg : get k' s.stakes with
    | none => simp [hg] at hc
    | some t =>
      simp only [hg] at hc
      split at hc
      · cases hc
      · rename_i hmem
        exact ⟨t, rfl, by simpa using hmem⟩
  | retv k' v =>
    intro hk; subst hk
    simp only [check] at hc
    split at hc
    · cases hc
    · rename_i hsmall
      cases hg : get k' s.stakes with
      | none =>
        simp only [hg] at hc
        split at hc
        · cases hc
        · omega
      | some t =>
        simp only [hg] at hc
        split at hc
        · cases hc
        · exact ⟨by omega, t, rfl, by omega⟩
  | _ => trivial

/-- **Partial** (guarded) form of the property: a block accepted by the context checks in
    which no producer has two available-lowering transactions and no stake address two
    right-consuming transactions preserves the invariant.
    Missing for full strength: the guard — see `C28_two_returns_false`. -/
theorem C28_inv_partial (P : Params) (h : Nat) (s : State) (txs : List Tx) (s' : State)
    (hP : ParamsOK P) (hinv : Inv s) (henv : ∀ tx ∈ txs, envOK tx) (hg : Guarded txs)
    (hb : applyBlock P h s txs = some s') : Inv s' := by
  unfold applyBlock at hb
  split at hb
  · rename_i hall
    have hchk : ∀ tx ∈ txs, check P h s tx = none := by
      intro tx htx
      have := List.all_eq_true.mp hall tx htx
      simpa using this
    cases hb
    constructor
    · intro o a' ha'
      simp only [applyTxs, endBlock, get_mapKV, get_foldl_accts] at ha'
      have hfold := fold_acct_ok P h o (get o s.accts) txs (get o s.accts) henv
        (fun tx htx => chkA_of_check P h s o tx (hchk tx htx)) (hg.1 o)
        (by cases hg0 : get o s.accts with
            | none => trivial
            | some a => exact hinv.1 o a hg0)
        (fun _ a0 ha0 => ⟨a0, ha0, Int.le_refl _⟩)
      cases hf : txs.foldl (fun a? tx => projA P h o (get o s.accts) tx a?) (get o s.accts) with
      | none => simp [hf] at ha'
      | some a =>
        rw [hf] at ha' hfold
        simp only [Option.map, Option.some.injEq] at ha'
        subst ha'
        cases h0 : get o s.accts with
        | none => exact hfold
        | some a0 => exact endAcct_ok P h hP.1 a0 a hfold
    · intro k t' ht'
      simp only [applyTxs, endBlock, get_mapKV, get_foldl_stakes] at ht'
      have hfold := fold_stake_ok k P.retvFee (get k s.stakes) txs (get k s.stakes) henv
        (fun tx htx => chkS_of_check P hP.2 h s k tx (hchk tx htx)) (hg.2 k)
        (by cases hg0 : get k s.stakes with
            | none => trivial
            | some t => exact hinv.2 k t hg0)
        (fun _ t0 ht0 => ⟨t0, ht0, Int.le_refl _, rfl⟩)
      cases hf : txs.foldl (fun t? tx => projS k tx t?) (get k s.stakes) with
      | none => simp [hf] at ht'
      | some t =>
        rw [hf] at ht' hfold
        simp only [Option.map, Option.some.injEq] at ht'
        subst ht'
        exact expireStake_ok h t hfold
  · cases hb

/-- states reachable from the empty state through guarded, accepted blocks (any heights). -/
inductive Reachable (P : Params) : State → Prop
  | init : Reachable P State.empty
  | block (h : Nat) (s : State) (txs : List Tx) (s' : State) :
      Reachable P s → (∀ tx ∈ txs, envOK tx) → Guarded txs → applyBlock P h s txs = some s' → Reachable P s'

/-- **Partial**: over all histories of guarded blocks the invariant holds: the lock of every
    producer stays covered (`deposit ≤ total`), withdrawals are bounded by deposits minus
    lock (`cout ≤ cin − deposit`), and `0 ≤ used ≤ rights` for every stake address. -/
theorem C28_reachable_partial (P : Params) (hP : ParamsOK P) (s : State) (hr : Reachable P s) : Inv s := by
  induction hr with
  | init => exact ⟨fun o a h => by simp [State.empty, Deposit.get] at h, fun k t h => by simp [State.empty, Deposit.get] at h⟩
  | block h s txs s' _ henv hg hb ih => exact C28_inv_partial P h s txs s' hP ih henv hg hb

/-- consequence in the words of the property: withdrawn ≤ deposited − lock, and used ≤ rights. -/
theorem C28_withdrawn_le_partial (P : Params) (hP : ParamsOK P) (s : State) (hr : Reachable P s)
    (o : Nat) (a : Acct) (ha : get o s.accts = some a) : a.cout ≤ a.cin - a.deposit := by
  obtain ⟨_, h2, h3⟩ := (C28_reachable_partial P hP s hr).1 o a ha
  omega

theorem C28_used_le_rights_partial (P : Params) (hP : ParamsOK P) (s : State) (hr : Reachable P s)
    (k : Nat) (t : Stake) (ht : get k s.stakes = some t) : 0 ≤ t.used ∧ t.used ≤ t.rights := by
  obtain ⟨h1, h2, _, _⟩ := (C28_reachable_partial P hP s hr).2 k t ht
  exact ⟨h1, h2⟩

/-! ## the excluded point: witnesses (replayed on the real code from `corpus/C28/`) -/

def wP : Params := ⟨3, 500000000000, 100, 10000, 5, 1000⟩

def wAcct : Acct :=
  { total := 900000000000, deposit := 500000000000, penalty := 0, st := .active, mP := false, mA := true,
    mL := false, mC := false, v2 := false, regH := 1, cancelH := 0, cin := 900000000000, cout := 0 }

def wS : State := ⟨[(0, wAcct)], [(0, ⟨100000000000, 0, []⟩)]⟩

/-- two ReturnDepositCoin of producer 0 in one block: 3000 + 2000 ELA against 4000 available. -/
def wRets : List Tx :=
  [.ret 0 500000000000 500000000000 200000000000 299999999900, .ret 0 200000000000 200000000000 0 199999999900]

/-- two Voting txs of stake address 0 in one block: 600 + 600 ELA against 1000 ELA of rights. -/
def wVotes : List Tx := [.vote 0 30 [60000000000] none, .vote 0 30 [60000000000] none]

theorem wS_inv : Inv wS := by
  constructor
  · intro o a h
    simp only [wS, Deposit.get] at h
    split at h
    · cases h; simp [AcctOK, wAcct]
    · cases h
  · intro k t h
    simp only [wS, Deposit.get] at h
    split at h
    · cases h; simp [StakeOK, sumV]
    · cases h

/-- non-vacuity of `C28_inv_partial`: a guarded block with a return, a vote, a deposit and an
    evidence is accepted from the witness state. -/
def wGood : List Tx :=
  [.ret 0 500000000000 500000000000 200000000000 299999999900, .vote 0 30 [60000000000] none, .dep 0 100, .pen 1 7]

example : applyBlock wP 10 wS wGood = some (applyTxs wP 10 wS wGood) ∧
    (∀ tx ∈ wGood, envOK tx) ∧ Guarded wGood ∧
    applyBlock wP 10 wS (wGood ++ [.retv 1 5]) = none := by
  refine ⟨by decide, ?_, ⟨?_, ?_⟩, by decide⟩
  · intro tx htx
    simp only [wGood, List.mem_cons, List.mem_nil_iff, or_false] at htx
    rcases htx with rfl | rfl | rfl | rfl <;> simp [envOK]
  · intro o
    by_cases h0 : o = 0
    · subst h0; decide
    · by_cases h1 : o = 1
      · subst h1; decide
      · have e0 : ((0 : Nat) == o) = false := by simp; omega
        have e1 : ((1 : Nat) == o) = false := by simp; omega
        simp [wGood, List.filter, isDebit, e0, e1]
  · intro k
    by_cases h0 : k = 0
    · subst h0; decide
    · have e0 : ((0 : Nat) == k) = false := by simp; omega
      simp [wGood, List.filter, isConsumer, e0]

/-- The full-strength statement is false: both returns pass the context check against the
    pre-block state (available = 4000 ELA) and together take 5000 ELA; afterwards
    `total = 4000 ELA < 5000 ELA = lock` (available = −1000 ELA). -/
theorem C28_two_returns_false : ¬ FullStrength := by
  intro hfull
  have hb : applyBlock wP 10 wS wRets = some (applyTxs wP 10 wS wRets) := by decide
  have hinv := hfull wP 10 wS wRets _ ⟨by decide, by decide⟩ wS_inv
    (by intro tx htx; simp only [wRets, List.mem_cons, List.mem_nil_iff, or_false] at htx
        rcases htx with rfl | rfl <;> simp [envOK]) hb
  have hget : get 0 (applyTxs wP 10 wS wRets).accts =
      some { wAcct with total := 400000000000, cout := 500000000000 } := by decide
  obtain ⟨_, h2, _⟩ := hinv.1 0 _ hget
  simp [wAcct] at h2

/-- Same for vote rights: two Voting transactions of one stake address in one block, each
    within the free rights of the pre-block state, leave `used = 1200 ELA > rights = 1000 ELA`. -/
theorem C28_two_votes_false : ¬ FullStrength := by
  intro hfull
  have hb : applyBlock wP 10 wS wVotes = some (applyTxs wP 10 wS wVotes) := by decide
  have hinv := hfull wP 10 wS wVotes _ ⟨by decide, by decide⟩ wS_inv
    (by intro tx htx; simp only [wVotes, List.mem_cons, List.mem_nil_iff, or_false] at htx
        rcases htx with rfl | rfl <;> simp [envOK]) hb
  have hget : get 0 (applyTxs wP 10 wS wVotes).stakes =
      some ⟨100000000000, 120000000000, [⟨30, 60000000000⟩, ⟨30, 60000000000⟩]⟩ := by decide
  obtain ⟨_, h2, _⟩ := hinv.2 0 _ hget
  simp at h2

/-- the witnesses are exactly what `Guarded` excludes. -/
example : ¬ Guarded wRets := by
  intro h; have := h.1 0; simp [wRets, isDebit] at this
example : ¬ Guarded wVotes := by
  intro h; have := h.2 0; simp [wVotes, isConsumer] at this

/-! ## CR candidates' deposits (`Model/CRDeposit.lean`, driven through the real cr/state path) -/

open ElaVerif.CRDeposit in
/-- **Partial** (step level, CR side): a ReturnCRDepositCoin that passes the context check against the
    candidate's account as it stands leaves the lock covered and takes at most the available amount. -/
theorem C28_cr_return_step_partial (P : Params) (h o : Nat) (a : CRAcct) (inp tinp change out : Int)
    (hpen : 0 ≤ a.penalty) (_hcov : a.deposit ≤ a.total) (htr : tinp ≤ inp)
    (hc : CRDeposit.check [(o, a)] (.ret o inp tinp change out) = none) :
    let a' := CRDeposit.step P h a (.ret o inp tinp change out) a
    a'.deposit ≤ a'.total ∧ 0 ≤ a'.available ∧ a'.available = a.available - (tinp - change) := by
  simp only [CRDeposit.check, Deposit.get, if_true] at hc
  split at hc
  · cases hc
  · rename_i hn
    simp only [CRDeposit.step, CRAcct.available] at hn ⊢
    refine ⟨by omega, by omega, by omega⟩

open ElaVerif.CRDeposit in
/-- the CR side has the same excluded point: two returns of one candidate in one block (witness replayed on
    the real code from `corpus/C28/two-cr-returns-one-block.ops`): total 4000 ELA below the 5000 ELA lock. -/
theorem C28_cr_two_returns_false :
    ¬ (∀ (P : Params) (h : Nat) (s : AMap CRAcct) (txs : List CRTx) (o : Nat) (a a' : CRAcct),
        get o s = some a → a.deposit ≤ a.total → 0 ≤ a.penalty →
        (∀ tx ∈ txs, CRDeposit.check s tx = none) →
        get o (CRDeposit.applyTxs P h s txs) = some a' → a'.deposit ≤ a'.total) := by
  intro hfull
  have := hfull wP 10 [(0, { total := 900000000000, deposit := 500000000000, penalty := 0, st := .active, regH := 1, cancelH := 0 })]
    [.ret 0 500000000000 500000000000 200000000000 299999999900, .ret 0 200000000000 200000000000 0 199999999900]
    0 { total := 900000000000, deposit := 500000000000, penalty := 0, st := .active, regH := 1, cancelH := 0 }
    { total := 400000000000, deposit := 500000000000, penalty := 0, st := .active, regH := 1, cancelH := 0 } (by decide) (by decide) (by decide)
    (by intro tx htx; simp only [List.mem_cons, List.mem_nil_iff, or_false] at htx
        rcases htx with rfl | rfl <;> decide) (by decide)
  revert this; decide

/-! ## T-gen: where the guard is enforced and where it is not

`Guarded` (at most one available-lowering tx per producer, at most one right-consuming tx per stake address in a
block) is what the transaction POOL enforces for pooled transactions through its conflict slots, and what block
validation does NOT enforce.  Both facts are regenerated from `mempool/conflictmanager.go` and
`blockchain/blockvalidator.go` on every run (`Gen/C28.lean`). -/

def slotHas (slot ty fn : String) : Bool :=
  Gen.C28.slots.any (fun s => s.1 == slot && s.2.any (fun p => p.1 == ty && p.2 == fn))

/-- the pool keeps at most one ReturnDepositCoin / ReturnCRDepositCoin per program code (= per producer / CR
    candidate), and at most one of ExchangeVotes / Voting / ReturnVotes / CreateNFT per stake address. -/
theorem C28_gen_pool_enforces_guard :
    slotHas "slotProgramCode" "ReturnDepositCoin" "strTxProgramCode" = true ∧
    slotHas "slotProgramCode" "ReturnCRDepositCoin" "strTxProgramCode" = true ∧
    slotHas "slotExchangeVotes" "ExchangeVotes" "strStake" = true ∧
    slotHas "slotExchangeVotes" "Voting" "strVoting" = true ∧
    slotHas "slotExchangeVotes" "ReturnVotes" "strReturnVotes" = true ∧
    slotHas "slotExchangeVotes" "CreateNFT" "strCreateNFT" = true := by decide

/-- block validation has no per-block rule for any of these transaction types (`CheckDuplicateTx` knows producer and
    CR registration / update / cancel only), and `checkTxsContext` checks every transaction against the chain state
    with one `CheckTransactionContext` call, threading nothing but the CRC proposal amount: blocks are where
    `Guarded` is unenforced (findings C28-two-returns-one-block, -two-cr-returns-, -two-vote-spends-, -two-renewals-). -/
theorem C28_gen_blocks_do_not_enforce_guard :
    (["ReturnDepositCoin", "ReturnCRDepositCoin", "Voting", "ReturnVotes", "ExchangeVotes", "CreateNFT",
      "IllegalProposalEvidence"].all (fun ty => !(Gen.C28.blockDupCases.contains ty))) = true ∧
    Gen.C28.blockDupCases.contains "CancelProducer" = true ∧ Gen.C28.blockDupCases.contains "UnregisterCR" = true ∧
    Gen.C28.checkTxsContextCalls.contains "b.CheckTransactionContext" = true := by decide

end ElaVerif.C28
