import ElaVerif.Lemmas.Bloom
import ElaVerif.Model.Murmur3
import ElaVerif.Gen.C39
import ElaVerif.Model.TxFilter
import ElaVerif.Lemmas.Murmur3
/-!
# C39 — bloom filters have no false negatives

Property theorems only (helper lemmas: `ElaVerif/Lemmas/Bloom.lean`).  The model is
`ElaVerif/Model/Bloom.lean`, a transcription of `elanet/bloom/filter.go` in which a Go
run-time panic is the value `none`.  **Every theorem is for an arbitrary hash function**
`mm : UInt32 → List UInt8 → UInt32` (MurmurHash3 in the code), every filter size, hash count,
tweak and element set.  `f.bits.length < 2 ^ 29` is "the number of bits fits a uint32"
(`uint32(len) << 3` does not wrap); anything that arrives in a `filterload` message has at most
36000 bytes (`C39_load_len` ties that to the decoder).
-/
namespace ElaVerif.C39
open ElaVerif.Bloom

/-- Adding an element never panics, and the element matches afterwards — for every hash
    function, tweak, hash count and filter size (including the empty filter). -/
theorem C39_add_matches (mm : Murmur) (f : Filter) (d : Bytes) (hlen : f.bits.length < 2 ^ 29) :
    ∃ g, add mm f d = some g ∧ «matches» mm g d = some true := by
  obtain ⟨g, hg⟩ := add_total mm f d hlen
  exact ⟨g, hg, add_matches mm hg⟩

example : ∃ g, add Murmur3.murmur3 ⟨[0, 0, 0, 0], 3, 7, []⟩ [1, 2, 3] = some g ∧ g.bits ≠ [0, 0, 0, 0] := by
  decide

/-- A further add never removes a match. -/
theorem C39_monotone (mm : Murmur) (f g : Filter) (d e : Bytes)
    (hadd : add mm f e = some g) (hm : «matches» mm f d = some true) : «matches» mm g d = some true :=
  matches_mono mm (add_le mm hadd) hm

/-- No false negatives for any element set: after adding `ds` one by one (no step panics),
    every member of `ds` matches. -/
theorem C39_no_false_negative (mm : Murmur) (f : Filter) (ds : List Bytes) (hlen : f.bits.length < 2 ^ 29) :
    ∃ g, addAll mm f ds = some g ∧ ∀ d ∈ ds, «matches» mm g d = some true := by
  obtain ⟨g, hg⟩ := addAll_total mm ds f hlen
  exact ⟨g, hg, addAll_matches mm ds f g hg⟩

example : (addAll Murmur3.murmur3 ⟨[0, 0, 0], 2, 5, []⟩ [[1], [2, 3], []]).isSome = true := by decide

/-- `matches` itself never panics (divide by zero / index out of range are unreachable). -/
theorem C39_matches_total (mm : Murmur) (f : Filter) (d : Bytes) (hlen : f.bits.length < 2 ^ 29) :
    ∃ r, «matches» mm f d = some r := matches_total mm f d hlen

/-- Outpoint insertion: an added outpoint (32-byte id ‖ LE uint16 index) matches, now and after
    any number of further `filteradd`s and matched transactions. -/
theorem C39_outpoint (mm : Murmur) (f : Filter) (op : OutPoint) (hlen : f.bits.length < 2 ^ 29) :
    ∃ g, addOutPoint mm f op = some g ∧
      ∀ g', Evolves mm g g' → matchesOutPoint mm g' op = some true := by
  obtain ⟨g, hg⟩ := add_total mm f op.bytes hlen
  refine ⟨g, hg, fun g' hev => ?_⟩
  have hgl : g.bits.length < 2 ^ 29 := by rw [(add_le mm hg).length]; exact hlen
  exact matches_mono mm (hev.le hgl) (add_matches mm hg)

/-- `Reload`: whatever filter the object held before, after `Reload(new)` every operation is an
    operation on `new` — adding to the reloaded filter never panics and the element matches, for a
    new filter of any (different) size. -/
theorem C39_reload (mm : Murmur) (cur new : Filter) (d : Bytes) (hlen : new.bits.length < 2 ^ 29) :
    «matches» mm (reload cur new) d = «matches» mm new d ∧
    ∃ g, add mm (reload cur new) d = some g ∧ «matches» mm g d = some true :=
  ⟨rfl, C39_add_matches mm new d hlen⟩

/-- The state the unguarded code could be put into by a peer: zero-length filter, one hash
    function.  Before the `fix:` commit both `matches` and `add` divided by zero on it
    (replayed on the real code: `corpus/C39/empty_filter.ops`). -/
theorem C39_unguarded_panics (mm : Murmur) (tw : UInt32) (d : Bytes) :
    matchesUnguarded mm ⟨[], 1, tw, []⟩ d = none ∧ addUnguarded mm ⟨[], 1, tw, []⟩ d = none := by
  have hm : modulus 0 = 0 := by decide
  have hh : Bloom.hash mm 0 tw 0 d = none := by simp [Bloom.hash, hm]
  constructor <;> simp [matchesUnguarded, addUnguarded, matchesLoop, addLoop, hh]

/-- … so the full statement is false of the unguarded functions. -/
theorem C39_add_matches_unguarded_false :
    ¬ ∀ (mm : Murmur) (f : Filter) (d : Bytes), f.bits.length < 2 ^ 29 →
        ∃ g, addUnguarded mm f d = some g ∧ matchesUnguarded mm g d = some true := by
  intro h
  obtain ⟨g, hg, _⟩ := h Murmur3.murmur3 ⟨[], 1, 0, []⟩ [] (by decide)
  rw [(C39_unguarded_panics Murmur3.murmur3 0 []).2] at hg
  cases hg

/-- Transactions, ordinary filter (`Tweak ≠ MaxUint32`): `matchTxAndUpdate` never panics, the
    filter only grows, and it returns true **iff** the filter at entry matches the tx hash, or
    the script hash of some output, or the outpoint spent by some input. -/
theorem C39_tx_match_iff (mm : Murmur) (f : Filter) (tx : Tx) (hlen : f.bits.length < 2 ^ 29)
    (hn : f.tweak ≠ 0xffffffff) :
    ∃ r g, matchTxAndUpdate mm f tx = some (r, g) ∧ Le f g ∧
      (r = true ↔ («matches» mm f tx.hash = some true ∨
                   (∃ ph ∈ tx.outputs, «matches» mm f ph = some true) ∨
                   (∃ op ∈ tx.inputs, matchesOutPoint mm f op = some true))) := by
  obtain ⟨r, g, hrun, hle, _, h2⟩ := matchTx_spec mm f tx hlen
  exact ⟨r, g, hrun, hle, (h2 hn).1⟩

example : (matchTxAndUpdate Murmur3.murmur3 ⟨[0xff, 0xff], 2, 1, []⟩ ⟨[9], 2, [[1], [2]], [⟨[3], 0⟩]⟩).isSome = true := by
  decide

/-- … and the update the protocol asks for: the outpoint `(tx hash, uint16(k))` of every output
    whose script hash matched the filter at entry is in the filter afterwards. -/
theorem C39_tx_update (mm : Murmur) (f : Filter) (tx : Tx) (hlen : f.bits.length < 2 ^ 29)
    (hn : f.tweak ≠ 0xffffffff) (k : Nat) (ph : Bytes) (hk : tx.outputs[k]? = some ph)
    (hm : «matches» mm f ph = some true) :
    ∃ g, matchTxAndUpdate mm f tx = some (true, g) ∧
      matchesOutPoint mm g ⟨tx.hash, k % 65536⟩ = some true := by
  obtain ⟨r, g, hrun, _, _, h2⟩ := matchTx_spec mm f tx hlen
  have hr : r = true := ((h2 hn).1).mpr (Or.inr (Or.inl ⟨ph, List.mem_of_getElem? hk, hm⟩))
  subst hr
  exact ⟨g, hrun, (h2 hn).2 k ph hk hm⟩

/-- Side-chain SPV filter (`Tweak = MaxUint32`): true iff the tx type is listed, or the filter
    has bits and some output script hash matches; the filter is not updated. -/
theorem C39_tx_side (mm : Murmur) (f : Filter) (tx : Tx) (hlen : f.bits.length < 2 ^ 29)
    (hs : f.tweak = 0xffffffff) :
    ∃ r, matchTxAndUpdate mm f tx = some (r, f) ∧
      (r = true ↔ (tx.txType ∈ f.txTypes ∨
                   (f.bits.length ≠ 0 ∧ ∃ ph ∈ tx.outputs, «matches» mm f ph = some true))) := by
  obtain ⟨r, g, hrun, _, h1, _⟩ := matchTx_spec mm f tx hlen
  obtain ⟨hg, hiff⟩ := h1 hs
  subst hg
  exact ⟨r, hrun, hiff⟩

example : matchTxAndUpdate Murmur3.murmur3 ⟨[], 0, 0xffffffff, [2]⟩ ⟨[9], 2, [], []⟩ = some (true, ⟨[], 0, 0xffffffff, [2]⟩) := by
  decide

/-- The whole protocol, end to end.  A script hash `ph` is added to a peer's (ordinary) filter;
    the filter then evolves arbitrarily (`filteradd`s, other transactions).  Any transaction
    paying to `ph` at output `k` matches, and from then on — however the filter evolves further —
    any transaction spending that output matches too.  No false negative is possible at either step. -/
theorem C39_watch_pay_then_spend (mm : Murmur) (f0 f1 f2 : Filter) (ph : Bytes) (tx : Tx) (k : Nat)
    (hlen : f0.bits.length < 2 ^ 29) (hn : f0.tweak ≠ 0xffffffff)
    (hadd : add mm f0 ph = some f1) (hev : Evolves mm f1 f2) (hpay : tx.outputs[k]? = some ph) :
    ∃ g, matchTxAndUpdate mm f2 tx = some (true, g) ∧
      ∀ g' tx2, Evolves mm g g' → (⟨tx.hash, k % 65536⟩ : OutPoint) ∈ tx2.inputs →
        ∃ g'', matchTxAndUpdate mm g' tx2 = some (true, g'') := by
  have hle01 := add_le mm hadd
  have hl1 : f1.bits.length < 2 ^ 29 := by rw [hle01.length]; exact hlen
  have hle12 := hev.le hl1
  have hl2 : f2.bits.length < 2 ^ 29 := by rw [hle12.length]; exact hl1
  have hn2 : f2.tweak ≠ 0xffffffff := by rw [hle12.2.1, hle01.2.1]; exact hn
  have hm2 : «matches» mm f2 ph = some true := matches_mono mm hle12 (add_matches mm hadd)
  obtain ⟨g, hrun, hop⟩ := C39_tx_update mm f2 tx hl2 hn2 k ph hpay hm2
  refine ⟨g, hrun, ?_⟩
  intro g' tx2 hev' hin
  obtain ⟨_, g0, hrun0, hle2g, _⟩ := matchTx_spec mm f2 tx hl2
  rw [hrun] at hrun0
  cases hrun0
  have hlg : g.bits.length < 2 ^ 29 := by rw [hle2g.length]; exact hl2
  have hleg := hev'.le hlg
  have hlg' : g'.bits.length < 2 ^ 29 := by rw [hleg.length]; exact hlg
  have hng' : g'.tweak ≠ 0xffffffff := by rw [hleg.2.1, hle2g.2.1]; exact hn2
  obtain ⟨r, g'', hrun', _, hiff⟩ := C39_tx_match_iff mm g' tx2 hlg' hng'
  have : r = true := hiff.mpr (Or.inr (Or.inr ⟨_, hin, matches_mono mm hleg hop⟩))
  subst this
  exact ⟨g'', hrun'⟩

/-- The size hypothesis is sharp: with 2^29 bytes `uint32(len) << 3` is 0 and the guarded code
    still divides by zero.  (Not reachable from the network: `filterload` caps the filter at
    36000 bytes, `NewFilter` at the same constant.) -/
theorem C39_bound_sharp (mm : Murmur) (f : Filter) (d : Bytes) (hlen : f.bits.length = 2 ^ 29)
    (hk : f.hashFuncs ≠ 0) : «matches» mm f d = none := by
  have hm : modulus (2 ^ 29) = 0 := by decide
  have hk' : f.hashFuncs.toNat ≠ 0 := by
    intro h0
    apply hk
    rw [← UInt32.toNat_inj]; simpa using h0
  obtain ⟨n, hn⟩ := Nat.exists_eq_succ_of_ne_zero hk'
  unfold «matches»
  rw [if_neg (by rw [hlen]; decide), hn]
  unfold matchesLoop
  have hh : Bloom.hash mm (2 ^ 29) f.tweak 0 d = none := by simp [Bloom.hash, hm]
  rw [hlen, hh]

/-! ## filters as a peer can install them -/

/-- Whatever bytes a peer sends as `filterload`: if `FilterLoad.Deserialize` accepts them, the
    filter has at most 36000 bytes and at most 50 hash functions — so the size hypothesis of
    every theorem above holds for every filter that can come from the network. -/
theorem C39_load_len (b : Bytes) (f : Filter) (h : loadFilter b = some f) :
    f.bits.length ≤ 36000 ∧ f.hashFuncs.toNat ≤ 50 ∧ f.bits.length < 2 ^ 29 := by
  have := loadFilter_bounds b f h
  simp only [maxFilterLoadFilterSize, maxFilterLoadHashFuncs] at this
  exact ⟨this.1, this.2, by omega⟩

example : loadFilter [2, 0xaa, 0x55, 3, 0, 0, 0, 7, 0, 0, 0, 1] = some ⟨[0xaa, 0x55], 3, 7, []⟩ := by decide
/-- the state that used to crash the node is accepted by the decoder (empty filter, one hash function) -/
example : loadFilter [0, 1, 0, 0, 0, 0, 0, 0, 0, 0] = some ⟨[], 1, 0, []⟩ := by decide

/-- **Remote safety and completeness in one statement**: for every byte string a peer sends as
    `filterload` that the decoder accepts, every sequence of `filteradd` data is processed without
    a panic and every added element matches afterwards. -/
theorem C39_peer_no_false_negative (mm : Murmur) (b : Bytes) (f : Filter) (ds : List Bytes)
    (h : loadFilter b = some f) :
    ∃ g, addAll mm f ds = some g ∧ ∀ d ∈ ds, «matches» mm g d = some true :=
  C39_no_false_negative mm f ds (C39_load_len b f h).2.2

/-- … and however the peer's filter then evolves (`filteradd`s, matched transactions), matching any
    transaction against it never panics. -/
theorem C39_peer_tx_total (mm : Murmur) (b : Bytes) (f g : Filter) (tx : Tx)
    (h : loadFilter b = some f) (hev : Evolves mm f g) :
    ∃ r g', matchTxAndUpdate mm g tx = some (r, g') := by
  have hl := (C39_load_len b f h).2.2
  have hg : g.bits.length < 2 ^ 29 := by rw [(hev.le hl).length]; exact hl
  obtain ⟨r, g', hrun, _⟩ := matchTx_spec mm g tx hg
  exact ⟨r, g', hrun⟩

/-- The codec of `filterload` round-trips: what `FilterLoad.Serialize` writes for a filter within
    the limits is decoded by `FilterLoad.Deserialize` to the same filter (bits, hash functions,
    tweak and tx types) — so a client's filter arrives unchanged. -/
theorem C39_load_encode (f : Filter) (flags : UInt8) (hb : f.bits.length ≤ 36000)
    (hh : f.hashFuncs.toNat ≤ 50) (ht : f.txTypes.length < 2 ^ 64) :
    loadFilter (encodeFilterLoad f flags) = some f :=
  loadFilter_encode f flags hb hh ht

example : encodeFilterLoad ⟨[0xaa, 0x55], 3, 7, [2]⟩ 1 = [2, 0xaa, 0x55, 3, 0, 0, 0, 7, 0, 0, 0, 1, 1, 2] := by decide

/-- T-gen: the limits of both copies of the constants are the model's; `hash`, the guards and the
    loops of `matches`/`add` read as transcribed (the empty-filter guard is present in both);
    the decoder reads var-bytes(36000), HashFuncs, Tweak, the 50 check, Flags, then the optional
    TxTypes. -/
theorem C39_gen_source :
    Gen.C39.bloomMaxFilterLoadFilterSize = maxFilterLoadFilterSize ∧
    Gen.C39.msgMaxFilterLoadFilterSize = maxFilterLoadFilterSize ∧
    Gen.C39.bloomMaxFilterLoadHashFuncs = maxFilterLoadHashFuncs ∧
    Gen.C39.msgMaxFilterLoadHashFuncs = maxFilterLoadHashFuncs ∧
    Gen.C39.hashBody = ["mm := MurmurHash3(hashNum*0xfba4c795+bf.msg.Tweak, data)",
                        "return mm % (uint32(len(bf.msg.Filter)) << 3)"] ∧
    Gen.C39.matchesGuards = ["bf.msg == nil => return false", "len(bf.msg.Filter) == 0 => return true"] ∧
    Gen.C39.addGuards = ["bf.msg == nil => return", "len(bf.msg.Filter) == 0 => return"] ∧
    Gen.C39.matchesLoop = ["for i := uint32(0); i < bf.msg.HashFuncs; i++", "idx := bf.hash(i, data)",
                           "if bf.msg.Filter[idx>>3]&(1<<(idx&7)) == 0 { return false }"] ∧
    Gen.C39.addLoop = ["for i := uint32(0); i < bf.msg.HashFuncs; i++", "idx := bf.hash(i, data)",
                       "bf.msg.Filter[idx>>3] |= (1 << (7 & idx))"] ∧
    Gen.C39.murmurConsts = ["murmurC1 = 0xcc9e2d51", "murmurC2 = 0x1b873593", "murmurR1 = 15", "murmurR2 = 13",
                            "murmurM = 5", "murmurN = 0xe6546b64"] ∧
    Gen.C39.filterLoadDeserialize =
      ["common.ReadVarBytes(r, MaxFilterLoadFilterSize, \"filterload filter size\")",
       "common.ReadElements(r, &msg.HashFuncs, &msg.Tweak)", "if msg.HashFuncs > MaxFilterLoadHashFuncs",
       "common.ReadElements(r, &msg.Flags)", "common.ReadVarUint(r, 0)", "if err == io.EOF",
       "common.ReadElement(r, &txType)"] := by
  decide

/-! ## the filter layer the server dispatches to (`elanet/filter`, `elanet/filter/*`) -/

open ElaVerif.TxFilter in
/-- **Confirmed transactions: no wrapper loses a bloom match.**  For each of the six filter types a
    peer can select with `txfilter`, `MatchConfirmed` never panics on a filter loaded from the wire,
    updates the bloom filter exactly as `matchTxAndUpdate` does, and returns true whenever the bloom
    filter matches (it may add matches: DPoS / next-turn / custom-ID / upgrade / deposit transactions). -/
theorem C39_dispatch_confirmed (mm : Murmur) (ft : FilterType) (f : Filter) (tx : Tx) (t : TxFacts)
    (hlen : f.bits.length < 2 ^ 29) :
    ∃ r g, matchTxAndUpdate mm f tx = some (r, g) ∧
      matchConfirmed mm ft f tx t = some (r || extraConfirmed ft t, g) ∧
      (r = true → matchConfirmed mm ft f tx t = some (true, g)) := by
  obtain ⟨r, g, hrun, _⟩ := matchTx_spec mm f tx hlen
  refine ⟨r, g, hrun, by simp [matchConfirmed, hrun], ?_⟩
  intro hr
  simp [matchConfirmed, hrun, hr]

open ElaVerif.TxFilter in
/-- Unconfirmed transactions: every filter type except the DPoS side filter answers with the bloom
    filter's `matchTxAndUpdate` … -/
theorem C39_dispatch_unconfirmed (mm : Murmur) (ft : FilterType) (f : Filter) (tx : Tx) (t : TxFacts)
    (hft : ft ≠ .dpos) : matchUnconfirmed mm ft f tx t = matchTxAndUpdate mm f tx := by
  cases ft <;> first | rfl | exact absurd rfl hft

open ElaVerif.TxFilter in
/-- … and the DPoS side filter (`sidefilter.MatchUnconfirmed`) does not consult the bloom filter at
    all: "an unconfirmed transaction paying to a watched address is reported" is **false** for filter
    type 1 (witness: an all-ones filter and a TransferAsset).  This is how the source is written
    (the side-chain SPV only wants evidence transactions from the mempool); the oracle documents it
    as the one exception.  Replayed: `corpus/C39/dpos_unconfirmed.ops`. -/
theorem C39_dispatch_unconfirmed_dpos_false :
    ¬ ∀ (mm : Murmur) (f : Filter) (tx : Tx) (t : TxFacts) (g : Filter), f.bits.length < 2 ^ 29 →
        matchTxAndUpdate mm f tx = some (true, g) →
        ∃ g', matchUnconfirmed mm .dpos f tx t = some (true, g') := by
  intro h
  obtain ⟨g', hg⟩ := h Murmur3.murmur3 ⟨[0xff], 1, 0, []⟩ ⟨[1], 2, [[7]], []⟩ ⟨2, 9, false, 0, false⟩ ⟨[0xff], 1, 0, []⟩
    (by decide) (by decide)
  simp [matchUnconfirmed, tIllegalProposal, tIllegalVote, tIllegalBlock, tIllegalSidechain, tInactiveArbitrators] at hg

open ElaVerif.TxFilter in
/-- `Filter.Load`: an unknown filter type installs nothing; a known one installs a filter that
    satisfies the size hypothesis of every theorem above (all six implementations load through
    `bloom.TxFilter.Load`). -/
theorem C39_dispatch_load (typ : Nat) (data : Bytes) :
    (6 ≤ typ → load typ data = none) ∧
    (∀ ft f, load typ data = some (ft, f) → loadFilter data = some f ∧ f.bits.length < 2 ^ 29) := by
  constructor
  · intro h
    have : filterTypeOf typ = none := by
      unfold filterTypeOf
      split <;> first | omega | rfl
    simp [load, this]
  · intro ft f h
    unfold load at h
    split at h
    · cases h
    · cases hl : loadFilter data with
      | none => simp [hl] at h
      | some f' =>
        simp [hl] at h
        obtain ⟨_, hf⟩ := h
        subst hf
        exact ⟨rfl, (C39_load_len data f' hl).2.2⟩

set_option maxRecDepth 20000 in
open ElaVerif.TxFilter in
/-- **The relay / mempool path updates the peer's filter too.**  For every filter type that consults the
    bloom filter on unconfirmed transactions (all but DPOS): an unconfirmed transaction paying a watched
    script hash at output `k` is matched *and leaves the outpoint in the peer's filter*, so the transaction
    that later spends that output is matched on either path, confirmed or unconfirmed — before the first
    one was ever seen in a block. -/
theorem C39_relay_pay_then_spend (mm : Murmur) (ft : FilterType) (f : Filter) (tx tx2 : Tx) (t t2 : TxFacts)
    (k : Nat) (ph : Bytes) (hft : ft ≠ .dpos) (hlen : f.bits.length < 2 ^ 29) (hn : f.tweak ≠ 0xffffffff)
    (hk : tx.outputs[k]? = some ph) (hm : «matches» mm f ph = some true)
    (hin : (⟨tx.hash, k % 65536⟩ : OutPoint) ∈ tx2.inputs) :
    ∃ g, matchUnconfirmed mm ft f tx t = some (true, g) ∧
      (∃ g2, matchUnconfirmed mm ft g tx2 t2 = some (true, g2)) ∧
      (∃ g2, matchConfirmed mm ft g tx2 t2 = some (true, g2)) := by
  obtain ⟨g, hrun, hop⟩ := C39_tx_update mm f tx hlen hn k ph hk hm
  obtain ⟨_, g0, hrun0, hle, _⟩ := matchTx_spec mm f tx hlen
  rw [hrun] at hrun0
  cases hrun0
  have hlg : g.bits.length < 2 ^ 29 := by rw [hle.length]; exact hlen
  have hng : g.tweak ≠ 0xffffffff := by rw [hle.2.1]; exact hn
  obtain ⟨r, g2, hrun2, _, hiff⟩ := C39_tx_match_iff mm g tx2 hlg hng
  have hr : r = true := hiff.mpr (Or.inr (Or.inr ⟨_, hin, hop⟩))
  subst hr
  refine ⟨g, by rw [C39_dispatch_unconfirmed mm ft f tx t hft]; exact hrun, ⟨g2, ?_⟩, ⟨g2, ?_⟩⟩
  · rw [C39_dispatch_unconfirmed mm ft g tx2 t2 hft]; exact hrun2
  · simp [matchConfirmed, hrun2]

set_option maxRecDepth 20000 in
/-- T-gen: the dispatch layer as the source has it — filter type numbering, the server's switch, the
    `Filter.load` body (unknown type ⇒ error), each wrapper's `Load`/`Add` (forwarded) and
    `MatchConfirmed`/`MatchUnconfirmed` expressions, the first case list of `IsDPOSTransaction`, the
    tx-type predicates, and the numeric values of the tx types and proposal types the model uses. -/
theorem C39_gen_dispatch :
    Gen.C39.filterTypes = [("FTBloom", 0), ("FTDPOS", 1), ("FTNexTTurnDPOSInfo", 2), ("FTCustomID", 3),
      ("FTUpgrade", 4), ("FTReturnSidechainDepositCoinFilter", 5)] ∧
    Gen.C39.serverDispatch = ["filter.FTBloom => return bloom.NewTxFilter()",
      "filter.FTDPOS => return sidefilter.New(s.chain.GetState())",
      "filter.FTNexTTurnDPOSInfo => return nextturndposfilter.New()",
      "filter.FTCustomID => return customidfilter.New()", "filter.FTUpgrade => return upgradefilter.New()",
      "filter.FTReturnSidechainDepositCoinFilter => return returnsidechaindepositcoinfilter.New()"] ∧
    Gen.C39.filterLoad = ["filterType := filter.Type", "tf := f.newFilter(filterType)",
      "if tf == nil { return fmt.Errorf(\"unknown txfilter type %d\", filterType) }",
      "err := tf.Load(filter.Data)", "if err != nil { return err }", "f.filter = tf", "return nil"] ∧
    Gen.C39.wrappers.map (fun w => (w.1, w.2.1, w.2.2.1)) =
      [("Filter", "return f.TxFilter.Load(filter)", "return f.TxFilter.Add(data)"),
       ("NextTurnDPOSInfoFilter", "return f.TxFilter.Load(filter)", "return f.TxFilter.Add(data)"),
       ("CustomIdFilter", "return f.TxFilter.Load(filter)", "return f.TxFilter.Add(data)"),
       ("UpgradeFilter", "return f.TxFilter.Load(filter)", "return f.TxFilter.Add(data)"),
       ("ReturnSidechainDepositCoinFilter", "return f.TxFilter.Load(filter)", "return f.TxFilter.Add(data)")] ∧
    Gen.C39.wrappers.map (fun w => w.2.2.2.1) =
      ["return f.TxFilter.MatchConfirmed(tx) || f.state.IsDPOSTransaction(tx) || tx.IsRevertToPOW() || tx.IsRevertToDPOS()",
       "return f.TxFilter.MatchConfirmed(tx) || tx.IsNextTurnDPOSInfoTx() || tx.IsRevertToPOW() || tx.IsRevertToDPOS()",
       "return f.TxFilter.MatchConfirmed(tx) || tx.IsNextTurnDPOSInfoTx() || tx.IsCustomIDRelatedTx() || tx.IsRevertToPOW() || tx.IsRevertToDPOS()",
       "return f.TxFilter.MatchConfirmed(tx) || tx.IsNextTurnDPOSInfoTx() || tx.IsCustomIDRelatedTx() || tx.IsRevertToPOW() || tx.IsRevertToDPOS() || tx.IsSideChainUpgradeTx()",
       "return f.TxFilter.MatchConfirmed(tx) || tx.IsNextTurnDPOSInfoTx() || tx.IsCustomIDRelatedTx() || tx.IsRevertToPOW() || tx.IsRevertToDPOS() || tx.IsReturnSideChainDepositCoinTx()"] ∧
    Gen.C39.wrappers.map (fun w => w.2.2.2.2) =
      ["switch tx.TxType() { case common2.IllegalProposalEvidence: fallthrough case common2.IllegalVoteEvidence: fallthrough case common2.IllegalBlockEvidence: fallthrough case common2.IllegalSidechainEvidence: fallthrough case common2.InactiveArbitrators: return true }; return false",
       "return f.TxFilter.MatchUnconfirmed(tx)", "return f.TxFilter.MatchUnconfirmed(tx)",
       "return f.TxFilter.MatchUnconfirmed(tx)", "return f.TxFilter.MatchUnconfirmed(tx)"] ∧
    Gen.C39.isDPOSTransactionFirstCase = ["common2.RegisterProducer", "common2.UpdateProducer", "common2.CancelProducer",
      "common2.ActivateProducer", "common2.IllegalProposalEvidence", "common2.IllegalVoteEvidence",
      "common2.IllegalBlockEvidence", "common2.IllegalSidechainEvidence", "common2.InactiveArbitrators",
      "common2.ReturnDepositCoin"] ∧
    Gen.C39.txTypeValues.map (·.2) =
      [TxFilter.tTransferAsset, TxFilter.tRegisterProducer, TxFilter.tCancelProducer, TxFilter.tUpdateProducer,
       TxFilter.tReturnDepositCoin, TxFilter.tActivateProducer, TxFilter.tIllegalProposal, TxFilter.tIllegalVote,
       TxFilter.tIllegalBlock, TxFilter.tIllegalSidechain, TxFilter.tInactiveArbitrators, TxFilter.tNextTurnDPOSInfo,
       TxFilter.tProposalResult, TxFilter.tCRCProposal, TxFilter.tRevertToPOW, TxFilter.tRevertToDPOS,
       TxFilter.tReturnSideChainDepositCoin] ∧
    Gen.C39.proposalTypeValues.map (·.2) = [0x0500, 0x0501, 0x0502, 0x0200, 0x02ff] := by
  decide

set_option maxRecDepth 20000 in
/-- T-gen: the plumbing between the message handlers and the filter — `TxFilter.Load` decodes a `filterload`
    and installs it, `Add` forwards every element of a loaded filter unconditionally, both `MatchConfirmed`
    and `MatchUnconfirmed` run `MatchTxAndUpdate` on the peer's own filter (no snapshot); and `OutPoint.Bytes`
    is the wire serialization (tx id, little-endian uint16 index) that `opBytes` transcribes. -/
theorem C39_gen_plumbing :
    Gen.C39.txFilterMethods =
      ["Load: var fl msg.FilterLoad; err := fl.Deserialize(bytes.NewReader(filter)); if err != nil { return err }; f.filter = LoadFilter(&fl); return nil",
       "Add: if f.filter == nil || !f.filter.IsLoaded() { return fmt.Errorf(\"filter not loaded\") }; f.filter.Add(filter); return nil",
       "MatchConfirmed: return f.filter.MatchTxAndUpdate(tx)", "MatchUnconfirmed: return f.filter.MatchTxAndUpdate(tx)"] ∧
    Gen.C39.outPointBytes =
      ["Serialize: return common.WriteElements(w, &op.TxID, op.Index)",
       "Bytes: buf := new(bytes.Buffer); op.Serialize(buf); return buf.Bytes()"] := by
  decide

/-- T-gen: **what `matchTxAndUpdate` reads of a transaction** — its hash, its type, the program hash
    of every output, the previous outpoint of every input, and nothing else (no payload, attribute or
    program data, for any transaction type).  This is exactly the abstract transaction `Bloom.Tx` of
    the model, so the tx-level theorems cover every transaction type.  Also the tx-type predicates the
    wrappers use, and the size limits of the filter messages: a `filteradd` carries at most 520 bytes
    in 523, a `txfilter` at most 50000 in 50004 (room for any `filterload`, 36012). -/
theorem C39_gen_tx_reads :
    Gen.C39.matchTxReads = ["txn.Hash", "txn.TxType", "txn.Outputs", "txOut.ProgramHash", "txn.Inputs", "txIn.Previous"] ∧
    Gen.C39.txPredicates.take 6 =
      ["IsNextTurnDPOSInfoTx: return tx.txType == common2.NextTurnDPOSInfo",
       "IsCustomIDResultTx: return tx.txType == common2.ProposalResult",
       "IsCRCProposalTx: return tx.txType == common2.CRCProposal",
       "IsRevertToPOW: return tx.txType == common2.RevertToPOW",
       "IsRevertToDPOS: return tx.txType == common2.RevertToDPOS",
       "IsReturnSideChainDepositCoinTx: return tx.txType == common2.ReturnSideChainDepositCoin"] ∧
    Gen.C39.filterAddMaxLength = 3 + Gen.C39.maxFilterAddDataSize ∧ Gen.C39.maxFilterAddDataSize = 520 ∧
    Gen.C39.txFilterLoadMaxLength = 4 + Gen.C39.maxTxFilterLoadDataSize ∧
    Gen.C39.filterLoadMaxLength ≤ Gen.C39.maxTxFilterLoadDataSize ∧ Gen.C39.filterLoadMaxLength = 36012 := by
  decide

/-! ## MurmurHash3 -/

/-- **The hash the driver runs is MurmurHash3_x86_32 as specified, for every seed and every input**:
    the line-by-line transcription of `murmurhash3.go` (block loop + `switch dataLen & 3`) equals the
    specification-shaped definition — input split into little-endian 32-bit words and a tail of
    `len % 4` bytes, block step folded over the words, tail word `t[0] ^ t[1]<<8 ^ t[2]<<16` mixed in
    when there is a tail, finaliser.  (No theorem above depends on this; it replaces "validated by
    comparison only" for the model side.  The Go side stays tied by the `murmur` ops and by the
    oracle's independent reference.) -/
theorem C39_murmur_spec (seed : UInt32) (data : List UInt8) :
    Murmur3.murmur3 seed data = Murmur3.murmurSpec seed data ∧
    4 * (Murmur3.words data).1.length + (Murmur3.words data).2.length = data.length ∧
    (Murmur3.words data).2.length < 4 :=
  ⟨Murmur3.murmur3_eq_spec seed data, Murmur3.words_length data, Murmur3.words_tail_lt data⟩

/-- published test vectors, checked on the specification inside the kernel -/
theorem C39_murmur_vectors :
    Murmur3.murmurSpec 0 [] = 0 ∧ Murmur3.murmurSpec 1 [] = 0x514e28b7 ∧
    Murmur3.murmurSpec 0xffffffff [] = 0x81f16f39 ∧ Murmur3.murmurSpec 0 [0xff, 0xff, 0xff, 0xff] = 0x76293b50 ∧
    Murmur3.murmurSpec 0 [0x21, 0x43, 0x65, 0x87] = 0xf55b516b ∧
    Murmur3.murmurSpec 0x5082edee [0x21, 0x43, 0x65, 0x87] = 0x2362f9de ∧
    Murmur3.murmurSpec 0 [0x21, 0x43, 0x65] = 0x7e4a8634 ∧ Murmur3.murmurSpec 0 [0x21, 0x43] = 0xa0f7b07a ∧
    Murmur3.murmurSpec 0 [0x21] = 0x72661cf4 ∧ Murmur3.murmurSpec 0xfba4c795 [] = 0x6a396f08 ∧
    Murmur3.murmurSpec 0 [0x00, 0x11, 0x22, 0x33, 0x44, 0x55, 0x66, 0x77, 0x88] = 0xb4698def := by
  decide

end ElaVerif.C39
