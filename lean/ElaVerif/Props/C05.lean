import ElaVerif.Lemmas.RunPrograms
import ElaVerif.Lemmas.TxSig
import ElaVerif.Gen.C05
/-!
# C05 — spending requires valid signatures from every spent address

Model: `ElaVerif/Model/RunPrograms.lean` (RunPrograms and the four signature checkers,
VerifyMultisigSignatures with its first-matching-key loop and duplicate test).
Cryptography is a parameter: `O : Oracles D` (`decodeOk`, `verify`, `schnorr`, `codeHash`);
every theorem holds for all oracles, and each has an instance showing non-vacuity.
Specification predicates (`SignedBy`, `StdAuth`, `SchnorrAuth`, `MultiAuth`, `Authorised`,
`CrossAuth`, `FallThrough`, `KnownKind`, `Accepted`) are defined in `Lemmas/RunPrograms.lean`.
-/
namespace ElaVerif.C05
open ElaVerif.Script ElaVerif.RunPrograms

set_option maxRecDepth 8000   -- the `decide` examples evaluate 65-byte signature chunks

/-- **m-of-n count.** If `VerifyMultisigSignatures(m, n, keys, sigs, data)` accepts, there are
    `m` *distinct* key scripts among `keys`, each with a 65-byte chunk of `sigs` whose
    signature verifies for that key over `data`; and `len(keys) = n`. -/
theorem C05_multisig_sound {D : Type} (O : Oracles D) (m n : Int) (pks : List Bytes) (sigs : Bytes) (d : D)
    (hp : ∀ k ∈ pks, 1 ≤ k.length) (h : verifyMultisig O m n pks sigs d = ok) :
    (pks.length : Int) = n ∧ SignedBy O d pks sigs m := by
  obtain ⟨S, hnd, hlen, hn, hS⟩ := verifyMultisig_sound O m n pks sigs d hp h
  exact ⟨hn, S, hnd, hlen, hS⟩

/-- toy scheme for the examples: key script `[33, k]`, signature `[k]` repeated; it verifies iff the
    first signature byte equals the key byte -/
def toy : Oracles Unit :=
  ⟨fun _ => true, fun k _ s => k.head? == s.head? && k.head?.isSome, fun _ _ _ => false, fun c => c.take 2⟩
def sigOf (k : UInt8) : Bytes := 64 :: List.replicate 64 k

/-- non-vacuity: 2-of-3 with signatures by keys 5 and 7 is accepted; one signer twice is "duplicated" -/
example : verifyMultisig toy 2 3 [[33, 5], [33, 6], [33, 7]] (sigOf 7 ++ sigOf 5) () = ok := by decide
example : verifyMultisig toy 2 3 [[33, 5], [33, 6], [33, 7]] (sigOf 7 ++ sigOf 7) () = fail .msDup := by decide
/-- the same key in two slots does not count twice (first match wins, second hit is a duplicate) -/
example : verifyMultisig toy 2 2 [[33, 5], [33, 5]] (sigOf 5 ++ sigOf 5) () = fail .msDup := by decide

/-- **What acceptance means, pair by pair.** If `RunPrograms` accepts, the two lists have equal
    length and every (hash, program) pair is `Accepted`: cross-chain prefix with a Schnorr or
    multi-signature check of the code's own keys; or code hash bound to the address *and*
    standard / Schnorr / m-of-n (m ≥ 1) signatures verified over the data; or — the third
    disjunct, which the property does not allow — the signature-free fall-through. -/
theorem C05_run_accepts_only {D : Type} (O : Oracles D) (d : D) (hs : List PH) (ps : List Program)
    (h : runPrograms Fix.all O d hs ps = ok) :
    hs.length = ps.length ∧ ∀ hp ∈ hs.zip ps, Accepted O d hp.1 hp.2 := runPrograms_ok O d hs ps h

/-- **Soundness (partial).** Under the two guards the proof forces — every program code is of a
    kind the verifier knows (`KnownKind`: standard, Schnorr or multisig) and no spent address has
    the cross-chain prefix — acceptance implies: every spent address has a program whose code
    hashes to it and whose signatures verify over the data.
    Missing for the full statement: see `C05_run_sound_false`. -/
theorem C05_run_sound_partial {D : Type} (O : Oracles D) (d : D) (hs : List PH) (ps : List Program)
    (hk : ∀ p ∈ ps, KnownKind p) (hx : ∀ h ∈ hs, h.pfx ≠ PrefixCrossChain)
    (h : runPrograms Fix.all O d hs ps = ok) :
    ∀ ph ∈ hs, ∃ p ∈ ps, Authorised O d ph p := by
  obtain ⟨hl, hacc⟩ := runPrograms_ok O d hs ps h
  intro ph hph
  obtain ⟨p, hp, hz⟩ := zip_partner hs ps hl ph hph
  refine ⟨p, hp, ?_⟩
  rcases hacc (ph, p) hz with ⟨hc, _⟩ | ⟨_, ha⟩ | ⟨_, _, _, hnk⟩
  · exact absurd hc (hx ph hph)
  · exact ha
  · exact absurd (hk p hp) hnk

def stdCode (k : UInt8) : Bytes := 33 :: k :: List.replicate 32 0 ++ [0xAC]
/-- non-vacuity: a standard program signed by its key is accepted under the toy scheme -/
example : runPrograms Fix.all toy () [⟨0x21, [33, 5]⟩] [⟨stdCode 5, 64 :: 5 :: List.replicate 63 0⟩] = ok := by decide
example : KnownKind ⟨stdCode 5, []⟩ := Or.inr (Or.inl (by decide))

/-- The same holds after the node's pairing step: hashes and programs are each sorted by code hash
    (any permutation) before `RunPrograms`; every spent address still finds its program. -/
theorem C05_run_sound_sorted_partial {D : Type} (O : Oracles D) (d : D) (hs hs' : List PH) (ps ps' : List Program)
    (hph : hs'.Perm hs) (hpp : ps'.Perm ps)
    (hk : ∀ p ∈ ps, KnownKind p) (hx : ∀ h ∈ hs, h.pfx ≠ PrefixCrossChain)
    (h : runPrograms Fix.all O d hs' ps' = ok) :
    ∀ ph ∈ hs, ∃ p ∈ ps, Authorised O d ph p := by
  intro ph hm
  obtain ⟨p, hp, ha⟩ := C05_run_sound_partial O d hs' ps'
    (fun p hp => hk p (hpp.mem_iff.mp hp)) (fun h hh => hx h (hph.mem_iff.mp hh)) h ph (hph.mem_iff.mpr hm)
  exact ⟨p, hpp.mem_iff.mp hp, ha⟩

/-- an oracle under which no signature ever verifies -/
def noSig : Oracles Unit := ⟨fun _ => true, fun _ _ _ => false, fun _ _ _ => false, fun c => c.take 2⟩

/-- 35 bytes, first byte 33, last byte not CHECKSIG: none of standard / multisig / Schnorr -/
def fallCode : Bytes := 33 :: List.replicate 34 0
/-- cross-chain script with m = 0: `0x50 ‖ key ‖ key ‖ PUSH2 ‖ 0xAF` -/
def ccKey : Bytes := 33 :: 2 :: List.replicate 32 7
def cc0Code : Bytes := [0x50] ++ ccKey ++ ccKey ++ [0x52, 0xAF]

/-- **NEGATION of the full statement** (no `KnownKind`, no prefix restriction), two witnesses,
    both replayed on the real code (`corpus/C05/witnesses.ops`):
    1. a 35-byte code `33 ‖ 0…0` under a standard prefix is accepted with an empty parameter
       although no signature verifies at all (the fall-through of RunPrograms);
    2. a cross-chain prefixed hash accepts *any* script with `m = 0` and no signatures, whatever
       the hash (no code-hash comparison, no `m ≥ 1` test in checkCrossChainSignatures). -/
theorem C05_run_sound_false :
    ¬ (∀ (O : Oracles Unit) (hs : List PH) (ps : List Program), runPrograms Fix.all O () hs ps = ok →
        ∀ ph ∈ hs, ∃ p ∈ ps, Authorised O () ph p) ∧
    runPrograms Fix.all noSig () [⟨0x21, fallCode.take 2⟩] [⟨fallCode, []⟩] = ok ∧
    runPrograms Fix.all noSig () [⟨0x4B, []⟩] [⟨cc0Code, []⟩] = ok := by
  have w1 : runPrograms Fix.all noSig () [⟨0x21, fallCode.take 2⟩] [⟨fallCode, []⟩] = ok := by decide
  refine ⟨?_, w1, by decide⟩
  intro hall
  obtain ⟨p, hp, _, ha⟩ := hall noSig _ _ w1 ⟨0x21, fallCode.take 2⟩ (by simp)
  simp only [List.mem_singleton] at hp
  subst hp
  rcases ha with ⟨_, _, hv⟩ | ⟨_, _, hv⟩ | ⟨m, n, pks, _, _, _, hm, hs⟩
  · simp [noSig] at hv
  · simp [noSig] at hv
  · obtain ⟨k, s, hv⟩ := signedBy_pos_has_sig noSig () pks _ m hm hs
    simp [noSig] at hv

/-- **No valid signature, no acceptance** (this is what makes a tampered transaction fail: a
    signature made over other bytes does not verify over these). If no (key, signature) pair
    verifies over `d` — for the ECDSA oracle and the Schnorr oracle alike — then `RunPrograms`
    rejects every non-empty spend whose programs are of known kinds and whose addresses are not
    cross-chain prefixed. -/
theorem C05_unsigned_rejected {D : Type} (O : Oracles D) (d : D) (hs : List PH) (ps : List Program)
    (hv : ∀ k s, O.verify k d s = false) (hsv : ∀ k s, O.schnorr k d s = false)
    (hne : hs ≠ []) (hk : ∀ p ∈ ps, KnownKind p) (hx : ∀ h ∈ hs, h.pfx ≠ PrefixCrossChain) :
    runPrograms Fix.all O d hs ps ≠ ok := by
  intro h
  match hs, hne with
  | ph :: rest, _ =>
    obtain ⟨p, _, _, ha⟩ := C05_run_sound_partial O d (ph :: rest) ps hk hx h ph (by simp)
    rcases ha with ⟨_, _, hs1⟩ | ⟨_, _, hs1⟩ | ⟨m, n, pks, _, _, _, hm, hsb⟩
    · rw [hsv] at hs1; cases hs1
    · rw [hv] at hs1; cases hs1
    · obtain ⟨k, s, hks⟩ := signedBy_pos_has_sig O d pks _ m hm hsb
      rw [hv] at hks; cases hks

/-- **Tamper, standard and Schnorr programs.** For a scheme in which no signature is valid for two
    different messages `d`, `d'`, a single standard or Schnorr program accepted over `d` is rejected
    over `d'`. (For m-of-n the corresponding fact is `C05_unsigned_rejected`: extra chunks of the
    parameter may legitimately carry signatures over `d'`.) -/
theorem C05_tamper {D : Type} (O : Oracles D) (d d' : D) (ph : PH) (p : Program)
    (hb : ∀ k s, O.verify k d s = true → O.verify k d' s = false)
    (hbs : ∀ k s, O.schnorr k d s = true → O.schnorr k d' s = false)
    (hkind : isSchnorr p.code = .val true ∨ isStandard p.code = .val true)
    (hx : ph.pfx ≠ PrefixCrossChain)
    (h : runPrograms Fix.all O d [ph] [p] = ok) : runPrograms Fix.all O d' [ph] [p] ≠ ok := by
  intro h'
  have hk : ∀ q ∈ [p], KnownKind q := by
    intro q hq; simp only [List.mem_singleton] at hq; subst hq
    rcases hkind with hk | hk
    · exact Or.inl hk
    · exact Or.inr (Or.inl hk)
  have hxx : ∀ h ∈ [ph], h.pfx ≠ PrefixCrossChain := by
    intro q hq; simp only [List.mem_singleton] at hq; subst hq; exact hx
  obtain ⟨q, hq, _, ha⟩ := C05_run_sound_partial O d [ph] [p] hk hxx h ph (by simp)
  obtain ⟨q', hq', _, ha'⟩ := C05_run_sound_partial O d' [ph] [p] hk hxx h' ph (by simp)
  rw [List.mem_singleton] at hq hq'
  rw [hq] at ha
  rw [hq'] at ha'
  -- a 35-byte code cannot be parsed as a multisig script (needs ≥ 71 bytes)
  have hlen : p.code.length = 35 := by
    rcases hkind with hk1 | hk1
    · exact isSchnorr_len hk1
    · exact isStandard_len hk1
  have noMulti : ∀ (dd : D), ¬ MultiAuth O dd MULTISIG p 1 := by
    intro dd ⟨m, n, pks, _, hps, _⟩
    unfold parseScript at hps
    rw [if_pos (by omega)] at hps
    cases hps
  rcases ha with ⟨hsch1, _, s1⟩ | ⟨hst1, _, s1⟩ | hm
  · rcases ha' with ⟨_, _, s2⟩ | ⟨hst2, _, _⟩ | hm'
    · rw [hbs _ _ s1] at s2; cases s2
    · exact isSchnorr_not_standard hsch1 hst2
    · exact noMulti d' hm'
  · rcases ha' with ⟨hsch2, _, _⟩ | ⟨_, _, s2⟩ | hm'
    · exact isSchnorr_not_standard hsch2 hst1
    · rw [hb _ _ s1] at s2; cases s2
    · exact noMulti d' hm'
  · exact noMulti d hm


/-! ## the layer above RunPrograms: checkTransactionSignature -/
open ElaVerif.TxSig in
/-- **Transaction level (partial).** If `checkTransactionSignature` accepts a transaction whose
    (type, payload version) is *not* in the exemption, whose programs are of known kinds and which
    spends no cross-chain prefixed address, then every address it spends from — the program hash of
    every referenced output and every well-formed Script attribute — has a program of the transaction
    whose code hashes to it and whose signatures verify over the unsigned bytes `d`.
    (De-duplication keeps every address; sorting both lists is a permutation.) -/
theorem C05_tx_sound_partial {D : Type} (v : Variant) (O : Oracles D) (d : D) (t : Tx)
    (hne : exempt v t.ttype t.pver = false)
    (hk : ∀ p ∈ t.programs, KnownKind p)
    (hx : ∀ h ∈ t.refs, h.pfx ≠ PrefixCrossChain)
    (hxs : ∀ ss, scriptHashes? t.scripts = some ss → ∀ h ∈ ss, h.pfx ≠ PrefixCrossChain)
    (h : checkTxSig v Fix.all O d t = ok) :
    ∃ ss, scriptHashes? t.scripts = some ss ∧ ∀ ph ∈ t.refs ++ ss, ∃ p ∈ t.programs, Authorised O d ph p := by
  unfold checkTxSig at h
  rw [hne] at h
  simp only [Bool.false_eq_true, if_false] at h
  unfold getTxProgramHashes at h
  cases hs : scriptHashes? t.scripts with
  | none => rw [hs] at h; cases h
  | some ss =>
    rw [hs] at h
    simp only at h
    refine ⟨ss, rfl, ?_⟩
    intro ph hph
    have hall : ∀ q ∈ dedupe (t.refs ++ ss), q.pfx ≠ PrefixCrossChain := by
      intro q hq
      have := dedupe_sub _ q hq
      simp only [List.mem_append] at this
      rcases this with hq | hq
      · exact hx q hq
      · exact hxs ss hs q hq
    exact C05_run_sound_sorted_partial O d (dedupe (t.refs ++ ss)) _ t.programs _
      (sortBy_perm _ _) (sortBy_perm _ _) hk hall h ph (mem_dedupe _ ph hph)

open ElaVerif.TxSig in
/-- The exemption is unconditional: an exempt (type, version) is accepted whatever programs,
    references and attributes the transaction carries. This is why the table below is reviewed. -/
theorem C05_tx_exempt_accepts {D : Type} (v : Variant) (O : Oracles D) (d : D) (t : Tx)
    (he : exempt v t.ttype t.pver = true) : checkTxSig v Fix.all O d t = ok := by
  unfold checkTxSig; rw [he]; rfl

open ElaVerif.TxSig in
/-- the reviewed exemption table of core/transaction.checkTransactionSignature, by type:
    NextTurnDPOSInfo 0x14, CRCProposalWithdraw 0x29 (payload version 0 only), CRCProposalRealWithdraw 0x2a,
    CRAssetsRectify 0x2b, DposV2ClaimRewardRealWithdraw 0x61, VotesRealWithdraw 0x65 -/
def grid : List (Nat × Nat) :=
  Gen.C05.txTypes.flatMap (fun t => (List.range (Gen.C05.maxVersion + 1)).map (fun v => (t, v)))

open ElaVerif.TxSig in
/-- **T-gen.** On the working tree, the (type, payload version) pairs that the real functions accept
    with a foreign, unsigned program — probed for every known transaction type × versions 0..7 —
    are exactly the pairs the model's `exempt` names, for both variants; every probe answered; and
    the source text of the two exemption conditions is the reviewed one. -/
theorem C05_gen_exempt :
    Gen.C05.exemptTx = grid.filter (fun tv => exempt .tx tv.1 tv.2) ∧
    Gen.C05.exemptBc = grid.filter (fun tv => exempt .bc tv.1 tv.2) ∧
    Gen.C05.probeOdd = [] ∧
    Gen.C05.exemptCondTx = "(tx.IsCRCProposalWithdrawTx() && tx.PayloadVersion() == payload.CRCProposalWithdrawDefault) || tx.IsCRAssetsRectifyTx() || tx.IsCRCProposalRealWithdrawTx() || tx.IsNextTurnDPOSInfoTx() || tx.IsDposV2ClaimRewardRealWithdraw() || tx.IsVotesRealWithdrawTX()" ∧
    Gen.C05.exemptCondBc = "(tx.IsCRCProposalWithdrawTx() && tx.PayloadVersion() == payload.CRCProposalWithdrawDefault) || tx.IsCRAssetsRectifyTx() || tx.IsCRCProposalRealWithdrawTx() || tx.IsNextTurnDPOSInfoTx()" := by
  refine ⟨by decide, by decide, rfl, rfl, rfl⟩

/-- non-vacuity: a TransferAsset spending one standard address twice (two inputs) with its one signed program -/
example : ElaVerif.TxSig.checkTxSig .tx Fix.all toy ()
    ⟨0x02, 0, [⟨0x21, [33, 5]⟩, ⟨0x21, [33, 5]⟩], [], [⟨stdCode 5, 64 :: 5 :: List.replicate 63 0⟩]⟩ = ok := by decide
/-- CRCProposalWithdraw payload version 1 is not exempt -/
example : ElaVerif.TxSig.exempt .tx 0x29 1 = false ∧ ElaVerif.TxSig.exempt .tx 0x29 0 = true := by decide

/-! ## ties: addresses with equal code hashes -/

/-- key scripts for the tie witness: two 34-byte pushes, the first with a wrong push marker 0x20 (so
    `IsMultiSig` says no, while `CheckMultiSigSignatures` — which never looks at the marker — parses it) -/
def tieCode : Bytes := [0x51] ++ (0x20 :: 5 :: List.replicate 32 0) ++ (33 :: 6 :: List.replicate 32 0) ++ [0x52, 0xAE]
/-- toy scheme keyed on the first key byte after the marker -/
def toyT : Oracles Unit :=
  ⟨fun _ => true, fun k _ s => k.head? == s.head? && k.head?.isSome, fun _ _ _ => false, fun c => c.take 3⟩

open ElaVerif.TxSig in
/-- **NEGATION: the verdict can depend on the order of tied addresses.** A transaction spends the
    standard-prefixed and the multisig-prefixed address of `tieCode` (equal code hashes) and carries the
    program twice, once signed and once unsigned.  If the sort leaves the standard-prefixed hash first it is
    paired with the signed program... and the multisig-prefixed one with the unsigned program ⇒ rejected; in
    the other order the unsigned program meets the signature-free fall-through and the signed one the
    multisig check ⇒ accepted.  Go takes the hashes out of a map, so both orders occur on the real node
    (replayed: `corpus/C05/witnesses.ops`, answer `err msNotEnough|ok`). -/
theorem C05_tie_order_matters_false :
    let t : Tx := ⟨0x02, 0, [⟨0x21, tieCode.take 3⟩, ⟨0x12, tieCode.take 3⟩], [],
                   [⟨tieCode, sigOf 5⟩, ⟨tieCode, []⟩]⟩
    checkTxSigWith .tx Fix.all toyT () t false false ≠ checkTxSigWith .tx Fix.all toyT () t true false ∧
    (checkTxSigWith .tx Fix.all toyT () t false false = ok ∨ checkTxSigWith .tx Fix.all toyT () t true false = ok) := by
  decide

end ElaVerif.C05
