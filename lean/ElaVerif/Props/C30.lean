import ElaVerif.Model.Node
import ElaVerif.Lemmas.Node
import ElaVerif.Gen.C30
import ElaVerif.Model.Irr
/-!
  C30 — irreversible blocks are never detached.

  `isIrreversible` (Model/Node.lean) transcribes `State.IsIrreversible`; `sideOrReorg` consults it
  exactly where `connectBestChain` does, with the tip height and the number of blocks to detach.
  `tryUpdate` below transcribes `State.tryUpdateLastIrreversibleHeight`; both transcriptions are tied
  to the source text by `C30_gen_*`. Claimed **partial**: the DPoS state fields the guard reads are
  set by the harness (a PoW-era regnet node never advances them itself), and `tryUpdate` is tied to
  the source by regenerated facts, not by execution.
-/
namespace ElaVerif.C30
open ElaVerif.Index ElaVerif.Node ElaVerif.Irr

/-- **C30 (guard).** While the guard says "irreversible", a side-chain block never changes the
    active chain, whatever its height. -/
theorem C30_guard (s : NState) (b : Block) (h : isIrreversible s s.tip.height (reorgPlan s b).1 = true) :
    (sideOrReorg s b).1.active = s.active ∧ (sideOrReorg s b).2 = .side := by
  unfold sideOrReorg
  by_cases h1 : chainWork s b ≤ chainWork s s.tip
  · simp [h1, cleanPool]
  · simp [h1, h, cleanPool]

/-- **C30 (what the guard protects).** Above `CRCOnlyDPOSHeight`, a reorganisation that the guard
    lets through detaches only blocks above the last irreversible height: with `cur` the tip height
    and `d` the number of blocks to detach, every detached height `h > cur − d` satisfies `h > lih`. -/
theorem C30_detached_above_lih (s : NState) (cur d : Nat) (hg : cur > s.P.guardFrom)
    (h : isIrreversible s cur d = false) : ∀ ht, cur - d < ht → s.lih < ht := by
  intro ht hlt
  unfold isIrreversible at h
  have h1 : ¬ cur ≤ s.P.guardFrom := by omega
  simp only [h1, if_false] at h
  by_cases h2 : cur - d ≤ s.lih
  · simp [h2] at h
  · omega

/-- … and at most `IrreversibleHeight` blocks deep (fewer in DPoS mode after the revert-to-PoW era began) -/
theorem C30_depth_bound (s : NState) (cur d : Nat) (hg : cur > s.P.guardFrom)
    (h : isIrreversible s cur d = false) :
    (cur < s.revertStart → d ≤ 6) ∧ (cur ≥ s.revertStart → s.dpos = true → d < 6) := by
  unfold isIrreversible at h
  have h1 : ¬ cur ≤ s.P.guardFrom := by omega
  simp only [h1, if_false] at h
  by_cases h2 : cur - d ≤ s.lih
  · simp [h2] at h
  · simp only [h2, if_false] at h
    constructor
    · intro h3
      have : ¬ cur ≥ s.revertStart := by omega
      simp only [this, if_false] at h
      simpa using h
    · intro h3 h4
      simp only [h3, if_true, h4, Bool.true_and] at h
      simpa using h

/-! ### the last irreversible height moves forward only -/

theorem applyDpos_spec (st : Irr) (height : Nat) (ho adv : Bool)
    (hinv : st.lih ≤ st.dposStart) (hh : st.dposStart ≤ height) (hmax : height + 1 < 2 ^ 32) :
    st.lih ≤ (applyDpos st height ho adv).lih ∧ (applyDpos st height ho adv).lih ≤ (applyDpos st height ho adv).dposStart ∧
      (applyDpos st height ho adv).dposStart ≤ height + 1 := by
  have m1 : (height + 1) % 2 ^ 32 = height + 1 := Nat.mod_eq_of_lt hmax
  have m2 : (st.dposStart + 1) % 2 ^ 32 = st.dposStart + 1 := Nat.mod_eq_of_lt (by omega)
  cases ho <;> cases adv <;> simp [applyDpos, m1, m2] <;> omega

/-- **C30 (monotone).** On the forward path (block height at least `DPOSStartHeight`, at least 6, below 2³²−1)
    the last irreversible height never decreases and `lih ≤ DPOSStartHeight ≤ height + 1` is kept. The
    bound is `height + 1`, not `height`: see `C30_lih_above_height`. -/
theorem C30_monotone (rs : Nat) (st : Irr) (height : Nat)
    (hinv : st.lih ≤ st.dposStart) (hh : st.dposStart ≤ height) (h6 : 6 ≤ height) (hmax : height + 1 < 2 ^ 32) :
    st.lih ≤ (tryUpdate rs st height).lih ∧ (tryUpdate rs st height).lih ≤ (tryUpdate rs st height).dposStart ∧
      (tryUpdate rs st height).dposStart ≤ height + 1 := by
  have h6' : sub32 height 6 = height - 6 := by unfold sub32; omega
  unfold tryUpdate tryUpdateE
  by_cases c0 : height < rs
  · simp only [c0, if_true]
    exact ⟨Nat.le_refl _, hinv, by omega⟩
  · by_cases c1 : st.lih = 0
    · simp only [c0, c1, if_false, if_true, h6']
      refine ⟨by omega, Nat.le_refl _, by omega⟩
    · by_cases c2 : st.dpos = true
      · simp only [c0, c1, c2, if_false, if_true]
        exact applyDpos_spec st height _ _ hinv hh hmax
      · simp only [c0, c1, c2, if_false, Bool.false_eq_true]
        exact ⟨Nat.le_refl _, hinv, by omega⟩

/-- the recorded last irreversible height can exceed the height of the block that set it (hand-over
    block with a stale `DPOSStartHeight`): the full statement "lih ≤ best height" is false of the code -/
theorem C30_lih_above_height :
    ¬ (∀ (rs : Nat) (st : Irr) (height : Nat), st.lih ≤ st.dposStart → st.dposStart ≤ height →
        (tryUpdate rs st height).lih ≤ height) := by
  intro h
  have := h 10 { lih := 14, dposStart := 14, dposWork := 30, dpos := true } 31 (by decide) (by decide)
  revert this
  decide

/-- over any strictly increasing run of block heights the last irreversible height is non-decreasing -/
theorem C30_monotone_run (rs : Nat) (hs : List Nat) (st : Irr)
    (hinv : st.lih ≤ st.dposStart) (hh : ∀ h ∈ hs, st.dposStart ≤ h ∧ 6 ≤ h ∧ h + 1 < 2 ^ 32)
    (hsorted : hs.Pairwise (· < ·)) :
    st.lih ≤ (hs.foldl (tryUpdate rs) st).lih := by
  induction hs generalizing st with
  | nil => exact Nat.le_refl _
  | cons h r ih =>
    simp only [List.foldl_cons]
    have h0 := hh h (List.mem_cons_self ..)
    have hstep := C30_monotone rs st h hinv h0.1 h0.2.1 h0.2.2
    have hle : ∀ x ∈ r, (tryUpdate rs st h).dposStart ≤ x ∧ 6 ≤ x ∧ x + 1 < 2 ^ 32 := fun x hx => by
      have := (List.pairwise_cons.mp hsorted).1 x hx
      have := hh x (List.mem_cons_of_mem _ hx)
      omega
    exact Nat.le_trans hstep.1 (ih _ hstep.2.1 hle (List.pairwise_cons.mp hsorted).2)

/-- **Full statement (false) once rollbacks are in the history.** "The recorded height never decreases while
    the node moves forward": after `RollbackTo` the advance entry's rollback closure has restored
    `DPOSStartHeight` but not `LastIrreversibleHeight`; the next forward block recomputes it from
    `DPOSStartHeight` and lowers it (15 → 14). Same input on the real State: corpus/C30/decrease_after_rollback.ops
    (known finding C30-lih-decreases-after-rollback, a consequence of C21-last-irreversible-height). -/
theorem C30_decrease_after_rollback_false :
    ¬ (∀ (rs : Nat) (h : Hist) (back next : Nat), back < next → 6 ≤ next →
        (rollbackTo h back).st.lih ≤ (step rs (rollbackTo h back) next).st.lih) := by
  intro hall
  have := hall 6 ([16, 17, 18, 19, 20].foldl (step 6) { st := { lih := 12, dposStart := 13, dposWork := 0, dpos := true } })
    18 19 (by decide) (by decide)
  revert this
  decide

/-- rolling a height back never raises the last irreversible height; it restores it only for the
    initialising entry — the other two rollback closures put back `DPOSStartHeight` alone -/
theorem C30_undo_le (st : Irr) (r : Rec) (h : r.oriLih ≤ st.lih) : (undo st r).lih ≤ st.lih := by
  unfold undo
  cases r.entry <;> simp [h]

example : (tryUpdate 10 { lih := 0, dposStart := 0, dposWork := 0, dpos := true } 20).lih = 14 := by decide
example : (tryUpdate 10 { lih := 14, dposStart := 14, dposWork := 0, dpos := true } 21).lih = 15 := by decide
example : (tryUpdate 10 { lih := 15, dposStart := 15, dposWork := 30, dpos := true } 31).lih = 32 := by decide
example : (tryUpdate 10 { lih := 28, dposStart := 28, dposWork := 30, dpos := true } 31).dposStart = 31 := by decide

/-! ### ties to the source -/

/-- the guard is consulted by both functions that can start a (restoring-free) reorganisation, and both hand it
    the best height and the number of blocks to detach (`ReorganizeChain` passed the target block's height until
    /repo 73f0de75); `ReorganizeChain2` (rollback tool path) has no guard — recorded -/
theorem C30_gen_sites :
    Gen.C30.guardSites =
      ["ReorganizeChain: b.state.IsIrreversible(b.BestChain.Height, detachNodes.Len())",
       "connectBestChain: b.state.IsIrreversible(b.BestChain.Height, detachNodes.Len())"] ∧
    Gen.C30.reorgSites =
      ["ReorganizeChain2: b.reorganizeChain2", "ReorganizeChain: b.reorganizeChain",
       "connectBestChain: b.reorganizeChain"] := by
  constructor <;> decide

/-- the statements of the two Go functions are the ones transcribed above -/
theorem C30_gen_bodies :
    Gen.C30.irreversibleHeight = 6 ∧
    Gen.C30.isIrreversibleBody =
      ["if curBlockHeight <= s.ChainParams.CRCOnlyDPOSHeight", "return false",
       "if curBlockHeight-uint32(detachNodesLen) <= s.LastIrreversibleHeight", "return true",
       "if curBlockHeight >= s.ChainParams.DPoSConfiguration.RevertToPOWStartHeight",
       "if s.ConsensusAlgorithm == DPOS", "if detachNodesLen >= IrreversibleHeight", "return true",
       "if detachNodesLen > IrreversibleHeight", "return true", "return false"] ∧
    Gen.C30.tryUpdateBody =
      ["if height < s.ChainParams.DPoSConfiguration.RevertToPOWStartHeight",
       "if s.LastIrreversibleHeight == 0",
       "s.LastIrreversibleHeight = height - IrreversibleHeight",
       "s.DPOSStartHeight = s.LastIrreversibleHeight",
       "s.LastIrreversibleHeight = oriLastIrreversibleHeight", "s.DPOSStartHeight = oriDPOSStartHeight",
       "if s.ConsensusAlgorithm == DPOS",
       "if s.DPOSWorkHeight != 0 && height == s.DPOSWorkHeight+1", "s.DPOSStartHeight = height",
       "s.DPOSStartHeight = oriDPOSStartHeight",
       "if height-s.DPOSStartHeight >= IrreversibleHeight", "s.DPOSStartHeight++",
       "s.LastIrreversibleHeight = s.DPOSStartHeight", "s.DPOSStartHeight = oriDPOSStartHeight"] := by
  refine ⟨by decide, by decide, by decide⟩

/-- a restart from a checkpoint keeps the recorded height (and the other three fields), and nothing of the
    time before it can be rolled back afterwards -/
theorem C30_reload (h : Hist) (k : Nat) : (reload h).st = h.st ∧ rollbackTo (reload h) k = reload h := by
  constructor
  · rfl
  · simp [reload, rollbackTo]

/-- **C30 for the work-unchecked entry.** `reorgTo` = the exported `BlockChain.ReorganizeChain` on an indexed block
    (a DPoS-confirmed block on a fork): above `CRCOnlyDPOSHeight` it either leaves the active chain alone (block not
    indexed, or the guard refuses) or it runs the reorganisation of `reorgPlan`, and then every detached height —
    the heights above `tip − detach` — lies above the recorded last irreversible height. -/
theorem C30_reorgto (s : NState) (id : Nat) (hg : s.tip.height > s.P.guardFrom) :
    (reorgTo s id).1 = s ∨
    ∃ b, s.known.find? (·.id == id) = some b ∧
      reorgTo s id = reorganize s (reorgPlan s b).1 (reorgPlan s b).2 ∧
      ∀ ht, s.tip.height - (reorgPlan s b).1 < ht → s.lih < ht := by
  unfold reorgTo reorgToWith
  cases hf : s.known.find? (·.id == id) with
  | none => left; rfl
  | some b =>
    simp only
    by_cases hi : isIrreversible s s.tip.height (reorgPlan s b).1 = true
    · left; simp [hi]
    · right
      have hi' : isIrreversible s s.tip.height (reorgPlan s b).1 = false := by simpa using hi
      exact ⟨b, rfl, by simp [hi'], C30_detached_above_lih s s.tip.height (reorgPlan s b).1 hg hi'⟩

/-- with the target block's height in the guard (the code before /repo 73f0de75) the protection is not there: the
    guard can pass although the fork point `tip − detach` is at or below the last irreversible height -/
example : ∃ (tip target detach lih : Nat), target - detach > lih ∧ tip - detach ≤ lih :=
  ⟨17, 20, 7, 12, by decide, by decide⟩

end ElaVerif.C30
