import ElaVerif.Model.CCPolicy
import ElaVerif.Model.PolicyCtx
import ElaVerif.Lemmas.CCPolicy
import ElaVerif.Gen.C31
/-!
# C31 — cross-chain UTXO spending follows the emergency policy

Property theorems about `ElaVerif.CCPolicy.ccPolicy` (model of
`checkTransactionCrossChainUTXO`) and `setupHeights` (model of what
`Settings.SetupConfig` does to the two heights), for **all** transaction types,
payload versions, reference prefix mixes, heights, net names and config files.
The `C31_gen_*` lemmas tie the model's constants, case lists and call order to
facts regenerated from the working tree.
-/
namespace ElaVerif.C31
open ElaVerif.CCPolicy

/-! ## the decision function -/

/-- Freeze window: at heights `f ≤ h < r` nothing that spends a cross-chain UTXO is accepted,
    whatever the transaction type / payload version. -/
theorem C31_freeze (ty ver : Nat) (ps : List Nat) (h f r : Nat)
    (hf : f ≤ h) (hr : h < r) (hcc : hasCC ps = true) :
    ccPolicy ty ver ps h f r = .frozen := by
  unfold ccPolicy
  have h1 : ¬ h < f := by omega
  simp [h1, hcc, hr]

example : ccPolicy tyWithdraw 2 [0x21, 0x4B] 150 100 200 = .frozen := by decide

/-- From the restriction height on, a transaction spending a cross-chain UTXO is accepted
    **exactly if** it is a WithdrawFromSideChain of payload version 0, 1 or 2, or a legacy
    (version 0) ReturnSideChainDepositCoin all of whose referenced outputs are cross-chain ones. -/
theorem C31_restricted_iff (ty ver : Nat) (ps : List Nat) (h f r : Nat)
    (hf : f ≤ h) (hr : r ≤ h) (hcc : hasCC ps = true) :
    ccPolicy ty ver ps h f r = .ok ↔
      ((ty = tyWithdraw ∧ (ver = 0 ∨ ver = 1 ∨ ver = 2)) ∨
       (ty = tyReturn ∧ ver = 0 ∧ ∀ p ∈ ps, p = prefixCrossChain)) := by
  have h1 : ¬ h < f := by omega
  have h2 : ¬ h < r := by omega
  have hne : tyReturn ≠ tyWithdraw := by decide
  rw [← okWithdrawVer_iff, ← allCC_iff]
  unfold ccPolicy
  simp only [h1, hcc, h2, decide_false, Bool.not_true, Bool.or_self, Bool.false_eq_true, ↓reduceIte]
  by_cases hw : ty = tyWithdraw
  · subst hw
    by_cases hv : okWithdrawVer ver = true
    · simp [hv]
    · simp [hv]; intro hc; exact absurd hc.symm hne
  · have hw' : (ty == tyWithdraw) = false := by simp [hw]
    simp only [hw', Bool.false_eq_true, ↓reduceIte]
    by_cases hrt : ty = tyReturn
    · subst hrt
      by_cases hv : ver = legacyReturnVersion
      · subst hv
        by_cases ha : allCC ps = true
        · simp [ha, legacyReturnVersion]
        · simp [ha, legacyReturnVersion, hw]
      · have hv' : (ver != legacyReturnVersion) = true := by simp [hv]
        have hv0 : ver ≠ 0 := hv
        simp [hv', hw, hv0]
    · have hr' : (ty != tyReturn) = true := by simp [hrt]
      simp [hr', hw, hrt]

/-- The "only" direction as the property states it, with ordered thresholds `f ≤ r`. -/
theorem C31_restricted (ty ver : Nat) (ps : List Nat) (h f r : Nat)
    (hfr : f ≤ r) (hr : r ≤ h) (hcc : hasCC ps = true)
    (hok : ccPolicy ty ver ps h f r = .ok) :
    (ty = tyWithdraw ∧ (ver = 0 ∨ ver = 1 ∨ ver = 2)) ∨
    (ty = tyReturn ∧ ver = 0 ∧ ∀ p ∈ ps, p = prefixCrossChain) :=
  (C31_restricted_iff ty ver ps h f r (by omega) hr hcc).1 hok

example : ccPolicy tyReturn 0 [0x4B, 0x4B] 200 100 200 = .ok := by decide
example : ccPolicy tyReturn 0 [0x4B, 0x21] 200 100 200 = .mixedReturn := by decide
example : ccPolicy tyReturn 1 [0x4B] 200 100 200 = .notLegacyReturn := by decide
example : ccPolicy tyWithdraw 3 [0x4B] 200 100 200 = .badWithdrawVer := by decide
example : ccPolicy 2 0 [0x4B] 200 100 200 = .notBridgeTx := by decide

/-- Before the freeze height the check is a no-op (history stays syncable). -/
theorem C31_before_freeze_noop (ty ver : Nat) (ps : List Nat) (h f r : Nat) (hf : h < f) :
    ccPolicy ty ver ps h f r = .ok := by
  unfold ccPolicy; simp [hf]

/-- Transactions that reference no cross-chain UTXO are never affected. -/
theorem C31_no_cc_noop (ty ver : Nat) (ps : List Nat) (h f r : Nat) (hcc : hasCC ps = false) :
    ccPolicy ty ver ps h f r = .ok := by
  unfold ccPolicy; simp [hcc]

/-- `references` is a Go map: the verdict does not depend on the iteration order
    (nor on multiplicities), so the list model is exact. -/
theorem C31_order_irrelevant (ty ver : Nat) (ps qs : List Nat) (h f r : Nat)
    (hpq : ∀ p, p ∈ ps ↔ p ∈ qs) :
    ccPolicy ty ver ps h f r = ccPolicy ty ver qs h f r := by
  have h1 : hasCC ps = hasCC qs := by
    rw [Bool.eq_iff_iff]
    simp only [hasCC, List.any_eq_true, beq_iff_eq]
    constructor
    · rintro ⟨x, hx, hx'⟩; exact ⟨x, (hpq x).1 hx, hx'⟩
    · rintro ⟨x, hx, hx'⟩; exact ⟨x, (hpq x).2 hx, hx'⟩
  have h2 : allCC ps = allCC qs := by
    rw [Bool.eq_iff_iff, allCC_iff, allCC_iff]
    constructor
    · intro hh x hx; exact hh x ((hpq x).2 hx)
    · intro hh x hx; exact hh x ((hpq x).1 hx)
  unfold ccPolicy; rw [h1, h2]

/-! ## configuration -/

/-- On mainnet (ActiveNet empty, "mainnet" or "main" in any letter case) both heights are the
    coordinated constants whatever the configuration file says. -/
theorem C31_mainnet_constants (name : List Nat) (fc : FileCfg) (hm : isMainnetName name = true) :
    setupHeights name fc = ⟨mainnetFreeze, mainnetRestrict⟩ := by
  simp [setupHeights, enforceHeights, hm]

example : isMainnetName (str "MainNet") = true := by decide
example : setupHeights (str "MAIN") ⟨some 0, some 0⟩ = ⟨2256110, 2256724⟩ := by decide

/-- Every other network keeps the policy disabled whatever the configuration file says. -/
theorem C31_others_disabled (name : List Nat) (fc : FileCfg) (hm : isMainnetName name = false) :
    setupHeights name fc = ⟨disabledHeight, disabledHeight⟩ := by
  simp [setupHeights, enforceHeights, hm]

example : setupHeights (str "testnet") ⟨some 5, some 9⟩ = ⟨4294967295, 4294967295⟩ := by decide
example : setupHeights (str "private-net") ⟨some 5, none⟩ = ⟨4294967295, 4294967295⟩ := by decide

/-- The thresholds that come out of the configuration step are always ordered, so
    `C31_restricted` applies to every configured node. -/
theorem C31_enforced_ordered (name : List Nat) (fc : FileCfg) :
    (setupHeights name fc).freeze ≤ (setupHeights name fc).restrict := by
  cases hm : isMainnetName name
  · rw [C31_others_disabled name fc hm]; decide
  · rw [C31_mainnet_constants name fc hm]; decide

/-- Disabled means disabled: with both heights at `math.MaxUint32` the check accepts at every
    height a chain can reach before the very last `uint32` value. -/
theorem C31_disabled_noop (ty ver : Nat) (ps : List Nat) (h : Nat) (hh : h < disabledHeight) :
    ccPolicy ty ver ps h disabledHeight disabledHeight = .ok :=
  C31_before_freeze_noop ty ver ps h _ _ hh

/-- End to end on mainnet: for any config file, the configured node freezes cross-chain spends
    in `[2256110, 2256724)` and restricts them afterwards. -/
theorem C31_mainnet_policy (name : List Nat) (fc : FileCfg) (hm : isMainnetName name = true)
    (ty ver : Nat) (ps : List Nat) (h : Nat) (hcc : hasCC ps = true) :
    let H := setupHeights name fc
    (2256110 ≤ h → h < 2256724 → ccPolicy ty ver ps h H.freeze H.restrict = .frozen) ∧
    (2256724 ≤ h → ccPolicy ty ver ps h H.freeze H.restrict = .ok →
        (ty = tyWithdraw ∧ (ver = 0 ∨ ver = 1 ∨ ver = 2)) ∨
        (ty = tyReturn ∧ ver = 0 ∧ ∀ p ∈ ps, p = prefixCrossChain)) := by
  intro H
  have hH : H = ⟨mainnetFreeze, mainnetRestrict⟩ := C31_mainnet_constants name fc hm
  rw [hH]
  constructor
  · intro h1 h2
    exact C31_freeze ty ver ps h _ _ (by simp [mainnetFreeze]; omega) (by simp [mainnetRestrict]; omega) hcc
  · intro h1 hok
    exact C31_restricted ty ver ps h _ _ (by decide) (by simp [mainnetRestrict]; omega) hcc hok

/-! ## ties to the regenerated facts -/

/-- the constants of the model are the constants of the source -/
theorem C31_gen_constants :
    Gen.C31.mainnetFreeze = mainnetFreeze ∧ Gen.C31.mainnetRestrict = mainnetRestrict ∧
    Gen.C31.disabledHeight = disabledHeight ∧ Gen.C31.prefixCrossChain = prefixCrossChain ∧
    Gen.C31.tyWithdraw = tyWithdraw ∧ Gen.C31.tyReturn = tyReturn ∧
    Gen.C31.legacyReturnVersion = legacyReturnVersion ∧
    Gen.C31.paramHeights = [(mainnetFreeze, mainnetRestrict), (disabledHeight, disabledHeight),
                            (disabledHeight, disabledHeight)] := by decide

/-- the version `switch` of the policy has exactly the accepting clause `0,1,2` and a default,
    and the only other version test is `!= legacy return version` -/
theorem C31_gen_version_switch :
    Gen.C31.policyVersionCases = [withdrawVersions, []] ∧
    Gen.C31.versionComparisons = [("!=", legacyReturnVersion)] := by decide

/-- for every transaction type the node can build, the two type predicates used by the policy
    are equality with the two type codes of the model; both codes are buildable types -/
theorem C31_gen_type_table :
    (∀ row ∈ Gen.C31.typeTable, row.2.1 = (row.1 == tyWithdraw) ∧ row.2.2 = (row.1 == tyReturn)) ∧
    (Gen.C31.typeTable.map (·.1)).contains tyWithdraw = true ∧
    (Gen.C31.typeTable.map (·.1)).contains tyReturn = true := by decide

/-- only the coinbase transaction replaces the default context check, and the default context
    check runs the policy (and the frozen-address check) before the type-specific checks,
    fee and signature checks -/
theorem C31_gen_context_check :
    Gen.C31.contextCheckReceivers = ["CoinBaseTransaction", "DefaultChecker"] ∧
    firstBefore "core/transaction.checkTransactionCrossChainUTXO"
      "(core/types/interfaces.BaseTransactionChecker).SpecialContextCheck" Gen.C31.defaultContextCheckCalls = true ∧
    firstBefore "(*core/transaction.DefaultChecker).GetTxReference"
      "core/transaction.checkTransactionCrossChainUTXO" Gen.C31.defaultContextCheckCalls = true := by decide

/-- the enforcement switch: mainnet names ↦ the two constants, default ↦ disabled -/
theorem C31_gen_enforce :
    Gen.C31.enforceCases.map (·.map str) = [mainnetNames, []] ∧
    Gen.C31.enforceAssigns =
      [[("configuration.CrossChainUTXOFreezeHeight", mainnetFreeze),
        ("configuration.CrossChainUTXORestrictionHeight", mainnetRestrict)],
       [("configuration.CrossChainUTXOFreezeHeight", disabledHeight),
        ("configuration.CrossChainUTXORestrictionHeight", disabledHeight)]] := by decide

/-- in `SetupConfig` nothing that can change the configuration (config file, command line
    binding, network presets) runs after the enforcement step, which precedes `Sterilize` -/
theorem C31_gen_setup_order :
    Gen.C31.setupNetCases.map (·.map str) = [testnetNames, regnetNames] ∧
    allBefore ["(*common/config/settings.Settings).loadConfigFile", "github.com/RainFallsSilent/screw.Bind",
               "(*common/config.Configuration).TestNet", "(*common/config.Configuration).RegNet",
               "(*common/config.Configuration).InstantBlock"]
      "common/config/settings.enforceCrossChainUTXORestrictionHeights" Gen.C31.setupConfigCalls = true ∧
    firstBefore "common/config/settings.enforceCrossChainUTXORestrictionHeights"
      "(*common/config.Configuration).Sterilize" Gen.C31.setupConfigCalls = true := by decide

/-- the policy is called with the transaction, the resolved references, the **block height of the
    validation context** and the two configured heights, in this order -/
theorem C31_gen_call_args :
    Gen.C31.policyCallArgs =
      ["t.parameters.Transaction", "references", "t.parameters.BlockHeight",
       "t.parameters.Config.CrossChainUTXOFreezeHeight", "t.parameters.Config.CrossChainUTXORestrictionHeight"] := by
  decide

/-! ## through `ContextCheck` (model of the `ctx` ops: the real context check on an in-process node) -/

open ElaVerif.PolicyCtx in
/-- In the freeze window the context check does not pass a transaction that spends a cross-chain
    UTXO — whatever the frozen list says, whatever the outputs are. -/
theorem C31_context_freeze (ty ver h f r : Nat) (frozen : List Frozen.Entry) (ins outs : List Nat)
    (hf : f ≤ h) (hr : h < r) (hcc : hasCC (ins.map prefixOf) = true) :
    contextPolicies ty ver h f r frozen ins outs = .cc .frozen := by
  simp [contextPolicies, C31_freeze ty ver (ins.map prefixOf) h f r hf hr hcc]

open ElaVerif.PolicyCtx in
/-- After the restriction height, whatever passes the context check while spending a cross-chain
    UTXO is one of the two bridge transaction shapes. -/
theorem C31_context_restricted (ty ver h f r : Nat) (frozen : List Frozen.Entry) (ins outs : List Nat)
    (hfr : f ≤ r) (hr : r ≤ h) (hcc : hasCC (ins.map prefixOf) = true)
    (hp : contextPolicies ty ver h f r frozen ins outs = .passed) :
    (ty = tyWithdraw ∧ (ver = 0 ∨ ver = 1 ∨ ver = 2)) ∨
    (ty = tyReturn ∧ ver = 0 ∧ ∀ p ∈ ins.map prefixOf, p = prefixCrossChain) := by
  apply C31_restricted ty ver (ins.map prefixOf) h f r hfr hr hcc
  unfold contextPolicies at hp
  cases hv : ccPolicy ty ver (ins.map prefixOf) h f r <;> simp [hv] at hp ⊢

example : PolicyCtx.contextPolicies 2 0 4 2 6 [] [88, 79] [79] = .cc .frozen := by decide

/-- **Every path into the context check** (regenerated): `ContextCheck` is called from exactly one
    place, `BlockChain.CheckTransactionContext`, which hands it the caller's block height and the
    chain's own parameters; and every caller of that function passes the height the transaction is
    validated **for** — block validation the block's height, mempool admission and clean-up the
    best height + 1, block assembly the next block height.  (The `e2e` ops execute the first three
    paths and the RPC path on a real node.) -/
theorem C31_gen_context_paths :
    Gen.C31.contextCheckCallers = ["blockchain.BlockChain.CheckTransactionContext para"] ∧
    Gen.C31.contextParameters = ["tx", "blockHeight", "timeStamp", "b.chainParams", "b", "proposalsUsedAmount"] ∧
    Gen.C31.contextCallSites.all (fun s => ["block.Height", "bestHeight + 1", "nextBlockHeight"].contains s.2) = true ∧
    (Gen.C31.contextCallSites.map (·.1)).contains "blockchain.BlockChain.checkTxsContext" = true ∧
    (Gen.C31.contextCallSites.map (·.1)).contains "mempool.TxPool.appendToTxPool" = true := by decide

/-- **No command-line route**: the two heights, the frozen list and the net name carry no `screw:`
    tag, so no command-line flag is bound to them; the configuration file is the only way to set
    them, and `SetupConfig` overrides it (`C31_gen_setup_order`). -/
theorem C31_gen_no_cli_flags :
    Gen.C31.policyFieldTags =
      [("CrossChainUTXOFreezeHeight", ""), ("CrossChainUTXORestrictionHeight", ""),
       ("FrozenAddresses", "json:\"FrozenAddresses\""), ("ActiveNet", "json:\"ActiveNet\"")] := by decide

/-- the coordinated heights are pinned three ways: the operator documentation
    (`docs/config.json.md`), the constants of `common/config` and the literals of the model agree -/
theorem C31_gen_documented_constants :
    Gen.C31.docLiterals = [("CrossChainUTXOFreezeHeight", mainnetFreeze),
                           ("CrossChainUTXORestrictionHeight", mainnetRestrict),
                           ("DisableStartHeight", mainnetFreeze)] ∧
    Gen.C31.mainnetFreeze = 2256110 ∧ Gen.C31.mainnetRestrict = 2256724 := by decide

end ElaVerif.C31
