import ElaVerif.Model.Caches
import ElaVerif.Lemmas.Caches
import ElaVerif.Gen.C15
/-!
# C15 — caches are transparent and bounded

Property theorems only.  Four cache machines (`ElaVerif/Model/Caches.lean`) over abstract backing
stores; victims that Go picks by map iteration are universally quantified (`victims`).
-/
namespace ElaVerif.C15
open ElaVerif.Caches

/-! ## Regenerated facts -/

/-- T-gen: cache size constants, and which functions that disconnect blocks clean the UTXO cache
    first (`reorganizeChain` does, the unused exported `ReorganizeChain2` path does not). -/
theorem C15_gen_facts :
    ElaVerif.Gen.C15.memoryFirstReferenceSize = 5000 ∧
    ElaVerif.Gen.C15.blocksCacheSizeStore = cacheSize ∧ ElaVerif.Gen.C15.blocksCacheSizeP2P = cacheSize ∧
    ElaVerif.Gen.C15.disconnectCallers =
      [("reorganizeChain", true), ("reorganizeChain2", false)] ∧
    ElaVerif.Gen.C15.txCacheCallsConnect =
      [("trim", []), ("setTxn", ["range block.Transactions"]),
       ("deleteTxn", ["range unspents", "len(value) == 0"])] ∧
    ElaVerif.Gen.C15.txCacheCallsDisconnect =
      [("deleteTxn", ["range block.Transactions"]), ("deleteTxn", ["range unspents", "len(value) == 0"])] ∧
    ElaVerif.Gen.C15.txCacheCallsFetch = ["GetTxn"] ∧
    ElaVerif.Gen.C15.blockCacheInvalidations = 0 ∧
    -- inside SaveBlock's database transaction the index manager (the only step that fills the non-transactional
    -- tx cache) comes after everything that can fail
    ElaVerif.Gen.C15.saveBlockSteps = ["dbPutBestState", "dbPutBlockIndex", "processor", "c.indexManager.ConnectBlock"] ∧
    -- the path that disconnects blocks without cleaning the UTXO cache has no caller outside its own
    -- exported wrapper, and that wrapper has no caller at all
    ElaVerif.Gen.C15.reorganizeChain2Callers = ["blockchain/blockchain.go:ReorganizeChain2"] ∧
    ElaVerif.Gen.C15.exportedReorganizeChain2Callers = [] ∧
    -- the decoded block cache hands out shared pointers (the model has values): transparency needs that no
    -- caller of GetBlock / GetDposBlockByHash writes through the returned pointer (pushBlockMsg did: fix 9ca617e4)
    ElaVerif.Gen.C15.blockCacheEntryWriters = [] ∧
    -- eviction is decided by the length of the FIFO of hashes (not of the map): what `C15_block_race` and
    -- `C15_send_shape` rely on
    ElaVerif.Gen.C15.blockCacheEvictCond = "len(c.blockHashesCache) >= BlocksCacheSize" ∧
    ElaVerif.Gen.C15.sendCacheEvictCond = "len(blockHashesCache) >= BlocksCacheSize" ∧
    -- `MemoryFirst` alone switches every TxCache operation off; the input-count guard is separate
    ElaVerif.Gen.C15.setTxnGuards = ["t.params.MemoryFirst", "len(txn.Inputs()) > MaxCacheInputsCountPerTransaction"] ∧
    ElaVerif.Gen.C15.deleteTxnGuards = ["t.params.MemoryFirst"] ∧
    ElaVerif.Gen.C15.trimGuards = ["t.params.MemoryFirst"] := by decide

/-! ## A. UTXOCache: reference cache and tx cache -/

/-- **Transparent**: with the cache consistent with the store, `GetTxReference` answers exactly like
    the uncached lookup — hits, misses, errors — and leaves the cache consistent; for every
    eviction schedule. -/
theorem C15_ref_transparent (db : TxDb) (victims : List Nat) (ins : List In) (s : Utxo) (h : UtxoInv db s) :
    (getTxReference db victims s ins).1 = refSpec db ins ∧ UtxoInv db (getTxReference db victims s ins).2 := by
  induction ins generalizing s with
  | nil => exact ⟨rfl, h⟩
  | cons k rest ih =>
    unfold getTxReference refSpec
    split
    · rename_i v hl
      obtain ⟨outs, h1, h2⟩ := h.ref k v hl
      obtain ⟨e1, e2⟩ := ih s h
      refine ⟨?_, e2⟩
      simp only [h1, h2, e1]
    · obtain ⟨g1, g2, _, _, _⟩ := getTransaction_spec h victims k.tx
      split
      · rename_i s1 heq
        have : (getTransaction db s victims k.tx).1 = none := by rw [heq]
        rw [g1] at this
        refine ⟨by simp only [this], ?_⟩
        have : (getTransaction db s victims k.tx).2 = s1 := by rw [heq]
        rw [← this]; exact g2
      · rename_i outs s1 heq
        have h1 : db.lookup k.tx = some outs := by rw [← g1, heq]
        have hs1 : UtxoInv db s1 := by
          have : (getTransaction db s victims k.tx).2 = s1 := by rw [heq]
          rw [← this]; exact g2
        simp only [h1]
        split
        · rename_i hidx
          exact ⟨by simp only [hidx], hs1⟩
        · rename_i v hidx
          obtain ⟨e1, e2⟩ := ih (insertReference s1 k v) (insertReference_inv hs1 k v ⟨outs, h1, hidx⟩)
          exact ⟨by simp only [hidx, e1], e2⟩

/-- `GetTransaction` through the tx cache equals the store lookup. -/
theorem C15_txc_transparent (db : TxDb) (victims : List Nat) (id : Nat) (s : Utxo) (h : UtxoInv db s) :
    (getTransaction db s victims id).1 = db.lookup id ∧ UtxoInv db (getTransaction db s victims id).2 :=
  let g := getTransaction_spec h victims id
  ⟨g.1, g.2.1⟩

/-- **Bounded** (reference cache): the FIFO never exceeds `max(MaxReferenceSize, 1)` entries and
    reaches every cached reference (so every reference is eventually evicted). -/
theorem C15_ref_bounded (db : TxDb) (victims : List Nat) (ins : List In) (s : Utxo) (h : UtxoBound s) :
    UtxoBound (getTxReference db victims s ins).2 := by
  induction ins generalizing s with
  | nil => exact h
  | cons k rest ih =>
    unfold getTxReference
    split
    · exact ih s h
    · have hframe : ∀ s1 o, getTransaction db s victims k.tx = (o, s1) →
          s1.inputs = s.inputs ∧ s1.ref = s.ref ∧ s1.max = s.max := by
        intro s1 o heq
        unfold getTransaction at heq
        split at heq
        · cases heq; exact ⟨rfl, rfl, rfl⟩
        · split at heq
          · cases heq; exact ⟨rfl, rfl, rfl⟩
          · cases heq; exact ⟨rfl, rfl, rfl⟩
      split
      · rename_i s1 heq
        obtain ⟨e1, e2, e3⟩ := hframe s1 none heq
        exact ⟨by rw [e1, e3]; exact h.fifo, by rw [e1, e2]; exact h.sync⟩
      · rename_i outs s1 heq
        obtain ⟨e1, e2, e3⟩ := hframe s1 (some outs) heq
        have hb : UtxoBound s1 := ⟨by rw [e1, e3]; exact h.fifo, by rw [e1, e2]; exact h.sync⟩
        split
        · exact hb
        · exact ih _ (insertReference_bound hb k _)

/-- **Bounded** (tx cache): after an insertion at most `MaxReferenceSize + 1` transactions. -/
theorem C15_txc_bounded (s : Utxo) (victims : List Nat) (id : Nat) (tx : List Nat) :
    (insertTransaction s victims id tx).txc.length ≤ s.max + 1 :=
  insertTransaction_bound s victims id tx

/-- store mutation 1: a *new* transaction entering the store keeps the cache consistent -/
theorem C15_utxo_store_add (db : TxDb) (s : Utxo) (id : Nat) (tx : List Nat) (h : UtxoInv db s)
    (hnew : db.lookup id = none) : UtxoInv ((id, tx) :: db) s := by
  have hl : ∀ k v, db.lookup k = some v → ((id, tx) :: db).lookup k = some v := by
    intro k v hk
    have : k ≠ id := by intro e; subst e; rw [hnew] at hk; cases hk
    have hb : (k == id) = false := by simp [this]
    simp [List.lookup, hb, hk]
  refine ⟨?_, ?_⟩
  · intro k v hk
    obtain ⟨outs, h1, h2⟩ := h.ref k v hk
    exact ⟨outs, hl _ _ h1, h2⟩
  · intro k v hk; exact hl _ _ (h.txc k v hk)

/-- store mutation 2: a reorganisation cleans the cache first (`reorganizeChain` calls
    `CleanCache`), after which *any* new store content is consistent with it -/
theorem C15_utxo_reorg (db' : TxDb) (s : Utxo) : UtxoInv db' (cleanCache s) ∧ UtxoBound (cleanCache s) := by
  refine ⟨⟨?_, ?_⟩, ⟨?_, ?_⟩⟩ <;> simp [cleanCache]

theorem C15_utxo_clean_tx (db : TxDb) (s : Utxo) (h : UtxoInv db s) : UtxoInv db (cleanTxCache s) :=
  ⟨h.ref, by intro id tx hl; simp [cleanTxCache] at hl⟩

/-- … and the cleaning is needed: a transaction leaving the store without it makes the cached
    answer differ from the uncached one (the `ReorganizeChain2` path, see `C15_gen_facts`). -/
theorem C15_utxo_stale_without_clean_witness :
    let db : TxDb := [(1, [50, 60])]
    let s := (getTxReference db [] (Utxo.empty 3) [⟨1, 0, 0⟩]).2
    UtxoInv db s ∧ (getTxReference [] [] s [⟨1, 0, 0⟩]).1 = .ok [50] ∧ refSpec [] [⟨1, 0, 0⟩] = .error .notFound := by
  refine ⟨(C15_ref_transparent _ _ _ _ ⟨by simp [Utxo.empty], by simp [Utxo.empty]⟩).2, by rfl, by rfl⟩

example : (getTxReference [(1, [50, 60]), (2, [70])] [] (Utxo.empty 2) [⟨1, 1, 0⟩, ⟨2, 0, 0⟩, ⟨1, 0, 0⟩]).1 = .ok [60, 70, 50] ∧
    (getTxReference [(1, [50, 60]), (2, [70])] [] (Utxo.empty 2) [⟨1, 1, 0⟩, ⟨2, 0, 0⟩, ⟨1, 0, 0⟩]).2.inputs = [⟨2, 0, 0⟩, ⟨1, 0, 0⟩] :=
  ⟨rfl, rfl⟩

/-! ## B. indexed transaction cache -/

/-- **Transparent**: `FetchTx` = index lookup. -/
theorem C15_idx_transparent (db : IdxDb) (s : Idx) (h : IdxInv db s) (k : Nat) : s.fetch db k = db.lookup k := by
  unfold Idx.fetch
  split
  · rename_i v hl; exact (h.1 k v hl).symm
  · rfl

/-- with `MemoryFirst` nothing is ever cached -/
theorem C15_idx_memory_first (s : Idx) (hm : s.memoryFirst = true) (c : Bool) (k height tx : Nat)
    (victims : List Nat) : s.set c k height tx = s ∧ s.delete k = s ∧ s.trim victims = s := by
  simp [Idx.set, Idx.delete, Idx.trim, hm]

/-- connecting one transaction that is new to the index (cached or not) -/
theorem C15_idx_connect_tx (db : IdxDb) (s : Idx) (height : Nat) (t : Nat × Nat × Bool) (h : IdxInv db s)
    (hnew : db.lookup t.1 = none) :
    IdxInv (Idx.connectTx height (db, s) t).1 (Idx.connectTx height (db, s) t).2 := by
  have hk0 : ∀ k v, s.txns.lookup k = some v → k ≠ t.1 := by
    intro k v hl e; subst e
    have := h.1 _ v hl
    rw [hnew] at this; cases this
  unfold Idx.connectTx Idx.set
  simp only
  by_cases hm : s.memoryFirst = true
  · simp only [hm, ↓reduceIte]
    refine ⟨?_, h.2⟩
    intro k v hl
    rw [lookup_setKey]; simp only [hk0 k v hl, ↓reduceIte]; exact h.1 k v hl
  · simp only [hm, Bool.false_eq_true, ↓reduceIte]
    by_cases hc : t.2.2 = true
    · simp only [hc, ↓reduceIte]
      refine ⟨?_, fun e => by cases e⟩
      intro k v hl
      rw [lookup_setKey] at hl ⊢
      by_cases hk : k = t.1
      · simp only [hk, ↓reduceIte] at hl ⊢; exact hl
      · simp only [hk, ↓reduceIte] at hl ⊢; exact h.1 k v hl
    · simp only [hc, Bool.false_eq_true, ↓reduceIte]
      refine ⟨?_, h.2⟩
      intro k v hl
      rw [lookup_setKey]; simp only [hk0 k v hl, ↓reduceIte]; exact h.1 k v hl

theorem C15_idx_delete (db : IdxDb) (s : Idx) (k : Nat) (h : IdxInv db s) :
    IdxInv db (s.delete k) ∧ IdxInv (dropKey db k) (s.delete k) := by
  unfold Idx.delete
  by_cases hm : s.memoryFirst = true
  · simp only [hm, ↓reduceIte]
    refine ⟨h, ?_, h.2⟩
    intro k' v hl
    rw [h.2 hm] at hl; simp at hl
  · simp only [hm, Bool.false_eq_true, ↓reduceIte]
    refine ⟨⟨?_, fun e => by cases e⟩, ⟨?_, fun e => by cases e⟩⟩
    · intro k' v hl
      exact h.1 k' v (lookup_of_dropKey hl).1
    · intro k' v hl
      obtain ⟨h1, h2⟩ := lookup_of_dropKey hl
      rw [lookup_dropKey]; simp only [h2, ↓reduceIte]; exact h.1 k' v h1

/-- `trim` with any victims keeps the cache consistent and leaves at most
    `TxCacheVolume + TrimmingInterval` entries -/
theorem C15_idx_trim (db : IdxDb) (s : Idx) (victims : List Nat) (h : IdxInv db s) :
    IdxInv db (s.trim victims) ∧ (s.trim victims).txns.length ≤ s.volume + s.interval := by
  unfold Idx.trim
  by_cases hm : s.memoryFirst = true
  · simp only [hm, ↓reduceIte]
    exact ⟨h, by rw [h.2 hm]; simp⟩
  · simp only [hm, Bool.false_eq_true, ↓reduceIte]
    split
    · refine ⟨⟨fun k v hl => h.1 k v (evictTo_lookup _ _ _ _ _ _ hl), fun e => by cases e⟩, ?_⟩
      have := evictTo_length (s.volume - 1) s.txns.length victims s.txns (by omega)
      simp only; omega
    · exact ⟨h, by omega⟩

/-- `DisconnectBlock`: the block's transactions leave the index and the cache together -/
theorem C15_idx_disconnect (db : IdxDb) (s : Idx) (hashes : List Nat) (h : IdxInv db s) :
    IdxInv (Idx.disconnect db s hashes).1 (Idx.disconnect db s hashes).2 := by
  unfold Idx.disconnect
  simp only
  induction hashes generalizing db s with
  | nil => exact h
  | cons k ks ih => exact ih _ _ (C15_idx_delete db s k h).2

/-- `ConnectBlock` of a block whose transactions are new to the index and pairwise distinct -/
theorem C15_idx_connect (db : IdxDb) (s : Idx) (victims : List Nat) (height : Nat)
    (txs : List (Nat × Nat × Bool)) (spent : List Nat) (h : IdxInv db s)
    (hnew : ∀ t ∈ txs, db.lookup t.1 = none) (hnd : (txs.map (·.1)).Nodup) :
    IdxInv (Idx.connect db s victims height txs spent).1 (Idx.connect db s victims height txs spent).2 := by
  unfold Idx.connect
  simp only
  have hfold : ∀ (txs : List (Nat × Nat × Bool)) (st : IdxDb × Idx), IdxInv st.1 st.2 →
      (∀ t ∈ txs, st.1.lookup t.1 = none) → (txs.map (·.1)).Nodup →
      IdxInv (txs.foldl (Idx.connectTx height) st).1 (txs.foldl (Idx.connectTx height) st).2 := by
    intro txs
    induction txs with
    | nil => intro st hst _ _; exact hst
    | cons t rest ih =>
      intro st hst hn hd
      simp only [List.foldl_cons]
      simp only [List.map_cons, List.nodup_cons] at hd
      apply ih _ (C15_idx_connect_tx st.1 st.2 height t hst (hn t List.mem_cons_self))
      · intro t' ht'
        unfold Idx.connectTx
        simp only
        rw [lookup_setKey]
        have : t'.1 ≠ t.1 := by
          intro e; exact hd.1 (e ▸ List.mem_map.2 ⟨t', ht', rfl⟩)
        simp only [this, ↓reduceIte]
        exact hn t' (List.mem_cons_of_mem _ ht')
      · exact hd.2
  have h1 := hfold txs (db, s.trim victims) (C15_idx_trim db s victims h).1 hnew hnd
  generalize txs.foldl (Idx.connectTx height) (db, s.trim victims) = st at h1
  induction spent generalizing st with
  | nil => exact h1
  | cons k ks ih => exact ih (st.1, st.2.delete k) (C15_idx_delete st.1 st.2 k h1).1

example : (Idx.connect [] ⟨[], 1, 1, false⟩ [] 5 [(10, 100, true), (11, 101, false)] []).2.fetch
    (Idx.connect [] ⟨[], 1, 1, false⟩ [] 5 [(10, 100, true), (11, 101, false)] []).1 11 = some (5, 101) := by decide

/-- the real `UnspentIndex.ConnectBlock` (as modelled by `UIdx.connectBlock`: which transactions become
    fully spent is computed from the unspent bucket) keeps the cache consistent with the tx index -/
theorem C15_uidx_connect_block (u : UIdx) (victims : List Nat) (height : Nat) (txs : List BTx)
    (h : IdxInv u.txdb u.cache) (hnew : ∀ t ∈ txs, u.txdb.lookup t.h = none) (hnd : (txs.map (·.h)).Nodup) :
    IdxInv (u.connectBlock victims height txs).txdb (u.connectBlock victims height txs).cache := by
  unfold UIdx.connectBlock
  simp only
  apply C15_idx_connect _ _ _ _ _ _ h
  · intro t ht
    obtain ⟨b, hb, rfl⟩ := List.mem_map.1 ht
    exact hnew b hb
  · simpa [List.map_map, Function.comp_def] using hnd

/-- the real `UnspentIndex.DisconnectBlock`: every transaction of the block — with or without
    outputs — leaves cache and index together -/
theorem C15_uidx_disconnect_block (u : UIdx) (txs : List BTx) (h : IdxInv u.txdb u.cache) :
    IdxInv (u.disconnectBlock txs).txdb (u.disconnectBlock txs).cache ∧
    ∀ t ∈ txs, (u.disconnectBlock txs).cache.txns.lookup t.h = none := by
  unfold UIdx.disconnectBlock
  simp only
  refine ⟨C15_idx_disconnect _ _ _ h, ?_⟩
  intro t ht
  unfold Idx.disconnect
  simp only
  have key : ∀ (hs : List Nat) (s : Idx) (k : Nat), (s.memoryFirst = true → s.txns = []) →
      (k ∈ hs ∨ s.txns.lookup k = none) → (hs.foldl Idx.delete s).txns.lookup k = none := by
    intro hs
    induction hs with
    | nil =>
      intro s k _ hk
      rcases hk with hk | hk
      · cases hk
      · exact hk
    | cons a hs ih =>
      intro s k hmf hk
      simp only [List.foldl_cons]
      by_cases hm : s.memoryFirst = true
      · have e : s.delete a = s := by simp [Idx.delete, hm]
        rw [e]
        exact ih s k hmf (Or.inr (by rw [hmf hm]; rfl))
      · have e : s.delete a = { s with txns := dropKey s.txns a } := by simp [Idx.delete, hm]
        rw [e]
        apply ih { s with txns := dropKey s.txns a } k (fun e' => absurd e' hm)
        by_cases hka : k = a
        · right; subst hka; simp only; rw [lookup_dropKey]; simp
        · rcases hk with hk | hk
          · rcases List.mem_cons.1 hk with e' | e'
            · exact absurd e' hka
            · exact Or.inl e'
          · right; simp only; rw [lookup_dropKey]; simp [hka, hk]
  exact key _ _ _ h.2 (Or.inl (List.mem_map.2 ⟨t, ht, rfl⟩))

/-- `SaveBlock` with its steps in the order of the source (processors before the index manager): whether
    or not a save processor fails, the cache stays consistent with the index. -/
theorem C15_save_block_atomic (u : UIdx) (victims : List Nat) (height : Nat) (txs : List BTx) (ok : Bool)
    (h : IdxInv u.txdb u.cache) (hnew : ∀ t ∈ txs, u.txdb.lookup t.h = none) (hnd : (txs.map (·.h)).Nodup) :
    IdxInv (u.saveBlock victims height txs ok).txdb (u.saveBlock victims height txs ok).cache := by
  unfold UIdx.saveBlock
  split
  · exact C15_uidx_connect_block u victims height txs h hnew hnd
  · exact h

/-- … and the order matters: with the index manager first, a failing processor leaves a transaction in the
    cache that the (rolled back) index does not know — `FetchTx` then answers for a block that was never
    connected. -/
theorem C15_save_block_order_witness :
    let u : UIdx := ⟨[], [], ⟨[], 5, 10000, false⟩⟩
    let b : List BTx := [⟨1, 1, true, false, []⟩]
    IdxInv u.txdb u.cache ∧
    (u.saveBlockIndexFirst [] 7 b false).cache.fetch (u.saveBlockIndexFirst [] 7 b false).txdb 1 = some (7, 1) ∧
    (u.saveBlockIndexFirst [] 7 b false).txdb.lookup 1 = none ∧
    (u.saveBlock [] 7 b false).cache.fetch (u.saveBlock [] 7 b false).txdb 1 = none := by
  refine ⟨⟨by intro h v hl; simp at hl, by intro _; rfl⟩, by decide, by decide, by decide⟩

/-- a transaction without outputs is cached by connect and gone after disconnect -/
example : let u : UIdx := ⟨[], [], ⟨[], 5, 10000, false⟩⟩
    let b : List BTx := [⟨1, 2, true, true, []⟩, ⟨2, 0, true, false, []⟩]
    ((u.connectBlock [] 7 b).cache.txns.lookup 2 = some (7, 2)) ∧
    ((u.connectBlock [] 7 b).disconnectBlock b).cache.txns.lookup 2 = none := by decide

/-! ## C. decoded block cache -/

/-- **Transparent and bounded**: `GetBlock` answers like the block store, keeps at most
    `BlocksCacheSize` hashes in the FIFO, and every cached block is in the FIFO. -/
theorem C15_block_insert (db : BlockDb) (s : BlockCache) (k b : Nat) (h : BlockInv db s)
    (hdb : db.lookup k = some b) : BlockInv db (s.insert k b) := by
  have hev : (∀ k b, s.evict.map.lookup k = some b → db.lookup k = some b) ∧ s.evict.fifo.length + 1 ≤ cacheSize ∧
      (∀ k b, s.evict.map.lookup k = some b → k ∈ s.evict.fifo) := by
    have hf := h.fifo
    unfold BlockCache.evict
    unfold cacheSize at hf ⊢
    split
    · rename_i hge
      -- the FIFO is exactly two long (possibly the same hash twice, after a double miss)
      match hfifo : s.fifo with
      | [] => simp [hfifo] at hge
      | [a] => simp [hfifo] at hge
      | [a, c] =>
        simp only [List.head?_cons, List.drop_succ_cons, List.drop_zero]
        refine ⟨fun k b hl => h.val k b (lookup_of_dropKey hl).1, by simp, ?_⟩
        intro k b hl
        obtain ⟨g1, g2⟩ := lookup_of_dropKey hl
        have := h.sync k b g1
        rw [hfifo] at this
        simp only [List.mem_cons, List.not_mem_nil, or_false] at this
        rcases this with e | e
        · exact absurd e g2
        · simp [e]
      | a :: c :: d :: rest => simp [hfifo] at hf
    · exact ⟨h.val, by omega, h.sync⟩
  obtain ⟨v1, v2, v3⟩ := hev
  unfold BlockCache.insert
  generalize s.evict = s1 at v1 v2 v3
  refine ⟨?_, ?_, ?_⟩
  · intro k' b' hl
    simp only at hl
    rw [lookup_setKey] at hl
    split at hl
    · rename_i e; subst e; cases hl; exact hdb
    · exact v1 k' b' hl
  · simp only [List.length_append, List.length_singleton]; exact v2
  · intro k' b' hl
    simp only at hl ⊢
    rw [lookup_setKey] at hl
    split at hl
    · rename_i e; subst e; simp
    · exact List.mem_append.2 (Or.inl (v3 k' b' hl))

theorem C15_block_transparent (db : BlockDb) (s : BlockCache) (k : Nat) (h : BlockInv db s) :
    (getBlock db s k).1 = db.lookup k ∧ BlockInv db (getBlock db s k).2 := by
  unfold getBlock
  split
  · rename_i b hl; exact ⟨(h.val k b hl).symm, h⟩
  · split
    · rename_i hdb; exact ⟨hdb.symm, h⟩
    · rename_i b hdb
      exact ⟨hdb.symm, C15_block_insert db s k b h hdb⟩

/-- two concurrent misses for one hash (both callers insert, the hash is queued twice): still the
    store's answer, still at most `BlocksCacheSize` queued hashes, every cached block still queued —
    because eviction is decided by the *queue* length. -/
theorem C15_block_race (db : BlockDb) (s : BlockCache) (k : Nat) (h : BlockInv db s) :
    (getBlockRace db s k).1 = db.lookup k ∧ BlockInv db (getBlockRace db s k).2 := by
  unfold getBlockRace
  split
  · rename_i b hl; exact ⟨(h.val k b hl).symm, h⟩
  · split
    · rename_i hdb; exact ⟨hdb.symm, h⟩
    · rename_i b hdb
      exact ⟨hdb.symm, C15_block_insert db _ k b (C15_block_insert db s k b h hdb) hdb⟩

/-- all histories of (possibly racing) lookups and stores keep at most two distinct blocks cached -/
example : (getBlockRace [(1, 10), (2, 20), (3, 30)] ⟨[], []⟩ 1).2.fifo = [1, 1] ∧
    ((getBlock [(1, 10), (2, 20), (3, 30)] (getBlock [(1, 10), (2, 20), (3, 30)]
      (getBlockRace [(1, 10), (2, 20), (3, 30)] ⟨[], []⟩ 1).2 2).2 3).2.map.map (·.1)) = [3, 2] := by decide

/-- store mutation: blocks are written once, so storing never invalidates the cache (the cache
    has no invalidation and needs none — `C15_gen_facts`: 0 invalidation sites) -/
theorem C15_block_store (db : BlockDb) (s : BlockCache) (k b : Nat) (h : BlockInv db s) :
    BlockInv (storeBlock db k b) s := by
  refine ⟨?_, h.fifo, h.sync⟩
  intro k' b' hl
  have := h.val k' b' hl
  unfold storeBlock
  split
  · exact this
  · rename_i hnone
    have hne : k' ≠ k := by intro e; subst e; rw [hnone] at this; cases this
    have hb : (k' == k) = false := by simp [hne]
    simp [List.lookup, hb, this]

example : BlockInv [] ⟨[], []⟩ := ⟨by simp, by simp [cacheSize], by simp⟩

/-! ## D. serialized block send cache (after the `fix:` commit) -/

theorem C15_send_shape_empty : SendShape SendCache.empty := Or.inl rfl

/-- the cache keeps one of three shapes, whatever is written -/
theorem C15_send_shape (s : SendCache) (k : Nat) (c : Bool) (bytes : Nat) (h : SendShape s) :
    SendShape (writeBlock s k c bytes).2 := by
  rcases h with rfl | ⟨a, ca, x, rfl⟩ | ⟨a, b, ca, cb, x, y, hab, rfl⟩
  · right; left
    exact ⟨k, c, bytes, by simp [writeBlock, List.lookup, cacheSize]⟩
  · by_cases hk : k = a
    · subst hk
      by_cases hc : c = ca
      · subst hc; right; left; exact ⟨k, c, x, by simp [writeBlock, List.lookup]⟩
      · have : (c == ca) = false := by simp [hc]
        right; left; exact ⟨k, ca, x, by simp [writeBlock, List.lookup, this]⟩
    · have hb : (k == a) = false := by simp [hk]
      right; right
      exact ⟨a, k, ca, c, x, bytes, fun e => hk e.symm, by simp [writeBlock, List.lookup, hb, cacheSize]⟩
  · by_cases hkb : k = b
    · subst hkb
      by_cases hc : c = cb
      · subst hc; right; right
        exact ⟨a, k, ca, c, x, y, hab, by simp [writeBlock, List.lookup]⟩
      · have : (c == cb) = false := by simp [hc]
        right; right
        exact ⟨a, k, ca, cb, x, y, hab, by simp [writeBlock, List.lookup, this]⟩
    · have hb1 : (k == b) = false := by simp [hkb]
      by_cases hka : k = a
      · subst hka
        by_cases hc : c = ca
        · subst hc; right; right
          exact ⟨k, b, c, cb, x, y, hab, by simp [writeBlock, List.lookup, hb1]⟩
        · have : (c == ca) = false := by simp [hc]
          right; right
          exact ⟨k, b, ca, cb, x, y, hab, by simp [writeBlock, List.lookup, hb1, this]⟩
      · have hb2 : (k == a) = false := by simp [hka]
        have hab' : (a == b) = false := by simp [hab]
        right; right
        refine ⟨b, k, cb, c, y, bytes, fun e => hkb e.symm, ?_⟩
        simp [writeBlock, List.lookup, hb1, hb2, cacheSize, dropKey, hab', hab, Ne.symm hab]

/-- **Bounded** (the defect fixed in /repo): at most `BlocksCacheSize` hashes in the FIFO *and in
    the outer map*, one serialized variant per cached hash. -/
theorem C15_send_bounded (s : SendCache) (h : SendShape s) :
    s.outer.length ≤ cacheSize ∧ s.hashes.length ≤ cacheSize ∧ s.confirms.length = s.hashes.length ∧
    s.outer.map (·.1) = s.hashes.reverse ∧ ∀ e ∈ s.outer, e.2.length = 1 := by
  rcases h with rfl | ⟨a, ca, x, rfl⟩ | ⟨a, b, ca, cb, x, y, _, rfl⟩ <;> simp [cacheSize]

/-- all histories of writes from the empty cache -/
theorem C15_send_bounded_history (ws : List (Nat × Bool × Nat)) :
    SendShape (ws.foldl (fun s w => (writeBlock s w.1 w.2.1 w.2.2).2) SendCache.empty) := by
  have : ∀ (ws : List (Nat × Bool × Nat)) s, SendShape s →
      SendShape (ws.foldl (fun s w => (writeBlock s w.1 w.2.1 w.2.2).2) s) := by
    intro ws
    induction ws with
    | nil => intro s h; exact h
    | cons w ws ih => intro s h; exact ih _ (C15_send_shape s w.1 w.2.1 w.2.2 h)
  exact this ws _ C15_send_shape_empty

/-- **Transparent** only when a block's serialization is determined by `(hash, haveConfirm)`:
    then the bytes sent are the message's own serialization.  What is missing for the full
    statement: two messages with one block hash and different confirms (see the witness). -/
theorem C15_send_transparent_partial (ser : Nat → Bool → Nat) (s : SendCache) (k : Nat) (c : Bool)
    (h : SendInv ser s) :
    (writeBlock s k c (ser k c)).1 = ser k c ∧ SendInv ser (writeBlock s k c (ser k c)).2 := by
  unfold writeBlock
  split
  · rename_i inner hl
    split
    · rename_i b hb; exact ⟨h k inner c b hl hb, h⟩
    · exact ⟨rfl, h⟩
  · refine ⟨rfl, ?_⟩
    have h1 : ∀ s1 : SendCache, (∀ k' inner, s1.outer.lookup k' = some inner →
          ∀ c' b, inner.lookup c' = some b → b = ser k' c') →
        SendInv ser { hashes := s1.hashes ++ [k], confirms := s1.confirms ++ [c],
                      outer := (k, [(c, ser k c)]) :: s1.outer } := by
      intro s1 hs1 k' inner c' b hl hb
      simp only [List.lookup] at hl
      split at hl
      · cases hl
        simp only [List.lookup] at hb
        split at hb
        · cases hb
          rename_i e1 _ e2
          have e1' : k' = k := by simpa using e1
          have e2' : c' = c := by simpa using e2
          rw [e1', e2']
        · cases hb
      · exact hs1 k' inner hl c' b hb
    apply h1
    intro k' inner hl c' b hb
    split at hl
    · split at hl
      · simp only at hl
        split at hl
        · exact h k' inner c' b (lookup_of_dropKey hl).1 hb
        · rename_i oh oc _ _ hne
          simp only [List.lookup] at hl
          split at hl
          · cases hl
            rename_i e
            have e' : k' = oh := by simpa using e
            subst e'
            obtain ⟨g1, _⟩ := lookup_of_dropKey hb
            cases hlo : s.outer.lookup k' with
            | none => simp [hlo] at g1
            | some inn => simp only [hlo, Option.getD_some] at g1; exact h k' inn c' b hlo g1
          · exact h k' inner c' b (lookup_of_dropKey hl).1 hb
      · exact h k' inner c' b hl hb
    · exact h k' inner c' b hl hb

/-- **Full transparency is false** (known finding C15-send-cache-confirm-variant): two block
    messages with the same hash, both confirmed, different confirms (serializations 100 and 200):
    the second is sent with the first one's bytes. -/
theorem C15_send_transparent_false :
    ¬ ∀ (ws : List (Nat × Bool × Nat)) (k : Nat) (c : Bool) (bytes : Nat),
      (writeBlock (ws.foldl (fun s w => (writeBlock s w.1 w.2.1 w.2.2).2) SendCache.empty) k c bytes).1 = bytes := by
  intro h
  have := h [(7, true, 100)] 7 true 200
  revert this
  decide

example : SendInv (fun k c => 2 * k + c.toNat) SendCache.empty := by
  intro k inner c b hl; simp [SendCache.empty] at hl

end ElaVerif.C15
