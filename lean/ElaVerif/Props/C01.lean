import ElaVerif.Model.Fee
import ElaVerif.Lemmas.Fixed64
import ElaVerif.Lemmas.Fee
import ElaVerif.Gen.C01
/-!
# C01 — no transaction creates value

Model: `ElaVerif/Model/Fee.lean` (`accepts rev class env special outs refs` =
SanityCheck ∧ ContextCheck restricted to everything that looks at amounts, for
every tx struct class; `Rev.pre` = the code as found, `Rev.fixed` = the code
after `fix: reject transactions whose output amounts are negative or overflow …`).

Full-strength statement (kept visible):

    FullStatement rev  :=  ∀ class env special val ins outs,        (val = UTXO lookup, ins = (outpoint, sequence) list)
        class ≠ coinbase → 0 ≤ minFee → Ledger val ins →
        accepts rev class env special val ins outs →
        inputs reference pairwise distinct outpoints
        ∧ Σℤ outs ≤ Σℤ (value of each referenced outpoint)   ∧   ∀ o ∈ outs, 0 ≤ o

  (with distinct outpoints the right-hand sum is the sum over the *set* of spent outputs, which is what
  "the exact sum of the outputs it spends" means; `GetTxReference` returns one entry per input, so a
  duplicated input would be counted twice by the fee helper)

* `C01_pre_full_false`  — it was false of the code as found: the 4 × 2^62 wrap-around
  witness (replayed on the real code end to end, corpus/C01/witness.ops).
* `C01_no_value_creation_partial` — on the fixed code it holds on every path except
  one: ActivateProducer sent by an inactive CR council member after NFTStartHeight
  (`CRActivationPath`), where SpecialContextCheck returns `(nil, true)` and the fee
  check is skipped altogether.
* `C01_full_false` — the witness for that remaining path (replayed on the real code:
  known finding C01-activate-cr-skips-fee).
-/
namespace ElaVerif.C01
open ElaVerif.Fixed64 ElaVerif.Fee

/-- Ledger invariant for the outputs a transaction spends: they are distinct
    unspent outputs of earlier accepted transactions, so each is non-negative and
    together they are at most the total supply, which is below 2^63 sela
    (`C01_supply_inductive` shows acceptance preserves exactly this). -/
def SupplyBound (refs : List Fixed64) : Prop :=
  (∀ r ∈ refs, 0 ≤ toInt r) ∧ sumZ refs < 9223372036854775808

/-- ActivateProducer, CR-council-member branch of SpecialContextCheck, after NFTStartHeight -/
def CRActivationPath (c : Class) (env : Env) (sp : Special) : Prop :=
  c = .activate ∧ sp = .alt ∧ env.afterNFT = true

/-- Ledger invariant as the transaction sees it: IF its inputs reference pairwise distinct
    outpoints, the referenced previous outputs are distinct unspent outputs of the ledger and
    `SupplyBound` holds for them.  (Nothing is assumed about a reference vector that lists an
    outpoint twice.) -/
def Ledger (val : Nat → Fixed64) (ins : List In) : Prop :=
  (ins.map (·.op)).Nodup → SupplyBound (refsOf val ins)

/-- the property at full strength, for a revision of the code -/
def FullStatement (rev : Rev) : Prop :=
  ∀ (c : Class) (env : Env) (sp : Special) (val : Nat → Fixed64) (ins : List In) (outs : List Fixed64),
    c ≠ .coinbase → 0 ≤ toInt env.minFee → Ledger val ins →
    accepts rev c env sp val ins outs = true →
    (ins.map (·.op)).Nodup ∧ sumZ outs ≤ sumZ (refsOf val ins) ∧ ∀ o ∈ outs, 0 ≤ toInt o

/-! ### the property -/

/-- **Fixed code, every path but one.**  A non-coinbase transaction of any type that
    passes SanityCheck and ContextCheck has outputs that are individually
    non-negative and whose exact integer sum is at most the exact sum of the outputs it
    spends — no amount vector can wrap its way through.  Missing for the full
    statement: the `CRActivationPath` (see `C01_full_false`). -/
theorem C01_no_value_creation_partial
    (c : Class) (env : Env) (sp : Special) (val : Nat → Fixed64) (ins : List In) (outs : List Fixed64)
    (hc : c ≠ .coinbase) (hpath : ¬ CRActivationPath c env sp)
    (hmin : 0 ≤ toInt env.minFee) (hled : Ledger val ins)
    (hacc : accepts .fixed c env sp val ins outs = true) :
    (ins.map (·.op)).Nodup ∧ sumZ outs ≤ sumZ (refsOf val ins) ∧ ∀ o ∈ outs, 0 ≤ toInt o := by
  unfold accepts at hacc
  simp only [Bool.and_eq_true, beq_iff_eq] at hacc
  obtain ⟨hsan, hctx⟩ := hacc
  obtain ⟨hin, hout, htot⟩ := sanity_fixed c env ins outs hsan
  have hnd := inputOK_distinct c env ins hin
  have hrefs := hled hnd
  have hlen : (refsOf val ins).length = ins.length := by simp [refsOf]
  rw [← hlen] at hout
  have ⟨hn, hs⟩ := totalFrom_sound 0 outs (by decide) htot
  rw [toInt_zero] at hs
  exact ⟨hnd, core c env sp outs (refsOf val ins) hc hpath hmin hout hctx hrefs.1 hrefs.2 hn (by omega), hn⟩

/-- **Accepted transactions never list a previous output twice** (same or different Sequence):
    every class, coinbase and the CR-activation path included.  So the reference vector the fee
    check sums really is the set of spent outputs. -/
theorem C01_inputs_distinct (c : Class) (env : Env) (ins : List In) (outs : List Fixed64)
    (h : sanity .fixed c env ins outs = .ok) : (ins.map (·.op)).Nodup :=
  inputOK_distinct c env ins (sanity_fixed c env ins outs h).1

/-- non-vacuity: an ordinary transfer (1 ELA in, 0.6 + 0.399999 ELA out, fee 100 sela) is accepted -/
example : accepts .fixed .plainOut ⟨100, true, false, 10000⟩ .ok (fun _ => 100000000) [⟨7, 0⟩]
    [60000000, 39999900] = true := by
  decide

/-- the same UTXO listed twice under two Sequence values (the fee helper would see 2 ELA) is
    rejected at the input stage -/
example : sanity .fixed .plainOut ⟨100, true, false, 10000⟩ [⟨7, 0⟩, ⟨7, 1⟩] [199999900] = .inn := by
  decide

/-- RegisterAsset (tx type 1) is refused at the input check for every input and output vector
    (since `fix: refuse RegisterAsset transactions outside the genesis block`, a C06 repair): it can
    never be accepted into the mempool or a block, so it cannot create value either -/
theorem C01_register_asset_refused (rev : Rev) (env : Env) (sp : Special) (val : Nat → Fixed64)
    (ins : List In) (outs : List Fixed64) :
    classOf 1 = some .refused ∧ sanity rev .refused env ins outs = .inn ∧
    accepts rev .refused env sp val ins outs = false := by
  refine ⟨rfl, ?_, ?_⟩
  · simp [sanity, inputOK]
  · simp [accepts, sanity, inputOK]

/-- the same statement restricted to what `Rev.pre` could guarantee: only for output
    vectors that are non-negative and whose exact total fits in int64 -/
theorem C01_pre_partial
    (c : Class) (env : Env) (sp : Special) (val : Nat → Fixed64) (ins : List In) (outs : List Fixed64)
    (hc : c ≠ .coinbase) (hpath : ¬ CRActivationPath c env sp)
    (hmin : 0 ≤ toInt env.minFee) (hrefs : SupplyBound (refsOf val ins))
    (hn : ∀ o ∈ outs, 0 ≤ toInt o) (hs : sumZ outs < 9223372036854775808)
    (hacc : accepts .pre c env sp val ins outs = true) :
    sumZ outs ≤ sumZ (refsOf val ins) := by
  unfold accepts at hacc
  simp only [Bool.and_eq_true, beq_iff_eq] at hacc
  obtain ⟨hsan, hctx⟩ := hacc
  have hout := sanity_pre c env ins outs hsan
  have hlen : (refsOf val ins).length = ins.length := by simp [refsOf]
  rw [← hlen] at hout
  exact core c env sp outs (refsOf val ins) hc hpath hmin hout hctx hrefs.1 hrefs.2 hn hs

/-- the wrap-around witness: TransferAsset, one input of 10 ELA, four outputs of 2^62 sela
    plus the honest change -/
def wrapOuts : List Fixed64 :=
  [4611686018427387904, 4611686018427387904, 4611686018427387904, 4611686018427387904, 999999900]
def wrapIns : List In := [⟨7, 0⟩]
def tenELA : Nat → Fixed64 := fun _ => 1000000000
def mainEnv : Env := ⟨100, true, false, 10000⟩

/-- **The code as found violated the property** (negation, with the witness). -/
theorem C01_pre_full_false : ¬ FullStatement .pre := by
  intro h
  have := (h .plainOut mainEnv .ok tenELA wrapIns wrapOuts (by decide) (by decide)
    (fun _ => ⟨by intro r hr; simp [refsOf, wrapIns, tenELA] at hr; subst hr; decide, by decide⟩) (by decide)).2.1
  exact absurd this (by decide)

/-- the fix rejects the wrap witness at the sanity stage (error kind `output`) -/
theorem C01_fixed_rejects_wrap_witness :
    sanity .fixed .plainOut mainEnv wrapIns wrapOuts = .out ∧ sanity .pre .plainOut mainEnv wrapIns wrapOuts = .ok := by
  decide

/-- the CR-activation witness: inputs 33 000 000 ELA (the genesis output), one output of
    55 000 000 ELA -/
def crOuts : List Fixed64 := [5500000000000000]
def crIns : List In := [⟨0, 0⟩]
def genesisVal : Nat → Fixed64 := fun _ => 3300000000000000

/-- the code as found also accepted an ActivateProducer (after NFTStartHeight, producer branch)
    listing one previous output of 10 ELA twice and paying out 20 ELA; fixed by 9473f62c -/
theorem C01_pre_duplicate_inputs_false :
    ¬ (∀ (c : Class) (env : Env) (sp : Special) (val : Nat → Fixed64) (ins : List In) (outs : List Fixed64),
        c ≠ .coinbase → accepts .pre c env sp val ins outs = true → (ins.map (·.op)).Nodup) := by
  intro h
  have := h .activate mainEnv .ok tenELA [⟨7, 0⟩, ⟨7, 1⟩] [2000000000] (by decide) (by decide)
  exact absurd this (by decide)

/-- **The full statement is still false of the current code**: on the
    `CRActivationPath` SpecialContextCheck ends the context check before the fee check. -/
theorem C01_full_false : ¬ FullStatement .fixed := by
  intro h
  have := (h .activate mainEnv .alt genesisVal crIns crOuts (by decide) (by decide)
    (fun _ => ⟨by intro r hr; simp [refsOf, crIns, genesisVal] at hr; subst hr; decide, by decide⟩) (by decide)).2.1
  exact absurd this (by decide)

/-- the total check never rejects an honest output vector (non-negative amounts whose exact
    total fits in int64): the fix cannot raise an alarm on a valid transaction -/
theorem C01_total_check_complete (outs : List Fixed64)
    (hn : ∀ o ∈ outs, 0 ≤ toInt o) (hs : sumZ outs < 9223372036854775808) :
    totalOK outs = true :=
  totalFrom_complete 0 outs (by decide) hn (by rw [toInt_zero]; omega)

example : totalOK [60000000, 39999900] = true := by decide

/-- and it accepts nothing else -/
theorem C01_total_check_sound (outs : List Fixed64) (h : totalOK outs = true) :
    (∀ o ∈ outs, 0 ≤ toInt o) ∧ sumZ outs < 9223372036854775808 := by
  have := totalFrom_sound 0 outs (by decide) h
  rw [toInt_zero] at this
  exact ⟨this.1, by omega⟩

/-- `getTransactionFee` / `GetTxFee` is the exact difference reduced to 64 bits — for all
    amount vectors, with no side condition (what the `fee` stream compares) -/
theorem C01_fee_is_wrapped_difference (outs refs : List Fixed64) :
    toInt (txFee outs refs) = (sumZ refs - sumZ outs).bmod (2 ^ 64) := by
  rw [txFee_eq, Fixed64.toInt_ofInt]

/-- The ledger invariant is inductive: spending `refs` and creating `outs` of an accepted
    transaction does not increase the total of unspent outputs, and every new unspent
    output is non-negative (so `SupplyBound` holds again for later spenders). -/
theorem C01_supply_inductive
    (c : Class) (env : Env) (sp : Special) (val : Nat → Fixed64) (ins : List In) (outs : List Fixed64) (total : Int)
    (hc : c ≠ .coinbase) (hpath : ¬ CRActivationPath c env sp)
    (hmin : 0 ≤ toInt env.minFee) (hled : Ledger val ins)
    (hacc : accepts .fixed c env sp val ins outs = true) :
    total - sumZ (refsOf val ins) + sumZ outs ≤ total ∧ ∀ o ∈ outs, 0 ≤ toInt o := by
  have := C01_no_value_creation_partial c env sp val ins outs hc hpath hmin hled hacc
  exact ⟨by omega, this.2.2⟩

/-- Block fee aggregation (`checkTxsContext`: `totalTxFee += GetTxFee(tx)`): when the
    per-transaction fees are non-negative and their exact total fits (it is at most the
    spent supply), the wrapping running total is the exact total. -/
theorem C01_block_fee_sum (fees : List Fixed64)
    (hn : ∀ f ∈ fees, 0 ≤ toInt f) (hs : sumZ fees < 9223372036854775808) :
    toInt (sumW fees) = sumZ fees := by
  rw [sumW_eq, Fixed64.toInt_ofInt]
  have := sumZ_nonneg fees hn
  exact bmod_exact _ (by omega) hs

example : toInt (sumW [100, 250, 4611686018427387904]) = 4611686018427388254 := by decide

/-! ### T-gen: the regenerated facts the model relies on -/

/-- shapes a SpecialContextCheck may have: only constant `true`/`false` second results,
    except ActivateProducer's `return nil, end` -/
def shapesOK (c : Class) (shapes : List String) : Bool :=
  shapes.all (fun s => s == "err,true" || s == "nil,true" || s == "nil,false" ||
                       (c == .activate && s == "nil,var")) &&
  (shapes.contains "nil,true" == canEnd c) &&
  ((shapes.contains "nil,false" || shapes.contains "nil,var") == canContinue c)

/-- Every tx type the factory creates is classified, overrides exactly the checker methods
    its class says, and its SpecialContextCheck can end the context check with `(nil,true)`
    exactly when the model says so; codes outside the table are rejected by the factory. -/
theorem C01_gen_kinds :
    Gen.C01.kinds.all (fun k =>
      match classOf k.code with
      | some c => k.overrides.filter (· != "SpecialContextCheck") == expectedOverrides c && shapesOK c k.special
      | none => false) = true ∧
    (List.range 256).all (fun n => (classOf n).isSome == Gen.C01.kinds.any (fun k => k.code == n)) = true := by
  decide +kernel

private def relevant (names : List String) (seq : List String) : List String :=
  seq.filter (fun s => names.contains s)

/-- SanityCheck and ContextCheck exist once (DefaultChecker; CoinBase has its own
    ContextCheck); SanityCheck runs input check → output check → output total check;
    ContextCheck runs SpecialContextCheck before CheckTransactionFee; the mempool and
    the block validator run the sanity check before the context check. -/
theorem C01_gen_flow :
    Gen.C01.sanityOwners = ["DefaultChecker"] ∧
    Gen.C01.contextOwners = ["CoinBaseTransaction", "DefaultChecker"] ∧
    relevant ["t.parameters.Transaction.CheckTransactionInput", "t.parameters.Transaction.CheckTransactionOutput",
              "checkTransactionOutputsTotal"] Gen.C01.sanitySeq
      = ["t.parameters.Transaction.CheckTransactionInput", "t.parameters.Transaction.CheckTransactionOutput",
         "checkTransactionOutputsTotal"] ∧
    relevant ["t.parameters.Transaction.SpecialContextCheck", "t.parameters.Transaction.CheckTransactionFee"] Gen.C01.contextSeq
      = ["t.parameters.Transaction.SpecialContextCheck", "t.parameters.Transaction.CheckTransactionFee"] ∧
    relevant ["chain.CheckTransactionSanity", "chain.CheckTransactionContext"] Gen.C01.poolSeq
      = ["chain.CheckTransactionSanity", "chain.CheckTransactionContext"] ∧
    Gen.C01.blockSanitySeq = ["b.CheckTransactionSanity"] ∧
    Gen.C01.blockContextSeq = ["b.CheckTransactionContext", "GetTxFee"] ∧
    Gen.C01.defaultFeeSeq.take 3 = ["getTransactionFee", "t.isSmallThanMinTransactionFee", "txn.SetFee"] := by
  decide

end ElaVerif.C01
