import ElaVerif.Model.Fee
import ElaVerif.Lemmas.Fixed64
import ElaVerif.Lemmas.Fee
import ElaVerif.Gen.C01
/-!
# C01 — no transaction creates value

Model: `ElaVerif/Model/Fee.lean` (`accepts rev class env special outs refs` =
SanityCheck ∧ ContextCheck restricted to everything that looks at amounts, for
every tx struct class; `Rev.pre` = the code as found, `Rev.fixed` = the code
after `fix: reject transactions whose output amounts are negative or overflow …`).

Full-strength statement (kept visible):

    FullStatement rev  :=  ∀ class env special outs refs,
        class ≠ coinbase → 0 ≤ minFee → SupplyBound refs →
        accepts rev class env special outs refs →
        Σℤ outs ≤ Σℤ refs   ∧   ∀ o ∈ outs, 0 ≤ o

* `C01_pre_full_false`  — it was false of the code as found: the 4 × 2^62 wrap-around
  witness (replayed on the real code end to end, corpus/C01/witness.ops).
* `C01_no_value_creation_partial` — on the fixed code it holds on every path except
  one: ActivateProducer sent by an inactive CR council member after NFTStartHeight
  (`CRActivationPath`), where SpecialContextCheck returns `(nil, true)` and the fee
  check is skipped altogether.
* `C01_full_false` — the witness for that remaining path (replayed on the real code:
  known finding C01-activate-cr-skips-fee).
-/
namespace ElaVerif.C01
open ElaVerif.Fixed64 ElaVerif.Fee

/-- Ledger invariant for the outputs a transaction spends: they are distinct
    unspent outputs of earlier accepted transactions, so each is non-negative and
    together they are at most the total supply, which is below 2^63 sela
    (`C01_supply_inductive` shows acceptance preserves exactly this). -/
def SupplyBound (refs : List Fixed64) : Prop :=
  (∀ r ∈ refs, 0 ≤ toInt r) ∧ sumZ refs < 9223372036854775808

/-- ActivateProducer, CR-council-member branch of SpecialContextCheck, after NFTStartHeight -/
def CRActivationPath (c : Class) (env : Env) (sp : Special) : Prop :=
  c = .activate ∧ sp = .alt ∧ env.afterNFT = true

/-- the property at full strength, for a revision of the code -/
def FullStatement (rev : Rev) : Prop :=
  ∀ (c : Class) (env : Env) (sp : Special) (outs refs : List Fixed64),
    c ≠ .coinbase → 0 ≤ toInt env.minFee → SupplyBound refs →
    accepts rev c env sp outs refs = true →
    sumZ outs ≤ sumZ refs ∧ ∀ o ∈ outs, 0 ≤ toInt o

/-! ### the property -/

/-- **Fixed code, every path but one.**  A non-coinbase transaction of any type that
    passes SanityCheck and ContextCheck has outputs that are individually
    non-negative and whose exact integer sum is at most the exact sum of the outputs it
    spends — no amount vector can wrap its way through.  Missing for the full
    statement: the `CRActivationPath` (see `C01_full_false`). -/
theorem C01_no_value_creation_partial
    (c : Class) (env : Env) (sp : Special) (outs refs : List Fixed64)
    (hc : c ≠ .coinbase) (hpath : ¬ CRActivationPath c env sp)
    (hmin : 0 ≤ toInt env.minFee) (hrefs : SupplyBound refs)
    (hacc : accepts .fixed c env sp outs refs = true) :
    sumZ outs ≤ sumZ refs ∧ ∀ o ∈ outs, 0 ≤ toInt o := by
  unfold accepts at hacc
  simp only [Bool.and_eq_true, beq_iff_eq] at hacc
  obtain ⟨hsan, hctx⟩ := hacc
  obtain ⟨hout, htot⟩ := sanity_fixed c env refs.length outs hsan
  have ⟨hn, hs⟩ := totalFrom_sound 0 outs (by decide) htot
  rw [toInt_zero] at hs
  exact ⟨core c env sp outs refs hc hpath hmin hout hctx hrefs.1 hrefs.2 hn (by omega), hn⟩

/-- non-vacuity: an ordinary transfer (1 ELA in, 0.6 + 0.399999 ELA out, fee 100 sela) is accepted -/
example : accepts .fixed .plainOut ⟨100, true, false, 10000⟩ .ok [60000000, 39999900] [100000000] = true := by
  decide

/-- the same statement restricted to what `Rev.pre` could guarantee: only for output
    vectors that are non-negative and whose exact total fits in int64 -/
theorem C01_pre_partial
    (c : Class) (env : Env) (sp : Special) (outs refs : List Fixed64)
    (hc : c ≠ .coinbase) (hpath : ¬ CRActivationPath c env sp)
    (hmin : 0 ≤ toInt env.minFee) (hrefs : SupplyBound refs)
    (hn : ∀ o ∈ outs, 0 ≤ toInt o) (hs : sumZ outs < 9223372036854775808)
    (hacc : accepts .pre c env sp outs refs = true) :
    sumZ outs ≤ sumZ refs := by
  unfold accepts at hacc
  simp only [Bool.and_eq_true, beq_iff_eq] at hacc
  obtain ⟨hsan, hctx⟩ := hacc
  exact core c env sp outs refs hc hpath hmin (sanity_pre c env refs.length outs hsan) hctx hrefs.1 hrefs.2 hn hs

/-- the wrap-around witness: TransferAsset, one input of 10 ELA, four outputs of 2^62 sela
    plus the honest change -/
def wrapOuts : List Fixed64 :=
  [4611686018427387904, 4611686018427387904, 4611686018427387904, 4611686018427387904, 999999900]
def wrapRefs : List Fixed64 := [1000000000]
def mainEnv : Env := ⟨100, true, false, 10000⟩

/-- **The code as found violated the property** (negation, with the witness). -/
theorem C01_pre_full_false : ¬ FullStatement .pre := by
  intro h
  have := (h .plainOut mainEnv .ok wrapOuts wrapRefs (by decide) (by decide)
    ⟨by intro r hr; simp [wrapRefs] at hr; subst hr; decide, by decide⟩ (by decide)).1
  exact absurd this (by decide)

/-- the fix rejects the wrap witness at the sanity stage (error kind `output`) -/
theorem C01_fixed_rejects_wrap_witness :
    sanity .fixed .plainOut mainEnv 1 wrapOuts = .out ∧ sanity .pre .plainOut mainEnv 1 wrapOuts = .ok := by
  decide

/-- the CR-activation witness: inputs 33 000 000 ELA (the genesis output), one output of
    55 000 000 ELA -/
def crOuts : List Fixed64 := [5500000000000000]
def crRefs : List Fixed64 := [3300000000000000]

/-- **The full statement is still false of the current code**: on the
    `CRActivationPath` SpecialContextCheck ends the context check before the fee check. -/
theorem C01_full_false : ¬ FullStatement .fixed := by
  intro h
  have := (h .activate mainEnv .alt crOuts crRefs (by decide) (by decide)
    ⟨by intro r hr; simp [crRefs] at hr; subst hr; decide, by decide⟩ (by decide)).1
  exact absurd this (by decide)

/-- the total check never rejects an honest output vector (non-negative amounts whose exact
    total fits in int64): the fix cannot raise an alarm on a valid transaction -/
theorem C01_total_check_complete (outs : List Fixed64)
    (hn : ∀ o ∈ outs, 0 ≤ toInt o) (hs : sumZ outs < 9223372036854775808) :
    totalOK outs = true :=
  totalFrom_complete 0 outs (by decide) hn (by rw [toInt_zero]; omega)

example : totalOK [60000000, 39999900] = true := by decide

/-- and it accepts nothing else -/
theorem C01_total_check_sound (outs : List Fixed64) (h : totalOK outs = true) :
    (∀ o ∈ outs, 0 ≤ toInt o) ∧ sumZ outs < 9223372036854775808 := by
  have := totalFrom_sound 0 outs (by decide) h
  rw [toInt_zero] at this
  exact ⟨this.1, by omega⟩

/-- `getTransactionFee` / `GetTxFee` is the exact difference reduced to 64 bits — for all
    amount vectors, with no side condition (what the `fee` stream compares) -/
theorem C01_fee_is_wrapped_difference (outs refs : List Fixed64) :
    toInt (txFee outs refs) = (sumZ refs - sumZ outs).bmod (2 ^ 64) := by
  rw [txFee_eq, Fixed64.toInt_ofInt]

/-- The ledger invariant is inductive: spending `refs` and creating `outs` of an accepted
    transaction does not increase the total of unspent outputs, and every new unspent
    output is non-negative (so `SupplyBound` holds again for later spenders). -/
theorem C01_supply_inductive
    (c : Class) (env : Env) (sp : Special) (outs refs : List Fixed64) (total : Int)
    (hc : c ≠ .coinbase) (hpath : ¬ CRActivationPath c env sp)
    (hmin : 0 ≤ toInt env.minFee) (hrefs : SupplyBound refs)
    (hacc : accepts .fixed c env sp outs refs = true) :
    total - sumZ refs + sumZ outs ≤ total ∧ ∀ o ∈ outs, 0 ≤ toInt o := by
  have := C01_no_value_creation_partial c env sp outs refs hc hpath hmin hrefs hacc
  exact ⟨by omega, this.2⟩

/-- Block fee aggregation (`checkTxsContext`: `totalTxFee += GetTxFee(tx)`): when the
    per-transaction fees are non-negative and their exact total fits (it is at most the
    spent supply), the wrapping running total is the exact total. -/
theorem C01_block_fee_sum (fees : List Fixed64)
    (hn : ∀ f ∈ fees, 0 ≤ toInt f) (hs : sumZ fees < 9223372036854775808) :
    toInt (sumW fees) = sumZ fees := by
  rw [sumW_eq, Fixed64.toInt_ofInt]
  have := sumZ_nonneg fees hn
  exact bmod_exact _ (by omega) hs

example : toInt (sumW [100, 250, 4611686018427387904]) = 4611686018427388254 := by decide

/-! ### T-gen: the regenerated facts the model relies on -/

/-- shapes a SpecialContextCheck may have: only constant `true`/`false` second results,
    except ActivateProducer's `return nil, end` -/
def shapesOK (c : Class) (shapes : List String) : Bool :=
  shapes.all (fun s => s == "err,true" || s == "nil,true" || s == "nil,false" ||
                       (c == .activate && s == "nil,var")) &&
  (shapes.contains "nil,true" == canEnd c) &&
  ((shapes.contains "nil,false" || shapes.contains "nil,var") == canContinue c)

/-- Every tx type the factory creates is classified, overrides exactly the checker methods
    its class says, and its SpecialContextCheck can end the context check with `(nil,true)`
    exactly when the model says so; codes outside the table are rejected by the factory. -/
theorem C01_gen_kinds :
    Gen.C01.kinds.all (fun k =>
      match classOf k.code with
      | some c => k.overrides.filter (· != "SpecialContextCheck") == expectedOverrides c && shapesOK c k.special
      | none => false) = true ∧
    (List.range 256).all (fun n => (classOf n).isSome == Gen.C01.kinds.any (fun k => k.code == n)) = true := by
  decide +kernel

private def relevant (names : List String) (seq : List String) : List String :=
  seq.filter (fun s => names.contains s)

/-- SanityCheck and ContextCheck exist once (DefaultChecker; CoinBase has its own
    ContextCheck); SanityCheck runs input check → output check → output total check;
    ContextCheck runs SpecialContextCheck before CheckTransactionFee; the mempool and
    the block validator run the sanity check before the context check. -/
theorem C01_gen_flow :
    Gen.C01.sanityOwners = ["DefaultChecker"] ∧
    Gen.C01.contextOwners = ["CoinBaseTransaction", "DefaultChecker"] ∧
    relevant ["t.parameters.Transaction.CheckTransactionInput", "t.parameters.Transaction.CheckTransactionOutput",
              "checkTransactionOutputsTotal"] Gen.C01.sanitySeq
      = ["t.parameters.Transaction.CheckTransactionInput", "t.parameters.Transaction.CheckTransactionOutput",
         "checkTransactionOutputsTotal"] ∧
    relevant ["t.parameters.Transaction.SpecialContextCheck", "t.parameters.Transaction.CheckTransactionFee"] Gen.C01.contextSeq
      = ["t.parameters.Transaction.SpecialContextCheck", "t.parameters.Transaction.CheckTransactionFee"] ∧
    relevant ["chain.CheckTransactionSanity", "chain.CheckTransactionContext"] Gen.C01.poolSeq
      = ["chain.CheckTransactionSanity", "chain.CheckTransactionContext"] ∧
    Gen.C01.blockSanitySeq = ["b.CheckTransactionSanity"] ∧
    Gen.C01.blockContextSeq = ["b.CheckTransactionContext", "GetTxFee"] ∧
    Gen.C01.defaultFeeSeq.take 3 = ["getTransactionFee", "t.isSmallThanMinTransactionFee", "txn.SetFee"] := by
  decide

end ElaVerif.C01
