import ElaVerif.Model.Index
import ElaVerif.Lemmas.Index
import ElaVerif.Gen.C13
/-!
  C13 — disconnecting a block exactly undoes connecting it (persistent indexes).

  `connect` / `disconnect` (Model/Index.lean) mirror `ChainStore.SaveBlock` / `RollbackBlock`:
  save/rollback processors, then tx index, unspent index, per-address index, return-deposit index
  inside one atomic db transaction. Equality of states is equality of every observation
  (`Equiv`): maps agree key by key, the two list-valued indexes agree up to the order of the
  entries (Go's swap-and-pop reorders them; the query API makes no order promise).
-/
namespace ElaVerif.C13
open ElaVerif.Index

/-- equal as finite sets / maps -/
structure Equiv (a b : State) : Prop where
  tip : a.tip = b.tip
  height : a.height = b.height
  txs : ∀ k, a.txs.get k = b.txs.get k
  unspent : ∀ k, (getUnspent a k).Perm (getUnspent b k)
  utxo : ∀ κ, ((a.utxo.get κ).getD []).Perm ((b.utxo.get κ).getD [])
  tx3 : ∀ k, a.tx3.get k = b.tx3.get k
  retdep : ∀ k, a.retdep.get k = b.retdep.get k
  drafts : ∀ k, a.drafts.get k = b.drafts.get k

/-- the block is valid on the state as far as the indexes are concerned: it extends the tip, its
    transaction ids and recorded hashes are new, its inputs are distinct, unspent, known to the tx
    index and not created by the block itself. (The last three fields are invariants of any state
    the indexes can reach: list entries have distinct outpoints, a bucket of a future height is
    empty, zero-value outputs are not listed.) -/
structure ValidOn (s : State) (b : Block) : Prop where
  prev : b.prev = s.tip
  height : b.height = s.height + 1
  reg : ∀ tx ∈ b.txs, tx.kind = .registerAsset → tx.ins = []
  ids_nodup : (b.txs.map (·.id)).Nodup
  ids_fresh : ∀ tx ∈ b.txs, s.txs.get tx.id = none ∧ getUnspent s tx.id = []
  ins_nodup : (allIns b).Nodup
  ins_not_own : ∀ p ∈ allIns b, ∀ tx ∈ b.txs, p.1 ≠ tx.id
  ins_unspent : ∀ p ∈ allIns b, p.2 ∈ getUnspent s p.1
  ins_known : ∀ p ∈ allIns b, ∃ h outs o, s.txs.get p.1 = some (h, outs) ∧ outs[p.2]? = some o ∧
      h ≠ b.height ∧
      (o.value ≠ 0 → (p.1, p.2, o.value) ∈ (s.utxo.get (o.addr, h)).getD []) ∧
      (o.value = 0 → ∀ u ∈ (s.utxo.get (o.addr, h)).getD [], ukey u ≠ p)
  tx3_fresh : ∀ tx ∈ b.txs, ∀ h ∈ savedTx3 tx, s.tx3.get h = none
  retdep_fresh : ∀ h ∈ rdHashes b, s.retdep.get h = none
  drafts_fresh : ∀ tx ∈ b.txs, ∀ p ∈ draftPairs tx, s.drafts.get p.1 = none
  utxo_keys_nodup : ∀ κ, (((s.utxo.get κ).getD []).map ukey).Nodup
  utxo_empty_at_height : ∀ a, (s.utxo.get (a, b.height)).getD [] = []

instance : Inhabited Out := ⟨{ addr := 0, value := 0 }⟩

/-- what an input resolves to through the tx index -/
def refOf (s : State) (p : Nat × Nat) : Nat × Out :=
  match s.txs.get p.1 with
  | some (h, outs) => (h, outs[p.2]?.getD default)
  | none => (0, default)

theorem rolled_eq_saved (tx : Tx) : rolledTx3 tx = savedTx3 tx := by
  unfold rolledTx3 savedTx3 hasRollback hasSave; rfl

/-- **C13.** For every state and every block valid on it: SaveBlock succeeds, RollbackBlock of
    the same block succeeds, and every persistent index reads as before. -/
theorem C13_inverse (s : State) (b : Block) (hv : ValidOn s b) :
    ∃ s1 s2, connect s b = .ok s1 ∧ disconnect s1 b = .ok s2 ∧ Equiv s2 s := by
  -- unspent index
  have huv : UValid s.unspent b :=
    ⟨hv.reg, hv.ids_nodup, fun tx htx => (hv.ids_fresh tx htx).2, hv.ins_nodup, hv.ins_not_own, hv.ins_unspent⟩
  obtain ⟨un1, un2, hun1, hun2, hunp⟩ := unspent_inverse b s.unspent huv
  -- per-address index
  have hown : ∀ p ∈ allIns b, p.1 ∉ b.txs.map (·.id) := by
    intro p hp hin
    obtain ⟨tx, htx, e⟩ := List.mem_map.mp hin
    exact hv.ins_not_own p hp tx htx e.symm
  have hres : ∀ p ∈ allIns b, resolve s.txs.get p = .ok (refOf s p) := by
    intro p hp
    obtain ⟨h, outs, o, h1, h2, _⟩ := hv.ins_known p hp
    simp [resolve, refOf, h1, h2]
  have hav : AValid s b (refOf s) := by
    refine ⟨?_, ?_, ?_, hv.ins_nodup, hv.utxo_keys_nodup, ?_, ?_, hv.utxo_empty_at_height⟩
    · intro p hp
      have hf : fetchTxConn s b p.1 = s.txs.get p.1 := by
        unfold fetchTxConn
        have : b.txs.find? (fun tx => tx.id == p.1 && tx.kind != .registerAsset) = none := by
          apply List.find?_eq_none.mpr
          intro tx htx hh
          have : tx.id = p.1 := by
            have := (Bool.and_eq_true _ _ ▸ hh).1
            simpa using this
          exact hv.ins_not_own p hp tx htx this.symm
        rw [this]
      have := hres p hp
      unfold resolve at this ⊢
      rw [hf]; exact this
    · intro p hp
      have hf : (txConnect b s.txs).get p.1 = s.txs.get p.1 :=
        get_txConnect_not_mem b.txs b.height s.txs p.1 (hown p hp)
      have := hres p hp
      unfold resolve at this ⊢
      rw [hf]; exact this
    · intro p hp
      obtain ⟨h, outs, o, h1, h2, h3, _⟩ := hv.ins_known p hp
      simp [refOf, h1, h3]
    · intro p hp hnz
      obtain ⟨h, outs, o, h1, h2, _, h4, _⟩ := hv.ins_known p hp
      have hr : refOf s p = (h, o) := by simp [refOf, h1, h2]
      rw [hr] at hnz
      simp only [refKey, hr]
      exact h4 hnz
    · intro p hp hz
      obtain ⟨h, outs, o, h1, h2, _, _, h5⟩ := hv.ins_known p hp
      have hr : refOf s p = (h, o) := by simp [refOf, h1, h2]
      rw [hr] at hz
      simp only [refKey, hr]
      exact h5 hz
  obtain ⟨ut1, ut2, hut1, hut2, hutp⟩ := utxo_inverse s b (refOf s) hav
  -- tx index
  obtain ⟨tx2, htx2, htx2g⟩ := txDisconnect_ok b.txs (txConnect b s.txs) hv.ids_nodup
    (fun tx htx => get_txConnect_mem b.txs b.height s.txs tx.id (List.mem_map.mpr ⟨tx, htx, rfl⟩))
  -- assemble
  have hh : ¬ b.height ≤ s.height := by rw [hv.height]; omega
  have ht : ¬ s.tip ≠ b.prev := by rw [hv.prev]; simp
  let s1 : State := { (b.txs.foldl saveTx s) with
    tip := b.id, height := b.height, txs := txConnect b s.txs, unspent := un1, utxo := ut1,
    retdep := (rdHashes b).foldl (fun m h => m.put h ()) s.retdep }
  have hc : connect s b = .ok s1 := by
    unfold connect saveFFLDB
    simp only [hh, ht, if_false, hun1, hut1, Res.bind]
    rfl
  let s2 : State := { (b.txs.foldl rollbackTx s1) with
    tip := b.prev, height := b.height - 1, txs := tx2, unspent := un2, utxo := ut2,
    retdep := (rdHashes b).foldl (fun m h => m.del h) s1.retdep }
  have hd : disconnect s1 b = .ok s2 := by
    unfold disconnect
    have h1 : ¬ s1.tip ≠ b.id := by simp [s1]
    have h2 : txDisconnect b s1.txs = .ok tx2 := htx2
    have h3 : unspentDisconnect b s1.unspent = .ok un2 := hun2
    have h4 : utxoDisconnect s1 b = .ok ut2 := hut2 s1 rfl rfl
    simp only [h1, if_false, h2, h3, h4, Res.bind]
    rfl
  refine ⟨s1, s2, hc, hd, ?_⟩
  obtain ⟨hs3, hsd, hsr⟩ := foldl_saveTx b.txs s
  obtain ⟨hr3, hrd⟩ := foldl_rollbackTx b.txs s1
  refine ⟨hv.prev, by show b.height - 1 = s.height; rw [hv.height]; omega, ?_, hunp, hutp, ?_, ?_, ?_⟩
  · intro k
    show tx2.get k = s.txs.get k
    rw [htx2g]
    by_cases hk : k ∈ b.txs.map (·.id)
    · rw [if_pos hk]
      obtain ⟨tx, htx, rfl⟩ := List.mem_map.mp hk
      exact ((hv.ids_fresh tx htx).1).symm
    · rw [if_neg hk]
      exact get_txConnect_not_mem b.txs b.height s.txs k hk
  · intro k
    show (b.txs.foldl rollbackTx s1).tx3.get k = s.tx3.get k
    rw [hr3]
    have : s1.tx3 = (b.txs.foldl saveTx s).tx3 := rfl
    rw [this, hs3, Map.get_foldl_del_keys]
    have hroll : b.txs.flatMap rolledTx3 = b.txs.flatMap savedTx3 := by
      congr 1
    rw [hroll]
    by_cases hk : k ∈ b.txs.flatMap savedTx3
    · rw [if_pos hk]
      obtain ⟨tx, htx, hin⟩ := List.mem_flatMap.mp hk
      exact (hv.tx3_fresh tx htx k hin).symm
    · rw [if_neg hk, Map.get_foldl_put_keys, if_neg hk]
  · intro k
    show ((rdHashes b).foldl (fun m h => m.del h) s1.retdep).get k = s.retdep.get k
    have : s1.retdep = (rdHashes b).foldl (fun m h => m.put h ()) s.retdep := rfl
    rw [this, Map.get_foldl_del_keys]
    by_cases hk : k ∈ rdHashes b
    · rw [if_pos hk]; exact (hv.retdep_fresh k hk).symm
    · rw [if_neg hk, Map.get_foldl_put_keys, if_neg hk]
  · intro k
    show (b.txs.foldl rollbackTx s1).drafts.get k = s.drafts.get k
    rw [hrd]
    have : s1.drafts = (b.txs.foldl saveTx s).drafts := rfl
    rw [this, hsd, Map.get_foldl_del_pairs]
    by_cases hk : k ∈ (b.txs.flatMap draftPairs).map (·.1)
    · rw [if_pos hk]
      obtain ⟨p, hp, rfl⟩ := List.mem_map.mp hk
      obtain ⟨tx, htx, hin⟩ := List.mem_flatMap.mp hp
      exact (hv.drafts_fresh tx htx p hin).symm
    · rw [if_neg hk, Map.get_foldl_put_pairs_of_not_mem _ _ _ hk]

/-- **C13, instance.** A side-chain withdrawal (payload version 0, 1 or 2) that is rolled back
    can be included again: none of its side-chain transaction hashes stays recorded. -/
theorem C13_withdraw_reincludable (s : State) (b : Block) (hv : ValidOn s b) (tx : Tx) (htx : tx ∈ b.txs)
    (hk : tx.kind = .withdraw) (hver : tx.pver ≤ 2) (h : Nat) (hh : h ∈ wdHashes tx) :
    ∃ s1 s2, connect s b = .ok s1 ∧ disconnect s1 b = .ok s2 ∧ s1.tx3.get h = some () ∧ s2.tx3.get h = none := by
  obtain ⟨s1, s2, hc, hd, he⟩ := C13_inverse s b hv
  have hsaved : h ∈ savedTx3 tx := by
    unfold savedTx3 hasSave
    have : (tx.pver == 0 || tx.pver == 1 || tx.pver == 2) = true := by
      have : tx.pver = 0 ∨ tx.pver = 1 ∨ tx.pver = 2 := by omega
      rcases this with h | h | h <;> simp [h]
    simp [hk, this, hh]
  refine ⟨s1, s2, hc, hd, ?_, ?_⟩
  · -- recorded after the block is connected
    have hh' : ¬ b.height ≤ s.height := by rw [hv.height]; omega
    unfold connect saveFFLDB at hc
    simp only [hh', if_false] at hc
    split at hc
    · cases hc
    · cases hun : unspentConnect b s.unspent with
      | ok un =>
        cases hut : utxoConnect s b with
        | ok ut =>
          simp only [hun, hut, Res.bind] at hc
          cases hc
          show (b.txs.foldl saveTx s).tx3.get h = some ()
          rw [(foldl_saveTx b.txs s).1, Map.get_foldl_put_keys,
            if_pos (List.mem_flatMap.mpr ⟨tx, htx, hsaved⟩)]
        | err => simp [hun, hut, Res.bind] at hc
        | panic => simp [hun, hut, Res.bind] at hc
      | err => simp [hun, Res.bind] at hc
      | panic => simp [hun, Res.bind] at hc
  · rw [he.tx3]; exact hv.tx3_fresh tx htx h hsaved

/-! ### the stored form of an unspent list -/

/-- **C13 (codec).** Every list of output indexes (uint16) reads back from its stored bytes unchanged —
    in particular indexes ≥ 256, whose high byte is not zero. -/
theorem C13_u16_roundtrip (l : List Nat) (h : ∀ x ∈ l, x < 65536) : u16dec (u16enc l) = some l := by
  induction l with
  | nil => rfl
  | cons x r ih =>
    have hx := h x (List.mem_cons_self ..)
    have := ih (fun y hy => h y (List.mem_cons_of_mem _ hy))
    simp only [u16enc, u16dec, this, Option.map_some]
    congr 2
    omega

/-- stored bytes are bytes, two per index -/
theorem C13_u16enc_bytes (l : List Nat) : (u16enc l).length = 2 * l.length ∧ ∀ b ∈ u16enc l, b < 256 := by
  induction l with
  | nil => simp [u16enc]
  | cons x r ih =>
    refine ⟨by simp [u16enc, ih.1]; omega, ?_⟩
    intro b hb
    simp only [u16enc, List.mem_cons] at hb
    rcases hb with rfl | rfl | hb
    · omega
    · omega
    · exact ih.2 b hb

example : u16dec (u16enc [5, 261, 299, 65535]) = some [5, 261, 299, 65535] := by decide
example : u16dec [1, 2, 3] = none := by decide

/-! ### non-vacuity: a concrete state and a concrete valid block -/

/-- state after a genesis-like block: tx 1 (height 0) with outputs to addresses 7 and 8 -/
def exState : State :=
  { tip := 100, height := 0,
    txs := [(1, some (0, [{ addr := 7, value := 50 }, { addr := 8, value := 0 }]))],
    unspent := [(1, some [0, 1])],
    utxo := [((7, 0), some [(1, 0, 50)])] }

/-- block 101 on 100: a coinbase, a transfer spending both outputs of tx 1, a v2 withdrawal, a
    deposit return and a proposal with draft data -/
def exBlock : Block :=
  { id := 101, prev := 100, height := 1,
    txs := [
      { id := 10, kind := .coinbase, pver := 0, ins := [], outs := [{ addr := 7, value := 5 }] },
      { id := 11, kind := .other, pver := 0, ins := [(1, 0), (1, 1)],
        outs := [{ addr := 8, value := 20 }, { addr := 7, value := 0 }, { addr := 7, value := 30 }] },
      { id := 12, kind := .withdraw, pver := 2, ins := [], outs := [{ addr := 9, value := 7, wd := some 900 }] },
      { id := 13, kind := .returnDeposit, pver := 0, ins := [], outs := [{ addr := 9, value := 9, rd := some 901 }] },
      { id := 14, kind := .proposal, pver := 1, ins := [], outs := [], phashes := [902], pdatas := ["abcd"] }] }

/-- the example really goes through the model: connect records the v2 withdrawal hash, the deposit
    return and the draft and spends tx 1; disconnect takes all of it back -/
example :
    (match connect exState exBlock with
     | .ok s1 =>
       (s1.tx3.get 900, s1.retdep.get 901, s1.drafts.get 902, getUnspent s1 1, getUnspent s1 11, getUTXO s1 7) ==
         (some (), some (), some "abcd", [], [0, 1, 2], [(1, 0, 50), (10, 0, 5), (11, 2, 30)].drop 1) &&
       (match disconnect s1 exBlock with
        | .ok s2 => (s2.tx3.get 900, s2.retdep.get 901, s2.drafts.get 902, getUnspent s2 1, getUTXO s2 7, s2.tip, s2.height) ==
            (none, none, none, [0, 1], [(1, 0, 50)], 100, 0)
        | _ => false)
     | _ => false) = true := by decide

example : savedTx3 exBlock.txs[2] = [900] := by decide

theorem exUtxo_get (κ : Nat × Nat) :
    (exState.utxo.get κ).getD [] = if κ = (7, 0) then [(1, 0, 50)] else [] := by
  by_cases h : κ = (7, 0)
  · subst h; decide
  · have : ((7, 0) : Nat × Nat) ≠ κ := fun e => h e.symm
    simp [exState, Map.get, Map.find?, this, h]

/-- the hypothesis of `C13_inverse` is satisfiable by a block that exercises every index -/
theorem C13_validOn_example : ValidOn exState exBlock where
  prev := by decide
  height := by decide
  reg := by decide
  ids_nodup := by decide
  ids_fresh := by decide
  ins_nodup := by decide
  ins_not_own := by decide
  ins_unspent := by decide
  ins_known := by
    intro p hp
    have : p = (1, 0) ∨ p = (1, 1) := by
      have : allIns exBlock = [(1, 0), (1, 1)] := by decide
      rw [this] at hp; simpa using hp
    rcases this with rfl | rfl
    · refine ⟨0, [{ addr := 7, value := 50 }, { addr := 8, value := 0 }], { addr := 7, value := 50 }, by decide, by decide, by decide, ?_, ?_⟩
      · intro _; decide
      · intro h; exact absurd h (by decide)
    · refine ⟨0, [{ addr := 7, value := 50 }, { addr := 8, value := 0 }], { addr := 8, value := 0 }, by decide, by decide, by decide, ?_, ?_⟩
      · intro h; exact absurd rfl h
      · intro _ u hu
        rw [exUtxo_get] at hu
        simp at hu
  tx3_fresh := by decide
  retdep_fresh := by decide
  drafts_fresh := by decide
  utxo_keys_nodup := by
    intro κ; rw [exUtxo_get]; split <;> simp
  utxo_empty_at_height := by
    intro a; rw [exUtxo_get]; simp [exBlock]

/-! ### ties to the source (regenerated on every run) -/

/-- every (transaction type, payload version) with a save processor has a rollback processor -/
theorem C13_gen_save_has_rollback :
    ∀ e ∈ Gen.C13.saveTable, ∃ r ∈ Gen.C13.rollbackTable, r.1 = e.1 ∧ ∀ v ∈ e.2, v ∈ r.2 := by
  decide

/-- the processor tables and the index order are the ones the model implements -/
theorem C13_gen_tables :
    Gen.C13.saveTable =
      [("CRCProposalReviewTransaction", ["*"]), ("CRCProposalTrackingTransaction", ["*"]),
       ("CRCProposalTransaction", ["*"]),
       ("WithdrawFromSideChainTransaction",
         ["WithdrawFromSideChainVersion", "WithdrawFromSideChainVersionV1", "WithdrawFromSideChainVersionV2"])] ∧
    Gen.C13.versionValues =
      [("WithdrawFromSideChainVersion", 0), ("WithdrawFromSideChainVersionV1", 1), ("WithdrawFromSideChainVersionV2", 2)] ∧
    Gen.C13.indexOrder = ["txIndex", "unspentIndex", "utxoIndex", "returnDepositIndex"] ∧
    (∀ k v, hasSave k v = hasRollback k v) := by
  refine ⟨by decide, by decide, by decide, ?_⟩
  intro k v; cases k <;> rfl

end ElaVerif.C13
