import ElaVerif.Model.Node
import ElaVerif.Lemmas.Node
import ElaVerif.Lemmas.NodeValid
import ElaVerif.Lemmas.NodeBest
import ElaVerif.Lemmas.NodeBestAll
import ElaVerif.Lemmas.NodeRestart
import ElaVerif.Gen.C12
/-!
  C12 — the node follows the most-work valid chain.

  Model: `Model/Node.lean` (`processBlock`, `acceptBlock`, `extendTip`, `sideOrReorg`, `reorgPlan`,
  `reorganize`, `processOrphans`), written as the Go code is: a reorganisation detaches the old
  branch, attaches the new one block by block and, when a block fails its context check, returns
  the error **without restoring** the old branch. On regnet every block has the same work, so
  "more work" = "higher". Claimed **partial** (transfer transactions only; `C12_best` is proved
  for one step, not yet as an invariant over histories).
-/
namespace ElaVerif.C12
open ElaVerif.Index ElaVerif.Node

/-! ### the full statement about failed switches is false of the code -/

def P0 : Params := { reward := 50, maturity := 2, minFee := 100 }
def cb (id addr : Nat) : Tx := { id := id, kind := .coinbase, pver := 0, ins := [], outs := [{ addr := addr, value := 50 }] }
def G : Block := { id := 1, prev := 0, height := 0, txs := [cb 10 0] }
def A1 : Block := { id := 2, prev := 1, height := 1, txs := [cb 20 1] }
def A2 : Block := { id := 3, prev := 2, height := 2, txs := [cb 30 1] }
def B1 : Block := { id := 4, prev := 1, height := 1, txs := [cb 40 2] }
/-- spends the coinbase of its parent `B1`: sane, but the coinbase is not mature -/
def B2 : Block :=
  { id := 5, prev := 4, height := 2,
    txs := [{ id := 50, kind := .coinbase, pver := 0, ins := [], outs := [{ addr := 2, value := 100 }] },
            { id := 51, kind := .other, pver := 0, ins := [(40, 0)], outs := [{ addr := 3, value := -50 + 50 }] }] }
def B3 : Block := { id := 6, prev := 5, height := 3, txs := [cb 60 2] }

def deliverAll (s : NState) (bs : List Block) : NState := bs.foldl (fun s b => (processBlock s b).1) s

/-- state after a1, a2 (main chain) and b1, b2 (side chain) -/
def S4 : NState := deliverAll (initState P0 G) [A1, A2, B1, B2]

example : S4.tip.id = 3 ∧ blockSane B2 = true := by decide

/-- **Full statement (false).** "A failed switch to an invalid heavier branch leaves the node on its
    previous valid chain": delivering `B3` makes the branch b1-b2-b3 heavier; the switch detaches
    a2 and a1, attaches b1, fails at b2, and the node is left on b1 — height 1 instead of 2 — with
    the error returned. Same history on the real node: corpus/C12/reorg_midway.ops
    (known finding C12-reorg-midway). -/
theorem C12_failed_switch_false :
    ¬ (∀ (s : NState) (b : Block), Good s → (processBlock s b).2 = .err → (processBlock s b).1.tip = s.tip) := by
  intro h
  have hg : Good S4 := by
    unfold S4 deliverAll
    simp only [List.foldl]
    exact good_processBlock _ _ (good_processBlock _ _ (good_processBlock _ _ (good_processBlock _ _ (good_init _ _))))
  have := h S4 B3 hg (by decide)
  revert this
  decide

example : (processBlock S4 B3).1.tip.id = 4 ∧ (processBlock S4 B3).1.tip.height = 1 ∧ S4.tip.height = 2 := by decide

/-! ### what does hold -/

/-- **C12 (the active chain is valid).** After any history of deliveries and submissions every
    block of the active chain has passed the context check against the replay of the chain below
    it — also after a failed switch. -/
theorem C12_active_chain_valid (P : Params) (g : Block) (ops : List Op) :
    StackValid P (run (initState P g) ops).gledger (run (initState P g) ops).active :=
  (valid_run P _ ops (valid_init P g)).2


/-- **C12 (most work, over histories).** Start from the genesis state and deliver any list of blocks such
    that (i) every block arrives after its parent, (ii) every tip stays at or below `CRCOnlyDPOSHeight`, so
    the irreversibility guard is off, and (iii) no switch fails half-way (an `err` reply leaves the state
    unchanged — the exception is exactly the known finding C12-reorg-midway). Then after the whole
    history **no block in the index carries more cumulative work than the tip** (`workOf` =
    `BlockNode.WorkSum`: parent's sum + `CalcWork(bits)`), and the active chain consists of indexed blocks.
    Orphans, i.e. out-of-order delivery, are outside this theorem and left to the oracle. -/
theorem C12_best (P : Params) (g : Block) (bs : List Block) (s' : NState)
    (h : InOrderRun (initState P g) bs s') :
    (∀ k ∈ s'.known, workOf s' k.id ≤ workOf s' s'.tip.id) ∧ (∀ p ∈ s'.active, p.1 ∈ s'.known) := by
  have := (winv_inOrderRun h (winv_init P g) rfl).1
  exact ⟨this.best, this.actKnown⟩

/-- **Most work wins, any delivery order.** `bs` is a universe of blocks in which every context check
    succeeds wherever the node tries it (`AllValid`: no switch can fail) and whose heights are at or below
    `CRCOnlyDPOSHeight` (guard off). Deliver any sequence `ds` of blocks of `bs` — out of order, repeated,
    children before parents, so the orphan pool and `ProcessOrphans` are inside the theorem. Afterwards no
    block in the index carries more cumulative work than the tip. The two exceptions of the rule are exactly
    the two hypotheses: the irreversibility guard (C30) and a switch that fails half-way (C12-reorg-midway). -/
theorem C12_best_any_order (P : Params) (g : Block) (bs ds : List Block) (hv : AllValid P bs)
    (hg : g.height ≤ P.guardFrom) (hl : ∀ b ∈ bs, b.height ≤ P.guardFrom) (hd : ∀ d ∈ ds, d ∈ bs) :
    let s' := deliverAll (initState P g) ds
    (∀ k ∈ s'.known, workOf s' k.id ≤ workOf s' s'.tip.id) ∧ (∀ p ∈ s'.active, p.1 ∈ s'.known) := by
  have := (ginv_deliverAll hv ds hd _ (ginv_init P g bs hg hl)).w
  exact ⟨this.best, this.actKnown⟩

/-- the hypothesis is inhabited: coinbase-only blocks below `CheckRewardHeight` -/
theorem C12_allValid_inhabited (P : Params) (bs : List Block)
    (h : ∀ b ∈ bs, (∃ cb, b.txs = [cb]) ∧ b.height < P.checkRewardFrom) : AllValid P bs :=
  allValid_coinbaseOnly P bs h

/-- **Most work survives a restart.** `restart` = `initChainState`: the index is rebuilt from the block rows in
    the store — the active chain and every block that was connected once (`stored`; detached branches stay in the
    store), with the work sums `LoadBlockNode` recomputes. If no indexed block out-weighed the tip before, none
    does after; and the once-connected blocks are still there to be extended (the reorganisation onto such a branch
    is what /repo 8af26abd repaired). -/
theorem C12_restart_keeps_best (s : NState) (hi : WInv s) (hst : ∀ b ∈ s.stored, b ∈ s.known)
    (hne : s.active ≠ []) :
    (∀ k ∈ (restart s).known, workOf (restart s) k.id ≤ workOf (restart s) (restart s).tip.id) ∧
    (∀ b ∈ s.stored, (restart s).isKnown b.id = true) := by
  refine ⟨(winv_restart s hi hst hne).best, ?_⟩
  intro b hb
  unfold NState.isKnown
  rw [restart_known]
  by_cases ha : (s.active.any (·.1.id == b.id)) = true
  · obtain ⟨p, hp, hpe⟩ := List.any_eq_true.mp ha
    have : (onDisk s).any (·.id == b.id) = true :=
      List.any_eq_true.mpr ⟨p.1, List.mem_append.mpr (Or.inl (List.mem_map.mpr ⟨p, hp, rfl⟩)), hpe⟩
    simp [this]
  · have : (onDisk s).any (·.id == b.id) = true :=
      List.any_eq_true.mpr ⟨b, List.mem_append.mpr (Or.inr (List.mem_filter.mpr ⟨hb, by simpa using ha⟩)), by simp⟩
    simp [this]

/-- one accepted block keeps the invariant from any state that has it -/
theorem C12_best_step (s : NState) (b : Block) (hi : WInv s) (hf : Fresh s b)
    (hgu : s.tip.height ≤ s.P.guardFrom) (hok : (acceptBlock s b).2 ≠ .err) : WInv (acceptBlock s b).1 :=
  winv_acceptBlock s b hi hf hgu hok

/-- non-vacuity: the main chain and a lighter side block of the witness tree form such a history -/
example : InOrderRun (initState P0 G) [A1, A2, B1] (deliverAll (initState P0 G) [A1, A2, B1]) :=
  .step (by decide) (by decide) (fun h => absurd h (by decide))
    (.step (by decide) (by decide) (fun h => absurd h (by decide))
      (.step (by decide) (by decide) (fun h => absurd h (by decide)) (.nil _)))

/-- a block that merely extends the tip and fails leaves the state untouched -/
theorem C12_failed_extend_keeps_state (s : NState) (b : Block) (h : (extendTip s b).2 = .err) :
    (extendTip s b).1 = s := by
  unfold extendTip at *
  cases hc : connectTip s b with
  | some s' => simp [hc] at h
  | none => rfl

theorem attach_tip (attach : List Block) (acc : NState × Bool)
    (h : (attach.foldl attachStep acc).2 = true) (hne : attach ≠ []) :
    (attach.foldl attachStep acc).1.tip = attach.getLast hne := by
  induction attach generalizing acc with
  | nil => exact absurd rfl hne
  | cons b r ih =>
    simp only [List.foldl_cons] at h ⊢
    by_cases hr : r = []
    · subst hr
      simp only [List.foldl_nil, List.getLast_singleton] at h ⊢
      by_cases h0 : acc.2 = true
      · cases hc : connectTip acc.1 b with
        | none => simp [attachStep, h0, hc] at h
        | some s' =>
          have hstep : attachStep acc b = (s', true) := by simp [attachStep, h0, hc]
          rw [hstep]
          unfold connectTip at hc
          split at hc
          · cases hc; rfl
          · cases hc
      · simp [attachStep, h0] at h
    · rw [List.getLast_cons hr]
      exact ih _ h hr

theorem attach_ok_all (attach : List Block) (acc : NState × Bool)
    (h : (attach.foldl attachStep acc).2 = false) (h0 : acc.2 = true) :
    ∃ b ∈ attach, ∃ s', connectTip s' b = none := by
  induction attach generalizing acc with
  | nil => simp at h; rw [h0] at h; cases h
  | cons b r ih =>
    simp only [List.foldl_cons] at h
    cases hc : connectTip acc.1 b with
    | none => exact ⟨b, List.mem_cons_self .., acc.1, hc⟩
    | some s' =>
      have hstep : attachStep acc b = (s', true) := by simp [attachStep, h0, hc]
      rw [hstep] at h
      obtain ⟨b', hb', hs'⟩ := ih (s', true) h rfl
      exact ⟨b', List.mem_cons_of_mem _ hb', hs'⟩

/-- **C12 (partial).** When the switch fails, some block of the heavier branch failed its context
    check; when every block of the branch is valid on its parent, the switch completes and the tip
    is the head of the new branch. -/
theorem C12_partial (s : NState) (d : Nat) (attach : List Block) (hne : attach ≠ []) :
    ((reorganize s d attach).2 = true → (reorganize s d attach).1.tip = attach.getLast hne) ∧
    ((reorganize s d attach).2 = false → ∃ b ∈ attach, ∃ s', connectTip s' b = none) := by
  unfold reorganize
  exact ⟨fun h => attach_tip _ _ h hne, fun h => attach_ok_all _ _ h rfl⟩

/-- **C12 (one step of "most work").** A side-chain block whose branch does not carry more cumulative
    work than the active chain leaves the active chain alone; one that does is refused only by the
    irreversibility guard, or switches the chain (possibly failing, see above). -/
theorem C12_side_step (s : NState) (b : Block) :
    (chainWork s b ≤ chainWork s s.tip → (sideOrReorg s b).2 = .side ∧ (sideOrReorg s b).1.active = s.active) ∧
    ((sideOrReorg s b).2 = .side →
      chainWork s b ≤ chainWork s s.tip ∨ isIrreversible s s.tip.height (reorgPlan s b).1 = true) := by
  unfold sideOrReorg
  constructor
  · intro h; simp [h, cleanPool]
  · intro h
    by_cases h1 : chainWork s b ≤ chainWork s s.tip
    · exact Or.inl h1
    · by_cases h2 : isIrreversible s s.tip.height (reorgPlan s b).1 = true
      · exact Or.inr h2
      · simp only [h1, h2, if_false] at h
        by_cases h3 : (reorganize s (reorgPlan s b).1 (reorgPlan s b).2).2 = true
        · simp [h3] at h
        · simp [h3] at h

/-- work, not length: a longer branch of easier blocks carries less work than a shorter branch of
    harder ones (bits as in seeded scenario: 0x2000ffff vs four times easier) -/
example : 3 * blockWork { id := 1, prev := 0, height := 10, txs := [], bits := 0x2000ffff } >
          6 * blockWork { id := 2, prev := 0, height := 10, txs := [], bits := 0x2003fffc } := by decide

/-! ### tie to the source: branches are compared by cumulative work

  On regnet instant-block parameters every block carries the same work, so the model compares
  heights and the differential run cannot tell "most work" from "longest". That the code compares
  `WorkSum` (formed as parent's sum + `CalcWork(bits)`) is a regenerated fact. -/
theorem C12_gen_work_comparison :
    Gen.C12.connectBestChainConds =
      ["b.BestChain == nil || (node.Parent.Hash.IsEqual(*b.BestChain.Hash))", "err != nil", "err != nil",
       "node.Parent != nil", "node.WorkSum.Cmp(b.BestChain.WorkSum) <= 0", "fork.InMainChain",
       "fork.Hash.IsEqual(*node.Parent.Hash)",
       "b.state.IsIrreversible(b.BestChain.Height, detachNodes.Len())", "err != nil"] ∧
    Gen.C12.workSumUpdates = ["newNode.WorkSum.Add(prevNode.WorkSum, newNode.WorkSum)"] ∧
    Gen.C12.workSumInit = ["CalcWork(header.Bits)"] := by
  refine ⟨by decide, by decide, by decide⟩

end ElaVerif.C12
