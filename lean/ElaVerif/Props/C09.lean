import ElaVerif.Model.Compact
import ElaVerif.Gen.C09
/-!
# C09 — proof-of-work target encoding, PoW check, retarget

Property theorems only (helper lemmas live in `ElaVerif/Lemmas/Compact.lean`).
Every theorem whose name starts with `C09_` is an obligation of `./check C09`.
-/
namespace ElaVerif.C09
open ElaVerif.Compact

/-- `CheckProofOfWork` accepts exactly when the target is positive, at most the
    network limit, and the parent-chain hash is at most the target. -/
theorem C09_pow_iff (bits : Nat) (limit h : Int) :
    checkPoW bits limit h = none ↔
      0 < compactToBig bits ∧ compactToBig bits ≤ limit ∧ h ≤ compactToBig bits := by
  unfold checkPoW
  simp only []
  split
  · constructor
    · intro hh; cases hh
    · intro ⟨h1, _, _⟩; omega
  · split
    · constructor
      · intro hh; cases hh
      · intro ⟨_, h2, _⟩; omega
    · split
      · constructor
        · intro hh; cases hh
        · intro ⟨_, _, h3⟩; omega
      · constructor
        · intro _; omega
        · intro _; rfl

/-- non-vacuity: the regnet limit target with a small hash is accepted. -/
example : checkPoW 0x207fffff (2 ^ 255 - 1) 12345 = none := by decide

/-- T-gen: the three built-in networks use adjustment factor 4, a one-day
    timespan and two-minute blocks, and the compact limit decodes below the
    big-integer limit (so a header carrying `limitBits` passes the limit test). -/
theorem C09_gen_params :
    Gen.C09.mainnet.adj = 4 ∧ Gen.C09.mainnet.targetSpan = 86400 ∧ Gen.C09.mainnet.perBlock = 120 ∧
    compactToBig Gen.C09.mainnet.limitBits ≤ Gen.C09.mainnet.limit ∧
    Gen.C09.testnet = Gen.C09.mainnet ∧ Gen.C09.regnet = Gen.C09.mainnet ∧
    Gen.C09.instant.limitBits = 0x207fffff := by
  decide

end ElaVerif.C09
