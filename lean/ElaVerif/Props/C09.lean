import ElaVerif.Model.Compact
import ElaVerif.Lemmas.Compact
import ElaVerif.Gen.C09
/-!
# C09 — proof-of-work target encoding, PoW check, retarget

Property theorems only (helper lemmas live in `ElaVerif/Lemmas/Compact.lean`).
Every theorem whose name starts with `C09_` is an obligation of `./check C09`.
-/
namespace ElaVerif.C09
open ElaVerif.Compact

/-- `CheckProofOfWork` accepts exactly when the target is positive, at most the
    network limit, and the parent-chain hash is at most the target. -/
theorem C09_pow_iff (bits : Nat) (limit h : Int) :
    checkPoW bits limit h = none ↔
      0 < compactToBig bits ∧ compactToBig bits ≤ limit ∧ h ≤ compactToBig bits := by
  unfold checkPoW
  simp only []
  split
  · constructor
    · intro hh; cases hh
    · intro ⟨h1, _, _⟩; omega
  · split
    · constructor
      · intro hh; cases hh
      · intro ⟨_, h2, _⟩; omega
    · split
      · constructor
        · intro hh; cases hh
        · intro ⟨_, _, h3⟩; omega
      · constructor
        · intro _; omega
        · intro _; rfl

/-- non-vacuity: the regnet limit target with a small hash is accepted. -/
example : checkPoW 0x207fffff (2 ^ 255 - 1) 12345 = none := by decide

/-! ## Codec -/

/-- Encoding a positive target never yields a larger target — for **every** positive integer
    (also beyond 2^256: when the byte length exceeds 255 the `uint32` cut of the exponent only
    makes the decoded value smaller). -/
theorem C09_never_larger (n : Int) (h : 0 < n) : compactToBig (bigToCompact n) ≤ n := by
  obtain ⟨a, rfl⟩ := Int.eq_ofNat_of_zero_le (Int.le_of_lt h)
  have ha : 0 < a := by omega
  obtain ⟨r, hr, hle, _⟩ := compactToBig_bigToCompact_pos ha
  have := (encMag_bounds ha).1
  rw [hr]; omega

/-- non-vacuity / strictness: 2^24+1 loses its low byte. -/
example : compactToBig (bigToCompact 16777217) = 16777216 := by decide

/-- The encoder keeps at least 15 significant bits: the re-decoded target `r` satisfies
    `r ≤ n ≤ r + r/2^15` (for targets of at most 254 bytes, so the exponent fits in 8 bits;
    every target below 2^256 has at most 32 bytes, see `C09_len_256`). -/
theorem C09_encode_precision (n : Int) (h : 0 < n) (hn : byteLen n.toNat ≤ 254) :
    n ≤ compactToBig (bigToCompact n) + compactToBig (bigToCompact n) / 2 ^ 15 := by
  obtain ⟨a, rfl⟩ := Int.eq_ofNat_of_zero_le (Int.le_of_lt h)
  have ha : 0 < a := by omega
  have hl : byteLen a ≤ 254 := by simpa using hn
  obtain ⟨r, hr, _, heq⟩ := compactToBig_bigToCompact_pos ha
  have := (encMag_bounds ha).2
  rw [hr, heq (by omega)]
  have : ((encMag a : Nat) : Int) / 2 ^ 15 = ((encMag a / 2 ^ 15 : Nat) : Int) := by simp
  omega

/-- every target below 2^256 is short enough for the 8-bit exponent. -/
theorem C09_len_256 (n : Int) (hn : n < 2 ^ 256) : byteLen n.toNat ≤ 254 := by
  have h : n.toNat < 2 ^ (8 * 32) := by omega
  have := byteLen_le h
  omega

example : (0 : Int) < 16777217 ∧ byteLen (16777217 : Int).toNat ≤ 254 := by decide

/-- Decoding a canonical compact value and re-encoding it is the identity. -/
theorem C09_roundtrip (c : Nat) (h : Canonical c) : bigToCompact (compactToBig c) = c := by
  rcases h with rfl | ⟨hc, hs, he1, hm1, h1, h2⟩
  · rw [compactToBig_zero, bigToCompact_zero]
  · have hm2 : c % 2 ^ 23 < 2 ^ 23 := Nat.mod_lt _ (by omega)
    have he : c / 2 ^ 24 ≤ 255 := by omega
    have hc' : c = (c / 2 ^ 24) * 2 ^ 24 + c % 2 ^ 23 := by omega
    have key := roundtrip_core he1 he hm1 hm2 (by intro h; have := h1 h; omega) (by intro h; have := h2 h; omega)
    rw [← compactToBig_pack hm2, ← hc'] at key
    omega

/-- non-vacuity: bitcoin's genesis bits, the regnet limit bits and short-exponent values are
    canonical; a mantissa below 0x008000 is not canonical and indeed does not round-trip.
    Note that the mainnet `PowLimitBits` 0x1f0008ff itself is *not* canonical (it re-encodes to
    0x1e08ff00, the same target). -/
example : Canonical 0x207fffff ∧ Canonical 0x1d00ffff ∧ Canonical 0x02008000 ∧ Canonical 0x01120000 := by decide
example : ¬ Canonical 0x1d007fff ∧ bigToCompact (compactToBig 0x1d007fff) = 0x1c7fff00 := by decide
example : ¬ Canonical 0x1f0008ff ∧ bigToCompact (compactToBig 0x1f0008ff) = 0x1e08ff00 ∧
    compactToBig 0x1e08ff00 = compactToBig 0x1f0008ff := by decide

/-- The encoder only produces canonical values (non-negative targets of at most 254 bytes), so
    `Canonical` is exactly the set of encoder outputs that `C09_roundtrip` speaks about. -/
theorem C09_encode_canonical (n : Int) (h : 0 ≤ n) (hn : byteLen n.toNat ≤ 254) : Canonical (bigToCompact n) := by
  obtain ⟨a, rfl⟩ := Int.eq_ofNat_of_zero_le h
  by_cases ha0 : a = 0
  · subst ha0; left; exact bigToCompact_zero
  have ha : 0 < a := by omega
  have hl : byteLen a ≤ 254 := by simpa using hn
  obtain ⟨h1, h2, h3⟩ := byteLen_spec ha
  obtain ⟨hlo, hhi⟩ := mant0_bounds h1 h2 h3
  rw [bigToCompact_pos ha]
  right
  have hmod : ∀ k, k ≤ 255 → k % 256 = k := by intro k hk; omega
  rw [hmod _ (by omega), hmod _ (by omega)]
  have hm1 : byteLen a = 1 → mant0Of (byteLen a) a = a * 2 ^ 16 := by intro h; rw [h]; simp [mant0Of]
  have hm2 : byteLen a = 2 → mant0Of (byteLen a) a = a * 2 ^ 8 := by intro h; rw [h]; simp [mant0Of]
  generalize mant0Of (byteLen a) a = m at *
  generalize byteLen a = e at *
  split
  · refine ⟨by omega, by omega, by omega, by omega, ?_, ?_⟩
    · intro h; omega
    · intro h
      have : e = 1 := by omega
      have := hm1 this
      omega
  · refine ⟨by omega, by omega, by omega, by omega, ?_, ?_⟩
    · intro h
      have : e = 1 := by omega
      have := hm1 this
      omega
    · intro h
      have : e = 2 := by omega
      have := hm2 this
      omega

/-! ## Retarget -/

/-- The retargeted value never exceeds the proof-of-work limit. -/
theorem C09_newTarget_le_limit (cfg : RetargetCfg) (old : Nat) (actual : Int) :
    newTarget cfg old actual ≤ cfg.limit := by
  unfold newTarget; simp only []; split <;> omega

theorem C09_clampSpan_bounds (cfg : RetargetCfg) (actual : Int) (h : cfg.minSpan ≤ cfg.maxSpan) :
    cfg.minSpan ≤ clampSpan cfg actual ∧ clampSpan cfg actual ≤ cfg.maxSpan := by
  unfold clampSpan; split
  · omega
  · split <;> omega

/-- Upper side of "moves by at most the adjustment factor": for a non-negative old target the
    new target is at most `old · maxSpan / targetSpan` (= `old · adjustmentFactor` on the built-in
    networks, see `C09_retarget_mainnet`). -/
theorem C09_newTarget_upper (cfg : RetargetCfg) (old : Nat) (actual : Int)
    (hspan : cfg.minSpan ≤ cfg.maxSpan) (hT : 0 < cfg.targetSpan) (hold : 0 ≤ compactToBig old) :
    newTarget cfg old actual ≤ (compactToBig old * cfg.maxSpan) / cfg.targetSpan := by
  have hc := (C09_clampSpan_bounds cfg actual hspan).2
  have hmul : compactToBig old * clampSpan cfg actual ≤ compactToBig old * cfg.maxSpan :=
    Int.mul_le_mul_of_nonneg_left hc hold
  have hdiv := Int.ediv_le_ediv hT hmul
  unfold newTarget; simp only []
  split
  · rename_i hgt; simp only [Int.ediv] at *; exact Int.le_trans (Int.le_of_lt hgt) hdiv
  · exact hdiv

/-- Lower side: the new target (before compaction) is at least
    `min (old · minSpan / targetSpan) limit`. -/
theorem C09_newTarget_lower (cfg : RetargetCfg) (old : Nat) (actual : Int)
    (hspan : cfg.minSpan ≤ cfg.maxSpan) (hT : 0 < cfg.targetSpan) (hold : 0 ≤ compactToBig old) :
    min ((compactToBig old * cfg.minSpan) / cfg.targetSpan) cfg.limit ≤ newTarget cfg old actual := by
  have hc := (C09_clampSpan_bounds cfg actual hspan).1
  have hmul : compactToBig old * cfg.minSpan ≤ compactToBig old * clampSpan cfg actual :=
    Int.mul_le_mul_of_nonneg_left hc hold
  have hdiv := Int.ediv_le_ediv hT hmul
  unfold newTarget; simp only []
  split
  · exact Int.min_le_right _ _
  · exact Int.le_trans (Int.min_le_left _ _) hdiv

/-- Compaction of the new target only rounds down (non-negative new target) … -/
theorem C09_nextBits_rounds_down (cfg : RetargetCfg) (old : Nat) (actual : Int)
    (h : 0 ≤ newTarget cfg old actual) :
    compactToBig (nextBits cfg old actual) ≤ newTarget cfg old actual := by
  unfold nextBits
  by_cases h0 : newTarget cfg old actual = 0
  · rw [h0]; decide
  · exact C09_never_larger _ (by omega)

/-- … and whatever the sign of the old target, the decoded new bits never exceed the limit. -/
theorem C09_nextBits_le_limit (cfg : RetargetCfg) (old : Nat) (actual : Int) (hl : 0 ≤ cfg.limit) :
    compactToBig (nextBits cfg old actual) ≤ cfg.limit := by
  have hle := C09_newTarget_le_limit cfg old actual
  by_cases h : 0 ≤ newTarget cfg old actual
  · exact Int.le_trans (C09_nextBits_rounds_down cfg old actual h) hle
  · unfold nextBits
    exact Int.le_trans (compactToBig_bigToCompact_neg (by omega)) hl

/-- T-gen: the three built-in networks use adjustment factor 4, a one-day
    timespan and two-minute blocks, and the compact limit decodes below the
    big-integer limit (so a header carrying `limitBits` passes the limit test). -/
theorem C09_gen_params :
    Gen.C09.mainnet.adj = 4 ∧ Gen.C09.mainnet.targetSpan = 86400 ∧ Gen.C09.mainnet.perBlock = 120 ∧
    compactToBig Gen.C09.mainnet.limitBits ≤ Gen.C09.mainnet.limit ∧
    Gen.C09.testnet = Gen.C09.mainnet ∧ Gen.C09.regnet = Gen.C09.mainnet ∧
    Gen.C09.instant.limitBits = 0x207fffff := by
  decide

/-- T-gen: what `blockchain.New` derives from the regenerated mainnet parameters. -/
theorem C09_gen_mainnet_cfg :
    Gen.C09.mainnet.cfg = ⟨21600, 345600, 86400, 2 ^ 255 - 1⟩ ∧
    Gen.C09.mainnet.blocksPerRetarget = 720 ∧ Gen.C09.mainnet.limitBits ≠ 0x207fffff := by
  decide

/-- T-gen: `blockchain.New` still derives the retarget window the way `PowParams.cfg`,
    `PowParams.blocksPerRetarget` and the harness hook do. -/
theorem C09_gen_derivation :
    Gen.C09.newDerivation =
      ["targetTimespan := int64(chainParams.PowConfiguration.TargetTimespan / time.Second)",
       "targetTimePerBlock := int64(chainParams.PowConfiguration.TargetTimePerBlock / time.Second)",
       "adjustmentFactor := chainParams.PowConfiguration.AdjustmentFactor",
       "minRetargetTimespan := targetTimespan / adjustmentFactor",
       "maxRetargetTimespan := targetTimespan * adjustmentFactor",
       "blocksPerRetarget := uint32(targetTimespan / targetTimePerBlock)"] := by
  decide

/-- **Retarget on the (regenerated) mainnet parameters.**  At a retarget height, for a
    non-negative previous target `old`, whatever the two timestamps are, the new bits `nb`
    * decode to at most the proof-of-work limit,
    * decode to at most `4·old` (adjustment factor 4),
    * lose at most the compaction error below `min (old/4) limit`
      (`old/4 = old·minSpan/targetSpan` is the un-compacted lower clamp),
    * are a canonical compact value. -/
theorem C09_retarget_mainnet (prevHeight prevBits firstTs prevTs nb : Nat)
    (hh : prevHeight ≠ 0) (hr : (prevHeight + 1) % 2 ^ 32 % 720 = 0)
    (hold : 0 ≤ compactToBig prevBits)
    (hres : calcNext Gen.C09.mainnet prevHeight prevBits firstTs prevTs = some nb) :
    compactToBig nb ≤ Gen.C09.mainnet.limit ∧
    compactToBig nb ≤ 4 * compactToBig prevBits ∧
    min (compactToBig prevBits / 4) Gen.C09.mainnet.limit
      ≤ compactToBig nb + compactToBig nb / 2 ^ 15 ∧
    Canonical nb := by
  obtain ⟨hcfg, hbpr, hlb⟩ := C09_gen_mainnet_cfg
  have hlim : Gen.C09.mainnet.limit = 2 ^ 255 - 1 := by decide
  unfold calcNext at hres
  rw [hbpr] at hres
  rw [if_neg (by intro h; rcases h with h | h; exact hh h; exact hlb h)] at hres
  rw [if_neg (by omega)] at hres
  have h720 : ¬ (prevHeight + 1 < 720) := by
    intro hlt
    rw [Nat.mod_eq_of_lt (by omega : prevHeight + 1 < 2 ^ 32), Nat.mod_eq_of_lt hlt] at hr
    omega
  rw [if_neg h720] at hres
  have hnb : nb = nextBits Gen.C09.mainnet.cfg prevBits (actualSpan firstTs prevTs) := by
    injection hres with h; exact h.symm
  subst hnb
  generalize actualSpan firstTs prevTs = actual
  rw [hcfg, hlim]
  generalize hc : (⟨21600, 345600, 86400, 2 ^ 255 - 1⟩ : RetargetCfg) = cfg
  have f1 : cfg.minSpan = 21600 := by rw [← hc]
  have f2 : cfg.maxSpan = 345600 := by rw [← hc]
  have f3 : cfg.targetSpan = 86400 := by rw [← hc]
  have f4 : cfg.limit = 2 ^ 255 - 1 := by rw [← hc]
  have hle : newTarget cfg prevBits actual ≤ 2 ^ 255 - 1 := f4 ▸ C09_newTarget_le_limit cfg prevBits actual
  have hup : newTarget cfg prevBits actual ≤ compactToBig prevBits * 345600 / 86400 := by
    have := C09_newTarget_upper cfg prevBits actual (by omega) (by omega) hold
    rwa [f2, f3] at this
  have hlo : min (compactToBig prevBits * 21600 / 86400) (2 ^ 255 - 1) ≤ newTarget cfg prevBits actual := by
    have := C09_newTarget_lower cfg prevBits actual (by omega) (by omega) hold
    rwa [f1, f3, f4] at this
  have hnn : 0 ≤ newTarget cfg prevBits actual := by
    have : 0 ≤ compactToBig prevBits * 21600 / 86400 := by omega
    have : 0 ≤ min (compactToBig prevBits * 21600 / 86400) (2 ^ 255 - 1) := by
      rw [Int.min_def]; split <;> omega
    omega
  have hdown : compactToBig (nextBits cfg prevBits actual) ≤ newTarget cfg prevBits actual :=
    C09_nextBits_rounds_down cfg prevBits actual hnn
  have hlen : byteLen (newTarget cfg prevBits actual).toNat ≤ 254 := C09_len_256 _ (by omega)
  have hcan : Canonical (nextBits cfg prevBits actual) := C09_encode_canonical _ hnn hlen
  have hprec : newTarget cfg prevBits actual ≤
      compactToBig (nextBits cfg prevBits actual) + compactToBig (nextBits cfg prevBits actual) / 2 ^ 15 := by
    by_cases h0 : newTarget cfg prevBits actual = 0
    · unfold nextBits; rw [h0, bigToCompact_zero, compactToBig_zero]; decide
    · exact C09_encode_precision _ (by omega) hlen
  refine ⟨by omega, by omega, ?_, hcan⟩
  have e1 : compactToBig prevBits * 21600 / 86400 = compactToBig prevBits / 4 := by omega
  rw [e1] at hlo
  exact Int.le_trans hlo hprec

/-- non-vacuity: height 719→720 on mainnet with a four-times-too-fast period halves… quarters the
    target: old 0x1d00ffff, timestamps 0 and 100 s give 0x1c3fffc0. -/
example : calcNext Gen.C09.mainnet 719 0x1d00ffff 1500000000 1500000100 = some 0x1c3fffc0 := by decide
example : (719 + 1) % 2 ^ 32 % 720 = 0 ∧ (0 : Int) ≤ compactToBig 0x1d00ffff := by decide

/-- Off a retarget height the bits are inherited unchanged (mainnet). -/
theorem C09_retarget_mainnet_keep (prevHeight prevBits firstTs prevTs : Nat)
    (hh : prevHeight ≠ 0) (hr : (prevHeight + 1) % 2 ^ 32 % 720 ≠ 0) :
    calcNext Gen.C09.mainnet prevHeight prevBits firstTs prevTs = some prevBits := by
  obtain ⟨_, hbpr, hlb⟩ := C09_gen_mainnet_cfg
  unfold calcNext
  rw [hbpr]
  rw [if_neg (by intro h; rcases h with h | h; exact hh h; exact hlb h)]
  rw [if_pos hr]

/-! ## the walk over real block nodes -/

/-- `CalcNextRequiredDifficulty` on a chain of block nodes is the timestamp-abstracted `calcNext`
    applied to the tip and to the node `blocksPerRetarget − 1` steps above it (index
    `length − blocksPerRetarget` of the oldest-first chain) — provided the chain is at least one
    retarget window long, which every real block index guarantees. -/
theorem C09_walk_eq (p : PowParams) (tipHeight : Nat) (chain : List Node) (tip first : Node)
    (hl : chain.getLast? = some tip) (hlen : p.blocksPerRetarget ≤ chain.length)
    (hf : chain[chain.length - p.blocksPerRetarget]? = some first) :
    calcNextChain p tipHeight chain =
      match calcNext p tipHeight tip.bits first.ts tip.ts with
      | some b => .ok b
      | none => .err := by
  unfold calcNextChain calcNext
  rw [hl]
  simp only []
  split
  · rfl
  · split
    · rfl
    · split
      · rfl
      · rw [hf]
        simp only []
        rw [if_neg (by omega)]

/-- The mainnet bounds of `C09_retarget_mainnet`, stated on the node chain itself: the window is
    measured between the tip and the node 719 blocks above it. -/
theorem C09_retarget_mainnet_chain (tipHeight : Nat) (chain : List Node) (tip first : Node) (nb : Nat)
    (hl : chain.getLast? = some tip) (hlen : 720 ≤ chain.length)
    (hf : chain[chain.length - 720]? = some first)
    (hh : tipHeight ≠ 0) (hr : (tipHeight + 1) % 2 ^ 32 % 720 = 0) (hold : 0 ≤ compactToBig tip.bits)
    (hres : calcNextChain Gen.C09.mainnet tipHeight chain = .ok nb) :
    compactToBig nb ≤ Gen.C09.mainnet.limit ∧ compactToBig nb ≤ 4 * compactToBig tip.bits ∧
    min (compactToBig tip.bits / 4) Gen.C09.mainnet.limit ≤ compactToBig nb + compactToBig nb / 2 ^ 15 ∧
    Canonical nb := by
  have hb : Gen.C09.mainnet.blocksPerRetarget = 720 := C09_gen_mainnet_cfg.2.1
  rw [C09_walk_eq Gen.C09.mainnet tipHeight chain tip first hl (by rw [hb]; exact hlen) (by rw [hb]; exact hf)] at hres
  cases hc : calcNext Gen.C09.mainnet tipHeight tip.bits first.ts tip.ts with
  | none => rw [hc] at hres; cases hres
  | some b =>
    rw [hc] at hres
    injection hres with hres
    subst hres
    exact C09_retarget_mainnet tipHeight tip.bits first.ts tip.ts b hh hr hold hc

/-- non-vacuity on a 10-block window (the regnet retarget mode of the harness): nine 1-second
    blocks after genesis, so the window spans 9 s < 10 s and the target shrinks by 9/10. -/
example :
    calcNextChain ⟨4, 10, 1, 2 ^ 255 - 1, 0x2000ffff⟩ 9
      [⟨100, 0x2000ffff⟩, ⟨101, 0x2000ffff⟩, ⟨102, 0x2000ffff⟩, ⟨103, 0x2000ffff⟩, ⟨104, 0x2000ffff⟩,
       ⟨105, 0x2000ffff⟩, ⟨106, 0x2000ffff⟩, ⟨107, 0x2000ffff⟩, ⟨108, 0x2000ffff⟩, ⟨109, 0x2000ffff⟩]
      = .ok 0x2000e665 := by decide

/-- Every target the PoW check can accept (positive, below 2^256 — in particular the limits
    0x207fffff / 0x2000ffff with exponent byte 0x20) is credited positive chain work, and a smaller
    target is never credited less work. -/
theorem C09_work_pos (bits : Nat) (h0 : 0 < compactToBig bits) (h1 : compactToBig bits < 2 ^ 256) :
    0 < calcWork bits := by
  unfold calcWork
  simp only []
  rw [if_neg (by omega)]
  have : (1 : Int) ≤ Int.ediv (2 ^ 256) (compactToBig bits + 1) :=
    Int.le_ediv_of_mul_le (by omega) (by omega)
  omega

example : calcWork 0x207fffff = 2 ∧ calcWork 0x2000ffff = 256 ∧ (0 : Int) < compactToBig 0x207fffff := by decide

/-- `CalcCurrentDifficulty` panics (division by zero) exactly for bits that decode to zero. -/
theorem C09_current_difficulty_defined (limitBits bits : Nat) :
    currentDifficulty limitBits bits = none ↔ compactToBig bits = 0 := by
  unfold currentDifficulty; split <;> simp_all

end ElaVerif.C09
