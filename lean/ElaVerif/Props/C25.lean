import ElaVerif.Model.Confirm
import ElaVerif.Lemmas.Confirm
/-!
# C25 — a block confirmation needs a two-thirds quorum of distinct current arbiters

Model: `ElaVerif/Model/Confirm.lean` (blockchain/confirmvalidator.go, the threshold of
dpos/state/arbitrators.go).  Signature validity is a per-vote flag (idealised signature
scheme: the harness produces real ECDSA signatures matching the flags and the real
`crypto.Verify` decides).  The `float64` threshold `int(float64(n)*2/3)` is tied to
`majority n = 2n/3` by enumeration in the correspondence (not a theorem).
-/
namespace ElaVerif.C25
open ElaVerif.Confirm

/-- the threshold is two thirds rounded down. -/
theorem C25_majority_bounds (n : Nat) : 3 * majority n ≤ 2 * n ∧ 2 * n < 3 * (majority n + 1) := by
  unfold majority; omega

/-- "more than `majority n`" is "more than two thirds" in exact arithmetic. -/
theorem C25_has_majority_iff (n k : Nat) : hasMajority n k = true ↔ 2 * n < 3 * k := by
  unfold hasMajority majority; simp; omega

/-- **Acceptance, characterised.**  A confirmation passes `ConfirmSanityCheck` and
    `ConfirmContextCheck` exactly when the proposal signature verifies, the sponsor is a normal
    current arbiter, *every* vote is an accepting vote naming this proposal with a valid
    signature by a normal current arbiter, and the distinct signers number more than two thirds
    (rounded down) of the arbiter count. -/
theorem C25_accept_iff (arbs : List Arb) (c : Conf) :
    accepted arbs c = true ↔
      c.sponsorSigOk = true ∧ isNormalArb arbs c.sponsor = true ∧
      (∀ v ∈ c.votes, v.accept = true ∧ v.hashOk = true ∧ v.sigOk = true ∧
        isNormalArb arbs v.signer = true) ∧
      2 * arbs.length / 3 < (signers c).length := by
  unfold accepted sanity context
  cases hs : c.sponsorSigOk
  · simp
  · simp only [Bool.not_true, Bool.false_eq_true, if_false, Bool.and_eq_true, beq_iff_eq, true_and]
    rw [voteSanity_none]
    by_cases hm : (signers c).length ≤ majority arbs.length
    · rw [if_pos hm]
      unfold majority at hm
      constructor
      · intro ⟨_, h⟩; cases h
      · intro ⟨_, _, h⟩; omega
    · rw [if_neg hm]
      unfold majority at hm
      cases hsp : isNormalArb arbs c.sponsor
      · simp
      · simp only [Bool.not_true, Bool.false_eq_true, if_false, true_and]
        by_cases hall : (c.votes.all fun v => isNormalArb arbs v.signer) = true
        · rw [if_pos hall]
          rw [List.all_eq_true] at hall
          constructor
          · intro ⟨h1, _⟩
            exact ⟨fun v hv => ⟨(h1 v hv).1, (h1 v hv).2.1, (h1 v hv).2.2, hall v hv⟩, by omega⟩
          · intro ⟨h1, _⟩
            exact ⟨fun v hv => ⟨(h1 v hv).1, (h1 v hv).2.1, (h1 v hv).2.2.1⟩, rfl⟩
        · rw [if_neg hall]
          rw [List.all_eq_true] at hall
          constructor
          · intro ⟨_, h⟩; cases h
          · intro ⟨h1, _⟩
            exact absurd (fun v hv => (h1 v hv).2.2.2) hall

/-- **Acceptance is sound**: the accepted confirmation exhibits a duplicate-free list of more
    than `2n/3` keys, each the key of a normal current arbiter who signed a valid accepting vote
    for exactly this proposal. -/
theorem C25_accept_sound (arbs : List Arb) (c : Conf) (h : accepted arbs c = true) :
    (signers c).Nodup ∧ 2 * arbs.length / 3 < (signers c).length ∧
    (∀ k ∈ signers c, (∃ a ∈ arbs, a.normal = true ∧ a.key = k) ∧
      ∃ v ∈ c.votes, v.signer = k ∧ v.accept = true ∧ v.hashOk = true ∧ v.sigOk = true) ∧
    c.sponsorSigOk = true ∧ (∃ a ∈ arbs, a.normal = true ∧ a.key = c.sponsor) := by
  obtain ⟨h1, h2, h3, h4⟩ := (C25_accept_iff arbs c).1 h
  refine ⟨nodup_dedup _, h4, ?_, h1, isNormalArb_iff.1 h2⟩
  intro k hk
  unfold signers at hk
  rw [mem_dedup, List.mem_map] at hk
  obtain ⟨v, hv, rfl⟩ := hk
  have hvm := (List.mem_filter.1 hv).1
  obtain ⟨a1, a2, a3, a4⟩ := h3 v hvm
  exact ⟨isNormalArb_iff.1 a4, v, hvm, rfl, a1, a2, a3⟩

/-- non-vacuity: 4 arbiters, 3 distinct valid votes (3 > 2·4/3 = 2) is accepted; with a
    duplicate instead of the third signer it is not. -/
example : accepted [⟨1, true⟩, ⟨2, true⟩, ⟨3, true⟩, ⟨4, true⟩]
    ⟨1, true, [⟨1, true, true, true⟩, ⟨2, true, true, true⟩, ⟨3, true, true, true⟩]⟩ = true := by decide
example : accepted [⟨1, true⟩, ⟨2, true⟩, ⟨3, true⟩, ⟨4, true⟩]
    ⟨1, true, [⟨1, true, true, true⟩, ⟨2, true, true, true⟩, ⟨2, true, true, true⟩]⟩ = false := by decide

/-- **Quorum intersection, for every set size.**  Two duplicate-free lists of members of a set
    of at most `n` elements, each longer than `2n/3`, share more than `n/3` elements. -/
theorem C25_quorum_intersection (n : Nat) (A B U : List Nat) (hA : A.Nodup) (hB : B.Nodup)
    (hAU : ∀ x ∈ A, x ∈ U) (hBU : ∀ x ∈ B, x ∈ U) (hU : U.length ≤ n)
    (qA : 2 * n / 3 < A.length) (qB : 2 * n / 3 < B.length) :
    n / 3 < (A.filter (fun x => decide (x ∈ B))).length := by
  have := inter_length A B U hA hB hAU hBU
  omega

example : (2 * 4 / 3 < [1, 2, 3].length) ∧ (2 * 4 / 3 < [2, 3, 4].length) ∧
    4 / 3 < ([1, 2, 3].filter (fun x => decide (x ∈ [2, 3, 4]))).length := by decide

/-- **Any two acceptable confirmations for the same arbiter set share more than a third of the
    arbiters**: the common signers are more than `n/3` distinct keys of normal current arbiters. -/
theorem C25_confirms_intersect (arbs : List Arb) (c1 c2 : Conf)
    (h1 : accepted arbs c1 = true) (h2 : accepted arbs c2 = true) :
    let common := (signers c1).filter (fun k => decide (k ∈ signers c2))
    arbs.length / 3 < common.length ∧ common.Nodup ∧
      ∀ k ∈ common, ∃ a ∈ arbs, a.normal = true ∧ a.key = k := by
  obtain ⟨n1, q1, m1, _, _⟩ := C25_accept_sound arbs c1 h1
  obtain ⟨n2, q2, m2, _, _⟩ := C25_accept_sound arbs c2 h2
  have hsub : ∀ (c : Conf), (∀ k ∈ signers c, (∃ a ∈ arbs, a.normal = true ∧ a.key = k) ∧
      ∃ v ∈ c.votes, v.signer = k ∧ v.accept = true ∧ v.hashOk = true ∧ v.sigOk = true) →
      ∀ k ∈ signers c, k ∈ dedup (arbs.map (·.key)) := by
    intro c m k hk
    obtain ⟨⟨a, ha, _, rfl⟩, _⟩ := m k hk
    exact mem_dedup.2 (List.mem_map.2 ⟨a, ha, rfl⟩)
  have hU : (dedup (arbs.map (·.key))).length ≤ arbs.length := by
    have := length_dedup_le (arbs.map (·.key)); simpa using this
  refine ⟨C25_quorum_intersection arbs.length _ _ _ n1 n2 (hsub c1 m1) (hsub c2 m2) hU q1 q2,
    List.Pairwise.filter _ n1, ?_⟩
  intro k hk
  exact (m1 k (List.mem_filter.1 hk).1).1

/-! ## the proposal dispatcher's vote collection -/

/-- The accept votes `ProposalDispatcher.ProcessVote` collects are pairwise different
    (proposal, signer) pairs, each from a vote with a valid signature by a normal current arbiter. -/
theorem C25_dispatcher_collects_valid (arbs : List Arb) (votes : List Vote) :
    (dispFinal arbs [] votes).Nodup ∧
    ∀ k ∈ dispFinal arbs [] votes, isNormalArb arbs k.1 = true ∧
      ∃ v ∈ votes, v.signer = k.1 ∧ v.hashOk = k.2 ∧ v.sigOk = true ∧ v.accept = true := by
  apply dispFinal_inv arbs
    (fun k => isNormalArb arbs k.1 = true ∧
      ∃ v ∈ votes, v.signer = k.1 ∧ v.hashOk = k.2 ∧ v.sigOk = true ∧ v.accept = true) votes []
  · exact List.nodup_nil
  · intro k hk; cases hk
  · intro v hv h1 h2 h3
    exact ⟨h2, v, hv, rfl, rfl, h1, h3⟩

/-- When all forwarded votes name the processing proposal (what the message handlers guarantee) and
    the dispatcher sees a majority, the collected signers are more than 2n/3 *distinct* normal
    current arbiters. -/
theorem C25_dispatcher_majority (arbs : List Arb) (votes : List Vote)
    (hh : ∀ v ∈ votes, v.hashOk = true)
    (hm : hasMajority arbs.length (dispFinal arbs [] votes).length = true) :
    ((dispFinal arbs [] votes).map (·.1)).Nodup ∧
    2 * arbs.length / 3 < ((dispFinal arbs [] votes).map (·.1)).length ∧
    ∀ s ∈ (dispFinal arbs [] votes).map (·.1), ∃ a ∈ arbs, a.normal = true ∧ a.key = s := by
  obtain ⟨hn, hv⟩ := C25_dispatcher_collects_valid arbs votes
  have hsnd : ∀ k ∈ dispFinal arbs [] votes, k.2 = true := by
    intro k hk
    obtain ⟨_, v, hvm, _, h2, _, _⟩ := hv k hk
    rw [← h2]; exact hh v hvm
  refine ⟨?_, ?_, ?_⟩
  · exact nodup_map_fst _ hn hsnd
  · rw [List.length_map]
    have := (C25_has_majority_iff arbs.length (dispFinal arbs [] votes).length).1 hm
    omega
  · intro s hs
    obtain ⟨k, hk, rfl⟩ := List.mem_map.1 hs
    exact isNormalArb_iff.1 (hv k hk).1

/-- Through the message handlers only votes naming the processing proposal reach the dispatcher:
    what it collects is what `ProcessVote` collects from those votes alone … -/
theorem C25_handler_filters (arbs : List Arb) : ∀ (votes : List Vote) (acc : List (Nat × Bool)),
    handlerFinal arbs acc votes = dispFinal arbs acc (votes.filter (·.hashOk)) := by
  intro votes
  induction votes with
  | nil => intro acc; rfl
  | cons v vs ih =>
    intro acc
    cases hv : v.hashOk
    · simp [handlerFinal, handlerStep, hv, ih]
    · simp [handlerFinal, handlerStep, dispFinal, hv, ih]

/-- … so a majority seen by a node that receives its votes through the handlers is a quorum of
    more than 2n/3 distinct normal arbiters **for the processing proposal**, whatever other votes
    (for other proposals, by the same signers) arrived in between. -/
theorem C25_handler_majority (arbs : List Arb) (votes : List Vote)
    (hm : hasMajority arbs.length (handlerFinal arbs [] votes).length = true) :
    ((handlerFinal arbs [] votes).map (·.1)).Nodup ∧
    2 * arbs.length / 3 < ((handlerFinal arbs [] votes).map (·.1)).length ∧
    ∀ s ∈ (handlerFinal arbs [] votes).map (·.1), ∃ a ∈ arbs, a.normal = true ∧ a.key = s := by
  rw [C25_handler_filters] at hm ⊢
  exact C25_dispatcher_majority arbs (votes.filter (·.hashOk))
    (fun v hv => (List.mem_filter.1 hv).2) hm

/-- `CleanProposals` (view change or finished height) drops everything collected before it: what
    the dispatcher holds afterwards is determined by the votes received since, so
    `C25_dispatcher_collects_valid` / `C25_dispatcher_majority` apply to the votes of the current
    view alone. -/
theorem C25_dispatcher_clean (arbs : List Arb) : ∀ (before : List DItem) (acc : List (Nat × Bool))
    (votes : List Vote),
    dispFinalI arbs acc (before ++ DItem.clean :: votes.map DItem.vote) = dispFinal arbs [] votes := by
  have hv : ∀ (votes : List Vote) (acc : List (Nat × Bool)),
      dispFinalI arbs acc (votes.map DItem.vote) = dispFinal arbs acc votes := by
    intro votes
    induction votes with
    | nil => intro acc; rfl
    | cons v vs ih => intro acc; simp only [List.map_cons, dispFinalI, dispFinal]; exact ih _
  intro before
  induction before with
  | nil => intro acc votes; simp only [List.nil_append, dispFinalI]; exact hv votes []
  | cons x xs ih =>
    intro acc votes
    cases x with
    | vote v => simp only [List.cons_append, dispFinalI]; exact ih _ votes
    | clean => simp only [List.cons_append, dispFinalI]; exact ih _ votes

example : hasMajority 4 (dispFinal [⟨1, true⟩, ⟨2, true⟩, ⟨3, true⟩, ⟨4, true⟩] []
    [⟨1, true, true, true⟩, ⟨1, true, true, true⟩, ⟨2, true, true, true⟩, ⟨9, true, true, true⟩,
     ⟨3, true, true, true⟩]).length = true := by decide

/-! ## the block pool in front of the chain -/

/-- **The block pool only ever holds a confirmation that passed `ConfirmSanityCheck`**, whatever
    sequence of sane and forged confirmations for that block hash was appended. -/
theorem C25_pool_only_sane : ∀ (cs : List Conf) (cached : Option Nat) (i j : Nat),
    poolFinal cached i cs = some j →
      cached = some j ∨ (i ≤ j ∧ ∃ c, cs[j - i]? = some c ∧ sanity c = none) := by
  intro cs
  induction cs with
  | nil => intro cached i j h; left; exact h
  | cons c cs ih =>
    intro cached i j h
    simp only [poolFinal] at h
    rcases ih _ _ _ h with h1 | ⟨h2, c', hc', hs'⟩
    · unfold poolStep at h1
      split at h1
      · rename_i hs
        right
        injection h1 with h1; subst h1
        exact ⟨Nat.le_refl _, c, by simp, hs⟩
      · left; exact h1
    · right
      refine ⟨by omega, c', ?_, hs'⟩
      have : j - i = (j - (i + 1)) + 1 := by omega
      rw [this, List.getElem?_cons_succ]; exact hc'

/-- starting from an empty pool: the cached confirmation is one of the appended ones and is sane. -/
theorem C25_pool_only_sane_from_empty (cs : List Conf) (j : Nat) (h : poolFinal none 0 cs = some j) :
    ∃ c, cs[j]? = some c ∧ sanity c = none := by
  rcases C25_pool_only_sane cs none 0 j h with h1 | ⟨_, c, hc, hs⟩
  · cases h1
  · exact ⟨c, by simpa using hc, hs⟩

/-- … so a confirmation the chain takes from the pool and whose context check passes is an
    accepted confirmation in the sense of `C25_accept_iff` (all signatures valid, quorum of
    distinct normal arbiters). -/
theorem C25_pool_then_chain (arbs : List Arb) (cs : List Conf) (j : Nat) (c : Conf)
    (h : poolFinal none 0 cs = some j) (hc : cs[j]? = some c) (hctx : context arbs c = none) :
    accepted arbs c = true := by
  obtain ⟨c', hc', hs⟩ := C25_pool_only_sane_from_empty cs j h
  rw [hc] at hc'; injection hc' with hc'; subst hc'
  simp [accepted, hs, hctx]

/-- **Pool + chain, DPoS era.**  Whatever sequence of `AddDposBlock` (with or without a
    confirmation) and `AppendConfirm` calls is made for a block, the block is connected to the
    main chain only if one of the supplied confirmations is acceptable in the sense of
    `C25_accept_iff` (valid signatures on every vote and on the proposal, more than 2n/3 distinct
    normal current arbiters, sponsor a normal arbiter). -/
theorem C25_chain_connect_requires_accepted (arbs : List Arb) (steps : List CStep)
    (h : (chainFinal true arbs ⟨false, none, false⟩ 0 steps).connected = true) :
    ∃ x ∈ steps, ∃ c, x.conf? = some c ∧ accepted arbs c = true := by
  have inv := chainFinal_inv (arbs := arbs) (Q := fun c => ∃ x ∈ steps, x.conf? = some c) steps
    ⟨false, none, false⟩ 0
    ⟨fun j c h => by simp at h, fun h => by simp at h⟩
    (fun x hx c hc => ⟨x, hx, hc⟩)
  obtain ⟨c, ⟨x, hx, hc⟩, hacc⟩ := inv.2 h
  exact ⟨x, hx, c, hc, hacc⟩

/-- non-vacuity: block first, a confirmation with too few signers (sane, refused by the chain),
    then a full quorum: connected by the third step only. -/
example :
    let good : Conf := ⟨0, true, [⟨0, true, true, true⟩, ⟨1, true, true, true⟩, ⟨2, true, true, true⟩, ⟨3, true, true, true⟩]⟩
    let few : Conf := ⟨0, true, [⟨0, true, true, true⟩, ⟨1, true, true, true⟩]⟩
    let arbs : List Arb := [⟨0, true⟩, ⟨1, true⟩, ⟨2, true⟩, ⟨3, true⟩, ⟨4, true⟩]
    (chainFinal true arbs ⟨false, none, false⟩ 0 [.blk, .conf few]).connected = false ∧
    (chainFinal true arbs ⟨false, none, false⟩ 0 [.blk, .conf few, .conf good]).connected = true := by
  decide

/-- non-vacuity: a forged confirmation after a sane one does not replace it. -/
example : poolFinal none 0 [⟨1, true, [⟨1, true, true, true⟩]⟩, ⟨1, true, [⟨1, true, true, false⟩]⟩] = some 0 := by
  decide

end ElaVerif.C25
