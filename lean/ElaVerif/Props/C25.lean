import ElaVerif.Model.Confirm
namespace ElaVerif.C25
open ElaVerif.Confirm
theorem C25_majority_bounds (n : Nat) : 3 * majority n ≤ 2 * n ∧ 2 * n < 3 * (majority n + 1) := by
  unfold majority; omega
end ElaVerif.C25
