import ElaVerif.Lemmas.WalletCodec
import ElaVerif.Lemmas.WalletAddress
import ElaVerif.Lemmas.WalletProgram
import ElaVerif.Lemmas.WalletMultisig
import ElaVerif.Lemmas.WalletKeystore
import ElaVerif.Props.C05
/-!
# C37 — wallet signatures verify, and only for the signed data; addresses and amounts parse back

Models: `Model/WalletCodec.lean` (Fixed64.String / StringToFixed64 with strconv.ParseInt,
Uint168.ToAddress / Uint168FromAddress with base58 over ℕ, program construction) composed with
the C05 model `Model/RunPrograms.lean`.  The signature scheme, the checksum function and the
code hash are parameters of every theorem.
-/
namespace ElaVerif.C37
open ElaVerif.Script ElaVerif.RunPrograms ElaVerif.WalletCodec

set_option maxRecDepth 8000

/-! ## amounts -/

/-- **Amount round trip** (parser after the `fix:` commit): for every int64 value `f`,
    `StringToFixed64(Fixed64(f).String()) = f`. -/
theorem C37_amount_roundtrip (f : Int) (hlo : -(2 ^ 63 : Int) ≤ f) (hhi : f < 2 ^ 63) :
    stringToAmount true (amountToString f) = some f := amount_roundtrip f hlo hhi

example : amountToString 12345678900000001 = "123456789.00000001".toList := by decide
example : stringToAmount true "123456789.00000001".toList = some 12345678900000001 := by decide

/-- NEGATION for the parser as it was: `Fixed64(10^16).String()` = "100000000" was rejected
    (the precision test ran with `di = -1`); so was "-10000000". -/
theorem C37_amount_roundtrip_unfixed_false :
    amountToString (10 ^ 16) = "100000000".toList ∧ stringToAmount false (amountToString (10 ^ 16)) = none ∧
    stringToAmount false (amountToString (-(10 ^ 15))) = none := by decide

/-- the parser still rejects more than 8 fractional digits and values outside int64 -/
example : stringToAmount true "1.123456789".toList = none ∧
    stringToAmount true "92233720368.54775808".toList = none ∧
    stringToAmount true "-92233720368.54775808".toList = some (-(2 ^ 63)) := by decide

/-! ## addresses -/

/-- **Address round trip**: for every 21-byte program hash whose prefix byte is between 3 and 143
    (exactly the range in which the base-58 string has 34 characters) and every 4-byte checksum
    function, `Uint168FromAddress(ToAddress(u)) = u`. -/
theorem C37_address_roundtrip (chk : Bytes → Bytes) (p : UInt8) (rest : Bytes)
    (hlen : rest.length = 20) (hc : (chk (p :: rest)).length = 4) (hp : 3 ≤ p.toNat ∧ p.toNat ≤ 143) :
    fromAddress true chk (toAddress chk (p :: rest)) = .val (.ok (p :: rest)) :=
  address_roundtrip chk p rest hlen hc hp

/-- all issued address prefixes (standard 0x21, multisig 0x12, cross-chain 0x4B, deposit 0x1F,
    CR DID 0x67, DPoS v2 0x3F) lie in that range -/
theorem C37_issued_prefixes_in_range :
    ∀ p ∈ [0x21, 0x12, 0x4B, 0x1F, 0x67, 0x3F], 3 ≤ p ∧ p ≤ 143 := by decide

/-- the range is sharp: prefix 2 gives 33 characters, prefix 144 gives 35, and the decoder rejects both -/
example : (toAddress (fun _ => [0, 0, 0, 0]) (2 :: List.replicate 20 0)).length = 33 ∧
    (toAddress (fun _ => [0, 0, 0, 0]) (144 :: List.replicate 20 0xff)).length = 35 := by decide

/-- the repaired decoder never panics, whatever the string -/
theorem C37_fromAddress_total (chk : Bytes → Bytes) (s : List Char) : fromAddress true chk s ≠ .panic :=
  fromAddress_total chk s

/-- NEGATION for the decoder as it was: thirty-four '1's decode to 0 and `x.Bytes()[0:21]` panics. -/
theorem C37_fromAddress_unfixed_panics :
    fromAddress false (fun _ => [0, 0, 0, 0]) (List.replicate 34 '1') = .panic := by decide

/-- **Checksum / canonicity.** Whatever string the decoder accepts is exactly the encoding of the 21 bytes it
    returns (so its embedded four check bytes are the checksum of those 21 bytes, and there is one accepted
    string per program hash), it has 34 characters and yields 21 bytes — for every checksum function. -/
theorem C37_fromAddress_sound (chk : Bytes → Bytes) (s : List Char) (u : Bytes)
    (h : fromAddress true chk s = .val (.ok u)) : toAddress chk u = s ∧ u.length = 21 ∧ s.length = 34 :=
  fromAddress_sound true chk s u h

/-- **Which strings `StringToFixed64` accepts** — every textual form, decided on the model (and compared with the real
    parser by the `parse` ops): an optional sign at the very beginning (`-` or `+`), any number of decimal digits —
    none is allowed —, optionally ONE dot followed by at most 8 digits; nothing else (no exponent, no second dot, no
    blanks, no sign elsewhere, no `_`), and the scaled value must fit int64.  In particular the empty string, "+", "-"
    and "." are accepted and mean 0. -/
theorem C37_parse_forms :
    stringToAmount true "".toList = some 0 ∧ stringToAmount true "+".toList = some 0 ∧
    stringToAmount true "-".toList = some 0 ∧ stringToAmount true ".".toList = some 0 ∧
    stringToAmount true "+1".toList = some 100000000 ∧ stringToAmount true "1.".toList = some 100000000 ∧
    stringToAmount true ".5".toList = some 50000000 ∧ stringToAmount true "-.5".toList = some (-50000000) ∧
    stringToAmount true "+1.5".toList = some 150000000 ∧ stringToAmount true "007.10".toList = some 710000000 ∧
    stringToAmount true "1e5".toList = none ∧ stringToAmount true "1..2".toList = none ∧
    stringToAmount true "1.2.3".toList = none ∧ stringToAmount true "1.123456789".toList = none ∧
    stringToAmount true "1_000".toList = none ∧ stringToAmount true " 1".toList = none ∧
    stringToAmount true "1-".toList = none ∧ stringToAmount true "--1".toList = none ∧
    stringToAmount true "0x10".toList = none ∧ stringToAmount true "92233720368.54775807".toList = some (2 ^ 63 - 1) ∧
    stringToAmount true "92233720368.54775808".toList = none ∧ stringToAmount true "-92233720368.54775808".toList = some (-(2 ^ 63)) := by
  decide

/-! ## wallet-built programs pass the node's check -/

/-- **Standard account.** If the scheme is correct for this key and signature
    (`DecodePoint` succeeds, `Verify(pub, d, sig)` holds), the program the wallet builds
    (`33‖pub‖CHECKSIG`, `64‖sig`) is accepted for the address derived from the code. -/
theorem C37_wallet_standard_accepts {D : Type} (O : Oracles D) (d : D) (pub sig : Bytes) (pfx : Nat)
    (hpub : pub.length = 33) (hsig : sig.length = 64) (hp : pfx = PrefixStandard ∨ pfx = PrefixDeposit)
    (hdec : O.decodeOk pub = true) (hver : O.verify pub d sig = true) :
    runPrograms Fix.all O d [⟨pfx, O.codeHash (standardCode pub)⟩] [⟨standardCode pub, standardParam sig⟩] = ok :=
  wallet_standard_accepts O d pub sig pfx hpub hsig hp hdec hver

/-- **Aggregated Schnorr account.** -/
theorem C37_wallet_schnorr_accepts {D : Type} (O : Oracles D) (d : D) (pub sig : Bytes) (pfx : Nat)
    (hpub : pub.length = 33) (hsig : sig.length = 64) (hp : pfx = PrefixStandard ∨ pfx = PrefixDeposit)
    (hver : O.schnorr pub d sig = true) :
    runPrograms Fix.all O d [⟨pfx, O.codeHash (schnorrCode pub)⟩] [⟨schnorrCode pub, sig⟩] = ok :=
  wallet_schnorr_accepts O d pub sig pfx hpub hsig hp hver

/-- **m-of-n account.** For the script `CreateMultiSigRedeemScript` builds from 2..16 keys (33 bytes
    each), with `k` distinct members signing (m ≤ k ≤ n, in any order — `ss` lists (key, signature)),
    every key decoding and each signature verifying for its signer's key and for no other key of the
    script, the program `(script, 64‖sig₁‖…‖64‖sig_k)` that `SignMultiSignTransaction` accumulates is
    accepted for the multisig address of the script. -/
theorem C37_wallet_multisig_accepts {D : Type} (O : Oracles D) (d : D) (m : Nat) (pubs : List Bytes)
    (ss : List (Bytes × Bytes))
    (h33 : ∀ k ∈ pubs, k.length = 33) (hn2 : 2 ≤ pubs.length) (hn16 : pubs.length ≤ 16)
    (hm1 : 1 ≤ m) (hmn : m ≤ pubs.length) (hk1 : m ≤ ss.length) (hk2 : ss.length ≤ pubs.length)
    (hs : ∀ x ∈ ss, x.2.length = 64) (hmem : ∀ x ∈ ss, x.1 ∈ pubs) (hnd : (ss.map (·.1)).Nodup)
    (hdec : ∀ q ∈ pubs, O.decodeOk q = true)
    (hver : ∀ x ∈ ss, ∀ q ∈ pubs, O.verify q d x.2 = true ↔ q = x.1) :
    ∃ code, multiSigCode m pubs = some code ∧
      runPrograms Fix.all O d [⟨PrefixMultiSig, O.codeHash code⟩] [⟨code, sigChunks ss⟩] = ok :=
  wallet_multisig_accepts O d m pubs ss h33 hn2 hn16 hm1 hmn hk1 hk2 hs hmem hnd hdec hver

/-- a scheme for the example: key `[k, 0, …]`, signature `[k, 0, …]` verifies iff first bytes agree -/
def toy2 : Oracles Unit := ⟨fun _ => true, fun k _ s => k.head? == s.head?, fun _ _ _ => false, fun c => c.take 3⟩
def tk (i : UInt8) : Bytes := i :: List.replicate 32 0
def ts (i : UInt8) : Bytes := i :: List.replicate 63 0
/-- non-vacuity: 2-of-3, members 3 and 1 sign (in that order) -/
example : ∃ code, multiSigCode 2 [tk 1, tk 2, tk 3] = some code ∧
    runPrograms Fix.all toy2 () [⟨PrefixMultiSig, toy2.codeHash code⟩] [⟨code, sigChunks [(tk 3, ts 3), (tk 1, ts 1)]⟩] = ok :=
  ⟨_, rfl, by decide⟩

/-- **Client.MultiSign (SignMultiSignTransactionByM).** A wallet holding `k` of the script's keys (whatever their
    positions) appends exactly `min k (m+1)` signatures; so with `k ≥ m` keys the parameter carries between m and
    m+1 ≤ … signatures of distinct keys and `C37_wallet_multisig_accepts` applies. -/
theorem C37_signByM_count (m : Nat) (held : List Bool) :
    signByM m held 0 = min (held.count true) (m + 1) := by
  have := signByM_spec m held 0 (Nat.zero_le _)
  simpa using this

theorem C37_signByM_enough (m : Nat) (held : List Bool) (h : m ≤ held.count true) : m ≤ signByM m held 0 := by
  rw [C37_signByM_count]; omega

/-- NEGATION for the variant that uses the script position as signer index: a 2-of-4 wallet holding the keys at
    positions 2 and 3 stops after one signature; 3-of-5 with positions 0, 3, 4 after two. -/
theorem C37_signByM_position_false :
    signByMPos 2 [false, false, true, true] 0 0 = 1 ∧ signByMPos 3 [true, false, false, true, true] 0 0 = 2 ∧
    signByM 2 [false, false, true, true] 0 = 2 ∧ signByM 3 [true, false, false, true, true] 0 = 3 := by decide

/-- non-vacuity with the toy scheme of C05 -/
example : runPrograms Fix.all ElaVerif.C05.toy ()
    [⟨0x21, ElaVerif.C05.toy.codeHash (standardCode (5 :: List.replicate 32 0))⟩]
    [⟨standardCode (5 :: List.replicate 32 0), standardParam (5 :: List.replicate 63 0)⟩] = ok := by decide

/-- **Changing the signed content makes it fail** (standard and Schnorr accounts): for a scheme in
    which a signature valid for `d` is not valid for `d'`, the wallet's program accepted for `d` is
    rejected for `d'`. For m-of-n accounts the corresponding statement is `C05_unsigned_rejected`. -/
theorem C37_tamper {D : Type} (O : Oracles D) (d d' : D) (pub sig : Bytes) (pfx : Nat)
    (hpub : pub.length = 33) (hsig : sig.length = 64) (hp : pfx = PrefixStandard ∨ pfx = PrefixDeposit)
    (hdec : O.decodeOk pub = true) (hver : O.verify pub d sig = true)
    (hb : ∀ k s, O.verify k d s = true → O.verify k d' s = false)
    (hbs : ∀ k s, O.schnorr k d s = true → O.schnorr k d' s = false) :
    runPrograms Fix.all O d' [⟨pfx, O.codeHash (standardCode pub)⟩] [⟨standardCode pub, standardParam sig⟩] ≠ ok := by
  have hx : pfx ≠ PrefixCrossChain := by rcases hp with h | h <;> (rw [h]; decide)
  exact ElaVerif.C05.C05_tamper O d d' ⟨pfx, O.codeHash (standardCode pub)⟩ ⟨standardCode pub, standardParam sig⟩
    hb hbs (Or.inr (std_isStandard pub hpub)) hx
    (wallet_standard_accepts O d pub sig pfx hpub hsig hp hdec hver)

/-! ## keystore round trip of the private key -/

/-- **Keystore.** `SaveAccount` writes `D.Bytes()` (which has no leading zero bytes and may be shorter
    than 32 bytes) right-aligned into the 32-byte slot `keyPair[64:96]`; `LoadAccounts` reads the slot
    back as the scalar.  For every scalar below 2^256 the slot has 32 bytes and denotes the same scalar —
    so the reloaded account signs with the same key, and the acceptance theorems above apply to it. -/
theorem C37_keystore_roundtrip (d : Nat) (h : d < 2 ^ 256) :
    (storeKey false (natToBytes d)).length = 32 ∧ loadScalar (storeKey false (natToBytes d)) = d :=
  keystore_roundtrip d h

/-- also for key bytes that already carry leading zeros (any length up to 32) -/
theorem C37_keystore_slot_spec (priv : Bytes) (h : priv.length ≤ 32) :
    (storeKey false priv).length = 32 ∧ loadScalar (storeKey false priv) = bytesToNat priv := storeKey_spec priv h

example : storeKey false (natToBytes 0x0102) = List.replicate 30 0 ++ [1, 2] := by decide

/-- NEGATION for the left-aligned copy (`copy(slot, priv)`): a 31-byte key comes back multiplied by 256,
    a 1-byte key by 2^248. -/
theorem C37_keystore_leftaligned_false :
    loadScalar (storeKey true (natToBytes 1)) = 2 ^ 248 ∧
    loadScalar (storeKey true (natToBytes (2 ^ 247))) = 2 ^ 255 := by decide

/-! ## m-of-n accounts the wallet creates -/

def k33 (i : UInt8) : Bytes := List.replicate 33 i

/-- `CreateMultiSigRedeemScript` builds scripts for 1 ≤ m ≤ n ≤ 24 keys, but the script parser used
    by the wallet's signer (`GetSigners` → `ParseMultisigScript`) and by the node accepts them only
    for 2 ≤ n ≤ 16: NEGATION witnesses n = 1 (script shorter than 71 bytes) and n = 17 (the count is
    a data push `01 11`, so the key area is no longer a multiple of 34 bytes).
    A 2-of-3 script parses. -/
theorem C37_multisig_script_shapes :
    (∃ c, multiSigCode 1 [k33 1] = some c ∧ parsedKeyCount c = none) ∧
    (∃ c, multiSigCode 2 ((List.range 17).map (fun i => k33 (UInt8.ofNat i))) = some c ∧ parsedKeyCount c = none) ∧
    (∃ c, multiSigCode 2 [k33 1, k33 2, k33 3] = some c ∧ parsedKeyCount c = some 3) := by
  refine ⟨⟨_, rfl, by decide⟩, ⟨_, rfl, by decide⟩, ⟨_, rfl, by decide⟩⟩

end ElaVerif.C37
