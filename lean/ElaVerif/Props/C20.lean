import ElaVerif.Model.History
import ElaVerif.Lemmas.History
import ElaVerif.Model.Sites
import ElaVerif.Gen.C20
/-!
# C20 — height-indexed change history rolls back exactly (`utils/history.go`)

Full-strength statement of the property: *for every sequence of
append/commit/rollback/seek/rollback-seek, with any closure pairs whose rollback inverts its
execute, the state after a rollback or seek to `h` is the replay of the heights `≤ h`*.
On the real code this is **false** in five precise ways (each negation below is proved on the
model, is a corpus witness replayed on the real `utils.History`, and is a known finding):

* `C20_pairwise_contract_false`  – forward-order `HeightChanges.rollback` does not invert a height
  whose closures are only *individually* inverse (absolute restore followed by a delta; two
  execute-time captures),
* `C20_seek_from_seeked_false`, `C20_seek_after_rollback_false`, `C20_rollback_while_seeked_false`,
  `C20_seek_gap_false` – `SeekTo` counts entries from the end of the slice and trusts `seekHeight`.

What is proved (for all inputs in the stated domain):

* `C20_refines` – any list of *block* (any number of changes, strictly increasing heights, gaps
  allowed) and *RollbackTo within capacity* operations leaves the caller's state equal to the replay
  of the logical chain, never panics, keeps `min(cap, …)` heights (capacity theorem), provided every
  rolled-back height satisfies the block-level inverse `Inv` at the state it was committed on;
* `C20_seek`, `C20_seek_back`, `C20_seek_commit`, `C20_rbseek` – a seek from the tip is a transparent
  detour: the state is the replay up to the seek height, and seeking back / committing the next
  height / `RollbackSeekTo` give *exactly* the pair `(History, state)` of never having seeked;
* `C20_temp_discarded`, `C20_temp_rollback` – temporary changes executed by one `Commit` are gone
  after the next block's first `Append` / the next `RollbackTo`;
* `C20_classes` – `Inv` holds for the closure classes the node uses: append-time captures of the
  pre-block value and commutative deltas, with no delta after a capture on one location.
-/
namespace ElaVerif.C20
open ElaVerif.History

variable {σ : Type}

/-- **Rollback = direct build, with capacity.**  For every capacity `1 ≤ cap < 2^31`, every initial
    state and every disciplined list of blocks (any number of changes per height, strictly increasing
    heights) and `RollbackTo`s within the stored capacity: the model of `utils.History` never panics,
    the caller's state is exactly the replay of the logical chain (the blocks not rolled back), the
    history's height is the chain's, and it stores exactly `retained ≤ cap` heights. -/
theorem C20_refines (cap : Nat) (hc1 : 1 ≤ cap) (hc2 : cap < 2147483648) (s0 : σ) (ops : List (Op σ))
    (hd : Disciplined cap s0 {} ops) :
    ∃ H s, runModel cap s0 ops = some (H, s) ∧
      s = run (ops.foldl (specStep cap) {}).chain s0 ∧
      H.height = (ops.foldl (specStep cap) {}).tip ∧
      H.changes.length = (ops.foldl (specStep cap) {}).retained ∧
      (ops.foldl (specStep cap) {}).retained ≤ cap :=
  refines_aux cap s0 ops (newHistory cap) s0 {} (good_new cap hc1 hc2 s0) rfl rfl hd

/-- The invariant `Good` is what `C20_refines` maintains; the detour theorems below start from it.
    It is reachable: -/
theorem C20_good_reachable (cap : Nat) (hc1 : 1 ≤ cap) (hc2 : cap < 2147483648) (s0 : σ) :
    Good cap (newHistory cap) s0 [] s0 := good_new cap hc1 hc2 s0

/-- and preserved by a block (so every state reached by blocks is `Good` with a fresh `seekHeight`). -/
theorem C20_block_good {cap : Nat} {H : History σ} {s : σ} {chain : List (HeightChanges σ)} {s0 : σ}
    (g : Good cap H s chain s0) (b : HeightChanges σ) (hh : H.height < b.height) (hb : b.height < 2147483648) :
    processBlock H s b = (.ok, afterBlock H b, b.commit s) ∧
    Good cap (afterBlock H b) (b.commit s) (chain ++ [b]) s0 ∧
    (afterBlock H b).seekHeight = (afterBlock H b).height :=
  processBlock_good g b hh hb

/-! ## Seeking: a transparent detour -/

/-- `SeekTo v` from the tip (fresh `seekHeight`, index arithmetic agreeing with the heights, within
    the stored entries) succeeds and the caller's state becomes the replay of the heights `≤ v`. -/
theorem C20_seek {cap : Nat} {H : History σ} {s : σ} {chain : List (HeightChanges σ)} {s0 : σ}
    (g : Good cap H s chain s0) (v : Nat) (sk : Seekable H chain v) (hinv : InvAbove v chain s0) :
    seekTo H s v = (.ok, { H with seekHeight := v }, run (upTo v chain) s0) :=
  seekTo_good g v sk hinv

/-- Seeking back to the best height restores exactly the history and the state before the seek. -/
theorem C20_seek_back {cap : Nat} {H : History σ} {s : σ} {chain : List (HeightChanges σ)} {s0 : σ}
    (g : Good cap H s chain s0) (v : Nat) (sk : Seekable H chain v) :
    seekTo { H with seekHeight := v } (run (upTo v chain) s0) H.height = (.ok, H, s) :=
  seekBack_good g v sk

/-- Committing a new height from a seeked state gives the same history and state as never having
    seeked. -/
theorem C20_seek_commit {cap : Nat} {H : History σ} {s : σ} {chain : List (HeightChanges σ)} {s0 : σ}
    (g : Good cap H s chain s0) (v : Nat) (sk : Seekable H chain v)
    (b : HeightChanges σ) (hh : H.height < b.height) :
    processBlock { H with seekHeight := v } (run (upTo v chain) s0) b = processBlock H s b :=
  seek_then_block g v sk b hh

/-- `SeekTo v; RollbackSeekTo v` represents the chain truncated at `v`, with a fresh `seekHeight`. -/
theorem C20_rbseek {cap : Nat} {H : History σ} {s : σ} {chain : List (HeightChanges σ)} {s0 : σ}
    (g : Good cap H s chain s0) (v : Nat) (sk : Seekable H chain v) (hinv : InvAbove v chain s0) :
    Good cap (rollbackSeekTo { H with seekHeight := v } (run (upTo v chain) s0) v).1
             (rollbackSeekTo { H with seekHeight := v } (run (upTo v chain) s0) v).2 (upTo v chain) s0 ∧
    (rollbackSeekTo { H with seekHeight := v } (run (upTo v chain) s0) v).1.seekHeight = v ∧
    (rollbackSeekTo { H with seekHeight := v } (run (upTo v chain) s0) v).1.height = v :=
  rbseek_good g v sk hinv

/-! ## Temporary changes -/

/-- appending temporary changes (height 0) only records them -/
theorem C20_temp_append (H : History σ) (s : σ) (c : Change σ) :
    append H s 0 c = (.ok, { H with temp := H.temp ++ [c] }, s) := append_temp H s c

/-- `Commit` with temporary changes pending executes them and nothing else -/
theorem C20_temp_commit (H : History σ) (s : σ) (h : Nat) (ht : H.temp ≠ []) :
    commit H s h = (H, applyExec H.temp s) := commit_temp H s h ht

/-- Temporary changes executed by one `Commit` are discarded by the next block: processing the
    block gives exactly the history and state of never having recorded them. -/
theorem C20_temp_discarded (H : History σ) (s : σ) (ts : List (Change σ)) (b : HeightChanges σ)
    (ht : H.temp = []) (hne : b.changes ≠ []) (hb : b.height ≠ 0)
    (hinv : applyUndo ts (applyExec ts s) = s) :
    processBlock { H with temp := ts } (applyExec ts s) b = processBlock H s b :=
  temp_then_block H s ts b ht hne hb hinv

theorem C20_temp_rollback (H : History σ) (s : σ) (ts : List (Change σ)) (h : Nat)
    (ht : H.temp = []) (hlt : h < H.height)
    (hinv : applyUndo ts (applyExec ts s) = s) :
    rollbackTo { H with temp := ts } (applyExec ts s) h = rollbackTo H s h :=
  temp_then_rollback H s ts h ht hlt hinv

/-- Temporary changes recorded **while a height is pending** (`Append(h,…)`, `Append(0,…)`, `Commit`, then
    `Append(h,…)` again): the next `Append` of the pending height undoes them whatever is cached and then
    behaves exactly like the same `Append` on the history that never saw them. -/
theorem C20_temp_while_pending (H : History σ) (s : σ) (ts : List (Change σ)) (h : Nat) (c : Change σ)
    (ht : H.temp = []) (hb : h ≠ 0) (hinv : applyUndo ts (applyExec ts s) = s) :
    append { H with temp := ts } (applyExec ts s) h c = append H s h c :=
  temp_then_append H s ts h c ht hb hinv

/-- non-vacuity: a pending height with one cached change, one temporary delta -/
example : ∃ (H : History IntMap.St) (c : Change IntMap.St), H.cached.isSome ∧ H.temp = [] ∧
    applyUndo [IntMap.add 0 5] (applyExec [IntMap.add 0 5] ({} : IntMap.St)) = ({} : IntMap.St) ∧ c.exec {} = c.exec {} := by
  refine ⟨{ capacity := 3, cached := some ⟨4, [IntMap.add 1 1]⟩ }, IntMap.add 2 2, rfl, rfl, ?_, rfl⟩
  simp [applyUndo, applyExec, IntMap.add]
  funext j; unfold IntMap.upd; by_cases hj : j = 0 <;> simp [hj]

/-- `RollbackSeekTo v` keeps the entry of the target height: exactly the entries of height `≤ v` stay. -/
theorem C20_rbseek_keeps_target (H : History σ) (s : σ) (v : Nat) (hlt : v < H.height) :
    (rollbackSeekTo H s v).1.changes = H.changes.takeWhile (fun hc => hc.height ≤ v) ∧
    (rollbackSeekTo H s v).1.height = v ∧ (rollbackSeekTo H s v).2 = s :=
  rollbackSeekTo_changes H s v hlt

/-- `SeekTo v; RollbackSeekTo v; RollbackTo h` (h below v, within what is still stored): the state is the
    replay of the heights `≤ h`. -/
theorem C20_rbseek_then_rollback {cap : Nat} {H : History σ} {s : σ} {chain : List (HeightChanges σ)} {s0 : σ}
    (g : Good cap H s chain s0) (v : Nat) (sk : Seekable H chain v) (hinv : InvAbove v chain s0) (h : Nat) (hlt : h < v)
    (hd : depth h (upTo v chain) ≤
      (rollbackSeekTo { H with seekHeight := v } (run (upTo v chain) s0) v).1.changes.length)
    (hinv2 : InvAbove h (upTo v chain) s0) :
    (rollbackTo (rollbackSeekTo { H with seekHeight := v } (run (upTo v chain) s0) v).1
                (rollbackSeekTo { H with seekHeight := v } (run (upTo v chain) s0) v).2 h).2
      = run (upTo h (upTo v chain)) s0 := by
  obtain ⟨g2, _, hh⟩ := rbseek_good g v sk hinv
  obtain ⟨g3, _, _⟩ := rollbackTo_good g2 h (by omega) hd hinv2
  exact g3.state

/-- `SeekTo v; RollbackSeekTo v; SeekTo v'`: the truncated history is again a `Good` one with a fresh
    `seekHeight`, so `C20_seek` (and `C20_seek_commit`) apply to it. -/
theorem C20_rbseek_then_seek {cap : Nat} {H : History σ} {s : σ} {chain : List (HeightChanges σ)} {s0 : σ}
    (g : Good cap H s chain s0) (v : Nat) (sk : Seekable H chain v) (hinv : InvAbove v chain s0) (v' : Nat)
    (sk2 : Seekable (rollbackSeekTo { H with seekHeight := v } (run (upTo v chain) s0) v).1 (upTo v chain) v')
    (hinv2 : InvAbove v' (upTo v chain) s0) :
    (seekTo (rollbackSeekTo { H with seekHeight := v } (run (upTo v chain) s0) v).1
            (rollbackSeekTo { H with seekHeight := v } (run (upTo v chain) s0) v).2 v').2.2
      = run (upTo v' (upTo v chain)) s0 := by
  obtain ⟨g2, _, _⟩ := rbseek_good g v sk hinv
  rw [seekTo_good g2 v' sk2 hinv2]

/-! ## The usage discipline of the node's call sites (T-gen, regenerated on every run)

`C20_refines` needs of its caller: (i) the changes of one block are appended at ONE non-zero height and
committed at that height, heights strictly increasing; (ii) `RollbackTo` targets lie below the tip and within
the stored capacity; (iii) no `SeekTo` / `RollbackSeekTo` in between (else the detour theorems apply).
What the source gives, syntactically, for the two packages that use `utils.History`:

* every `Commit` passes `block.Height` or `height` — the same expressions the `Append` sites of that function
  family pass (`appendHeights`; `historyHeight` is the height of the block being connected in
  `Arbiters.UpdateNextArbitrators`), so (i) reduces to "block heights increase by one", which is the chain's
  invariant (checkpoints skip `block.Height <= GetHeight()`), not this table's;
* `SeekTo` is called in exactly one function, `State.GetHistory`, which no non-test code calls: (iii) holds for
  seeks, and the known seek findings are unreachable from the node;
* `RollbackSeekTo` is called only by the `RollbackSeekTo` wrappers and `Checkpoint.OnRollbackSeekTo`, reached from
  `checkpoint.Manager.RestoreTo` right after `OnInit` (fresh histories: `height >= h.height` returns at once);
* `RollbackTo` is called only by the four rollback wrappers with the caller's target (`height`, or the loop
  variable `i` of `Committee.RollbackTo` that walks down one height at a time).
"Within capacity" in (ii) is NOT a fact of this table: it rests on reorganisations being shallower than
`maxHistoryCapacity` = 720 heights (irreversibility, C30). -/

open ElaVerif.Sites in
def callsOf (m : Txt) : List NCall := Gen.C20.calls.filter (fun c => c.method == m)

open ElaVerif.Sites in
/-- T-gen: the call sites of `History.SeekTo`, `RollbackSeekTo`, `RollbackTo`, `Commit` and the height arguments
    of `Append` in dpos/state and cr/state are as described above. -/
theorem C20_gen_usage :
    ((callsOf [83,101,101,107,84,111]).map (·.fn)) = [[83,116,97,116,101,46,71,101,116,72,105,115,116,111,114,121]] ∧
    ((callsOf [82,111,108,108,98,97,99,107,83,101,101,107,84,111]).map (·.fn)).eraseDups =
      [[67,104,101,99,107,112,111,105,110,116,46,79,110,82,111,108,108,98,97,99,107,83,101,101,107,84,111], [65,114,98,105,116,101,114,115,46,82,111,108,108,98,97,99,107,83,101,101,107,84,111], [83,116,97,116,101,46,82,111,108,108,98,97,99,107,83,101,101,107,84,111]] ∧
    ((callsOf [82,111,108,108,98,97,99,107,84,111]).map (·.fn)).eraseDups =
      [[67,111,109,109,105,116,116,101,101,46,82,111,108,108,98,97,99,107,84,111], [83,116,97,116,101,46,114,111,108,108,98,97,99,107,84,111], [65,114,98,105,116,101,114,115,46,82,111,108,108,98,97,99,107,84,111], [83,116,97,116,101,46,82,111,108,108,98,97,99,107,84,111]] ∧
    ((callsOf [82,111,108,108,98,97,99,107,84,111]).all (fun c => c.arg == [104,101,105,103,104,116] || c.arg == [105])) = true ∧
    ((callsOf [67,111,109,109,105,116]).all (fun c => c.arg == [98,108,111,99,107,46,72,101,105,103,104,116] || c.arg == [104,101,105,103,104,116])) = true ∧
    Gen.C20.appendHeights = [[98,108,111,99,107,46,72,101,105,103,104,116], [104,101,105,103,104,116], [104,105,115,116,111,114,121,72,101,105,103,104,116]] := by
  decide +kernel

/-! ## The closure classes for which `Inv` holds -/

open IntMap

/-- **Classes.**  A height whose changes are absolute writes undone by the pre-block value
    (captured when appending) and deltas undone by the opposite delta — in any number, on any
    locations, as long as no delta follows an absolute write on the same location — is inverted by
    the forward-order rollback, on every pre-block state. -/
theorem C20_classes (h : Nat) (s : St) (cs : List Cls) (hok : okOrder cs = true) :
    History.Inv ⟨h, cs.map (toChange s)⟩ s := by
  unfold History.Inv HeightChanges.rollback HeightChanges.commit
  simp only
  have hm : (applyUndo (cs.map (toChange s)) (applyExec (cs.map (toChange s)) s)).m = s.m := by
    funext k
    rw [undo_key s k cs _ hok]
    by_cases hs : cs.any (isSet k) = true
    · simp [hs]
    · simp only [Bool.not_eq_true] at hs
      rw [exec_key s k cs s hs]; simp [hs]
  have hc : (applyUndo (cs.map (toChange s)) (applyExec (cs.map (toChange s)) s)).cell = s.cell := by
    rw [cell_undo, cell_exec]
  cases hh : applyUndo (cs.map (toChange s)) (applyExec (cs.map (toChange s)) s) with
  | mk m c =>
    rw [hh] at hm hc
    cases s; simp_all

/-- non-vacuity: delta then two absolute writes on one location, plus another location -/
example : okOrder [.add 0 5, .set 0 9, .set 0 7, .add 1 3, .set 2 1] = true := by decide

/-! ## Negations: where the real code does not restore the state (corpus/C20/*.ops) -/

/-- each change's rollback inverts its execute at the state where it executed -/
def PairInv : List (Change σ) → σ → Prop
  | [], _ => True
  | c :: cs, s => c.undo (c.exec s) = s ∧ PairInv cs (c.exec s)

/-- state with `m 0 = 100` -/
def s100 : St := { m := upd (fun _ => 0) 0 100 }

/-- height 2 of corpus/C20/witnesses.ops: `m[0] = 70` undone by the captured 100, then `m[0] -= 5` -/
def mixBlock : HeightChanges St := ⟨2, [setA 0 70 100, IntMap.add 0 (-5)]⟩

/-- **The pairwise contract is not enough (forward-order rollback).**  It is *not* true that a
    height whose closures are individually inverse is inverted by `HeightChanges.rollback`:
    an absolute restore followed by a delta on the same cell ends at 105 instead of 100. -/
theorem C20_pairwise_contract_false :
    ¬ (∀ (b : HeightChanges St) (s : St), PairInv b.changes s → History.Inv b s) := by
  intro h
  have hp : PairInv mixBlock.changes s100 := by
    refine ⟨?_, ?_, trivial⟩
    · show ({ m := upd (upd s100.m 0 70) 0 100, cell := s100.cell } : St) = s100
      unfold s100; congr 1; funext j; unfold upd; by_cases hj : j = 0 <;> simp [hj]
    · show ({ m := upd (upd (upd s100.m 0 70) 0 (upd s100.m 0 70 0 + -5)) 0
                (upd (upd s100.m 0 70) 0 (upd s100.m 0 70 0 + -5) 0 - -5), cell := s100.cell } : St)
            = { m := upd s100.m 0 70, cell := s100.cell }
      congr 1; funext j; unfold upd; by_cases hj : j = 0 <;> simp [hj]
  have := congrArg (fun t => t.m 0) (h mixBlock s100 hp)
  revert this
  decide

/-- the same on the op language, exactly corpus/C20/witnesses.ops: after `rollback 1` the cell
    holds 105, the replay of height 1 is 100. -/
theorem C20_mixture_false :
    (runOps 4 [.app 1 .seta 0 100, .commit 1, .app 2 .seta 0 70, .app 2 .add 0 (-5), .commit 2,
               .rollback 1]).s.m 0 = 105 := by decide

/-- two execute-time captures on one cell at one height (corpus/C20/exec_capture.ops):
    rollback to 0 leaves 1, the replay is 0. -/
theorem C20_exec_capture_false :
    (runOps 4 [.app 1 .sete 0 1, .app 1 .sete 0 2, .commit 1, .rollback 0]).s.m 0 = 1 := by decide

private def three : List IOp :=
  [.app 1 .seta 0 1, .commit 1, .app 2 .seta 0 2, .commit 2, .app 3 .seta 0 3, .commit 3]

/-- `SeekTo` from a seeked position (corpus/C20/seek_from_seeked.ops): `seek 1; seek 2` re-executes
    height 3 instead of height 2 — the cell holds 3, the replay of heights ≤ 2 is 2. -/
theorem C20_seek_from_seeked_false :
    (runOps 8 (three ++ [.seek 1, .seek 2])).last = .ok ∧
    (runOps 8 (three ++ [.seek 1, .seek 2])).s.m 0 = 3 := by decide

/-- `RollbackTo` leaves `seekHeight` stale (corpus/C20/seek_after_rollback.ops): the following
    `SeekTo 1` rolls back heights 2 *and* 1 — the cell holds 0, the replay of heights ≤ 1 is 1. -/
theorem C20_seek_after_rollback_false :
    (runOps 8 (three ++ [.rollback 2, .seek 1])).last = .ok ∧
    (runOps 8 (three ++ [.rollback 2, .seek 1])).s.m 0 = 0 := by decide

/-- the same staleness makes `SeekTo 0` run its loop index to -1
    (corpus/C20/seek_after_rollback_panic.ops): a Go index-out-of-range panic. -/
theorem C20_seek_after_rollback_panics :
    (runOps 8 (three ++ [.rollback 1, .seek 0])).last = .panic := by decide

/-- `RollbackTo` while seeked undoes the upper heights a second time
    (corpus/C20/rollback_while_seeked.ops): 1+10+100, `seek 2` (11), `rollback 1` gives -99, not 1. -/
theorem C20_rollback_while_seeked_false :
    (runOps 8 [.app 1 .add 0 1, .commit 1, .app 2 .add 0 10, .commit 2, .app 3 .add 0 100, .commit 3,
               .seek 2, .rollback 1]).s.m 0 = -99 := by decide

/-- `SeekTo` counts entries, not heights (corpus/C20/seek_gap.ops): heights 1, 3, 5; `seek 3`
    rolls back two entries — the cell holds 1, the replay of heights ≤ 3 is 3. -/
theorem C20_seek_gap_false :
    (runOps 8 [.app 1 .seta 0 1, .commit 1, .app 3 .seta 0 3, .commit 3, .app 5 .seta 0 5, .commit 5,
               .seek 3]).last = .ok ∧
    (runOps 8 [.app 1 .seta 0 1, .commit 1, .app 3 .seta 0 3, .commit 3, .app 5 .seta 0 5, .commit 5,
               .seek 3]).s.m 0 = 1 := by decide

/-! ## Non-vacuity of the hypotheses of the detour theorems -/

/-- a concrete `Good` state with a `Seekable` height: two consecutive blocks, seek to the first -/
example : ∃ (H : History St) (s : St) (chain : List (HeightChanges St)),
    Good 4 H s chain {} ∧ Seekable H chain 1 ∧ chain.length = 2 := by
  let b1 : HeightChanges St := ⟨1, [IntMap.add 0 1]⟩
  let b2 : HeightChanges St := ⟨2, [IntMap.add 0 10, IntMap.add 1 1]⟩
  obtain ⟨_, g1, _⟩ := processBlock_good (good_new 4 (by omega) (by omega) ({} : St)) b1 (by decide) (by decide)
  obtain ⟨_, g2, hf⟩ := processBlock_good g1 b2 (by decide) (by decide)
  refine ⟨_, _, _, g2, ⟨hf, by decide, by decide, by decide⟩, rfl⟩

end ElaVerif.C20
