import ElaVerif.Model.Withdraw
import ElaVerif.Lemmas.Withdraw
import ElaVerif.Gen.C33
import ElaVerif.Model.Index
/-!
# C33 — side-chain withdrawals need the arbiter quorum and are single-use

Property theorems only, about the model of `WithdrawFromSideChainTransaction.SpecialContextCheck`
(`ElaVerif/Model/Withdraw.lean`).  The multisig / Schnorr *signature* verification itself is C05;
here: which scripts, signer lists and hashes the context check lets through.
-/
namespace ElaVerif.C33
open ElaVerif.Withdraw

/-- T-gen: the payload version constants, which version branches consult the store for an already
    withdrawn hash (V0 and V1 do, V2 does not), and where hashes are read for the in-block and
    in-transaction duplicate tests (payload list only). -/
theorem C33_gen_facts :
    ElaVerif.Gen.C33.versions = [0, 1, 2] ∧
    ElaVerif.Gen.C33.storeLookups = [("checkWithdrawFromSideChainTransactionV0", 1),
      ("checkWithdrawFromSideChainTransactionV1", 1), ("checkWithdrawFromSideChainTransactionV2", 0),
      ("checkSchnorrWithdrawFromSidechain", 0)] ∧
    ElaVerif.Gen.C33.signerBoundCheckUnconditional = true := by decide

/-- **Only cross-chain UTXOs**: an accepted withdrawal (payload version 0, 1 or 2) spends only outputs
    under the cross-chain address prefix. -/
theorem C33_inputs_cross_chain (c : Cfg) (l : Ledger) (height : Nat) (t : Tx)
    (hv : t.pver = 0 ∨ t.pver = 1 ∨ t.pver = 2) (h : specialCheck c l height t = none) :
    ∀ b ∈ t.refsCross, b = true := by
  have key : t.refsCross.any (! ·) = false → ∀ b ∈ t.refsCross, b = true := by
    intro hany b hb
    cases hbb : b with
    | true => rfl
    | false =>
      exfalso
      have : t.refsCross.any (! ·) = true := List.any_eq_true.2 ⟨b, hb, by simp [hbb]⟩
      rw [hany] at this; cases this
  apply key
  unfold specialCheck at h
  split at h
  · cases h
  · rcases hv with hv | hv | hv
    · simp only [hv, ↓reduceIte] at h
      unfold checkV0 at h
      split at h
      · cases h
      · split at h
        · cases h
        · rename_i hn; simpa using hn
    · simp only [hv, ↓reduceIte] at h
      have : ¬ (1 = 0) := by decide
      unfold checkV1 at h
      simp only [this, ↓reduceIte] at h
      split at h
      · cases h
      · split at h
        · cases h
        · rename_i hn; simpa using hn
    · simp only [hv] at h
      have h1 : ¬ (2 = 0) := by decide
      have h2 : ¬ (2 = 1) := by decide
      simp only [h1, h2, ↓reduceIte] at h
      unfold checkV2 at h
      split at h
      · cases h
      · split at h
        · cases h
        · rename_i hn; simpa using hn

/-- **Schnorr quorum (V2)**: every signer index names an existing arbiter (at every height — after the
    `fix:` of C03), at least the height's threshold of signer entries, and every program is the Schnorr
    redeem script of the *sum* of the named arbiters' keys; from `CrossChainUTXORestrictionHeight` on no
    index occurs twice — so the threshold counts *distinct* current cross-chain arbiters. -/
theorem C33_v2_quorum (c : Cfg) (l : Ledger) (height : Nat) (t : Tx) (hv : t.pver = 2)
    (h : specialCheck c l height t = none) :
    threshold c height ≤ t.signers.length ∧
    (∀ i ∈ t.signers, i < l.cross.length) ∧
    (height ≥ c.restriction → t.signers.Nodup) ∧
    ∀ p ∈ t.progs, p.schnorr = true ∧ p.schnorrKey = keySum l.cross t.signers := by
  unfold specialCheck at h
  split at h
  · cases h
  · have h1 : ¬ (2 = 0) := by decide
    have h2 : ¬ (2 = 1) := by decide
    simp only [hv, h1, h2, ↓reduceIte] at h
    unfold checkV2 at h
    split at h
    · cases h
    · rename_i hlen
      split at h
      · cases h
      · unfold checkSchnorr at h
        split at h
        · cases h
        · rename_i sum hagg
          obtain ⟨g1, g2, g3⟩ := aggregate_ok hagg
          simp only [Nat.zero_add] at g3
          refine ⟨by omega, g1, ?_, ?_⟩
          · intro hr
            exact (g2 (by simp [hr])).1
          · intro p hp
            have := firstErr_none h p hp
            split at this
            · rename_i hs
              split at this
              · cases this
              · rename_i hk
                exact ⟨hs, by rw [← g3]; simpa using hk⟩
            · cases this

/-- a concrete accepted V2 withdrawal: 3 arbiters with keys 5, 7, 11, signers `[0, 2]`, threshold 2 -/
example : specialCheck ⟨100, 10, 20, 30, 2, 2, 2⟩ ⟨[], [], [⟨5, true⟩, ⟨7, true⟩, ⟨11, true⟩], 3, 1, [99]⟩ 50
    ⟨2, [], [1], [0, 2], [true], [⟨false, 0, 0, [], true, 16⟩]⟩ = none := by decide

/-- before the restriction height an index may repeat: the same arbiter counted three times passes
    (the property only demands distinctness from the restriction height on) -/
example : specialCheck ⟨100, 10, 20, 30, 2, 2, 2⟩ ⟨[], [], [⟨5, true⟩, ⟨7, true⟩, ⟨11, true⟩], 3, 1, []⟩ 25
    ⟨2, [], [1], [0, 0, 0], [true], [⟨false, 0, 0, [], true, 15⟩]⟩ = none := by decide

/-- **Multisig quorum (V0/V1)**: every program parses as a cross-chain multisig script whose key list is
    exactly the normal cross-chain arbiters (each present, as many keys as arbiters, arbiters pairwise
    distinct), and whose `m`/`n` meet the rule of the height. -/
theorem C33_v01_quorum (c : Cfg) (l : Ledger) (height : Nat) (t : Tx) (hv : t.pver = 0 ∨ t.pver = 1)
    (h : specialCheck c l height t = none) :
    ∀ p ∈ t.progs, p.parseOK = true ∧
      (∀ a ∈ l.cross, a.normal = true → a.key ∈ p.keys) ∧
      p.keys.length = normalCount l.cross ∧
      ((l.cross.filter (·.normal)).map (·.key)).eraseDups.length = normalCount l.cross ∧
      ((t.pver = 1 ∨ height ≥ c.crClaimStart) →
        p.n = (normalCount (if height ≥ c.dposCrossChain then l.arbitrators else l.crc) : Int) ∧
        p.m ≥ ((if height ≥ c.dposCrossChain then c.normalCount + 1 else c.crAgreement : Nat) : Int)) ∧
      ((t.pver = 0 ∧ height < c.crClaimStart) →
        1 ≤ p.m ∧ p.m ≤ p.n ∧ p.n = (l.crossCount : Int) ∧ p.m > (l.crossMajority : Int)) := by
  have harb : ∀ keys, checkArbitrators l.cross keys = none →
      (∀ a ∈ l.cross, a.normal = true → a.key ∈ keys) ∧ keys.length = normalCount l.cross ∧
      ((l.cross.filter (·.normal)).map (·.key)).eraseDups.length = normalCount l.cross := by
    intro keys hk
    unfold checkArbitrators at hk
    simp only at hk
    split at hk
    · cases hk
    · rename_i hany
      split at hk
      · cases hk
      · rename_i hcnt
        refine ⟨?_, ?_, ?_⟩
        · intro a ha hn
          apply Classical.byContradiction
          intro hnot
          apply hany
          apply List.any_eq_true.2
          exact ⟨a, List.mem_filter.2 ⟨ha, hn⟩, by simp [hnot]⟩
        · unfold normalCount; omega
        · unfold normalCount; omega
  have hset : ∀ p, checkSetNew c l height p = none →
      p.n = (normalCount (if height ≥ c.dposCrossChain then l.arbitrators else l.crc) : Int) ∧
      p.m ≥ ((if height ≥ c.dposCrossChain then c.normalCount + 1 else c.crAgreement : Nat) : Int) := by
    intro p hp
    unfold checkSetNew at hp
    simp only at hp
    by_cases hn : p.n ≠ (normalCount (if height ≥ c.dposCrossChain then l.arbitrators else l.crc) : Int)
    · rw [if_pos hn] at hp; cases hp
    · rw [if_neg hn] at hp
      by_cases hm : p.m < ((if height ≥ c.dposCrossChain then c.normalCount + 1 else c.crAgreement : Nat) : Int)
      · rw [if_pos hm] at hp; cases hp
      · exact ⟨Classical.not_not.1 hn, by omega⟩
  unfold specialCheck at h
  split at h
  · cases h
  · intro p hp
    rcases hv with hv | hv
    · simp only [hv, ↓reduceIte] at h
      unfold checkV0 at h
      split at h
      · cases h
      · split at h
        · cases h
        · have hp0 := firstErr_none h p hp
          unfold checkProgV0 at hp0
          split at hp0
          · cases hp0
          · rename_i hparse
            split at hp0
            · cases hp0
            · rename_i hfirst
              obtain ⟨a1, a2, a3⟩ := harb p.keys hp0
              refine ⟨by simpa using hparse, a1, a2, a3, ?_, ?_⟩
              · intro hcase
                have hge : height ≥ c.crClaimStart := by
                  rcases hcase with hc | hc
                  · rw [hv] at hc; cases hc
                  · exact hc
                simp only [hge, ↓reduceIte] at hfirst
                exact hset p hfirst
              · intro ⟨_, hlt⟩
                have hnge : ¬ height ≥ c.crClaimStart := by omega
                simp only [hnge, ↓reduceIte] at hfirst
                split at hfirst
                · cases hfirst
                · rename_i hcond
                  omega
    · have h10 : ¬ (1 = 0) := by decide
      simp only [hv, h10, ↓reduceIte] at h
      unfold checkV1 at h
      split at h
      · cases h
      · split at h
        · cases h
        · have hp0 := firstErr_none h p hp
          unfold checkProgV1 at hp0
          split at hp0
          · cases hp0
          · rename_i hparse
            split at hp0
            · cases hp0
            · rename_i hfirst
              obtain ⟨a1, a2, a3⟩ := harb p.keys hp0
              refine ⟨by simpa using hparse, a1, a2, a3, fun _ => hset p hfirst, ?_⟩
              intro ⟨hc, _⟩; rw [hv] at hc; cases hc

/-- **Single use, V0 and V1**: a withdrawal that records a side-chain transaction hash already recorded
    on the active chain is rejected. -/
theorem C33_single_use_partial (c : Cfg) (l : Ledger) (height : Nat) (t : Tx) (hv : t.pver = 0 ∨ t.pver = 1)
    (x : Nat) (hx : x ∈ recorded t) (hw : x ∈ l.withdrawn) : specialCheck c l height t ≠ none := by
  intro h
  unfold specialCheck at h
  split at h
  · cases h
  · have hany : ∀ hs : List Nat, x ∈ hs → hs.any (l.withdrawn.contains ·) = true := by
      intro hs hm
      exact List.any_eq_true.2 ⟨x, hm, by simpa using hw⟩
    rcases hv with hv | hv
    · simp only [hv, ↓reduceIte] at h
      unfold recorded at hx
      simp only [hv, ↓reduceIte] at hx
      unfold checkV0 at h
      rw [hany _ hx] at h
      simp at h
    · have h10 : ¬ (1 = 0) := by decide
      simp only [hv, h10, ↓reduceIte] at h
      unfold recorded at hx
      simp only [hv, h10, ↓reduceIte, true_or] at hx
      unfold checkV1 at h
      rw [hany _ hx] at h
      simp at h

/-- **Single use is false for V2** (known finding C33-v2-no-store-lookup): the Schnorr branch never
    consults the store; the accepted withdrawal above records hash 1 — already recorded. -/
theorem C33_single_use_v2_false :
    ¬ ∀ (c : Cfg) (l : Ledger) (height : Nat) (t : Tx) (x : Nat),
        x ∈ recorded t → x ∈ l.withdrawn → specialCheck c l height t ≠ none := by
  intro h
  exact h ⟨100, 10, 20, 30, 2, 2, 2⟩ ⟨[], [], [⟨5, true⟩, ⟨7, true⟩, ⟨11, true⟩], 3, 1, [1]⟩ 50
    ⟨2, [], [1], [0, 2], [true], [⟨false, 0, 0, [], true, 16⟩]⟩ 1 (by decide) (by decide) (by decide)

/-- **Payload versions other than 0, 1, 2 are not checked at all** up to `SchnorrStartHeight` (known
    finding C33-unknown-payload-version): non-cross-chain inputs, no programs, nothing recorded. -/
theorem C33_unknown_version_unchecked_witness :
    specialCheck ⟨100, 10, 20, 30, 2, 2, 2⟩ ⟨[], [], [⟨5, true⟩], 1, 0, []⟩ 50 ⟨3, [], [7], [], [false], []⟩ = none ∧
    recorded ⟨3, [], [7], [], [false], []⟩ = [] := by decide

/-- in-transaction and in-block duplicates: refused for V0 (hashes in the payload) … -/
theorem C33_in_block_single_use_partial (txs : List Tx) (hv : ∀ t ∈ txs, t.pver = 0) (h : blockCheck txs = true) :
    (txs.flatMap recorded).Nodup := by
  have this : ∀ txs : List Tx, (∀ t ∈ txs, t.pver = 0) →
      txs.flatMap recorded = txs.flatMap (·.payloadHashes) := by
    intro txs
    induction txs with
    | nil => intro _; rfl
    | cons a l ih =>
      intro hv
      simp only [List.flatMap_cons]
      rw [ih (fun t ht => hv t (List.mem_cons_of_mem _ ht))]
      simp [recorded, hv a List.mem_cons_self]
  rw [this txs hv]
  simpa [blockCheck] using h

/-- … but not seen for V1/V2, whose hashes live in outputs (known finding C33-output-hash-duplicates):
    one V1 withdrawal recording the same hash twice passes both sanity tests. -/
theorem C33_in_block_single_use_false :
    ¬ ∀ txs : List Tx, (∀ t ∈ txs, payloadCheck t = true) → blockCheck txs = true → (txs.flatMap recorded).Nodup := by
  intro h
  have := h [⟨1, [], [4, 4], [], [true], []⟩] (by decide) (by decide)
  revert this; decide

/-- connecting a block records **every** hash of **every** withdrawal in it (batched withdrawals
    included) … -/
theorem C33_saved_hashes_recorded (wd : List Nat) (txs : List Tx) :
    (∀ x ∈ wd, x ∈ saveBlock wd txs) ∧ ∀ t ∈ txs, ∀ x ∈ recorded t, x ∈ saveBlock wd txs := by
  unfold saveBlock
  induction txs generalizing wd with
  | nil => exact ⟨fun x hx => hx, fun t ht => by cases ht⟩
  | cons a l ih =>
    simp only [List.foldl_cons]
    obtain ⟨h1, h2⟩ := ih (recorded a ++ wd)
    refine ⟨fun x hx => h1 x (List.mem_append.2 (Or.inr hx)), ?_⟩
    intro t ht x hx
    rcases List.mem_cons.1 ht with rfl | ht
    · exact h1 x (List.mem_append.2 (Or.inl hx))
    · exact h2 t ht x hx

/-- … so a later V0/V1 withdrawal naming any hash of a connected (batched) withdrawal is refused. -/
theorem C33_single_use_after_save (c : Cfg) (l : Ledger) (height : Nat) (block : List Tx) (t t' : Tx)
    (ht : t ∈ block) (x : Nat) (hx : x ∈ recorded t) (hv : t'.pver = 0 ∨ t'.pver = 1) (hx' : x ∈ recorded t') :
    specialCheck c { l with withdrawn := saveBlock l.withdrawn block } height t' ≠ none :=
  C33_single_use_partial c _ height t' hv x hx' ((C33_saved_hashes_recorded l.withdrawn block).2 t ht x hx)

/-- disconnecting a block forgets exactly its hashes (when they were new) -/
theorem C33_rollback_restores (wd : List Nat) (txs : List Tx)
    (hfresh : ∀ t ∈ txs, ∀ x ∈ recorded t, x ∉ wd) (x : Nat) :
    x ∈ rollbackBlock (saveBlock wd txs) txs ↔ x ∈ wd := by
  have hroll : ∀ (txs : List Tx) (w : List Nat), x ∈ rollbackBlock w txs ↔ x ∈ w ∧ ∀ t ∈ txs, x ∉ recorded t := by
    intro txs
    induction txs with
    | nil => intro w; simp [rollbackBlock]
    | cons a l ih =>
      intro w
      unfold rollbackBlock at ih ⊢
      simp only [List.foldl_cons]
      rw [ih]
      simp only [List.mem_filter, List.mem_cons, forall_eq_or_imp, Bool.not_eq_true', List.contains_eq_mem,
        decide_eq_false_iff_not]
      constructor
      · rintro ⟨⟨h1, h2⟩, h3⟩; exact ⟨h1, h2, h3⟩
      · rintro ⟨h1, h2, h3⟩; exact ⟨⟨h1, h2⟩, h3⟩
  have hsave : ∀ (txs : List Tx) (w : List Nat), x ∈ saveBlock w txs ↔ x ∈ w ∨ ∃ t ∈ txs, x ∈ recorded t := by
    intro txs
    induction txs with
    | nil => intro w; simp [saveBlock]
    | cons a l ih =>
      intro w
      unfold saveBlock at ih ⊢
      simp only [List.foldl_cons]
      rw [ih]
      simp only [List.mem_append, List.mem_cons, exists_eq_or_imp]
      constructor
      · rintro ((h | h) | h)
        · exact Or.inr (Or.inl h)
        · exact Or.inl h
        · exact Or.inr (Or.inr h)
      · rintro (h | h | h)
        · exact Or.inl (Or.inr h)
        · exact Or.inl (Or.inl h)
        · exact Or.inr h
  rw [hroll, hsave]
  constructor
  · rintro ⟨h1 | ⟨t, ht, hxt⟩, h2⟩
    · exact h1
    · exact absurd hxt (h2 t ht)
  · intro h
    exact ⟨Or.inl h, fun t ht hxt => hfresh t ht x hxt h⟩

example : (runHist ([], []) [.save [⟨1, [], [1, 2, 3], [], [true], []⟩, ⟨0, [4, 5], [], [], [true], []⟩], .save [⟨2, [], [6], [], [true], []⟩], .rollback]).1
    = [4, 5, 1, 2, 3] := by decide

/-- **Single use inside the mempool**: whatever is submitted, two withdrawals held together never record
    the same side-chain hash (payload versions 0, 1, 2 — the slot key function reads the hashes where each
    version keeps them). -/
theorem C33_pool_single_use (txs : List Tx) (hv : ∀ t ∈ txs, t.pver = 0 ∨ t.pver = 1 ∨ t.pver = 2) :
    (txs.foldl poolAdd ([], [])).2.Pairwise (fun a b => ∀ x ∈ recorded a, x ∉ recorded b) := by
  have hk : ∀ t : Tx, (t.pver = 0 ∨ t.pver = 1 ∨ t.pver = 2) → poolKeys t = recorded t := by
    intro t h
    unfold poolKeys recorded
    rcases h with h | h | h <;> simp [h]
  have key : ∀ (txs : List Tx) (st : List Nat × List Tx), (∀ t ∈ txs, t.pver = 0 ∨ t.pver = 1 ∨ t.pver = 2) →
      (∀ b ∈ st.2, ∀ x ∈ recorded b, x ∈ st.1) →
      st.2.Pairwise (fun a b => ∀ x ∈ recorded a, x ∉ recorded b) →
      (txs.foldl poolAdd st).2.Pairwise (fun a b => ∀ x ∈ recorded a, x ∉ recorded b) := by
    intro txs
    induction txs with
    | nil => intro st _ _ hp; exact hp
    | cons t rest ih =>
      intro st hv hsub hp
      simp only [List.foldl_cons]
      have hvt := hv t List.mem_cons_self
      apply ih _ (fun u hu => hv u (List.mem_cons_of_mem _ hu))
      · unfold poolAdd
        split
        · exact hsub
        · intro b hb x hx
          simp only at hb ⊢
          rcases List.mem_cons.1 hb with rfl | hb
          · exact List.mem_append.2 (Or.inl (by rw [hk b hvt]; exact hx))
          · exact List.mem_append.2 (Or.inr (hsub b hb x hx))
      · unfold poolAdd
        split
        · exact hp
        · rename_i hany
          simp only
          apply List.Pairwise.cons _ hp
          intro b hb x hx hxb
          apply hany
          apply List.any_eq_true.2
          refine ⟨x, by rw [hk t hvt]; exact hx, ?_⟩
          simpa using hsub b hb x hxb
  exact key txs ([], []) hv (by intro b hb; cases hb) List.Pairwise.nil

example : ((([⟨1, [], [1, 2], [], [true], []⟩, ⟨1, [], [2], [], [true], []⟩, ⟨2, [], [3], [], [true], []⟩] : List Tx).foldl
    poolAdd ([], [])).2.map (·.outputHashes)) = [[3], [1, 2]] := by decide

/-- Tie to the index model of C13 (`ElaVerif/Model/Index.lean`, whose connect/disconnect theorems cover the
    save and rollback processors): the hashes this model says a withdrawal records are exactly the hashes
    C13's `saveTx` / `rollbackTx` put into / delete from the Tx3 index. -/
def toIndexTx (t : Tx) : ElaVerif.Index.Tx :=
  { id := 0, kind := .withdraw, pver := t.pver, ins := [],
    outs := t.outputHashes.map (fun h => { addr := 0, value := 0, wd := some h }),
    phashes := t.payloadHashes }

theorem C33_recorded_eq_C13_wdHashes (t : Tx) : ElaVerif.Index.wdHashes (toIndexTx t) = recorded t := by
  unfold ElaVerif.Index.wdHashes recorded toIndexTx
  simp only [List.filterMap_map]
  split
  · rfl
  · split
    · induction t.outputHashes with
      | nil => rfl
      | cons a l ih => simp [List.filterMap, ih]
    · rfl

/-- after `SchnorrStartHeight` only V2 is accepted -/
theorem C33_only_schnorr_after_start (c : Cfg) (l : Ledger) (height : Nat) (t : Tx)
    (hh : height > c.schnorrStart) (h : specialCheck c l height t = none) : t.pver = 2 := by
  unfold specialCheck at h
  split at h
  · cases h
  · rename_i hn
    apply Classical.byContradiction
    intro hne
    exact hn ⟨hh, hne⟩

example : specialCheck ⟨100, 10, 20, 30, 2, 2, 2⟩ ⟨[⟨5, true⟩, ⟨7, true⟩], [], [⟨5, true⟩, ⟨7, true⟩], 2, 1, [9]⟩ 25
    ⟨1, [], [3], [], [true, true], [⟨true, 3, 2, [7, 5], false, 0⟩]⟩ = none := by decide

/-- the matching loop only ever counts script keys that signed, each once -/
theorem matchSigs_spec (keys : List Nat) (sigs : List (Option Nat)) : ∀ (v w : List Nat),
    matchSigs keys sigs v = some w → v.Nodup →
    (∀ k ∈ v, k ∈ keys ∧ (some k ∈ sigs ∨ k ∈ v)) →
    w.Nodup ∧ ∀ k ∈ w, k ∈ keys ∧ (some k ∈ sigs ∨ k ∈ v) := by
  induction sigs with
  | nil => intro v w h hn hv; simp [matchSigs] at h; subst h; exact ⟨hn, hv⟩
  | cons s r ih =>
    intro v w h hn hv
    cases s with
    | none =>
      simp only [matchSigs] at h
      have := ih v w h hn (fun k hk => ⟨(hv k hk).1, Or.inr hk⟩)
      exact ⟨this.1, fun k hk => ⟨(this.2 k hk).1, (this.2 k hk).2.elim (fun h => Or.inl (List.mem_cons_of_mem _ h)) Or.inr⟩⟩
    | some k0 =>
      simp only [matchSigs] at h
      split at h
      · rename_i hin
        split at h
        · cases h
        · rename_i hnv
          have hk0 : k0 ∈ keys := by simpa using hin
          have hnv' : k0 ∉ v := by simpa using hnv
          have := ih (k0 :: v) w h (List.nodup_cons.mpr ⟨hnv', hn⟩)
            (fun k hk => by
              rcases List.mem_cons.mp hk with rfl | hk
              · exact ⟨hk0, Or.inr (List.mem_cons_self ..)⟩
              · exact ⟨(hv k hk).1, Or.inr (List.mem_cons_of_mem _ hk)⟩)
          refine ⟨this.1, fun k hk => ⟨(this.2 k hk).1, ?_⟩⟩
          rcases (this.2 k hk).2 with h1 | h1
          · exact Or.inl (List.mem_cons_of_mem _ h1)
          · rcases List.mem_cons.mp h1 with rfl | h1
            · exact Or.inl (List.mem_cons_self ..)
            · exact Or.inr h1
      · have := ih v w h hn (fun k hk => ⟨(hv k hk).1, Or.inr hk⟩)
        exact ⟨this.1, fun k hk => ⟨(this.2 k hk).1, (this.2 k hk).2.elim (fun h => Or.inl (List.mem_cons_of_mem _ h)) Or.inr⟩⟩

/-- **The quorum counts arbiters, not signatures**: when the multisig verifier behind `RunPrograms` accepts a
    V0/V1 witness, at least `m` pairwise distinct keys of the script have each signed. -/
theorem C33_multisig_distinct_signers (m n : Nat) (keys : List Nat) (sigs : List (Option Nat)) (v : List Nat)
    (h : verifyMultisig m n keys sigs = some v) :
    v.Nodup ∧ (∀ k ∈ v, k ∈ keys ∧ some k ∈ sigs) ∧ v.length ≥ m ∧ keys.length = n := by
  unfold verifyMultisig at h
  split at h; · cases h
  rename_i hlen
  split at h; · cases h
  split at h; · cases h
  split at h; · cases h
  rename_i w hm
  split at h; · cases h
  rename_i hge
  cases h
  have := matchSigs_spec keys sigs [] v hm List.nodup_nil (by intro k hk; cases hk)
  refine ⟨this.1, fun k hk => ⟨(this.2 k hk).1, ?_⟩, by omega, by simpa using hlen⟩
  rcases (this.2 k hk).2 with h1 | h1
  · exact h1
  · cases h1

/-- **More than two thirds (V0, legacy era)**: with the majority count of the real dpos state, an accepted
    payload-version-0 withdrawal below `CRClaimDPOSNodeStartHeight` carries scripts that ask for more than two
    thirds of the cross-chain arbiters. -/
theorem C33_v0_legacy_two_thirds (c : Cfg) (l : Ledger) (height : Nat) (t : Tx) (hv : t.pver = 0)
    (hera : height < c.crClaimStart) (hmaj : l.crossMajority = realMajority l.crossCount)
    (h : specialCheck c l height t = none) :
    ∀ p ∈ t.progs, 3 * p.m > 2 * p.n ∧ p.n = (l.crossCount : Int) := by
  intro p hp
  have := (C33_v01_quorum c l height t (Or.inl hv) h p hp).2.2.2.2.2 ⟨hv, hera⟩
  obtain ⟨_, _, hn, hm⟩ := this
  rw [hmaj] at hm
  unfold realMajority at hm
  refine ⟨?_, hn⟩
  rw [hn]
  omega

end ElaVerif.C33
