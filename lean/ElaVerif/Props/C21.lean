import ElaVerif.Model.History
import ElaVerif.Model.Sites
import ElaVerif.Lemmas.History
import ElaVerif.Lemmas.Sites
import ElaVerif.Gen.C21
/-!
# C21 — DPoS state after a rollback equals the state built directly (**partial**)

Full statement (not proved, and false on the current tree — see the known findings
`C21-*` replayed from corpus/C21 on the real `dpos/state.State`):
*for every block sequence, `RollbackTo(h)` gives exactly the state of processing only the blocks
up to `h`*.

What is proved:

* `C21_generic` — for the model of `utils.History` (C20) over an abstract location store: if every
  block consists of instances of well-paired sites (the execute closure writes only inside a set
  `W`, the rollback closure restores every location of `W` to the value captured on the pre-block
  state), then `RollbackTo(h)` within capacity leaves exactly the replay of the blocks `≤ h`.
* `C21_gen_unclassified` — over the regenerated table of **all** `History.Append` sites of
  `dpos/state`, the sites that are *not* syntactically well paired (writes(do) restored by a
  captured value / opposite delta / delete–insert pair, opaque calls paired through the reviewed
  table below) are exactly the listed ones.  These are the assumptions of the partial claim; five
  of them are confirmed defects (known findings).
* `C21_gen_mixed` — the only field undone by a delta in one site and by an absolute restore in
  another is `DPoSV2RewardInfo[]` (the mixture of C20's forward-order counterexample).
-/
namespace ElaVerif.C21
open ElaVerif.History ElaVerif.Sites

/-- reviewed table of (execute callee, rollback callee) pairs, as character codes (the kernel does
    not evaluate `String` functions); that each pair is a semantic inverse is an assumption — the
    pairs with `tryRevertInactivity` and `revertSettingInactiveProducer` are refuted by known findings. -/
def pairTable : List (Txt × Txt) :=
  [([115,46,115,101,116,73,110,97,99,116,105,118,101,80,114,111,100,117,99,101,114], [115,46,114,101,118,101,114,116,83,101,116,116,105,110,103,73,110,97,99,116,105,118,101,80,114,111,100,117,99,101,114]) /- s.setInactiveProducer / s.revertSettingInactiveProducer -/,
   ([115,46,116,114,121,85,112,100,97,116,101,67,82,77,101,109,98,101,114,73,108,108,101,103,97,108], [115,46,116,114,121,82,101,118,101,114,116,67,82,77,101,109,98,101,114,73,108,108,101,103,97,108]) /- s.tryUpdateCRMemberIllegal / s.tryRevertCRMemberIllegal -/,
   ([115,46,117,112,100,97,116,101,67,82,73,110,97,99,116,105,118,101,80,101,110,97,108,116,121], [115,46,114,101,118,101,114,116,85,112,100,97,116,101,67,82,73,110,97,99,116,105,118,101,80,101,110,97,108,116,121]) /- s.updateCRInactivePenalty / s.revertUpdateCRInactivePenalty -/,
   ([115,46,116,114,121,85,112,100,97,116,101,73,110,97,99,116,105,118,105,116,121,86,50], [115,46,116,114,121,82,101,118,101,114,116,73,110,97,99,116,105,118,105,116,121]) /- s.tryUpdateInactivityV2 / s.tryRevertInactivity -/,
   ([115,46,116,114,121,85,112,100,97,116,101,67,82,77,101,109,98,101,114,73,110,97,99,116,105,118,105,116,121], [115,46,116,114,121,82,101,118,101,114,116,67,82,77,101,109,98,101,114,73,110,97,99,116,105,118,105,116,121]) /- s.tryUpdateCRMemberInactivity / s.tryRevertCRMemberInactivity -/,
   ([115,46,116,114,121,85,112,100,97,116,101,73,110,97,99,116,105,118,105,116,121], [115,46,116,114,121,82,101,118,101,114,116,73,110,97,99,116,105,118,105,116,121]) /- s.tryUpdateInactivity / s.tryRevertInactivity -/,
   ([115,46,117,112,100,97,116,101,80,114,111,100,117,99,101,114,73,110,102,111], [115,46,117,112,100,97,116,101,80,114,111,100,117,99,101,114,73,110,102,111]) /- s.updateProducerInfo / s.updateProducerInfo -/]

/-- indices (into the regenerated table `Gen.C21.nsites`, sorted by file and line) of the sites that
    are not syntactically well paired: the assumption list.  Names and file:line are in the comment
    of each `s<i>` in `Gen/C21.lean` and in notes/C21.md:
    12-15,17 Arbiters.UpdateNextArbitrators#2..5,#7 · 22 State.tryRevertToPOWByStateOfCRMember#0 ·
    27,28,31,32,33 State.processTransactions#0,#1,#4,#5,#6 · 36 State.cancelProducer#0 ·
    37 State.activateProducer#0 · 45 State.processVotingContent#4 · 52 State.returnDeposit#0 ·
    56 State.processRevertToPOW#0 · 61 State.processCreateNFT#0 · 67 State.processNFTDestroyFromSideChain#1 ·
    70-73 State.processIllegalEvidence#1..4 · 74-77 State.countArbitratorsInactivityV3#0..3 ·
    78 State.updateCRMemberInactiveCountV2#0 · 90 State.tryUpdateLastIrreversibleHeight#2 ·
    since captures must read the restored location: 11 Arbiters.UpdateNextArbitrators#1 (arbitrators.go:2309: the rollback
    writes `oriHeight := height` into DPoSV2ActiveHeight instead of the old value math.MaxUint32 — a defect, recorded as
    C21-dposv2-active-height) · 60 State.processRetVotesRewardRealWithdraw#0 (state.go:2677) ·
    62 State.processDposV2ClaimRewardRealWithdraw#0 (state.go:2753) -/
def expectedUnclassified : List Nat :=
  [11, 12, 13, 14, 15, 17, 22, 27, 28, 31, 32, 33, 36, 37, 45, 52, 56, 60, 61, 62, 67, 70, 71, 72, 73, 74, 75, 76, 77, 78, 90]

/-- T-gen, total over the source: every `History.Append` site of dpos/state is syntactically well
    paired except exactly the listed ones. -/
theorem C21_gen_unclassified : nunclassified pairTable Gen.C21.nsites = expectedUnclassified := by
  decide +kernel

/-- T-gen: every site passes two function literals (no closure is built elsewhere). -/
theorem C21_gen_literals : Gen.C21.nsites.all (fun s => s.lit) = true := by decide +kernel

/-- T-gen: the only field with both a relative and an absolute undo is `DPoSV2RewardInfo[]`. -/
theorem C21_gen_mixed : nmixedFields Gen.C21.nsites =
    [[68, 80, 111, 83, 86, 50, 82, 101, 119, 97, 114, 100, 73, 110, 102, 111, 91, 93]] := by decide +kernel

/-- T-gen: fingerprints (FNV-1a mod 1000000007) of the printed source of the execute / rollback
    closures of every `History.Append` site, in table order.
    **Scope, stated plainly:** this lemma is a tripwire, not a semantic check.  It fires on ANY edit
    inside a closure — a changed guard, a dropped or altered restore, but equally a pure rename or a
    reformatting that changes the printed text.  When it fires and the real-state harness finds no
    rollback≠direct history, `./check` reports `VIOLATION … no-failing-input-found`, which is the
    documented outcome for a (possibly harmless) rewrite: the edited site has to be reviewed and the
    expected list regenerated.  Finding a concrete failing history is the job of the harness
    (harness/cmd/c21), which replays corpus witnesses for the known change shapes first. -/
theorem C21_gen_closure_sigs : Gen.C21.nsites.map (·.sig) =
    [466884392, 795374539, 21859275, 50272419, 455696404, 764441253, 524937487, 619697803, 458577702, 386935145, 535813993, 885981287, 444058895, 172300378, 767631593, 782771734, 7556571, 299313599, 848691336, 545815731, 89238560, 431630024, 778016745, 514334579, 612670621, 488902839, 425252391, 513055951, 678024087, 205000059, 767430220, 36369494, 597050411, 520716555, 951884585, 188066533, 930593026, 22641283, 4494442, 4494442, 653478945, 180212798, 522739302, 198460818, 989201915, 941041163, 259687795, 887435623, 265794355, 490525033, 555195813, 639849528, 40892204, 137127415, 480743410, 973465280, 743604476, 456810378, 566789528, 959488150, 686428609, 531425231, 900874924, 692000778, 168296095, 473929906, 42004683, 398187897, 521177749, 62318329, 602812895, 776490465, 720360759, 538922687, 102607594, 769134116, 676685049, 941624431, 802556011, 463639215, 528297021, 583503412, 767509337, 636673794, 767509337, 636673794, 15493165, 15493165, 516455517, 965046069, 666280659] := by decide +kernel

/-- reviewed allow-list: (function, field) pairs that assign a field of the snapshot structs OUTSIDE every
    `History.Append` closure in code reachable from State/Arbiters.ProcessBlock, ProcessSpecialTxPayload (calls followed by name inside
    the package, only along calls that are themselves outside closures).  Each entry is a write that a
    rollback does not undo; the comments say which are confirmed findings. -/
def allowedOutsideWrites : List (Txt × Txt) :=
  [([65,114,98,105,116,101,114,115,46,103,101,116,83,111,114,116,101,100,80,114,111,100,117,99,101,114,115,87,105,116,104,82,97,110,100,111,109], [76,97,115,116,82,97,110,100,111,109,67,97,110,100,105,100,97,116,101,72,101,105,103,104,116]) /- Arbiters.getSortedProducersWithRandom .LastRandomCandidateHeight — random-candidate bookkeeping (DPoS 2.0) written while choosing arbiters: NOT restored by a rollback (DESIGN §8 row 10), not reached by the harness -/,
   ([65,114,98,105,116,101,114,115,46,103,101,116,83,111,114,116,101,100,80,114,111,100,117,99,101,114,115,87,105,116,104,82,97,110,100,111,109], [76,97,115,116,82,97,110,100,111,109,67,97,110,100,105,100,97,116,101,79,119,110,101,114]) /- Arbiters.getSortedProducersWithRandom .LastRandomCandidateOwner — same -/,
   ([83,116,97,116,101,46,99,111,117,110,116,65,114,98,105,116,114,97,116,111,114,115,73,110,97,99,116,105,118,105,116,121,86,48], [80,114,101,66,108,111,99,107,65,114,98,105,116,101,114,115]) /- State.countArbitratorsInactivityV0 .PreBlockArbiters — known finding C21-preblock-arbiters-* -/,
   ([83,116,97,116,101,46,112,114,111,99,101,115,115,67,114,101,97,116,101,78,70,84], [78,70,84,73,68,73,110,102,111,72,97,115,104,77,97,112]) /- State.processCreateNFT .NFTIDInfoHashMap — NFT id map written before the Append of processCreateNFT: not restored; not reached by the harness (CreateNFT txs are not generated) -/,
   ([83,116,97,116,101,46,112,114,111,99,101,115,115,68,101,112,111,115,105,116], [68,101,112,111,115,105,116,79,117,116,112,117,116,115]) /- State.processDeposit .DepositOutputs — deposit outputs index written outside the history (cf. C22-deposit-outputs-outside-history); register txs of the harness carry no deposit outputs -/,
   ([100,101,103,114,97,100,97,116,105,111,110,46,73,110,97,99,116,105,118,101,77,111,100,101,83,119,105,116,99,104], [115,116,97,116,101]) /- degradation.InactiveModeSwitch .state — field-name collision: `degradation.state`, an object with its own RollbackTo, not a snapshot field -/,
   ([100,101,103,114,97,100,97,116,105,111,110,46,82,101,115,101,116], [115,116,97,116,101]) /- degradation.Reset .state — same -/,
   ([100,101,103,114,97,100,97,116,105,111,110,46,84,114,121,83,101,116,85,110,100,101,114,115,116,97,102,102,101,100], [115,116,97,116,101]) /- degradation.TrySetUnderstaffed .state — same -/]

/-- T-gen `NoWritesOutside`: the regenerated list of outside-closure writes to snapshot fields is exactly the
    reviewed list — a new direct write to snapshot state in the block-processing path breaks this lemma. -/
theorem C21_gen_no_writes_outside : Gen.C21.outsideWrites = allowedOutsideWrites := by decide +kernel

/-- T-gen: fields undone through more than one History object (`a.History` of Arbiters and `s.History` of State).
    `Arbiters.RollbackTo` rolls `a.History` back completely before `s.History`, so changes to these fields at
    different heights are not undone in reverse order (known finding C21-arbiters-noproducers for `NoProducers`). -/
theorem C21_gen_shared_fields : nsharedFields Gen.C21.nsites =
    [[78,111,80,114,111,100,117,99,101,114,115], [68,80,111,83,86,50,82,101,119,97,114,100,73,110,102,111,91,93], [78,101,101,100,78,101,120,116,84,117,114,110,68,80,79,83,73,110,102,111]] := by decide +kernel

/-- T-gen: `Arbiters.ProcessBlock` runs the State part of a block first (`a.State.ProcessBlock`, committing
    `s.History`) and the arbiter part second (`a.IncreaseChainHeight`, committing `a.History`), and
    `Arbiters.RollbackTo` undoes them in the opposite order: `a.History` before `a.State`.  For a field both
    layers write inside ONE block (e.g. `NeedNextTurnDPOSInfo`, see `C21_gen_shared_fields`) the arbiter's captured
    value is the one after the State part, so it has to be restored first.  (Across several heights this order is
    still wrong — known finding C21-arbiters-noproducers; node callers roll back one block per call.) -/
theorem C21_gen_arbiters_order :
    Gen.C21.arbProcessOrder = [[97,46,83,116,97,116,101,46,80,114,111,99,101,115,115,66,108,111,99,107], [97,46,73,110,99,114,101,97,115,101,67,104,97,105,110,72,101,105,103,104,116]] ∧
    Gen.C21.arbRollbackOrder = [[97,46,72,105,115,116,111,114,121], [97,46,100,101,103,114,97,100,97,116,105,111,110], [97,46,83,116,97,116,101]] := by decide +kernel

/-- **Generic theorem (rollback = direct build for well-paired sites).**  On a history that
    represents `chain` (`Good`, reachable by `C20_block_good`), if every block of the chain consists
    of well-paired site instances whose captures were taken on the pre-block state, `RollbackTo h`
    within the stored capacity yields exactly the replay of the blocks `≤ h`, and the history again
    represents that shorter chain. -/
theorem C21_generic {L V : Type} [DecidableEq L] {cap : Nat} {H : History (L → V)} {s : L → V}
    {chain : List (HeightChanges (L → V))} {s0 : L → V}
    (g : Good cap H s chain s0) (h : Nat) (hlt : h < H.height)
    (hd : depth h chain ≤ H.changes.length)
    (hsites : ∀ pre b post, chain = pre ++ b :: post →
        ∃ scs : List (SiteChange L V), b = ⟨b.height, scs.map (SiteChange.toChange (run pre s0))⟩) :
    (rollbackTo H s h).2 = run (upTo h chain) s0 ∧
    Good cap (rollbackTo H s h).1 (rollbackTo H s h).2 (upTo h chain) s0 := by
  have hinv : InvAbove h chain s0 := by
    intro pre b post e _
    obtain ⟨scs, hb⟩ := hsites pre b post e
    rw [hb]; exact sites_block_inv _ _ scs
  obtain ⟨g', _, _⟩ := rollbackTo_good g h hlt hd hinv
  exact ⟨g'.state, g'⟩

/-- non-vacuity: a one-location site instance (write 7 to location 0 of a `Nat → Nat` store) -/
example : ∃ sc : SiteChange Nat Nat, sc.W = [0] ∧ sc.exec (fun _ => 1) 0 = 7 :=
  ⟨⟨[0], fun s l => if l = 0 then 7 else s l, by intro s l hl; simp at hl; simp [hl]⟩, rfl, rfl⟩

end ElaVerif.C21
