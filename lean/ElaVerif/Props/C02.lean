import ElaVerif.Model.Tx
import ElaVerif.Lemmas.Wire
import ElaVerif.Lemmas.Tx
import ElaVerif.Lemmas.WireSchemas
import ElaVerif.Lemmas.WireTokens
import ElaVerif.Gen.C02
import ElaVerif.Model.P2PFrame
/-!
# C02 — decoding untrusted bytes never panics and allocates at most K·|input| + C

The decoder model `Wire.decodeA` is a total function (there is no partial operation in it: every
read is bounds-checked and returns `none`), so "no panic" is a statement about the one thing a Go
decoder built from common/serialize.go can panic or exhaust memory on: a `make` sized by a count
taken from the wire.  The model carries an *allocation meter* that charges such a `make` before
any element is read, exactly as the Go code does; the theorems bound the meter.
Property theorems only; the induction on the schema is in `Lemmas/Wire.lean`.
-/
namespace ElaVerif.C02
open ElaVerif.Bytes ElaVerif.Wire ElaVerif.WireSchemas ElaVerif.Tx

/-- For every schema whose lists have elements of at least one byte and whose pre-sized lists have a
    count limit, on **every** input the reader allocates at most `dens·|input| + slack`. -/
theorem C02_alloc_bound (ty : Ty) (bs : Bytes) (hb : bounded ty = true) :
    (decodeA ty bs).alloc ≤ dens ty * bs.length + slack ty :=
  alloc_bound ty bs hb

/-- A successful read consumes at least `minSize` bytes and hands back a suffix of its input:
    a list of `n` elements cannot be accepted from fewer than `n` bytes. -/
theorem C02_consumes (ty : Ty) (bs : Bytes) (v : Val) (rest : Bytes) (hb : bounded ty = true)
    (h : (decodeA ty bs).res = some (v, rest)) : rest.length + minSize ty ≤ bs.length :=
  decode_minSize ty bs v rest hb h

/-- A successful read allocated at most `dens` bytes per byte it consumed (no additive constant). -/
theorem C02_alloc_success (ty : Ty) (bs : Bytes) (v : Val) (rest : Bytes) (hb : bounded ty = true)
    (h : (decodeA ty bs).res = some (v, rest)) :
    (decodeA ty bs).alloc + dens ty * rest.length ≤ dens ty * bs.length := by
  obtain ⟨c, a1, _, a3⟩ := (alloc_good ty (dens ty) bs hb (Nat.le_refl _)).1 v rest h
  rw [a1, Nat.mul_add]; omega

/-- The transaction reader (`GetTransactionByBytes` + `Deserialize`), for every covered type,
    transaction version and payload version: at most `548·|input| + 40 MiB` on every input. -/
theorem C02_tx_alloc_bound (bs : Bytes) :
    (decodeTxA bs).alloc ≤ txDens * bs.length + txSlack := by
  have h := decodeTxA_good txDens txSlack
    (fun ty ver fs hb => body_niceB hb)
    (by decide) (by decide) bs
  cases hr : (decodeTxA bs).res with
  | none => exact h.2 hr
  | some p =>
    obtain ⟨v, rest⟩ := p
    obtain ⟨c, a1, _, a3⟩ := h.1 v rest hr
    have : txDens * c ≤ txDens * bs.length := Nat.mul_le_mul_left _ (by omega)
    omega

/-- The block reader: at most `(512 + 548)·|input| + 40 MiB` on every input. -/
theorem C02_block_alloc_bound (bs : Bytes) :
    (decodeBlockA bs).alloc ≤ (512 + txDens) * bs.length + txSlack := by
  have h := decodeBlockA_good txDens txSlack
    (fun ty ver fs hb => body_niceB hb)
    (by decide) (by decide) (by decide) (by decide) bs
  cases hr : (decodeBlockA bs).res with
  | none => exact h.2 hr
  | some p =>
    obtain ⟨v, rest⟩ := p
    obtain ⟨c, a1, _, a3⟩ := h.1 v rest hr
    have : (512 + txDens) * c ≤ (512 + txDens) * bs.length := Nat.mul_le_mul_left _ (by omega)
    omega

/-! ## per-schema instances (decided on the schema) -/

theorem C02_bounded_schemas :
    bounded attributeTy = true ∧ bounded input = true ∧ bounded program = true ∧
    bounded (output true) = true ∧ bounded (output false) = true ∧ bounded header = true ∧
    bounded confirm = true ∧ bounded inactiveArbitrators = true ∧ bounded dposIllegalBlocks = true ∧
    bounded invMsg = true ∧ bounded getBlocksMsg = true ∧ bounded addrMsg = true ∧
    bounded merkleBlockMsg = true ∧ bounded blockRow = true := by decide

/-- `K` and `C` of the stand-alone schemas -/
theorem C02_constants :
    dens header ≤ 548 ∧ slack header ≤ 41943072 ∧
    dens confirm ≤ 548 ∧ slack confirm ≤ 41943072 ∧
    dens invMsg = 96 ∧ slack invMsg = 48 * 50000 ∧
    dens getBlocksMsg = 48 ∧ slack getBlocksMsg = 48 * 500 ∧
    dens addrMsg = 176 ∧ slack addrMsg = 80 * 1000 := by decide

theorem C02_payloads_bounded (ty : Nat) (f : Nat → Ty) (h : payloadOf ty = .covered f) (pv : Nat) :
    bounded (f pv) = true ∧ dens (f pv) ≤ txDens ∧ slack (f pv) ≤ txSlack :=
  niceB_covered h pv

/-! ## the unfixed decoders (kept as witnesses) -/

/-- 15 bytes: empty sponsor, height 0, then the count `ff ff ff ff ff ff ff ff 7f` -/
def hostile : Bytes := [0, 0, 0, 0, 0, 0xff, 0xff, 0xff, 0xff, 0xff, 0xff, 0xff, 0xff, 0x7f]

/-- `InactiveArbitrators.Deserialize` as it was before the `fix:` (`make([][]byte, count)` with the
    wire count) is not `bounded`, and on a 14-byte input the meter charges more than 2^67 bytes —
    the `makeslice: len out of range` panic replayed on the real code.  The same shape was in
    NextTurnDPOSInfo, BlockEvidence, Confirm, SidechainIllegalData, DetailedVoteInfo. -/
theorem C02_unfixed_witness :
    bounded inactiveArbitratorsUnfixed = false ∧ hostile.length = 14 ∧
    2 ^ 67 < (decodeA inactiveArbitratorsUnfixed hostile).alloc := by decide

/-- the full-strength bound is false for that schema: no `K ≤ 2^60`, `C ≤ 2^60` works -/
theorem C02_unfixed_bound_false :
    ¬ ∃ K C, K ≤ 2 ^ 60 ∧ C ≤ 2 ^ 60 ∧
      ∀ bs, (decodeA inactiveArbitratorsUnfixed bs).alloc ≤ K * bs.length + C := by
  rintro ⟨K, C, hK, hC, h⟩
  have h1 := h hostile
  have h2 := C02_unfixed_witness.2.2
  have h3 : hostile.length = 14 := C02_unfixed_witness.2.1
  rw [h3] at h1
  have : K * 14 ≤ 2 ^ 60 * 14 := Nat.mul_le_mul_right _ hK
  omega

/-- the fixed schema on the same input: an error after allocating nothing -/
example : (decodeA inactiveArbitrators hostile).alloc = 0 ∧ (decodeA inactiveArbitrators hostile).res.isNone = true := by
  decide

/-- non-vacuity of the bound: a transaction that decodes and whose meter is positive -/
example : 0 < (decodeA (lst 128 (.varBytes 33)) [2, 1, 7, 1, 8]).alloc := by decide

/-! ## regenerated facts -/

/-- Every `make` in the covered readers has a constant length: none is sized by a decoded count.
    (The list is regenerated from the source; a new `make([]T, count)` changes it.) -/
theorem C02_gen_makes : Gen.C02.makes.all (fun p => p.2.all fun m => Gen.C02.constMakes.contains m) = true := by
  decide

theorem C02_gen_const_makes :
    Gen.C02.constMakes =
      ["make([]common.Uint256, 0)", "make([][]byte, 0)", "make([]*BtcTxIn, 0)", "make([]*BtcTxOut, 0)",
       "make([]DPOSProposalVote, 0)", "make([]VotesContent, 0)", "make([]RenewalVotesContent, 0)"] := by decide

/-- the four pre-sizing p2p readers: the maxima are the schema's limits, and every `make` sized by a wire
    count comes after an `if <that same variable> > Max { return … }` -/
theorem C02_gen_p2p_limits :
    Gen.C02.p2pLimits = [maxInvPerMsg, maxBlockLocatorsPerMsg, maxAddrPerMsg, maxTxPerBlock] ∧
    Gen.C02.p2pCountMakes.length = 8 ∧ Gen.C02.p2pCountMakes.all (fun p => p.2.2) = true := by decide

/-- token tie for the readers (same lemma as C04, on this property's own regenerated streams) -/
theorem C02_gen_tokens_a :
    (WireTokens.expected.take 20).all (WireTokens.agree Gen.C02.streams) = true := by
  decide +kernel

theorem C02_gen_tokens_b :
    ((WireTokens.expected.drop 20).take 20).all (WireTokens.agree Gen.C02.streams) = true := by
  decide +kernel

theorem C02_gen_tokens_c :
    (WireTokens.expected.drop 40).all (WireTokens.agree Gen.C02.streams) = true := by
  decide +kernel

/-! ## message level: `p2p.ReadMessage` + `CheckAndCreateMessage` (model: `P2PFrame.readMessage`, shared with C35) -/

open ElaVerif.P2PFrame in
theorem lookup_mem {table : List (P2PFrame.Bytes × Nat)} {cmd : P2PFrame.Bytes} {m : Nat}
    (h : lookup table cmd = some m) : (cmd, m) ∈ table := by
  induction table with
  | nil => simp [lookup] at h
  | cons e rest ih =>
    obtain ⟨c, m'⟩ := e
    simp only [lookup] at h
    by_cases hc : c = cmd
    · simp only [hc, if_true, Option.some.injEq] at h
      subst h; subst hc; exact List.mem_cons_self
    · simp only [hc, if_false] at h
      exact List.mem_cons_of_mem _ (ih h)

open ElaVerif.P2PFrame in
/-- The payload buffer `make([]byte, hdr.Length)` is allocated only for a declared length that is at
    most the maximum of the command named in the header: whatever the stream, the reader allocates at
    most the largest per-command maximum, and nothing for an oversize declaration, an unknown
    command, a wrong magic or a bad header. -/
theorem C02_msg_alloc_bound {α : Type} (H : P2PFrame.Bytes → P2PFrame.Bytes)
    (table : List (P2PFrame.Bytes × Nat)) (decode : P2PFrame.Bytes → P2PFrame.Bytes → Option α)
    (magic : Nat) (s : P2PFrame.Bytes) (M : Nat) (hM : ∀ e ∈ table, e.2 ≤ M) :
    (readMessage H table decode magic s).alloc ≤ M := by
  unfold readMessage
  split
  · exact Nat.zero_le _
  · split
    · exact Nat.zero_le _
    · rename_i hdr _
      split
      · exact Nat.zero_le _
      · unfold readBody
        split
        · exact Nat.zero_le _
        · rename_i max hl
          have hmax : max ≤ M := hM _ (lookup_mem hl)
          split
          · exact Nat.zero_le _
          · rename_i hle
            have : hdr.length ≤ M := by omega
            split
            · exact this
            · simp only []
              split
              · exact this
              · split <;> exact this

open ElaVerif.P2PFrame in
/-- an oversize declaration is refused before anything is allocated -/
theorem C02_msg_oversize_allocates_nothing {α : Type} (H : P2PFrame.Bytes → P2PFrame.Bytes)
    (table : List (P2PFrame.Bytes × Nat)) (decode : P2PFrame.Bytes → P2PFrame.Bytes → Option α)
    (hdr : Header) (tail : P2PFrame.Bytes) (max : Nat) (hl : lookup table hdr.getCMD = some max)
    (hbig : max < hdr.length) : (readBody H table decode hdr tail).alloc = 0 := by
  unfold readBody
  simp [hl, hbig]

/-- the guards of `CheckAndCreateMessage` / `CheckAndCreateTxMessage` (regenerated): the declared length
    is compared with the message type's `MaxLength()` alone, before the payload buffer is made -/
theorem C02_gen_msg_guards :
    Gen.C02.msgGuards =
      ["CheckAndCreateMessage: if hdr.Length > message.MaxLength()",
       "CheckAndCreateMessage: guard-before-make true",
       "CheckAndCreateTxMessage: if hdr.Length > txMessage.MaxLength()",
       "CheckAndCreateTxMessage: guard-before-make true"] := by decide

/-- the per-command maxima (asked of the real message types): all at most 80 000 000, and the ones
    above `p2p.MaxMessagePayload` (32 MiB, enforced by `WriteMessage` only) are the two DPoS bulk
    responses — the `C` of the message-level bound is 80 MB on the DPoS network, 18 MB on the main one -/
theorem C02_gen_msg_max :
    (Gen.C02.msgMax_elanet.all fun e => decide (e.2 ≤ 18000000)) = true ∧
    (Gen.C02.msgMax_dpos.all fun e => decide (e.2 ≤ 80000000)) = true ∧
    ((Gen.C02.msgMax_elanet ++ Gen.C02.msgMax_dpos).filter fun e => decide (Gen.C02.maxMessagePayload < e.2)).map (·.1)
      = ["res_blc", "res_con"] := by decide

/-! ## payload codecs of the p2p / DPoS p2p messages (regenerated, fully inlined token streams) -/

/-- the message types whose writer and reader token sequences coincide (25 of 32; the main-net ones that
    decode into a pre-sized array through a pointer — addr, inv, getblocks, merkleblock — and the two
    `Version` messages, which depend on runtime globals, are outside the tokenizer's reach) -/
theorem C02_gen_msg_mirror :
    (Gen.C02.msgStreams.filter WireTokens.mirrors).map (·.name) =
      ["dpos/p2p/msg.Addr", "dpos/p2p/msg.GetBlock", "dpos/p2p/msg.GetBlocks", "dpos/p2p/msg.IllegalProposals",
       "dpos/p2p/msg.IllegalVotes", "dpos/p2p/msg.Inventory", "dpos/p2p/msg.Ping", "dpos/p2p/msg.Pong",
       "dpos/p2p/msg.Proposal", "dpos/p2p/msg.RequestConsensus", "dpos/p2p/msg.RequestProposal", "dpos/p2p/msg.ResetView",
       "dpos/p2p/msg.ResponseBlocks", "dpos/p2p/msg.ResponseConsensus", "dpos/p2p/msg.ResponseInactiveArbitrators",
       "dpos/p2p/msg.ResponseRevertToDPOS", "dpos/p2p/msg.SidechainIllegalData", "dpos/p2p/msg.VerAck", "dpos/p2p/msg.Vote",
       "p2p/msg.FilterAdd", "p2p/msg.FilterLoad", "p2p/msg.Ping", "p2p/msg.Pong", "p2p/msg.Reject", "p2p/msg.TxFilterLoad"] := by decide +kernel

/-- the message types with a fully decodable derived schema (`WireTokens.ofToks`), … -/
theorem C02_gen_msg_derived :
    (Gen.C02.msgStreams.filter fun s => !WireTokens.hasFail (WireTokens.ofToks s.de)).map (·.name) =
      ["dpos/p2p/msg.Addr", "dpos/p2p/msg.GetBlock", "dpos/p2p/msg.GetBlocks", "dpos/p2p/msg.IllegalProposals",
       "dpos/p2p/msg.IllegalVotes", "dpos/p2p/msg.Inventory", "dpos/p2p/msg.Ping", "dpos/p2p/msg.Pong",
       "dpos/p2p/msg.Proposal", "dpos/p2p/msg.RequestConsensus", "dpos/p2p/msg.RequestProposal", "dpos/p2p/msg.ResetView",
       "dpos/p2p/msg.ResponseConsensus", "dpos/p2p/msg.ResponseInactiveArbitrators", "dpos/p2p/msg.ResponseRevertToDPOS",
       "dpos/p2p/msg.SidechainIllegalData", "dpos/p2p/msg.VerAck", "dpos/p2p/msg.Vote", "p2p/msg.DAddr", "p2p/msg.FilterAdd",
       "p2p/msg.FilterLoad", "p2p/msg.Ping", "p2p/msg.Pong", "p2p/msg.Reject", "p2p/msg.TxFilterLoad"] := by decide +kernel

/-- … every one of which is `bounded` with at most 164 bytes allocated per consumed byte: the generic
    bound `C02_alloc_bound` applies to all of them -/
theorem C02_gen_msg_bounded :
    ((Gen.C02.msgStreams.filter fun s => !WireTokens.hasFail (WireTokens.ofToks s.de)).all fun s =>
      bounded (WireTokens.ofToks s.de) && decide (dens (WireTokens.ofToks s.de) ≤ 164)) = true := by
  decide +kernel

/-- the only message readers with a `make` whose size is not the literal 0 are the four main-net
    readers that check the count against a maximum first -/
theorem C02_gen_msg_makes :
    Gen.C02.msgSizedMakes =
      ["p2p/msg.Addr: make([]p2p.NetAddress, count)", "p2p/msg.Addr: make([]*p2p.NetAddress, 0, count)",
       "p2p/msg.GetBlocks: make([]common.Uint256, count)", "p2p/msg.GetBlocks: make([]*common.Uint256, 0, count)",
       "p2p/msg.Inv: make([]InvVect, count)", "p2p/msg.Inv: make([]*InvVect, 0, count)",
       "p2p/msg.MerkleBlock: make([]common.Uint256, numHashes)",
       "p2p/msg.MerkleBlock: make([]*common.Uint256, 0, numHashes)"] := by decide

/-! ## round 4: wrapping size checks, on-disk rows -/

/-- A count check computed as `overhead + count * size > max` in 64-bit unsigned arithmetic (what Go's
    `uint64` does) is NOT a bound on the count: for the `addr` message's numbers (8 + count·42 against a
    42008-byte maximum) the count `⌈2^64 / 42⌉` passes it.  The check the decoder has to make is on the
    count itself (`count > MaxAddrPerMsg`, pinned by `C02_gen_p2p_limits`); the streams carry the
    wrapping counts for every element size 1…128 (`wrapAttack`). -/
theorem C02_wrapping_check_unsound :
    ¬ ∀ count : Nat, count < 2 ^ 64 → (8 + count * 42) % 2 ^ 64 ≤ 42008 → count ≤ 1000 := by
  intro h
  have := h 439208192231179801 (by decide) (by decide)
  omega

/-- whereas without wrap-around the same check does bound the count -/
theorem C02_unwrapped_check_sound (count : Nat) (h : 8 + count * 42 ≤ 42008) : count ≤ 1000 := by
  omega

/-- every wrapping count is far above any limit, so the modelled reader (limit on the count itself)
    refuses it before anything is allocated: a count `c ≥ ⌈2^w / size⌉` with `size ≤ 128` is at least `2^(w-7)` -/
theorem C02_wrapping_counts_large (w size c : Nat) (hs : 0 < size) (hs' : size ≤ 128) (hw : 7 ≤ w)
    (hc : 2 ^ w ≤ c * size) : 2 ^ (w - 7) ≤ c := by
  have h1 : c * size ≤ c * 128 := Nat.mul_le_mul_left c hs'
  have h2 : (2:Nat) ^ w = 2 ^ (w - 7) * 128 := by
    have : w = (w - 7) + 7 := by omega
    conv => lhs; rw [this, Nat.pow_add]
  omega

/-- Regenerated: the decoder of on-disk block index rows (`blockchain.DeserializeBlockRow`) touches its
    byte-slice argument only through a `bytes.Reader` — no direct indexing or slicing of the row, so a
    short (torn) row is answered with an error, as the schema `blockRow` (84-byte header, status byte) says. -/
theorem C02_gen_disk_rows :
    Gen.C02.rawIndexing = [("blockchain.DeserializeBlockRow", [])] := by decide

/-- a block row is accepted only if all 85 bytes are there, and nothing is allocated beyond the fixed fields -/
theorem C02_blockrow_consumes (bs : Bytes) (v : Val) (rest : Bytes)
    (h : (decodeA blockRow bs).res = some (v, rest)) : rest.length + 85 ≤ bs.length := by
  have := decode_minSize blockRow bs v rest (by decide) h
  have e : minSize blockRow = 85 := by decide
  omega

end ElaVerif.C02
