import ElaVerif.Lemmas.BlockStore
import ElaVerif.Model.BlockIds
/-!
# C18 — stored blocks read back byte-for-byte

Model: `ElaVerif/Model/BlockStore.lean` (flat-file records, locations, file
rollover, block index, `FetchBlock`, `FetchBlockRegion`, `scanBlockFiles` +
`reconcileDB` on reopen).  Every theorem holds for an arbitrary checksum
function `crc` with 32-bit results and for every maximum file size `max`
(so in particular for the 64 / 200 / 4096 byte files of the correspondence
run and for the production 64 MiB).
-/
namespace ElaVerif.C18
open ElaVerif.BlockStore

/-- block `d` stored under hash `h` is in the index and its record is in the files -/
def Held (crc : Bytes → Nat) (s : Store) (h d : Bytes) : Prop :=
  ∃ loc, lookup h s.index = some loc ∧ RecAt crc s.net s.files loc d ∧ Before s loc

/-! ## one record: write, then read -/

/-- `writeBlock` followed by `readBlock` at the returned location gives back the
    block, whether or not the write rolled over into a new file. -/
theorem C18_write_read (crc : Bytes → Nat) (hcrc : ∀ b, crc b < 4294967296) (s : Store) (d : Bytes)
    (hw : WF s) (hd : d.length + 12 < 4294967296) (hfile : s.curFile + 1 < 4294967296) :
    readBlock crc (writeBlock crc s d).1 (writeBlock crc s d).2 = .ok d := by
  obtain ⟨h1, h2, _, _, hnet, _⟩ := writeBlock_spec crc s d hw hd hfile
  apply readBlock_of_RecAt crc hcrc _ _ _ h1.net_lt
  rw [hnet]; exact h2

/-- the rollover case explicitly: the record becomes the first one of the next file. -/
theorem C18_across_rollover (crc : Bytes → Nat) (s : Store) (d : Bytes)
    (hd : d.length + 12 < 4294967296) (hfile : s.curFile + 1 < 4294967296)
    (hroll : s.curOff + (d.length + 12) > s.max) (hoff : s.curOff + (d.length + 12) < 4294967296) :
    (writeBlock crc s d).2 = ⟨s.curFile + 1, 0, d.length + 12⟩ := by
  have hfull : u32 (u32 d.length + 12) = d.length + 12 := by
    simp only [u32]
    rw [Nat.mod_eq_of_lt (a := d.length) (by omega), Nat.mod_eq_of_lt hd]
  have hu : u32 (s.curOff + (d.length + 12)) = s.curOff + (d.length + 12) := by
    simp only [u32]; exact Nat.mod_eq_of_lt hoff
  have hf : u32 (s.curFile + 1) = s.curFile + 1 := by simp only [u32]; exact Nat.mod_eq_of_lt hfile
  unfold writeBlock
  simp only [hfull, hu, hf]
  have : s.curOff + (d.length + 12) < s.curOff ∨ s.curOff + (d.length + 12) > s.max := Or.inr hroll
  simp only [this, if_true]

example : (writeBlock (fun _ => 7) { max := 64, curOff := 40, files := [some (List.replicate 40 1)] }
    (List.replicate 20 2)).2 = ⟨1, 0, 32⟩ := by decide

/-! ## reads of a held block -/

/-- `FetchBlock` of a committed block returns exactly the stored bytes. -/
theorem C18_fetch (crc : Bytes → Nat) (hcrc : ∀ b, crc b < 4294967296) (s : Store) (h d : Bytes)
    (hw : WF s) (hp : s.pending.bind (lookupP h) = none) (hh : Held crc s h d) :
    fetchBlock crc s h = .ok d := by
  obtain ⟨loc, hl, hr, _⟩ := hh
  simp only [fetchBlock, hp, hl]
  exact readBlock_of_RecAt crc hcrc s loc d hw.net_lt hr

/-- `FetchBlockRegion` (32-bit offset and length): inside the block it is exactly
    the slice; anything reaching beyond the block — including the 12 bytes of
    record framing and a wrapping `offset+len` — is `ErrBlockRegionInvalid`. -/
theorem C18_region (crc : Bytes → Nat) (s : Store) (h d : Bytes) (off n : Nat)
    (hoff : off < 4294967296) (hn : n < 4294967296)
    (hp : s.pending.bind (lookupP h) = none) (hh : Held crc s h d) :
    fetchRegion s h off n =
      if off + n ≤ d.length then .ok ((d.drop off).take n) else .error .region := by
  obtain ⟨loc, hl, hr, _⟩ := hh
  have hr' := hr
  obtain ⟨f, hf, hlen, hfit, hlt, hrec⟩ := hr
  have hraw : rawLen loc = d.length := by simp [rawLen, hlen]
  simp only [fetchRegion, hp, hl, hraw]
  by_cases hin : off + n ≤ d.length
  · have hu : u32 (off + n) = off + n := by simp only [u32]; apply Nat.mod_eq_of_lt; omega
    rw [if_pos hin, hu, if_neg (by omega)]
    exact readRegion_of_RecAt crc s loc d off n hr' hin
  · rw [if_neg hin]
    have : u32 (off + n) < off ∨ u32 (off + n) > d.length := by
      simp only [u32]
      by_cases hw : off + n < 4294967296
      · rw [Nat.mod_eq_of_lt hw]; right; omega
      · left; omega
    rw [if_pos this]

/-- the same for a block that is still pending in the open transaction -/
theorem C18_region_pending (s : Store) (h d : Bytes) (off n : Nat)
    (hoff : off < 4294967296) (hn : n < 4294967296) (hd : d.length < 4294967296)
    (hp : s.pending.bind (lookupP h) = some d) :
    fetchRegion s h off n =
      if off + n ≤ d.length then .ok ((d.drop off).take n) else .error .region := by
  have hud : u32 d.length = d.length := by simp only [u32]; exact Nat.mod_eq_of_lt hd
  simp only [fetchRegion, hp, hud]
  by_cases hin : off + n ≤ d.length
  · have hu : u32 (off + n) = off + n := by simp only [u32]; apply Nat.mod_eq_of_lt; omega
    rw [if_pos hin, hu, if_neg (by omega)]
  · rw [if_neg hin]
    have : u32 (off + n) < off ∨ u32 (off + n) > d.length := by
      simp only [u32]
      by_cases hw : off + n < 4294967296
      · rw [Nat.mod_eq_of_lt hw]; right; omega
      · left; omega
    rw [if_pos this]

/-- `FetchBlockHeader` is the 84-byte prefix of the stored block. -/
theorem C18_header_prefix (crc : Bytes → Nat) (s : Store) (h d : Bytes)
    (hp : s.pending.bind (lookupP h) = none) (hh : Held crc s h d) (hlen : 84 ≤ d.length) :
    fetchRegion s h 0 84 = .ok (d.take 84) := by
  rw [C18_region crc s h d 0 84 (by omega) (by omega) hp hh]
  simp [hlen]

/-! ## a whole commit -/

theorem lookup_cons_ne {h k : Bytes} {l : Loc} {idx : List (Bytes × Loc)} (hne : k ≠ h) :
    lookup h ((k, l) :: idx) = lookup h idx := by
  simp [lookup, hne]

theorem commitBlocks_spec (crc : Bytes → Nat) (p : List (Bytes × Bytes)) :
    ∀ (s : Store), WF s → s.curFile + p.length < 4294967296 →
    (∀ x ∈ p, x.2.length + 12 < 4294967296) →
    (p.map (·.1)).Nodup → (∀ x ∈ p, lookup x.1 s.index = none) →
    let s' := commitBlocks crc s p
    WF s' ∧ s'.net = s.net ∧ s'.max = s.max ∧ s'.pending = s.pending ∧
    s'.curFile ≤ s.curFile + p.length ∧
    (∀ x ∈ p, Held crc s' x.1 x.2) ∧
    (∀ h d, Held crc s h d → Held crc s' h d) ∧
    (∀ h, (∀ x ∈ p, x.1 ≠ h) → lookup h s'.index = lookup h s.index) := by
  induction p with
  | nil =>
    intro s hw _ _ _ _
    exact ⟨hw, rfl, rfl, rfl, by simp [commitBlocks], by simp, fun _ _ h => h, fun _ _ => rfl⟩
  | cons x p ih =>
    obtain ⟨hx, dx⟩ := x
    intro s hw hfile hlen hnd hfresh
    have hlx : dx.length + 12 < 4294967296 := hlen (hx, dx) (by simp)
    obtain ⟨w1, w2, w3, w4, w5, w6, w7, w8, w9, w10, w11⟩ :=
      writeBlock_spec crc s dx hw hlx (by simp at hfile; omega)
    simp only [commitBlocks]
    -- the state after writing and indexing the first block
    generalize hs1 : ({ (writeBlock crc s dx).1 with
        index := (hx, (writeBlock crc s dx).2) :: (writeBlock crc s dx).1.index } : Store) = s1
    have hw1 : WF s1 := by subst hs1; exact ⟨w1.net_lt, w1.cur, w1.above, w1.off_lt⟩
    have hnet1 : s1.net = s.net := by subst hs1; exact w5
    have hidx1 : s1.index = (hx, (writeBlock crc s dx).2) :: s.index := by subst hs1; simp [w4]
    have hfiles1 : s1.files = (writeBlock crc s dx).1.files := by subst hs1; rfl
    have hcf1 : s1.curFile = (writeBlock crc s dx).1.curFile := by subst hs1; rfl
    have hco1 : s1.curOff = (writeBlock crc s dx).1.curOff := by subst hs1; rfl
    have hbefore1 : ∀ loc, Before (writeBlock crc s dx).1 loc → Before s1 loc := by
      intro loc hb; simpa [Before, hcf1, hco1] using hb
    simp only [List.map_cons, List.nodup_cons] at hnd
    have hfresh1 : ∀ y ∈ p, lookup y.1 s1.index = none := by
      intro y hy
      rw [hidx1, lookup_cons_ne]
      · exact hfresh y (by simp [hy])
      · intro he; apply hnd.1; rw [he]; exact List.mem_map_of_mem hy
    have ih' := ih s1 hw1 (by rw [hcf1]; simp at hfile; omega)
      (fun y hy => hlen y (by simp [hy])) hnd.2 hfresh1
    obtain ⟨i1, i2, i3, i4, i5, i6, i7, i8⟩ := ih'
    have hheld1 : Held crc s1 hx dx := by
      refine ⟨(writeBlock crc s dx).2, by rw [hidx1]; simp [lookup], ?_, hbefore1 _ w3⟩
      rw [hnet1, hfiles1]; exact w2
    have hold1 : ∀ h d, Held crc s h d → Held crc s1 h d := by
      intro h d ⟨loc, hl, hr, hb⟩
      have hne : hx ≠ h := by
        intro he; subst he
        have := hfresh (hx, dx) (by simp)
        simp only [] at this
        rw [this] at hl; cases hl
      obtain ⟨r1, r2⟩ := w11 loc d hr hb
      exact ⟨loc, by rw [hidx1, lookup_cons_ne hne]; exact hl, by rw [hnet1, hfiles1]; exact r1, hbefore1 _ r2⟩
    refine ⟨i1, by rw [i2, hnet1], by rw [i3]; subst hs1; exact w6, by rw [i4]; subst hs1; exact w7, ?_, ?_, ?_, ?_⟩
    · rw [hcf1] at i5; simp; omega
    · intro y hy
      rcases List.mem_cons.mp hy with rfl | hy
      · exact i7 _ _ hheld1
      · exact i6 y hy
    · intro h d hh; exact i7 h d (hold1 h d hh)
    · intro h hne
      rw [i8 h (fun y hy => hne y (by simp [hy])), hidx1, lookup_cons_ne (hne (hx, dx) (by simp))]

/-- `Commit` of a transaction with blocks `p` (fresh, pairwise distinct hashes —
    which `StoreBlock` enforces): every block of `p` is held afterwards, every
    block held before still is, nothing else entered the index, the transaction
    is closed and the persisted write cursor is the in-memory one. -/
theorem C18_commit (crc : Bytes → Nat) (s : Store) (p : List (Bytes × Bytes)) (hw : WF s)
    (hfile : s.curFile + p.length < 4294967296)
    (hlen : ∀ x ∈ p, x.2.length + 12 < 4294967296)
    (hnd : (p.map (·.1)).Nodup) (hfresh : ∀ x ∈ p, lookup x.1 s.index = none) :
    let s' := commit crc { s with pending := some p }
    WF s' ∧ s'.pending = none ∧ s'.writeLoc = (s'.curFile, s'.curOff) ∧
    (∀ x ∈ p, Held crc s' x.1 x.2) ∧ (∀ h d, Held crc s h d → Held crc s' h d) ∧
    (∀ h, (∀ x ∈ p, x.1 ≠ h) → lookup h s'.index = lookup h s.index) := by
  have hw0 : WF { s with pending := none } := ⟨hw.net_lt, hw.cur, hw.above, hw.off_lt⟩
  obtain ⟨i1, i2, i3, i4, i5, i6, i7, i8⟩ :=
    commitBlocks_spec crc p { s with pending := none } hw0 hfile hlen hnd hfresh
  simp only [commit]
  refine ⟨⟨i1.net_lt, i1.cur, i1.above, i1.off_lt⟩, i4, by first | rfl | trivial, ?_, ?_, i8⟩
  · intro x hx
    obtain ⟨loc, a, b, c⟩ := i6 x hx
    exact ⟨loc, a, b, c⟩
  · intro h d ⟨loc, a, b, c⟩
    obtain ⟨loc', a', b', c'⟩ := i7 h d ⟨loc, a, b, c⟩
    exact ⟨loc', a', b', c'⟩

/-- non-vacuity: two blocks into 64-byte files; the second rolls over; both read back. -/
example :
    let s := commit (fun _ => 7) { max := 64, pending := some [([1], List.replicate 30 5), ([2], List.replicate 30 6)] }
    ((fetchBlock (fun _ => 7) s [1]).toOption, (fetchBlock (fun _ => 7) s [2]).toOption, lookup [2] s.index) =
      (some (List.replicate 30 5), some (List.replicate 30 6), some ⟨1, 0, 42⟩) := by
  decide

/-! ## reopen -/

/-- no gaps in the directory below the write cursor -/
def Contig (s : Store) : Prop :=
  (∀ i, i < s.curFile → ∃ f, fileAt s.files i = some f) ∧
  (fileAt s.files s.curFile = none → s.curFile = 0)

theorem scan_spec : ∀ (fs : Files) (n i : Nat) (acc : Nat × Nat),
    (∀ j, j < n → ∃ f, fileAt fs j = some f) → fileAt fs n = none →
    scan fs i acc = if n = 0 then acc else (i + n - 1, u32 ((fileAt fs (n - 1)).getD []).length)
  | [], n, i, acc, hall, _ => by
    cases n with
    | zero => simp [scan]
    | succ n => obtain ⟨f, hf⟩ := hall 0 (by omega); simp [fileAt] at hf
  | none :: fs, n, i, acc, hall, _ => by
    cases n with
    | zero => simp [scan]
    | succ n => obtain ⟨f, hf⟩ := hall 0 (by omega); simp [fileAt] at hf
  | some f :: fs, n, i, acc, hall, hnone => by
    cases n with
    | zero => simp [fileAt] at hnone
    | succ n =>
      have hall' : ∀ j, j < n → ∃ g, fileAt fs j = some g := by
        intro j hj; have := hall (j + 1) (by omega); simpa [fileAt] using this
      have hnone' : fileAt fs n = none := by simpa [fileAt] using hnone
      have ih := scan_spec fs n (i + 1) (i, u32 f.length) hall' hnone'
      simp only [scan, ih]
      cases n with
      | zero => simp [fileAt]
      | succ m =>
        simp only [Nat.add_one_ne_zero, if_false]
        have : fileAt (some f :: fs) (m + 1 + 1 - 1) = fileAt fs (m + 1 - 1) := by simp [fileAt]
        rw [this]
        congr 1
        omega

/-- Reopening a cleanly closed store (persisted write cursor = in-memory cursor,
    no gaps) changes nothing: same files, same index, same cursor — hence every
    held block is still held and reads back as before. -/
theorem C18_reopen (s : Store) (hw : WF s) (hc : Contig s) (hloc : s.writeLoc = (s.curFile, s.curOff)) :
    reopen s = some { s with pending := none } := by
  have hscan : scan s.files 0 (0, 0) = (s.curFile, s.curOff) := by
    cases hf : fileAt s.files s.curFile with
    | none =>
      have h0 := hc.2 hf
      have hcur := hw.cur
      rw [hf] at hcur
      rw [scan_spec s.files 0 0 (0, 0) (by intro j hj; omega) (by rw [← h0]; exact hf)]
      simp [h0, hcur]
    | some f =>
      have hcur := hw.cur
      rw [hf] at hcur
      have hall : ∀ j, j < s.curFile + 1 → ∃ g, fileAt s.files j = some g := by
        intro j hj
        by_cases hj' : j < s.curFile
        · exact hc.1 j hj'
        · have : j = s.curFile := by omega
          subst this; exact ⟨f, hf⟩
      rw [scan_spec s.files (s.curFile + 1) 0 (0, 0) hall (hw.above _ (by omega))]
      simp only [Nat.add_one_ne_zero, if_false, Nat.add_sub_cancel, hf, Option.getD_some, hcur, Nat.zero_add]
      simp only [u32, Nat.mod_eq_of_lt hw.off_lt]
  simp only [reopen, hscan, hloc]
  simp

/-- `writeBlock` keeps the directory gap-free when the record fits into a block file. -/
theorem contig_writeBlock (crc : Bytes → Nat) (s : Store) (d : Bytes) (hw : WF s) (hc : Contig s)
    (hd : d.length + 12 < 4294967296) (hfile : s.curFile + 1 < 4294967296)
    (hfit : d.length + 12 ≤ s.max) : Contig (writeBlock crc s d).1 := by
  obtain ⟨w1, w2, w3, _, _, _, _, _, w9, w10, _⟩ := writeBlock_spec crc s d hw hd hfile
  obtain ⟨f, hf, _⟩ := w2
  have hfull : u32 (u32 d.length + 12) = d.length + 12 := by
    simp only [u32]
    rw [Nat.mod_eq_of_lt (a := d.length) (by omega), Nat.mod_eq_of_lt hd]
  -- the file written to exists afterwards; files below the old cursor are untouched
  by_cases hroll : u32 (s.curOff + (d.length + 12)) < s.curOff ∨ u32 (s.curOff + (d.length + 12)) > s.max
  · -- a rollover can only happen from a non-empty (hence existing) file
    have hpos : 0 < s.curOff := by
      rcases Nat.eq_zero_or_pos s.curOff with h0 | h0
      · exfalso
        rw [h0] at hroll
        simp only [Nat.zero_add, u32, Nat.mod_eq_of_lt hd] at hroll
        omega
      · exact h0
    have hex : ∃ g, fileAt s.files s.curFile = some g := by
      have hcur := hw.cur
      cases hfa : fileAt s.files s.curFile with
      | none => rw [hfa] at hcur; omega
      | some g => exact ⟨g, rfl⟩
    have hu : u32 (s.curFile + 1) = s.curFile + 1 := by simp only [u32]; exact Nat.mod_eq_of_lt hfile
    have hcf : (writeBlock crc s d).1.curFile = s.curFile + 1 := by
      unfold writeBlock; simp only [hfull, hroll, if_true, hu]
    have hfiles : (writeBlock crc s d).1.files
        = writeFile s.files (s.curFile + 1) 0 (record crc s.net d) := by
      unfold writeBlock; simp only [hfull, hroll, if_true, hu]
    constructor
    · intro i hi
      rw [hcf] at hi
      rw [hfiles, writeFile, fileAt_setFile_other _ _ _ _ (by omega)]
      by_cases hi' : i < s.curFile
      · exact hc.1 i hi'
      · have : i = s.curFile := by omega
        subst this; exact hex
    · intro hnone
      rw [hcf, hfiles, writeFile, fileAt_setFile_same] at hnone
      cases hnone
  · have hcf : (writeBlock crc s d).1.curFile = s.curFile := by
      unfold writeBlock; simp only [hfull, hroll, if_false]
    have hfiles : (writeBlock crc s d).1.files
        = writeFile s.files s.curFile s.curOff (record crc s.net d) := by
      unfold writeBlock; simp only [hfull, hroll, if_false]
    constructor
    · intro i hi
      rw [hcf] at hi
      rw [hfiles, writeFile, fileAt_setFile_other _ _ _ _ (by omega)]
      exact hc.1 i hi
    · intro hnone
      rw [hcf, hfiles, writeFile, fileAt_setFile_same] at hnone
      cases hnone

/-- The premise "the record fits into a block file" of `contig_writeBlock` cannot be
    dropped: a block larger than the file size stored into an empty store makes
    `writeBlock` skip file 0 (it is never created), and the next open refuses the
    database (`scanBlockFiles` stops at the missing file; `reconcileDB` reports
    corruption).  Not reachable with the production 64 MiB files; replayed with
    the size knob in `corpus/C18/oversize_first_block.ops`. -/
theorem C18_oversize_reopen_false :
    ¬ (∀ (crc : Bytes → Nat) (s : Store) (p : List (Bytes × Bytes)), WF s → Contig s →
        s.writeLoc = (s.curFile, s.curOff) → reopen (commit crc { s with pending := some p }) ≠ none) := by
  intro h
  have hw : WF ({ max := 64 } : Store) :=
    ⟨by decide, by simp [fileAt], by intro i _; simp [fileAt], by decide⟩
  have hc : Contig ({ max := 64 } : Store) :=
    ⟨by intro i hi; exact absurd hi (by simp), by intro _; rfl⟩
  have := h (fun _ => 0) { max := 64 } [([1], List.replicate 60 0)] hw hc rfl
  exact this (by rfl)

/-! ## a commit that fails with an I/O error after a rollover (`ocommit`) -/

/-- A commit that fails with an I/O error on block file `n` leaves no trace in the block index,
    the write cursor (in memory and persisted) or the pending set. -/
theorem C18_failed_commit_no_trace (crc : Bytes → Nat) (s : Store) (n : Nat)
    (h : (commitObstructed crc s n).2 = true) :
    let s' := (commitObstructed crc s n).1
    s'.index = s.index ∧ s'.curFile = s.curFile ∧ s'.curOff = s.curOff ∧ s'.writeLoc = s.writeLoc ∧
      s'.pending = none := by
  unfold commitObstructed at h ⊢
  cases hp : s.pending with
  | none => simp [hp] at h
  | some p =>
    simp only [hp] at h ⊢
    rcases hb : blocksUntil crc n { s with pending := none } p with ⟨s1, failed⟩
    rw [hb] at h
    simp only at h ⊢
    cases failed with
    | false => simp at h
    | true => simp

/-- … and when no block is directed to file `n` it is the ordinary commit. -/
theorem blocksUntil_ok (crc : Bytes → Nat) (n : Nat) : ∀ (p : List (Bytes × Bytes)) (s : Store),
    (blocksUntil crc n s p).2 = false → (blocksUntil crc n s p).1 = commitBlocks crc s p := by
  intro p
  induction p with
  | nil => intro s _; rfl
  | cons e rest ih =>
    intro s h
    obtain ⟨hh, d⟩ := e
    simp only [blocksUntil] at h ⊢
    by_cases ht : rollTarget s d = n
    · simp [ht] at h
    · simp only [ht, if_false] at h ⊢
      simp only [commitBlocks]
      exact ih _ h

theorem C18_obstructed_commit_ok (crc : Bytes → Nat) (s : Store) (n : Nat)
    (h : (commitObstructed crc s n).2 = false) : (commitObstructed crc s n).1 = commit crc s := by
  unfold commitObstructed at h ⊢
  unfold commit
  cases hp : s.pending with
  | none => rfl
  | some p =>
    simp only [hp] at h ⊢
    rcases hb : blocksUntil crc n { s with pending := none } p with ⟨s1, failed⟩
    rw [hb] at h
    simp only at h ⊢
    cases failed with
    | true => simp at h
    | false =>
      have := blocksUntil_ok crc n p { s with pending := none } (by rw [hb])
      rw [hb] at this
      simp only at this
      simp [this]

/-! ## the tx index's internal block ids (`indexers/txindex.go`): what `FetchBlockRegion` by tx location resolves through -/
section BlockIds
open ElaVerif.BlockIds

/-- the ids in use are exactly `1 … cur` -/
def Contiguous (s : Ids) : Prop := ∀ i, s.present i = (decide (1 ≤ i) && decide (i ≤ s.cur))

theorem C18_txindex_ids_connect (s : Ids) (h : Contiguous s) : Contiguous (connect s) := by
  intro i
  simp only [connect, h i]
  by_cases h1 : i = s.cur + 1
  · subst h1; simp
  · have : (i == s.cur + 1) = false := by simp [h1]
    simp only [this, Bool.false_or]
    by_cases h2 : i ≤ s.cur
    · have : i ≤ s.cur + 1 := by omega
      simp [h2, this]
    · have : ¬ i ≤ s.cur + 1 := by omega
      simp [h2, this]

theorem C18_txindex_ids_disconnect (s : Ids) (h : Contiguous s) (hc : 0 < s.cur) : Contiguous (disconnect s) := by
  intro i
  simp only [disconnect, h i]
  by_cases h1 : i = s.cur
  · rw [h1]
    have : ¬ s.cur ≤ s.cur - 1 := by omega
    simp [this]
  · have : (i != s.cur) = true := by simp [h1]
    simp only [this, Bool.true_and]
    by_cases h2 : i ≤ s.cur
    · have : i ≤ s.cur - 1 := by omega
      simp [h2, this]
    · have : ¬ i ≤ s.cur - 1 := by omega
      simp [h2, this]

theorem ids_scan_spec (p : Nat → Bool) (cur inc : Nat) (hinc : 0 < inc)
    (hp : ∀ i, p i = (decide (1 ≤ i) && decide (i ≤ cur))) :
    ∀ (f t hk : Nat), cur < t + f * inc → 1 ≤ t →
      ((hk = 0 ∧ t = 1) ∨ (1 ≤ hk ∧ hk ≤ cur ∧ t = hk + inc)) →
      let r := ElaVerif.BlockIds.scan p inc f t hk
      (r.1 = 0 ∧ r.2 = 1 ∧ cur = 0) ∨ (1 ≤ r.1 ∧ r.1 ≤ cur ∧ cur < r.2 ∧ r.2 = r.1 + inc) := by
  intro f
  induction f with
  | zero =>
    intro t hk hf ht hinv
    simp only [ElaVerif.BlockIds.scan]
    rcases hinv with ⟨h0, h1⟩ | ⟨h1, h2, h3⟩
    · left; exact ⟨h0, h1, by omega⟩
    · right; exact ⟨h1, h2, by omega, h3⟩
  | succ f ih =>
    intro t hk hf ht hinv
    simp only [ElaVerif.BlockIds.scan]
    by_cases hpt : p t = true
    · simp only [hpt, if_true]
      have htc : t ≤ cur := by
        have := hp t; rw [hpt] at this
        simp at this; omega
      apply ih (t + inc) t
      · have : (f + 1) * inc = f * inc + inc := Nat.succ_mul f inc
        omega
      · omega
      · right; exact ⟨ht, htc, rfl⟩
    · simp only [hpt, if_false]
      have htc : cur < t := by
        have := hp t
        cases hq : p t with
        | true => exact absurd hq hpt
        | false => rw [hq] at this; simp at this; omega
      rcases hinv with ⟨h0, h1⟩ | ⟨h1, h2, h3⟩
      · left; exact ⟨h0, h1, by omega⟩
      · right; exact ⟨h1, h2, htc, h3⟩

theorem ids_bsearch_spec (p : Nat → Bool) (cur : Nat)
    (hp : ∀ i, p i = (decide (1 ≤ i) && decide (i ≤ cur))) :
    ∀ (f hk nu : Nat), 1 ≤ hk → hk ≤ cur → cur < nu → nu - hk ≤ f → bsearch p f hk nu = cur := by
  intro f
  induction f with
  | zero => intro hk nu h1 h2 h3 h4; omega
  | succ f ih =>
    intro hk nu h1 h2 h3 h4
    simp only [bsearch]
    by_cases hpm : p ((hk + nu) / 2) = true
    · have hm : (hk + nu) / 2 ≤ cur := by
        have := hp ((hk + nu) / 2); rw [hpm] at this; simp at this; omega
      simp only [hpm, if_true]
      by_cases hx : (hk + nu) / 2 + 1 = nu
      · simp only [hx, if_true]; omega
      · simp only [hx, if_false]
        apply ih <;> omega
    · have hpm' : p ((hk + nu) / 2) = false := by
        cases hq : p ((hk + nu) / 2) with
        | true => exact absurd hq hpm
        | false => rfl
      have hm : cur < (hk + nu) / 2 := by
        have := hp ((hk + nu) / 2); rw [hpm'] at this; simp at this; omega
      simp only [hpm', Bool.false_eq_true, if_false]
      by_cases hx : hk + 1 = (hk + nu) / 2
      · simp only [hx, if_true]; omega
      · simp only [hx, if_false]
        apply ih <;> omega

/-- **`TxIndex.Init` recovers the current block id** whenever the ids in use are `1 … cur`. -/
theorem C18_txindex_init (s : Ids) (h : Contiguous s) (inc fuel : Nat) (hinc : 0 < inc)
    (hf1 : s.cur < 1 + fuel * inc) (hf2 : inc ≤ fuel) :
    init s.present inc fuel = s.cur := by
  unfold init
  have hs := ids_scan_spec s.present s.cur inc hinc h fuel 1 0 hf1 (Nat.le_refl _) (Or.inl ⟨rfl, rfl⟩)
  rcases hsc : ElaVerif.BlockIds.scan s.present inc fuel 1 0 with ⟨hk, nu⟩
  rw [hsc] at hs
  simp only at hs ⊢
  rcases hs with ⟨h0, h1, h2⟩ | ⟨h1, h2, h3, h4⟩
  · simp [h1, h2]
  · have : nu ≠ 1 := by omega
    simp only [this, if_false]
    exact ids_bsearch_spec s.present s.cur h fuel hk nu h1 h2 h3 (by omega)

/-- Without the decrement in `DisconnectBlock` the ids in use get a gap, and `Init` after a
    restart settles below an id that is still in use: the next block reuses a live id. -/
example :
    let s0 : Ids := { present := fun i => decide (1 ≤ i) && decide (i ≤ 5), cur := 5 }
    let bad : Ids := { (disconnect s0) with cur := 5 }   -- no decrement
    let s1 := connect bad                                   -- ids 1,2,3,4,6
    (init s1.present 4 8, s1.cur, s1.present 6) = (4, 6, true) := by
  decide

end BlockIds

end ElaVerif.C18
