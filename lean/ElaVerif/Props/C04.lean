import ElaVerif.Model.Tx
import ElaVerif.Lemmas.Wire
import ElaVerif.Lemmas.Tx
import ElaVerif.Lemmas.WireSchemas
import ElaVerif.Lemmas.WireTokens
import ElaVerif.Lemmas.WireTokensConst
import ElaVerif.Gen.C04
/-!
# C04 — wire encoding round-trips; transaction identity ignores signatures

Property theorems only.  The generic ones quantify over *every* schema `ty : Wire.Ty`
(proved by induction on the schema in `Lemmas/Wire.lean`), the transaction / block ones over
every value of the envelope model `Model/Tx.lean` (parallel to `GetTransactionByBytes`,
`BaseTransaction.Serialize/Deserialize/hash`, `Block.Serialize/Deserialize`).
The hash function is a parameter `H` of the statements (no property of SHA-256 is used).
-/
namespace ElaVerif.C04
open ElaVerif.Bytes ElaVerif.Wire ElaVerif.WireSchemas ElaVerif.Tx

/-! ## every schema -/

/-- Encoding then decoding a well-formed value yields the value, whatever follows it. -/
theorem C04_roundtrip (ty : Ty) (v : Val) (rest : Bytes) (h : wf ty v = true) :
    decode ty (encode ty v ++ rest) = some (v, rest) :=
  decode_encode ty v rest h

/-- Everything a reader accepts is a well-formed value of its schema. -/
theorem C04_wf_from_decode (ty : Ty) (bs : Bytes) (v : Val) (rest : Bytes)
    (h : decode ty bs = some (v, rest)) : wf ty v = true :=
  (decode_sound ty bs v rest h).1

/-- A decoded value re-encodes to bytes that decode to the same value (and nothing is left). -/
theorem C04_reencode_stable (ty : Ty) (bs : Bytes) (v : Val) (rest : Bytes)
    (h : decode ty bs = some (v, rest)) : decode ty (encode ty v) = some (v, []) := by
  have := decode_encode ty v [] (decode_sound ty bs v rest h).1
  simpa [decode] using this

/-- Canonical schemas (no `bool`, no header padding byte): the reader accepts exactly the writer's
    output — the consumed bytes *are* the encoding of the decoded value. -/
theorem C04_canonical (ty : Ty) (bs : Bytes) (v : Val) (rest : Bytes) (hc : canon ty = true)
    (h : decode ty bs = some (v, rest)) : bs = encode ty v ++ rest :=
  (decode_sound ty bs v rest h).2 hc

/-- The full statement "the reader accepts exactly the writer's output" is false for schemas with
    a `bool` field: `ReadElement(*bool)` maps every non-zero byte to `true`. -/
theorem C04_canonical_false_for_bool :
    ¬ ∀ (bs : Bytes) (v : Val) (rest : Bytes), decode .bool bs = some (v, rest) →
      bs = encode .bool v ++ rest := by
  intro h
  have := h [2] (.bool true) [] rfl
  revert this; decide

/-! ## transactions -/

/-- `Deserialize(Serialize(tx)) = tx` for every well-formed transaction. -/
theorem C04_tx_roundtrip (tx : Tx) (rest : Bytes) (h : wfTx tx = true) :
    decodeTx (encodeTx tx ++ rest) = some (tx, rest) :=
  decodeTx_encodeTx tx rest h

/-- Every successfully decoded transaction satisfies `wfTx` — in particular the version/type
    clause: version 0 comes with a type byte below 9. -/
theorem C04_tx_wf_from_decode (bs : Bytes) (tx : Tx) (rest : Bytes)
    (h : decodeTx bs = some (tx, rest)) : wfTx tx = true :=
  (decodeTx_sound bs tx rest h).1

/-- The bytes consumed by the transaction reader are exactly `Serialize` of the result, for every
    transaction type and payload version except the three whose payload reader is not canonical:
    IllegalVoteEvidence (0x0f: a vote's accept byte is read as "== 1"), ProposalResult (0x15: a `bool`)
    and CRCProposal (0x25: `for i < int(count)` loops, a `bool`). -/
theorem C04_tx_canonical (bs : Bytes) (tx : Tx) (rest : Bytes)
    (h : decodeTx bs = some (tx, rest))
    (h1 : tx.txType ≠ 0x0f) (h2 : tx.txType ≠ 0x15) (h3 : tx.txType ≠ 0x25) : bs = encodeTx tx ++ rest :=
  (decodeTx_sound bs tx rest h).2 fun _ hb => body_canon hb h1 h2 h3

/-- for those three the full statement is false: a ProposalResult transaction whose result flag byte
    is 2 is accepted, but `Serialize` of the decoded transaction writes 1 -/
def noncanonicalTxBytes : Bytes :=
  [9, 0x15, 0, 1] ++ List.replicate 32 0 ++ [0, 0, 2] ++ [0, 0, 0] ++ [0, 0, 0, 0] ++ [0]

theorem C04_tx_canonical_false_for_bool :
    ¬ ∀ (bs : Bytes) (tx : Tx) (rest : Bytes), decodeTx bs = some (tx, rest) → bs = encodeTx tx ++ rest := by
  intro h
  have hd : ((decodeTx noncanonicalTxBytes).map fun p => encodeTx p.1 ++ p.2) ≠ some noncanonicalTxBytes := by
    decide
  cases hx : decodeTx noncanonicalTxBytes with
  | none => revert hx; decide
  | some p =>
    have := h noncanonicalTxBytes p.1 p.2 (by rw [hx])
    apply hd
    rw [hx]
    simp [← this]

/-- A decoded transaction re-encodes to bytes that decode to the same transaction with the same
    hash, for every hash function. -/
theorem C04_tx_reencode_stable (H : Bytes → Bytes) (bs : Bytes) (tx : Tx) (rest : Bytes)
    (h : decodeTx bs = some (tx, rest)) :
    ∃ tx', decodeTx (encodeTx tx) = some (tx', []) ∧ tx' = tx ∧ txHash H tx' = txHash H tx := by
  have := decodeTx_encodeTx tx [] (decodeTx_sound bs tx rest h).1
  exact ⟨tx, by simpa using this, rfl, rfl⟩

/-- The transaction hash does not depend on the programs, for every hash function `H`. -/
theorem C04_hash_ignores_programs (H : Bytes → Bytes) (tx : Tx) (p : Val) :
    txHash H { tx with programs := p } = txHash H tx := rfl

/-- `Serialize` is `SerializeUnsigned` followed by the program list. -/
theorem C04_serialize_split (tx : Tx) :
    encodeTx tx = encodeUnsigned tx ++ encode programs tx.programs := rfl

/-- Different unsigned contents give different hashes when `H` is injective (collision freedom
    as an explicit hypothesis): the hash identifies everything except the programs. -/
theorem C04_hash_identifies_unsigned (H : Bytes → Bytes) (hH : Function.Injective H) (a b : Tx)
    (h : txHash H a = txHash H b) : encodeUnsigned a = encodeUnsigned b := hH h

/-- a version-0 InactiveArbitrators transaction (type byte 0x12): every field is well-formed but
    the version/type clause of `wfTx` fails -/
def ambiguousTx : Tx :=
  { version := 0, txType := 0x12,
    body := [.tag 0 (.struct [.bytes [], .num 0, .list []]), .list [], .list [], .list [], .num 0],
    programs := .list [] }

/-- Without the version/type clause the round trip fails: the reader takes the type byte `0x12`
    of a version-0 transaction for the version (and the next byte for the type). -/
theorem C04_ambiguity_witness :
    (match bodyTy? ambiguousTx.txType ambiguousTx.version with
     | some fs => wfFields fs ambiguousTx.body | none => false) = true ∧
    wf programs ambiguousTx.programs = true ∧
    (decodeTx (encodeTx ambiguousTx)).map (fun p => (p.1.version, p.1.txType)) = some (0x12, 0) := by
  decide

/-- the full statement "every field-wise well-formed transaction round-trips" is therefore false -/
theorem C04_tx_roundtrip_without_clause_false :
    ¬ ∀ tx : Tx, (match bodyTy? tx.txType tx.version with
        | some fs => wfFields fs tx.body | none => false) = true → wf programs tx.programs = true →
        (decodeTx (encodeTx tx)).map (fun p => (p.1.version, p.1.txType)) = some (tx.version, tx.txType) := by
  intro h
  have := h ambiguousTx C04_ambiguity_witness.1 C04_ambiguity_witness.2.1
  rw [C04_ambiguity_witness.2.2] at this
  revert this; decide

/-! ## non-vacuity -/

/-- a version-9 TransferAsset transaction with one attribute, one input, one vote output, one program -/
def sampleTx : Tx :=
  { version := 9, txType := 2,
    body := [.tag 0 (.struct []),
             .list [.tag 0x81 (.bytes [1, 2, 3])],
             .list [.struct [.bytes (List.replicate 32 7), .num 1, .num 0xffffffff]],
             .list [.struct [.bytes (List.replicate 32 9), .num 100000000, .num 0, .bytes (List.replicate 21 5),
                    .tag 1 (.tag 1 (.list [.struct [.num 0, .list [.struct [.bytes [2, 3], .num 5]]]]))]],
             .num 77],
    programs := .list [.struct [.bytes [1], .bytes [2, 3]]] }

example : wfTx sampleTx = true := by decide
set_option maxRecDepth 8192 in
example : (encodeTx sampleTx).length = 140 := by decide
example : (decodeTx (encodeTx sampleTx ++ [0xaa])).map (fun p => p.2) = some [0xaa] := by
  rw [C04_tx_roundtrip sampleTx [0xaa] (by decide)]; rfl
set_option maxRecDepth 8192 in
example : wf header (.struct [.num 1, .bytes (List.replicate 32 0), .bytes (List.replicate 32 0), .num 2, .num 3,
    .num 4, .num 5, .struct [.struct [.num 1, .list [], .list [], .num 0], .bytes (List.replicate 32 0),
      .list [], .num 0, .list [], .num 0,
      .struct [.num 0, .bytes (List.replicate 32 0), .bytes (List.replicate 32 0), .num 0, .num 0, .num 0]],
    .unit]) = true := by decide

/-! ## blocks -/

/-- `Block.Deserialize(Block.Serialize(b)) = b` for well-formed blocks. -/
theorem C04_block_roundtrip (b : Block) (rest : Bytes) (h : wfBlock b = true) :
    (decodeBlockA (encodeBlock b ++ rest)).res = some (b, rest) :=
  decodeBlock_encodeBlock b rest h

/-! ## the schema table is the source's (regenerated facts) -/

/-- size limits used by the schemas are the constants of the Go source -/
theorem C04_gen_limits :
    Gen.C04.limits =
      [maxVarString, maxPayloadData, maxMultiSignCode, maxSignatureScript, signatureLength,
       negativeBigLength, compressedLen, maxProgramParam, maxProgramCode, maxTargetData,
       maxSideProducerID, maxScriptSize, maxBlockContext, maxBlockHeader, maxOpinionData,
       maxProposalData, txVersion09] := by decide

set_option maxRecDepth 8192 in
/-- the transaction types `GetTransaction` / `GetPayload` accept are exactly the types the table
    knows (covered or listed as uncovered); every other type byte is rejected by both -/
theorem C04_gen_txtypes :
    (List.range 256).all (fun t =>
      Gen.C04.txTypes.contains t == (match payloadOf t with | .invalid => false | _ => true)) = true := by
  decide +kernel

theorem C04_gen_payloadtypes : Gen.C04.payloadTypes = Gen.C04.txTypes := by decide

/-- valid attribute usages and output payload types -/
theorem C04_gen_usages : Gen.C04.attributeUsages = [0x00, 0x20, 0x81, 0x90, 0x91, 0x92] := by decide
theorem C04_gen_outputtypes : Gen.C04.outputTypes = [0, 1, 2, 3, 4, 5, 6, 7] := by decide

/-- T-gen token tie: for every covered Go type and every value of the `version` argument, the read
    sequence of `Deserialize` (with every size limit), the write sequence of `Serialize` (both
    regenerated from the source on every run) and the token sequence of the schema coincide.
    (Split in two halves to keep each kernel check short.) -/
theorem C04_gen_tokens_a :
    (WireTokens.expected.take 20).all (WireTokens.agree Gen.C04.streams) = true := by
  decide +kernel

theorem C04_gen_tokens_b :
    ((WireTokens.expected.drop 20).take 20).all (WireTokens.agree Gen.C04.streams) = true := by
  decide +kernel

theorem C04_gen_tokens_c :
    (WireTokens.expected.drop 40).all (WireTokens.agree Gen.C04.streams) = true := by
  decide +kernel

/-- every regenerated stream has an expectation, all version-guard constants are below 10, and the
    transaction writer is the reader plus the head consumed by `GetTransactionByBytes` -/
theorem C04_gen_tokens_cover : WireTokens.coverage Gen.C04.streams WireTokens.expected = true := by
  decide +kernel

/-- Writer/reader mirror for **every** payload type `GetPayload` can return (CRCProposal once per
    proposal type), every output payload, header, confirm, attribute, input, output, program:
    the fully inlined write sequence of `Serialize` equals the read sequence of `Deserialize`
    (limits erased).  Needs no schema: a dropped, added or reordered field on either side breaks it. -/
theorem C04_gen_mirror_all : Gen.C04.mirrorStreams.all WireTokens.mirrors = true := by
  decide +kernel

theorem C04_gen_mirror_count : Gen.C04.mirrorStreams.length = 64 := by decide

/-- the only writer-side `if x != nil` guard walked through (a nil `UpgradeCodeInfo` is written as
    nothing and cannot be read back) -/
theorem C04_gen_nil_guards : Gen.C04.nilGuards = ["p.UpgradeCodeInfo != nil"] := by decide

/-- schema tokens = reader tokens (with limits) = writer tokens, on the deep streams, for the payloads
    added in round 2 -/
theorem C04_gen_tokens_deep :
    WireTokens.expectedDeep.all (WireTokens.agree Gen.C04.mirrorStreams) = true := by
  decide +kernel

/-! ## the token tie holds for every version, not only the checked ones -/

/-- every version-guard constant of every regenerated stream is below 10 -/
theorem C04_gen_guards_below :
    (Gen.C04.streams.all fun s => WireTokens.guardsBelow 10 s.ser && WireTokens.guardsBelow 10 s.de) = true ∧
    (Gen.C04.mirrorStreams.all fun s => WireTokens.guardsBelow 10 s.ser && WireTokens.guardsBelow 10 s.de) = true := by
  decide +kernel

/-- … hence (general lemma `WireTokens.tokens_const`, by induction on the stream) the reader and writer
    token sequences of every stream at any version `v ≥ 10` are the ones at version 10, which
    `C04_gen_tokens_*` compare with the schema. -/
theorem C04_tokens_every_version (s : WireTokens.Stream) (hs : s ∈ Gen.C04.streams) (v : Nat) (hv : 10 ≤ v) :
    WireTokens.deToks Gen.C04.streams s v = WireTokens.deToks Gen.C04.streams s 10 ∧
    WireTokens.serToks Gen.C04.streams s v = WireTokens.serToks Gen.C04.streams s 10 := by
  refine WireTokens.tokens_const hv _ (fun s' hs' => ?_) s hs
  have := (List.all_eq_true.1 C04_gen_guards_below.1) s' hs'
  simpa [Bool.and_eq_true] using this

theorem C04_tokens_every_version_deep (s : WireTokens.Stream) (hs : s ∈ Gen.C04.mirrorStreams) (v : Nat)
    (hv : 10 ≤ v) :
    WireTokens.deToks Gen.C04.mirrorStreams s v = WireTokens.deToks Gen.C04.mirrorStreams s 10 ∧
    WireTokens.serToks Gen.C04.mirrorStreams s v = WireTokens.serToks Gen.C04.mirrorStreams s 10 := by
  refine WireTokens.tokens_const hv _ (fun s' hs' => ?_) s hs
  have := (List.all_eq_true.1 C04_gen_guards_below.2) s' hs'
  simpa [Bool.and_eq_true] using this

/-- and on the schema side every payload of the table has the same layout at every version `≥ 4`
    (so at `v ≥ 10` it is the layout at 10) -/
theorem C04_payload_every_version (ty : Nat) (f : Nat → Ty) (h : payloadOf ty = .covered f) (v : Nat)
    (hv : 10 ≤ v) : f v = f 10 := by
  rw [covered_stable h v (by omega), covered_stable h 10 (by omega)]

end ElaVerif.C04
