import ElaVerif.Model.Frozen
import ElaVerif.Model.CCPolicy
import ElaVerif.Model.PolicyCtx
import ElaVerif.Gen.C32
/-!
# C32 — frozen addresses can neither spend nor receive

Theorems about `ElaVerif.Frozen.frozenCheck` (model of `checkFrozenAddresses`) for all
frozen lists, all input/output hash lists (any position of the frozen address), all heights;
and about `setupFrozen` (what `Settings.SetupConfig` does to the list).
-/
namespace ElaVerif.C32
open ElaVerif.Frozen

/-- generalised characterisation for the loop starting at index `i` -/
theorem frozenCheckFrom_ok_iff (fs : List Entry) (i : Nat) (ins outs : List Nat) (h : Nat) :
    frozenCheckFrom fs i ins outs h = .ok ↔
      ∀ e ∈ fs, ∀ x, e.hash = some x → e.start ≤ h → x ∉ ins ∧ x ∉ outs := by
  induction fs generalizing i with
  | nil => simp [frozenCheckFrom]
  | cons e es ih =>
    have hce : checkEntry e i ins outs h = .ok ↔
        ∀ x, e.hash = some x → e.start ≤ h → x ∉ ins ∧ x ∉ outs := by
      unfold checkEntry
      cases hh : e.hash with
      | none => simp
      | some y =>
        by_cases h1 : h < e.start
        · simp only [h1, ↓reduceIte, Option.some.injEq, true_iff]
          intro x _ h2; omega
        · by_cases h2 : ins.contains y = true
          · simp only [h1, ↓reduceIte, h2, reduceCtorEq, Option.some.injEq, false_iff]
            intro hall
            have := hall y rfl (by omega)
            simp only [List.contains_iff_mem] at h2
            exact this.1 h2
          · by_cases h3 : outs.contains y = true
            · simp only [h1, ↓reduceIte, h2, Bool.false_eq_true, h3, reduceCtorEq, Option.some.injEq, false_iff]
              intro hall
              have := hall y rfl (by omega)
              simp only [List.contains_iff_mem] at h3
              exact this.2 h3
            · simp only [h1, ↓reduceIte, h2, Bool.false_eq_true, h3, Option.some.injEq, true_iff]
              intro x hx _
              subst hx
              simp only [List.contains_iff_mem] at h2 h3
              exact ⟨h2, h3⟩
    unfold frozenCheckFrom
    cases hc : checkEntry e i ins outs h with
    | ok =>
      simp only [ih, List.mem_cons, forall_eq_or_imp]
      constructor
      · intro hes; exact ⟨hce.1 hc, hes⟩
      · intro hh; exact hh.2
    | spend j =>
      simp only [reduceCtorEq, List.mem_cons, forall_eq_or_imp, false_iff]
      intro hh; have := hce.2 hh.1; rw [hc] at this; cases this
    | receive j =>
      simp only [reduceCtorEq, List.mem_cons, forall_eq_or_imp, false_iff]
      intro hh; have := hce.2 hh.1; rw [hc] at this; cases this

/-- **Exact characterisation**: the check accepts iff no entry that is resolved and active at
    height `h` owns a referenced output or receives an output — wherever in the input or output
    lists the address sits, however many entries the list has. -/
theorem C32_ok_iff (fs : List Entry) (ins outs : List Nat) (h : Nat) :
    frozenCheck fs ins outs h = .ok ↔
      ∀ e ∈ fs, ∀ x, e.hash = some x → e.start ≤ h → x ∉ ins ∧ x ∉ outs :=
  frozenCheckFrom_ok_iff fs 0 ins outs h

/-- From the start height on, a transaction spending an output owned by a frozen address is rejected. -/
theorem C32_spend (fs : List Entry) (ins outs : List Nat) (h : Nat) (e : Entry) (x : Nat)
    (he : e ∈ fs) (hx : e.hash = some x) (hs : e.start ≤ h) (hin : x ∈ ins) :
    frozenCheck fs ins outs h ≠ .ok := by
  intro hok
  exact ((C32_ok_iff fs ins outs h).1 hok e he x hx hs).1 hin

/-- From the start height on, a transaction paying to a frozen address is rejected. -/
theorem C32_receive (fs : List Entry) (ins outs : List Nat) (h : Nat) (e : Entry) (x : Nat)
    (he : e ∈ fs) (hx : e.hash = some x) (hs : e.start ≤ h) (hout : x ∈ outs) :
    frozenCheck fs ins outs h ≠ .ok := by
  intro hok
  exact ((C32_ok_iff fs ins outs h).1 hok e he x hx hs).2 hout

example : frozenCheck [⟨some 7, 100⟩] [1, 2, 7] [3] 100 = .spend 0 := by decide
example : frozenCheck [⟨some 9, 50⟩, ⟨some 7, 100⟩] [1, 2] [3, 7] 100 = .receive 1 := by decide
example : frozenCheck [⟨some 7, 100⟩] [7] [7] 99 = .ok := by decide

/-- Before every entry's start height the check is a no-op (history stays syncable). -/
theorem C32_before_start (fs : List Entry) (ins outs : List Nat) (h : Nat)
    (hb : ∀ e ∈ fs, h < e.start) : frozenCheck fs ins outs h = .ok := by
  rw [C32_ok_iff]
  intro e he x _ hs
  have := hb e he; omega

/-- Transactions that do not touch a frozen address are never affected. -/
theorem C32_untouched (fs : List Entry) (ins outs : List Nat) (h : Nat)
    (hu : ∀ e ∈ fs, ∀ x, e.hash = some x → x ∉ ins ∧ x ∉ outs) :
    frozenCheck fs ins outs h = .ok := by
  rw [C32_ok_iff]
  intro e he x hx _
  exact hu e he x hx

/-- `references` is a Go map and outputs may come in any order: acceptance depends only on the
    *sets* of input and output hashes. -/
theorem C32_order_irrelevant (fs : List Entry) (ins ins' outs outs' : List Nat) (h : Nat)
    (hi : ∀ x, x ∈ ins ↔ x ∈ ins') (ho : ∀ x, x ∈ outs ↔ x ∈ outs') :
    (frozenCheck fs ins outs h = .ok ↔ frozenCheck fs ins' outs' h = .ok) := by
  simp only [C32_ok_iff, hi, ho]

/-! ## configuration -/

/-- On mainnet the configured list is the coordinated one whatever the configuration file says. -/
theorem C32_mainnet_list (isTR : Bool) (addr hash : Nat) (file : Option (List CfgEntry)) :
    setupFrozen true isTR addr hash file = mainnetList addr hash := by
  simp [setupFrozen, enforceFrozen]

/-- … so on mainnet, for any config file, spending from / paying to the coordinated address is
    rejected from height 2256110 on. -/
theorem C32_mainnet_policy (isTR : Bool) (addr hash : Nat) (file : Option (List CfgEntry))
    (ins outs : List Nat) (h : Nat) (hh : 2256110 ≤ h) (ht : hash ∈ ins ∨ hash ∈ outs) :
    frozenCheck (toEntries (setupFrozen true isTR addr hash file)) ins outs h ≠ .ok := by
  rw [C32_mainnet_list]
  rcases ht with ht | ht
  · exact C32_spend _ ins outs h ⟨some hash, 2256110⟩ hash (by simp [toEntries, mainnetList]) rfl hh ht
  · exact C32_receive _ ins outs h ⟨some hash, 2256110⟩ hash (by simp [toEntries, mainnetList]) rfl hh ht

/-- Other networks keep their own list (file, or the preset when the file has none). -/
theorem C32_others_keep (isTR : Bool) (addr hash : Nat) (file : List CfgEntry) :
    setupFrozen false isTR addr hash (some file) = file := by
  cases isTR <;> simp [setupFrozen, enforceFrozen]

/-! ## ties to the regenerated facts -/

/-- the coordinated list: one entry, the exploit intermediate address, which *decodes* (so the
    entry is not skipped as `ProgramHash == nil`), starting at the mainnet freeze height -/
theorem C32_gen_mainnet_list :
    Gen.C32.mainnetFrozen = [("EfduuvdDcAgif8njgXNJUfsBumQf9yYP72", 2256110, Gen.C32.exploitHashHex)] ∧
    Gen.C32.exploitHashHex.length = 42 ∧
    Gen.C32.mainnetFreeze = 2256110 ∧
    Gen.C32.presetLists = [1, 0, 0] := by decide

/-- enforcement switch: the same mainnet name list as for C31; the mainnet clause assigns the
    coordinated list, the default clause assigns nothing -/
theorem C32_gen_enforce :
    Gen.C32.enforceCases.map (·.map CCPolicy.str) = [CCPolicy.mainnetNames, []] ∧
    Gen.C32.enforceAssigns = [["configuration.FrozenAddresses = config.MainNetFrozenAddresses()"], []] := by decide

/-- in `SetupConfig` the list is forced after every step that can change the configuration and
    **before** `Sterilize` resolves addresses to program hashes (an unresolved entry would be skipped) -/
theorem C32_gen_setup_order :
    CCPolicy.allBefore ["(*common/config/settings.Settings).loadConfigFile", "github.com/RainFallsSilent/screw.Bind",
               "(*common/config.Configuration).TestNet", "(*common/config.Configuration).RegNet",
               "(*common/config.Configuration).InstantBlock"]
      "common/config/settings.enforceFrozenAddresses" Gen.C32.setupConfigCalls = true ∧
    CCPolicy.firstBefore "common/config/settings.enforceFrozenAddresses"
      "(*common/config.Configuration).Sterilize" Gen.C32.setupConfigCalls = true ∧
    Gen.C32.sterilizeResolvesFrozen = true := by decide

/-- only the coinbase transaction replaces the default context check (the property exempts
    coinbase), and the default context check calls the frozen-address check right after the
    references are resolved, before type-specific, fee and signature checks -/
theorem C32_gen_context_check :
    Gen.C32.contextCheckReceivers = ["CoinBaseTransaction", "DefaultChecker"] ∧
    CCPolicy.firstBefore "core/transaction.checkFrozenAddresses"
      "(core/types/interfaces.BaseTransactionChecker).SpecialContextCheck" Gen.C32.defaultContextCheckCalls = true ∧
    CCPolicy.firstBefore "(*core/transaction.DefaultChecker).GetTxReference"
      "core/transaction.checkFrozenAddresses" Gen.C32.defaultContextCheckCalls = true ∧
    Gen.C32.coinbaseContextCheckCallsFrozen = false := by decide

/-- the check is called with the transaction, the resolved references, the **block height of the
    validation context** (not the chain's current height) and the configured list, in this order -/
theorem C32_gen_call_args :
    Gen.C32.frozenCallArgs =
      ["t.parameters.Transaction", "references", "t.parameters.BlockHeight",
       "t.parameters.Config.FrozenAddresses"] := by decide

/-! ## through `ContextCheck` (model of the `ctx` ops: the real context check on an in-process node) -/

open ElaVerif.PolicyCtx in
/-- The context check of a block at height `h` does not pass a transaction that spends from or
    pays to an address frozen from `e.start ≤ h` on — whatever its type, payload version and the
    cross-chain heights. -/
theorem C32_context_rejects (ty ver h f r : Nat) (fs : List Entry) (ins outs : List Nat) (e : Entry) (x : Nat)
    (he : e ∈ fs) (hx : e.hash = some x) (hs : e.start ≤ h) (ht : x ∈ ins ∨ x ∈ outs) :
    contextPolicies ty ver h f r fs ins outs ≠ .passed := by
  unfold contextPolicies
  cases hv : CCPolicy.ccPolicy ty ver (ins.map prefixOf) h f r <;> simp only [ne_eq, reduceCtorEq, not_false_eq_true]
  have hne : frozenCheck fs ins outs h ≠ .ok := by
    rcases ht with ht | ht
    · exact C32_spend fs ins outs h e x he hx hs ht
    · exact C32_receive fs ins outs h e x he hx hs ht
  cases hfz : frozenCheck fs ins outs h with
  | ok => exact absurd hfz hne
  | spend i => simp
  | receive i => simp

example : PolicyCtx.contextPolicies 2 0 4 9 9 [⟨some 70, 4⟩] [79] [70] = .fz (.receive 0) := by decide

/-- **Every path into the context check** (regenerated): `ContextCheck` is called from exactly one
    place, `BlockChain.CheckTransactionContext`, which hands it the caller's block height and the
    chain's own parameters; and every caller of that function passes the height the transaction is
    validated **for** — block validation the block's height, mempool admission and clean-up the
    best height + 1, block assembly the next block height.  (The `e2e` ops execute the first three
    paths and the RPC path on a real node.) -/
theorem C32_gen_context_paths :
    Gen.C32.contextCheckCallers = ["blockchain.BlockChain.CheckTransactionContext para"] ∧
    Gen.C32.contextParameters = ["tx", "blockHeight", "timeStamp", "b.chainParams", "b", "proposalsUsedAmount"] ∧
    Gen.C32.contextCallSites.all (fun s => ["block.Height", "bestHeight + 1", "nextBlockHeight"].contains s.2) = true ∧
    (Gen.C32.contextCallSites.map (·.1)).contains "blockchain.BlockChain.checkTxsContext" = true ∧
    (Gen.C32.contextCallSites.map (·.1)).contains "mempool.TxPool.appendToTxPool" = true := by decide

/-- **No command-line route**: the two heights, the frozen list and the net name carry no `screw:`
    tag, so no command-line flag is bound to them; the configuration file is the only way to set
    them, and `SetupConfig` overrides it (`C32_gen_setup_order`). -/
theorem C32_gen_no_cli_flags :
    Gen.C32.policyFieldTags =
      [("CrossChainUTXOFreezeHeight", ""), ("CrossChainUTXORestrictionHeight", ""),
       ("FrozenAddresses", "json:\"FrozenAddresses\""), ("ActiveNet", "json:\"ActiveNet\"")] := by decide

/-- the coordinated frozen entry is pinned against the operator documentation
    (`docs/config.json.md`): same address, same start height -/
theorem C32_gen_documented_list :
    Gen.C32.docFrozenAddresses = Gen.C32.mainnetFrozen.map (·.1) ∧
    Gen.C32.docLiterals.contains ("DisableStartHeight", 2256110) = true ∧
    Gen.C32.mainnetFrozen.map (·.2.1) = [2256110] := by decide

end ElaVerif.C32
