import ElaVerif.Lemmas.Proposal
/-!
# C29 — proposal spending stays within approved budgets  (claimed **partial**)

Theorems about the abstract machine of `Model/Proposal.lean` (mirror of the budget checks
of CRCProposal / CRCProposalTracking / CRCProposalWithdraw and of the two-phase bookkeeping of
`cr/state`), tied to the Go code by the correspondence run of `harness/cmd/c29`.

What is proved (step level, for all inputs):
* `C29_commit_partial` — proposals accepted in one block against the running
  `proposalsUsedAmount` commit at most what is available: `used + Σ budgets ≤ stage amount`.
* `C29_withdraw_step_partial` — a withdrawal accepted against the proposal as it stands
  pays exactly the withdrawable-and-not-yet-withdrawn stages, marks exactly those as
  withdrawn (so each stage is paid once, only after becoming withdrawable) and keeps
  `paid = Σ withdrawn ≤ Σ approved`.
The full-strength block statement is FALSE (`C29_two_withdraws_false`): two withdrawals of one
proposal in one block are both checked against the pre-block proposal and both recorded for
payment.  Missing for a whole-history theorem: the induction over blocks (only the step
lemmas and the refutation are proved); the history level is covered by the correspondence
and the oracle only.
-/
namespace ElaVerif.C29
open ElaVerif.Proposal
open ElaVerif.Deposit (get)

/-! ## committed ≤ available -/

/-- **Partial** (step level): the budgets of all proposals accepted in one block fit into the
    committee's remaining funds — after the block `used + Σ budgets ≤ stage amount`. -/
theorem C29_commit_partial (s0 : State) (bss : List (List BEntry)) (hpos : s0.used ≤ s0.stage)
    (h : acceptAll s0 0 bss) : s0.used + sumTotals bss ≤ s0.stage ∧ 0 ≤ sumTotals bss := by
  obtain ⟨h1, h2⟩ := acceptAll_bound s0 bss 0 (by omega) h
  omega

example : acceptAll ⟨1000, 100, 100, []⟩ 0
    [[⟨.imprest, 0, 10, false, false⟩, ⟨.final, 1, 20, false, false⟩], [⟨.normal, 1, 30, false, false⟩, ⟨.final, 2, 30, false, false⟩]] := by
  refine ⟨by decide, by decide, trivial⟩

/-! ## a withdrawal pays each withdrawable stage once -/

/-- **Partial** (step level): a withdrawal that passes the context check against the proposal as
    it stands records for payment exactly the withdrawable-and-not-withdrawn amount, after
    which `paid = Σ withdrawn stages ≤ Σ approved budgets`. Missing: the lift to blocks —
    false without "one withdrawal per proposal per block", see `C29_two_withdraws_false`. -/
theorem C29_withdraw_step_partial (P : Params) (h id : Nat) (p : Prop') (amount : Int)
    (hok : PropOK p) (hc : checkWithdraw P p amount = none) :
    let p' := propStep h p (.withdraw id amount) p
    p'.paid = p.paid + avail p.budgets ∧ p'.paid = withdrawnSum p'.budgets ∧
    p'.paid ≤ total p.budgets ∧ 0 < amount - P.wdFee := by
  obtain ⟨hnd, hpos, hsub, hpaid⟩ := hok
  have hamt : amount = avail p.budgets ∧ P.wdFee < amount := by
    unfold checkWithdraw at hc
    repeat (first | (split at hc; (first | cases hc | skip)))
    all_goals (try cases hc)
    all_goals omega
  have hmark := withdrawnSum_mark (withdrawing p.budgets) p.budgets
    (fun b hb => mem_withdrawing p.budgets hnd b hb)
  have hle : withdrawnSum (markWn (withdrawing p.budgets) p.budgets) ≤ total (markWn (withdrawing p.budgets) p.budgets) := by
    apply withdrawnSum_le_total
    intro b hb
    simp only [markWn, List.mem_map] at hb
    obtain ⟨b0, hb0, rfl⟩ := hb
    split <;> exact hpos b0 hb0
  have htot : total (markWn (withdrawing p.budgets) p.budgets) = total p.budgets := by
    generalize withdrawing p.budgets = S
    induction p.budgets with
    | nil => rfl
    | cons x t ih =>
      have e1 : total (markWn S (x :: t)) = x.amount + total (markWn S t) := by
        simp only [markWn, List.map_cons, total, List.foldr_cons]; split <;> rfl
      rw [e1, ih]; simp [total]
  simp only [propStep]
  refine ⟨by omega, by omega, by omega, by omega⟩

/-! ## the excluded point -/

def wP : Params := ⟨2, 2, 2, 10000, 300000000000000⟩

def wProp : Prop' :=
  { budgets := [⟨.imprest, 0, 100000000000, true, false⟩, ⟨.normal, 1, 200000000000, false, false⟩, ⟨.final, 2, 50000000000, false, false⟩],
    status := .voterAgreed, paid := 0, votes := [], regH := 2, voteH := 4, reject := 0 }

/-- the witness proposal after the block: one stage marked withdrawn, twice its amount recorded for payment -/
def wPropAfter : Prop' :=
  { budgets := [⟨.imprest, 0, 100000000000, true, true⟩, ⟨.normal, 1, 200000000000, false, false⟩, ⟨.final, 2, 50000000000, false, false⟩],
    status := .voterAgreed, paid := 200000000000, votes := [], regH := 2, voteH := 4, reject := 0 }

def wS : State := ⟨10000000000000, 350000000000, 0, [(0, wProp)]⟩

def wTxs : List Tx := [.withdraw 0 100000000000, .withdraw 0 100000000000]

/-- Full-strength block statement for payouts: after any block whose transactions all pass the
    context check, what is recorded for payment equals the stages marked withdrawn. -/
def PayoutFullStrength : Prop :=
  ∀ (P : Params) (h : Nat) (s : State) (txs : List Tx) (id : Nat) (p : Prop') (p' : Prop'),
    get id s.props = some p → PropOK p → (∀ tx ∈ txs, check P s 0 tx = none) →
    get id (endBlock P h (txs.foldl (applyTx h s) s)).props = some p' → p'.paid = withdrawnSum p'.budgets

/-- It is false: two CRCProposalWithdraw of one proposal in one block both pass the check
    against the pre-block proposal (1000 ELA withdrawable) and both are recorded
    for payment: paid = 2000 ELA, withdrawn stages = 1000 ELA. Replayed on the real code from
    `corpus/C29/two-withdraws-one-block.ops`. -/
theorem C29_two_withdraws_false : ¬ PayoutFullStrength := by
  intro hfull
  have hget : get 0 (endBlock wP 10 (wTxs.foldl (applyTx 10 wS) wS)).props = some wPropAfter := by
    decide
  have hok : PropOK wProp := by
    refine ⟨by decide, ?_, ?_, by decide⟩
    · intro b hb; simp [wProp] at hb; rcases hb with rfl | rfl | rfl <;> decide
    · intro b hb; simp [wProp] at hb; rcases hb with rfl | rfl | rfl <;> decide
  have := hfull wP 10 wS wTxs 0 wProp _ (by decide) hok
    (by intro tx htx; simp only [wTxs, List.mem_cons, List.mem_nil_iff, or_false] at htx
        rcases htx with rfl | rfl <;> decide) hget
  revert this; decide

/-- non-vacuity of `C29_withdraw_step_partial`: the witness proposal satisfies its hypotheses. -/
example : checkWithdraw wP wProp 100000000000 = none := by decide

end ElaVerif.C29
