import ElaVerif.Lemmas.ProposalOwed
import ElaVerif.Gen.C29
/-!
# C29 — proposal spending stays within approved budgets  (claimed **partial**)

Theorems about the abstract machine of `Model/Proposal.lean` (mirror of the budget checks
of CRCProposal / CRCProposalTracking / CRCProposalWithdraw and of the two-phase bookkeeping of
`cr/state`), tied to the Go code by the correspondence run of `harness/cmd/c29`.

What is proved (step level, for all inputs):
* `C29_commit_partial` — proposals accepted in one block against the running
  `proposalsUsedAmount` commit at most what is available: `used + Σ budgets ≤ stage amount`.
* `C29_withdraw_step_partial` — a withdrawal accepted against the proposal as it stands
  pays exactly the withdrawable-and-not-yet-withdrawn stages, marks exactly those as
  withdrawn (so each stage is paid once, only after becoming withdrawable) and keeps
  `paid = Σ withdrawn ≤ Σ approved`.
The full-strength block statement is FALSE (`C29_two_withdraws_false`): two withdrawals of one
proposal in one block are both checked against the pre-block proposal and both recorded for
payment.  Missing for a whole-history theorem: the induction over blocks (only the step
lemmas and the refutation are proved); the history level is covered by the correspondence
and the oracle only.
-/
namespace ElaVerif.C29
open ElaVerif.Proposal
open ElaVerif.Deposit (get get_mapKV)

/-! ## committed ≤ available -/

/-- **Partial** (step level): the budgets of all proposals accepted in one block fit into the
    committee's remaining funds — after the block `used + Σ budgets ≤ stage amount`. -/
theorem C29_commit_partial (s0 : State) (bss : List (List BEntry)) (hpos : s0.used ≤ s0.stage)
    (h : acceptAll s0 0 bss) : s0.used + sumTotals bss ≤ s0.stage ∧ 0 ≤ sumTotals bss := by
  obtain ⟨h1, h2⟩ := acceptAll_bound s0 bss 0 (by omega) h
  omega

example : acceptAll ⟨1000, 100, 100, []⟩ 0
    [[⟨.imprest, 0, 10, false, false⟩, ⟨.final, 1, 20, false, false⟩], [⟨.normal, 1, 30, false, false⟩, ⟨.final, 2, 30, false, false⟩]] := by
  refine ⟨by decide, by decide, trivial⟩

/-! ## a withdrawal pays each withdrawable stage once -/

/-- **Partial** (step level): a withdrawal that passes the context check against the proposal as
    it stands records for payment exactly the withdrawable-and-not-withdrawn amount, after
    which `paid = Σ withdrawn stages ≤ Σ approved budgets`. Missing: the lift to blocks —
    false without "one withdrawal per proposal per block", see `C29_two_withdraws_false`. -/
theorem C29_withdraw_step_partial (P : Params) (h id : Nat) (p : Prop') (amount : Int)
    (hok : PropOK p) (hc : checkWithdraw P p amount = none) :
    let p' := propStep h p (.withdraw id amount) p
    p'.paid = p.paid + avail p.budgets ∧ p'.paid = withdrawnSum p'.budgets ∧
    p'.paid ≤ total p.budgets ∧ 0 < amount - P.wdFee := by
  obtain ⟨hnd, hpos, hsub, hpaid⟩ := hok
  have hamt : amount = avail p.budgets ∧ P.wdFee < amount := by
    unfold checkWithdraw at hc
    repeat (first | (split at hc; (first | cases hc | skip)))
    all_goals (try cases hc)
    all_goals omega
  have hmark := withdrawnSum_mark (withdrawing p.budgets) p.budgets
    (fun b hb => mem_withdrawing p.budgets hnd b hb)
  have hle : withdrawnSum (markWn (withdrawing p.budgets) p.budgets) ≤ total (markWn (withdrawing p.budgets) p.budgets) := by
    apply withdrawnSum_le_total
    intro b hb
    simp only [markWn, List.mem_map] at hb
    obtain ⟨b0, hb0, rfl⟩ := hb
    split <;> exact hpos b0 hb0
  have htot : total (markWn (withdrawing p.budgets) p.budgets) = total p.budgets := by
    generalize withdrawing p.budgets = S
    induction p.budgets with
    | nil => rfl
    | cons x t ih =>
      have e1 : total (markWn S (x :: t)) = x.amount + total (markWn S t) := by
        simp only [markWn, List.map_cons, total, List.foldr_cons]; split <;> rfl
      rw [e1, ih]; simp [total]
  simp only [propStep]
  refine ⟨by omega, by omega, by omega, by omega⟩

/-! ## the excluded point -/

def wP : Params := ⟨2, 2, 2, 10000, 300000000000000, 100⟩

def wProp : Prop' :=
  { budgets := [⟨.imprest, 0, 100000000000, true, false⟩, ⟨.normal, 1, 200000000000, false, false⟩, ⟨.final, 2, 50000000000, false, false⟩],
    status := .voterAgreed, paid := 0, votes := [], regH := 2, voteH := 4, reject := 0 }

/-- the witness proposal after the block: one stage marked withdrawn, twice its amount recorded for payment -/
def wPropAfter : Prop' :=
  { budgets := [⟨.imprest, 0, 100000000000, true, true⟩, ⟨.normal, 1, 200000000000, false, false⟩, ⟨.final, 2, 50000000000, false, false⟩],
    status := .voterAgreed, paid := 200000000000, votes := [], regH := 2, voteH := 4, reject := 0 }

def wS : State := ⟨10000000000000, 350000000000, 0, [(0, wProp)]⟩

def wTxs : List Tx := [.withdraw 0 100000000000, .withdraw 0 100000000000]

/-- Full-strength block statement for payouts: after any block whose transactions all pass the
    context check, what is recorded for payment equals the stages marked withdrawn. -/
def PayoutFullStrength : Prop :=
  ∀ (P : Params) (h : Nat) (s : State) (txs : List Tx) (id : Nat) (p : Prop') (p' : Prop'),
    get id s.props = some p → PropOK p → (∀ tx ∈ txs, check P s 0 tx = none) →
    get id (endBlock P h (txs.foldl (applyTx h s) s)).props = some p' → p'.paid = withdrawnSum p'.budgets

/-- It is false: two CRCProposalWithdraw of one proposal in one block both pass the check
    against the pre-block proposal (1000 ELA withdrawable) and both are recorded
    for payment: paid = 2000 ELA, withdrawn stages = 1000 ELA. Replayed on the real code from
    `corpus/C29/two-withdraws-one-block.ops`. -/
theorem C29_two_withdraws_false : ¬ PayoutFullStrength := by
  intro hfull
  have hget : get 0 (endBlock wP 10 (wTxs.foldl (applyTx 10 wS) wS)).props = some wPropAfter := by
    decide
  have hok : PropOK wProp := by
    refine ⟨by decide, ?_, ?_, by decide⟩
    · intro b hb; simp [wProp] at hb; rcases hb with rfl | rfl | rfl <;> decide
    · intro b hb; simp [wProp] at hb; rcases hb with rfl | rfl | rfl <;> decide
  have := hfull wP 10 wS wTxs 0 wProp _ (by decide) hok
    (by intro tx htx; simp only [wTxs, List.mem_cons, List.mem_nil_iff, or_false] at htx
        rcases htx with rfl | rfl <;> decide) hget
  revert this; decide

/-- non-vacuity of `C29_withdraw_step_partial`: the witness proposal satisfies its hypotheses. -/
example : checkWithdraw wP wProp 100000000000 = none := by decide

/-! ## whole histories -/

/-- the invariant: proposal ids are unique; every proposal record is well-formed — stages
    distinct, amounts ≥ 0, withdrawn ⊆ withdrawable, and what was recorded for payment is exactly the sum of the
    stages marked withdrawn (each stage counted once); the committee's used amount is within the stage amount. -/
def Inv (s : State) : Prop :=
  (keys s.props).Nodup ∧ (∀ id p, get id s.props = some p → PropOK p) ∧ s.used ≤ s.stage

/-- the block's transactions pass the context checks the way `checkTxsContext` runs them: each against the
    pre-block state, proposals additionally against the running `proposalsUsedAmount`. -/
def acceptTxs (P : Params) (s : State) : Int → List Tx → Bool
  | _, [] => true
  | acc, tx :: t => (check P s acc tx).isNone &&
      acceptTxs P s (acc + (match tx with | .propose _ bs => total bs | _ => 0)) t

/-- at most one withdrawal per proposal in the block. (The second guard of the brief, at most one tracking
    per proposal, is what a proof of "the counter never understates what is owed" would need; the conclusions
    below do not need it.) -/
def Guarded (txs : List Tx) : Prop := ∀ id, (txs.filter (isWithdraw id)).length ≤ 1

def applyBlock (P : Params) (h : Nat) (s : State) (txs : List Tx) : Option State :=
  if acceptTxs P s 0 txs then some (endBlock P h (txs.foldl (applyTx h s) s)) else none

theorem acceptTxs_facts (P : Params) (s : State) : ∀ (txs : List Tx) (acc : Int),
    0 ≤ s.stage - s.used - acc → acceptTxs P s acc txs = true →
    (∀ tx ∈ txs, ∃ a, check P s a tx = none) ∧ acc + proposedSum txs ≤ s.stage - s.used := by
  intro txs
  induction txs with
  | nil => intro acc h0 _; exact ⟨fun tx h => (by cases h), (by simp [proposedSum]; omega)⟩
  | cons tx t ih =>
    intro acc h0 h
    simp only [acceptTxs, Bool.and_eq_true, Option.isNone_iff_eq_none] at h
    obtain ⟨h1, h2⟩ := h
    cases tx with
    | propose id bs =>
      obtain ⟨ha, hb⟩ := checkPropose_none s acc bs h1
      obtain ⟨i1, i2⟩ := ih (acc + total bs) (by omega) h2
      refine ⟨?_, (by simp only [proposedSum]; omega)⟩
      intro tx htx
      rcases List.mem_cons.mp htx with rfl | htx
      · exact ⟨acc, h1⟩
      · exact i1 tx htx
    | review id m a =>
      obtain ⟨i1, i2⟩ := ih (acc + 0) (by omega) h2
      exact ⟨fun tx htx => (by rcases List.mem_cons.mp htx with rfl | htx; exact ⟨acc, h1⟩; exact i1 tx htx),
        (by simp only [proposedSum]; omega)⟩
    | rejvotes id a =>
      obtain ⟨i1, i2⟩ := ih (acc + 0) (by omega) h2
      exact ⟨fun tx htx => (by rcases List.mem_cons.mp htx with rfl | htx; exact ⟨acc, h1⟩; exact i1 tx htx),
        (by simp only [proposedSum]; omega)⟩
    | withdraw id a =>
      obtain ⟨i1, i2⟩ := ih (acc + 0) (by omega) h2
      exact ⟨fun tx htx => (by rcases List.mem_cons.mp htx with rfl | htx; exact ⟨acc, h1⟩; exact i1 tx htx),
        (by simp only [proposedSum]; omega)⟩
    | withdraw0 id i o0 o1 =>
      obtain ⟨i1, i2⟩ := ih (acc + 0) (by omega) h2
      exact ⟨fun tx htx => (by rcases List.mem_cons.mp htx with rfl | htx; exact ⟨acc, h1⟩; exact i1 tx htx),
        (by simp only [proposedSum]; omega)⟩
    | track id k st =>
      obtain ⟨i1, i2⟩ := ih (acc + 0) (by omega) h2
      exact ⟨fun tx htx => (by rcases List.mem_cons.mp htx with rfl | htx; exact ⟨acc, h1⟩; exact i1 tx htx),
        (by simp only [proposedSum]; omega)⟩

theorem chkP_of_check (P : Params) (s : State) (acc : Int) (id : Nat) (tx : Tx)
    (hc : check P s acc tx = none) : chkP id (get id s.props) tx := by
  cases tx with
  | propose id' bs => exact checkPropose_budgets s acc bs hc
  | withdraw id' amount =>
    intro hid; subst hid
    simp only [check] at hc
    cases hg : get id' s.props with
    | none => simp [hg] at hc
    | some p =>
      simp only [hg] at hc
      refine ⟨p, rfl, ?_⟩
      unfold checkWithdraw at hc
      repeat (first | (split at hc; (first | cases hc | skip)))
      all_goals (try cases hc)
      all_goals omega
  | withdraw0 id' inp out0 out1 =>
    intro hid; subst hid
    simp only [check] at hc
    cases hg : get id' s.props with
    | none => simp [hg] at hc
    | some p =>
      simp only [hg] at hc
      refine ⟨p, rfl, ?_⟩
      unfold checkWithdraw0 at hc
      split at hc
      · cases hc
      · by_cases hA : inp - out0 - out1Val out1 < P.minFee
        · simp [hA] at hc
        · by_cases hB : avail p.budgets = 0
          · simp [hA, hB] at hc
          · by_cases hC : out0 + (inp - out0 - out1Val out1) = avail p.budgets
            · cases out1 with
              | none => simp only [out1Val, out1Back] at hC ⊢; omega
              | some x =>
                obtain ⟨v, b⟩ := x
                cases b with
                | true => simp only [out1Val, out1Back] at hC ⊢; omega
                | false => simp [hA, hB] at hc
            · cases out1 with
              | none => simp [hA, hB, hC] at hc
              | some x =>
                obtain ⟨v, b⟩ := x
                cases b <;> simp [hA, hB, hC] at hc
  | review id' m a => trivial
  | rejvotes id' a => trivial
  | track id' k st => trivial

/-- **Partial** (guarded): a block accepted by the context checks with at most one withdrawal per proposal
    preserves the invariant. -/
theorem C29_inv_partial (P : Params) (h : Nat) (s : State) (txs : List Tx) (s' : State)
    (hinv : Inv s) (hwf : ∀ tx ∈ txs, wfTx tx) (hg : Guarded txs)
    (hb : applyBlock P h s txs = some s') : Inv s' := by
  obtain ⟨hnd, hok, hused⟩ := hinv
  unfold applyBlock at hb
  split at hb
  · rename_i hacc
    cases hb
    obtain ⟨hchk, hsum⟩ := acceptTxs_facts P s txs 0 (by omega) hacc
    have hndf := keys_foldl h s txs s hnd
    -- every proposal after the transactions is well-formed
    have hokf : ∀ id p, get id (txs.foldl (applyTx h s) s).props = some p → PropOK p := by
      intro id p hp
      rw [get_foldl_props] at hp
      have hfold := fold_prop_ok h id (get id s.props)
        (by cases hg0 : get id s.props with
            | none => trivial
            | some q => exact hok id q hg0)
        txs (get id s.props) hwf
        (fun tx htx => by obtain ⟨a, ha⟩ := hchk tx htx; exact chkP_of_check P s a id tx ha)
        (hg id)
        (by cases hg0 : get id s.props with
            | none => trivial
            | some q => exact hok id q hg0)
        (fun _ p0 hp0 => ⟨p0, hp0, Grow.refl _⟩)
      rw [hp] at hfold
      exact hfold
    obtain ⟨hu, hst⟩ := used_foldl h s txs s
    have hle := sumD_le s hok txs
    refine ⟨?_, ?_, ?_⟩
    · simp only [endBlock]; rw [keys_mapKV]; exact hndf
    · intro id p' hp'
      simp only [endBlock, get_mapKV] at hp'
      cases hf : get id (txs.foldl (applyTx h s) s).props with
      | none => simp [hf] at hp'
      | some p =>
        rw [hf] at hp'
        simp only [Option.map, Option.some.injEq] at hp'
        subst hp'
        exact updateProp_ok P h p (hokf id p hf)
    · have hrel := released_nonneg P h (txs.foldl (applyTx h s) s).props
        (fun kv hkv => hokf kv.1 kv.2 (get_of_mem _ hndf kv.1 kv.2 hkv))
      simp only [endBlock]
      rw [hu, hst]; omega
  · cases hb

/-- states reachable from a committee with no proposals through guarded, accepted blocks (any heights). -/
inductive Reachable (P : Params) (stage used0 : Int) : State → Prop
  | init : used0 ≤ stage → Reachable P stage used0 ⟨stage, used0, used0, []⟩
  | block (h : Nat) (s : State) (txs : List Tx) (s' : State) :
      Reachable P stage used0 s → (∀ tx ∈ txs, wfTx tx) → Guarded txs → applyBlock P h s txs = some s' →
      Reachable P stage used0 s'

/-- **Partial**: over all histories of guarded blocks the invariant holds. -/
theorem C29_reachable_partial (P : Params) (stage used0 : Int) (s : State)
    (hr : Reachable P stage used0 s) : Inv s := by
  induction hr with
  | init h0 => exact ⟨(by simp [keys]), fun id p h => (by simp [Deposit.get] at h), h0⟩
  | block h s txs s' _ hwf hg hb ih => exact C29_inv_partial P h s txs s' ih hwf hg hb

/-- the property in its own words, over all histories of guarded blocks: for every proposal the amount recorded
    for payment equals the sum of the stages marked withdrawn (each stage once), is at most the sum of the
    approved budgets, a withdrawn stage is a withdrawable stage, and the committee's used amount never exceeds
    its stage amount. -/
theorem C29_history_partial (P : Params) (stage used0 : Int) (s : State) (hr : Reachable P stage used0 s) :
    (∀ id p, get id s.props = some p →
        p.paid = withdrawnSum p.budgets ∧ p.paid ≤ total p.budgets ∧ (∀ b ∈ p.budgets, b.wn = true → b.w = true)) ∧
    s.used ≤ s.stage := by
  obtain ⟨_, hok, hu⟩ := C29_reachable_partial P stage used0 s hr
  refine ⟨fun id p hp => ?_, hu⟩
  obtain ⟨_, h2, h3, h4⟩ := hok id p hp
  exact ⟨h4, by rw [h4]; exact withdrawnSum_le_total _ h2, h3⟩

/-- non-vacuity: from the witness state a guarded block with a withdrawal, a progress tracking and a new
    proposal is accepted, and the hypotheses of `C29_inv_partial` hold for it. -/
def wGood : List Tx :=
  [.withdraw 0 100000000000, .track 0 .progress 1,
   .propose 1 [⟨.imprest, 0, 5000000000, false, false⟩, ⟨.final, 1, 7000000000, false, false⟩]]

example : applyBlock wP 10 wS wGood = some (endBlock wP 10 (wGood.foldl (applyTx 10 wS) wS)) ∧
    (∀ tx ∈ wGood, wfTx tx) ∧ Guarded wGood ∧ wS.used ≤ wS.stage := by
  refine ⟨by decide, ?_, ?_, by decide⟩
  · intro tx htx
    simp only [wGood, List.mem_cons, List.mem_nil_iff, or_false] at htx
    rcases htx with rfl | rfl | rfl
    · trivial
    · trivial
    · intro b hb; simp at hb; rcases hb with rfl | rfl <;> exact ⟨rfl, rfl⟩
  · intro id
    by_cases h0 : id = 0
    · subst h0; decide
    · have e0 : ((0 : Nat) == id) = false := by simp; omega
      simp [wGood, List.filter, isWithdraw, e0]

/-! ## the counter never understates what is owed -/

/-- at most one tracking per proposal in the block (the amount a tracking releases is computed on the pre-block
    proposal; the pool's slot `CRCProposalTrackingHash` enforces this for pooled transactions). -/
def GuardedT (txs : List Tx) : Prop := ∀ id, (txs.filter (isTrack id)).length ≤ 1

theorem chkT_of_check (P : Params) (s : State) (acc : Int) (tx : Tx) (hc : check P s acc tx = none) : chkT s tx := by
  cases tx with
  | propose id bs => exact (checkPropose_none s acc bs hc).1
  | track id k st =>
    intro p0 h0
    simp only [check, h0] at hc
    unfold checkTrack at hc
    split at hc
    · cases hc
    · rename_i hn; simpa using hn
  | review id m a => trivial
  | rejvotes id a => trivial
  | withdraw id a => trivial
  | withdraw0 id i o0 o1 => trivial

/-- **Partial** (guarded): in an accepted block with at most one tracking per proposal the committee's used-amount
    counter keeps covering everything still owed: `B + Σ owed ≤ used` is preserved (`owed` = all budgets of a live
    proposal, the withdrawable ones of a terminated / finished proposal, nothing for a cancelled one). Missing for
    full strength: the guard — two trackings of one proposal in one block release twice (finding
    C29-two-trackings-one-block, replayed from the corpus). -/
theorem C29_owed_partial (P : Params) (h : Nat) (s : State) (txs : List Tx) (s' : State) (B : Int)
    (hinv : Inv s) (ho : B + sumOwed s.props ≤ s.used) (hgt : GuardedT txs)
    (hb : applyBlock P h s txs = some s') : B + sumOwed s'.props ≤ s'.used := by
  obtain ⟨hnd, hok, hused⟩ := hinv
  unfold applyBlock at hb
  split at hb
  · rename_i hacc
    cases hb
    obtain ⟨hchk, _⟩ := acceptTxs_facts P s txs 0 (by omega) hacc
    obtain ⟨_, hfold⟩ := fold_owed h s B (fun id p0 h0 => (hok id p0 h0).2.1) txs s
      (fun tx htx => by obtain ⟨a, ha⟩ := hchk tx htx; exact chkT_of_check P s a tx ha)
      hgt hnd ho (fun id p0 h0 => ⟨p0, h0⟩) (fun id _ p0 h0 => ⟨p0, h0, rfl, rfl⟩)
    have hend := sumOwed_endBlock P h (txs.foldl (applyTx h s) s).props
    simp only [endBlock]
    omega
  · cases hb

/-- histories of accepted blocks that respect both guards -/
inductive ReachableT (P : Params) (stage used0 : Int) : State → Prop
  | init : used0 ≤ stage → ReachableT P stage used0 ⟨stage, used0, used0, []⟩
  | block (h : Nat) (s : State) (txs : List Tx) (s' : State) :
      ReachableT P stage used0 s → (∀ tx ∈ txs, wfTx tx) → Guarded txs → GuardedT txs →
      applyBlock P h s txs = some s' → ReachableT P stage used0 s'

/-- **Partial**: over all histories of blocks with at most one withdrawal and at most one tracking per proposal, the
    invariant of `C29_reachable_partial` holds and the counter covers what is owed:
    `used0 + Σ owed ≤ CRCCommitteeUsedAmount ≤ CRCCurrentStageAmount` — the committee never commits more than its
    available funds, in terms of the budgets themselves and not only of its own counter. -/
theorem C29_counter_partial (P : Params) (stage used0 : Int) (s : State) (hr : ReachableT P stage used0 s) :
    Inv s ∧ used0 + sumOwed s.props ≤ s.used ∧ used0 + sumOwed s.props ≤ s.stage := by
  have : Inv s ∧ used0 + sumOwed s.props ≤ s.used := by
    induction hr with
    | init h0 => exact ⟨⟨(by simp [keys]), fun id p h => (by simp [Deposit.get] at h), h0⟩, by simp [sumOwed]⟩
    | block h s txs s' _ hwf hg hgt hb ih =>
      exact ⟨C29_inv_partial P h s txs s' ih.1 hwf hg hb, C29_owed_partial P h s txs s' used0 ih.1 ih.2 hgt hb⟩
  exact ⟨this.1, this.2, Int.le_trans this.2 this.1.2.2⟩

/-- the excluded point of `GuardedT`: Progress on stage 1 and Terminated in one block — stage 1 (2000 ELA) is
    both released and made withdrawable, the counter ends 2000 ELA below what is owed. -/
theorem C29_two_trackings_false :
    ¬ (∀ (P : Params) (h : Nat) (s : State) (txs : List Tx) (s' : State) (B : Int),
        Inv s → B + sumOwed s.props ≤ s.used → applyBlock P h s txs = some s' → B + sumOwed s'.props ≤ s'.used) := by
  intro hfull
  have hinv : Inv wS := by
    refine ⟨by decide, ?_, by decide⟩
    intro id p hp
    simp only [wS, Deposit.get] at hp
    split at hp
    · cases hp
      refine ⟨by decide, ?_, ?_, by decide⟩
      · intro b hb; simp [wProp] at hb; rcases hb with rfl | rfl | rfl <;> decide
      · intro b hb; simp [wProp] at hb; rcases hb with rfl | rfl | rfl <;> decide
    · cases hp
  have := hfull wP 10 wS [.track 0 .progress 1, .track 0 .terminated 0] _ 0 hinv (by decide) (by decide : applyBlock wP 10 wS [.track 0 .progress 1, .track 0 .terminated 0] = some (endBlock wP 10 ([Tx.track 0 .progress 1, .track 0 .terminated 0].foldl (applyTx 10 wS) wS)))
  revert this; decide

/-! ## real payments: each pending withdrawal is paid once -/

theorem checkRealWd_facts (pending : List Nat) : ∀ (l seen : List Nat), checkRealWd pending seen l = none →
    l.Nodup ∧ (∀ i ∈ l, i ∈ pending ∧ i ∉ seen) := by
  intro l
  induction l with
  | nil => intro _ _; exact ⟨List.nodup_nil, fun i hi => (by cases hi)⟩
  | cons x t ih =>
    intro seen h
    simp only [checkRealWd] at h
    split at h
    · cases h
    · rename_i hp
      split at h
      · cases h
      · rename_i hs
        obtain ⟨hnd, hall⟩ := ih (x :: seen) h
        refine ⟨List.nodup_cons.mpr ⟨?_, hnd⟩, ?_⟩
        · intro hx
          exact (hall x hx).2 (by simp)
        · intro i hi
          rcases List.mem_cons.mp hi with rfl | hi
          · exact ⟨by simpa using hp, hs⟩
          · have := hall i hi
            exact ⟨this.1, fun hmem => this.2 (List.mem_cons_of_mem _ hmem)⟩

/-- An accepted real-withdraw list is duplicate-free and consists of pending withdrawals only: no withdrawal is
    paid twice by one transaction (the seeded `[h1, h2, h1]` is exactly what this excludes). -/
theorem C29_realwithdraw_nodup (pending l : List Nat) (h : checkRealWd pending [] l = none) :
    l.Nodup ∧ ∀ i ∈ l, i ∈ pending := by
  obtain ⟨h1, h2⟩ := checkRealWd_facts pending l [] h
  exact ⟨h1, fun i hi => (h2 i hi).1⟩

/-- … and none is paid twice in total: if the withdrawals paid so far (`paid`, duplicate-free) are no longer pending,
    then after an accepted real-withdraw transaction the paid list is still duplicate-free and still disjoint from
    what remains pending. -/
theorem C29_realwithdraw_once (pending paid l : List Nat) (hp : paid.Nodup) (hdis : ∀ i ∈ paid, i ∉ pending)
    (h : checkRealWd pending [] l = none) :
    (paid ++ l).Nodup ∧ ∀ i ∈ paid ++ l, i ∉ applyRealWd pending l := by
  obtain ⟨hnd, hpend⟩ := C29_realwithdraw_nodup pending l h
  constructor
  · rw [List.nodup_append]
    refine ⟨hp, hnd, ?_⟩
    intro a ha b hb hab
    subst hab
    exact hdis a ha (hpend a hb)
  · intro i hi hmem
    simp only [applyRealWd, List.mem_filter, decide_eq_true_eq] at hmem
    rcases List.mem_append.mp hi with hi | hi
    · exact hdis i hi hmem.1
    · exact hmem.2 hi

example : checkRealWd [0, 1, 2] [] [2, 0] = none ∧ checkRealWd [0, 1, 2] [] [0, 1, 0] = some "dup" ∧
    checkRealWd [0, 1] [] [0, 2] = some "unknown" := by decide

/-! ## T-gen: where the guards are enforced and where they are not (regenerated from the source on every run) -/

def slotHas (slot ty fn : String) : Bool :=
  Gen.C29.slots.any (fun s => s.1 == slot && s.2.any (fun p => p.1 == ty && p.2 == fn))

/-- the transaction pool keeps at most one CRCProposalWithdraw and at most one CRCProposalTracking per proposal hash. -/
theorem C29_gen_pool_enforces_guards :
    slotHas "slotCRCProposalHash" "CRCProposalWithdraw" "hashCRCProposalWithdrawProposalHash" = true ∧
    slotHas "slotCRCProposalTrackingHash" "CRCProposalTracking" "hashCRCProposalTrackingProposalHash" = true ∧
    slotHas "slotCRCProposalDraftHash" "CRCProposal" "hashCRCProposalDraftHash" = true := by decide

/-- block validation has no per-block rule for withdrawals or trackings, and `checkTxsContext` threads exactly the
    CRC proposal amount (`RecordCRCProposalAmount`) through its per-transaction `CheckTransactionContext` calls — the
    running amount of `acceptTxs` / `C29_commit_partial`: blocks are where `Guarded` / `GuardedT` are unenforced
    (findings C29-two-withdraws-one-block, C29-two-trackings-one-block). -/
theorem C29_gen_blocks_do_not_enforce_guards :
    (["CRCProposalWithdraw", "CRCProposalTracking", "CRCProposal", "CRCProposalReview"].all
      (fun ty => !(Gen.C29.blockDupCases.contains ty))) = true ∧
    Gen.C29.checkTxsContextCalls.contains "RecordCRCProposalAmount" = true ∧
    Gen.C29.checkTxsContextCalls.contains "b.CheckTransactionContext" = true := by decide

end ElaVerif.C29
